-- Root of the `Eru` library.  Checks build their own targets (`lake build Eru.Props.Cnn oracle_<group>`);
-- bin/setup builds every target named in checks/*.json.
import Eru.Basic.Outcome
