-- This module serves as the root of the `Eru` library.
-- Import modules here that should be built as part of the library.
import Eru.Basic
