/-
Model of `utils.Txn` / `utils.PCR` (/repo/utils/transaction.go).

Go source (abridged):

    txnCtx := WithTimeout(ctx, ttl)
    defer func() {                       // rollback
        txnErr = condErr; if txnErr == nil { txnErr = thenErr }
        if txnErr == nil { return }
        if rollback == nil { return }
        rollbackCtx := WithTimeout(NewInheritCtx(ctx), ttl)      // fresh TODO ctx + tracing values
        rollback(rollbackCtx, condErr != nil)                    // its error is only logged
    }()
    if condErr = cond(txnCtx); condErr == nil && then != nil {
        thenCtx := txnCtx
        if rollback == nil { thenCtx = WithTimeout(NewInheritCtx(ctx), ttl) }
        thenErr = then(thenCtx)
    }
    return txnErr

The combinator observes nothing of a step but "returned nil / returned an error", so the
table model `txn` takes the step outcomes as data; `txnM` is the same combinator over arbitrary
state-passing step bodies and `txnM_eq_table` (Eru/TxnProofs.lean) lifts every table theorem.

`ttl`: every context `Txn` creates gets its own `WithTimeout(·, ttl)`, counted from the moment it is
created: the step context at the top, the cancellation-immune context of `then` (when there is no
rollback) right before `then`, the rollback context right before the rollback.  `Slow` says which
step (if any) runs longer than `ttl`; a context created after that step starts with a fresh budget.
Trusted/assumed: the other steps take negligible time compared with `ttl`;
a context derived from `context.TODO()` is never cancelled by the caller's `cancel()`;
a context derived from the caller's context reports `ctx.Err() != nil` from the moment the
caller cancelled.  Both are checked by the correspondence harness (closures record `ctx.Err()`).
-/
namespace Eru.Txn

/-- the three step kinds -/
inductive Step where
  | cond | thn | rollback
  deriving Repr, DecidableEq, Inhabited

/-- outcome of a step that is present -/
inductive Out where
  | ok | fail
  deriving Repr, DecidableEq, Inhabited

/-- an optional step (`then` / `rollback` may be `nil`) -/
inductive Opt where
  | absent | present (o : Out)
  deriving Repr, DecidableEq, Inhabited

/-- the moment at which the caller cancels its context (fires only if the moment is reached) -/
inductive Cancel where
  | never
  | beforeCond | duringCond
  | beforeThen | duringThen
  | beforeRollback | duringRollback
  | afterAll
  deriving Repr, DecidableEq, Inhabited

def Cancel.all : List Cancel :=
  [.never, .beforeCond, .duringCond, .beforeThen, .duringThen, .beforeRollback, .duringRollback, .afterAll]

/-- position of the cancellation on the time line cond-entry(1) < cond-exit(3) < then-entry(5) < … -/
def Cancel.rank : Cancel → Nat
  | .beforeCond => 0 | .duringCond => 2 | .beforeThen => 4 | .duringThen => 6
  | .beforeRollback => 8 | .duringRollback => 10 | .never => 100 | .afterAll => 100

/-- observation moments: entry and exit of each step -/
def entryRank : Step → Nat | .cond => 1 | .thn => 5 | .rollback => 9
def exitRank : Step → Nat | .cond => 3 | .thn => 7 | .rollback => 11

/-- which step (at most one) runs for longer than `ttl` -/
inductive Slow where
  | none | cond | thn | rollback
  deriving Repr, DecidableEq, Inhabited

def Slow.all : List Slow := [.none, .cond, .thn, .rollback]

/-- the moment (on the time line of `Cancel.rank`) at which `ttl` has elapsed inside the slow step -/
def Slow.moment : Slow → Option Nat
  | .none => Option.none | .cond => some 2 | .thn => some 6 | .rollback => some 10

/-- a context created at time `birth` with a `ttl` timeout reports `DeadlineExceeded` at time `t` -/
def expiredAt (birth : Nat) (sl : Slow) (t : Nat) : Bool :=
  match sl.moment with
  | Option.none => false
  | some e => decide (birth < e) && decide (e < t)

/-- which context a step receives -/
inductive Ctx where
  | txn      -- derived from the caller's context: follows the caller's cancellation
  | inherit  -- derived from context.TODO(): the caller cannot cancel it
  deriving Repr, DecidableEq, Inhabited

/-- does a context of this kind report an error at time `t` when the caller cancels at `c`? -/
def Ctx.cancelledAt (k : Ctx) (c : Cancel) (t : Nat) : Bool :=
  match k with
  | .txn => decide (c.rank < t)
  | .inherit => false

/-- one observed step invocation -/
structure Call where
  step : Step
  ctx : Ctx
  cancelledAtEntry : Bool
  cancelledAtExit : Bool
  byCond : Option Bool      -- the `failureByCond` flag (rollback only)
  deriving Repr, DecidableEq, Inhabited

/-- which step's error `Txn` returned -/
inductive Ret where
  | nil | condErr | thenErr
  deriving Repr, DecidableEq, Inhabited

structure Result where
  calls : List Call
  ret : Ret
  panicked : Bool := false
  deriving Repr, DecidableEq, Inhabited

/-- when the context a step receives was created: the step context at the very start, an `inherit`
context right before the step it is made for -/
def birthOf (k : Ctx) (s : Step) : Nat :=
  match k with
  | .txn => 0
  | .inherit => entryRank s

/-- what a body can learn from its context: "does `ctx.Err()` report an error at time `t`?" -/
abbrev View := Nat → Bool

/-- the view the context of kind `k` handed to step `s` offers when the caller cancels at `c` and step
`sl` overruns `ttl`: cancelled by the caller (only `txn` contexts) or past its own deadline -/
def view (k : Ctx) (s : Step) (c : Cancel) (sl : Slow) : View :=
  fun t => k.cancelledAt c t || expiredAt (birthOf k s) sl t

def mkCall (s : Step) (k : Ctx) (c : Cancel) (sl : Slow) (flag : Option Bool) : Call :=
  { step := s, ctx := k, cancelledAtEntry := view k s c sl (entryRank s),
    cancelledAtExit := view k s c sl (exitRank s), byCond := flag }

/-- `utils.Txn` as a function of the step outcomes and the cancellation point -/
def txn (cond : Out) (thn rb : Opt) (c : Cancel) (sl : Slow := .none) : Result :=
  let c1 := [mkCall .cond .txn c sl none]
  -- body: cond, then `then` when cond succeeded and then != nil
  let thenCtx : Ctx := if rb = .absent then .inherit else .txn
  let (c2, thenFailed) : List Call × Bool :=
    match cond, thn with
    | .ok, .present o => ([mkCall .thn thenCtx c sl none], o == .fail)
    | _, _ => ([], false)
  -- deferred rollback
  let ret : Ret := if cond = .fail then .condErr else if thenFailed then .thenErr else .nil
  let c3 : List Call :=
    if ret = .nil then [] else
    match rb with
    | .absent => []
    | .present _ => [mkCall .rollback .inherit c sl (some (cond == .fail))]
  { calls := c1 ++ c2 ++ c3, ret := ret }

/-- `utils.PCR`: `Txn(prepare, commit, wrapper)` where the wrapper calls the user's rollback only
when `failureByCond` is false.  The observed calls are the user's closures; a `nil` rollback is a
nil-function call inside the wrapper (panic) when commit fails. -/
def pcr (prepare : Out) (commit rb : Opt) (c : Cancel) (sl : Slow := .none) : Result :=
  let r := txn prepare commit (.present .ok) c sl   -- the wrapper is never nil
  let userCalls := r.calls.filter fun k => !(k.step == .rollback && k.byCond == some true)
  let wrapperRunsUser := r.calls.any fun k => k.step == .rollback && k.byCond == some false
  if wrapperRunsUser && rb == .absent then
    { calls := userCalls.filter (fun k => k.step != .rollback), ret := r.ret, panicked := true }
  else
    { calls := userCalls.map (fun k => if k.step == .rollback then { k with byCond := none } else k),
      ret := r.ret }

/-! ### the same combinator over arbitrary step bodies -/

/-- a step body: receives its context (kind + what it can observe of it), transforms the world `σ`,
returns nil (`true`) or an error -/
abbrev Body (σ : Type) := Ctx → View → σ → Bool × σ

/-- one invocation of a body: which step, with which context, with which `failureByCond` flag -/
abbrev Inv := Step × Ctx × Option Bool

/-- `utils.Txn` over arbitrary bodies (`true` = returned nil) when the caller cancels at `c` and step `sl`
overruns `ttl`.
Returns which error is returned, the invocations made (in order) and the final world. -/
def txnM {σ : Type} (cond : Body σ) (thn : Option (Body σ)) (rb : Option (Bool → Body σ)) (c : Cancel) (sl : Slow) (s : σ) :
    Ret × List Inv × σ :=
  let (condOk, s1) := cond .txn (view .txn .cond c sl) s
  let thenCtx : Ctx := if rb.isNone then .inherit else .txn
  let (thenFailed, tr2, s2) : Bool × List Inv × σ :=
    match condOk, thn with
    | true, some f => let (ok, s') := f thenCtx (view thenCtx .thn c sl) s1; (!ok, [(.thn, thenCtx, none)], s')
    | _, _ => (false, [], s1)
  let ret : Ret := if !condOk then .condErr else if thenFailed then .thenErr else .nil
  let tr := (Step.cond, Ctx.txn, none) :: tr2
  if ret = .nil then (ret, tr, s2) else
  match rb with
  | none => (ret, tr, s2)
  | some f => (ret, tr ++ [(.rollback, .inherit, some (!condOk))], (f (!condOk) .inherit (view .inherit .rollback c sl) s2).2)

/-- the effect on the world of the body an invocation names -/
def applyInv {σ : Type} (cond : Body σ) (thn : Option (Body σ)) (rb : Option (Bool → Body σ)) (c : Cancel) (sl : Slow)
    (s : σ) (i : Inv) : σ :=
  match i with
  | (.cond, k, _) => (cond k (view k .cond c sl) s).2
  | (.thn, k, _) => match thn with | some f => (f k (view k .thn c sl) s).2 | none => s
  | (.rollback, k, some b) => match rb with | some f => (f b k (view k .rollback c sl) s).2 | none => s
  | (.rollback, _, none) => s

end Eru.Txn
