/-
Model of /repo/client/interceptor/retry.go (+ types.go) against a scripted server.

Server script: the i-th stream the server accepts sends `msgs` and then ends (`eof`: handler
returns nil, `err`: handler returns a status error, `hang`: handler waits for the client).  Streams
opened beyond the script break at once with an error.  A script element can also be `failed`: that
re-open attempt fails on the client (open or re-send error) and never reaches the server.

retryStream.RecvMsg:
    if err = s.ClientStream.RecvMsg(m); err == nil || errors.Is(err, context.Canceled) { return }
    return backoff.Retry(func() error {
        stream, err := s.newStream(); if err != nil { return err }
        s.setStream(stream)
        if err = stream.SendMsg(s.sent); err != nil { return err }
        return stream.RecvMsg(m)
    }, backoff.WithMaxRetries(backoff.WithContext(NewExponentialBackOff(), s.ctx), Max))

ASSUMED about cenkalti/backoff v4.2.1 (read in retry.go/tries.go/context.go): the operation runs
at most `Max+1` times per `Retry` call, stops at the first success, and a done context makes
`NextBackOff` return Stop, whereupon `ctx.Err()` is returned.  ASSUMED about gRPC: opening a stream
and sending the request on a healthy connection succeeds and reaches the server handler; under a
cancelled context the current stream's `RecvMsg` (also one that is blocked on a silent stream) fails
with a status error.  Whether a stream opened under an already cancelled context still reaches the
server handler is the explicit transport parameter `Cli.reach`; the theorems about cancellation
assume `reach = false`, which is what the harness observes on the real interceptor over bufconn
(`seen == seen_at_cancel` on every cancelled case).
Back-off delays are real time and not modelled.
-/
namespace Eru.Rpc.Retry

inductive End where
  | eof | err | hang
  deriving Repr, DecidableEq, Inhabited

inductive ErrClass where
  | eof | unavailable | ctxCanceled | rpcCanceled
  | blocked       -- the model's client would wait forever (script hangs and nobody cancels)
  deriving Repr, DecidableEq, Inhabited

/-- a stream the server serves: its messages, then how it ends -/
structure Served (μ : Type) where
  msgs : List μ
  fin : End
  deriving Repr, DecidableEq

/-- one element of a script = the outcome of one attempt to open a stream: either the server serves
it, or the attempt fails on the client side BEFORE the request reaches the server handler
(`newStream()` returns an error, or re-sending the stored request with `SendMsg(s.sent)` fails).
A failed attempt costs one operation of the retry budget exactly like a stream that delivers nothing. -/
inductive Stream (μ : Type) where
  | served (s : Served μ)
  | failed
  deriving Repr, DecidableEq

def Stream.msgs {μ} : Stream μ → List μ
  | .served s => s.msgs
  | .failed => []

def Stream.fin {μ} : Stream μ → End
  | .served s => s.fin
  | .failed => .err

/-- does the request of this attempt reach the server handler? -/
def Stream.reaches {μ} : Stream μ → Bool
  | .served _ => true
  | .failed => false

def endErr : End → ErrClass
  | .eof => .eof | .err => .unavailable | .hang => .blocked

/-- client + server state.  `reqs` is the server-side log of request payloads, one per stream that
reached a handler. -/
structure Cli (μ ρ : Type) where
  cur : List μ              -- messages of the current stream not yet delivered
  curEnd : End
  rest : List (Stream μ)    -- script not yet consumed
  sent : ρ                  -- `retryStream.sent`
  reqs : List ρ
  reach : Bool              -- transport: does a stream opened under a cancelled context reach the handler?
  cancelIs : Bool           -- transport: does the current stream report the caller's cancellation with an
                            -- error for which `errors.Is(err, context.Canceled)` holds (bare or wrapped
                            -- `ctx.Err()`), rather than with a gRPC status error?
  deriving Repr

inductive Recv (μ ρ : Type) where
  | msg (m : μ) (c : Cli μ ρ)
  | fail (e : ErrClass) (c : Cli μ ρ)

/-- the `backoff.Retry` loop: `fuel` operations left, `last` = error of the previous operation -/
def attempt {μ ρ} : Nat → ErrClass → Cli μ ρ → Recv μ ρ
  | 0, last, c => .fail last c
  | fuel + 1, _, c =>
    match c.rest with
    | [] => attempt fuel .unavailable { c with cur := [], curEnd := .err, reqs := c.reqs ++ [c.sent] }
    | s :: r =>
      let c' : Cli μ ρ := { c with cur := s.msgs.tail, curEnd := s.fin, rest := r,
                                   reqs := if s.reaches then c.reqs ++ [c.sent] else c.reqs }
      match s.msgs with
      | m :: _ => .msg m c'
      | [] => if s.fin = .hang then .fail .blocked c' else attempt fuel (endErr s.fin) c'

/-- `RecvMsg` once the caller's context is cancelled (before the call, or while the call is blocked
on a silent stream).  The current stream's `RecvMsg` fails.  The interceptor's test is
`errors.Is(err, context.Canceled)` — keyed on "the caller cancelled", not on the error's identity:
* if the error is (or wraps) `context.Canceled` (`c.cancelIs`), it is returned at once: no retry;
* a real gRPC stream reports a status error instead, for which `errors.Is` is false, so a watch stream
  does enter `backoff.Retry`: the operation runs once — `newStream()` under the cancelled context,
  which reaches the server handler iff `c.reach` — and fails; `NextBackOff` then sees the done context
  and returns Stop, and `ctx.Err()` is returned. -/
def recvCancelled {μ ρ} (watch : Bool) (c : Cli μ ρ) : Recv μ ρ :=
  if watch then
    if c.cancelIs then .fail .ctxCanceled c
    else .fail .ctxCanceled (if c.reach then { c with reqs := c.reqs ++ [c.sent] } else c)
  else .fail (if c.cancelIs then .ctxCanceled else .rpcCanceled) c

/-- `RecvMsg` of the stream returned by `NewStreamRetry` (`watch` = method is in `RPCNeedRetry`;
otherwise the raw gRPC stream is returned and nothing is ever re-opened) -/
def recvMsg {μ ρ} (watch : Bool) (max : Nat) (cancelled : Bool) (c : Cli μ ρ) : Recv μ ρ :=
  if cancelled then recvCancelled watch c
  else match c.cur with
  | m :: ms => .msg m { c with cur := ms }
  | [] =>
    if c.curEnd = .hang then .fail .blocked c
    else if watch then attempt (max + 1) (endErr c.curEnd) c
    else .fail (endErr c.curEnd) c

structure Run (μ ρ : Type) where
  delivered : List μ
  err : ErrClass
  final : Cli μ ρ

/-- the caller: `Recv` until an error; cancels its context once `cancelAfter` messages arrived and
then calls `Recv` once more.  `fuel` bounds the number of `Recv` calls (any value above the total
number of scripted messages is enough, `recvLoop_fuel`). -/
def recvLoop {μ ρ} (watch : Bool) (max : Nat) : Option Nat → Nat → Cli μ ρ → Run μ ρ
  | _, 0, c => { delivered := [], err := .blocked, final := c }
  | ca, fuel + 1, c =>
    match recvMsg watch max (ca == some 0) c with
    | .fail e c' => { delivered := [], err := e, final := c' }
    | .msg m c' =>
      let r := recvLoop watch max (ca.map (· - 1)) fuel c'
      { r with delivered := m :: r.delivered }

/-- the generated client stub: open the first stream, `SendMsg(req)` (remembered in `sent`).  The first
script element is the stream the call was created with (a failing creation is not a retry matter and
is not modelled: a `failed` first element is read as a stream that breaks at once). -/
def start {μ ρ} (reach cancelIs : Bool) (script : List (Stream μ)) (req : ρ) : Cli μ ρ :=
  match script with
  | [] => { cur := [], curEnd := .err, rest := [], sent := req, reqs := [req], reach := reach, cancelIs := cancelIs }
  | s :: r => { cur := s.msgs, curEnd := s.fin, rest := r, sent := req, reqs := [req], reach := reach, cancelIs := cancelIs }

def totalMsgs {μ} (script : List (Stream μ)) : Nat := (script.map (·.msgs.length)).sum

/-- the caller cancels from another goroutine while `Recv` is blocked on a silent stream -/
def cancelWhenBlocked {μ ρ} (watch : Bool) (r : Run μ ρ) : Run μ ρ :=
  if r.err = .blocked then
    match recvCancelled watch r.final with
    | .fail e c => { r with err := e, final := c }
    | .msg _ _ => r
  else r

/-- a whole call.  `reach`, `cancelIs`: transport parameters (see `Cli`); `cancelAfter`: the caller cancels
after that many messages; `cancelBlocked`: the caller cancels once `Recv` blocks. -/
def runStream {μ ρ} (reach cancelIs watch : Bool) (max : Nat) (cancelAfter : Option Nat) (cancelBlocked : Bool)
    (script : List (Stream μ)) (req : ρ) : Run μ ρ :=
  let r := recvLoop watch max cancelAfter (totalMsgs script + 2) (start reach cancelIs script req)
  if cancelBlocked then cancelWhenBlocked watch r else r

/-- `NewUnaryRetry`: `backoff.Retry(invoker, WithMaxRetries(…, Max))`; returns (attempts made, success).
`outcomes` = what the server answers to the i-th attempt; beyond the list it fails. -/
def unaryAttempts : Nat → List Bool → Nat × Bool
  | 0, _ => (0, false)
  | _ + 1, true :: _ => (1, true)
  | fuel + 1, false :: r => let (n, ok) := unaryAttempts fuel r; (n + 1, ok)
  | fuel + 1, [] => let (n, ok) := unaryAttempts fuel []; (n + 1, ok)

def runUnary (max : Nat) (outcomes : List Bool) : Nat × Bool := unaryAttempts (max + 1) outcomes

end Eru.Rpc.Retry
