import Eru.Rpc.Spec
/- helper lemmas for C36: the invariant linking client state, delivered messages and server log -/
namespace Eru.Rpc.Retry

variable {μ ρ : Type}

/-- `c'` is reachable from `c` by opening `k` further streams of the script, each time re-sending
the stored request, and `out` are the messages handed to the caller on the way -/
structure Adv (c c' : Cli μ ρ) (k : Nat) (out : List μ) : Prop where
  reqs : c'.reqs = c.reqs ++ List.replicate (srv c.rest k) c.sent
  sent : c'.sent = c.sent
  rest : c'.rest = c.rest.drop k
  msgs : out ++ c'.cur = c.cur ++ (c.rest.take k).flatMap (·.msgs)
  reach : c'.reach = c.reach
  cancelIs : c'.cancelIs = c.cancelIs

/-- no request can reach the server after the caller cancelled: the transport does not let a stream
opened under a cancelled context through, or the cancellation is reported as (a wrap of)
`context.Canceled` so that the interceptor does not even try -/
theorem srv_zero (rest : List (Stream μ)) : srv rest 0 = 0 := by cases rest <;> rfl

theorem srv_add (rest : List (Stream μ)) (k k' : Nat) : srv rest (k + k') = srv rest k + srv (rest.drop k) k' := by
  induction k generalizing rest with
  | zero => simp [srv_zero]
  | succ k ih =>
    have e : k + 1 + k' = (k + k') + 1 := by omega
    cases rest with
    | nil => rw [e]; simp only [srv, List.drop_nil]; have := ih ([] : List (Stream μ)); simp only [List.drop_nil] at this; omega
    | cons s r => rw [e]; simp only [srv, List.drop_succ_cons, ih r]; omega

theorem srv_le (rest : List (Stream μ)) (k : Nat) : srv rest k ≤ k := by
  induction k generalizing rest with
  | zero => simp [srv_zero]
  | succ k ih =>
    cases rest with
    | nil => simp only [srv]; have := ih ([] : List (Stream μ)); omega
    | cons s r => simp only [srv]; have := ih r; split <;> omega

def Quiet (c : Cli μ ρ) : Prop := c.reach = false ∨ c.cancelIs = true

theorem Quiet.of_adv {c c' : Cli μ ρ} {k : Nat} {o : List μ} (hq : Quiet c) (h : Adv c c' k o) : Quiet c' := by
  unfold Quiet; rw [h.reach, h.cancelIs]; exact hq

/-- error class of a `RecvMsg` after cancellation -/
def cancelErr (watch : Bool) (c : Cli μ ρ) : ErrClass :=
  if watch then .ctxCanceled else if c.cancelIs then .ctxCanceled else .rpcCanceled

theorem reqs_step (s : Stream μ) (r : List (Stream μ)) (reqs : List ρ) (sent : ρ) :
    (if s.reaches = true then reqs ++ [sent] else reqs) = reqs ++ List.replicate (srv (s :: r) 1) sent := by
  cases h : s.reaches <;> simp [srv, srv_zero, h]

theorem Adv.refl (c : Cli μ ρ) : Adv c c 0 [] := ⟨by simp [srv_zero], rfl, by simp, by simp, rfl, rfl⟩

theorem Adv.trans {c c' c'' : Cli μ ρ} {k k' : Nat} {o o' : List μ}
    (h : Adv c c' k o) (h' : Adv c' c'' k' o') : Adv c c'' (k + k') (o ++ o') := by
  refine ⟨?_, ?_, ?_, ?_, by rw [h'.reach, h.reach], by rw [h'.cancelIs, h.cancelIs]⟩
  · rw [h'.reqs, h.reqs, h.sent, h.rest, List.append_assoc, List.replicate_append_replicate, srv_add]
  · rw [h'.sent, h.sent]
  · rw [h'.rest, h.rest, List.drop_drop]
  · rw [List.append_assoc, h'.msgs, h.rest, ← List.append_assoc, h.msgs, List.append_assoc, List.take_add,
      List.flatMap_append]

/-- what a result of the `backoff.Retry` loop started in `c` with `fuel` operations must satisfy -/
def AttemptGood (c : Cli μ ρ) (fuel : Nat) : Recv μ ρ → Prop
  | .msg m c' => ∃ k, 1 ≤ k ∧ k ≤ fuel ∧ Adv c c' k [m]
  | .fail e c' => ∃ k, k ≤ fuel ∧ Adv c c' k [] ∧ c'.cur = [] ∧ (e ≠ .blocked → k = fuel)

theorem AttemptGood.step {c c1 : Cli μ ρ} {n : Nat} {r : Recv μ ρ} (h : Adv c c1 1 []) (g : AttemptGood c1 n r) :
    AttemptGood c (n + 1) r := by
  cases r with
  | msg m c' =>
    obtain ⟨k, h1, h2, h3⟩ := g
    exact ⟨1 + k, by omega, by omega, by simpa using h.trans h3⟩
  | fail e c' =>
    obtain ⟨k, h2, h3, h4, h5⟩ := g
    exact ⟨1 + k, by omega, by simpa using h.trans h3, h4, fun hh => by have := h5 hh; omega⟩

/-- result of the `backoff.Retry` loop -/
theorem attempt_adv (fuel : Nat) (last : ErrClass) (c : Cli μ ρ) (hc : c.cur = []) :
    AttemptGood c fuel (attempt fuel last c) := by
  induction fuel generalizing last c with
  | zero => exact ⟨0, Nat.le_refl _, by simpa [hc] using Adv.refl c, hc, fun _ => rfl⟩
  | succ n ih =>
    obtain ⟨cur, curEnd, rest, sent, reqs, reach, cancelIs⟩ := c
    simp only at hc
    subst hc
    cases rest with
    | nil =>
      simp only [attempt]
      exact AttemptGood.step (c1 := { cur := [], curEnd := .err, rest := [], sent := sent, reqs := reqs ++ [sent], reach := reach, cancelIs := cancelIs })
        ⟨by simp [srv, srv_zero], rfl, by simp, by simp, rfl, rfl⟩ (ih _ _ rfl)
    | cons s r =>
      simp only [attempt]
      cases hm : s.msgs with
      | cons m ms =>
        exact ⟨1, Nat.le_refl _, by omega, ⟨reqs_step s r reqs sent, rfl, by simp, by simp [hm], rfl, rfl⟩⟩
      | nil =>
        have step : Adv { cur := [], curEnd := curEnd, rest := s :: r, sent := sent, reqs := reqs, reach := reach, cancelIs := cancelIs }
            { cur := ([] : List μ).tail, curEnd := s.fin, rest := r, sent := sent, reqs := if s.reaches = true then reqs ++ [sent] else reqs, reach := reach, cancelIs := cancelIs } 1 [] :=
          ⟨reqs_step s r reqs sent, rfl, by simp, by simp [hm], rfl, rfl⟩
        by_cases hh : s.fin = .hang
        · simp only [hh, if_true]
          exact ⟨1, by omega, by simpa [hh] using step, rfl, fun h => absurd rfl h⟩
        · simp only [hh, if_false]
          exact AttemptGood.step step (ih _ _ rfl)

def RecvGood (watch : Bool) (max : Nat) (cancelled : Bool) (c : Cli μ ρ) : Recv μ ρ → Prop
  | .msg m c' => ∃ k, k ≤ max + 1 ∧ (watch = false → k = 0) ∧ cancelled = false ∧ Adv c c' k [m]
  | .fail e c' => ∃ k, k ≤ max + 1 ∧ (watch = false → k = 0) ∧ (cancelled = true → k = 0) ∧ Adv c c' k [] ∧
      (cancelled = false → c'.cur = []) ∧
      (watch = true → cancelled = false → e ≠ .blocked → k = max + 1)

/-- one `RecvMsg` -/
theorem recvCancelled_eq (watch : Bool) (c : Cli μ ρ) (hr : Quiet c) :
    recvCancelled watch c = .fail (cancelErr watch c) c := by
  rcases hr with hr | hr <;> cases watch <;> cases hci : c.cancelIs <;> simp_all [recvCancelled, cancelErr]

theorem recvMsg_adv (watch : Bool) (max : Nat) (cancelled : Bool) (c : Cli μ ρ) (hr : Quiet c) :
    RecvGood watch max cancelled c (recvMsg watch max cancelled c) := by
  unfold recvMsg
  cases cancelled with
  | true =>
    rw [if_pos rfl, recvCancelled_eq watch c hr]
    exact ⟨0, by omega, fun _ => rfl, fun _ => rfl, Adv.refl c, fun h => by simp at h, fun _ h => by simp at h⟩
  | false =>
    simp only [Bool.false_eq_true, if_false]
    cases hcur : c.cur with
    | cons m ms =>
      exact ⟨0, by omega, fun _ => rfl, rfl, ⟨by simp [srv_zero], rfl, by simp, by simp [hcur], rfl, rfl⟩⟩
    | nil =>
      by_cases hh : c.curEnd = .hang
      · simp only [hh, if_true]
        exact ⟨0, by omega, fun _ => rfl, fun _ => rfl, Adv.refl c, fun _ => hcur, fun _ _ h => absurd rfl h⟩
      · simp only [hh, if_false]
        cases watch with
        | false => exact ⟨0, by omega, fun _ => rfl, fun _ => rfl, Adv.refl c, fun _ => hcur, fun h => by simp at h⟩
        | true =>
          simp only [if_true]
          have := attempt_adv (max + 1) (endErr c.curEnd) c hcur
          cases hr : attempt (max + 1) (endErr c.curEnd) c with
          | msg m c' =>
            rw [hr] at this
            obtain ⟨k, _, h2, h3⟩ := this
            exact ⟨k, h2, fun h => by simp at h, rfl, h3⟩
          | fail e c' =>
            rw [hr] at this
            obtain ⟨k, h2, h3, h4, h5⟩ := this
            exact ⟨k, h2, fun h => by simp at h, fun h => by simp at h, h3, fun _ => h4, fun _ _ he => h5 he⟩

/-- the caller's loop -/
theorem recvLoop_adv (watch : Bool) (max : Nat) (fuel : Nat) (ca : Option Nat) (c : Cli μ ρ) (hr : Quiet c) :
    ∃ k, (watch = false → k = 0) ∧
      Adv c (recvLoop watch max ca fuel c).final k (recvLoop watch max ca fuel c).delivered := by
  induction fuel generalizing ca c with
  | zero => exact ⟨0, fun _ => rfl, by simpa [recvLoop] using Adv.refl c⟩
  | succ n ih =>
    unfold recvLoop
    have h1 := recvMsg_adv watch max (ca == some 0) c hr
    split
    · rename_i e c' heq
      rw [heq] at h1
      obtain ⟨k, _, hw, _, h, _, _⟩ := h1
      exact ⟨k, hw, h⟩
    · rename_i m c' heq
      rw [heq] at h1
      obtain ⟨k, _, hw, _, h⟩ := h1
      obtain ⟨k', hw', h'⟩ := ih (ca.map (· - 1)) c' (hr.of_adv h)
      exact ⟨k + k', fun hh => by rw [hw hh, hw' hh], by simpa using h.trans h'⟩

/-- after the caller cancelled, `RecvMsg` changes nothing on the server side -/
theorem recvMsg_cancelled (watch : Bool) (max : Nat) (c : Cli μ ρ) (hr : Quiet c) :
    recvMsg watch max true c = .fail (cancelErr watch c) c := by
  simp only [recvMsg, if_true]; exact recvCancelled_eq watch c hr

/-- messages still to come -/
def remaining (c : Cli μ ρ) : Nat := c.cur.length + totalMsgs c.rest

theorem totalMsgs_split (l : List (Stream μ)) (k : Nat) :
    totalMsgs l = ((l.take k).flatMap (·.msgs)).length + totalMsgs (l.drop k) := by
  induction l generalizing k with
  | nil => simp [totalMsgs]
  | cons s r ih =>
    cases k with
    | zero => simp [totalMsgs]
    | succ k =>
      have := ih k
      simp only [totalMsgs, List.map_cons, List.sum_cons, List.take_succ_cons, List.flatMap_cons, List.length_append,
        List.drop_succ_cons] at this ⊢
      omega

theorem Adv.remaining {c c' : Cli μ ρ} {k : Nat} {o : List μ} (h : Adv c c' k o) :
    o.length + remaining c' = remaining c := by
  have h1 := congrArg List.length h.msgs
  have h2 := totalMsgs_split c.rest k
  simp only [List.length_append] at h1
  unfold Retry.remaining
  rw [h.rest]
  omega

/-- with enough fuel an uncancelled run ends because `RecvMsg` failed: nothing is left undelivered -/
theorem recvLoop_cur_nil (watch : Bool) (max : Nat) (fuel : Nat) (c : Cli μ ρ) (hr : Quiet c) (hf : remaining c < fuel) :
    (recvLoop watch max none fuel c).final.cur = [] := by
  induction fuel generalizing c with
  | zero => omega
  | succ n ih =>
    unfold recvLoop
    have h1 := recvMsg_adv watch max ((none : Option Nat) == some 0) c hr
    split
    · rename_i e c' heq
      rw [heq] at h1
      obtain ⟨k, _, _, _, _, h, _⟩ := h1
      exact h (by simp)
    · rename_i m c' heq
      rw [heq] at h1
      obtain ⟨k, _, _, _, h⟩ := h1
      have := h.remaining
      simp only [List.length_cons, List.length_nil] at this
      exact ih c' (hr.of_adv h) (by omega)

/-- cancelling after `n` messages yields a prefix of the uncancelled run, on both sides of the wire -/
theorem recvLoop_cancel_prefix (watch : Bool) (max : Nat) (fuel : Nat) (n : Nat) (c : Cli μ ρ) (hr : Quiet c) :
    (recvLoop watch max (some n) fuel c).delivered = ((recvLoop watch max none fuel c).delivered).take n ∧
    (recvLoop watch max (some n) fuel c).final.reqs <+: (recvLoop watch max none fuel c).final.reqs := by
  induction fuel generalizing n c with
  | zero => simp [recvLoop]
  | succ f ih =>
    cases n with
    | zero =>
      obtain ⟨k, _, h⟩ := recvLoop_adv watch max (f + 1) none c hr
      have hc : (recvLoop watch max (some 0) (f + 1) c).delivered = [] ∧
          (recvLoop watch max (some 0) (f + 1) c).final = c := by
        simp [recvLoop, recvMsg, recvCancelled_eq watch c hr]
      rw [hc.1, hc.2, h.reqs]
      exact ⟨by simp, List.prefix_append _ _⟩
    | succ n =>
      have e1 : ((some (n + 1) : Option Nat) == some 0) = false := by simp
      have e2 : ((none : Option Nat) == some 0) = false := by simp
      unfold recvLoop
      rw [e1, e2]
      have hadv := recvMsg_adv watch max false c hr
      cases hrm : recvMsg watch max false c with
      | fail e c' => simp
      | msg m c' =>
        rw [hrm] at hadv
        obtain ⟨_, _, _, _, ha⟩ := hadv
        have := ih n c' (hr.of_adv ha)
        simp only [Option.map_some, Nat.add_sub_cancel, Option.map_none, List.take_succ_cons]
        exact ⟨by rw [this.1], this.2⟩

theorem unaryAttempts_result (fuel : Nat) (outs : List Bool) :
    (unaryAttempts fuel outs).2 = (outs.take (unaryAttempts fuel outs).1).any id := by
  induction fuel generalizing outs with
  | zero => simp [unaryAttempts]
  | succ n ih =>
    cases outs with
    | nil => have := ih []; simpa [unaryAttempts] using this
    | cons b r =>
      cases b
      · have := ih r; simpa [unaryAttempts] using this
      · simp [unaryAttempts]

theorem unaryAttempts_bounds (fuel : Nat) (outs : List Bool) :
    (unaryAttempts fuel outs).1 ≤ fuel ∧ (1 ≤ fuel → 1 ≤ (unaryAttempts fuel outs).1) := by
  induction fuel generalizing outs with
  | zero => simp [unaryAttempts]
  | succ n ih =>
    cases outs with
    | nil => have := ih []; simp only [unaryAttempts]; omega
    | cons b r =>
      cases b
      · have := ih r; simp only [unaryAttempts]; omega
      · simp [unaryAttempts]

end Eru.Rpc.Retry
