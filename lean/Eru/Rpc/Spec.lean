import Eru.Rpc.Auth
import Eru.Rpc.Retry
/-
Decidable specifications of C35 and C36 as evaluated by the oracle on the implementation's output.
-/
namespace Eru.Rpc.Auth

/-- clauses of C35 violated by an observed call (`served` = the handler ran and the call succeeded) -/
def specAuth (cfg : Cred) (cred : Option Cred) (extra : List (Str × Str)) (served : Bool) : List String :=
  let w := wire cred extra
  (if served && !presents cfg cred extra then ["served-without-credentials"] else []) ++
  (if !served && wireOk w && inDomain w && presents cfg cred extra then ["rejected-with-credentials"] else []) ++
  (if !served && cred == some cfg && extra.isEmpty && wireOk w && inDomain w then ["same-credentials-rejected"] else [])

end Eru.Rpc.Auth

namespace Eru.Rpc.Retry

/-- the watch streams of the property: the two status-watching RPCs -/
def watchMethods : List String := ["/pb.CoreRPC/WatchServiceStatus", "/pb.CoreRPC/WorkloadStatusStream"]

/-- clauses violated by the allow-list found in the source (`interceptor.RPCNeedRetry`) -/
def specAllow (allow : List String) : List String :=
  (if allow.all watchMethods.contains then [] else ["non-watch-method-in-allow-list"]) ++
  (if watchMethods.all allow.contains then [] else ["watch-method-not-in-allow-list"])

def isEmptyStream {μ} (s : Stream μ) : Bool := s.msgs.isEmpty

def emptyErr {μ} : Stream μ := .served { msgs := [], fin := .err }

/-- the `n` streams the server actually served: the script, continued by "break at once" streams -/
def openedFrom {μ} (rest : List (Stream μ)) (n : Nat) : List (Stream μ) :=
  rest.take n ++ List.replicate (n - rest.length) emptyErr

/-- how many of the first `k` open attempts (script `rest`, continued by served "break at once"
streams) reach the server handler -/
def srv {μ} : List (Stream μ) → Nat → Nat
  | _, 0 => 0
  | [], k + 1 => srv ([] : List (Stream μ)) k + 1
  | s :: r, k + 1 => (if s.reaches then 1 else 0) + srv r k

/-- never more than `max + 1` consecutive re-opened streams without a message (`n` = run so far) -/
def segOk {μ} (max : Nat) : Nat → List (Stream μ) → Bool
  | _, [] => true
  | n, s :: r => if isEmptyStream s then decide (n + 1 ≤ max + 1) && segOk max (n + 1) r else segOk max 0 r

/-- number of message-less streams at the end of the list (`n` = count carried in) -/
def cnt {μ} : Nat → List (Stream μ) → Nat
  | n, [] => n
  | n, s :: r => if isEmptyStream s then cnt (n + 1) r else cnt 0 r

/-- clauses of C36 violated by an observed run of a stream call.
`opens` = streams the client opened or tried to open (the first one included; counted below the
interceptor), `seen` = request payloads that reached the server; `cancelBlocked` = the caller cancelled while `Recv`
was blocked; `seenAtCancel` = how many requests the server had seen when the caller cancelled -/
def specStream {μ ρ} [DecidableEq μ] [DecidableEq ρ] (watch : Bool) (max : Nat) (cancelAfter : Option Nat)
    (cancelBlocked : Bool) (script : List (Stream μ)) (req : ρ) (delivered : List μ) (opens : Nat) (seen : List ρ)
    (seenAtCancel : Nat) : List String :=
  -- the caller cancels only once `n` messages arrived: a run that ended earlier was never cancelled
  let cancelAfter := cancelAfter.filter (fun n => n ≤ delivered.length)
  let cancelled := cancelAfter.isSome || cancelBlocked
  let reopened := openedFrom script.tail (opens - 1)
  let all := (openedFrom script opens).flatMap (·.msgs)
  (if seen.all (· == req) then [] else ["request-not-resent"]) ++
  (if seen.length ≥ 1 then [] else ["no-request"]) ++
  -- every open attempt that did not fail on the client side reached the server, and no other
  (if seen.length == 1 + srv script.tail (opens - 1) then [] else ["request-count"]) ++
  (match cancelAfter with
   | none => if delivered == all then [] else ["messages-lost-or-reordered"]
   | some n => if delivered == all.take n && n ≤ all.length then [] else ["messages-lost-or-reordered"]) ++
  (if cancelled && seen.length != seenAtCancel then ["retried-after-cancel"] else []) ++
  (if watch then
     (if segOk max 0 reopened then [] else ["over-budget"]) ++
     -- the client gives up only after max+1 re-open attempts in a row that failed or delivered nothing
     (if !cancelled && cnt 0 reopened != max + 1 then ["gave-up-early"] else [])
   else if seen.length == 1 && opens == 1 then [] else ["non-watch-retried"])

/-- clauses violated by an observed unary call: `attempts` reached the server; `prodMax` is the
budget /repo's own client configures (the property demands that unary calls are never retried) -/
def specUnary (max : Nat) (prodMax : Nat) (outcomes : List Bool) (attempts : Nat) (ok : Bool) : List String :=
  (if attempts ≤ max + 1 && 1 ≤ attempts then [] else ["unary-over-budget"]) ++
  (if prodMax == 0 then [] else ["unary-retry-configured"]) ++
  (if max == 0 && attempts != 1 then ["non-watch-retried"] else []) ++
  (if ok == (outcomes.take attempts).any id then [] else ["unary-result"])

end Eru.Rpc.Retry
