/-
Model of /repo/auth/simple (server interceptors + client per-RPC credential) including the part
of the gRPC transport that sits between them.

Client  (credential.go):  GetRequestMetadata = map[string]string{username: password}
Transport (ASSUMED, grpc-go v1.60.1 http2_client.go getTrAuthData/createHeaderFields,
           http2_server.go operateHeaders, x/net/http2 header validation):
   * keys of per-RPC credentials and of outgoing-context metadata are lower-cased
     (`strings.ToLower`); values are preserved (`-bin` keys: base64 on the wire, decoded back);
   * a header name must be a non-empty HTTP token, a value of a non-`-bin` key must not contain
     control characters other than TAB — otherwise the RPC fails with a transport error and the
     handler chain is never entered;
   * credential headers are placed before the call's outgoing-context metadata;
   * names the protocol itself uses (`grpc-*`, `content-type`, `user-agent`, `te`, pseudo headers)
     are outside the domain (`reserved`): gRPC consumes, drops or pre-populates them.
Server  (simple.go, after the D24 fix):
   passwords, ok := meta[strings.ToLower(b.username)];  !ok -> ErrInvaildGRPCUsername
   len(passwords) < 1 || passwords[0] != b.password    -> ErrInvaildGRPCPassword

Strings are lists of bytes-as-characters.  `lower` is ASCII lower-casing, which equals
`strings.ToLower` on every valid header name (ASCII tokens); configured usernames are assumed ASCII.
-/
namespace Eru.Rpc.Auth

abbrev Str := List Char

def lower (s : Str) : Str := s.map Char.toLower

structure Cred where
  user : Str
  pass : Str
  deriving Repr, DecidableEq, Inhabited

/-- `httpguts.IsTokenRune` -/
def tokenChar (c : Char) : Bool :=
  c.isAlphanum || "!#$%&'*+-.^_`|~".toList.contains c

def validName (k : Str) : Bool := !k.isEmpty && k.all tokenChar

/-- `httpguts.ValidHeaderFieldValue`: no CTLs except TAB, no DEL -/
def validValue (v : Str) : Bool := v.all fun c => (32 ≤ c.toNat && c.toNat ≠ 127) || c.toNat == 9

def isBin (k : Str) : Bool := "-bin".toList.isSuffixOf k

/-- header names used by gRPC/HTTP2 themselves: outside the assumed transport domain -/
def reserved (k : Str) : Bool :=
  "grpc-".toList.isPrefixOf k ||
  ["content-type".toList, "user-agent".toList, "te".toList, "connection".toList, "host".toList].contains k

/-- header fields put on the wire: the credential first, then the call's own metadata -/
def wire (cred : Option Cred) (extra : List (Str × Str)) : List (Str × Str) :=
  (match cred with | some c => [(lower c.user, c.pass)] | none => []) ++
  extra.map (fun kv => (lower kv.1, kv.2))

def fieldOk (kv : Str × Str) : Bool := validName kv.1 && (isBin kv.1 || validValue kv.2)

def wireOk (w : List (Str × Str)) : Bool := w.all fieldOk

def inDomain (w : List (Str × Str)) : Bool := w.all fun kv => !reserved kv.1

/-- `metadata.MD[k]` on the server: all values sent under `k`, in wire order -/
def values (w : List (Str × Str)) (k : Str) : List Str := (w.filter (fun kv => kv.1 == k)).map (·.2)

inductive Verdict where
  | served | badUsername | badPassword
  | rejected        -- the transport refused the headers; no interceptor ran
  deriving Repr, DecidableEq, Inhabited

/-- `BasicAuth.doAuth` (fixed code) -/
def doAuth (cfg : Cred) (w : List (Str × Str)) : Verdict :=
  match values w (lower cfg.user) with
  | [] => .badUsername
  | p :: _ => if p = cfg.pass then .served else .badPassword

/-- `BasicAuth.doAuth` before the D24 fix: `meta[b.username]` -/
def doAuthUnfixed (cfg : Cred) (w : List (Str × Str)) : Verdict :=
  match values w cfg.user with
  | [] => .badUsername
  | p :: _ => if p = cfg.pass then .served else .badPassword

/-- one RPC (unary and streaming interceptors both call `doAuth` before the handler) -/
def call (cfg : Cred) (cred : Option Cred) (extra : List (Str × Str)) : Verdict :=
  let w := wire cred extra
  if wireOk w then doAuth cfg w else .rejected

def callUnfixed (cfg : Cred) (cred : Option Cred) (extra : List (Str × Str)) : Verdict :=
  let w := wire cred extra
  if wireOk w then doAuthUnfixed cfg w else .rejected

/-- a history of calls on one connection (each with its own credential and metadata): the server keeps
no authentication state, every call is decided by `call` on its own headers -/
def serve (cfg : Cred) (history : List (Option Cred × List (Str × Str))) : List Verdict :=
  history.map fun c => call cfg c.1 c.2

/-- the caller "presents the configured username with the configured password": the first value the
server sees under the (lower-cased) configured username is the configured password -/
def presents (cfg : Cred) (cred : Option Cred) (extra : List (Str × Str)) : Bool :=
  (values (wire cred extra) (lower cfg.user)).head? == some cfg.pass

end Eru.Rpc.Auth
