import Eru.Rpc.Spec
/- helper lemmas for C35 -/
namespace Eru.Rpc.Auth

theorem doAuth_served_iff (cfg : Cred) (w : List (Str × Str)) :
    doAuth cfg w = .served ↔ (values w (lower cfg.user)).head? = some cfg.pass := by
  unfold doAuth
  cases h : values w (lower cfg.user) with
  | nil => simp
  | cons p r =>
    by_cases hp : p = cfg.pass <;> simp [hp]

theorem call_served_iff (cfg : Cred) (cred : Option Cred) (extra : List (Str × Str)) :
    call cfg cred extra = .served ↔ wireOk (wire cred extra) = true ∧ presents cfg cred extra = true := by
  unfold call presents
  by_cases hw : wireOk (wire cred extra) = true
  · simp [hw, doAuth_served_iff]
  · simp [hw]

theorem values_single (k v k' : Str) : values [(k, v)] k' = if k = k' then [v] else [] := by
  unfold values
  by_cases h : k = k' <;> simp [h]

end Eru.Rpc.Auth
