import Eru.Rpc.RetryProofs
/- run-level budget lemmas for C36: which streams a whole run re-opens -/
namespace Eru.Rpc.Retry

variable {μ ρ : Type}

theorem openedFrom_zero (rest : List (Stream μ)) : openedFrom rest 0 = [] := by simp [openedFrom]

theorem openedFrom_nil_succ (k : Nat) : openedFrom ([] : List (Stream μ)) (k + 1) = emptyErr :: openedFrom [] k := by
  simp [openedFrom, List.replicate_succ]

theorem openedFrom_cons_succ (s : Stream μ) (r : List (Stream μ)) (k : Nat) :
    openedFrom (s :: r) (k + 1) = s :: openedFrom r k := by
  simp [openedFrom]

theorem openedFrom_add (rest : List (Stream μ)) (k k' : Nat) :
    openedFrom rest (k + k') = openedFrom rest k ++ openedFrom (rest.drop k) k' := by
  induction k generalizing rest with
  | zero => simp [openedFrom_zero]
  | succ k ih =>
    have e : k + 1 + k' = (k + k') + 1 := by omega
    cases rest with
    | nil => rw [e, openedFrom_nil_succ, openedFrom_nil_succ, ih]; simp
    | cons s r => rw [e, openedFrom_cons_succ, openedFrom_cons_succ, ih]; simp

theorem flatMap_openedFrom (rest : List (Stream μ)) (k : Nat) :
    (openedFrom rest k).flatMap (·.msgs) = (rest.take k).flatMap (·.msgs) := by
  simp [openedFrom, List.flatMap_append, emptyErr, Stream.msgs]

theorem segOk_append (max n : Nat) (A B : List (Stream μ)) :
    segOk max n (A ++ B) = (segOk max n A && segOk max (cnt n A) B) := by
  induction A generalizing n with
  | nil => simp [segOk, cnt]
  | cons s r ih =>
    simp only [List.cons_append, segOk, cnt]
    split <;> simp [ih, Bool.and_assoc]

theorem cnt_append (n : Nat) (A B : List (Stream μ)) : cnt n (A ++ B) = cnt (cnt n A) B := by
  induction A generalizing n with
  | nil => simp [cnt]
  | cons s r ih => simp only [List.cons_append, cnt]; split <;> simp [ih]

theorem cnt_allEmpty (n : Nat) (A : List (Stream μ)) (h : A.all isEmptyStream = true) : cnt n A = n + A.length := by
  induction A generalizing n with
  | nil => simp [cnt]
  | cons s r ih =>
    simp only [List.all_cons, Bool.and_eq_true] at h
    simp only [cnt, h.1, if_true, ih _ h.2, List.length_cons]; omega

theorem segOk_allEmpty (max n : Nat) (A : List (Stream μ)) (h : A.all isEmptyStream = true)
    (hb : n + A.length ≤ max + 1) : segOk max n A = true := by
  induction A generalizing n with
  | nil => simp [segOk]
  | cons s r ih =>
    simp only [List.all_cons, Bool.and_eq_true] at h
    simp only [List.length_cons] at hb
    simp only [segOk, h.1, if_true, Bool.and_eq_true, decide_eq_true_eq]
    exact ⟨by omega, ih _ h.2 (by omega)⟩

/-- `k` streams opened, none delivering anything -/
def AllEmpty (rest : List (Stream μ)) (k : Nat) : Prop := (openedFrom rest k).all isEmptyStream = true

/-- `k` streams opened: `k - 1` deliver nothing, the last one delivers -/
def EndsLive (rest : List (Stream μ)) (k : Nat) : Prop :=
  ∃ E s, openedFrom rest k = E ++ [s] ∧ E.all isEmptyStream = true ∧ isEmptyStream s = false

def AttSeg (c : Cli μ ρ) (fuel : Nat) : Recv μ ρ → Prop
  | .msg _ c' => ∃ k, c'.reqs.length = c.reqs.length + srv c.rest k ∧ c'.rest = c.rest.drop k ∧ k ≤ fuel ∧ EndsLive c.rest k
  | .fail e c' => ∃ k, c'.reqs.length = c.reqs.length + srv c.rest k ∧ c'.rest = c.rest.drop k ∧ k ≤ fuel ∧ AllEmpty c.rest k ∧
      (e ≠ .blocked → k = fuel)

theorem AttSeg.step {c c1 : Cli μ ρ} {n : Nat} {r : Recv μ ρ} {x : Stream μ}
    (h1 : c1.reqs.length = c.reqs.length + srv c.rest 1) (h2 : c1.rest = c.rest.drop 1)
    (h3 : ∀ k, openedFrom c.rest (1 + k) = x :: openedFrom c1.rest k) (hx : isEmptyStream x = true)
    (g : AttSeg c1 n r) : AttSeg c (n + 1) r := by
  cases r with
  | msg m c' =>
    obtain ⟨k, g1, g2, g3, E, s, g4, g5, g6⟩ := g
    refine ⟨1 + k, by rw [srv_add, ← h2]; omega, by rw [g2, h2, List.drop_drop], by omega, x :: E, s, ?_, ?_, g6⟩
    · rw [h3, g4]; rfl
    · simp [hx, g5]
  | fail e c' =>
    obtain ⟨k, g1, g2, g3, g4, g5⟩ := g
    refine ⟨1 + k, by rw [srv_add, ← h2]; omega, by rw [g2, h2, List.drop_drop], by omega, ?_, fun hh => by have := g5 hh; omega⟩
    unfold AllEmpty at g4 ⊢
    rw [h3]; simp [hx, g4]

theorem attempt_seg (fuel : Nat) (last : ErrClass) (c : Cli μ ρ) : AttSeg c fuel (attempt fuel last c) := by
  induction fuel generalizing last c with
  | zero => exact ⟨0, by simp [srv_zero], by simp, Nat.le_refl _, by simp [AllEmpty, openedFrom_zero], fun _ => rfl⟩
  | succ n ih =>
    obtain ⟨cur, curEnd, rest, sent, reqs, reach, cancelIs⟩ := c
    cases rest with
    | nil =>
      simp only [attempt]
      refine AttSeg.step (x := emptyErr) (by simp [srv, srv_zero]) (by simp) ?_ (by simp [isEmptyStream, emptyErr, Stream.msgs]) (ih _ _)
      intro k; rw [Nat.add_comm]; exact openedFrom_nil_succ k
    | cons s r =>
      simp only [attempt]
      cases hm : s.msgs with
      | cons m ms =>
        refine ⟨1, by simp only; rw [reqs_step s r reqs sent]; simp, by simp, by omega, [], s, by simp [openedFrom], rfl, by simp [isEmptyStream, hm]⟩
      | nil =>
        have hx : isEmptyStream s = true := by simp [isEmptyStream, hm]
        by_cases hh : s.fin = .hang
        · simp only [hh, if_true]
          refine ⟨1, by simp only; rw [reqs_step s r reqs sent]; simp, by simp, by omega, ?_, fun h => absurd rfl h⟩
          simp [AllEmpty, openedFrom, hx]
        · simp only [hh, if_false]
          refine AttSeg.step (x := s) (by simp only; rw [reqs_step s r reqs sent]; simp) (by simp) ?_ hx (ih _ _)
          intro k; rw [Nat.add_comm]; exact openedFrom_cons_succ s r k

/-- budget facts of one `RecvMsg` -/
def RecvSeg (watch : Bool) (max : Nat) (c : Cli μ ρ) : Recv μ ρ → Prop
  | .msg _ c' => ∃ k, c'.reqs.length = c.reqs.length + srv c.rest k ∧ c'.rest = c.rest.drop k ∧ (c'.reach = c.reach ∧ c'.cancelIs = c.cancelIs) ∧
      segOk max 0 (openedFrom c.rest k) = true ∧ cnt 0 (openedFrom c.rest k) = 0
  | .fail e c' => ∃ k, c'.reqs.length = c.reqs.length + srv c.rest k ∧ c'.rest = c.rest.drop k ∧
      segOk max 0 (openedFrom c.rest k) = true ∧
      ((e = .eof ∨ e = .unavailable) → watch = true → cnt 0 (openedFrom c.rest k) = max + 1)

theorem recvMsg_seg (watch : Bool) (max : Nat) (cancelled : Bool) (c : Cli μ ρ) (hr : Quiet c) :
    RecvSeg watch max c (recvMsg watch max cancelled c) := by
  have zero_fail : ∀ e, (e = ErrClass.eof ∨ e = .unavailable → watch = true → False) →
      RecvSeg watch max c (.fail e c) := by
    intro e he
    exact ⟨0, by simp [srv_zero], by simp, by simp [openedFrom_zero, segOk], fun h1 h2 => (he h1 h2).elim⟩
  unfold recvMsg
  cases cancelled with
  | true =>
    rw [if_pos rfl, recvCancelled_eq watch c hr]
    apply zero_fail
    cases watch <;> cases h : c.cancelIs <;> simp [cancelErr, h]
  | false =>
    simp only [Bool.false_eq_true, if_false]
    cases hcur : c.cur with
    | cons m ms => exact ⟨0, by simp [srv_zero], by simp, ⟨rfl, rfl⟩, by simp [openedFrom_zero, segOk], by simp [openedFrom_zero, cnt]⟩
    | nil =>
      by_cases hh : c.curEnd = .hang
      · simp only [hh, if_true]; apply zero_fail; simp
      · simp only [hh, if_false]
        cases watch with
        | false => apply zero_fail; simp
        | true =>
          simp only [if_true]
          have := attempt_seg (max + 1) (endErr c.curEnd) c
          have hadv := attempt_adv (max + 1) (endErr c.curEnd) c hcur
          cases hat : attempt (max + 1) (endErr c.curEnd) c with
          | msg m c' =>
            rw [hat] at this hadv
            obtain ⟨k, g1, g2, g3, E, s, g4, g5, g6⟩ := this
            obtain ⟨_, _, _, ha⟩ := hadv
            have hE : E.length ≤ max := by
              have := congrArg List.length g4
              simp [openedFrom] at this; omega
            refine ⟨k, g1, g2, ⟨ha.reach, ha.cancelIs⟩, ?_, ?_⟩
            · rw [g4, segOk_append, segOk_allEmpty max 0 E g5 (by omega)]
              simp [segOk, g6]
            · rw [g4, cnt_append]; simp [cnt, g6]
          | fail e c' =>
            rw [hat] at this
            obtain ⟨k, g1, g2, g3, g4, g5⟩ := this
            have hlen : (openedFrom c.rest k).length = k := by simp [openedFrom]; omega
            refine ⟨k, g1, g2, segOk_allEmpty max 0 _ g4 (by omega), ?_⟩
            intro he _
            have hk : k = max + 1 := g5 (by rcases he with h | h <;> simp [h])
            rw [cnt_allEmpty 0 _ g4, hlen]; omega

/-- budget facts of a whole run: over all the streams it re-opened there are never more than
`max + 1` consecutive ones without a message, and when it ends with the stream's own error
(EOF / status error: not blocked, not cancelled) the last `max + 1` re-opened streams delivered nothing -/
theorem recvLoop_seg (watch : Bool) (max : Nat) (fuel : Nat) (ca : Option Nat) (c : Cli μ ρ) (hr : Quiet c) :
    ∃ k, (recvLoop watch max ca fuel c).final.reqs.length = c.reqs.length + srv c.rest k ∧
      (recvLoop watch max ca fuel c).final.rest = c.rest.drop k ∧
      segOk max 0 (openedFrom c.rest k) = true ∧
      (((recvLoop watch max ca fuel c).err = .eof ∨ (recvLoop watch max ca fuel c).err = .unavailable) →
        watch = true → cnt 0 (openedFrom c.rest k) = max + 1) := by
  induction fuel generalizing ca c with
  | zero => exact ⟨0, by simp [srv_zero, recvLoop], by simp [recvLoop], by simp [openedFrom_zero, segOk], fun h => by simp [recvLoop] at h⟩
  | succ n ih =>
    unfold recvLoop
    have h1 := recvMsg_seg watch max (ca == some 0) c hr
    split
    · rename_i e c' heq
      rw [heq] at h1
      obtain ⟨k, g1, g2, g3, g4⟩ := h1
      exact ⟨k, g1, g2, g3, g4⟩
    · rename_i m c' heq
      rw [heq] at h1
      obtain ⟨k, g1, g2, g3, g4, g5⟩ := h1
      obtain ⟨k', i1, i1', i2, i3⟩ := ih (ca.map (· - 1)) c' (by unfold Quiet; rw [g3.1, g3.2]; exact hr)
      refine ⟨k + k', by simp only; rw [srv_add, ← g2]; omega, by simp only; rw [i1', g2, List.drop_drop], ?_, ?_⟩
      · rw [openedFrom_add, segOk_append, g4, g5, ← g2, i2]; rfl
      · intro he hw
        rw [openedFrom_add, cnt_append, g5, ← g2]
        exact i3 he hw

theorem srv_nil (k : Nat) : srv ([] : List (Stream μ)) k = k := by
  induction k with
  | zero => rfl
  | succ k ih => simp only [srv, ih]

/-- the number of attempts is determined by what is left of the script and how many requests
reached the server -/
theorem attempts_unique (rest : List (Stream μ)) (k1 k2 : Nat)
    (hd : rest.drop k1 = rest.drop k2) (hs : srv rest k1 = srv rest k2) : k1 = k2 := by
  induction rest generalizing k1 k2 with
  | nil => rw [srv_nil, srv_nil] at hs; exact hs
  | cons s r ih =>
    cases k1 with
    | zero =>
      cases k2 with
      | zero => rfl
      | succ k2 =>
        exfalso
        have := congrArg List.length hd
        simp at this; omega
    | succ k1 =>
      cases k2 with
      | zero =>
        exfalso
        have := congrArg List.length hd
        simp at this; omega
      | succ k2 =>
        simp only [List.drop_succ_cons] at hd
        simp only [srv] at hs
        rw [ih k1 k2 hd (by omega)]

/-- everything known about a whole run, for ONE number `k` of re-open attempts: the `Adv` relation
(delivered messages, server log, remaining script) and the budget facts -/
theorem recvLoop_full (watch : Bool) (max : Nat) (fuel : Nat) (ca : Option Nat) (c : Cli μ ρ) (hr : Quiet c) :
    ∃ k, (watch = false → k = 0) ∧
      Adv c (recvLoop watch max ca fuel c).final k (recvLoop watch max ca fuel c).delivered ∧
      segOk max 0 (openedFrom c.rest k) = true ∧
      (((recvLoop watch max ca fuel c).err = .eof ∨ (recvLoop watch max ca fuel c).err = .unavailable) →
        watch = true → cnt 0 (openedFrom c.rest k) = max + 1) := by
  obtain ⟨ka, hw, ha⟩ := recvLoop_adv watch max fuel ca c hr
  obtain ⟨ks, s1, s2, s3, s4⟩ := recvLoop_seg watch max fuel ca c hr
  have hlen := congrArg List.length ha.reqs
  simp only [List.length_append, List.length_replicate] at hlen
  have : ka = ks := attempts_unique c.rest ka ks (by rw [← ha.rest, s2]) (by omega)
  subst this
  exact ⟨ka, hw, ha, s3, s4⟩

/-! ### where cancellation errors come from -/

def isCancelErr : ErrClass → Bool
  | .ctxCanceled => true | .rpcCanceled => true | _ => false

theorem attempt_not_cancelErr (fuel : Nat) (last : ErrClass) (c : Cli μ ρ) (hl : isCancelErr last = false) :
    ∀ e c', attempt fuel last c = .fail e c' → isCancelErr e = false := by
  induction fuel generalizing last c with
  | zero => intro e c' h; simp only [attempt] at h; injection h with h1 _; rw [← h1]; exact hl
  | succ n ih =>
    intro e c' h
    obtain ⟨cur, curEnd, rest, sent, reqs, reach, cancelIs⟩ := c
    cases rest with
    | nil =>
      simp only [attempt] at h
      exact ih _ _ rfl e c' h
    | cons s r =>
      simp only [attempt] at h
      cases hm : s.msgs with
      | cons m ms => rw [hm] at h; exact nomatch h
      | nil =>
        rw [hm] at h
        by_cases hh : s.fin = .hang
        · simp only [hh, if_true] at h
          injection h with h1 _; rw [← h1]; rfl
        · simp only [hh, if_false] at h
          exact ih _ _ (by cases s.fin <;> rfl) e c' h

theorem endErr_not_cancel (x : End) : isCancelErr (endErr x) = false := by cases x <;> rfl

/-- an uncancelled `RecvMsg` never fails with a cancellation error -/
theorem recvMsg_live_not_cancelErr (watch : Bool) (max : Nat) (c : Cli μ ρ) :
    ∀ e c', recvMsg watch max false c = .fail e c' → isCancelErr e = false := by
  intro e c' h
  unfold recvMsg at h
  simp only [Bool.false_eq_true, if_false] at h
  split at h
  · exact nomatch h
  · split at h
    · injection h with h1 _; rw [← h1]; rfl
    · split at h
      · exact attempt_not_cancelErr _ _ _ (endErr_not_cancel _) e c' h
      · injection h with h1 _; rw [← h1]; exact endErr_not_cancel _

/-- a run that ends with a cancellation error (cancel-after-`n` plan) delivered exactly `n` messages -/
theorem recvLoop_cancel_length (watch : Bool) (max : Nat) (fuel : Nat) (n : Nat) (c : Cli μ ρ)
    (h : isCancelErr (recvLoop watch max (some n) fuel c).err = true) :
    (recvLoop watch max (some n) fuel c).delivered.length = n := by
  induction fuel generalizing n c with
  | zero => simp [recvLoop, isCancelErr] at h
  | succ f ih =>
    cases n with
    | zero =>
      unfold recvLoop
      have : ((some 0 : Option Nat) == some 0) = true := by simp
      rw [this]
      cases hr : recvMsg watch max true c with
      | fail e c' => rfl
      | msg m c' =>
        exfalso
        cases watch <;> simp [recvMsg, recvCancelled] at hr <;> split at hr <;> simp at hr
    | succ n =>
      have e1 : ((some (n + 1) : Option Nat) == some 0) = false := by simp
      unfold recvLoop at h ⊢
      rw [e1] at h ⊢
      cases hr : recvMsg watch max false c with
      | fail e c' =>
        rw [hr] at h
        have := recvMsg_live_not_cancelErr watch max c e c' hr
        simp only at h
        rw [this] at h; exact absurd h (by simp)
      | msg m c' =>
        rw [hr] at h
        simp only [Option.map_some, Nat.add_sub_cancel, List.length_cons] at h ⊢
        rw [ih n c' h]

end Eru.Rpc.Retry
