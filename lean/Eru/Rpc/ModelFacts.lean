import Eru.Rpc.RetryProofs
/-
Named pieces of the auth and retry models that are literals / guards in /repo's source
(auth/simple/simple.go, client/interceptor/retry.go, client/client.go), each with the lemma showing the
model uses it.  Tied to the source text on every run by Eru/Generated/TxwFacts.lean.
-/
namespace Eru.Rpc.Facts
open Eru.Rpc.Auth Eru.Rpc.Retry

/-! ### auth/simple -/

/-- `if len(passwords) < 1 || passwords[0] != b.password { return ErrInvaildGRPCPassword }` -/
def authGuard (n : Int) (first pass : Str) : Bool := n < 1 || first != pass
theorem authGuard_is_model (cfg : Cred) (w : List (Str × Str)) :
    doAuth cfg w = match values w (lower cfg.user) with
      | [] => .badUsername
      | p :: r => if authGuard ((p :: r).length : Nat) p cfg.pass then .badPassword else .served := by
  unfold doAuth
  cases values w (lower cfg.user) with
  | nil => rfl
  | cons p r =>
    by_cases h : p = cfg.pass <;> simp [authGuard, h] <;> omega

/-- the key `doAuth` looks the password up under: the lower-cased configured username (the D24 fix) -/
def lookupKey : String := "lower"
def keyOf (mode : String) (u : Str) : Str := if mode = "lower" then lower u else u
theorem lookupKey_is_model (cfg : Cred) (w : List (Str × Str)) :
    doAuth cfg w = match values w (keyOf lookupKey cfg.user) with
      | [] => .badUsername
      | p :: _ => if p = cfg.pass then .served else .badPassword := by
  have hk : keyOf lookupKey cfg.user = lower cfg.user := by simp [keyOf, lookupKey]
  rw [hk]; rfl

/-! ### client/interceptor -/

/-- `interceptor.RPCNeedRetry` as the translator reads a map literal: sorted `key→value` strings -/
def allowList : List String := ["/pb.CoreRPC/WatchServiceStatus→{}", "/pb.CoreRPC/WorkloadStatusStream→{}"]
theorem allowList_is_model : allowList = watchMethods.map (· ++ "→{}") := by decide

/-- `if err = s.ClientStream.RecvMsg(m); err == nil || errors.Is(err, context.Canceled) { return }` -/
def recvReturnsAtOnce (ok isCanceled : Bool) : Bool := ok || isCanceled
theorem recvReturnsAtOnce_is_model {μ ρ : Type} (c : Cli μ ρ) (h : recvReturnsAtOnce false c.cancelIs = true) :
    recvCancelled true c = .fail .ctxCanceled c := by
  have : c.cancelIs = true := by simpa [recvReturnsAtOnce] using h
  simp [recvCancelled, this]

/-- `interceptor.NewUnaryRetry(interceptor.RetryOptions{Max: 0})` in client/client.go: the budget under
which "unary calls are never retried" holds -/
def clientUnaryMax : Int := 0
theorem clientUnaryMax_is_model (outs : List Bool) : (runUnary clientUnaryMax.toNat outs).1 = 1 := by
  have := unaryAttempts_bounds (0 + 1) outs
  show (unaryAttempts (0 + 1) outs).1 = 1
  omega

end Eru.Rpc.Facts
