import Eru.Lock.Etcd
/- Invariants of the etcd lock protocol model (C18/C19). Core Lean only. -/
namespace Eru.Lock.Etcd

theorem mem_dropKeys {i : Nat} {keys : List (Nat × Nat)} {k : Nat × Nat} :
    k ∈ dropKeys i keys ↔ k ∈ keys ∧ k.1 ≠ i := by
  simp [dropKeys]

theorem upd_same {α : Type} (f : Nat → α) (i : Nat) (v : α) : upd f i v i = v := by simp [upd]
theorem upd_other {α : Type} (f : Nat → α) {i j : Nat} (v : α) (h : j ≠ i) : upd f i v j = f j := by simp [upd, h]

structure Inv (p : Params) (s : State) : Prop where
  k1 : ∀ k ∈ s.keys, k.2 ≤ s.rev
  k2 : ∀ a ∈ s.keys, ∀ b ∈ s.keys, a.2 = b.2 → a = b
  k3 : ∀ k ∈ s.keys, s.myRev k.1 = k.2 ∧ s.leaseAlive k.1 = true
  k4 : ∀ i, s.phase i = .idle → ∀ k ∈ s.keys, k.1 ≠ i
  own : ∀ i, s.phase i = .holding → s.leaseAlive i = true → (i, s.myRev i) ∈ s.keys ∧ ∀ k ∈ s.keys, s.myRev i ≤ k.2
  l1 : ∀ i, s.phase i = .holding → s.locked i = true ∧ s.ctx i ≠ .none
  l2 : ∀ i, s.phase i = .holding → s.leaseAlive i = false → ∃ t, s.lostAt i = some t
  l3 : ∀ i, s.leaseAlive i = true → s.lostAt i = none
  tryNoWait : ∀ i dl, s.phase i = .waiting dl → s.mode i = .lock
  bound : ∀ i t, pendingLoss s i t → s.wall ≤ t + p.keepalive

theorem inv_init (p : Params) : Inv p init := by
  constructor <;> intros <;> simp_all [init, pendingLoss]

/-! fields of `acquire` that do not depend on the branch taken -/
section acq
variable (ttl : Nat) (s : State) (i : Nat) (m : Mode)
theorem acquire_rev : (acquire ttl s i m).rev = s.rev + 1 := by
  unfold acquire; simp only []; split
  · rfl
  · cases m <;> rfl
theorem acquire_keys : (acquire ttl s i m).keys = s.keys ++ [(i, s.rev + 1)] := by
  unfold acquire; simp only []; split
  · rfl
  · cases m <;> rfl
theorem acquire_myRev : (acquire ttl s i m).myRev = upd s.myRev i (s.rev + 1) := by
  unfold acquire; simp only []; split
  · rfl
  · cases m <;> rfl
theorem acquire_mode : (acquire ttl s i m).mode = upd s.mode i m := by
  unfold acquire; simp only []; split
  · rfl
  · cases m <;> rfl
theorem acquire_leaseAlive : (acquire ttl s i m).leaseAlive = s.leaseAlive := by
  unfold acquire; simp only []; split
  · rfl
  · cases m <;> rfl
theorem acquire_lostAt : (acquire ttl s i m).lostAt = s.lostAt := by
  unfold acquire; simp only []; split
  · rfl
  · cases m <;> rfl
theorem acquire_wall : (acquire ttl s i m).wall = s.wall := by
  unfold acquire; simp only []; split
  · rfl
  · cases m <;> rfl
theorem acquire_phase_other {j : Nat} (h : j ≠ i) : (acquire ttl s i m).phase j = s.phase j := by
  unfold acquire; simp only []; split
  · simp [upd, h]
  · cases m <;> simp [upd, h]
theorem acquire_locked_other {j : Nat} (h : j ≠ i) : (acquire ttl s i m).locked j = s.locked j := by
  unfold acquire; simp only []; split
  · simp [upd, h]
  · cases m <;> simp [upd, h]
theorem acquire_ctx_other {j : Nat} (h : j ≠ i) : (acquire ttl s i m).ctx j = s.ctx j := by
  unfold acquire; simp only []; split
  · simp [upd, h]
  · cases m <;> simp [upd, h]
/-- what happens to the acquiring client itself -/
theorem acquire_self :
    (oldest (s.keys ++ [(i, s.rev + 1)]) (s.rev + 1) = true ∧ (acquire ttl s i m).phase i = .holding ∧
        (acquire ttl s i m).locked i = true ∧ (acquire ttl s i m).ctx i = .live) ∨
    (oldest (s.keys ++ [(i, s.rev + 1)]) (s.rev + 1) = false ∧ (acquire ttl s i m).locked i = s.locked i ∧
        (acquire ttl s i m).ctx i = s.ctx i ∧
        ((m = .try ∧ (acquire ttl s i m).phase i = .tryFailing) ∨
         (m = .lock ∧ (acquire ttl s i m).phase i = .waiting (s.wall + ttl)))) := by
  unfold acquire; simp only []
  split
  · rename_i h; left; simp [h, upd]
  · rename_i h; right
    cases m <;> simp [h, upd]
end acq

/-- deleting one's own key and failing (TryLock not owner, Lock deadline) -/
theorem inv_abandon {p : Params} {s : State} (h : Inv p s) (i : Nat) (hi : s.phase i ≠ .holding) :
    Inv p (abandon s i) := by
  unfold abandon
  constructor
  · intro k hkm; exact h.k1 k (mem_dropKeys.mp hkm).1
  · intro a ha b hb e; exact h.k2 a (mem_dropKeys.mp ha).1 b (mem_dropKeys.mp hb).1 e
  · intro k hkm; exact h.k3 k (mem_dropKeys.mp hkm).1
  · intro j hj k hkm
    by_cases hji : j = i
    · subst hji; simp [upd] at hj
    · simp only [upd, hji, if_false] at hj; exact h.k4 j hj k (mem_dropKeys.mp hkm).1
  · intro j hj hl
    by_cases hji : j = i
    · subst hji; simp [upd] at hj
    · simp only [upd, hji, if_false] at hj
      obtain ⟨o1, o2⟩ := h.own j hj hl
      exact ⟨mem_dropKeys.mpr ⟨o1, hji⟩, fun k hkm => o2 k (mem_dropKeys.mp hkm).1⟩
  · intro j hj
    by_cases hji : j = i
    · subst hji; simp [upd] at hj
    · simp only [upd, hji, if_false] at hj; exact h.l1 j hj
  · intro j hj hl
    by_cases hji : j = i
    · subst hji; simp [upd] at hj
    · simp only [upd, hji, if_false] at hj; exact h.l2 j hj hl
  · exact h.l3
  · intro j dl' hj
    by_cases hji : j = i
    · subst hji; simp [upd] at hj
    · simp only [upd, hji, if_false] at hj; exact h.tryNoWait j dl' hj
  · exact h.bound

theorem inv_step {p : Params} {s s' : State} (h : Inv p s) (st : Step p s s') : Inv p s' := by
  cases st with
  | acquire i m hidle hlease =>
    have hk := acquire_keys p.ttl s i m
    have hr := acquire_rev p.ttl s i m
    have hm := acquire_myRev p.ttl s i m
    have hla := acquire_leaseAlive p.ttl s i m
    have hlo := acquire_lostAt p.ttl s i m
    have hself := acquire_self p.ttl s i m
    have memk : ∀ k, k ∈ (acquire p.ttl s i m).keys ↔ k ∈ s.keys ∨ k = (i, s.rev + 1) := by
      intro k; rw [hk]; simp
    constructor
    · intro k hkm; rw [hr]
      rcases (memk k).mp hkm with h1 | h1
      · exact Nat.le_succ_of_le (h.k1 k h1)
      · subst h1; exact Nat.le_refl _
    · intro a ha b hb e
      rcases (memk a).mp ha with h1 | h1 <;> rcases (memk b).mp hb with h2 | h2
      · exact h.k2 a h1 b h2 e
      · subst h2; have := h.k1 a h1; simp only at e; omega
      · subst h1; have := h.k1 b h2; simp only at e; omega
      · rw [h1, h2]
    · intro k hkm; rw [hm, hla]
      rcases (memk k).mp hkm with h1 | h1
      · have hne : k.1 ≠ i := h.k4 i hidle k h1
        rw [upd_other _ _ hne]; exact h.k3 k h1
      · subst h1; exact ⟨upd_same _ _ _, hlease⟩
    · intro j hj k hkm
      by_cases hji : j = i
      · subst hji
        rcases hself with ⟨_, hp, _⟩ | ⟨_, _, _, ⟨_, hp⟩ | ⟨_, hp⟩⟩ <;> rw [hp] at hj <;> cases hj
      · rw [acquire_phase_other _ _ _ _ hji] at hj
        rcases (memk k).mp hkm with h1 | h1
        · exact h.k4 j hj k h1
        · subst h1; exact fun e => hji e.symm
    · intro j hj hl
      rw [hla] at hl; rw [hm]
      by_cases hji : j = i
      · subst hji
        rw [upd_same]
        rcases hself with ⟨ho, _, _⟩ | ⟨_, _, _, ⟨_, hp⟩ | ⟨_, hp⟩⟩
        · refine ⟨(memk _).mpr (Or.inr rfl), ?_⟩
          intro k hkm
          rw [hk] at hkm
          simp only [oldest, List.all_eq_true, decide_eq_true_eq] at ho
          exact ho k hkm
        · rw [hp] at hj; cases hj
        · rw [hp] at hj; cases hj
      · rw [acquire_phase_other _ _ _ _ hji] at hj
        rw [upd_other _ _ hji]
        obtain ⟨o1, o2⟩ := h.own j hj hl
        refine ⟨(memk _).mpr (Or.inl o1), ?_⟩
        intro k hkm
        rcases (memk k).mp hkm with h1 | h1
        · exact o2 k h1
        · subst h1; have := h.k1 _ o1; simp only at this ⊢; omega
    · intro j hj
      by_cases hji : j = i
      · subst hji
        rcases hself with ⟨_, _, hl, hc⟩ | ⟨_, _, _, ⟨_, hp⟩ | ⟨_, hp⟩⟩
        · exact ⟨hl, by rw [hc]; intro e; cases e⟩
        · rw [hp] at hj; cases hj
        · rw [hp] at hj; cases hj
      · rw [acquire_phase_other _ _ _ _ hji] at hj
        rw [acquire_locked_other _ _ _ _ hji, acquire_ctx_other _ _ _ _ hji]
        exact h.l1 j hj
    · intro j hj hl
      rw [hla] at hl; rw [hlo]
      by_cases hji : j = i
      · subst hji; rw [hlease] at hl; cases hl
      · rw [acquire_phase_other _ _ _ _ hji] at hj; exact h.l2 j hj hl
    · intro j hl; rw [hla] at hl; rw [hlo]; exact h.l3 j hl
    · intro j dl hj
      rw [acquire_mode]
      by_cases hji : j = i
      · subst hji
        rw [upd_same]
        rcases hself with ⟨_, hp, _⟩ | ⟨_, _, _, ⟨_, hp⟩ | ⟨hm', _⟩⟩
        · rw [hp] at hj; cases hj
        · rw [hp] at hj; cases hj
        · exact hm'
      · rw [acquire_phase_other _ _ _ _ hji] at hj
        rw [upd_other _ _ hji]; exact h.tryNoWait j dl hj
    · intro j t hpl
      rw [acquire_wall]
      obtain ⟨hc, hlk, hlt⟩ := hpl
      rw [hlo] at hlt
      by_cases hji : j = i
      · subst hji; rw [h.l3 j hlease] at hlt; cases hlt
      · rw [acquire_ctx_other _ _ _ _ hji] at hc
        rw [acquire_locked_other _ _ _ _ hji] at hlk
        exact h.bound j t ⟨hc, hlk, hlt⟩
  | tryDelete i hi => exact inv_abandon h i (by rw [hi]; intro e; cases e)
  | timeout i dl hi hdl => exact inv_abandon h i (by rw [hi]; intro e; cases e)
  | waitDone i dl hi hno =>
    unfold waitDone
    split
    · rename_i hc
      have hmem : (i, s.myRev i) ∈ s.keys := by simpa using hc
      constructor
      · exact h.k1
      · exact h.k2
      · exact h.k3
      · intro j hj k hkm
        by_cases hji : j = i
        · subst hji; simp [upd] at hj
        · simp only [upd, hji, if_false] at hj; exact h.k4 j hj k hkm
      · intro j hj hl
        by_cases hji : j = i
        · subst hji
          refine ⟨hmem, fun k hkm => ?_⟩
          have := hno k hkm
          show s.myRev j ≤ k.2
          omega
        · simp only [upd, hji, if_false] at hj; exact h.own j hj hl
      · intro j hj
        by_cases hji : j = i
        · subst hji; simp [upd]
        · simp only [upd, hji, if_false] at hj ⊢; exact h.l1 j hj
      · intro j hj hl
        by_cases hji : j = i
        · subst hji; rw [(h.k3 _ hmem).2] at hl; cases hl
        · simp only [upd, hji, if_false] at hj; exact h.l2 j hj hl
      · exact h.l3
      · intro j dl' hj
        by_cases hji : j = i
        · subst hji; simp [upd] at hj
        · simp only [upd, hji, if_false] at hj; exact h.tryNoWait j dl' hj
      · intro j t ⟨hc', hlk, hlt⟩
        by_cases hji : j = i
        · subst hji
          have := h.l3 j (h.k3 _ hmem).2
          simp only at hlt; rw [this] at hlt; cases hlt
        · simp only [upd, hji, if_false] at hc' hlk
          exact h.bound j t ⟨hc', hlk, hlt⟩
    · constructor
      · exact h.k1
      · exact h.k2
      · exact h.k3
      · intro j hj k hkm
        by_cases hji : j = i
        · subst hji; simp [upd] at hj
        · simp only [upd, hji, if_false] at hj; exact h.k4 j hj k hkm
      · intro j hj hl
        by_cases hji : j = i
        · subst hji; simp [upd] at hj
        · simp only [upd, hji, if_false] at hj; exact h.own j hj hl
      · intro j hj
        by_cases hji : j = i
        · subst hji; simp [upd] at hj
        · simp only [upd, hji, if_false] at hj; exact h.l1 j hj
      · intro j hj hl
        by_cases hji : j = i
        · subst hji; simp [upd] at hj
        · simp only [upd, hji, if_false] at hj; exact h.l2 j hj hl
      · exact h.l3
      · intro j dl' hj
        by_cases hji : j = i
        · subst hji; simp [upd] at hj
        · simp only [upd, hji, if_false] at hj; exact h.tryNoWait j dl' hj
      · exact h.bound
  | unlock i hi =>
    unfold unlock
    constructor
    · intro k hkm; exact h.k1 k (mem_dropKeys.mp hkm).1
    · intro a ha b hb e; exact h.k2 a (mem_dropKeys.mp ha).1 b (mem_dropKeys.mp hb).1 e
    · intro k hkm
      obtain ⟨h1, h2⟩ := mem_dropKeys.mp hkm
      simp only [upd, h2, if_false]; exact h.k3 k h1
    · intro j hj k hkm
      by_cases hji : j = i
      · subst hji; simp [upd] at hj
      · simp only [upd, hji, if_false] at hj; exact h.k4 j hj k (mem_dropKeys.mp hkm).1
    · intro j hj hl
      by_cases hji : j = i
      · subst hji; simp [upd] at hj
      · simp only [upd, hji, if_false] at hj hl
        obtain ⟨o1, o2⟩ := h.own j hj hl
        exact ⟨mem_dropKeys.mpr ⟨o1, hji⟩, fun k hkm => o2 k (mem_dropKeys.mp hkm).1⟩
    · intro j hj
      by_cases hji : j = i
      · subst hji; simp [upd] at hj
      · simp only [upd, hji, if_false] at hj ⊢; exact h.l1 j hj
    · intro j hj hl
      by_cases hji : j = i
      · subst hji; simp [upd] at hj
      · simp only [upd, hji, if_false] at hj hl; exact h.l2 j hj hl
    · intro j hl
      by_cases hji : j = i
      · subst hji; simp [upd] at hl
      · simp only [upd, hji, if_false] at hl; exact h.l3 j hl
    · intro j dl' hj
      by_cases hji : j = i
      · subst hji; simp [upd] at hj
      · simp only [upd, hji, if_false] at hj; exact h.tryNoWait j dl' hj
    · intro j t ⟨hc', hlk, hlt⟩
      by_cases hji : j = i
      · subst hji; simp [upd] at hlk
      · simp only [upd, hji, if_false] at hlk
        exact h.bound j t ⟨hc', hlk, hlt⟩
  | loseLease i hi =>
    unfold loseLease
    constructor
    · intro k hkm; exact h.k1 k (mem_dropKeys.mp hkm).1
    · intro a ha b hb e; exact h.k2 a (mem_dropKeys.mp ha).1 b (mem_dropKeys.mp hb).1 e
    · intro k hkm
      obtain ⟨h1, h2⟩ := mem_dropKeys.mp hkm
      simp only [upd, h2, if_false]; exact h.k3 k h1
    · intro j hj k hkm; exact h.k4 j hj k (mem_dropKeys.mp hkm).1
    · intro j hj hl
      by_cases hji : j = i
      · subst hji; simp [upd] at hl
      · simp only [upd, hji, if_false] at hl
        obtain ⟨o1, o2⟩ := h.own j hj hl
        exact ⟨mem_dropKeys.mpr ⟨o1, hji⟩, fun k hkm => o2 k (mem_dropKeys.mp hkm).1⟩
    · exact h.l1
    · intro j hj hl
      by_cases hji : j = i
      · subst hji; exact ⟨s.wall, by simp [upd]⟩
      · simp only [upd, hji, if_false] at hl ⊢; exact h.l2 j hj hl
    · intro j hl
      by_cases hji : j = i
      · subst hji; simp [upd] at hl
      · simp only [upd, hji, if_false] at hl ⊢; exact h.l3 j hl
    · exact h.tryNoWait
    · intro j t ⟨hc', hlk, hlt⟩
      by_cases hji : j = i
      · subst hji; simp only [upd, if_true, Option.some.injEq] at hlt; subst hlt; exact Nat.le_add_right _ _
      · simp only [upd, hji, if_false] at hlt
        exact h.bound j t ⟨hc', hlk, hlt⟩
  | watch i hla hc hlk =>
    unfold watch
    constructor
    · exact h.k1
    · exact h.k2
    · exact h.k3
    · exact h.k4
    · exact h.own
    · intro j hj
      by_cases hji : j = i
      · subst hji; exact ⟨(h.l1 j hj).1, by simp [upd]⟩
      · simp only [upd, hji, if_false]; exact h.l1 j hj
    · exact h.l2
    · exact h.l3
    · exact h.tryNoWait
    · intro j t ⟨hc', hlk', hlt⟩
      by_cases hji : j = i
      · subst hji; simp [upd] at hc'
      · simp only [upd, hji, if_false] at hc'
        exact h.bound j t ⟨hc', hlk', hlt⟩
  | tick hg =>
    exact ⟨h.k1, h.k2, h.k3, h.k4, h.own, h.l1, h.l2, h.l3, h.tryNoWait, fun j t hpl => hg j t hpl⟩

end Eru.Lock.Etcd

namespace Eru.Lock.Etcd

theorem inv_reach {p : Params} {s : State} (h : Reach p s) : Inv p s := by
  induction h with
  | init => exact inv_init p
  | step _ st ih => exact inv_step ih st

theorem reach_of_reachWL {p : Params} {s : State} (h : ReachWL p s) : Reach p s := by
  induction h with
  | init => exact Reach.init
  | step _ st ih => cases st with | step st _ => exact Reach.step ih st

/-- two holders with live leases are the same client (no assumption needed) -/
theorem live_holders_eq {p : Params} {s : State} (h : Inv p s) {i j : Nat}
    (hi : s.phase i = .holding) (hj : s.phase j = .holding)
    (li : s.leaseAlive i = true) (lj : s.leaseAlive j = true) : i = j := by
  obtain ⟨a1, a2⟩ := h.own i hi li
  obtain ⟨b1, b2⟩ := h.own j hj lj
  have e : s.myRev i = s.myRev j := Nat.le_antisymm (a2 _ b1) (b2 _ a1)
  have := h.k2 _ a1 _ b1 e
  exact congrArg Prod.fst this

/-- under WithinLease a holder's lease is alive -/
theorem holdingAlive_step {p : Params} {s s' : State} (h : ∀ i, s.phase i = .holding → s.leaseAlive i = true)
    (hinv : Inv p s) (st : StepWL p s s') : ∀ i, s'.phase i = .holding → s'.leaseAlive i = true := by
  cases st with
  | step st hwl =>
  cases st with
  | acquire i m hidle hlease =>
    intro j hj
    rw [acquire_leaseAlive]
    by_cases hji : j = i
    · subst hji; exact hlease
    · rw [acquire_phase_other _ _ _ _ hji] at hj; exact h j hj
  | tryDelete i hi =>
    intro j hj
    simp only [abandon] at hj ⊢
    by_cases hji : j = i
    · subst hji; simp [upd] at hj
    · simp only [upd, hji, if_false] at hj; exact h j hj
  | timeout i dl hi hdl =>
    intro j hj
    simp only [abandon] at hj ⊢
    by_cases hji : j = i
    · subst hji; simp [upd] at hj
    · simp only [upd, hji, if_false] at hj; exact h j hj
  | waitDone i dl hi hno =>
    intro j hj
    unfold waitDone at hj ⊢
    split at hj
    · rename_i hc
      rw [if_pos hc]
      by_cases hji : j = i
      · subst hji; exact (hinv.k3 _ (by simpa using hc)).2
      · simp only [upd, hji, if_false] at hj; exact h j hj
    · rename_i hc
      rw [if_neg hc]
      by_cases hji : j = i
      · subst hji; simp [upd] at hj
      · simp only [upd, hji, if_false] at hj; exact h j hj
  | unlock i hi =>
    intro j hj
    simp only [unlock] at hj ⊢
    by_cases hji : j = i
    · subst hji; simp [upd] at hj
    · simp only [upd, hji, if_false] at hj ⊢; exact h j hj
  | loseLease i hi =>
    intro j hj
    have hnh := hwl i rfl
    simp only [loseLease] at hj ⊢
    by_cases hji : j = i
    · subst hji; exact absurd hj hnh
    · simp only [upd, hji, if_false]; exact h j hj
  | watch i hla hc hlk => exact h
  | tick hg => exact h

theorem holdingAlive_reachWL {p : Params} {s : State} (h : ReachWL p s) :
    ∀ i, s.phase i = .holding → s.leaseAlive i = true := by
  induction h with
  | init => intro i hi; simp [init] at hi
  | step hr st ih => exact holdingAlive_step ih (inv_reach (reach_of_reachWL hr)) st

/-- a lock context is cancelled (with `ErrLockSessionDone`) only after the lease was lost -/
theorem cancelled_implies_lost {p : Params} {s : State} (h : Reach p s) :
    ∀ i, s.ctx i = .cancelled → s.leaseAlive i = false := by
  induction h with
  | init => intro i hi; simp [init] at hi
  | step hr st ih =>
    cases st with
    | acquire i m hidle hlease =>
      intro j hj
      rw [acquire_leaseAlive]
      by_cases hji : j = i
      · subst hji
        rcases acquire_self p.ttl _ j m with ⟨_, _, _, hc⟩ | ⟨_, _, hc, _⟩
        · rw [hc] at hj; cases hj
        · rw [hc] at hj; exact ih j hj
      · rw [acquire_ctx_other _ _ _ _ hji] at hj; exact ih j hj
    | tryDelete i hi => intro j hj; exact ih j hj
    | timeout i dl hi hdl => intro j hj; exact ih j hj
    | waitDone i dl hi hno =>
      intro j hj
      unfold waitDone at hj ⊢
      split at hj
      · rename_i hc
        rw [if_pos hc]
        by_cases hji : j = i
        · subst hji; simp [upd] at hj
        · simp only [upd, hji, if_false] at hj; exact ih j hj
      · rename_i hc; rw [if_neg hc]; exact ih j hj
    | unlock i hi =>
      intro j hj
      simp only [unlock] at hj ⊢
      by_cases hji : j = i
      · subst hji; simp [upd]
      · simp only [upd, hji, if_false]; exact ih j hj
    | loseLease i hi =>
      intro j hj
      simp only [loseLease] at hj ⊢
      by_cases hji : j = i
      · subst hji; simp [upd]
      · simp only [upd, hji, if_false]; exact ih j hj
    | watch i hla hc hlk =>
      intro j hj
      simp only [watch] at hj ⊢
      by_cases hji : j = i
      · subst hji; exact hla
      · simp only [upd, hji, if_false] at hj; exact ih j hj
    | tick hg => exact ih

end Eru.Lock.Etcd

namespace Eru.Lock.Etcd

/-! ### the schedule replay of the oracle only visits reachable states -/

/-- no client is in the window between losing its lease and its watcher running -/
def NoPending (s : State) : Prop := ∀ i t, ¬ pendingLoss s i t

structure Good (p : Params) (s : State) : Prop where
  reach : Reach p s
  np : NoPending s

theorem good_ticks {p : Params} {s : State} (h : Good p s) (n : Nat) : Good p { s with wall := s.wall + n } := by
  induction n with
  | zero => exact h
  | succ n ih =>
    refine ⟨Reach.step ih.reach (Step.tick _ (fun i t hp => absurd hp (ih.np i t))), ?_⟩
    intro i t hp; exact ih.np i t hp

theorem good_wall_to {p : Params} {s : State} (h : Good p s) (w : Nat) (hw : s.wall ≤ w) :
    Good p { s with wall := w } := by
  have := good_ticks h (w - s.wall)
  have e : s.wall + (w - s.wall) = w := by omega
  rw [e] at this; exact this

theorem good_acquire {p : Params} {s : State} (h : Good p s) (i : Nat) (m : Mode)
    (hi : s.phase i = .idle) (hl : s.leaseAlive i = true) : Good p (acquire p.ttl s i m) := by
  refine ⟨Reach.step h.reach (Step.acquire s i m hi hl), ?_⟩
  intro j t ⟨hc, hlk, hlt⟩
  rw [acquire_lostAt] at hlt
  by_cases hji : j = i
  · subst hji; rw [(inv_reach h.reach).l3 j hl] at hlt; cases hlt
  · rw [acquire_ctx_other _ _ _ _ hji] at hc
    rw [acquire_locked_other _ _ _ _ hji] at hlk
    exact h.np j t ⟨hc, hlk, hlt⟩

theorem good_abandon_timeout {p : Params} {s : State} (h : Good p s) (i dl : Nat)
    (hi : s.phase i = .waiting dl) (hdl : dl ≤ s.wall) : Good p (abandon s i) :=
  ⟨Reach.step h.reach (Step.timeout s i dl hi hdl), fun j t hp => h.np j t hp⟩

theorem good_abandon_try {p : Params} {s : State} (h : Good p s) (i : Nat)
    (hi : s.phase i = .tryFailing) : Good p (abandon s i) :=
  ⟨Reach.step h.reach (Step.tryDelete s i hi), fun j t hp => h.np j t hp⟩

theorem good_unlock {p : Params} {s : State} (h : Good p s) (i : Nat)
    (hi : s.phase i = .holding ∨ s.phase i = .failed) : Good p (unlock s i) := by
  refine ⟨Reach.step h.reach (Step.unlock s i hi), ?_⟩
  intro j t ⟨hc, hlk, hlt⟩
  by_cases hji : j = i
  · subst hji; simp [unlock, upd] at hlk
  · simp only [unlock, upd, hji, if_false] at hc hlk hlt
    exact h.np j t ⟨hc, hlk, hlt⟩

theorem good_waitDone {p : Params} {s : State} (h : Good p s) (i dl : Nat)
    (hi : s.phase i = .waiting dl) (hno : ∀ k ∈ s.keys, ¬ k.2 < s.myRev i) : Good p (waitDone s i) := by
  refine ⟨Reach.step h.reach (Step.waitDone s i dl hi hno), ?_⟩
  intro j t hp
  unfold waitDone at hp
  split at hp
  · rename_i hc
    obtain ⟨hc', hlk, hlt⟩ := hp
    by_cases hji : j = i
    · subst hji
      have hmem : (j, s.myRev j) ∈ s.keys := by simpa using hc
      have := (inv_reach h.reach).l3 j ((inv_reach h.reach).k3 _ hmem).2
      simp only at hlt; rw [this] at hlt; cases hlt
    · simp only [upd, hji, if_false] at hc' hlk
      exact h.np j t ⟨hc', hlk, hlt⟩
  · exact h.np j t hp

theorem good_revoke {p : Params} {s : State} (h : Good p s) (i : Nat) (hl : s.leaseAlive i = true) :
    Good p (if (loseLease s i).ctx i = .live ∧ (loseLease s i).locked i = true then watch (loseLease s i) i
            else loseLease s i) := by
  have r1 := Reach.step h.reach (Step.loseLease s i hl)
  have others : ∀ j t, j ≠ i → ¬ pendingLoss (loseLease s i) j t := by
    intro j t hji ⟨hc, hlk, hlt⟩
    simp only [loseLease, upd, hji, if_false] at hc hlk hlt
    exact h.np j t ⟨hc, hlk, hlt⟩
  split
  · rename_i hw
    refine ⟨Reach.step r1 (Step.watch _ i (by simp [loseLease, upd]) hw.1 hw.2), ?_⟩
    intro j t ⟨hc, hlk, hlt⟩
    by_cases hji : j = i
    · subst hji; simp [watch, upd] at hc
    · simp only [watch, upd, hji, if_false] at hc
      exact others j t hji ⟨hc, hlk, hlt⟩
  · rename_i hw
    refine ⟨r1, ?_⟩
    intro j t ⟨hc, hlk, hlt⟩
    by_cases hji : j = i
    · subst hji; exact hw ⟨hc, hlk⟩
    · exact others j t hji ⟨hc, hlk, hlt⟩

theorem good_expire {p : Params} : ∀ (l : List Nat) (s : State), Good p s →
    Good p (l.foldl (fun st i => match st.phase i with
      | .waiting dl => if dl ≤ st.wall then abandon st i else st
      | _ => st) s) := by
  intro l
  induction l with
  | nil => intro s h; exact h
  | cons i l ih =>
    intro s h
    simp only [List.foldl_cons]
    apply ih
    split
    · rename_i dl hi
      split
      · rename_i hdl; exact good_abandon_timeout h i dl hi hdl
      · exact h
    · exact h

/-- **exec_reach (etcd).**  Every command of a schedule is a finite sequence of `Step`s (the time
    jumps are `tick`s, whose urgency guard is vacuous because replayed schedules run the watcher
    right after a lease loss). -/
theorem exec_good {p : Params} {s : State} (h : Good p s) (c : Cmd) : Good p (exec p.ttl s c).1 := by
  cases c with
  | lock i =>
    simp only [exec]
    split
    · rename_i hg
      have ga := good_acquire h i .lock hg.1 (by simpa using hg.2)
      rcases acquire_self p.ttl s i .lock with ⟨_, hp, _⟩ | ⟨_, _, _, ⟨hm, _⟩ | ⟨_, hp⟩⟩
      · simp only [hp]; exact ga
      · cases hm
      · simp only [hp]
        have gw := good_ticks ga p.ttl
        exact good_abandon_timeout gw i (s.wall + p.ttl) hp (by simp [acquire_wall])
    · exact h
  | tryLock i =>
    simp only [exec]
    split
    · rename_i hg
      have ga := good_acquire h i .try hg.1 (by simpa using hg.2)
      rcases acquire_self p.ttl s i .try with ⟨_, hp, _⟩ | ⟨_, _, _, ⟨_, hp⟩ | ⟨hm, _⟩⟩
      · simp only [hp]; exact ga
      · simp only [hp]; exact good_abandon_try ga i hp
      · cases hm
    · exact h
  | unlock i =>
    simp only [exec]
    split
    · rename_i hi; exact good_unlock h i (Or.inl hi)
    · rename_i hi; exact good_unlock h i (Or.inr hi)
    · exact h
  | lockAsync i =>
    simp only [exec]
    split
    · rename_i hg; exact good_acquire h i .lock hg.1 (by simpa using hg.2)
    · exact h
  | join i =>
    simp only [exec]
    split
    · rename_i dl hi
      split
      · rename_i hno
        refine good_waitDone h i dl hi ?_
        intro k hk
        simp only [noOlder, List.all_eq_true, Bool.not_eq_true', decide_eq_false_iff_not] at hno
        exact hno k hk
      · have gw := good_wall_to h (max s.wall dl) (Nat.le_max_left _ _)
        exact good_abandon_timeout gw i dl hi (Nat.le_max_right _ _)
    · exact h
    · exact h
  | sleep dt =>
    simp only [exec, expireWaiters]
    exact good_expire _ _ (good_ticks h dt)
  | revoke i =>
    simp only [exec]
    split
    · rename_i hl; exact good_revoke h i (by simpa using hl)
    · exact h
  | observe i => exact h
  | cancelCtx i => exact h

theorem good_init (p : Params) : Good p init := ⟨Reach.init, fun i t hp => by simp [pendingLoss, init] at hp⟩

def replayStates (ttl : Nat) : State → List Cmd → List State
  | _, [] => []
  | s, c :: cs => (exec ttl s c).1 :: replayStates ttl (exec ttl s c).1 cs

theorem replay_reach {p : Params} : ∀ (cs : List Cmd) (s : State), Good p s →
    ∀ s' ∈ replayStates p.ttl s cs, Reach p s' := by
  intro cs
  induction cs with
  | nil => intro s _ s' h; cases h
  | cons c cs ih =>
    intro s h s' hm
    simp only [replayStates, List.mem_cons] at hm
    rcases hm with e | hm
    · subst e; exact (exec_good h c).reach
    · exact ih _ (exec_good h c) s' hm

/-- **only its own Unlock or the loss of its lease take a holder's key away**: across any other step
    (in particular: there is no step for "the acquiring context ended") the key stays and stays the
    oldest -/
theorem holder_keeps_key {p : Params} {s s' : State} (hr : Reach p s) (st : Step p s s') (i : Nat)
    (hi : s.phase i = .holding) (hl : s.leaseAlive i = true)
    (h1 : s' ≠ unlock s i) (h2 : s' ≠ loseLease s i) :
    (i, s.myRev i) ∈ s'.keys ∧ ∀ k ∈ s'.keys, s.myRev i ≤ k.2 := by
  have inv' := inv_reach (Reach.step hr st)
  have key : s'.phase i = .holding ∧ s'.leaseAlive i = true ∧ s'.myRev i = s.myRev i := by
    cases st with
    | acquire j m hidle hlease =>
      have hji : i ≠ j := by intro e; subst e; rw [hi] at hidle; cases hidle
      exact ⟨by rw [acquire_phase_other _ _ _ _ hji]; exact hi, by rw [acquire_leaseAlive]; exact hl,
        by rw [acquire_myRev, upd_other _ _ hji]⟩
    | tryDelete j hj =>
      have hji : i ≠ j := by intro e; subst e; rw [hi] at hj; cases hj
      exact ⟨by simp [abandon, upd, hji, hi], hl, rfl⟩
    | timeout j dl hj hdl =>
      have hji : i ≠ j := by intro e; subst e; rw [hi] at hj; cases hj
      exact ⟨by simp [abandon, upd, hji, hi], hl, rfl⟩
    | waitDone j dl hj hno =>
      have hji : i ≠ j := by intro e; subst e; rw [hi] at hj; cases hj
      unfold waitDone
      split
      · exact ⟨by simp [upd, hji, hi], hl, rfl⟩
      · exact ⟨by simp [upd, hji, hi], hl, rfl⟩
    | unlock j hj =>
      have hji : i ≠ j := by intro e; subst e; exact h1 rfl
      exact ⟨by simp [unlock, upd, hji, hi], by simp [unlock, upd, hji, hl], rfl⟩
    | loseLease j hj =>
      have hji : i ≠ j := by intro e; subst e; exact h2 rfl
      exact ⟨hi, by simp [loseLease, upd, hji, hl], rfl⟩
    | watch j a b c => exact ⟨hi, hl, rfl⟩
    | tick hg => exact ⟨hi, hl, rfl⟩
  obtain ⟨k1, k2, k3⟩ := key
  have := inv'.own i k1 k2
  rw [k3] at this
  exact this

end Eru.Lock.Etcd
