/-
Model of the Redis lock protocol (C18, C19).

* `/repo/lock/redis/lock.go` `RedisLock` (created per call by `store/redis/lock.go` `CreateLock(key, ttl)`
  with `waitTimeout = lockTTL = ttl`) on top of `github.com/muroq/redislock`:
  `Obtain`: fresh random token; loop { `SET key token NX PX ttl`; if ok → held;
  `TryLock` (no retry strategy) → `ErrNotObtained` at once; `Lock` → wait one retry interval (500 ms)
  or until the wait deadline → `ErrNotObtained` }.  `Release`: Lua "if get(key) == token then del(key)"
  (atomic), `ErrLockNotHeld` otherwise.  The context returned by `Lock`/`TryLock` is `context.TODO()`:
  it is never cancelled (C19, finding D15).
* Environment (modelled, not verified): one Redis key with a value and an expiry instant on the
  server clock `now`; an expired key is absent; random 128-bit tokens never repeat (fresh counter).
  The wait deadline and retry timer run on the clients' clock `wall`; the two clocks advance
  independently (production: together; the miniredis harness: `now` only by `FastForward`).

A state has unboundedly many clients (lock objects, each used for one Lock/TryLock … Unlock);
`Step` interleaves their atomic Redis calls in every possible way.
-/
namespace Eru.Lock.Redis

inductive Mode where
  | lock | try
  deriving Repr, DecidableEq

inductive Phase where
  | idle
  | trying (mode : Mode) (tok : Nat) (nextAt deadline : Nat)   -- inside Obtain
  | holding (tok : Nat)                                         -- Lock/TryLock returned nil error
  | failed                                                      -- ErrNotObtained
  | done (released : Bool)                                      -- Unlock returned (true: key deleted)
  deriving Repr, DecidableEq

structure Params where
  ttl : Nat        -- lock TTL (`SET … PX ttl`)
  wait : Nat       -- wait timeout of `Lock` (store CreateLock passes the same duration for both;
                   -- `lock/redis.New(cli, key, waitTimeout, lockTTL)` keeps them apart)
  interval : Nat   -- retry interval (500 ms)
  deriving Repr

structure State where
  val : Option (Nat × Nat)      -- the key: (token, expiresAt) on the server clock
  now : Nat                     -- server clock
  wall : Nat                    -- client clock
  nextTok : Nat                 -- fresh-token supply
  cl : Nat → Phase
  ctxCancelled : Nat → Bool     -- the context returned to client i; never set by the Redis lock

def init : State := { val := none, now := 0, wall := 0, nextTok := 0, cl := fun _ => .idle, ctxCancelled := fun _ => false }

/-- the key is present and unexpired -/
def alive (s : State) : Option (Nat × Nat) := s.val.filter fun v => s.now < v.2

def setCl (s : State) (i : Nat) (p : Phase) : State := { s with cl := fun j => if j = i then p else s.cl j }

/-- `Lock`/`TryLock` entered: `Obtain` draws its token, first attempt is due immediately -/
def begin (p : Params) (s : State) (i : Nat) (m : Mode) : State :=
  { setCl s i (.trying m s.nextTok s.wall (s.wall + p.wait)) with nextTok := s.nextTok + 1 }

/-- one `SET NX PX` attempt of a client inside `Obtain` -/
def attempt (p : Params) (s : State) (i : Nat) (m : Mode) (tok deadline : Nat) : State :=
  match alive s with
  | none => { setCl s i (.holding tok) with val := some (tok, s.now + p.ttl) }
  | some _ => match m with
    | .try => setCl s i .failed
    | .lock => setCl s i (.trying m tok (s.wall + p.interval) deadline)

/-- `Unlock` → `Release`: compare token and delete, atomically -/
def release (s : State) (i : Nat) (tok : Nat) : State :=
  match alive s with
  | some (t, _) => if t = tok then { setCl s i (.done true) with val := none } else setCl s i (.done false)
  | none => setCl s i (.done false)

inductive Step (p : Params) : State → State → Prop
  | begin (s i m) : s.cl i = .idle → Step p s (begin p s i m)
  | attempt (s i m tok nextAt deadline) : s.cl i = .trying m tok nextAt deadline →
      nextAt ≤ s.wall → s.wall < deadline →
      Step p s (attempt p s i m tok deadline)
  | giveup (s i m tok nextAt deadline) : s.cl i = .trying m tok nextAt deadline → deadline ≤ s.wall →
      Step p s (setCl s i .failed)
  | release (s i tok) : s.cl i = .holding tok → Step p s (release s i tok)
  | tickServer (s) : Step p s { s with now := s.now + 1 }
  | tickWall (s) : Step p s { s with wall := s.wall + 1 }

/-- **WithinLease**: the server clock does not pass the expiry of a key whose owner is still in its
    critical section (holders exit before their TTL ends) -/
def LeaseOK (s : State) : Prop :=
  ∀ i tok, s.cl i = .holding tok → ∀ e, s.val = some (tok, e) → s.now + 1 < e

inductive StepWL (p : Params) : State → State → Prop
  | step {s s'} : Step p s s' → (s' = { s with now := s.now + 1 } → LeaseOK s) → StepWL p s s'

inductive Reach (p : Params) : State → Prop
  | init : Reach p init
  | step {s s'} : Reach p s → Step p s s' → Reach p s'

inductive ReachWL (p : Params) : State → Prop
  | init : ReachWL p init
  | step {s s'} : ReachWL p s → StepWL p s s' → ReachWL p s'

def isHolding (s : State) (i : Nat) : Prop := ∃ tok, s.cl i = .holding tok

/-! ### schedule replay (oracle side): the same step functions driven by a script -/

inductive Cmd where
  | lock (i : Nat)        -- blocking Lock, run to completion (no other client moves meanwhile)
  | tryLock (i : Nat)
  | unlock (i : Nat)
  | ff (dt : Nat)         -- server time passes (miniredis FastForward)
  | lockAsync (i : Nat)   -- Lock started in the background: first attempt now, then blocked
  | join (i : Nat)        -- wait for the background Lock: it retries now, else runs into its deadline
  | observe (i : Nat)     -- read the context returned to client i
  | cancelCtx (i : Nat)   -- the context that was passed to client i's Lock/TryLock is cancelled or times out
  deriving Repr

inductive Res where
  | acquired | notObtained | released | notHeld | blocked | advanced | misuse | ctxLive | ctxCancelled | ctxNone | done
  deriving Repr, DecidableEq

def Res.str : Res → String
  | .acquired => "acquired" | .notObtained => "not-obtained" | .released => "released"
  | .notHeld => "not-held" | .blocked => "blocked" | .advanced => "advanced" | .misuse => "misuse"
  | .ctxLive => "ctx-live" | .ctxCancelled => "ctx-cancelled" | .ctxNone => "ctx-none" | .done => "done"

def phaseRes (s : State) (i : Nat) : Res :=
  match s.cl i with
  | .holding _ => .acquired
  | .failed => .notObtained
  | .trying .. => .blocked
  | _ => .misuse

/-- a client inside `Obtain` that nobody will help any more runs into its wait deadline -/
def runOut (s : State) (i : Nat) : State × Res :=
  match s.cl i with
  | .trying _ _ _ dl => (setCl { s with wall := max s.wall dl } i .failed, .notObtained)
  | _ => (s, phaseRes s i)

/-- `begin` followed by the first `SET NX` attempt -/
def enter (p : Params) (s : State) (i : Nat) (m : Mode) : State :=
  attempt p (begin p s i m) i m s.nextTok (s.wall + p.wait)

def exec (p : Params) (s : State) : Cmd → State × Res
  | .lock i =>
    match s.cl i with
    | .idle => runOut (enter p s i .lock) i
    | _ => (s, .misuse)
  | .tryLock i =>
    match s.cl i with
    | .idle => let s2 := enter p s i .try; (s2, phaseRes s2 i)
    | _ => (s, .misuse)
  | .unlock i =>
    match s.cl i with
    | .holding tok => let s1 := release s i tok
      (s1, match s1.cl i with | .done true => .released | _ => .notHeld)
    | _ => (s, .notHeld)
  | .ff dt => ({ s with now := s.now + dt }, .advanced)
  | .lockAsync i =>
    match s.cl i with
    | .idle => let s2 := enter p s i .lock; (s2, phaseRes s2 i)
    | _ => (s, .misuse)
  | .join i =>
    match s.cl i with
    | .trying m tok na dl =>
      let s1 := { s with wall := max s.wall na }
      if s1.wall < dl then runOut (attempt p s1 i m tok dl) i
      else (setCl { s with wall := max s.wall dl } i .failed, .notObtained)
    | _ => (s, .misuse)
  | .observe i =>
    (s, match s.cl i with
      | .holding _ => if s.ctxCancelled i then .ctxCancelled else .ctxLive
      | .done _ => if s.ctxCancelled i then .ctxCancelled else .ctxLive
      | _ => .ctxNone)
  -- the acquiring context only bounds the Obtain call: once the lock is held its end releases nothing
  | .cancelCtx _ => (s, .done)

def replay (p : Params) : State → List Cmd → List Res
  | _, [] => []
  | s, c :: cs => let r := exec p s c; r.2 :: replay p r.1 cs

/-- holders (clients between a successful Lock/TryLock and their Unlock) after each command -/
def replayHolders (p : Params) (n : Nat) : State → List Cmd → List (List Nat)
  | _, [] => []
  | s, c :: cs => let r := exec p s c
    ((List.range n).filter fun i => match r.1.cl i with | .holding _ => true | _ => false) :: replayHolders p n r.1 cs

end Eru.Lock.Redis
