import Eru.Lock.Redis
/- Invariants of the Redis lock protocol model (C18/C19). Core Lean only. -/
namespace Eru.Lock.Redis

def tokOf : Phase → Option Nat
  | .trying _ t _ _ => some t
  | .holding t => some t
  | _ => none

/-- tokens in use are below the supply and pairwise distinct; the key's token is below the supply;
    a client still inside `Obtain` does not own the key; try-mode clients are never rescheduled -/
structure Inv (p : Params) (s : State) : Prop where
  below : ∀ i t, tokOf (s.cl i) = some t → t < s.nextTok
  uniq : ∀ i j t, tokOf (s.cl i) = some t → tokOf (s.cl j) = some t → i = j
  valBelow : ∀ t e, s.val = some (t, e) → t < s.nextTok
  tryingNoKey : ∀ i m t na dl, s.cl i = .trying m t na dl → ∀ e, s.val ≠ some (t, e)
  tryOnce : ∀ i t na dl, s.cl i = .trying .try t na dl → dl = na + p.wait

/-- a holder's key is present, carries its token and is unexpired (needs WithinLease) -/
def HolderLive (s : State) : Prop :=
  ∀ i tok, s.cl i = .holding tok → ∃ e, s.val = some (tok, e) ∧ s.now < e

theorem setCl_cl (s : State) (i : Nat) (ph : Phase) (j : Nat) :
    (setCl s i ph).cl j = if j = i then ph else s.cl j := rfl

theorem alive_some {s : State} {t e : Nat} (h : alive s = some (t, e)) : s.val = some (t, e) ∧ s.now < e := by
  unfold alive at h
  cases hv : s.val with
  | none => simp [hv] at h
  | some v =>
    simp only [hv, Option.filter_some] at h
    split at h
    · rename_i hc; injection h with h; subst h; exact ⟨rfl, by simpa using hc⟩
    · cases h

theorem alive_none_of {s : State} {t e : Nat} (hv : s.val = some (t, e)) (hl : s.now < e) : alive s = some (t, e) := by
  unfold alive; simp [hv, hl]

theorem inv_init (p : Params) : Inv p init := by
  constructor <;> intros <;> simp_all [init, tokOf]

/-- changing one client's phase to one that carries no new token keeps the token invariants -/
theorem inv_setCl_sub {p : Params} {s : State} (h : Inv p s) (i : Nat) (ph : Phase) (val : Option (Nat × Nat))
    (hp : ∀ t, tokOf ph = some t → tokOf (s.cl i) = some t)
    (hval : ∀ t e, val = some (t, e) → t < s.nextTok)
    (htk : ∀ j m t na dl, (if j = i then ph else s.cl j) = .trying m t na dl → ∀ e, val ≠ some (t, e))
    (htry : ∀ t na dl, ph = .trying .try t na dl → dl = na + p.wait) :
    Inv p { setCl s i ph with val := val } := by
  constructor
  · intro j t hj
    simp only [setCl] at hj
    split at hj
    · rename_i e; subst e; exact h.below _ t (hp t hj)
    · exact h.below j t hj
  · intro j k t hj hk
    simp only [setCl] at hj hk
    split at hj <;> split at hk
    · rename_i e1 e2; rw [e1, e2]
    · rename_i e1 _; subst e1; exact h.uniq _ _ t (hp t hj) hk
    · rename_i _ e2; subst e2; exact h.uniq _ _ t hj (hp t hk)
    · exact h.uniq _ _ t hj hk
  · exact hval
  · intro j m t na dl hj; exact htk j m t na dl hj
  · intro j t na dl hj
    simp only [setCl] at hj
    split at hj
    · exact htry t na dl hj
    · exact h.tryOnce j t na dl hj

theorem inv_step {p : Params} {s s' : State} (h : Inv p s) (st : Step p s s') : Inv p s' := by
  cases st with
  | begin i m hi =>
    unfold begin
    constructor
    · intro j t hj
      simp only [setCl] at hj
      split at hj
      · simp only [tokOf, Option.some.injEq] at hj; subst hj; exact Nat.lt_succ_self _
      · exact Nat.lt_succ_of_lt (h.below j t hj)
    · intro j k t hj hk
      simp only [setCl] at hj hk
      split at hj <;> split at hk
      · rename_i e1 e2; rw [e1, e2]
      · simp only [tokOf, Option.some.injEq] at hj; subst hj
        exact absurd (h.below k _ hk) (Nat.lt_irrefl _)
      · simp only [tokOf, Option.some.injEq] at hk; subst hk
        exact absurd (h.below j _ hj) (Nat.lt_irrefl _)
      · exact h.uniq _ _ t hj hk
    · intro t e hv; exact Nat.lt_succ_of_lt (h.valBelow t e hv)
    · intro j m' t na dl hj e hv
      simp only [setCl] at hj
      split at hj
      · injection hj with _ ht; subst ht
        exact absurd (h.valBelow _ e hv) (Nat.lt_irrefl _)
      · exact h.tryingNoKey j m' t na dl hj e hv
    · intro j t na dl hj
      simp only [setCl] at hj
      split at hj
      · injection hj with _ _ h1 h2; subst h1; subst h2; rfl
      · exact h.tryOnce j t na dl hj
  | attempt i m tok nextAt deadline hi hna hdl =>
    unfold attempt
    cases hal : alive s with
    | none =>
      simp only []
      apply inv_setCl_sub h i (.holding tok) (some (tok, s.now + p.ttl))
      · intro t ht; simp only [tokOf, Option.some.injEq] at ht; subst ht; rw [hi]; rfl
      · intro t e hv; injection hv with hv; injection hv with h1 _; subst h1
        exact h.below i _ (by rw [hi]; rfl)
      · intro j m' t na dl hj e hv
        injection hv with hv; injection hv with h1 _; subst h1
        split at hj
        · cases hj
        · rename_i hne
          exact hne (h.uniq j i _ (by rw [hj]; rfl) (by rw [hi]; rfl))
      · intro t na dl hc; cases hc
    | some v =>
      simp only []
      cases m with
      | «try» =>
        simp only []
        have := inv_setCl_sub h i .failed s.val (by intro t ht; cases ht) h.valBelow
          (by intro j m' t na dl hj e hv
              split at hj
              · cases hj
              · exact h.tryingNoKey j m' t na dl hj e hv)
          (by intro t na dl hc; cases hc)
        exact this
      | lock =>
        simp only []
        have := inv_setCl_sub h i (.trying .lock tok (s.wall + p.interval) deadline) s.val
          (by intro t ht; simp only [tokOf, Option.some.injEq] at ht; subst ht; rw [hi]; rfl) h.valBelow
          (by intro j m' t na dl hj e hv
              split at hj
              · injection hj with _ h1; subst h1
                exact h.tryingNoKey i _ _ _ _ hi e hv
              · exact h.tryingNoKey j m' t na dl hj e hv)
          (by intro t na dl hc; cases hc)
        exact this
  | giveup i m tok nextAt deadline hi hdl =>
    have := inv_setCl_sub h i .failed s.val (by intro t ht; cases ht) h.valBelow
      (by intro j m' t na dl hj e hv
          split at hj
          · cases hj
          · exact h.tryingNoKey j m' t na dl hj e hv)
      (by intro t na dl hc; cases hc)
    exact this
  | release i tok hi =>
    unfold release
    have sub : ∀ (b : Bool) (val : Option (Nat × Nat)), (val = s.val ∨ val = none) → Inv p { setCl s i (.done b) with val := val } := by
      intro b val hval
      apply inv_setCl_sub h i (.done b) val (by intro t ht; cases ht)
      · intro t e hv; rcases hval with e1 | e1
        · exact h.valBelow t e (e1 ▸ hv)
        · rw [e1] at hv; cases hv
      · intro j m' t na dl hj e hv
        split at hj
        · cases hj
        · rcases hval with e1 | e1
          · exact h.tryingNoKey j m' t na dl hj e (e1 ▸ hv)
          · rw [e1] at hv; cases hv
      · intro t na dl hc; cases hc
    cases hal : alive s with
    | none => exact sub false s.val (Or.inl rfl)
    | some v =>
      obtain ⟨t, e⟩ := v
      simp only []
      split
      · exact sub true none (Or.inr rfl)
      · exact sub false s.val (Or.inl rfl)
  | tickServer => exact ⟨h.below, h.uniq, h.valBelow, h.tryingNoKey, h.tryOnce⟩
  | tickWall => exact ⟨h.below, h.uniq, h.valBelow, h.tryingNoKey, h.tryOnce⟩

theorem inv_reach {p : Params} {s : State} (h : Reach p s) : Inv p s := by
  induction h with
  | init => exact inv_init p
  | step _ st ih => exact inv_step ih st

theorem reach_of_reachWL {p : Params} {s : State} (h : ReachWL p s) : Reach p s := by
  induction h with
  | init => exact Reach.init
  | step _ st ih => cases st with | step st _ => exact Reach.step ih st

theorem holderLive_step {p : Params} (hp : 0 < p.ttl) {s s' : State} (hinv : Inv p s) (h : HolderLive s)
    (st : StepWL p s s') : HolderLive s' := by
  cases st with
  | step st hwl =>
  cases st with
  | begin i m hi =>
    intro j tok hj
    simp only [begin, setCl] at hj ⊢
    split at hj
    · cases hj
    · exact h j tok hj
  | attempt i m tok nextAt deadline hi hna hdl =>
    unfold attempt
    cases hal : alive s with
    | none =>
      intro j tok' hj
      simp only [setCl] at hj ⊢
      split at hj
      · injection hj with hj; subst hj; exact ⟨_, rfl, by omega⟩
      · obtain ⟨e, hv, hl⟩ := h j tok' hj
        rw [alive_none_of hv hl] at hal; cases hal
    | some v =>
      intro j tok' hj
      cases m with
      | «try» =>
        simp only [setCl] at hj ⊢
        split at hj
        · cases hj
        · exact h j tok' hj
      | lock =>
        simp only [setCl] at hj ⊢
        split at hj
        · cases hj
        · exact h j tok' hj
  | giveup i m tok nextAt deadline hi hdl =>
    intro j tok' hj
    simp only [setCl] at hj ⊢
    split at hj
    · cases hj
    · exact h j tok' hj
  | release i tok hi =>
    obtain ⟨e, hv, hl⟩ := h i tok hi
    unfold release
    rw [alive_none_of hv hl]
    simp only [if_true]
    intro j tok' hj
    simp only [setCl] at hj
    split at hj
    · cases hj
    · rename_i hne
      obtain ⟨e', hv', _⟩ := h j tok' hj
      rw [hv] at hv'; injection hv' with hv'; injection hv' with h1 _
      subst h1
      exact absurd (hinv.uniq j i tok (by rw [hj]; rfl) (by rw [hi]; rfl)) hne
  | tickServer =>
    have hl := hwl rfl
    intro j tok hj
    obtain ⟨e, hv, _⟩ := h j tok hj
    exact ⟨e, hv, by have := hl j tok hj e hv; simp only; omega⟩
  | tickWall => exact h

theorem holderLive_reachWL {p : Params} (hp : 0 < p.ttl) {s : State} (h : ReachWL p s) : HolderLive s := by
  induction h with
  | init => intro i tok hi; simp [init] at hi
  | step hr st ih => exact holderLive_step hp (inv_reach (reach_of_reachWL hr)) ih st

end Eru.Lock.Redis

namespace Eru.Lock.Redis

theorem reach_ticks {p : Params} {s : State} (h : Reach p s) (n : Nat) : Reach p { s with now := s.now + n } := by
  induction n with
  | zero => exact h
  | succ n ih => exact Reach.step ih (Step.tickServer _)

theorem reach_wall_ticks {p : Params} {s : State} (h : Reach p s) (n : Nat) : Reach p { s with wall := s.wall + n } := by
  induction n with
  | zero => exact h
  | succ n ih => exact Reach.step ih (Step.tickWall _)

/-- the Redis lock never cancels the context it returned -/
theorem ctx_never_cancelled {p : Params} {s : State} (h : Reach p s) : ∀ i, s.ctxCancelled i = false := by
  induction h with
  | init => intro i; rfl
  | step _ st ih =>
    cases st with
    | begin i m hi => exact ih
    | attempt i m tok nextAt deadline hi hna hdl =>
      intro j; unfold attempt
      cases alive _ with
      | none => exact ih j
      | some v => cases m <;> exact ih j
    | giveup i m tok nextAt deadline hi hdl => exact ih
    | release i tok hi =>
      intro j; unfold release
      cases alive _ with
      | none => exact ih j
      | some v => obtain ⟨t, e⟩ := v; simp only []; split <;> exact ih j
    | tickServer => exact ih
    | tickWall => exact ih

end Eru.Lock.Redis

namespace Eru.Lock.Redis

/-! ### the schedule replay of the oracle only visits reachable states -/

theorem reach_wall_to {p : Params} {s : State} (h : Reach p s) (w : Nat) (hw : s.wall ≤ w) :
    Reach p { s with wall := w } := by
  have := reach_wall_ticks h (w - s.wall)
  have e : s.wall + (w - s.wall) = w := by omega
  rw [e] at this; exact this

theorem runOut_reach {p : Params} {s : State} (h : Reach p s) (i : Nat) : Reach p (runOut s i).1 := by
  unfold runOut
  split
  · rename_i m tok na dl hcl
    have r1 := reach_wall_to h (max s.wall dl) (Nat.le_max_left _ _)
    exact Reach.step r1 (Step.giveup _ i m tok na dl hcl (Nat.le_max_right _ _))
  · exact h

theorem enter_reach {p : Params} (hp : 0 < p.wait) {s : State} (h : Reach p s) (i : Nat) (m : Mode)
    (hi : s.cl i = .idle) : Reach p (enter p s i m) := by
  have r1 := Reach.step h (Step.begin s i m hi)
  have hc : (begin p s i m).cl i = .trying m s.nextTok s.wall (s.wall + p.wait) := by simp [begin, setCl]
  exact Reach.step r1 (Step.attempt _ i m s.nextTok s.wall (s.wall + p.wait) hc (Nat.le_refl _)
    (by show s.wall < s.wall + p.wait; omega))

/-- **exec_reach.**  Every command of a schedule is a finite sequence of `Step`s: the states the
    oracle's replay goes through are reachable states of the transition system the theorems are about. -/
theorem exec_reach {p : Params} (hp : 0 < p.wait) {s : State} (h : Reach p s) (c : Cmd) :
    Reach p (exec p s c).1 := by
  cases c with
  | lock i =>
    simp only [exec]
    split
    · rename_i hi; exact runOut_reach (enter_reach hp h i .lock hi) i
    · exact h
  | tryLock i =>
    simp only [exec]
    split
    · rename_i hi; exact enter_reach hp h i .try hi
    · exact h
  | unlock i =>
    simp only [exec]
    split
    · rename_i tok hi; exact Reach.step h (Step.release s i tok hi)
    · exact h
  | ff dt => exact reach_ticks h dt
  | lockAsync i =>
    simp only [exec]
    split
    · rename_i hi; exact enter_reach hp h i .lock hi
    · exact h
  | join i =>
    simp only [exec]
    split
    · rename_i m tok na dl hi
      split
      · rename_i hlt
        have r1 := reach_wall_to h (max s.wall na) (Nat.le_max_left _ _)
        exact runOut_reach (Reach.step r1 (Step.attempt _ i m tok na dl hi (Nat.le_max_right _ _) hlt)) i
      · have r1 := reach_wall_to h (max s.wall dl) (Nat.le_max_left _ _)
        exact Reach.step r1 (Step.giveup _ i m tok na dl hi (Nat.le_max_right _ _))
    · exact h
  | observe i => exact h
  | cancelCtx i => exact h

/-- all states of a replay are reachable -/
def replayStates (p : Params) : State → List Cmd → List State
  | _, [] => []
  | s, c :: cs => (exec p s c).1 :: replayStates p (exec p s c).1 cs

theorem replay_reach {p : Params} (hp : 0 < p.wait) : ∀ (cs : List Cmd) (s : State), Reach p s →
    ∀ s' ∈ replayStates p s cs, Reach p s' := by
  intro cs
  induction cs with
  | nil => intro s _ s' h; cases h
  | cons c cs ih =>
    intro s h s' hm
    simp only [replayStates, List.mem_cons] at hm
    rcases hm with e | hm
    · subst e; exact exec_reach hp h c
    · exact ih _ (exec_reach hp h c) s' hm

/-- **progress of a waiter**: a client inside `Obtain` can always attempt, give up, or time passes
    towards its next attempt/deadline; it is never stuck -/
theorem trying_progress (p : Params) (s : State) (i : Nat) (m : Mode) (tok na dl : Nat)
    (hi : s.cl i = .trying m tok na dl) :
    (na ≤ s.wall ∧ s.wall < dl ∧ Step p s (attempt p s i m tok dl)) ∨
    (dl ≤ s.wall ∧ Step p s (setCl s i .failed)) ∨
    (s.wall < na ∧ s.wall < dl ∧ Step p s { s with wall := s.wall + 1 }) := by
  by_cases h1 : dl ≤ s.wall
  · exact Or.inr (Or.inl ⟨h1, Step.giveup s i m tok na dl hi h1⟩)
  · by_cases h2 : na ≤ s.wall
    · exact Or.inl ⟨h2, by omega, Step.attempt s i m tok na dl hi h2 (by omega)⟩
    · exact Or.inr (Or.inr ⟨by omega, by omega, Step.tickWall s⟩)

end Eru.Lock.Redis
