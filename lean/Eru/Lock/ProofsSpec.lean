import Eru.Lock.Spec
import Eru.Lock.ProofsRedis
import Eru.Lock.ProofsEtcd
/- The specification the oracle evaluates on the implementation's results holds of the models' own
   replay (mutual-exclusion clause).  Core Lean only. -/
namespace Eru.Lock.Spec
open Eru.Lock

/-! ### Redis -/

/-- the spec's book agrees with the model state -/
structure JR (p : Redis.Params) (st : SpecSt) (s : Redis.State) : Prop where
  now : st.now = s.now
  hold : ∀ h ∈ st.holders, ∃ tok, s.cl h.1 = .holding tok ∧ (s.now < h.2 + p.ttl → s.val = some (tok, h.2 + p.ttl))
  clean : tagTwoHolders ∉ st.viol

theorem alive_begin (p : Redis.Params) (s : Redis.State) (i : Nat) (m : Redis.Mode) :
    Redis.alive (Redis.begin p s i m) = Redis.alive s := rfl

/-- effect of `begin` + first attempt on an idle client -/
theorem enter_cases (p : Redis.Params) (s : Redis.State) (i : Nat) (m : Redis.Mode) :
    (Redis.alive s = none ∧ (Redis.enter p s i m).cl i = .holding s.nextTok ∧
      (Redis.enter p s i m).val = some (s.nextTok, s.now + p.ttl)) ∨
    ((Redis.alive s).isSome ∧ (Redis.enter p s i m).val = s.val ∧
      (match m with
       | .try => (Redis.enter p s i m).cl i = .failed
       | .lock => ∃ na dl, (Redis.enter p s i m).cl i = .trying .lock s.nextTok na dl)) := by
  unfold Redis.enter Redis.attempt
  rw [alive_begin]
  cases h : Redis.alive s with
  | none => left; simp [Redis.setCl, Redis.begin]
  | some v =>
    right
    cases m <;> simp [Redis.setCl, Redis.begin]

theorem enter_frame (p : Redis.Params) (s : Redis.State) (i : Nat) (m : Redis.Mode) :
    (Redis.enter p s i m).now = s.now ∧ ∀ j, j ≠ i → (Redis.enter p s i m).cl j = s.cl j := by
  unfold Redis.enter Redis.attempt
  rw [alive_begin]
  cases Redis.alive s with
  | none => exact ⟨rfl, fun j hj => by simp [Redis.setCl, Redis.begin, hj]⟩
  | some v => cases m <;> exact ⟨rfl, fun j hj => by simp [Redis.setCl, Redis.begin, hj]⟩

theorem runOut_frame (s : Redis.State) (i : Nat) :
    (Redis.runOut s i).1.now = s.now ∧ (Redis.runOut s i).1.val = s.val ∧
    (∀ j, j ≠ i → (Redis.runOut s i).1.cl j = s.cl j) ∧
    ((Redis.runOut s i).2 = .acquired → (Redis.runOut s i).1 = s ∧ ∃ tok, s.cl i = .holding tok) ∧
    ((Redis.runOut s i).2 ≠ .acquired → ∀ tok, (Redis.runOut s i).1.cl i ≠ .holding tok) := by
  unfold Redis.runOut
  cases h : s.cl i with
  | trying m tok na dl =>
    refine ⟨rfl, rfl, fun j hj => (by simp [Redis.setCl, hj]), fun e => (by cases e), fun _ tok' => (by simp [Redis.setCl])⟩
  | holding tok =>
    refine ⟨rfl, rfl, fun _ _ => rfl, fun _ => ⟨rfl, tok, rfl⟩, fun e => (by simp [Redis.phaseRes, h] at e)⟩
  | idle =>
    refine ⟨rfl, rfl, fun _ _ => rfl, fun e => (by simp [Redis.phaseRes, h] at e), fun _ tok' => (by simp [h])⟩
  | failed =>
    refine ⟨rfl, rfl, fun _ _ => rfl, fun e => (by simp [Redis.phaseRes, h] at e), fun _ tok' => (by simp [h])⟩
  | done b =>
    refine ⟨rfl, rfl, fun _ _ => rfl, fun e => (by simp [Redis.phaseRes, h] at e), fun _ tok' => (by simp [h])⟩

/-- a successful acquisition in a state whose key is free keeps the book right and adds no violation -/
theorem jr_acquired {p : Redis.Params} {st : SpecSt} {s s' : Redis.State} (j : JR p st s) (c tok : Nat)
    (hfree : Redis.alive s = none) (hnot : ∀ t, s.cl c ≠ .holding t)
    (hc : s'.cl c = .holding tok) (hv : s'.val = some (tok, s.now + p.ttl)) (hn : s'.now = s.now)
    (hfr : ∀ k, k ≠ c → s'.cl k = s.cl k) :
    JR p (onAcquired true p.ttl st c) s' := by
  have nolive : liveOthers true p.ttl st c = [] := by
    apply List.filter_eq_nil_iff.mpr
    intro h hh
    simp only [withinLease, if_true, Bool.and_eq_true, bne_iff_ne, ne_eq, decide_eq_true_eq, not_and]
    intro _ hlt
    obtain ⟨t, _, hval⟩ := j.hold h hh
    rw [j.now] at hlt
    have hv' := hval hlt
    have : Redis.alive s = some (t, h.2 + p.ttl) := Redis.alive_none_of hv' hlt
    rw [hfree] at this; cases this
  have notin : st.holders.any (·.1 == c) = false := by
    apply Bool.eq_false_iff.mpr
    intro ha
    obtain ⟨h, hh, e⟩ := List.any_eq_true.mp ha
    obtain ⟨t, ht, _⟩ := j.hold h hh
    have : h.1 = c := by simpa using e
    rw [this] at ht; exact hnot t ht
  refine ⟨by simp [onAcquired, j.now, hn], ?_, ?_⟩
  · simp only [onAcquired, notin, Bool.false_eq_true, if_false]
    intro h hh
    rcases List.mem_cons.mp hh with e | hh'
    · subst e; exact ⟨tok, hc, fun _ => by rw [hv, j.now]⟩
    · obtain ⟨t, ht, hval⟩ := j.hold h hh'
      have hne : h.1 ≠ c := by intro e; rw [e] at ht; exact hnot t ht
      refine ⟨t, by rw [hfr _ hne]; exact ht, ?_⟩
      intro hlt
      rw [hn] at hlt
      have hv' := hval hlt
      have : Redis.alive s = some (t, h.2 + p.ttl) := Redis.alive_none_of hv' hlt
      rw [hfree] at this; cases this
  · simp only [onAcquired, nolive, List.isEmpty_nil, if_true, List.append_nil]
    exact j.clean

/-- a step that leaves `now`, `val` and every holder's phase alone keeps the book right -/
theorem jr_frame {p : Redis.Params} {st st' : SpecSt} {s s' : Redis.State} (j : JR p st s)
    (hn : s'.now = s.now) (hv : s'.val = s.val) (hcl : ∀ h ∈ st.holders, s'.cl h.1 = s.cl h.1)
    (h1 : st'.now = st.now) (h2 : st'.holders = st.holders) (h3 : tagTwoHolders ∉ st'.viol) : JR p st' s' := by
  refine ⟨by rw [h1, hn]; exact j.now, ?_, h3⟩
  intro h hh
  rw [h2] at hh
  obtain ⟨t, ht, hval⟩ := j.hold h hh
  exact ⟨t, by rw [hcl h hh]; exact ht, by rw [hn, hv]; exact hval⟩

theorem refusedViol_clean (ttl wait : Nat) (st : SpecSt) (c : SCmd) (f : Flag) :
    tagTwoHolders ∉ refusedViol true ttl wait st c f := by
  unfold refusedViol
  simp only [List.mem_append, not_or]
  refine ⟨⟨⟨?_, ?_⟩, ?_⟩, ?_⟩ <;> (split <;> simp [tagTwoHolders])

theorem observeViol_clean (ttl : Nat) (st : SpecSt) (c : Nat) (r : Out) (f : Flag) :
    tagTwoHolders ∉ observeViol true ttl st c r f := by
  unfold observeViol
  split
  · split
    · simp [tagTwoHolders]
    · split
      · simp [tagTwoHolders]
      · split <;> simp [tagTwoHolders]
  · simp

end Eru.Lock.Spec

namespace Eru.Lock.Spec
open Eru.Lock

/-- what a not-acquired result of an acquiring call does to the spec's book -/
theorem specStep_nonacq (redis : Bool) (ttl wait : Nat) (st : SpecSt) (c : SCmd) (r : Out) (f : Flag)
    (hop : isAcq c.op = true) (hr : r ≠ .acquired) (hclean : tagTwoHolders ∉ st.viol)
    (hredis : redis = true) :
    (specStep redis ttl wait st c r f).now = st.now ∧ (specStep redis ttl wait st c r f).holders = st.holders ∧
    tagTwoHolders ∉ (specStep redis ttl wait st c r f).viol := by
  subst hredis
  unfold specStep
  rw [hop]
  cases r with
  | acquired => exact absurd rfl hr
  | refused =>
    refine ⟨rfl, rfl, ?_⟩
    simp only [List.mem_append, not_or]
    exact ⟨hclean, refusedViol_clean ttl wait st c f⟩
  | blocked =>
    refine ⟨rfl, rfl, ?_⟩
    simp only [List.mem_append, not_or]
    refine ⟨hclean, ?_⟩
    split <;> simp [tagTwoHolders]
  | ctxLive => cases hc : c.op <;> simp_all [isAcq]
  | ctxDone => cases hc : c.op <;> simp_all [isAcq]
  | ctxPlain => cases hc : c.op <;> simp_all [isAcq]
  | other => cases hc : c.op <;> simp_all [isAcq]

theorem jr_nonacq {p : Redis.Params} {st : SpecSt} {s s' : Redis.State} (j : JR p st s) (c : SCmd) (r : Out) (f : Flag)
    (hop : isAcq c.op = true) (hr : r ≠ .acquired)
    (hn : s'.now = s.now) (hv : s'.val = s.val) (hcl : ∀ h ∈ st.holders, s'.cl h.1 = s.cl h.1) :
    JR p (specStep true p.ttl p.wait st c r f) s' := by
  obtain ⟨a, b, d⟩ := specStep_nonacq true p.ttl p.wait st c r f hop hr j.clean rfl
  exact jr_frame j hn hv hcl a b d

/-- holders are holding, so a client in another phase is not among them -/
theorem holder_ne {p : Redis.Params} {st : SpecSt} {s : Redis.State} (j : JR p st s) (i : Nat)
    (hi : ∀ t, s.cl i ≠ .holding t) : ∀ h ∈ st.holders, h.1 ≠ i := by
  intro h hh e
  obtain ⟨t, ht, _⟩ := j.hold h hh
  rw [e] at ht; exact hi t ht

/-- entering `Obtain` from idle (Lock, TryLock, background Lock), optionally running out afterwards -/
theorem jr_enter {p : Redis.Params} {st : SpecSt} {s : Redis.State} (j : JR p st s) (i : Nat) (m : Redis.Mode)
    (op : Op) (hop : isAcq op = true) (hi : s.cl i = .idle) (f : Flag) (out : Bool) :
    let e := Redis.enter p s i m
    let r := if out then Redis.runOut e i else (e, Redis.phaseRes e i)
    JR p (specStep true p.ttl p.wait st ⟨op, i, 0⟩ (classRedis r.2) f) r.1 := by
  intro e r
  have hnot : ∀ t, s.cl i ≠ .holding t := by intro t h; rw [hi] at h; cases h
  have hne := holder_ne j i hnot
  obtain ⟨fn, ffr⟩ := enter_frame p s i m
  obtain ⟨ro1, ro2, ro3, ro4, ro5⟩ := runOut_frame e i
  rcases enter_cases p s i m with ⟨hfree, hc, hv⟩ | ⟨hbusy, hv, hph⟩
  · -- acquired
    have hr : r = (e, .acquired) := by
      simp only [r]
      cases out
      · simp [Redis.phaseRes, e, hc]
      · simp only [if_true, Redis.runOut, e, hc, Redis.phaseRes]
    rw [hr]
    have : specStep true p.ttl p.wait st ⟨op, i, 0⟩ (classRedis .acquired) f = onAcquired true p.ttl st i := by
      simp [specStep, hop, classRedis]
    rw [this]
    exact jr_acquired j i s.nextTok hfree hnot hc hv fn ffr
  · -- busy
    have hnh : ∀ t, e.cl i ≠ .holding t := by
      intro t ht
      cases m with
      | «try» => simp only at hph; rw [hph] at ht; cases ht
      | lock => obtain ⟨na, dl, hph⟩ := hph; rw [hph] at ht; cases ht
    have hres : r.2 ≠ .acquired := by
      simp only [r]
      cases out
      · simp only [Bool.false_eq_true, if_false, Redis.phaseRes]
        cases m with
        | «try» => simp only at hph; simp [e, hph]
        | lock => obtain ⟨na, dl, hph⟩ := hph; simp [e, hph]
      · simp only [if_true]
        intro ha
        obtain ⟨_, t, ht⟩ := ro4 ha
        exact hnh t ht
    have hclass : classRedis r.2 ≠ .acquired := by
      intro hc; apply hres
      cases hr2 : r.2 <;> simp [hr2, classRedis] at hc ⊢
    apply jr_nonacq j ⟨op, i, 0⟩ _ f hop hclass
    · simp only [r]; cases out
      · exact fn
      · simp only [if_true]; rw [ro1]; exact fn
    · simp only [r]; cases out
      · exact hv
      · simp only [if_true]; rw [ro2]; exact hv
    · intro h hh
      have := hne h hh
      simp only [r]; cases out
      · exact ffr _ this
      · simp only [if_true]; rw [ro3 _ this]; exact ffr _ this

end Eru.Lock.Spec

namespace Eru.Lock.Spec
open Eru.Lock

theorem jr_step {p : Redis.Params} {st : SpecSt} {s : Redis.State} (j : JR p st s) (hr : Redis.Reach p s)
    (c : Redis.Cmd) (f : Flag) :
    JR p (specStep true p.ttl p.wait st (ofRedis c) (classRedis (Redis.exec p s c).2) f) (Redis.exec p s c).1 := by
  have same : ∀ (cmd : SCmd), isAcq cmd.op = true →
      JR p (specStep true p.ttl p.wait st cmd (classRedis .misuse) f) s := by
    intro cmd hop
    exact jr_nonacq j cmd _ f hop (by simp [classRedis]) rfl rfl (fun _ _ => rfl)
  cases c with
  | lock i =>
    simp only [Redis.exec, ofRedis]
    split
    · rename_i hi
      have := jr_enter j i .lock .lock rfl hi f true
      simpa using this
    · exact same ⟨.lock, i, 0⟩ rfl
  | tryLock i =>
    simp only [Redis.exec, ofRedis]
    split
    · rename_i hi
      have := jr_enter j i .try .tryLock rfl hi f false
      simpa using this
    · exact same ⟨.tryLock, i, 0⟩ rfl
  | lockAsync i =>
    simp only [Redis.exec, ofRedis]
    split
    · rename_i hi
      have := jr_enter j i .lock .lockAsync rfl hi f false
      simpa using this
    · exact same ⟨.lockAsync, i, 0⟩ rfl
  | join i =>
    simp only [Redis.exec, ofRedis]
    split
    · rename_i m tok na dl hi
      have hnot : ∀ t, s.cl i ≠ .holding t := by intro t h; rw [hi] at h; cases h
      have hne := holder_ne j i hnot
      split
      · -- a retry
        let s1 : Redis.State := { s with wall := max s.wall na }
        have hal : Redis.alive s1 = Redis.alive s := rfl
        obtain ⟨ro1, ro2, ro3, ro4, ro5⟩ := runOut_frame (Redis.attempt p s1 i m tok dl) i
        cases ha : Redis.alive s with
        | none =>
          have hc : (Redis.attempt p s1 i m tok dl).cl i = .holding tok := by
            simp [Redis.attempt, hal, ha, Redis.setCl]
          have hro : Redis.runOut (Redis.attempt p s1 i m tok dl) i = (Redis.attempt p s1 i m tok dl, .acquired) := by
            simp only [Redis.runOut, hc, Redis.phaseRes]
          show JR p (specStep true p.ttl p.wait st ⟨.join, i, 0⟩ (classRedis (Redis.runOut (Redis.attempt p s1 i m tok dl) i).2) f)
            (Redis.runOut (Redis.attempt p s1 i m tok dl) i).1
          rw [hro]
          have : specStep true p.ttl p.wait st ⟨.join, i, 0⟩ (classRedis .acquired) f = onAcquired true p.ttl st i := by
            simp [specStep, isAcq, classRedis]
          rw [this]
          apply jr_acquired j i tok ha hnot hc
          · simp [Redis.attempt, hal, ha, Redis.setCl, s1]
          · simp [Redis.attempt, hal, ha, Redis.setCl, s1]
          · intro k hk; simp [Redis.attempt, hal, ha, Redis.setCl, hk, s1]
        | some v =>
          have hnh : ∀ t, (Redis.attempt p s1 i m tok dl).cl i ≠ .holding t := by
            intro t; cases m <;> simp [Redis.attempt, hal, ha, Redis.setCl]
          have hres : (Redis.runOut (Redis.attempt p s1 i m tok dl) i).2 ≠ .acquired := by
            intro hacq; obtain ⟨_, t, ht⟩ := ro4 hacq; exact hnh t ht
          show JR p (specStep true p.ttl p.wait st ⟨.join, i, 0⟩ (classRedis (Redis.runOut (Redis.attempt p s1 i m tok dl) i).2) f)
            (Redis.runOut (Redis.attempt p s1 i m tok dl) i).1
          apply jr_nonacq j ⟨.join, i, 0⟩ _ f rfl
          · intro hc; apply hres
            cases hr2 : (Redis.runOut (Redis.attempt p s1 i m tok dl) i).2 <;> simp [hr2, classRedis] at hc ⊢
          · rw [ro1]; cases m <;> simp [Redis.attempt, hal, ha, Redis.setCl, s1]
          · rw [ro2]; cases m <;> simp [Redis.attempt, hal, ha, Redis.setCl, s1]
          · intro h hh
            rw [ro3 _ (hne h hh)]
            cases m <;> simp [Redis.attempt, hal, ha, Redis.setCl, hne h hh, s1]
      · -- past its deadline
        show JR p (specStep true p.ttl p.wait st ⟨.join, i, 0⟩ (classRedis .notObtained) f)
          (Redis.setCl { s with wall := max s.wall dl } i .failed)
        exact jr_nonacq (s' := Redis.setCl { s with wall := max s.wall dl } i .failed) j ⟨.join, i, 0⟩
          (classRedis .notObtained) f rfl (by simp [classRedis]) rfl rfl
          (by intro h hh; simp [Redis.setCl, hne h hh])
    · exact same ⟨.join, i, 0⟩ rfl
  | unlock i =>
    have hspec : ∀ r, (specStep true p.ttl p.wait st ⟨.unlock, i, 0⟩ r f) =
        { st with holders := st.holders.filter (·.1 != i) } := by
      intro r; cases r <;> simp [specStep, isAcq]
    simp only [Redis.exec, ofRedis]
    split
    · rename_i tok hi
      simp only [hspec]
      have inv := Redis.inv_reach hr
      refine ⟨j.now.trans (by unfold Redis.release; cases Redis.alive s with
          | none => rfl
          | some v => obtain ⟨a, b⟩ := v; simp only []; split <;> rfl), ?_, j.clean⟩
      intro h hh
      obtain ⟨hh1, hh2⟩ := List.mem_filter.mp hh
      have hne : h.1 ≠ i := by simpa using hh2
      obtain ⟨t, ht, hval⟩ := j.hold h hh1
      have htne : t ≠ tok := by
        intro e; subst e
        exact hne (inv.uniq h.1 i t (by rw [ht]; rfl) (by rw [hi]; rfl))
      unfold Redis.release
      cases ha : Redis.alive s with
      | none =>
        refine ⟨t, by simp [Redis.setCl, hne, ht], ?_⟩
        intro hlt; exact hval hlt
      | some v =>
        obtain ⟨a, b⟩ := v
        simp only []
        obtain ⟨hv, hlive⟩ := Redis.alive_some ha
        split
        · rename_i e
          refine ⟨t, by simp [Redis.setCl, hne, ht], ?_⟩
          intro hlt
          have := hval hlt
          rw [hv] at this; injection this with this; injection this with h1 _
          exact absurd (h1.symm.trans e) htne
        · refine ⟨t, by simp [Redis.setCl, hne, ht], ?_⟩
          intro hlt; exact hval hlt
    · simp only [hspec]
      refine ⟨j.now, ?_, j.clean⟩
      intro h hh
      exact j.hold h (List.mem_filter.mp hh).1
  | ff dt =>
    have hspec : ∀ r, (specStep true p.ttl p.wait st ⟨.ff, 0, dt⟩ r f) = { st with now := st.now + dt } := by
      intro r; cases r <;> simp [specStep, isAcq]
    simp only [Redis.exec, ofRedis, hspec]
    refine ⟨by simp [j.now], ?_, j.clean⟩
    intro h hh
    obtain ⟨t, ht, hval⟩ := j.hold h hh
    exact ⟨t, ht, fun hlt => hval (by simp only at hlt; omega)⟩
  | observe i =>
    have hspec : ∀ r, (specStep true p.ttl p.wait st ⟨.observe, i, 0⟩ r f) =
        { st with viol := st.viol ++ observeViol true p.ttl st i r f } := by
      intro r; cases r <;> simp [specStep, isAcq]
    simp only [Redis.exec, ofRedis, hspec]
    refine ⟨j.now, j.hold, ?_⟩
    simp only [List.mem_append, not_or]
    exact ⟨j.clean, observeViol_clean _ _ _ _ _⟩
  | cancelCtx i =>
    have hspec : ∀ r, (specStep true p.ttl p.wait st ⟨.unknown, i, 0⟩ r f) = st := by
      intro r; cases r <;> simp [specStep, isAcq]
    simp only [Redis.exec, ofRedis, hspec]
    exact j

/-- the spec run over the Redis model's own replay -/
-- (a cancelled acquiring context changes neither the model state nor the spec's book)
def specReplayRedis (p : Redis.Params) : SpecSt → Redis.State → List Redis.Cmd → List Flag → SpecSt
  | st, _, [], _ => st
  | st, s, c :: cs, fs =>
    let r := Redis.exec p s c
    specReplayRedis p (specStep true p.ttl p.wait st (ofRedis c) (classRedis r.2) (fs.headD .none)) r.1 cs fs.tail

theorem jr_replay {p : Redis.Params} (hp : 0 < p.wait) : ∀ (cs : List Redis.Cmd) (st : SpecSt) (s : Redis.State) (fs : List Flag),
    JR p st s → Redis.Reach p s → tagTwoHolders ∉ (specReplayRedis p st s cs fs).viol := by
  intro cs
  induction cs with
  | nil => intro st s fs j _; exact j.clean
  | cons c cs ih =>
    intro st s fs j hr
    simp only [specReplayRedis]
    exact ih _ _ _ (jr_step j hr c _) (Redis.exec_reach hp hr c)

end Eru.Lock.Spec
