import Eru.Lock.Spec
import Eru.Lock.ProofsRedis
import Eru.Lock.ProofsEtcd
/- The specification the oracle evaluates on the implementation's results holds of the models' own
   replay (mutual-exclusion clause).  Core Lean only. -/
namespace Eru.Lock.Spec
open Eru.Lock

/-! ### Redis -/

/-- the spec's book agrees with the model state -/
structure JR (p : Redis.Params) (st : SpecSt) (s : Redis.State) : Prop where
  now : st.now = s.now
  hold : ∀ h ∈ st.holders, ∃ tok, s.cl h.1 = .holding tok ∧ (s.now < h.2 + p.ttl → s.val = some (tok, h.2 + p.ttl))
  owner : ∀ tok e, Redis.alive s = some (tok, e) → ∃ h ∈ st.holders, s.cl h.1 = .holding tok ∧ e = h.2 + p.ttl
  pend : ∀ c ∈ st.queued, c ∉ st.stale → ∃ tok, s.cl c = .trying .lock tok (s.wall + p.interval) (s.wall + p.wait)
  clean : ∀ t ∈ st.viol, t = tagD15

theorem alive_begin (p : Redis.Params) (s : Redis.State) (i : Nat) (m : Redis.Mode) :
    Redis.alive (Redis.begin p s i m) = Redis.alive s := rfl

/-- effect of `begin` + first attempt on an idle client -/
theorem enter_cases (p : Redis.Params) (s : Redis.State) (i : Nat) (m : Redis.Mode) :
    (Redis.alive s = none ∧ (Redis.enter p s i m).cl i = .holding s.nextTok ∧
      (Redis.enter p s i m).val = some (s.nextTok, s.now + p.ttl)) ∨
    ((Redis.alive s).isSome ∧ (Redis.enter p s i m).val = s.val ∧
      (match m with
       | .try => (Redis.enter p s i m).cl i = .failed
       | .lock => (Redis.enter p s i m).cl i = .trying .lock s.nextTok (s.wall + p.interval) (s.wall + p.wait))) := by
  unfold Redis.enter Redis.attempt
  rw [alive_begin]
  cases h : Redis.alive s with
  | none => left; simp [Redis.setCl, Redis.begin]
  | some v =>
    right
    cases m <;> simp [Redis.setCl, Redis.begin]

theorem enter_frame (p : Redis.Params) (s : Redis.State) (i : Nat) (m : Redis.Mode) :
    (Redis.enter p s i m).now = s.now ∧ (Redis.enter p s i m).wall = s.wall ∧ ∀ j, j ≠ i → (Redis.enter p s i m).cl j = s.cl j := by
  unfold Redis.enter Redis.attempt
  rw [alive_begin]
  cases Redis.alive s with
  | none => exact ⟨rfl, rfl, fun j hj => by simp [Redis.setCl, Redis.begin, hj]⟩
  | some v => cases m <;> exact ⟨rfl, rfl, fun j hj => by simp [Redis.setCl, Redis.begin, hj]⟩

theorem runOut_frame (s : Redis.State) (i : Nat) :
    (Redis.runOut s i).1.now = s.now ∧ (Redis.runOut s i).1.val = s.val ∧
    (∀ j, j ≠ i → (Redis.runOut s i).1.cl j = s.cl j) ∧
    ((Redis.runOut s i).2 = .acquired → (Redis.runOut s i).1 = s ∧ ∃ tok, s.cl i = .holding tok) ∧
    ((Redis.runOut s i).2 ≠ .acquired → ∀ tok, (Redis.runOut s i).1.cl i ≠ .holding tok) := by
  unfold Redis.runOut
  cases h : s.cl i with
  | trying m tok na dl =>
    refine ⟨rfl, rfl, fun j hj => (by simp [Redis.setCl, hj]), fun e => (by cases e), fun _ tok' => (by simp [Redis.setCl])⟩
  | holding tok =>
    refine ⟨rfl, rfl, fun _ _ => rfl, fun _ => ⟨rfl, tok, rfl⟩, fun e => (by simp [Redis.phaseRes, h] at e)⟩
  | idle =>
    refine ⟨rfl, rfl, fun _ _ => rfl, fun e => (by simp [Redis.phaseRes, h] at e), fun _ tok' => (by simp [h])⟩
  | failed =>
    refine ⟨rfl, rfl, fun _ _ => rfl, fun e => (by simp [Redis.phaseRes, h] at e), fun _ tok' => (by simp [h])⟩
  | done b =>
    refine ⟨rfl, rfl, fun _ _ => rfl, fun e => (by simp [Redis.phaseRes, h] at e), fun _ tok' => (by simp [h])⟩

theorem release_cases (s : Redis.State) (i tok : Nat) :
    (∃ e, Redis.alive s = some (tok, e) ∧ Redis.release s i tok = { Redis.setCl s i (.done true) with val := none }) ∨
    ((∀ e, Redis.alive s ≠ some (tok, e)) ∧ Redis.release s i tok = Redis.setCl s i (.done false)) := by
  unfold Redis.release
  cases ha : Redis.alive s with
  | none => right; exact ⟨fun e h => (by cases h), rfl⟩
  | some v =>
    obtain ⟨t, e⟩ := v
    by_cases ht : t = tok
    · subst ht; left; exact ⟨e, rfl, by simp⟩
    · right; refine ⟨fun e' h => ?_, by simp [ht]⟩
      injection h with h; injection h with h1 _; exact ht h1

/-- holders are holding, so a client in another phase is not among them -/
theorem holder_ne {p : Redis.Params} {st : SpecSt} {s : Redis.State} (j : JR p st s) (i : Nat)
    (hi : ∀ t, s.cl i ≠ .holding t) : ∀ h ∈ st.holders, h.1 ≠ i := by
  intro h hh e
  obtain ⟨t, ht, _⟩ := j.hold h hh
  rw [e] at ht; exact hi t ht

/-- a live key belongs to a holder of the book that is within its lease: somebody else is inside -/
theorem busy_liveOthers {p : Redis.Params} {st : SpecSt} {s : Redis.State} (j : JR p st s) (c : Nat)
    (hc : ∀ t, s.cl c ≠ .holding t) (hb : (Redis.alive s).isSome) :
    (liveOthers true p.ttl st c).isEmpty = false := by
  cases ha : Redis.alive s with
  | none => rw [ha] at hb; cases hb
  | some v =>
    obtain ⟨tok, e⟩ := v
    obtain ⟨h, hh, hcl, he⟩ := j.owner tok e ha
    have hne : h.1 ≠ c := by intro e'; rw [e'] at hcl; exact hc tok hcl
    have hlt : s.now < e := (Redis.alive_some ha).2
    have hm : h ∈ liveOthers true p.ttl st c := by
      simp only [liveOthers, List.mem_filter, withinLease, if_true, Bool.and_eq_true, bne_iff_ne, ne_eq, decide_eq_true_eq]
      exact ⟨hh, hne, by rw [j.now, ← he]; exact hlt⟩
    cases hl : liveOthers true p.ttl st c with
    | nil => rw [hl] at hm; cases hm
    | cons _ _ => rfl

/-- a free key: nobody of the book is inside within its lease -/
theorem free_noLiveOthers {p : Redis.Params} {st : SpecSt} {s : Redis.State} (j : JR p st s) (c : Nat)
    (hfree : Redis.alive s = none) : liveOthers true p.ttl st c = [] := by
  apply List.filter_eq_nil_iff.mpr
  intro h hh
  simp only [withinLease, if_true, Bool.and_eq_true, bne_iff_ne, ne_eq, decide_eq_true_eq, not_and]
  intro _ hlt
  obtain ⟨t, _, hval⟩ := j.hold h hh
  rw [j.now] at hlt
  have : Redis.alive s = some (t, h.2 + p.ttl) := Redis.alive_none_of (hval hlt) hlt
  rw [hfree] at this; cases this

/-- K1: client `c` (not holding before) acquires the free key -/
theorem jr_k1 {p : Redis.Params} {st st' : SpecSt} {s s' : Redis.State} (j : JR p st s) (c tok : Nat)
    (hfree : Redis.alive s = none) (hnot : ∀ t, s.cl c ≠ .holding t)
    (hc : s'.cl c = .holding tok) (hv : s'.val = some (tok, s.now + p.ttl)) (hn : s'.now = s.now)
    (hfr : ∀ k, k ≠ c → s'.cl k = s.cl k)
    (h1 : st'.now = st.now) (h2 : st'.holders = (c, st.now) :: st.holders)
    (h3 : ∀ t ∈ st'.viol, t = tagD15)
    (h4 : ∀ q ∈ st'.queued, q ∉ st'.stale → ∃ tk, s'.cl q = .trying .lock tk (s'.wall + p.interval) (s'.wall + p.wait)) :
    JR p st' s' := by
  have dead : ∀ h ∈ st.holders, ¬ s.now < h.2 + p.ttl := by
    intro h hh hlt
    obtain ⟨t, _, hval⟩ := j.hold h hh
    have : Redis.alive s = some (t, h.2 + p.ttl) := Redis.alive_none_of (hval hlt) hlt
    rw [hfree] at this; cases this
  refine ⟨by rw [h1, hn]; exact j.now, ?_, ?_, h4, h3⟩
  · intro h hh
    rw [h2] at hh
    rcases List.mem_cons.mp hh with e | hh'
    · subst e; exact ⟨tok, hc, fun _ => by rw [hv, j.now]⟩
    · obtain ⟨t, ht, _⟩ := j.hold h hh'
      have hne : h.1 ≠ c := by intro e; rw [e] at ht; exact hnot t ht
      exact ⟨t, by rw [hfr _ hne]; exact ht, fun hlt => absurd (by rw [hn] at hlt; exact hlt) (dead h hh')⟩
  · intro tk e ha
    obtain ⟨hval, _⟩ := Redis.alive_some ha
    rw [hv] at hval; injection hval with hval; injection hval with e1 e2
    refine ⟨(c, st.now), by rw [h2]; exact List.mem_cons_self, by rw [← e1]; exact hc, by rw [← e2, j.now]⟩

/-- K2: client `c` moves between non-holding phases; key, server time and the other clients untouched -/
theorem jr_k2 {p : Redis.Params} {st st' : SpecSt} {s s' : Redis.State} (j : JR p st s) (c : Nat)
    (hnot : ∀ t, s.cl c ≠ .holding t) (hn : s'.now = s.now) (hv : s'.val = s.val)
    (hfr : ∀ k, k ≠ c → s'.cl k = s.cl k)
    (h1 : st'.now = st.now) (h2 : st'.holders = st.holders)
    (h3 : ∀ t ∈ st'.viol, t = tagD15)
    (h4 : ∀ q ∈ st'.queued, q ∉ st'.stale → ∃ tk, s'.cl q = .trying .lock tk (s'.wall + p.interval) (s'.wall + p.wait)) :
    JR p st' s' := by
  have hne := holder_ne j c hnot
  have hal : Redis.alive s' = Redis.alive s := by unfold Redis.alive; rw [hv, hn]
  refine ⟨by rw [h1, hn]; exact j.now, ?_, ?_, h4, h3⟩
  · intro h hh
    rw [h2] at hh
    obtain ⟨t, ht, hval⟩ := j.hold h hh
    exact ⟨t, by rw [hfr _ (hne h hh)]; exact ht, by rw [hn, hv]; exact hval⟩
  · intro tk e ha
    rw [hal] at ha
    obtain ⟨h, hh, hcl, he⟩ := j.owner tk e ha
    exact ⟨h, by rw [h2]; exact hh, by rw [hfr _ (hne h hh)]; exact hcl, he⟩

theorem refusedViol_none (redis : Bool) (ttl wait interval : Nat) (st : SpecSt) (c : SCmd)
    (h : wronglyRefused redis ttl wait interval st c = false) : refusedViol redis ttl wait interval st c .none = [] := by
  unfold refusedViol
  rw [h]
  cases c.op <;> simp

theorem wronglyRefused_of_live (redis : Bool) (ttl wait interval : Nat) (st : SpecSt) (c : SCmd)
    (h : (liveOthers redis ttl st c.c).isEmpty = false) : wronglyRefused redis ttl wait interval st c = false := by
  unfold wronglyRefused; simp [h]

theorem op_of (op : Op) (hop : isAcq op = true) (hnj : op ≠ .join) :
    op = .lock ∨ op = .tryLock ∨ op = .lockAsync := by
  cases op <;> simp_all [isAcq]

/-- without a stopwatch and with a lock that never cancels contexts, the only complaint an `observe`
    can raise on Redis is the finding D15 -/
theorem observeViol_redis (ttl : Nat) (st : SpecSt) (c : Nat) (res : Out) (hres : res = .ctxLive ∨ res = .other) :
    ∀ t ∈ observeViol true ttl st c res .none, t = tagD15 := by
  intro t ht
  unfold observeViol at ht
  split at ht
  · rcases hres with e | e <;> subst e
    · split at ht
      · simpa using ht
      · split at ht
        · rename_i h; simp at h
        · split at ht
          · rename_i h; simp at h
          · simp at ht
    · split at ht
      · rename_i h; simp at h
      · split at ht
        · rename_i h; simp at h
        · split at ht
          · rename_i h; simp at h
          · simp at ht
  · simp at ht

/-- spec steps for the result classes of acquiring calls -/
theorem specStep_acq (redis : Bool) (ttl wait iv : Nat) (st : SpecSt) (op : Op) (c : Nat) (hop : isAcq op = true) :
    specStep redis ttl wait iv st ⟨op, c, 0⟩ .acquired .none =
      (if op == .join then { onAcquired redis ttl st c with stale := (onAcquired redis ttl st c).queued ++ (onAcquired redis ttl st c).stale }
       else onAcquired redis ttl st c) := by
  simp [specStep, hop]

theorem specStep_other (redis : Bool) (ttl wait iv : Nat) (st : SpecSt) (op : Op) (c : Nat) (hop : isAcq op = true) :
    specStep redis ttl wait iv st ⟨op, c, 0⟩ .other .none = st := by
  cases op <;> simp_all [specStep, isAcq]

theorem onAcquired_fresh (redis : Bool) (ttl : Nat) (st : SpecSt) (c : Nat)
    (hnew : st.holders.any (·.1 == c) = false) (hlive : liveOthers redis ttl st c = []) :
    (onAcquired redis ttl st c).holders = (c, st.now) :: st.holders ∧ (onAcquired redis ttl st c).viol = st.viol ∧
    (onAcquired redis ttl st c).now = st.now ∧ (onAcquired redis ttl st c).queued = st.queued.filter (· != c) ∧
    (onAcquired redis ttl st c).stale = st.stale := by
  simp [onAcquired, hnew, hlive]

theorem not_in_holders {p : Redis.Params} {st : SpecSt} {s : Redis.State} (j : JR p st s) (c : Nat)
    (hnot : ∀ t, s.cl c ≠ .holding t) : st.holders.any (·.1 == c) = false := by
  apply Bool.eq_false_iff.mpr
  intro ha
  obtain ⟨h, hh, e⟩ := List.any_eq_true.mp ha
  exact holder_ne j c hnot h hh (by simpa using e)

/-- pending waiters other than `c`, when neither the wall clock nor their phases moved -/
theorem pend_frame {p : Redis.Params} {st : SpecSt} {s s' : Redis.State} (j : JR p st s) (c : Nat)
    (hw : s'.wall = s.wall) (hfr : ∀ k, k ≠ c → s'.cl k = s.cl k) :
    ∀ q ∈ st.queued.filter (· != c), q ∉ st.stale →
      ∃ tk, s'.cl q = .trying .lock tk (s'.wall + p.interval) (s'.wall + p.wait) := by
  intro q hq hs
  obtain ⟨hq1, hq2⟩ := List.mem_filter.mp hq
  have hne : q ≠ c := by simpa using hq2
  obtain ⟨tk, ht⟩ := j.pend q hq1 hs
  exact ⟨tk, by rw [hfr q hne, hw]; exact ht⟩

/-- the Redis model's own results never violate the spec (timing flags: none; the only tag that can
    appear is the C19 finding D15, on `observe`) -/
theorem jr_step {p : Redis.Params} {st : SpecSt} {s : Redis.State} (j : JR p st s) (hr : Redis.Reach p s)
    (c : Redis.Cmd) :
    JR p (specStep true p.ttl p.wait p.interval st (ofRedis c) (classRedis (Redis.exec p s c).2) .none) (Redis.exec p s c).1 := by
  -- entering Obtain from idle
  have enterCase : ∀ (i : Nat) (m : Redis.Mode) (op : Op) (out : Bool), isAcq op = true → op ≠ .join →
      (op = .lockAsync → m = .lock ∧ out = false) → (op = .lock → m = .lock ∧ out = true) →
      (op = .tryLock → m = .try ∧ out = false) →
      s.cl i = .idle →
      let e := Redis.enter p s i m
      let r := if out then Redis.runOut e i else (e, Redis.phaseRes e i)
      JR p (specStep true p.ttl p.wait p.interval st ⟨op, i, 0⟩ (classRedis r.2) .none) r.1 := by
    intro i m op out hop hnj hla hlk htl hi e r
    have hnot : ∀ t, s.cl i ≠ .holding t := by intro t h; rw [hi] at h; cases h
    obtain ⟨fn, fw, ffr⟩ := enter_frame p s i m
    obtain ⟨ro1, ro2, ro3, ro4, ro5⟩ := runOut_frame e i
    rcases enter_cases p s i m with ⟨hfree, hc, hv⟩ | ⟨hbusy, hv, hph⟩
    · have hr' : r = (e, .acquired) := by
        simp only [r]
        cases out
        · simp [Redis.phaseRes, e, hc]
        · simp only [if_true, Redis.runOut, e, hc, Redis.phaseRes]
      rw [hr']
      have hj : (op == Op.join) = false := by
        rcases op_of op hop hnj with h | h | h <;> subst h <;> rfl
      show JR p (specStep true p.ttl p.wait p.interval st ⟨op, i, 0⟩ .acquired .none) e
      rw [specStep_acq _ _ _ _ _ _ _ hop, hj]
      obtain ⟨a1, a2, a3, a4, a5⟩ := onAcquired_fresh true p.ttl st i (not_in_holders j i hnot) (free_noLiveOthers j i hfree)
      simp only [Bool.false_eq_true, if_false]
      refine jr_k1 j i s.nextTok hfree hnot hc hv fn ffr a3 a1 (by rw [a2]; exact j.clean) ?_
      rw [a4, a5]
      exact pend_frame j i fw ffr
    · -- busy
      have hlive := busy_liveOthers j i hnot hbusy
      cases m with
      | «try» =>
        simp only at hph
        have hop' : op = .tryLock := by
          rcases op_of op hop hnj with h | h | h
          · exact absurd (hlk h).1 (by decide)
          · exact h
          · exact absurd (hla h).1 (by decide)
        have hout : out = false := (htl hop').2
        subst hout
        have hr' : r = (e, .notObtained) := by simp [r, Redis.phaseRes, e, hph]
        rw [hr']
        show JR p (specStep true p.ttl p.wait p.interval st ⟨op, i, 0⟩ .refused .none) e
        subst hop'
        simp only [specStep, isAcq, refusedViol_none _ _ _ _ _ _ (wronglyRefused_of_live true p.ttl p.wait p.interval st ⟨.tryLock, i, 0⟩ hlive),
          List.append_nil, consumesTime, Bool.false_eq_true, if_false]
        refine jr_k2 j i hnot fn hv ffr rfl rfl j.clean ?_
        exact pend_frame j i fw ffr
      | lock =>
        simp only at hph
        cases out
        · -- background Lock: blocked
          have hr' : r = (e, .blocked) := by simp [r, Redis.phaseRes, e, hph]
          rw [hr']
          show JR p (specStep true p.ttl p.wait p.interval st ⟨op, i, 0⟩ .blocked .none) e
          have hop' : op = .lockAsync := by
            rcases op_of op hop hnj with h | h | h
            · exact absurd (hlk h).2 (by decide)
            · exact absurd (htl h).1 (by decide)
            · exact h
          subst hop'
          simp only [specStep, isAcq, hlive, Bool.false_and, Bool.false_eq_true, if_false, List.append_nil]
          refine jr_k2 j i hnot fn hv ffr rfl rfl j.clean ?_
          intro q hq hs
          rcases List.mem_cons.mp hq with e1 | hq'
          · subst e1; exact ⟨s.nextTok, by rw [fw]; exact hph⟩
          · by_cases hqi : q = i
            · subst hqi; exact ⟨s.nextTok, by rw [fw]; exact hph⟩
            · have hs' : q ∉ st.stale := by
                intro hm; apply hs
                exact List.mem_filter.mpr ⟨hm, by simpa using hqi⟩
              obtain ⟨tk, ht⟩ := j.pend q hq' hs'
              exact ⟨tk, by rw [ffr q hqi, fw]; exact ht⟩
        · -- blocking Lock: runs into its deadline
          have hro : Redis.runOut e i = (Redis.setCl { e with wall := max e.wall (s.wall + p.wait) } i .failed, .notObtained) := by
            simp only [Redis.runOut, e, hph]
          have hr' : r = (Redis.setCl { e with wall := max e.wall (s.wall + p.wait) } i .failed, .notObtained) := by
            simp only [r, if_true]; exact hro
          rw [hr']
          show JR p (specStep true p.ttl p.wait p.interval st ⟨op, i, 0⟩ .refused .none) _
          have hop' : op = .lock := by
            rcases op_of op hop hnj with h | h | h
            · exact h
            · exact absurd (htl h).2 (by decide)
            · exact absurd (hla h).2 (by decide)
          subst hop'
          simp only [specStep, isAcq, refusedViol_none _ _ _ _ _ _ (wronglyRefused_of_live true p.ttl p.wait p.interval st ⟨.lock, i, 0⟩ hlive),
            List.append_nil, consumesTime, if_true]
          refine jr_k2 j i hnot (by show e.now = s.now; exact fn) (by show e.val = s.val; exact hv)
            (by intro k hk; show (if k = i then _ else e.cl k) = s.cl k; rw [if_neg hk]; exact ffr k hk) rfl rfl j.clean ?_
          intro q hq hs
          exact absurd (List.mem_append.mpr (Or.inl hq)) hs
  have same : ∀ (op : Op) (i : Nat), isAcq op = true →
      JR p (specStep true p.ttl p.wait p.interval st ⟨op, i, 0⟩ (classRedis .misuse) .none) s := by
    intro op i hop
    show JR p (specStep true p.ttl p.wait p.interval st ⟨op, i, 0⟩ .other .none) s
    rw [specStep_other _ _ _ _ _ _ _ hop]; exact j
  cases c with
  | lock i =>
    simp only [Redis.exec, ofRedis]
    split
    · rename_i hi
      have := enterCase i .lock .lock true rfl (by intro h; cases h) (by intro h; cases h) (fun _ => ⟨rfl, rfl⟩) (by intro h; cases h) hi
      simpa using this
    · exact same .lock i rfl
  | tryLock i =>
    simp only [Redis.exec, ofRedis]
    split
    · rename_i hi
      have := enterCase i .try .tryLock false rfl (by intro h; cases h) (by intro h; cases h) (by intro h; cases h) (fun _ => ⟨rfl, rfl⟩) hi
      simpa using this
    · exact same .tryLock i rfl
  | lockAsync i =>
    simp only [Redis.exec, ofRedis]
    split
    · rename_i hi
      have := enterCase i .lock .lockAsync false rfl (by intro h; cases h) (fun _ => ⟨rfl, rfl⟩) (by intro h; cases h) (by intro h; cases h) hi
      simpa using this
    · exact same .lockAsync i rfl
  | join i =>
    simp only [Redis.exec, ofRedis]
    split
    · rename_i m tok na dl hi
      have hnot : ∀ t, s.cl i ≠ .holding t := by intro t h; rw [hi] at h; cases h
      -- after a join every pending waiter is stale: nothing to show for them
      have allStale : ∀ (q : Nat) (l : List Nat), q ∈ l → ¬ q ∉ l ++ st.stale :=
        fun q l hq hs => hs (List.mem_append.mpr (Or.inl hq))
      split
      · rename_i hlt
        let s1 : Redis.State := { s with wall := max s.wall na }
        have hal : Redis.alive s1 = Redis.alive s := rfl
        obtain ⟨ro1, ro2, ro3, ro4, ro5⟩ := runOut_frame (Redis.attempt p s1 i m tok dl) i
        cases ha : Redis.alive s with
        | none =>
          have hc : (Redis.attempt p s1 i m tok dl).cl i = .holding tok := by
            simp [Redis.attempt, hal, ha, Redis.setCl]
          have hro : Redis.runOut (Redis.attempt p s1 i m tok dl) i = (Redis.attempt p s1 i m tok dl, .acquired) := by
            simp only [Redis.runOut, hc, Redis.phaseRes]
          show JR p (specStep true p.ttl p.wait p.interval st ⟨.join, i, 0⟩ (classRedis (Redis.runOut (Redis.attempt p s1 i m tok dl) i).2) .none)
            (Redis.runOut (Redis.attempt p s1 i m tok dl) i).1
          rw [hro]
          show JR p (specStep true p.ttl p.wait p.interval st ⟨.join, i, 0⟩ .acquired .none) _
          rw [specStep_acq _ _ _ _ _ _ _ rfl]
          obtain ⟨a1, a2, a3, a4, a5⟩ := onAcquired_fresh true p.ttl st i (not_in_holders j i hnot) (free_noLiveOthers j i ha)
          simp only [beq_self_eq_true, if_true]
          refine jr_k1 j i tok ha hnot hc (by simp [Redis.attempt, hal, ha, Redis.setCl, s1])
            (by simp [Redis.attempt, hal, ha, Redis.setCl, s1]) (by intro k hk; simp [Redis.attempt, hal, ha, Redis.setCl, hk, s1])
            a3 a1 (by show ∀ t ∈ (onAcquired true p.ttl st i).viol, t = tagD15; rw [a2]; exact j.clean) ?_
          intro q hq hs
          exact absurd (List.mem_append.mpr (Or.inl hq)) hs
        | some v =>
          have hlive := busy_liveOthers j i hnot (by rw [ha]; rfl)
          have hnh : ∀ t, (Redis.attempt p s1 i m tok dl).cl i ≠ .holding t := by
            intro t; cases m <;> simp [Redis.attempt, hal, ha, Redis.setCl]
          have hres : (Redis.runOut (Redis.attempt p s1 i m tok dl) i).2 = .notObtained := by
            unfold Redis.runOut
            cases m <;> simp [Redis.attempt, hal, ha, Redis.setCl, Redis.phaseRes]
          show JR p (specStep true p.ttl p.wait p.interval st ⟨.join, i, 0⟩ (classRedis (Redis.runOut (Redis.attempt p s1 i m tok dl) i).2) .none)
            (Redis.runOut (Redis.attempt p s1 i m tok dl) i).1
          rw [hres]
          show JR p (specStep true p.ttl p.wait p.interval st ⟨.join, i, 0⟩ .refused .none) _
          simp only [specStep, isAcq, refusedViol_none _ _ _ _ _ _ (wronglyRefused_of_live true p.ttl p.wait p.interval st ⟨.join, i, 0⟩ hlive),
            List.append_nil, consumesTime, if_true]
          refine jr_k2 j i hnot (by rw [ro1]; cases m <;> simp [Redis.attempt, hal, ha, Redis.setCl, s1])
            (by rw [ro2]; cases m <;> simp [Redis.attempt, hal, ha, Redis.setCl, s1])
            (by intro k hk; rw [ro3 k hk]; cases m <;> simp [Redis.attempt, hal, ha, Redis.setCl, hk, s1]) rfl rfl j.clean ?_
          intro q hq hs
          exact absurd (List.mem_append.mpr (Or.inl hq)) hs
      · -- past its deadline without another attempt: only possible for a waiter the book does not judge
        rename_i hnlt
        show JR p (specStep true p.ttl p.wait p.interval st ⟨.join, i, 0⟩ .refused .none)
          (Redis.setCl { s with wall := max s.wall dl } i .failed)
        have hw : wronglyRefused true p.ttl p.wait p.interval st ⟨.join, i, 0⟩ = false := by
          apply Bool.eq_false_iff.mpr
          intro hwr
          simp only [wronglyRefused, Bool.and_eq_true, Bool.not_eq_true', Bool.or_eq_true, beq_iff_eq,
            List.contains_iff_mem, decide_eq_false_iff_not, Bool.true_and, reduceCtorEq, false_or] at hwr
          obtain ⟨_, _, ⟨hq, hs⟩, hnr⟩ := hwr
          obtain ⟨tk, ht⟩ := j.pend i (by simpa using hq) (by simpa using hs)
          rw [hi] at ht
          injection ht with _ _ e1 e2
          subst e1; subst e2
          apply hnlt
          show max s.wall (s.wall + p.interval) < s.wall + p.wait
          have : ¬ p.wait ≤ p.interval := hnr
          omega
        simp only [specStep, isAcq, refusedViol_none _ _ _ _ _ _ hw, List.append_nil, consumesTime, if_true]
        refine jr_k2 (s' := Redis.setCl { s with wall := max s.wall dl } i .failed) j i hnot rfl rfl
          (by intro k hk; simp [Redis.setCl, hk]) rfl rfl j.clean ?_
        intro q hq hs
        exact absurd (List.mem_append.mpr (Or.inl hq)) hs
    · exact same .join i rfl
  | unlock i =>
    have hspec : ∀ r, (specStep true p.ttl p.wait p.interval st ⟨.unlock, i, 0⟩ r .none) =
        { st with holders := st.holders.filter (·.1 != i) } := by
      intro r; cases r <;> simp [specStep, isAcq]
    simp only [Redis.exec, ofRedis]
    split
    · rename_i tok hi
      simp only [hspec]
      have inv := Redis.inv_reach hr
      rcases release_cases s i tok with ⟨e0, ha0, hrel⟩ | ⟨hno, hrel⟩
      · -- the live key was ours: deleted
        rw [hrel]
        obtain ⟨hv0, hlt0⟩ := Redis.alive_some ha0
        refine ⟨j.now, ?_, ?_, ?_, j.clean⟩
        · intro h hh
          obtain ⟨hh1, hh2⟩ := List.mem_filter.mp hh
          have hne : h.1 ≠ i := by simpa using hh2
          obtain ⟨t, ht, hvl⟩ := j.hold h hh1
          refine ⟨t, by simp [Redis.setCl, hne, ht], ?_⟩
          intro hlt
          have hv1 := hvl hlt
          rw [hv0] at hv1; injection hv1 with hv1; injection hv1 with e1 _
          subst e1
          exact absurd (inv.uniq h.1 i tok (by rw [ht]; rfl) (by rw [hi]; rfl)) hne
        · intro t e ha
          simp [Redis.alive] at ha
        · intro q hq hs
          obtain ⟨tk, ht⟩ := j.pend q hq hs
          have hne : q ≠ i := by intro e; rw [e] at ht; rw [hi] at ht; cases ht
          exact ⟨tk, by simp [Redis.setCl, hne]; exact ht⟩
      · -- expired, absent or somebody else's: untouched
        rw [hrel]
        refine ⟨j.now, ?_, ?_, ?_, j.clean⟩
        · intro h hh
          obtain ⟨hh1, hh2⟩ := List.mem_filter.mp hh
          have hne : h.1 ≠ i := by simpa using hh2
          obtain ⟨t, ht, hvl⟩ := j.hold h hh1
          exact ⟨t, by simp [Redis.setCl, hne, ht], hvl⟩
        · intro t e ha
          have ha' : Redis.alive s = some (t, e) := ha
          obtain ⟨h, hh, hcl, he⟩ := j.owner t e ha'
          have hne : h.1 ≠ i := by
            intro e'; rw [e', hi] at hcl; injection hcl with e2
            exact hno e (by rw [e2]; exact ha')
          exact ⟨h, List.mem_filter.mpr ⟨hh, by simpa using hne⟩, by simp [Redis.setCl, hne]; exact hcl, he⟩
        · intro q hq hs
          obtain ⟨tk, ht⟩ := j.pend q hq hs
          have hne : q ≠ i := by intro e; rw [e] at ht; rw [hi] at ht; cases ht
          exact ⟨tk, by simp [Redis.setCl, hne]; exact ht⟩
    · rename_i hnh
      simp only [hspec]
      refine ⟨j.now, ?_, ?_, j.pend, j.clean⟩
      · intro h hh; exact j.hold h (List.mem_filter.mp hh).1
      · intro t e ha
        obtain ⟨h, hh, hcl, he⟩ := j.owner t e ha
        have hne : h.1 ≠ i := by intro e'; rw [e'] at hcl; exact hnh t hcl
        exact ⟨h, List.mem_filter.mpr ⟨hh, by simpa using hne⟩, hcl, he⟩
  | ff dt =>
    have hspec : ∀ r, (specStep true p.ttl p.wait p.interval st ⟨.ff, 0, dt⟩ r .none) = { st with now := st.now + dt } := by
      intro r; cases r <;> simp [specStep, isAcq]
    simp only [Redis.exec, ofRedis, hspec]
    refine ⟨by simp [j.now], ?_, ?_, j.pend, j.clean⟩
    · intro h hh
      obtain ⟨t, ht, hval⟩ := j.hold h hh
      exact ⟨t, ht, fun hlt => hval (by simp only at hlt; omega)⟩
    · intro t e ha
      obtain ⟨hv, hlt⟩ := Redis.alive_some ha
      simp only at hv hlt
      exact j.owner t e (Redis.alive_none_of hv (by omega))
  | observe i =>
    have hspec : ∀ r, (specStep true p.ttl p.wait p.interval st ⟨.observe, i, 0⟩ r .none) =
        { st with viol := st.viol ++ observeViol true p.ttl st i r .none } := by
      intro r; cases r <;> simp [specStep, isAcq]
    simp only [Redis.exec, ofRedis, hspec]
    refine ⟨j.now, j.hold, j.owner, j.pend, ?_⟩
    intro t ht
    rcases List.mem_append.mp ht with h1 | h1
    · exact j.clean t h1
    · -- the Redis lock never cancels a context, so the only possible complaint is D15
      have hcc := Redis.ctx_never_cancelled hr i
      apply observeViol_redis p.ttl st i _ _ t h1
      cases s.cl i <;> simp [hcc, classRedis]
  | cancelCtx i =>
    have hspec : ∀ r, (specStep true p.ttl p.wait p.interval st ⟨.unknown, i, 0⟩ r .none) = st := by
      intro r; cases r <;> simp [specStep, isAcq]
    simp only [Redis.exec, ofRedis, hspec]
    exact j

/-- the spec run over the Redis model's own replay (no timing flags: the model has no stopwatch) -/
def specReplayRedis (p : Redis.Params) : SpecSt → Redis.State → List Redis.Cmd → SpecSt
  | st, _, [] => st
  | st, s, c :: cs =>
    let r := Redis.exec p s c
    specReplayRedis p (specStep true p.ttl p.wait p.interval st (ofRedis c) (classRedis r.2) .none) r.1 cs

theorem jr_replay {p : Redis.Params} (hp : 0 < p.wait) : ∀ (cs : List Redis.Cmd) (st : SpecSt) (s : Redis.State),
    JR p st s → Redis.Reach p s → ∀ t ∈ (specReplayRedis p st s cs).viol, t = tagD15 := by
  intro cs
  induction cs with
  | nil => intro st s j _; exact j.clean
  | cons c cs ih =>
    intro st s j hr
    simp only [specReplayRedis]
    exact ih _ _ (jr_step j hr c) (Redis.exec_reach hp hr c)

end Eru.Lock.Spec
