import Eru.Lock.Spec
import Eru.Lock.Ctx
import Eru.Lock.ProofsRedis
import Eru.Lock.ProofsEtcd
/- The specification the oracle evaluates on the implementation's results holds of the models' own
   replay (mutual-exclusion clause).  Core Lean only. -/
namespace Eru.Lock.Spec
open Eru.Lock

/-! ### Redis -/

/-- the spec's book agrees with the model state -/
structure JR (p : Redis.Params) (st : SpecSt) (s : Redis.State) : Prop where
  now : st.now = s.now
  hold : ∀ h ∈ st.holders, ∃ tok, s.cl h.1 = .holding tok ∧ (s.now < h.2 + p.ttl → s.val = some (tok, h.2 + p.ttl))
  owner : ∀ tok e, Redis.alive s = some (tok, e) → ∃ h ∈ st.holders, s.cl h.1 = .holding tok ∧ e = h.2 + p.ttl
  pend : ∀ c ∈ st.queued, c ∉ st.stale → ∃ tok, s.cl c = .trying .lock tok (s.wall + p.interval) (s.wall + p.wait)
  clean : ∀ t ∈ st.viol, t = tagD15

theorem alive_begin (p : Redis.Params) (s : Redis.State) (i : Nat) (m : Redis.Mode) :
    Redis.alive (Redis.begin p s i m) = Redis.alive s := rfl

/-- effect of `begin` + first attempt on an idle client -/
theorem enter_cases (p : Redis.Params) (s : Redis.State) (i : Nat) (m : Redis.Mode) :
    (Redis.alive s = none ∧ (Redis.enter p s i m).cl i = .holding s.nextTok ∧
      (Redis.enter p s i m).val = some (s.nextTok, s.now + p.ttl)) ∨
    ((Redis.alive s).isSome ∧ (Redis.enter p s i m).val = s.val ∧
      (match m with
       | .try => (Redis.enter p s i m).cl i = .failed
       | .lock => (Redis.enter p s i m).cl i = .trying .lock s.nextTok (s.wall + p.interval) (s.wall + p.wait))) := by
  unfold Redis.enter Redis.attempt
  rw [alive_begin]
  cases h : Redis.alive s with
  | none => left; simp [Redis.setCl, Redis.begin]
  | some v =>
    right
    cases m <;> simp [Redis.setCl, Redis.begin]

theorem enter_frame (p : Redis.Params) (s : Redis.State) (i : Nat) (m : Redis.Mode) :
    (Redis.enter p s i m).now = s.now ∧ (Redis.enter p s i m).wall = s.wall ∧ ∀ j, j ≠ i → (Redis.enter p s i m).cl j = s.cl j := by
  unfold Redis.enter Redis.attempt
  rw [alive_begin]
  cases Redis.alive s with
  | none => exact ⟨rfl, rfl, fun j hj => by simp [Redis.setCl, Redis.begin, hj]⟩
  | some v => cases m <;> exact ⟨rfl, rfl, fun j hj => by simp [Redis.setCl, Redis.begin, hj]⟩

theorem runOut_frame (s : Redis.State) (i : Nat) :
    (Redis.runOut s i).1.now = s.now ∧ (Redis.runOut s i).1.val = s.val ∧
    (∀ j, j ≠ i → (Redis.runOut s i).1.cl j = s.cl j) ∧
    ((Redis.runOut s i).2 = .acquired → (Redis.runOut s i).1 = s ∧ ∃ tok, s.cl i = .holding tok) ∧
    ((Redis.runOut s i).2 ≠ .acquired → ∀ tok, (Redis.runOut s i).1.cl i ≠ .holding tok) := by
  unfold Redis.runOut
  cases h : s.cl i with
  | trying m tok na dl =>
    refine ⟨rfl, rfl, fun j hj => (by simp [Redis.setCl, hj]), fun e => (by cases e), fun _ tok' => (by simp [Redis.setCl])⟩
  | holding tok =>
    refine ⟨rfl, rfl, fun _ _ => rfl, fun _ => ⟨rfl, tok, rfl⟩, fun e => (by simp [Redis.phaseRes, h] at e)⟩
  | idle =>
    refine ⟨rfl, rfl, fun _ _ => rfl, fun e => (by simp [Redis.phaseRes, h] at e), fun _ tok' => (by simp [h])⟩
  | failed =>
    refine ⟨rfl, rfl, fun _ _ => rfl, fun e => (by simp [Redis.phaseRes, h] at e), fun _ tok' => (by simp [h])⟩
  | done b =>
    refine ⟨rfl, rfl, fun _ _ => rfl, fun e => (by simp [Redis.phaseRes, h] at e), fun _ tok' => (by simp [h])⟩

theorem release_cases (s : Redis.State) (i tok : Nat) :
    (∃ e, Redis.alive s = some (tok, e) ∧ Redis.release s i tok = { Redis.setCl s i (.done true) with val := none }) ∨
    ((∀ e, Redis.alive s ≠ some (tok, e)) ∧ Redis.release s i tok = Redis.setCl s i (.done false)) := by
  unfold Redis.release
  cases ha : Redis.alive s with
  | none => right; exact ⟨fun e h => (by cases h), rfl⟩
  | some v =>
    obtain ⟨t, e⟩ := v
    by_cases ht : t = tok
    · subst ht; left; exact ⟨e, rfl, by simp⟩
    · right; refine ⟨fun e' h => ?_, by simp [ht]⟩
      injection h with h; injection h with h1 _; exact ht h1

/-- holders are holding, so a client in another phase is not among them -/
theorem holder_ne {p : Redis.Params} {st : SpecSt} {s : Redis.State} (j : JR p st s) (i : Nat)
    (hi : ∀ t, s.cl i ≠ .holding t) : ∀ h ∈ st.holders, h.1 ≠ i := by
  intro h hh e
  obtain ⟨t, ht, _⟩ := j.hold h hh
  rw [e] at ht; exact hi t ht

/-- a live key belongs to a holder of the book that is within its lease: somebody else is inside -/
theorem busy_liveOthers {p : Redis.Params} {st : SpecSt} {s : Redis.State} (j : JR p st s) (c : Nat)
    (hc : ∀ t, s.cl c ≠ .holding t) (hb : (Redis.alive s).isSome) :
    (liveOthers true p.ttl st c).isEmpty = false := by
  cases ha : Redis.alive s with
  | none => rw [ha] at hb; cases hb
  | some v =>
    obtain ⟨tok, e⟩ := v
    obtain ⟨h, hh, hcl, he⟩ := j.owner tok e ha
    have hne : h.1 ≠ c := by intro e'; rw [e'] at hcl; exact hc tok hcl
    have hlt : s.now < e := (Redis.alive_some ha).2
    have hm : h ∈ liveOthers true p.ttl st c := by
      simp only [liveOthers, List.mem_filter, withinLease, if_true, Bool.and_eq_true, bne_iff_ne, ne_eq, decide_eq_true_eq]
      exact ⟨hh, hne, by rw [j.now, ← he]; exact hlt⟩
    cases hl : liveOthers true p.ttl st c with
    | nil => rw [hl] at hm; cases hm
    | cons _ _ => rfl

/-- a free key: nobody of the book is inside within its lease -/
theorem free_noLiveOthers {p : Redis.Params} {st : SpecSt} {s : Redis.State} (j : JR p st s) (c : Nat)
    (hfree : Redis.alive s = none) : liveOthers true p.ttl st c = [] := by
  apply List.filter_eq_nil_iff.mpr
  intro h hh
  simp only [withinLease, if_true, Bool.and_eq_true, bne_iff_ne, ne_eq, decide_eq_true_eq, not_and]
  intro _ hlt
  obtain ⟨t, _, hval⟩ := j.hold h hh
  rw [j.now] at hlt
  have : Redis.alive s = some (t, h.2 + p.ttl) := Redis.alive_none_of (hval hlt) hlt
  rw [hfree] at this; cases this

/-- K1: client `c` (not holding before) acquires the free key -/
theorem jr_k1 {p : Redis.Params} {st st' : SpecSt} {s s' : Redis.State} (j : JR p st s) (c tok : Nat)
    (hfree : Redis.alive s = none) (hnot : ∀ t, s.cl c ≠ .holding t)
    (hc : s'.cl c = .holding tok) (hv : s'.val = some (tok, s.now + p.ttl)) (hn : s'.now = s.now)
    (hfr : ∀ k, k ≠ c → s'.cl k = s.cl k)
    (h1 : st'.now = st.now) (h2 : st'.holders = (c, st.now) :: st.holders)
    (h3 : ∀ t ∈ st'.viol, t = tagD15)
    (h4 : ∀ q ∈ st'.queued, q ∉ st'.stale → ∃ tk, s'.cl q = .trying .lock tk (s'.wall + p.interval) (s'.wall + p.wait)) :
    JR p st' s' := by
  have dead : ∀ h ∈ st.holders, ¬ s.now < h.2 + p.ttl := by
    intro h hh hlt
    obtain ⟨t, _, hval⟩ := j.hold h hh
    have : Redis.alive s = some (t, h.2 + p.ttl) := Redis.alive_none_of (hval hlt) hlt
    rw [hfree] at this; cases this
  refine ⟨by rw [h1, hn]; exact j.now, ?_, ?_, h4, h3⟩
  · intro h hh
    rw [h2] at hh
    rcases List.mem_cons.mp hh with e | hh'
    · subst e; exact ⟨tok, hc, fun _ => by rw [hv, j.now]⟩
    · obtain ⟨t, ht, _⟩ := j.hold h hh'
      have hne : h.1 ≠ c := by intro e; rw [e] at ht; exact hnot t ht
      exact ⟨t, by rw [hfr _ hne]; exact ht, fun hlt => absurd (by rw [hn] at hlt; exact hlt) (dead h hh')⟩
  · intro tk e ha
    obtain ⟨hval, _⟩ := Redis.alive_some ha
    rw [hv] at hval; injection hval with hval; injection hval with e1 e2
    refine ⟨(c, st.now), by rw [h2]; exact List.mem_cons_self, by rw [← e1]; exact hc, by rw [← e2, j.now]⟩

/-- K2: client `c` moves between non-holding phases; key, server time and the other clients untouched -/
theorem jr_k2 {p : Redis.Params} {st st' : SpecSt} {s s' : Redis.State} (j : JR p st s) (c : Nat)
    (hnot : ∀ t, s.cl c ≠ .holding t) (hn : s'.now = s.now) (hv : s'.val = s.val)
    (hfr : ∀ k, k ≠ c → s'.cl k = s.cl k)
    (h1 : st'.now = st.now) (h2 : st'.holders = st.holders)
    (h3 : ∀ t ∈ st'.viol, t = tagD15)
    (h4 : ∀ q ∈ st'.queued, q ∉ st'.stale → ∃ tk, s'.cl q = .trying .lock tk (s'.wall + p.interval) (s'.wall + p.wait)) :
    JR p st' s' := by
  have hne := holder_ne j c hnot
  have hal : Redis.alive s' = Redis.alive s := by unfold Redis.alive; rw [hv, hn]
  refine ⟨by rw [h1, hn]; exact j.now, ?_, ?_, h4, h3⟩
  · intro h hh
    rw [h2] at hh
    obtain ⟨t, ht, hval⟩ := j.hold h hh
    exact ⟨t, by rw [hfr _ (hne h hh)]; exact ht, by rw [hn, hv]; exact hval⟩
  · intro tk e ha
    rw [hal] at ha
    obtain ⟨h, hh, hcl, he⟩ := j.owner tk e ha
    exact ⟨h, by rw [h2]; exact hh, by rw [hfr _ (hne h hh)]; exact hcl, he⟩

theorem refusedViol_none (redis : Bool) (ttl wait interval : Nat) (st : SpecSt) (c : SCmd)
    (h : wronglyRefused redis ttl wait interval st c = false) : refusedViol redis ttl wait interval st c .none = [] := by
  unfold refusedViol
  rw [h]
  cases c.op <;> simp

theorem wronglyRefused_of_live (redis : Bool) (ttl wait interval : Nat) (st : SpecSt) (c : SCmd)
    (h : (liveOthers redis ttl st c.c).isEmpty = false) : wronglyRefused redis ttl wait interval st c = false := by
  unfold wronglyRefused; simp [h]

theorem op_of (op : Op) (hop : isAcq op = true) (hnj : op ≠ .join) :
    op = .lock ∨ op = .tryLock ∨ op = .lockAsync := by
  cases op <;> simp_all [isAcq]

/-- without a stopwatch and with a lock that never cancels contexts, the only complaint an `observe`
    can raise on Redis is the finding D15 -/
theorem observeViol_redis (ttl : Nat) (st : SpecSt) (c : Nat) (res : Out) (hres : res = .ctxLive ∨ res = .other) :
    ∀ t ∈ observeViol true ttl st c res .none, t = tagD15 := by
  intro t ht
  unfold observeViol at ht
  split at ht
  · rcases hres with e | e <;> subst e
    · split at ht
      · simpa using ht
      · split at ht
        · rename_i h; simp at h
        · split at ht
          · rename_i h; simp at h
          · simp at ht
    · split at ht
      · rename_i h; simp at h
      · split at ht
        · rename_i h; simp at h
        · split at ht
          · rename_i h; simp at h
          · simp at ht
  · simp at ht

/-- spec steps for the result classes of acquiring calls -/
theorem specStep_acq (redis : Bool) (ttl wait iv : Nat) (st : SpecSt) (op : Op) (c : Nat) (hop : isAcq op = true) :
    specStep redis ttl wait iv st ⟨op, c, 0⟩ .acquired .none =
      (if op == .join then { onAcquired redis ttl st c with stale := (onAcquired redis ttl st c).queued ++ (onAcquired redis ttl st c).stale }
       else onAcquired redis ttl st c) := by
  simp [specStep, hop]

theorem specStep_other (redis : Bool) (ttl wait iv : Nat) (st : SpecSt) (op : Op) (c : Nat) (hop : isAcq op = true) :
    specStep redis ttl wait iv st ⟨op, c, 0⟩ .other .none = st := by
  cases op <;> simp_all [specStep, isAcq]

theorem onAcquired_fresh (redis : Bool) (ttl : Nat) (st : SpecSt) (c : Nat)
    (hnew : st.holders.any (·.1 == c) = false) (hlive : liveOthers redis ttl st c = []) :
    (onAcquired redis ttl st c).holders = (c, st.now) :: st.holders ∧ (onAcquired redis ttl st c).viol = st.viol ∧
    (onAcquired redis ttl st c).now = st.now ∧ (onAcquired redis ttl st c).queued = st.queued.filter (· != c) ∧
    (onAcquired redis ttl st c).stale = st.stale := by
  simp [onAcquired, hnew, hlive]

theorem not_in_holders {p : Redis.Params} {st : SpecSt} {s : Redis.State} (j : JR p st s) (c : Nat)
    (hnot : ∀ t, s.cl c ≠ .holding t) : st.holders.any (·.1 == c) = false := by
  apply Bool.eq_false_iff.mpr
  intro ha
  obtain ⟨h, hh, e⟩ := List.any_eq_true.mp ha
  exact holder_ne j c hnot h hh (by simpa using e)

/-- pending waiters other than `c`, when neither the wall clock nor their phases moved -/
theorem pend_frame {p : Redis.Params} {st : SpecSt} {s s' : Redis.State} (j : JR p st s) (c : Nat)
    (hw : s'.wall = s.wall) (hfr : ∀ k, k ≠ c → s'.cl k = s.cl k) :
    ∀ q ∈ st.queued.filter (· != c), q ∉ st.stale →
      ∃ tk, s'.cl q = .trying .lock tk (s'.wall + p.interval) (s'.wall + p.wait) := by
  intro q hq hs
  obtain ⟨hq1, hq2⟩ := List.mem_filter.mp hq
  have hne : q ≠ c := by simpa using hq2
  obtain ⟨tk, ht⟩ := j.pend q hq1 hs
  exact ⟨tk, by rw [hfr q hne, hw]; exact ht⟩

/-- the Redis model's own results never violate the spec (timing flags: none; the only tag that can
    appear is the C19 finding D15, on `observe`) -/
theorem jr_step {p : Redis.Params} {st : SpecSt} {s : Redis.State} (j : JR p st s) (hr : Redis.Reach p s)
    (c : Redis.Cmd) :
    JR p (specStep true p.ttl p.wait p.interval st (ofRedis c) (classRedis (Redis.exec p s c).2) .none) (Redis.exec p s c).1 := by
  -- entering Obtain from idle
  have enterCase : ∀ (i : Nat) (m : Redis.Mode) (op : Op) (out : Bool), isAcq op = true → op ≠ .join →
      (op = .lockAsync → m = .lock ∧ out = false) → (op = .lock → m = .lock ∧ out = true) →
      (op = .tryLock → m = .try ∧ out = false) →
      s.cl i = .idle →
      let e := Redis.enter p s i m
      let r := if out then Redis.runOut e i else (e, Redis.phaseRes e i)
      JR p (specStep true p.ttl p.wait p.interval st ⟨op, i, 0⟩ (classRedis r.2) .none) r.1 := by
    intro i m op out hop hnj hla hlk htl hi e r
    have hnot : ∀ t, s.cl i ≠ .holding t := by intro t h; rw [hi] at h; cases h
    obtain ⟨fn, fw, ffr⟩ := enter_frame p s i m
    obtain ⟨ro1, ro2, ro3, ro4, ro5⟩ := runOut_frame e i
    rcases enter_cases p s i m with ⟨hfree, hc, hv⟩ | ⟨hbusy, hv, hph⟩
    · have hr' : r = (e, .acquired) := by
        simp only [r]
        cases out
        · simp [Redis.phaseRes, e, hc]
        · simp only [if_true, Redis.runOut, e, hc, Redis.phaseRes]
      rw [hr']
      have hj : (op == Op.join) = false := by
        rcases op_of op hop hnj with h | h | h <;> subst h <;> rfl
      show JR p (specStep true p.ttl p.wait p.interval st ⟨op, i, 0⟩ .acquired .none) e
      rw [specStep_acq _ _ _ _ _ _ _ hop, hj]
      obtain ⟨a1, a2, a3, a4, a5⟩ := onAcquired_fresh true p.ttl st i (not_in_holders j i hnot) (free_noLiveOthers j i hfree)
      simp only [Bool.false_eq_true, if_false]
      refine jr_k1 j i s.nextTok hfree hnot hc hv fn ffr a3 a1 (by rw [a2]; exact j.clean) ?_
      rw [a4, a5]
      exact pend_frame j i fw ffr
    · -- busy
      have hlive := busy_liveOthers j i hnot hbusy
      cases m with
      | «try» =>
        simp only at hph
        have hop' : op = .tryLock := by
          rcases op_of op hop hnj with h | h | h
          · exact absurd (hlk h).1 (by decide)
          · exact h
          · exact absurd (hla h).1 (by decide)
        have hout : out = false := (htl hop').2
        subst hout
        have hr' : r = (e, .notObtained) := by simp [r, Redis.phaseRes, e, hph]
        rw [hr']
        show JR p (specStep true p.ttl p.wait p.interval st ⟨op, i, 0⟩ .refused .none) e
        subst hop'
        simp only [specStep, isAcq, refusedViol_none _ _ _ _ _ _ (wronglyRefused_of_live true p.ttl p.wait p.interval st ⟨.tryLock, i, 0⟩ hlive),
          List.append_nil, consumesTime, Bool.false_eq_true, if_false]
        refine jr_k2 j i hnot fn hv ffr rfl rfl j.clean ?_
        exact pend_frame j i fw ffr
      | lock =>
        simp only at hph
        cases out
        · -- background Lock: blocked
          have hr' : r = (e, .blocked) := by simp [r, Redis.phaseRes, e, hph]
          rw [hr']
          show JR p (specStep true p.ttl p.wait p.interval st ⟨op, i, 0⟩ .blocked .none) e
          have hop' : op = .lockAsync := by
            rcases op_of op hop hnj with h | h | h
            · exact absurd (hlk h).2 (by decide)
            · exact absurd (htl h).1 (by decide)
            · exact h
          subst hop'
          simp only [specStep, isAcq, hlive, Bool.false_and, Bool.false_eq_true, if_false, List.append_nil]
          refine jr_k2 j i hnot fn hv ffr rfl rfl j.clean ?_
          intro q hq hs
          rcases List.mem_cons.mp hq with e1 | hq'
          · subst e1; exact ⟨s.nextTok, by rw [fw]; exact hph⟩
          · by_cases hqi : q = i
            · subst hqi; exact ⟨s.nextTok, by rw [fw]; exact hph⟩
            · have hs' : q ∉ st.stale := by
                intro hm; apply hs
                exact List.mem_filter.mpr ⟨hm, by simpa using hqi⟩
              obtain ⟨tk, ht⟩ := j.pend q hq' hs'
              exact ⟨tk, by rw [ffr q hqi, fw]; exact ht⟩
        · -- blocking Lock: runs into its deadline
          have hro : Redis.runOut e i = (Redis.setCl { e with wall := max e.wall (s.wall + p.wait) } i .failed, .notObtained) := by
            simp only [Redis.runOut, e, hph]
          have hr' : r = (Redis.setCl { e with wall := max e.wall (s.wall + p.wait) } i .failed, .notObtained) := by
            simp only [r, if_true]; exact hro
          rw [hr']
          show JR p (specStep true p.ttl p.wait p.interval st ⟨op, i, 0⟩ .refused .none) _
          have hop' : op = .lock := by
            rcases op_of op hop hnj with h | h | h
            · exact h
            · exact absurd (htl h).2 (by decide)
            · exact absurd (hla h).2 (by decide)
          subst hop'
          simp only [specStep, isAcq, refusedViol_none _ _ _ _ _ _ (wronglyRefused_of_live true p.ttl p.wait p.interval st ⟨.lock, i, 0⟩ hlive),
            List.append_nil, consumesTime, if_true]
          refine jr_k2 j i hnot (by show e.now = s.now; exact fn) (by show e.val = s.val; exact hv)
            (by intro k hk; show (if k = i then _ else e.cl k) = s.cl k; rw [if_neg hk]; exact ffr k hk) rfl rfl j.clean ?_
          intro q hq hs
          exact absurd (List.mem_append.mpr (Or.inl hq)) hs
  have same : ∀ (op : Op) (i : Nat), isAcq op = true →
      JR p (specStep true p.ttl p.wait p.interval st ⟨op, i, 0⟩ (classRedis .misuse) .none) s := by
    intro op i hop
    show JR p (specStep true p.ttl p.wait p.interval st ⟨op, i, 0⟩ .other .none) s
    rw [specStep_other _ _ _ _ _ _ _ hop]; exact j
  cases c with
  | lock i =>
    simp only [Redis.exec, ofRedis]
    split
    · rename_i hi
      have := enterCase i .lock .lock true rfl (by intro h; cases h) (by intro h; cases h) (fun _ => ⟨rfl, rfl⟩) (by intro h; cases h) hi
      simpa using this
    · exact same .lock i rfl
  | tryLock i =>
    simp only [Redis.exec, ofRedis]
    split
    · rename_i hi
      have := enterCase i .try .tryLock false rfl (by intro h; cases h) (by intro h; cases h) (by intro h; cases h) (fun _ => ⟨rfl, rfl⟩) hi
      simpa using this
    · exact same .tryLock i rfl
  | lockAsync i =>
    simp only [Redis.exec, ofRedis]
    split
    · rename_i hi
      have := enterCase i .lock .lockAsync false rfl (by intro h; cases h) (fun _ => ⟨rfl, rfl⟩) (by intro h; cases h) (by intro h; cases h) hi
      simpa using this
    · exact same .lockAsync i rfl
  | join i =>
    simp only [Redis.exec, ofRedis]
    split
    · rename_i m tok na dl hi
      have hnot : ∀ t, s.cl i ≠ .holding t := by intro t h; rw [hi] at h; cases h
      -- after a join every pending waiter is stale: nothing to show for them
      have allStale : ∀ (q : Nat) (l : List Nat), q ∈ l → ¬ q ∉ l ++ st.stale :=
        fun q l hq hs => hs (List.mem_append.mpr (Or.inl hq))
      split
      · rename_i hlt
        let s1 : Redis.State := { s with wall := max s.wall na }
        have hal : Redis.alive s1 = Redis.alive s := rfl
        obtain ⟨ro1, ro2, ro3, ro4, ro5⟩ := runOut_frame (Redis.attempt p s1 i m tok dl) i
        cases ha : Redis.alive s with
        | none =>
          have hc : (Redis.attempt p s1 i m tok dl).cl i = .holding tok := by
            simp [Redis.attempt, hal, ha, Redis.setCl]
          have hro : Redis.runOut (Redis.attempt p s1 i m tok dl) i = (Redis.attempt p s1 i m tok dl, .acquired) := by
            simp only [Redis.runOut, hc, Redis.phaseRes]
          show JR p (specStep true p.ttl p.wait p.interval st ⟨.join, i, 0⟩ (classRedis (Redis.runOut (Redis.attempt p s1 i m tok dl) i).2) .none)
            (Redis.runOut (Redis.attempt p s1 i m tok dl) i).1
          rw [hro]
          show JR p (specStep true p.ttl p.wait p.interval st ⟨.join, i, 0⟩ .acquired .none) _
          rw [specStep_acq _ _ _ _ _ _ _ rfl]
          obtain ⟨a1, a2, a3, a4, a5⟩ := onAcquired_fresh true p.ttl st i (not_in_holders j i hnot) (free_noLiveOthers j i ha)
          simp only [beq_self_eq_true, if_true]
          refine jr_k1 j i tok ha hnot hc (by simp [Redis.attempt, hal, ha, Redis.setCl, s1])
            (by simp [Redis.attempt, hal, ha, Redis.setCl, s1]) (by intro k hk; simp [Redis.attempt, hal, ha, Redis.setCl, hk, s1])
            a3 a1 (by show ∀ t ∈ (onAcquired true p.ttl st i).viol, t = tagD15; rw [a2]; exact j.clean) ?_
          intro q hq hs
          exact absurd (List.mem_append.mpr (Or.inl hq)) hs
        | some v =>
          have hlive := busy_liveOthers j i hnot (by rw [ha]; rfl)
          have hnh : ∀ t, (Redis.attempt p s1 i m tok dl).cl i ≠ .holding t := by
            intro t; cases m <;> simp [Redis.attempt, hal, ha, Redis.setCl]
          have hres : (Redis.runOut (Redis.attempt p s1 i m tok dl) i).2 = .notObtained := by
            unfold Redis.runOut
            cases m <;> simp [Redis.attempt, hal, ha, Redis.setCl, Redis.phaseRes]
          show JR p (specStep true p.ttl p.wait p.interval st ⟨.join, i, 0⟩ (classRedis (Redis.runOut (Redis.attempt p s1 i m tok dl) i).2) .none)
            (Redis.runOut (Redis.attempt p s1 i m tok dl) i).1
          rw [hres]
          show JR p (specStep true p.ttl p.wait p.interval st ⟨.join, i, 0⟩ .refused .none) _
          simp only [specStep, isAcq, refusedViol_none _ _ _ _ _ _ (wronglyRefused_of_live true p.ttl p.wait p.interval st ⟨.join, i, 0⟩ hlive),
            List.append_nil, consumesTime, if_true]
          refine jr_k2 j i hnot (by rw [ro1]; cases m <;> simp [Redis.attempt, hal, ha, Redis.setCl, s1])
            (by rw [ro2]; cases m <;> simp [Redis.attempt, hal, ha, Redis.setCl, s1])
            (by intro k hk; rw [ro3 k hk]; cases m <;> simp [Redis.attempt, hal, ha, Redis.setCl, hk, s1]) rfl rfl j.clean ?_
          intro q hq hs
          exact absurd (List.mem_append.mpr (Or.inl hq)) hs
      · -- past its deadline without another attempt: only possible for a waiter the book does not judge
        rename_i hnlt
        show JR p (specStep true p.ttl p.wait p.interval st ⟨.join, i, 0⟩ .refused .none)
          (Redis.setCl { s with wall := max s.wall dl } i .failed)
        have hw : wronglyRefused true p.ttl p.wait p.interval st ⟨.join, i, 0⟩ = false := by
          apply Bool.eq_false_iff.mpr
          intro hwr
          simp only [wronglyRefused, Bool.and_eq_true, Bool.not_eq_true', Bool.or_eq_true, beq_iff_eq,
            List.contains_iff_mem, decide_eq_false_iff_not, Bool.true_and, reduceCtorEq, false_or] at hwr
          obtain ⟨_, _, ⟨hq, hs⟩, hnr⟩ := hwr
          obtain ⟨tk, ht⟩ := j.pend i (by simpa using hq) (by simpa using hs)
          rw [hi] at ht
          injection ht with _ _ e1 e2
          subst e1; subst e2
          apply hnlt
          show max s.wall (s.wall + p.interval) < s.wall + p.wait
          have : ¬ p.wait ≤ p.interval := hnr
          omega
        simp only [specStep, isAcq, refusedViol_none _ _ _ _ _ _ hw, List.append_nil, consumesTime, if_true]
        refine jr_k2 (s' := Redis.setCl { s with wall := max s.wall dl } i .failed) j i hnot rfl rfl
          (by intro k hk; simp [Redis.setCl, hk]) rfl rfl j.clean ?_
        intro q hq hs
        exact absurd (List.mem_append.mpr (Or.inl hq)) hs
    · exact same .join i rfl
  | unlock i =>
    have hspec : ∀ r, (specStep true p.ttl p.wait p.interval st ⟨.unlock, i, 0⟩ r .none) =
        { st with holders := st.holders.filter (·.1 != i) } := by
      intro r; cases r <;> simp [specStep, isAcq]
    simp only [Redis.exec, ofRedis]
    split
    · rename_i tok hi
      simp only [hspec]
      have inv := Redis.inv_reach hr
      rcases release_cases s i tok with ⟨e0, ha0, hrel⟩ | ⟨hno, hrel⟩
      · -- the live key was ours: deleted
        rw [hrel]
        obtain ⟨hv0, hlt0⟩ := Redis.alive_some ha0
        refine ⟨j.now, ?_, ?_, ?_, j.clean⟩
        · intro h hh
          obtain ⟨hh1, hh2⟩ := List.mem_filter.mp hh
          have hne : h.1 ≠ i := by simpa using hh2
          obtain ⟨t, ht, hvl⟩ := j.hold h hh1
          refine ⟨t, by simp [Redis.setCl, hne, ht], ?_⟩
          intro hlt
          have hv1 := hvl hlt
          rw [hv0] at hv1; injection hv1 with hv1; injection hv1 with e1 _
          subst e1
          exact absurd (inv.uniq h.1 i tok (by rw [ht]; rfl) (by rw [hi]; rfl)) hne
        · intro t e ha
          simp [Redis.alive] at ha
        · intro q hq hs
          obtain ⟨tk, ht⟩ := j.pend q hq hs
          have hne : q ≠ i := by intro e; rw [e] at ht; rw [hi] at ht; cases ht
          exact ⟨tk, by simp [Redis.setCl, hne]; exact ht⟩
      · -- expired, absent or somebody else's: untouched
        rw [hrel]
        refine ⟨j.now, ?_, ?_, ?_, j.clean⟩
        · intro h hh
          obtain ⟨hh1, hh2⟩ := List.mem_filter.mp hh
          have hne : h.1 ≠ i := by simpa using hh2
          obtain ⟨t, ht, hvl⟩ := j.hold h hh1
          exact ⟨t, by simp [Redis.setCl, hne, ht], hvl⟩
        · intro t e ha
          have ha' : Redis.alive s = some (t, e) := ha
          obtain ⟨h, hh, hcl, he⟩ := j.owner t e ha'
          have hne : h.1 ≠ i := by
            intro e'; rw [e', hi] at hcl; injection hcl with e2
            exact hno e (by rw [e2]; exact ha')
          exact ⟨h, List.mem_filter.mpr ⟨hh, by simpa using hne⟩, by simp [Redis.setCl, hne]; exact hcl, he⟩
        · intro q hq hs
          obtain ⟨tk, ht⟩ := j.pend q hq hs
          have hne : q ≠ i := by intro e; rw [e] at ht; rw [hi] at ht; cases ht
          exact ⟨tk, by simp [Redis.setCl, hne]; exact ht⟩
    · rename_i hnh
      simp only [hspec]
      refine ⟨j.now, ?_, ?_, j.pend, j.clean⟩
      · intro h hh; exact j.hold h (List.mem_filter.mp hh).1
      · intro t e ha
        obtain ⟨h, hh, hcl, he⟩ := j.owner t e ha
        have hne : h.1 ≠ i := by intro e'; rw [e'] at hcl; exact hnh t hcl
        exact ⟨h, List.mem_filter.mpr ⟨hh, by simpa using hne⟩, hcl, he⟩
  | ff dt =>
    have hspec : ∀ r, (specStep true p.ttl p.wait p.interval st ⟨.ff, 0, dt⟩ r .none) = { st with now := st.now + dt } := by
      intro r; cases r <;> simp [specStep, isAcq]
    simp only [Redis.exec, ofRedis, hspec]
    refine ⟨by simp [j.now], ?_, ?_, j.pend, j.clean⟩
    · intro h hh
      obtain ⟨t, ht, hval⟩ := j.hold h hh
      exact ⟨t, ht, fun hlt => hval (by simp only at hlt; omega)⟩
    · intro t e ha
      obtain ⟨hv, hlt⟩ := Redis.alive_some ha
      simp only at hv hlt
      exact j.owner t e (Redis.alive_none_of hv (by omega))
  | observe i =>
    have hspec : ∀ r, (specStep true p.ttl p.wait p.interval st ⟨.observe, i, 0⟩ r .none) =
        { st with viol := st.viol ++ observeViol true p.ttl st i r .none } := by
      intro r; cases r <;> simp [specStep, isAcq]
    simp only [Redis.exec, ofRedis, hspec]
    refine ⟨j.now, j.hold, j.owner, j.pend, ?_⟩
    intro t ht
    rcases List.mem_append.mp ht with h1 | h1
    · exact j.clean t h1
    · -- the Redis lock never cancels a context, so the only possible complaint is D15
      have hcc := Redis.ctx_never_cancelled hr i
      apply observeViol_redis p.ttl st i _ _ t h1
      cases s.cl i <;> simp [hcc, classRedis]
  | cancelCtx i =>
    have hspec : ∀ r, (specStep true p.ttl p.wait p.interval st ⟨.unknown, i, 0⟩ r .none) = st := by
      intro r; cases r <;> simp [specStep, isAcq]
    simp only [Redis.exec, ofRedis, hspec]
    exact j

/-- the spec run over the Redis model's own replay (no timing flags: the model has no stopwatch) -/
def specReplayRedis (p : Redis.Params) : SpecSt → Redis.State → List Redis.Cmd → SpecSt
  | st, _, [] => st
  | st, s, c :: cs =>
    let r := Redis.exec p s c
    specReplayRedis p (specStep true p.ttl p.wait p.interval st (ofRedis c) (classRedis r.2) .none) r.1 cs

theorem jr_replay {p : Redis.Params} (hp : 0 < p.wait) : ∀ (cs : List Redis.Cmd) (st : SpecSt) (s : Redis.State),
    JR p st s → Redis.Reach p s → ∀ t ∈ (specReplayRedis p st s cs).viol, t = tagD15 := by
  intro cs
  induction cs with
  | nil => intro st s j _; exact j.clean
  | cons c cs ih =>
    intro st s j hr
    simp only [specReplayRedis]
    exact ih _ _ (jr_step j hr c) (Redis.exec_reach hp hr c)

end Eru.Lock.Spec

/-! ### etcd -/
namespace Eru.Lock.Spec
open Eru.Lock

/-- the spec's book agrees with the etcd model state -/
structure JE (p : Etcd.Params) (st : SpecSt) (s : Etcd.State) : Prop where
  hold : ∀ h ∈ st.holders, s.phase h.1 = .holding ∧ (h.1 ∉ st.lost → s.leaseAlive h.1 = true) ∧
    (h.1 ∈ st.lost → s.ctx h.1 = .cancelled)
  lostDead : ∀ c ∈ st.lost, s.leaseAlive c = false
  keys : ∀ k ∈ s.keys, (s.phase k.1 = .holding ∧ (∃ t, (k.1, t) ∈ st.holders) ∧ k.1 ∉ st.lost) ∨
    ((∃ dl, s.phase k.1 = .waiting dl) ∧ k.1 ∈ st.queued)
  pend : ∀ c ∈ st.queued, c ∉ st.stale → ∃ dl, s.phase c = .waiting dl ∧ dl + st.slept = s.wall + p.ttl + sinceOf st c ∧
    (c ∉ st.lost → (c, s.myRev c) ∈ s.keys)
  clean : st.viol = []

/-- an older key in the queue means: somebody of the book is inside with a live lease, or a waiter
    of the book is ahead -/
theorem older_key_excuses {p : Etcd.Params} {st : SpecSt} {s : Etcd.State} (j : JE p st s) (c : Nat)
    (k : Nat × Nat) (hk : k ∈ s.keys) (hne : k.1 ≠ c) :
    (liveOthers false p.ttl st c).isEmpty = false ∨ (st.queued.filter (· != c)).isEmpty = false := by
  rcases j.keys k hk with ⟨_, ⟨t, ht⟩, hnl⟩ | ⟨_, hq⟩
  · left
    have hm : (k.1, t) ∈ liveOthers false p.ttl st c := by
      simp only [liveOthers, List.mem_filter, withinLease, Bool.false_eq_true, if_false, Bool.and_eq_true, bne_iff_ne, ne_eq,
        Bool.not_eq_true']
      exact ⟨ht, hne, by simpa using hnl⟩
    cases hl : liveOthers false p.ttl st c with
    | nil => rw [hl] at hm; cases hm
    | cons _ _ => rfl
  · right
    have hm : k.1 ∈ st.queued.filter (· != c) := List.mem_filter.mpr ⟨hq, by simpa using hne⟩
    cases hl : st.queued.filter (· != c) with
    | nil => rw [hl] at hm; cases hm
    | cons _ _ => rfl

theorem excused_not_wrong (ttl wait iv : Nat) (st : SpecSt) (c : SCmd)
    (h : (liveOthers false ttl st c.c).isEmpty = false ∨ (st.queued.filter (· != c.c)).isEmpty = false) :
    wronglyRefused false ttl wait iv st c = false := by
  unfold wronglyRefused
  rcases h with h | h <;> simp [h]

/-- nobody else of the book is inside with a live lease when `c` holds with a live lease -/
theorem holder_noLiveOthers {p : Etcd.Params} {st : SpecSt} {s s' : Etcd.State} (j : JE p st s)
    (hr' : Etcd.Reach p s') (c : Nat) (hc : s'.phase c = .holding) (hl : s'.leaseAlive c = true)
    (hfr : ∀ k, k ≠ c → s'.phase k = s.phase k ∧ s'.leaseAlive k = s.leaseAlive k) :
    liveOthers false p.ttl st c = [] := by
  apply List.filter_eq_nil_iff.mpr
  intro h hh
  simp only [withinLease, Bool.false_eq_true, if_false, Bool.and_eq_true, bne_iff_ne, ne_eq, Bool.not_eq_true',
    not_and]
  intro hne hnl
  obtain ⟨hp, ha, _⟩ := j.hold h hh
  have hnl' : h.1 ∉ st.lost := by simpa using hnl
  have := Etcd.live_holders_eq (Etcd.inv_reach hr') (i := h.1) (j := c)
    (by rw [(hfr _ hne).1]; exact hp) hc (by rw [(hfr _ hne).2]; exact ha hnl') hl
  exact hne this

theorem not_holder_of_phase {p : Etcd.Params} {st : SpecSt} {s : Etcd.State} (j : JE p st s) (c : Nat)
    (hc : s.phase c ≠ .holding) : st.holders.any (·.1 == c) = false := by
  apply Bool.eq_false_iff.mpr
  intro ha
  obtain ⟨h, hh, e⟩ := List.any_eq_true.mp ha
  have : h.1 = c := by simpa using e
  exact hc (this ▸ (j.hold h hh).1)

theorem sinceOf_cons_self (st' : SpecSt) (c v : Nat) (l : List (Nat × Nat)) (h : st'.since = (c, v) :: l) :
    sinceOf st' c = v := by
  simp [sinceOf, h]

theorem sinceOf_cons_other (st st' : SpecSt) (c q v : Nat) (h : st'.since = (c, v) :: st.since) (hne : q ≠ c) :
    sinceOf st' q = sinceOf st q := by
  simp [sinceOf, h, hne.symm]

end Eru.Lock.Spec

namespace Eru.Lock.Spec
open Eru.Lock

/-- client `c` (not holding before) becomes the holder -/
theorem je_acquired {p : Etcd.Params} {st st' : SpecSt} {s s' : Etcd.State} (j : JE p st s) (hr' : Etcd.Reach p s')
    (c : Nat) (hnot : s.phase c ≠ .holding) (hc : s'.phase c = .holding) (hl : s'.leaseAlive c = true)
    (hcl : c ∉ st.lost) (hla : s'.leaseAlive = s.leaseAlive)
    (hfr : ∀ k, k ≠ c → s'.phase k = s.phase k ∧ s'.ctx k = s.ctx k)
    (hkeys : ∀ k ∈ s'.keys, k.1 = c ∨ k ∈ s.keys)
    (h1 : st'.holders = (c, st.now) :: st.holders) (h2 : st'.lost = st.lost)
    (h3 : st'.viol = st.viol ++ (if (liveOthers false p.ttl st c).isEmpty then [] else [tagTwoHolders]))
    (h4 : st'.queued = st.queued.filter (· != c))
    (h5 : ∀ q ∈ st'.queued, q ∉ st'.stale → ∃ dl, s'.phase q = .waiting dl ∧
      dl + st'.slept = s'.wall + p.ttl + sinceOf st' q ∧ (q ∉ st'.lost → (q, s'.myRev q) ∈ s'.keys)) :
    JE p st' s' := by
  have hlive := holder_noLiveOthers j hr' c hc hl (fun k hk => ⟨(hfr k hk).1, by rw [hla]⟩)
  refine ⟨?_, ?_, ?_, h5, ?_⟩
  · intro h hh
    rw [h1] at hh; rw [h2]
    rcases List.mem_cons.mp hh with e | hh'
    · subst e; exact ⟨hc, fun _ => hl, fun hm => absurd hm hcl⟩
    · obtain ⟨a, b, d⟩ := j.hold h hh'
      have hne : h.1 ≠ c := by intro e; rw [e] at a; exact hnot a
      exact ⟨by rw [(hfr _ hne).1]; exact a, by rw [hla]; exact b, by rw [(hfr _ hne).2]; exact d⟩
  · intro x hx; rw [h2] at hx; rw [hla]; exact j.lostDead x hx
  · intro k hk
    by_cases hkc : k.1 = c
    · left; rw [hkc]; exact ⟨hc, ⟨st.now, by rw [h1]; exact List.mem_cons_self⟩, by rw [h2]; exact hcl⟩
    · have hk' := (hkeys k hk).resolve_left hkc
      rcases j.keys k hk' with ⟨a, ⟨t, ht⟩, b⟩ | ⟨⟨dl, a⟩, b⟩
      · left; exact ⟨by rw [(hfr _ hkc).1]; exact a, ⟨t, by rw [h1]; exact List.mem_cons_of_mem _ ht⟩, by rw [h2]; exact b⟩
      · right; exact ⟨⟨dl, by rw [(hfr _ hkc).1]; exact a⟩, by rw [h4]; exact List.mem_filter.mpr ⟨b, by simpa using hkc⟩⟩
  · rw [h3, hlive, j.clean]; rfl

/-- client `c`, not a holder, ends in a phase without keys (failed): its keys are gone, the rest is
    as before -/
theorem je_dropped {p : Etcd.Params} {st st' : SpecSt} {s s' : Etcd.State} (j : JE p st s)
    (c : Nat) (hnot : s.phase c ≠ .holding)
    (hla : s'.leaseAlive = s.leaseAlive)
    (hfr : ∀ k, k ≠ c → s'.phase k = s.phase k ∧ s'.ctx k = s.ctx k)
    (hkeys : ∀ k ∈ s'.keys, k ∈ s.keys ∧ k.1 ≠ c)
    (h1 : st'.holders = st.holders) (h2 : st'.lost = st.lost) (h3 : st'.viol = [])
    (h4 : ∀ q ∈ st.queued, q ≠ c → q ∈ st'.queued)
    (h5 : ∀ q ∈ st'.queued, q ∉ st'.stale → ∃ dl, s'.phase q = .waiting dl ∧
      dl + st'.slept = s'.wall + p.ttl + sinceOf st' q ∧ (q ∉ st'.lost → (q, s'.myRev q) ∈ s'.keys)) :
    JE p st' s' := by
  refine ⟨?_, ?_, ?_, h5, h3⟩
  · intro h hh
    rw [h1] at hh; rw [h2]
    obtain ⟨a, b, d⟩ := j.hold h hh
    have hne : h.1 ≠ c := by intro e; rw [e] at a; exact hnot a
    exact ⟨by rw [(hfr _ hne).1]; exact a, by rw [hla]; exact b, by rw [(hfr _ hne).2]; exact d⟩
  · intro x hx; rw [h2] at hx; rw [hla]; exact j.lostDead x hx
  · intro k hk
    obtain ⟨hk', hkc⟩ := hkeys k hk
    rcases j.keys k hk' with ⟨a, ⟨t, ht⟩, b⟩ | ⟨⟨dl, a⟩, b⟩
    · left; exact ⟨by rw [(hfr _ hkc).1]; exact a, ⟨t, by rw [h1]; exact ht⟩, by rw [h2]; exact b⟩
    · right; exact ⟨⟨dl, by rw [(hfr _ hkc).1]; exact a⟩, h4 _ b hkc⟩

/-- pending waiters other than `c` when clocks, phases, revisions and keys of the others are untouched -/
theorem pendE_frame {p : Etcd.Params} {st : SpecSt} {s s' : Etcd.State} (j : JE p st s) (c : Nat)
    (hw : s'.wall = s.wall) (hfr : ∀ k, k ≠ c → s'.phase k = s.phase k ∧ s'.myRev k = s.myRev k)
    (hkeep : ∀ k ∈ s.keys, k.1 ≠ c → k ∈ s'.keys) :
    ∀ q ∈ st.queued, q ≠ c → q ∉ st.stale → ∃ dl, s'.phase q = .waiting dl ∧
      dl + st.slept = s'.wall + p.ttl + sinceOf st q ∧ (q ∉ st.lost → (q, s'.myRev q) ∈ s'.keys) := by
  intro q hq hne hs
  obtain ⟨dl, a, b, d⟩ := j.pend q hq hs
  exact ⟨dl, by rw [(hfr q hne).1]; exact a, by rw [hw]; exact b,
    fun hl => by rw [(hfr q hne).2]; exact hkeep _ (d hl) hne⟩

theorem refusedViol_noneE (ttl wait iv : Nat) (st : SpecSt) (c : SCmd)
    (h : wronglyRefused false ttl wait iv st c = false) : refusedViol false ttl wait iv st c .none = [] :=
  refusedViol_none false ttl wait iv st c h

end Eru.Lock.Spec

namespace Eru.Lock.Spec
open Eru.Lock

/-- what `expireWaiters` may have done to a state -/
structure EW (s0 cur : Etcd.State) : Prop where
  wall : cur.wall = s0.wall
  la : cur.leaseAlive = s0.leaseAlive
  ctx : cur.ctx = s0.ctx
  rev : cur.myRev = s0.myRev
  ph : ∀ j, cur.phase j = s0.phase j ∨
    (∃ dl, s0.phase j = .waiting dl ∧ dl ≤ s0.wall ∧ cur.phase j = .failed ∧ ∀ k ∈ cur.keys, k.1 ≠ j)
  sub : ∀ k ∈ cur.keys, k ∈ s0.keys
  sup : ∀ k ∈ s0.keys, k ∈ cur.keys ∨ ∃ dl, s0.phase k.1 = .waiting dl ∧ dl ≤ s0.wall

theorem ew_fold (s0 : Etcd.State) : ∀ (l : List Nat) (cur : Etcd.State), EW s0 cur →
    EW s0 (l.foldl (fun st i => match st.phase i with
      | .waiting dl => if dl ≤ st.wall then Etcd.abandon st i else st
      | _ => st) cur) := by
  intro l
  induction l with
  | nil => intro cur h; exact h
  | cons i l ih =>
    intro cur h
    simp only [List.foldl_cons]
    apply ih
    split
    · rename_i dl hi
      split
      · rename_i hdl
        -- i is a waiter of s0 whose deadline has passed
        have h0 : s0.phase i = .waiting dl := by
          rcases h.ph i with e | ⟨_, _, _, e, _⟩
          · rw [← e]; exact hi
          · rw [hi] at e; cases e
        refine ⟨h.wall, h.la, h.ctx, h.rev, ?_, ?_, ?_⟩
        · intro j
          by_cases hji : j = i
          · subst hji; right
            exact ⟨dl, h0, by rw [← h.wall]; exact hdl, by simp [Etcd.abandon, Etcd.upd],
              fun k hk => (Etcd.mem_dropKeys.mp hk).2⟩
          · rcases h.ph j with e | ⟨dl', a, b, d, f⟩
            · left; simp [Etcd.abandon, Etcd.upd, hji, e]
            · right; exact ⟨dl', a, b, by simp [Etcd.abandon, Etcd.upd, hji, d],
                fun k hk => f k (Etcd.mem_dropKeys.mp hk).1⟩
        · intro k hk; exact h.sub k (Etcd.mem_dropKeys.mp hk).1
        · intro k hk
          rcases h.sup k hk with a | a
          · by_cases hki : k.1 = i
            · right; exact ⟨dl, by rw [hki]; exact h0, by rw [← h.wall]; exact hdl⟩
            · left; exact Etcd.mem_dropKeys.mpr ⟨a, hki⟩
          · right; exact a
      · exact h
    · exact h

theorem ew_refl (s : Etcd.State) : EW s s :=
  ⟨rfl, rfl, rfl, rfl, fun _ => Or.inl rfl, fun _ h => h, fun _ h => Or.inl h⟩

end Eru.Lock.Spec

namespace Eru.Lock.Spec
open Eru.Lock

theorem acq_abandon_frame (ttl : Nat) (s : Etcd.State) (i : Nat) (m : Etcd.Mode) (w : Nat) :
    let y := Etcd.abandon { Etcd.acquire ttl s i m with wall := w } i
    y.leaseAlive = s.leaseAlive ∧
    (∀ k, k ≠ i → y.phase k = s.phase k ∧ y.ctx k = s.ctx k ∧ y.myRev k = s.myRev k) ∧
    (∀ k ∈ y.keys, k ∈ s.keys ∧ k.1 ≠ i) ∧ (∀ k ∈ s.keys, k.1 ≠ i → k ∈ y.keys) ∧ y.wall = w := by
  intro y
  refine ⟨by simp [y, Etcd.abandon, Etcd.acquire_leaseAlive], ?_, ?_, ?_, rfl⟩
  · intro k hk
    refine ⟨?_, ?_, ?_⟩
    · simp [y, Etcd.abandon, Etcd.upd, hk, Etcd.acquire_phase_other _ _ _ _ hk]
    · simp [y, Etcd.abandon, Etcd.acquire_ctx_other _ _ _ _ hk]
    · simp [y, Etcd.abandon, Etcd.acquire_myRev, Etcd.upd, hk]
  · intro k hk
    obtain ⟨h1, h2⟩ := Etcd.mem_dropKeys.mp hk
    have : k ∈ (Etcd.acquire ttl s i m).keys := h1
    rw [Etcd.acquire_keys] at this
    rcases List.mem_append.mp this with h | h
    · exact ⟨h, h2⟩
    · simp at h; subst h; exact absurd rfl h2
  · intro k hk hne
    apply Etcd.mem_dropKeys.mpr
    refine ⟨?_, hne⟩
    show k ∈ (Etcd.acquire ttl s i m).keys
    rw [Etcd.acquire_keys]; exact List.mem_append.mpr (Or.inl hk)

/-- a refusal because the new key is not the oldest is excused by the book -/
theorem notOldest_excuses {p : Etcd.Params} {st : SpecSt} {s : Etcd.State} (j : JE p st s) (inv : Etcd.Inv p s)
    (i : Nat) (hidle : s.phase i = .idle)
    (hno : Etcd.oldest (s.keys ++ [(i, s.rev + 1)]) (s.rev + 1) = false) :
    (liveOthers false p.ttl st i).isEmpty = false ∨ (st.queued.filter (· != i)).isEmpty = false := by
  have : ∃ k ∈ s.keys ++ [(i, s.rev + 1)], ¬ s.rev + 1 ≤ k.2 := by
    apply Classical.byContradiction
    intro hn
    have : Etcd.oldest (s.keys ++ [(i, s.rev + 1)]) (s.rev + 1) = true := by
      simp only [Etcd.oldest, List.all_eq_true, decide_eq_true_eq]
      intro k hk
      apply Classical.byContradiction
      intro hlt; exact hn ⟨k, hk, hlt⟩
    rw [this] at hno; cases hno
  obtain ⟨k, hk, hlt⟩ := this
  rcases List.mem_append.mp hk with h | h
  · exact older_key_excuses j i k h (inv.k4 i hidle k h)
  · simp at h; subst h; simp at hlt

theorem je_unlock {p : Etcd.Params} (iv : Nat) {st : SpecSt} {s : Etcd.State} (g : Etcd.Good p s) (j : JE p st s) (i : Nat) :
    JE p (specStep false p.ttl p.ttl iv st (ofEtcd (.unlock i)) (classEtcd (Etcd.exec p.ttl s (.unlock i)).2) .none)
      (Etcd.exec p.ttl s (.unlock i)).1 := by
  have hspec : ∀ r, (specStep false p.ttl p.ttl iv st ⟨.unlock, i, 0⟩ r .none) =
      { st with holders := st.holders.filter (·.1 != i) } := by
    intro r; cases r <;> simp [specStep, isAcq]
  have core : (s.phase i = .holding ∨ s.phase i = .failed) →
      JE p { st with holders := st.holders.filter (·.1 != i) } (Etcd.unlock s i) := by
    intro hph
    refine ⟨?_, ?_, ?_, ?_, j.clean⟩
    · intro h hh
      obtain ⟨hh1, hh2⟩ := List.mem_filter.mp hh
      have hne : h.1 ≠ i := by simpa using hh2
      obtain ⟨a, b, d⟩ := j.hold h hh1
      exact ⟨by simp [Etcd.unlock, Etcd.upd, hne, a], by simp only [Etcd.unlock, Etcd.upd, hne, if_false]; exact b, d⟩
    · intro x hx
      by_cases hxi : x = i
      · subst hxi; simp [Etcd.unlock, Etcd.upd]
      · simp only [Etcd.unlock, Etcd.upd, hxi, if_false]; exact j.lostDead x hx
    · intro k hk
      obtain ⟨hk1, hne⟩ := Etcd.mem_dropKeys.mp hk
      rcases j.keys k hk1 with ⟨a, ⟨t, ht⟩, b⟩ | ⟨⟨dl, a⟩, b⟩
      · left; exact ⟨by simp [Etcd.unlock, Etcd.upd, hne, a], ⟨t, List.mem_filter.mpr ⟨ht, by simpa using hne⟩⟩, b⟩
      · right; exact ⟨⟨dl, by simp [Etcd.unlock, Etcd.upd, hne, a]⟩, b⟩
    · intro q hq hs
      obtain ⟨dl, a, b, d⟩ := j.pend q hq hs
      have hne : q ≠ i := by
        intro e; rw [e] at a
        rcases hph with h | h <;> rw [h] at a <;> cases a
      exact ⟨dl, by simp [Etcd.unlock, Etcd.upd, hne, a], b, fun hl => Etcd.mem_dropKeys.mpr ⟨d hl, hne⟩⟩
  simp only [Etcd.exec, ofEtcd, hspec]
  split
  · rename_i h; exact core (Or.inl h)
  · rename_i h; exact core (Or.inr h)
  · -- nothing happens in the model; the book forgets a client that was no holder anyway
    rename_i h1 h2
    refine ⟨fun h hh => j.hold h (List.mem_filter.mp hh).1, j.lostDead, ?_, j.pend, j.clean⟩
    intro k hk
    rcases j.keys k hk with ⟨a, ⟨t, ht⟩, b⟩ | hw
    · have hne : k.1 ≠ i := by intro e; rw [e] at a; exact h1 a
      left; exact ⟨a, ⟨t, List.mem_filter.mpr ⟨ht, by simpa using hne⟩⟩, b⟩
    · right; exact hw

theorem je_revoke {p : Etcd.Params} (iv : Nat) {st : SpecSt} {s : Etcd.State} (g : Etcd.Good p s) (j : JE p st s) (i : Nat) :
    JE p (specStep false p.ttl p.ttl iv st (ofEtcd (.revoke i)) (classEtcd (Etcd.exec p.ttl s (.revoke i)).2) .none)
      (Etcd.exec p.ttl s (.revoke i)).1 := by
  have inv := Etcd.inv_reach g.reach
  have hspec : ∀ r, (specStep false p.ttl p.ttl iv st ⟨.revoke, i, 0⟩ r .none) = { st with lost := i :: st.lost } := by
    intro r; cases r <;> simp [specStep, isAcq]
  simp only [Etcd.exec, ofEtcd]
  split
  · rename_i hl
    have hl' : s.leaseAlive i = true := by simpa using hl
    simp only [hspec]
    -- the state after the loss (and the watcher, if there is something to tell)
    let s1 := Etcd.loseLease s i
    let s2 := if s1.ctx i = .live ∧ s1.locked i = true then Etcd.watch s1 i else s1
    have e_phase : s2.phase = s.phase := by simp only [s2, s1]; split <;> rfl
    have e_wall : s2.wall = s.wall := by simp only [s2, s1]; split <;> rfl
    have e_rev : s2.myRev = s.myRev := by simp only [s2, s1]; split <;> rfl
    have e_keys : s2.keys = Etcd.dropKeys i s.keys := by simp only [s2, s1]; split <;> rfl
    have e_la : ∀ k, s2.leaseAlive k = if k = i then false else s.leaseAlive k := by
      intro k; simp only [s2, s1]; split <;> simp [Etcd.watch, Etcd.loseLease, Etcd.upd]
    have e_ctx_other : ∀ k, k ≠ i → s2.ctx k = s.ctx k := by
      intro k hk; simp only [s2, s1]; split <;> simp [Etcd.watch, Etcd.loseLease, Etcd.upd, hk]
    have e_ctx_self : s.phase i = .holding → s2.ctx i = .cancelled := by
      intro hp
      obtain ⟨hlk, hcn⟩ := inv.l1 i hp
      simp only [s2, s1]
      split
      · simp [Etcd.watch, Etcd.upd]
      · rename_i hn
        cases hc : s.ctx i with
        | none => exact absurd hc hcn
        | cancelled => simp [Etcd.loseLease, hc]
        | live => exact absurd ⟨by simpa [Etcd.loseLease] using hc, by simpa [Etcd.loseLease] using hlk⟩ hn
    show JE p { st with lost := i :: st.lost } s2
    refine ⟨?_, ?_, ?_, ?_, j.clean⟩
    · intro h hh
      obtain ⟨a, b, d⟩ := j.hold h hh
      refine ⟨by rw [e_phase]; exact a, ?_, ?_⟩
      · intro hnl
        have hne : h.1 ≠ i := fun e => hnl (by rw [e]; exact List.mem_cons_self)
        rw [e_la, if_neg hne]; exact b (fun hm => hnl (List.mem_cons_of_mem _ hm))
      · intro hm
        by_cases hne : h.1 = i
        · rw [hne]; exact e_ctx_self (hne ▸ a)
        · rw [e_ctx_other _ hne]
          exact d ((List.mem_cons.mp hm).resolve_left hne)
    · intro x hx
      rw [e_la]
      by_cases hxi : x = i
      · simp [hxi]
      · rw [if_neg hxi]; exact j.lostDead x ((List.mem_cons.mp hx).resolve_left hxi)
    · intro k hk
      rw [e_keys] at hk
      obtain ⟨hk1, hne⟩ := Etcd.mem_dropKeys.mp hk
      rw [e_phase]
      rcases j.keys k hk1 with ⟨a, b, d⟩ | hw
      · left; exact ⟨a, b, fun hm => d ((List.mem_cons.mp hm).resolve_left hne)⟩
      · right; exact hw
    · intro q hq hs
      obtain ⟨dl, a, b, d⟩ := j.pend q hq hs
      refine ⟨dl, by rw [e_phase]; exact a, by rw [e_wall]; exact b, ?_⟩
      intro hnl
      have hne : q ≠ i := fun e => hnl (by rw [e]; exact List.mem_cons_self)
      rw [e_rev, e_keys]
      exact Etcd.mem_dropKeys.mpr ⟨d (fun hm => hnl (List.mem_cons_of_mem _ hm)), hne⟩
  · rename_i hl
    have hl' : s.leaseAlive i = false := by simpa using hl
    simp only [hspec]
    refine ⟨?_, ?_, ?_, ?_, j.clean⟩
    · intro h hh
      obtain ⟨a, b, d⟩ := j.hold h hh
      refine ⟨a, fun hnl => b (fun hm => hnl (List.mem_cons_of_mem _ hm)), ?_⟩
      intro hm
      by_cases hne : h.1 = i
      · -- a holder with a dead lease is already in the book's lost list
        by_cases hin : h.1 ∈ st.lost
        · exact d hin
        · have := b hin; rw [hne, hl'] at this; cases this
      · exact d ((List.mem_cons.mp hm).resolve_left hne)
    · intro x hx
      rcases List.mem_cons.mp hx with e | hx'
      · rw [e]; exact hl'
      · exact j.lostDead x hx'
    · intro k hk
      have hne : k.1 ≠ i := by
        intro e; have := (inv.k3 k hk).2; rw [e, hl'] at this; cases this
      rcases j.keys k hk with ⟨a, b, d⟩ | hw
      · left; exact ⟨a, b, fun hm => d ((List.mem_cons.mp hm).resolve_left hne)⟩
      · right; exact hw
    · intro q hq hs
      obtain ⟨dl, a, b, d⟩ := j.pend q hq hs
      exact ⟨dl, a, b, fun hnl => d (fun hm => hnl (List.mem_cons_of_mem _ hm))⟩

theorem je_observe {p : Etcd.Params} (iv : Nat) {st : SpecSt} {s : Etcd.State} (g : Etcd.Good p s) (j : JE p st s) (i : Nat) :
    JE p (specStep false p.ttl p.ttl iv st (ofEtcd (.observe i)) (classEtcd (Etcd.exec p.ttl s (.observe i)).2) .none)
      (Etcd.exec p.ttl s (.observe i)).1 := by
  have hspec : ∀ r, (specStep false p.ttl p.ttl iv st ⟨.observe, i, 0⟩ r .none) =
      { st with viol := st.viol ++ observeViol false p.ttl st i r .none } := by
    intro r; cases r <;> simp [specStep, isAcq]
  simp only [Etcd.exec, ofEtcd, hspec]
  refine ⟨j.hold, j.lostDead, j.keys, j.pend, ?_⟩
  show st.viol ++ observeViol false p.ttl st i _ .none = []
  rw [j.clean, List.nil_append]
  unfold observeViol
  cases hf : st.holders.find? (·.1 == i) with
  | none => rfl
  | some h =>
    have hh : h ∈ st.holders := List.mem_of_find?_eq_some hf
    have hi : h.1 = i := by simpa using List.find?_some hf
    obtain ⟨a, b, d⟩ := j.hold h hh
    simp only [withinLease, Bool.false_eq_true, if_false]
    by_cases hl : h.1 ∈ st.lost
    · -- lost: the model has told the holder
      have hc : s.ctx i = .cancelled := hi ▸ d hl
      simp [hl, hc, classEtcd]
    · -- not lost: the context cannot be cancelled
      have hal : s.leaseAlive i = true := hi ▸ b hl
      have hnc : s.ctx i ≠ .cancelled := by
        intro hc
        have := Etcd.cancelled_implies_lost g.reach i hc
        rw [hal] at this; cases this
      cases hc : s.ctx i with
      | cancelled => exact absurd hc hnc
      | live => simp [hl, classEtcd]
      | none => simp [hl, classEtcd]

theorem waitDone_pos (s : Etcd.State) (i : Nat) (h : (i, s.myRev i) ∈ s.keys) :
    (Etcd.waitDone s i).phase = Etcd.upd s.phase i .holding ∧ (Etcd.waitDone s i).leaseAlive = s.leaseAlive ∧
    (Etcd.waitDone s i).keys = s.keys ∧ (Etcd.waitDone s i).ctx = Etcd.upd s.ctx i .live := by
  unfold Etcd.waitDone; rw [if_pos (by simpa using h)]; exact ⟨rfl, rfl, rfl, rfl⟩

theorem waitDone_neg (s : Etcd.State) (i : Nat) (h : (i, s.myRev i) ∉ s.keys) :
    (Etcd.waitDone s i).phase = Etcd.upd s.phase i .failed ∧ (Etcd.waitDone s i).leaseAlive = s.leaseAlive ∧
    (Etcd.waitDone s i).keys = s.keys ∧ (Etcd.waitDone s i).ctx = s.ctx := by
  unfold Etcd.waitDone; rw [if_neg (by simpa using h)]; exact ⟨rfl, rfl, rfl, rfl⟩

/-- a `join` the book would judge is a join of a pending, fresh, not revoked waiter -/
theorem join_not_wrong (ttl wait iv : Nat) (st : SpecSt) (i : Nat)
    (h : i ∈ st.queued → i ∉ st.stale → i ∉ st.lost → False) :
    wronglyRefused false ttl wait iv st ⟨.join, i, 0⟩ = false := by
  unfold wronglyRefused
  by_cases h1 : i ∈ st.queued
  · by_cases h2 : i ∈ st.stale
    · simp [h2]
    · by_cases h3 : i ∈ st.lost
      · simp [h3]
      · exact (h h1 h2 h3).elim
  · simp [h1]

theorem je_join {p : Etcd.Params} (iv : Nat) {st : SpecSt} {s : Etcd.State} (g : Etcd.Good p s) (j : JE p st s) (i : Nat) :
    JE p (specStep false p.ttl p.ttl iv st (ofEtcd (.join i)) (classEtcd (Etcd.exec p.ttl s (.join i)).2) .none)
      (Etcd.exec p.ttl s (.join i)).1 := by
  have inv := Etcd.inv_reach g.reach
  -- a refused join: the waiter leaves the queue of the book, everybody still pending becomes stale
  have refusedJoin : ∀ (s' : Etcd.State), wronglyRefused false p.ttl p.ttl iv st ⟨.join, i, 0⟩ = false →
      s.phase i ≠ .holding → s'.leaseAlive = s.leaseAlive →
      (∀ k, k ≠ i → s'.phase k = s.phase k ∧ s'.ctx k = s.ctx k) →
      (∀ k ∈ s'.keys, k ∈ s.keys ∧ k.1 ≠ i) →
      JE p (specStep false p.ttl p.ttl iv st ⟨.join, i, 0⟩ .refused .none) s' := by
    intro s' hw hnot hla hfr hkeys
    simp only [specStep, isAcq, refusedViol_noneE _ _ _ _ _ hw, List.append_nil, consumesTime, if_true]
    refine je_dropped j i hnot hla hfr hkeys rfl rfl j.clean
      (fun q hq hne => List.mem_filter.mpr ⟨hq, by simpa using hne⟩) ?_
    intro q hq hs
    exact absurd (List.mem_append.mpr (Or.inl hq)) hs
  simp only [Etcd.exec, ofEtcd]
  split
  · rename_i dl hi
    have hnot : s.phase i ≠ .holding := by rw [hi]; intro e; cases e
    split
    · rename_i hno
      have hno' : ∀ k ∈ s.keys, ¬ k.2 < s.myRev i := by
        intro k hk
        simp only [Etcd.noOlder, List.all_eq_true, Bool.not_eq_true', decide_eq_false_iff_not] at hno
        exact hno k hk
      by_cases hown : s.keys.contains (i, s.myRev i) = true
      · -- first in the queue with its key still there: acquired
        have hmem : (i, s.myRev i) ∈ s.keys := by simpa using hown
        have hl : s.leaseAlive i = true := (inv.k3 _ hmem).2
        have hnl : i ∉ st.lost := fun hm => by have := j.lostDead i hm; rw [hl] at this; cases this
        have gw := Etcd.good_waitDone g i dl hi hno'
        obtain ⟨w1, w2, w3, w4⟩ := waitDone_pos s i hmem
        have hph : (Etcd.waitDone s i).phase i = .holding := by rw [w1]; simp [Etcd.upd]
        simp only [hph]
        show JE p (specStep false p.ttl p.ttl iv st ⟨.join, i, 0⟩ .acquired .none) (Etcd.waitDone s i)
        rw [specStep_acq _ _ _ _ _ _ _ rfl]
        simp only [beq_self_eq_true, if_true]
        have hnew := not_holder_of_phase j i hnot
        refine je_acquired j gw.reach i hnot hph (by rw [w2]; exact hl) hnl w2 ?_ ?_
          (by simp [onAcquired, hnew]) rfl (by simp [onAcquired]) (by simp [onAcquired]) ?_
        · intro k hk; rw [w1, w4]; simp [Etcd.upd, hk]
        · intro k hk; rw [w3] at hk; exact Or.inr hk
        · intro q hq hs
          exact absurd (List.mem_append.mpr (Or.inl hq)) hs
      · -- its own key is gone (lease lost while waiting): session expired
        have hmiss : (i, s.myRev i) ∉ s.keys := by simpa using hown
        obtain ⟨w1, w2, w3, w4⟩ := waitDone_neg s i hmiss
        have hph : (Etcd.waitDone s i).phase i = .failed := by rw [w1]; simp [Etcd.upd]
        simp only [hph]
        show JE p (specStep false p.ttl p.ttl iv st ⟨.join, i, 0⟩ .refused .none) (Etcd.waitDone s i)
        apply refusedJoin _ _ hnot w2
        · intro k hk; rw [w1, w4]; simp [Etcd.upd, hk]
        · intro k hk; rw [w3] at hk
          refine ⟨hk, fun e => hmiss ?_⟩
          have := (inv.k3 k hk).1
          rw [e] at this
          rw [this, ← e]; exact hk
        · apply join_not_wrong
          intro h1 h2 h3
          obtain ⟨_, _, _, d⟩ := j.pend i h1 h2
          exact hmiss (d h3)
    · -- an older key is still there: the waiter runs into its deadline
      rename_i hno
      show JE p (specStep false p.ttl p.ttl iv st ⟨.join, i, 0⟩ .refused .none)
        (Etcd.abandon { s with wall := max s.wall dl } i)
      apply refusedJoin (Etcd.abandon { s with wall := max s.wall dl } i) _ hnot rfl
      · intro k hk; simp [Etcd.abandon, Etcd.upd, hk]
      · intro k hk; exact Etcd.mem_dropKeys.mp hk
      · have : ∃ k ∈ s.keys, k.2 < s.myRev i := by
          apply Classical.byContradiction
          intro hn
          apply hno
          simp only [Etcd.noOlder, List.all_eq_true, Bool.not_eq_true', decide_eq_false_iff_not]
          intro k hk hlt; exact hn ⟨k, hk, hlt⟩
        obtain ⟨k, hk, hlt⟩ := this
        have hne : k.1 ≠ i := by
          intro e
          have := (inv.k3 k hk).1
          rw [e] at this; omega
        exact excused_not_wrong _ _ _ _ ⟨.join, i, 0⟩ (older_key_excuses j i k hk hne)
  · -- its deadline passed during an earlier sleep
    rename_i hi
    have hnot : s.phase i ≠ .holding := by rw [hi]; intro e; cases e
    show JE p (specStep false p.ttl p.ttl iv st ⟨.join, i, 0⟩ .refused .none) s
    apply refusedJoin s _ hnot rfl (fun _ _ => ⟨rfl, rfl⟩)
    · intro k hk
      refine ⟨hk, fun e => ?_⟩
      rcases j.keys k hk with ⟨a, _, _⟩ | ⟨⟨dl, a⟩, _⟩ <;> (rw [e, hi] at a; cases a)
    · apply join_not_wrong
      intro h1 h2 _
      obtain ⟨dl, a, _, _⟩ := j.pend i h1 h2
      rw [hi] at a; cases a
  · show JE p (specStep false p.ttl p.ttl iv st ⟨.join, i, 0⟩ .other .none) s
    rw [specStep_other _ _ _ _ _ _ _ rfl]; exact j

theorem je_sleep {p : Etcd.Params} (iv : Nat) {st : SpecSt} {s : Etcd.State} (g : Etcd.Good p s) (j : JE p st s) (dt : Nat) :
    JE p (specStep false p.ttl p.ttl iv st (ofEtcd (.sleep dt)) (classEtcd (Etcd.exec p.ttl s (.sleep dt)).2) .none)
      (Etcd.exec p.ttl s (.sleep dt)).1 := by
  have hspec : ∀ r, (specStep false p.ttl p.ttl iv st ⟨.sleep, 0, dt⟩ r .none) =
      { st with slept := st.slept + dt,
                stale := (st.queued.filter fun q => decide (p.ttl + sinceOf st q ≤ st.slept + dt)) ++ st.stale } := by
    intro r; cases r <;> simp [specStep, isAcq]
  simp only [Etcd.exec, ofEtcd, hspec, Etcd.expireWaiters]
  have ew := ew_fold { s with wall := s.wall + dt } (({ s with wall := s.wall + dt } : Etcd.State).keys.map (·.1)) _ (ew_refl _)
  generalize (List.foldl _ _ _) = fin at ew ⊢
  have notExpired : ∀ q dl, s.phase q = .waiting dl → dl + st.slept = s.wall + p.ttl + sinceOf st q →
      ¬ (p.ttl + sinceOf st q ≤ st.slept + dt) → fin.phase q = s.phase q ∧ ¬ (dl ≤ s.wall + dt) := by
    intro q dl a b hns
    have hgt : ¬ (dl ≤ s.wall + dt) := by omega
    rcases ew.ph q with e | ⟨dl', a', b', _, _⟩
    · exact ⟨e, hgt⟩
    · have : s.phase q = .waiting dl' := a'
      rw [a] at this; injection this with this; subst this
      exact absurd b' hgt
  refine ⟨?_, ?_, ?_, ?_, j.clean⟩
  · intro h hh
    obtain ⟨a, b, d⟩ := j.hold h hh
    refine ⟨?_, by rw [ew.la]; exact b, by rw [ew.ctx]; exact d⟩
    rcases ew.ph h.1 with e | ⟨dl', a', _, _, _⟩
    · rw [e]; exact a
    · have : s.phase h.1 = .waiting dl' := a'
      rw [a] at this; cases this
  · intro x hx; rw [ew.la]; exact j.lostDead x hx
  · intro k hk
    have hk0 : k ∈ s.keys := ew.sub k hk
    have hsame : fin.phase k.1 = s.phase k.1 := by
      rcases ew.ph k.1 with e | ⟨_, _, _, _, f⟩
      · exact e
      · exact absurd rfl (f k hk)
    rw [hsame]; exact j.keys k hk0
  · intro q hq hs
    have hs1 : q ∉ st.stale := fun hm => hs (List.mem_append.mpr (Or.inr hm))
    have hs2 : ¬ (p.ttl + sinceOf st q ≤ st.slept + dt) := by
      intro hle
      exact hs (List.mem_append.mpr (Or.inl (List.mem_filter.mpr ⟨hq, by simpa using hle⟩)))
    obtain ⟨dl, a, b, d⟩ := j.pend q hq hs1
    obtain ⟨e1, e2⟩ := notExpired q dl a b hs2
    refine ⟨dl, by rw [e1]; exact a, ?_, ?_⟩
    · rw [ew.wall]; show dl + (st.slept + dt) = s.wall + dt + p.ttl + sinceOf st q; omega
    · intro hl
      rw [ew.rev]
      rcases ew.sup _ (d hl) with h | ⟨dl', a', b'⟩
      · exact h
      · have : s.phase q = .waiting dl' := a'
        rw [a] at this; injection this with this; subst this
        exact absurd b' e2

end Eru.Lock.Spec
namespace Eru.Lock.Spec
open Eru.Lock

/-- the etcd model's own results never violate the spec (timing flags: none) -/
theorem je_step {p : Etcd.Params} (iv : Nat) {st : SpecSt} {s : Etcd.State} (g : Etcd.Good p s) (j : JE p st s)
    (c : Etcd.Cmd) :
    JE p (specStep false p.ttl p.ttl iv st (ofEtcd c) (classEtcd (Etcd.exec p.ttl s c).2) .none) (Etcd.exec p.ttl s c).1 := by
  have inv := Etcd.inv_reach g.reach
  have same : ∀ (op : Op) (i : Nat), isAcq op = true →
      JE p (specStep false p.ttl p.ttl iv st ⟨op, i, 0⟩ .other .none) s := by
    intro op i hop; rw [specStep_other _ _ _ _ _ _ _ hop]; exact j
  -- the acquiring client becomes the owner at once
  have acqA : ∀ (op : Op) (i : Nat) (m : Etcd.Mode), isAcq op = true → op ≠ .join →
      s.phase i = .idle → s.leaseAlive i = true →
      (Etcd.acquire p.ttl s i m).phase i = .holding →
      JE p (specStep false p.ttl p.ttl iv st ⟨op, i, 0⟩ .acquired .none) (Etcd.acquire p.ttl s i m) := by
    intro op i m hop hnj hidle hlease hph
    have hj : (op == Op.join) = false := by
      rcases op_of op hop hnj with h | h | h <;> subst h <;> rfl
    rw [specStep_acq _ _ _ _ _ _ _ hop, hj]
    simp only [Bool.false_eq_true, if_false]
    have hnot : s.phase i ≠ .holding := by rw [hidle]; intro e; cases e
    have hnl : i ∉ st.lost := fun hm => by have := j.lostDead i hm; rw [hlease] at this; cases this
    have hnew := not_holder_of_phase j i hnot
    have ga := Etcd.good_acquire g i m hidle hlease
    refine je_acquired j ga.reach i hnot hph (by rw [Etcd.acquire_leaseAlive]; exact hlease) hnl
      (Etcd.acquire_leaseAlive _ _ _ _)
      (fun k hk => ⟨Etcd.acquire_phase_other _ _ _ _ hk, Etcd.acquire_ctx_other _ _ _ _ hk⟩) ?_
      (by simp [onAcquired, hnew]) rfl (by simp [onAcquired]) (by simp [onAcquired]) ?_
    · intro k hk
      rw [Etcd.acquire_keys] at hk
      rcases List.mem_append.mp hk with h | h
      · exact Or.inr h
      · simp at h; subst h; exact Or.inl rfl
    · intro q hq hs
      have hq' : q ∈ st.queued ∧ q ≠ i := by
        simp only [onAcquired, List.mem_filter, bne_iff_ne, ne_eq] at hq; exact hq
      have hs' : q ∉ st.stale := by simpa [onAcquired] using hs
      have := pendE_frame (s' := Etcd.acquire p.ttl s i m) j i (Etcd.acquire_wall _ _ _ _)
        (fun k hk => ⟨Etcd.acquire_phase_other _ _ _ _ hk, by rw [Etcd.acquire_myRev, Etcd.upd_other _ _ hk]⟩)
        (fun k hk _ => by rw [Etcd.acquire_keys]; exact List.mem_append.mpr (Or.inl hk)) q hq'.1 hq'.2 hs'
      simpa [onAcquired, sinceOf] using this
  -- a refused client that leaves nothing behind
  have refusedDrop : ∀ (op : Op) (i : Nat) (m : Etcd.Mode) (w : Nat), (op = .lock ∨ op = .tryLock) →
      s.phase i = .idle → Etcd.oldest (s.keys ++ [(i, s.rev + 1)]) (s.rev + 1) = false →
      (op = .tryLock → w = s.wall) →
      JE p (specStep false p.ttl p.ttl iv st ⟨op, i, 0⟩ .refused .none)
        (Etcd.abandon { Etcd.acquire p.ttl s i m with wall := w } i) := by
    intro op i m w hop hidle hno hw
    have hnot : s.phase i ≠ .holding := by rw [hidle]; intro e; cases e
    have hex := excused_not_wrong p.ttl p.ttl iv st ⟨op, i, 0⟩ (notOldest_excuses j inv i hidle hno)
    obtain ⟨f1, f2, f3, f4, f5⟩ := acq_abandon_frame p.ttl s i m w
    have hac : isAcq op = true := by rcases hop with h | h <;> subst h <;> rfl
    simp only [specStep, hac, refusedViol_noneE _ _ _ _ _ hex, List.append_nil]
    refine je_dropped j i hnot f1 (fun k hk => ⟨(f2 k hk).1, (f2 k hk).2.1⟩) f3 rfl rfl j.clean
      (fun q hq hne => List.mem_filter.mpr ⟨hq, by simpa using hne⟩) ?_
    intro q hq hs
    obtain ⟨hq1, hq2⟩ := List.mem_filter.mp hq
    have hne : q ≠ i := by simpa using hq2
    rcases hop with h | h
    · subst h
      simp only [consumesTime, if_true] at hs
      exact absurd (List.mem_append.mpr (Or.inl hq)) hs
    · subst h
      simp only [consumesTime, Bool.false_eq_true, if_false] at hs
      have := pendE_frame (s' := Etcd.abandon { Etcd.acquire p.ttl s i m with wall := w } i) j i (by rw [f5]; exact hw rfl)
        (fun k hk => ⟨(f2 k hk).1, (f2 k hk).2.2⟩) f4 q hq1 hne hs
      simpa [sinceOf] using this
  cases c with
  | lock i =>
    simp only [Etcd.exec, ofEtcd]
    split
    · rename_i hg
      have hl : s.leaseAlive i = true := by simpa using hg.2
      rcases Etcd.acquire_self p.ttl s i .lock with ⟨_, hp, _⟩ | ⟨hno, _, _, ⟨hm, _⟩ | ⟨_, hp⟩⟩
      · simp only [hp]; exact acqA .lock i .lock rfl (by intro h; cases h) hg.1 hl hp
      · cases hm
      · simp only [hp]
        have := refusedDrop .lock i .lock ((Etcd.acquire p.ttl s i .lock).wall + p.ttl) (Or.inl rfl) hg.1 hno (by intro h; cases h)
        exact this
    · exact same .lock i rfl
  | tryLock i =>
    simp only [Etcd.exec, ofEtcd]
    split
    · rename_i hg
      have hl : s.leaseAlive i = true := by simpa using hg.2
      rcases Etcd.acquire_self p.ttl s i .try with ⟨_, hp, _⟩ | ⟨hno, _, _, ⟨_, hp⟩ | ⟨hm, _⟩⟩
      · simp only [hp]; exact acqA .tryLock i .try rfl (by intro h; cases h) hg.1 hl hp
      · simp only [hp]
        have := refusedDrop .tryLock i .try (Etcd.acquire p.ttl s i .try).wall (Or.inr rfl) hg.1 hno
          (fun _ => Etcd.acquire_wall _ _ _ _)
        exact this
      · cases hm
    · exact same .tryLock i rfl
  | lockAsync i =>
    simp only [Etcd.exec, ofEtcd]
    split
    · rename_i hg
      have hl : s.leaseAlive i = true := by simpa using hg.2
      have hidle := hg.1
      rcases Etcd.acquire_self p.ttl s i .lock with ⟨_, hp, _⟩ | ⟨hno, hlk, hcx, ⟨hm, _⟩ | ⟨_, hp⟩⟩
      · simp only [hp]; exact acqA .lockAsync i .lock rfl (by intro h; cases h) hidle hl hp
      · cases hm
      · -- queued behind an older key
        simp only [hp]
        show JE p (specStep false p.ttl p.ttl iv st ⟨.lockAsync, i, 0⟩ .blocked .none) (Etcd.acquire p.ttl s i .lock)
        have hnot : s.phase i ≠ .holding := by rw [hidle]; intro e; cases e
        have hnl : i ∉ st.lost := fun hm => by have := j.lostDead i hm; rw [hl] at this; cases this
        have hex := notOldest_excuses j inv i hidle hno
        have hv : (if (liveOthers false p.ttl st i).isEmpty && !(!(st.queued.filter (· != i)).isEmpty) then [tagBlocked] else []) = ([] : List String) := by
          rcases hex with h | h <;> simp [h]
        simp only [specStep, isAcq, hv, List.append_nil]
        refine ⟨?_, ?_, ?_, ?_, j.clean⟩
        · intro h hh
          obtain ⟨a, b, d⟩ := j.hold h hh
          have hne : h.1 ≠ i := by intro e; rw [e] at a; exact hnot a
          exact ⟨by rw [Etcd.acquire_phase_other _ _ _ _ hne]; exact a, by rw [Etcd.acquire_leaseAlive]; exact b,
            by rw [Etcd.acquire_ctx_other _ _ _ _ hne]; exact d⟩
        · intro x hx; rw [Etcd.acquire_leaseAlive]; exact j.lostDead x hx
        · intro k hk
          rw [Etcd.acquire_keys] at hk
          rcases List.mem_append.mp hk with h | h
          · have hne : k.1 ≠ i := inv.k4 i hidle k h
            rcases j.keys k h with ⟨a, b, d⟩ | ⟨⟨dl, a⟩, b⟩
            · left; exact ⟨by rw [Etcd.acquire_phase_other _ _ _ _ hne]; exact a, b, d⟩
            · right; exact ⟨⟨dl, by rw [Etcd.acquire_phase_other _ _ _ _ hne]; exact a⟩, List.mem_cons_of_mem _ b⟩
          · simp at h; subst h
            right; exact ⟨⟨_, hp⟩, List.mem_cons_self⟩
        · intro q hq hs
          by_cases hqi : q = i
          · rw [hqi]
            refine ⟨_, hp, ?_, fun _ => ?_⟩
            · rw [sinceOf_cons_self _ i st.slept st.since rfl, Etcd.acquire_wall]
            · rw [Etcd.acquire_keys, Etcd.acquire_myRev, Etcd.upd_same]
              exact List.mem_append.mpr (Or.inr (by simp))
          · have hq' : q ∈ st.queued := (List.mem_cons.mp hq).resolve_left hqi
            have hs' : q ∉ st.stale := fun hm => hs (List.mem_filter.mpr ⟨hm, by simpa using hqi⟩)
            have := pendE_frame (s' := Etcd.acquire p.ttl s i .lock) j i (Etcd.acquire_wall _ _ _ _)
              (fun k hk => ⟨Etcd.acquire_phase_other _ _ _ _ hk, by rw [Etcd.acquire_myRev, Etcd.upd_other _ _ hk]⟩)
              (fun k hk _ => by rw [Etcd.acquire_keys]; exact List.mem_append.mpr (Or.inl hk)) q hq' hqi hs'
            rw [sinceOf_cons_other st _ i q st.slept rfl hqi]
            exact this
    · exact same .lockAsync i rfl
  | join i => exact je_join iv g j i
  | unlock i => exact je_unlock iv g j i
  | sleep dt => exact je_sleep iv g j dt
  | revoke i => exact je_revoke iv g j i
  | observe i => exact je_observe iv g j i
  | cancelCtx i =>
    have hspec : ∀ r, (specStep false p.ttl p.ttl iv st ⟨.unknown, i, 0⟩ r .none) = st := by
      intro r; cases r <;> simp [specStep, isAcq]
    simp only [Etcd.exec, ofEtcd, hspec]
    exact j

end Eru.Lock.Spec

namespace Eru.Lock.Spec
open Eru.Lock

/-- the spec run over the etcd model's own replay (no timing flags) -/
def specReplayEtcd (p : Etcd.Params) (iv : Nat) : SpecSt → Etcd.State → List Etcd.Cmd → SpecSt
  | st, _, [] => st
  | st, s, c :: cs =>
    let r := Etcd.exec p.ttl s c
    specReplayEtcd p iv (specStep false p.ttl p.ttl iv st (ofEtcd c) (classEtcd r.2) .none) r.1 cs

theorem je_replay {p : Etcd.Params} (iv : Nat) : ∀ (cs : List Etcd.Cmd) (st : SpecSt) (s : Etcd.State),
    JE p st s → Etcd.Good p s → (specReplayEtcd p iv st s cs).viol = [] := by
  intro cs
  induction cs with
  | nil => intro st s j _; exact j.clean
  | cons c cs ih =>
    intro st s j g
    simp only [specReplayEtcd]
    exact ih _ _ (je_step iv g j c) (Etcd.exec_good g c)

theorem je_init (p : Etcd.Params) : JE p {} Etcd.init :=
  ⟨fun h hh => (by cases hh), fun c hc => (by cases hc), fun k hk => (by simp [Etcd.init] at hk),
   fun c hc => (by cases hc), rfl⟩

/-- the model of the chained lock contexts never leaves a lost lock unsignalled -/
theorem multiKey_model_meets_spec (lost : List Bool) :
    multiKeyViol lost (Ctx.seen false lost == .live) false = [] := by
  unfold multiKeyViol
  have : (Ctx.seen false lost == Ctx.Seen.live && lost.any id) = false := by
    cases ha : lost.any id with
    | false => simp
    | true =>
      simp only [Bool.and_true]
      have hcb : Ctx.callbackCtx false lost = true := by
        have : ∀ (c : Bool) (l : List Bool), l.any id = true → l.foldl Ctx.lockCtx c = true := by
          intro c l
          induction l generalizing c with
          | nil => intro h; cases h
          | cons x xs ih =>
            intro h
            simp only [List.any_cons, id, Bool.or_eq_true] at h
            simp only [List.foldl_cons]
            rcases h with h | h
            · have : ∀ (l : List Bool), l.foldl Ctx.lockCtx true = true := by
                intro l; induction l with
                | nil => rfl
                | cons y ys ih => simp only [List.foldl_cons, Ctx.lockCtx, Bool.true_or]; exact ih
              rw [show Ctx.lockCtx c x = true by simp [Ctx.lockCtx, h]]
              exact this xs
            · exact ih _ h
        exact this false lost ha
      unfold Ctx.seen
      split
      · rfl
      · simp [hcb]
  rw [this]; rfl

end Eru.Lock.Spec
