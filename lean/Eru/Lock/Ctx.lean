/-
Model of how `withNodesLocked` / `withWorkloadsLocked` (cluster/calcium/lock.go) thread the lock
contexts (C19): `lock, ctx, err = c.doLock(ctx, key, …)` in a loop, then `f(ctx, …)`.  Each lock
context is derived from the previous one, so the callback's context sits below every lock's context.
A context is cancelled when its parent is, or — etcd lock context, `Etcd.watch` — when its own lock
is lost while held.
-/
namespace Eru.Lock.Ctx

/-- one lock context: cancelled iff the parent is cancelled or this lock was lost -/
def lockCtx (parentCancelled lost : Bool) : Bool := parentCancelled || lost

/-- the context handed to the callback after acquiring the locks in order (`lost[i]`: lock i lost) -/
def callbackCtx (caller : Bool) (lost : List Bool) : Bool := lost.foldl lockCtx caller

/-- what the callback observes: which error its own context reports -/
inductive Seen where
  | live | sessionDone | cancelled
  deriving Repr, DecidableEq

/-- the callback's context is the LAST lock's context: `ErrLockSessionDone` when that lock itself was
    lost, plain cancellation when an earlier lock (or the caller) was -/
def seen (caller : Bool) (lost : List Bool) : Seen :=
  if lost.getLast?.getD false then .sessionDone
  else if callbackCtx caller lost then .cancelled else .live

end Eru.Lock.Ctx
