/-
Model of the etcd lock protocol (C18, C19).

* `/repo/lock/etcdlock/mutex.go` `Mutex` (created per call by `store/etcdv3/meta/etcd.go`
  `CreateLock(key, ttl)`: own session = own lease with TTL `ttl`, wait timeout `ttl`) on top of
  `go.etcd.io/etcd/client/v3/concurrency.Mutex`:
  `tryAcquire` — one Txn: put `pfx/<lease>` bound to the lease (gets the next revision as its create
  revision) and read the oldest key under `pfx`; owner = oldest live key.
  `TryLock` — not owner → delete own key, `ErrLocked`.  `Lock` — not owner → `waitDeletes` until no key
  with a smaller create revision is left, then re-read own key (`ErrSessionExpired` if it is gone);
  wait deadline → delete own key, error.  `Unlock` — `locked = false`, delete own key if still owner,
  close the session (revokes the lease).  `Lock`/`TryLock` return a context and start a watcher:
  when `session.Done()` fires while `locked`, the context gets `ErrLockSessionDone` and is cancelled.
* Environment (modelled, not verified): etcd gives every put a fresh, increasing revision; a lease
  that expires or is revoked deletes its keys atomically; `session.Done()` fires within one keepalive
  interval `K` (= TTL/3) after the lease is lost and the watcher goroutine then runs (urgency of
  `tick`).

Unboundedly many clients (lock objects, one Lock/TryLock … Unlock each); `Step` interleaves
their atomic etcd calls, lease losses and watcher steps in every possible way.
-/
namespace Eru.Lock.Etcd

inductive Mode where
  | lock | try
  deriving Repr, DecidableEq

inductive Phase where
  | idle
  | tryFailing                 -- TryLock saw an older key, has not yet deleted its own
  | waiting (deadline : Nat)   -- Lock inside waitDeletes
  | holding                    -- Lock/TryLock returned nil error, Unlock not yet called
  | failed
  | done
  deriving Repr, DecidableEq

inductive Ctx where
  | none | live | cancelled
  deriving Repr, DecidableEq

structure State where
  rev : Nat
  keys : List (Nat × Nat)        -- live keys under the prefix: (client, create revision)
  wall : Nat
  phase : Nat → Phase
  mode : Nat → Mode
  myRev : Nat → Nat
  leaseAlive : Nat → Bool
  locked : Nat → Bool            -- Mutex.locked
  ctx : Nat → Ctx                -- the context returned by Lock/TryLock
  lostAt : Nat → Option Nat      -- when the lease was lost (expiry/revocation, not Unlock)

def init : State :=
  { rev := 0, keys := [], wall := 0, phase := fun _ => .idle, mode := fun _ => .lock, myRev := fun _ => 0,
    leaseAlive := fun _ => true, locked := fun _ => false, ctx := fun _ => .none, lostAt := fun _ => none }

def upd {α : Type} (f : Nat → α) (i : Nat) (v : α) : Nat → α := fun j => if j = i then v else f j

def dropKeys (i : Nat) (keys : List (Nat × Nat)) : List (Nat × Nat) := keys.filter fun k => k.1 != i

/-- the key with create revision `r` is the oldest -/
def oldest (keys : List (Nat × Nat)) (r : Nat) : Bool := keys.all fun k => r ≤ k.2

/-- `tryAcquire` + the owner test of `Lock`/`TryLock` -/
def acquire (ttl : Nat) (s : State) (i : Nat) (m : Mode) : State :=
  let r := s.rev + 1
  let keys := s.keys ++ [(i, r)]
  let s1 := { s with rev := r, keys := keys, myRev := upd s.myRev i r, mode := upd s.mode i m }
  if oldest keys r then
    { s1 with phase := upd s.phase i .holding, locked := upd s.locked i true, ctx := upd s.ctx i .live }
  else match m with
    | .try => { s1 with phase := upd s.phase i .tryFailing }
    | .lock => { s1 with phase := upd s.phase i (.waiting (s.wall + ttl)) }

/-- `waitDeletes` returned (no older key is left): re-read own key -/
def waitDone (s : State) (i : Nat) : State :=
  if s.keys.contains (i, s.myRev i) then
    { s with phase := upd s.phase i .holding, locked := upd s.locked i true, ctx := upd s.ctx i .live }
  else { s with phase := upd s.phase i .failed }

/-- delete own key and fail (TryLock not owner; Lock wait deadline) -/
def abandon (s : State) (i : Nat) : State :=
  { s with keys := dropKeys i s.keys, phase := upd s.phase i .failed }

/-- `Unlock`: locked = false, delete own key if owner, close the session -/
def unlock (s : State) (i : Nat) : State :=
  { s with keys := dropKeys i s.keys, phase := upd s.phase i .done, locked := upd s.locked i false,
           leaseAlive := upd s.leaseAlive i false }

/-- the lease expires or is revoked: its keys vanish -/
def loseLease (s : State) (i : Nat) : State :=
  { s with keys := dropKeys i s.keys, leaseAlive := upd s.leaseAlive i false, lostAt := upd s.lostAt i (some s.wall) }

/-- watcher goroutine after `session.Done()`: cancels the lock context if still `locked` -/
def watch (s : State) (i : Nat) : State := { s with ctx := upd s.ctx i .cancelled }

/-- a client whose lease is lost while it believes it holds the lock and whose context is live -/
def pendingLoss (s : State) (i : Nat) (t : Nat) : Prop :=
  s.ctx i = .live ∧ s.locked i = true ∧ s.lostAt i = some t

structure Params where
  ttl : Nat
  keepalive : Nat

inductive Step (p : Params) : State → State → Prop
  | acquire (s i m) : s.phase i = .idle → s.leaseAlive i = true → Step p s (acquire p.ttl s i m)
  | tryDelete (s i) : s.phase i = .tryFailing → Step p s (abandon s i)
  | waitDone (s i dl) : s.phase i = .waiting dl → (∀ k ∈ s.keys, ¬ k.2 < s.myRev i) → Step p s (waitDone s i)
  | timeout (s i dl) : s.phase i = .waiting dl → dl ≤ s.wall → Step p s (abandon s i)
  | unlock (s i) : s.phase i = .holding ∨ s.phase i = .failed → Step p s (unlock s i)
  | loseLease (s i) : s.leaseAlive i = true → Step p s (loseLease s i)
  | watch (s i) : s.leaseAlive i = false → s.ctx i = .live → s.locked i = true → Step p s (watch s i)
  | tick (s) : (∀ i t, pendingLoss s i t → s.wall + 1 ≤ t + p.keepalive) → Step p s { s with wall := s.wall + 1 }

/-- **WithinLease**: the lease of a client that holds the lock is not lost -/
inductive StepWL (p : Params) : State → State → Prop
  | step {s s'} : Step p s s' → (∀ i, s' = loseLease s i → s.phase i ≠ .holding) → StepWL p s s'

inductive Reach (p : Params) : State → Prop
  | init : Reach p init
  | step {s s'} : Reach p s → Step p s s' → Reach p s'

inductive ReachWL (p : Params) : State → Prop
  | init : ReachWL p init
  | step {s s'} : ReachWL p s → StepWL p s s' → ReachWL p s'

/-! ### schedule replay (oracle side) -/

inductive Cmd where
  | lock (i : Nat) | tryLock (i : Nat) | unlock (i : Nat)
  | lockAsync (i : Nat) | join (i : Nat)
  | sleep (dt : Nat)      -- real time passes; waiters whose deadline passes give up
  | revoke (i : Nat)      -- the harness revokes the client's lease
  | observe (i : Nat)     -- wait one keepalive interval, then read the client's lock context
  | cancelCtx (i : Nat)   -- the context that was passed to client i's Lock/TryLock is cancelled or times out
  deriving Repr

inductive Res where
  | acquired | locked | timeout | sessionExpired | unlocked | blocked | revoked | ctxLive | ctxCancelled | ctxNone | misuse | slept | done
  deriving Repr, DecidableEq

def Res.str : Res → String
  | .acquired => "acquired" | .locked => "locked" | .timeout => "timeout" | .sessionExpired => "session-expired"
  | .unlocked => "unlocked" | .blocked => "blocked" | .revoked => "revoked" | .ctxLive => "ctx-live"
  | .ctxCancelled => "ctx-session-done" | .ctxNone => "ctx-none" | .misuse => "misuse" | .slept => "slept" | .done => "done"

def noOlder (s : State) (i : Nat) : Bool := s.keys.all fun k => !(decide (k.2 < s.myRev i))

/-- waiters (they all have a key in the queue) whose deadline has passed delete their key and fail -/
def expireWaiters (s : State) : State :=
  (s.keys.map (·.1)).foldl (fun st i =>
    match st.phase i with
    | .waiting dl => if dl ≤ st.wall then abandon st i else st
    | _ => st) s

def exec (ttl : Nat) (s : State) : Cmd → State × Res
  | .lock i =>
    if s.phase i = .idle ∧ s.leaseAlive i then
      let s1 := acquire ttl s i .lock
      match s1.phase i with
      | .holding => (s1, .acquired)
      | _ => (abandon { s1 with wall := s1.wall + ttl } i, .timeout)   -- nobody else moves: runs into its deadline
    else (s, .misuse)
  | .tryLock i =>
    if s.phase i = .idle ∧ s.leaseAlive i then
      let s1 := acquire ttl s i .try
      match s1.phase i with
      | .holding => (s1, .acquired)
      | _ => (abandon s1 i, .locked)
    else (s, .misuse)
  | .unlock i =>
    match s.phase i with
    | .holding => (unlock s i, .unlocked)
    | .failed => (unlock s i, .unlocked)
    | _ => (s, .misuse)
  | .lockAsync i =>
    if s.phase i = .idle ∧ s.leaseAlive i then
      let s1 := acquire ttl s i .lock
      (s1, match s1.phase i with | .holding => .acquired | _ => .blocked)
    else (s, .misuse)
  | .join i =>
    match s.phase i with
    | .waiting dl =>
      if noOlder s i then
        let s1 := waitDone s i
        (s1, match s1.phase i with | .holding => .acquired | _ => .sessionExpired)
      else (abandon { s with wall := max s.wall dl } i, .timeout)
    | .failed => (s, .timeout)   -- its deadline passed during an earlier `sleep`
    | _ => (s, .misuse)
  | .sleep dt => (expireWaiters { s with wall := s.wall + dt }, .slept)
  | .revoke i =>
    if s.leaseAlive i then
      -- the lease is gone; within one keepalive interval session.Done() fires and the watcher runs.
      -- Nothing but `observe` reads the context, so the watcher step is taken right away (this also
      -- keeps the urgency guard of `tick` from ever blocking the time jumps of later commands)
      let s1 := loseLease s i
      (if s1.ctx i = .live ∧ s1.locked i = true then watch s1 i else s1, .revoked)
    else (s, .revoked)
  | .observe i =>
    (s, match s.ctx i with | .live => .ctxLive | .cancelled => .ctxCancelled | .none => .ctxNone)
  -- the end of the acquiring context makes the watcher goroutine return; it is NOT a release: the key
  -- and the session stay until Unlock (calcium rolls back under a fresh context before unlocking)
  | .cancelCtx _ => (s, .done)

def replay (ttl : Nat) : State → List Cmd → List Res
  | _, [] => []
  | s, c :: cs => let r := exec ttl s c; r.2 :: replay ttl r.1 cs

def replayHolders (ttl : Nat) (n : Nat) : State → List Cmd → List (List Nat)
  | _, [] => []
  | s, c :: cs => let r := exec ttl s c
    ((List.range n).filter fun i => r.1.phase i == .holding && r.1.leaseAlive i) :: replayHolders ttl n r.1 cs

end Eru.Lock.Etcd
