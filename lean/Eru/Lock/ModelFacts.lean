import Eru.Lock.Filter
import Eru.Lock.Order
import Eru.Lock.Redis
/-
The crisp, predicate-shaped pieces of the lock group's models in the models' own words, each proved to
be what the model really uses.  `Eru/Generated/LockFacts.lean` (regenerated from /repo's source text on
every run by translator/lock.json) proves that the Go source still says the same.  Core Lean only.
-/
namespace Eru.Lock.Facts
open Eru Eru.Lock

/-! ### lock names (cluster/cluster.go) — C20 -/
def podLockFormat : String := "plock_%s"
def workloadLockFormat : String := "clock_%s"
def nodeOpLockFormat : String := "cnode_op_%s_%s"

theorem podLockFormat_is_model : podLockFormat = groupPrefix gPod ++ "%s" := by decide
theorem workloadLockFormat_is_model : workloadLockFormat = groupPrefix gWorkload ++ "%s" := by decide
/-- `fmt.Sprintf(NodeOperationLock, node.Podname, node.Name)` = prefix ++ pod ++ "_" ++ name -/
theorem nodeOpLockFormat_is_model : nodeOpLockFormat = groupPrefix gNodeOp ++ "%s" ++ "_" ++ "%s" := by decide
theorem nodeOpKeyName_is_model (n : Node) : nodeOpKeyName n = n.pod ++ "_" ++ n.name := rfl
theorem render_is_model (k : Key) : k.render = groupPrefix k.group ++ k.name := rfl

/-! ### Redis retry interval (lock/redis/lock.go `redislock.LinearBackoff(500 * time.Millisecond)`) — C18 -/
def redisRetryIntervalMs : Nat := 500
/-- the parameters the oracle replays Redis schedules with -/
def redisParams (ttl wait : Nat) : Redis.Params := ⟨ttl, wait, redisRetryIntervalMs⟩
theorem redisParams_interval (ttl wait : Nat) : (redisParams ttl wait).interval = redisRetryIntervalMs := rfl

/-! ### key normalisation of both lock packages (`New`) — C18: one key string, one lock -/
def hasPrefix (s p : String) : Bool := s.startsWith p
def keyEmpty (key : String) : Bool := key == ""
def keyLacksSlash (key : String) : Bool := !(hasPrefix key "/")
/-- what `lock/redis.New` and `lock/etcdlock.New` both do to the key -/
def normalizeKey (key : String) : Option String :=
  if keyEmpty key then none else if keyLacksSlash key then some ("/" ++ key) else some key

theorem normalizeKey_rejects_only_empty (key : String) : normalizeKey key = none ↔ key = "" := by
  unfold normalizeKey keyEmpty
  by_cases h : key = ""
  · simp [h]
  · simp [h]; split <;> simp
example : normalizeKey "" = none := by decide

/-! ### node selection (cluster/calcium/node.go filterNodes) — C21 -/
/-- the `sort.SliceStable` comparator -/
def nameLess (a b : Node) : Bool := a.name < b.name
/-- the duplicate test of the compaction loop: not the first node, and same name as the last kept one -/
def dupOfPrev (notFirst : Bool) (name prevName : String) : Bool := notFirst && name == prevName

theorem sortByName_is_model (ns : List Node) : sortByName ns = isortBy (fun a b => !nameLess b a) ns := by
  unfold sortByName nameLess
  congr 1
  funext a b
  by_cases h : b.name < a.name
  · have : ¬ a.name ≤ b.name := fun hle => hle h
    simp [h, this]
  · have : a.name ≤ b.name := h
    simp [h, this]

theorem dedupAdjBy_is_model {α : Type} (key : α → String) (last : Option String) (x : α) (xs : List α) :
    dedupAdjBy key last (x :: xs) =
      if dupOfPrev last.isSome (key x) (last.getD "") then dedupAdjBy key last xs
      else x :: dedupAdjBy key (some (key x)) xs := by
  cases last with
  | none => simp [dedupAdjBy, dupOfPrev]
  | some k => simp [dedupAdjBy, dupOfPrev]

/-! ### utils.Unique (utils/generics.go) — C21, C20 -/
/-- the skip test of the loop: `getVal(i) == lastVal && i != 0` -/
def uniqSkip (v lastVal : String) (i : Int) : Bool := v == lastVal && i != 0
/-- `slices.Sort(s)` is the first thing `Unique` does -/
def uniqueSortsFirst : Bool := true

theorem uniqLoop_is_model (s : Array String) (i j : Nat) (last : String) (h : i < s.size) :
    uniqLoop s i j last =
      if uniqSkip s[i] last i then uniqLoop s (i + 1) j last
      else uniqLoop (s.swapIfInBounds i j) (i + 1) (j + 1) s[i] := by
  rw [uniqLoop]
  simp only [h, dite_true, uniqSkip]
  by_cases h1 : s[i] = last <;> by_cases h2 : i = 0 <;> simp [h1, h2] <;> omega

theorem uniqueGo_is_model (s : Array String) :
    uniqueGo s = uniqLoop (if uniqueSortsFirst then sortStrings s.toList else s.toList).toArray 0 0 "" := rfl

/-! ### lock keys / workload ids are sorted before `Unique` (cluster/calcium/lock.go) — C20 -/
def nodeKeysSorted : Bool := true
def workloadIdsSorted : Bool := true

theorem sortUnique_is_model (xs : List String) :
    sortUnique xs = ((uniqueGo (if nodeKeysSorted then sortStrings xs else xs).toArray).1.toList.take
      (uniqueGo (if nodeKeysSorted then sortStrings xs else xs).toArray).2) := rfl

theorem withNodesLocked_is_model (g : Nat) (genName : Node → String) (w : World) (nf : NodeFilter)
    (body : List Node → Trace) (ns : List Node) (h : filterNodes w.nodes nf = .ok ns) :
    withNodesLocked g genName w nf body =
      ((sortUnique (ns.map genName)).map (Key.mk g)).map .acq ++ body ns ++
        ((sortUnique (ns.map genName)).map (Key.mk g)).reverse.map .rel := by
  unfold withNodesLocked; rw [h]

theorem withWorkloadsLocked_sorts (w : World) (ids : List String) (body : Trace) :
    withWorkloadsLocked w true ids body =
      (match getWorkloads w (if workloadIdsSorted then sortUnique ids else ids) with | none => [] | some _ => body) := by
  unfold withWorkloadsLocked
  simp only [workloadIdsSorted, if_true]
  cases getWorkloads w (sortUnique ids) <;> rfl

end Eru.Lock.Facts
