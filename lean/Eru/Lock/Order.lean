import Eru.Lock.Filter
/-
Model of the lock discipline of cluster operations (C20).

* `/repo/cluster/cluster.go`: lock names `plock_<pod>` (group 0), `clock_<workload id>` (group 1),
  `cnode_op_<pod>_<node>` (group 2).  Keys are modelled structurally (`group`, `name`); the rank
  of a key is `(group, name)` ordered lexicographically.  Inside one group the Go code sorts the
  *formatted* strings, which share the group's prefix, so their order is the order of the names.
* `/repo/cluster/calcium/lock.go` after the D10 `fix:` commit: `withNodesLocked` (filterNodes, keys
  sorted + `Unique`, locked in that order, unlocked in reverse), `withWorkloadsLocked` (ids sorted +
  `Unique`, `GetWorkloads`, locked in the order of the store's answer), `withNodePodLocked`,
  `withNodeOperationLocked`, `withWorkloadLocked`.
* the lock episodes of every cluster operation kind (which helper is nested in which):
  create.go, capacity.go, pod.go, node.go, resource.go, remove.go, dissociate.go, realloc.go,
  control.go, send.go, sendlarge.go, replace.go, raw_engine.go, remap.go.
  An *episode* starts and ends holding nothing; goroutines started with `pool.Invoke` that are not
  waited for while a lock is held (remap) are episodes of their own.

A trace is a list of `acq k` / `rel k` events in program order.  Failed acquisitions (wait
timeout) end an episode early with the deferred unlocks — a prefix of the acquisitions followed
by releases, which is covered by the same discipline (`failTrunc`, `failTrunc_ok` in ProofsOrder).
-/
namespace Eru.Lock

inductive Ev (K : Type) where
  | acq (k : K)
  | rel (k : K)
  deriving Repr, DecidableEq

section generic
variable {K : Type} [DecidableEq K] (lt : K → K → Bool) (extra : List K → K → Bool)

/-- one event against the held set: an acquisition must be above everything held (and pass the
    extra rule), a release must concern a held lock -/
def stepOK (held : List K) : Ev K → Option (List K)
  | .acq k => if held.all (fun h => lt h k) && extra held k then some (k :: held) else none
  | .rel k => if k ∈ held then some (held.erase k) else none

def run (held : List K) : List (Ev K) → Option (List K)
  | [] => some held
  | e :: es => match stepOK lt extra held e with
    | none => none
    | some h' => run h' es

/-- the decidable discipline: from an empty held set every event is allowed and the trace ends
    holding nothing -/
def wellOrdered (t : List (Ev K)) : Bool := run lt extra [] t == some []
end generic

structure Key where
  group : Nat
  name : String
  deriving Repr, DecidableEq, Inhabited

def gPod : Nat := 0
def gWorkload : Nat := 1
def gNodeOp : Nat := 2

/-- the prefix of the formatted lock name of a group (`cluster.PodLock`, `WorkloadLock`,
    `NodeOperationLock` without their `%s` verbs; tied to the source by Generated/LockFacts) -/
def groupPrefix (g : Nat) : String :=
  if g == gPod then "plock_" else if g == gWorkload then "clock_" else if g == gNodeOp then "cnode_op_" else ""

/-- the formatted lock name as the store sees it -/
def Key.render (k : Key) : String := groupPrefix k.group ++ k.name

/-- global rank order: (group, name) lexicographic -/
def keyLt (a b : Key) : Bool := decide (a.group < b.group) || (a.group == b.group && decide (a.name < b.name))

/-- node-operation locks are taken only while holding nothing but node-operation locks -/
def nodeOpRule (held : List Key) (k : Key) : Bool := k.group != gNodeOp || held.all (·.group == gNodeOp)

abbrev Trace := List (Ev Key)

def traceOK (t : Trace) : Bool := wellOrdered keyLt nodeOpRule t

/-- clauses violated by a recorded trace (oracle side) -/
def traceViolations (t : Trace) : List String :=
  if traceOK t then [] else
  match run keyLt (fun _ _ => true) [] t with
  | none => ["C20:order"]
  | some [] => ["C20:node-op-while-holding"]
  | some _ => ["C20:unbalanced"]

/-- store content relevant to locking: nodes and (workload id, node name) -/
structure World where
  nodes : List Node
  workloads : List (String × String)
  deriving Repr, Inhabited

/-- `withNodesLocked(nodeFilter, genKey, f)`; `body` = trace of `f` given the selected nodes -/
def withNodesLocked (g : Nat) (genName : Node → String) (w : World) (nf : NodeFilter)
    (body : List Node → Trace) : Trace :=
  match filterNodes w.nodes nf with
  | .ok ns =>
    let keys := (sortUnique (ns.map genName)).map (Key.mk g)
    keys.map .acq ++ body ns ++ keys.reverse.map .rel
  | _ => []

def podKeyName (n : Node) : String := n.pod
def nodeOpKeyName (n : Node) : String := n.pod ++ "_" ++ n.name

def withNodesPodLocked (w : World) (nf : NodeFilter) (body : List Node → Trace) : Trace :=
  withNodesLocked gPod podKeyName w nf body

def withNodesOperationLocked (w : World) (nf : NodeFilter) (body : List Node → Trace) : Trace :=
  withNodesLocked gNodeOp nodeOpKeyName w nf body

def oneNode (nodename : String) : NodeFilter := { podname := "", includes := [nodename], excludes := [], labels := [], all := true }

/-- `withNodePodLocked(nodename, f)`: `f` runs only if the node is in the answer -/
def withNodePodLocked (w : World) (nodename : String) (body : Trace) : Trace :=
  withNodesPodLocked w (oneNode nodename) fun ns => if ns.any (·.name == nodename) then body else []

def withNodeOperationLocked (w : World) (nodename : String) (body : Trace) : Trace :=
  withNodesOperationLocked w (oneNode nodename) fun ns => if ns.any (·.name == nodename) then body else []

/-- `store.GetWorkloads(ids)`: all or nothing, answer in the order asked -/
def getWorkloads (w : World) (ids : List String) : Option (List (String × String)) :=
  ids.mapM fun id => w.workloads.find? (·.1 == id)

/-- `withWorkloadsLocked(ignoreLock, IDs, f)` -/
def withWorkloadsLocked (w : World) (ignoreLock : Bool) (ids : List String) (body : Trace) : Trace :=
  let ids' := sortUnique ids
  match getWorkloads w ids' with
  | none => []
  | some cs =>
    if ignoreLock then body
    else
      let keys := cs.map fun c => Key.mk gWorkload c.1
      keys.map .acq ++ body ++ keys.reverse.map .rel

def withWorkloadLocked (w : World) (id : String) (ignoreLock : Bool) : Trace :=
  withWorkloadsLocked w ignoreLock [id] []

/-- `groupWorkloadsByNode`: node ↦ ids in the order of the store's answer (nodes in first-seen
    order here; Go iterates the map in random order, the oracle compares episodes as a multiset) -/
def groupByNode (cs : List (String × String)) : List (String × List String) :=
  let nodes := (cs.map (·.2)).eraseDups
  nodes.map fun n => (n, (cs.filter (·.2 == n)).map (·.1))

inductive Op where
  | create (nf : NodeFilter) (rollback : List String) (deployed : List String)
      -- pods of the filter; then per node that got workloads a remap goroutine (node-operation lock,
      -- after the pod locks are released); on failure one pod lock per rolled-back node
  | capacity (nf : NodeFilter)                          -- CalculateCapacity
  | removePod (pod : String)
  | nodeLocked (node : String)                          -- SetNode, RemoveNode, NodeResource(fix)
  | remove (ids : List String)                          -- RemoveWorkload; also DissociateWorkload
  | realloc (id : String)
  | workloadEach (ids : List String) (ignoreLock : Bool) -- control, send, send-large, raw engine
  | replace (ids : List String)                         -- ReplaceWorkload: one workload lock each; remap goroutine on success
  | remap (node : String)
  | nodesPod (nf : NodeFilter)                          -- raw helpers (hook)
  | nodesOp (nf : NodeFilter)
  | workloads (ids : List String) (ignoreLock : Bool)
  deriving Repr, Inhabited

/-- the lock episodes of an operation -/
def episodes (w : World) : Op → List Trace
  | .create nf rollback deployed =>
    withNodesPodLocked w nf (fun _ => []) ::
      ((deployed.map fun n => withNodeOperationLocked w n []) ++ rollback.map fun n => withNodePodLocked w n [])
  | .capacity nf => [withNodesPodLocked w nf fun _ => []]
  | .removePod pod => [withNodesPodLocked w { podname := pod, includes := [], excludes := [], labels := [], all := true } fun _ => []]
  | .nodeLocked node => [withNodePodLocked w node []]
  | .remove ids =>
    match getWorkloads w ids with
    | none => []
    | some cs =>
      (groupByNode cs).flatMap fun (node, wids) =>
        [withNodePodLocked w node (wids.flatMap fun id => withWorkloadLocked w id false),
         withNodeOperationLocked w node []]
  | .realloc id =>
    match getWorkloads w [id] with
    | some [c] => [withNodePodLocked w c.2 (withWorkloadLocked w id false), withNodeOperationLocked w c.2 []]
    | _ => []
  | .workloadEach ids ignoreLock => ids.map fun id => withWorkloadLocked w id ignoreLock
  | .replace ids =>
    ids.flatMap fun id =>
      [withWorkloadLocked w id false,
       match w.workloads.find? (·.1 == id) with
       | some c => withNodeOperationLocked w c.2 []
       | none => []]
  | .remap node => [withNodeOperationLocked w node []]
  | .nodesPod nf => [withNodesPodLocked w nf fun _ => []]
  | .nodesOp nf => [withNodesOperationLocked w nf fun _ => []]
  | .workloads ids ignoreLock => [withWorkloadsLocked w ignoreLock ids []]

/-! ### a failing acquisition -/

def leadingAcqs : Trace → List Key
  | .acq k :: t => k :: leadingAcqs t
  | _ => []

/-- the episode when the `(k+1)`-th acquisition of its leading run fails (wait timeout, store
    error): `doLock` returns the error, the callback does not run, the deferred `doUnlockAll`
    releases the `k` locks taken so far -/
def failTrunc (k : Nat) (t : Trace) : Trace :=
  let ks := (leadingAcqs t).take k
  ks.map .acq ++ ks.reverse.map .rel

/-! ### lexical nesting of the lock helpers in cluster/calcium/*.go

One entry per call site: file, enclosing function, kind of the innermost enclosing helper call
(`top` = none) and kind of the helper called.  The harness re-derives this table from the source
with go/ast on every run and the oracle compares. -/
structure Site where
  file : String
  func : String
  outer : String
  inner : String
  deriving Repr, DecidableEq

def nestingTable : List Site :=
  [⟨"capacity.go", "CalculateCapacity", "top", "pod"⟩,
   ⟨"control.go", "ControlWorkload", "top", "workload"⟩,
   ⟨"create.go", "doCreateWorkloads", "top", "pod"⟩,
   ⟨"create.go", "doCreateWorkloads", "top", "pod"⟩,
   ⟨"dissociate.go", "DissociateWorkload", "pod", "workload"⟩,
   ⟨"dissociate.go", "DissociateWorkload", "top", "pod"⟩,
   ⟨"lock.go", "withNodeOperationLocked", "top", "nodeop"⟩,
   ⟨"lock.go", "withNodePodLocked", "top", "pod"⟩,
   ⟨"lock.go", "withNodesLocked", "top", "raw"⟩,
   ⟨"lock.go", "withNodesOperationLocked", "top", "raw"⟩,
   ⟨"lock.go", "withNodesPodLocked", "top", "raw"⟩,
   ⟨"lock.go", "withWorkloadLocked", "top", "workload"⟩,
   ⟨"lock.go", "withWorkloadsLocked", "top", "raw"⟩,
   ⟨"node.go", "RemoveNode", "top", "pod"⟩,
   ⟨"node.go", "SetNode", "top", "pod"⟩,
   ⟨"pod.go", "RemovePod", "top", "pod"⟩,
   ⟨"raw_engine.go", "RawEngine", "top", "workload"⟩,
   ⟨"realloc.go", "ReallocResource", "pod", "workload"⟩,
   ⟨"realloc.go", "ReallocResource", "top", "pod"⟩,
   ⟨"remap.go", "RemapResourceAndLog", "top", "nodeop"⟩,
   ⟨"remove.go", "RemoveWorkload", "pod", "workload"⟩,
   ⟨"remove.go", "RemoveWorkload", "top", "pod"⟩,
   ⟨"replace.go", "ReplaceWorkload", "top", "workload"⟩,
   ⟨"resource.go", "doGetNodeResource", "top", "pod"⟩,
   ⟨"send.go", "Send", "top", "workload"⟩,
   ⟨"sendlarge.go", "newWorkloadSender", "top", "workload"⟩]

/-- the only lexical nestings compatible with the global order: pod ⊃ workload -/
def allowedNesting (outer inner : String) : Bool :=
  (outer == "top" && (inner == "pod" || inner == "workload" || inner == "nodeop" || inner == "raw")) ||
  (outer == "pod" && inner == "workload")

def Site.render (s : Site) : String := s.file ++ ":" ++ s.func ++ ":" ++ s.outer ++ ">" ++ s.inner

end Eru.Lock
