import Eru.Basic.Outcome
/-
Model of node selection (C21), statement by statement:

* `/repo/utils/generics.go` `Unique` — as written: `slices.Sort(s)`, then the swap-based in-place
  compaction loop.  All three call sites pass `getVal = func(i) { return s[i] }` on the same
  slice, so `getVal i` is modelled as the *current* `s[i]`.
* `/repo/cluster/calcium/node.go` `filterNodes` — after the `fix:` commit (D10): include lookup /
  pod listing + exclude filter, then the deferred stable sort by name and the in-place
  "drop a node whose name equals the last kept name" loop.
* `/repo/store/*/node.go` `GetNode`, `GetNodesByPod`/`doGetNodes` — environment model: the
  store is a list of nodes with distinct names; a pod listing returns, in an unspecified order
  (parameter `listed`), the nodes of the pod (every pod when `podname = ""`) that carry the
  requested labels, without down (bypassed or unavailable) nodes unless `all`.  With `podname = ""`
  the Go code iterates `GetAllPods` and lists each pod; the model lists the nodes of every pod
  directly; `filterNodesIter` lists pod by pod as the code does, and the two agree when every
  node's pod is among the pods (`AddNode` refuses an unknown pod, `RemovePod` refuses a pod that
  still has nodes): theorem `C21.filter_allpods_equiv`.

Go `slices.Sort`/`sort.Strings` on strings has a unique result (total order, equal strings
are indistinguishable); `sort.SliceStable` is a stable sort: both are modelled by the stable
insertion sort `isortBy` (the result of a stable sort is unique).
-/
namespace Eru.Lock

/-- stable insertion sort (structural, so that closed terms evaluate inside proofs); any stable
    sort has the same result -/
def insertBy {α : Type} (le : α → α → Bool) (x : α) : List α → List α
  | [] => [x]
  | y :: ys => if le x y then x :: y :: ys else y :: insertBy le x ys

def isortBy {α : Type} (le : α → α → Bool) : List α → List α
  | [] => []
  | x :: xs => insertBy le x (isortBy le xs)

/-- `sort.Strings` / `slices.Sort` on `[]string` -/
def sortStrings (l : List String) : List String := isortBy (fun a b => decide (a ≤ b)) l

/-- the loop of `utils.Unique` (`i`, `j`, `lastVal` as in the Go code; `s[i], s[j] = s[j], s[i]`) -/
def uniqLoop (s : Array String) (i j : Nat) (last : String) : Array String × Nat :=
  if h : i < s.size then
    if s[i] = last ∧ i ≠ 0 then uniqLoop s (i + 1) j last
    else uniqLoop (s.swapIfInBounds i j) (i + 1) (j + 1) s[i]
  else (s, j)
termination_by s.size - i
decreasing_by all_goals ((try simp only [Array.size_swapIfInBounds]); omega)

/-- `utils.Unique(s, func(i) { return s[i] })`: returns the mutated slice and the index `j` -/
def uniqueGo (s : Array String) : Array String × Nat :=
  uniqLoop (sortStrings s.toList).toArray 0 0 ""

/-- `sort.Strings(xs); xs = xs[:utils.Unique(xs, …)]` (withWorkloadsLocked, withNodesLocked) -/
def sortUnique (xs : List String) : List String :=
  let r := uniqueGo (sortStrings xs).toArray
  r.1.toList.take r.2

structure Node where
  name : String
  pod : String
  labels : List (String × String)
  available : Bool
  bypass : Bool
  deriving Repr, DecidableEq, Inhabited

/-- `types.Node.IsDown` -/
def Node.isDown (n : Node) : Bool := n.bypass || !n.available

structure NodeFilter where
  podname : String
  includes : List String
  excludes : List String
  labels : List (String × String)
  all : Bool
  deriving Repr, DecidableEq, Inhabited

/-- `utils.LabelsFilter(extend, labels)` -/
def labelsFilter (extend labels : List (String × String)) : Bool :=
  labels.all fun kv => extend.lookup kv.1 == some kv.2

/-- `store.GetNode` (all = true: down nodes are returned too) -/
def getNode (st : List Node) (name : String) : Option Node := st.find? (·.name == name)

/-- which nodes a pod listing returns (`GetNodesByPod` → `doGetNodes`) -/
def listable (nf : NodeFilter) (n : Node) : Bool :=
  (nf.podname == "" || n.pod == nf.podname) && labelsFilter n.labels nf.labels && (nf.all || !n.isDown)

def getNodesByPod (st : List Node) (nf : NodeFilter) : List Node := st.filter (listable nf)

/-- `GetNodesByPod` as written: with a pod name the nodes under that pod's key prefix; without one,
    `GetAllPods` and then the nodes of each pod in turn -/
def podNodes (st : List Node) (nf : NodeFilter) (pd : String) : List Node :=
  st.filter fun n => n.pod == pd && (labelsFilter n.labels nf.labels && (nf.all || !n.isDown))

def getNodesByPodIter (pods : List String) (st : List Node) (nf : NodeFilter) : List Node :=
  if nf.podname == "" then pods.flatMap (podNodes st nf) else podNodes st nf nf.podname

/-- `sort.SliceStable(ns, func(i, j) { return ns[i].Name < ns[j].Name })` -/
def sortByName (ns : List Node) : List Node := isortBy (fun a b => decide (a.name ≤ b.name)) ns

/-- the compaction loop of the fixed `filterNodes`: `last` = name of `ns[p-1]` (none when i = 0) -/
def dedupAdjBy {α : Type} (key : α → String) : Option String → List α → List α
  | _, [] => []
  | none, x :: xs => x :: dedupAdjBy key (some (key x)) xs
  | some k, x :: xs => if key x = k then dedupAdjBy key (some k) xs else x :: dedupAdjBy key (some (key x)) xs

/-- the deferred function of `filterNodes` -/
def finish (ns : List Node) : List Node :=
  if ns.length = 0 then ns else dedupAdjBy Node.name none (sortByName ns)

def errNotFound := "notfound"

/-- include path: `for _, nodename := range Includes { node, err := GetNode(…); if err … }` -/
def lookupAll (get : String → Option Node) : List String → Option (List Node)
  | [] => some []
  | n :: rest => match get n with
    | none => none
    | some nd => (lookupAll get rest).map (nd :: ·)

/-- `filterNodes` given the store's answers (`get`, `listed`) -/
def filterNodesFrom (get : String → Option Node) (listed : List Node) (nf : NodeFilter) : Outcome (List Node) :=
  if nf.includes.length ≠ 0 then
    match lookupAll get nf.includes with
    | none => .err errNotFound
    | some ns => .ok (finish ns)
  else if nf.excludes.length = 0 then .ok (finish listed)
  else .ok (finish (listed.filter fun n => !nf.excludes.contains n.name))

def filterNodes (st : List Node) (nf : NodeFilter) : Outcome (List Node) :=
  filterNodesFrom (getNode st) (getNodesByPod st nf) nf

/-- `filterNodes` with the pod listing done pod by pod -/
def filterNodesIter (pods : List String) (st : List Node) (nf : NodeFilter) : Outcome (List Node) :=
  filterNodesFrom (getNode st) (getNodesByPodIter pods st nf) nf

/-! ### Specification (decidable; evaluated by the oracle on the implementation's output) -/

def strictAsc : List String → Bool
  | a :: b :: rest => decide (a < b) && strictAsc (b :: rest)
  | _ => true

/-- is `n` selected by the filter (C21's reading) -/
def selected (st : List Node) (nf : NodeFilter) (n : Node) : Bool :=
  if nf.includes.length ≠ 0 then nf.includes.contains n.name && st.contains n
  else st.contains n && listable nf n && !nf.excludes.contains n.name

/-- clauses violated by an answer `out` (names) of the implementation; a distinct but unsorted answer
    is not a C21 violation (the order matters for C20 only) and is tagged `order:` -/
def filterViolations (st : List Node) (nf : NodeFilter) (out : List String) : List String :=
  (if strictAsc out then [] else if out.eraseDups.length != out.length then ["C21:duplicate-node"]
   else ["order:not-ascending"]) ++
  (if out.all (fun nm => st.any fun n => n.name == nm && selected st nf n) then [] else ["C21:extra-node"]) ++
  (if st.all (fun n => !selected st nf n || out.contains n.name) then [] else ["C21:missing-node"])

def filterSpec (st : List Node) (nf : NodeFilter) (out : List String) : Bool :=
  (filterViolations st nf out).isEmpty

end Eru.Lock
