import Eru.Lock.Order
import Eru.Lock.ProofsFilter
/- Proofs for C20: the general deadlock-freedom theorem for rank-ordered lock acquisition and the
   lemmas showing that the modelled helpers produce rank-ordered traces.  Core Lean only. -/
namespace Eru.Lock

section generic
variable {K : Type} [DecidableEq K] (lt : K → K → Bool) (extra : List K → K → Bool)

/-- a thread: the locks it holds and the rest of its program -/
structure Thread (K : Type) where
  held : List K
  rest : List (Ev K)

/-- the thread's remaining program is disciplined from its current held set -/
def Thread.ok (t : Thread K) : Prop := run lt extra t.held t.rest = some []

/-- interleaving semantics: one thread performs its next event; an acquisition is enabled only
    when no thread holds the key (mutual exclusion of the lock service, C18) -/
inductive Step : List (Thread K) → List (Thread K) → Prop
  | acq (pre post : List (Thread K)) (held : List K) (k : K) (rest : List (Ev K)) :
      (∀ t ∈ pre ++ (⟨held, .acq k :: rest⟩ : Thread K) :: post, k ∉ t.held) →
      Step (pre ++ ⟨held, .acq k :: rest⟩ :: post) (pre ++ ⟨k :: held, rest⟩ :: post)
  | rel (pre post : List (Thread K)) (held : List K) (k : K) (rest : List (Ev K)) :
      Step (pre ++ ⟨held, .rel k :: rest⟩ :: post) (pre ++ ⟨held.erase k, rest⟩ :: post)

inductive Reach : List (Thread K) → List (Thread K) → Prop
  | refl (s) : Reach s s
  | step {s s' s''} : Reach s s' → Step s' s'' → Reach s s''

theorem run_cons (held : List K) (e : Ev K) (es : List (Ev K)) :
    run lt extra held (e :: es) = (stepOK lt extra held e).bind (fun h => run lt extra h es) := by
  simp only [run]; cases stepOK lt extra held e <;> rfl

theorem step_preserves_ok {s s' : List (Thread K)} (h : Step s s') (hok : ∀ t ∈ s, t.ok lt extra) :
    ∀ t ∈ s', t.ok lt extra := by
  cases h with
  | acq pre post held k rest hfree =>
    intro t ht
    rcases List.mem_append.mp ht with h1 | h1
    · exact hok t (List.mem_append.mpr (Or.inl h1))
    · rcases List.mem_cons.mp h1 with e | h2
      · have := hok ⟨held, .acq k :: rest⟩ (List.mem_append.mpr (Or.inr List.mem_cons_self))
        subst e
        simp only [Thread.ok, run_cons, stepOK] at this ⊢
        split at this
        · simpa using this
        · simp at this
      · exact hok t (List.mem_append.mpr (Or.inr (List.mem_cons_of_mem _ h2)))
  | rel pre post held k rest =>
    intro t ht
    rcases List.mem_append.mp ht with h1 | h1
    · exact hok t (List.mem_append.mpr (Or.inl h1))
    · rcases List.mem_cons.mp h1 with e | h2
      · have := hok ⟨held, .rel k :: rest⟩ (List.mem_append.mpr (Or.inr List.mem_cons_self))
        subst e
        simp only [Thread.ok, run_cons, stepOK] at this ⊢
        split at this
        · simpa using this
        · simp at this
      · exact hok t (List.mem_append.mpr (Or.inr (List.mem_cons_of_mem _ h2)))

theorem reach_preserves_ok {s s' : List (Thread K)} (h : Reach s s') (hok : ∀ t ∈ s, t.ok lt extra) :
    ∀ t ∈ s', t.ok lt extra := by
  induction h with
  | refl => exact hok
  | step _ hs ih => exact step_preserves_ok lt extra hs ih

omit [DecidableEq K] in
/-- a finite nonempty list has a maximal element for any strict partial order -/
theorem exists_maximal (hirr : ∀ a, lt a a = false)
    (htr : ∀ a b c, lt a b = true → lt b c = true → lt a c = true) :
    ∀ (l : List K), l ≠ [] → ∃ m ∈ l, ∀ x ∈ l, lt m x = false := by
  intro l
  induction l with
  | nil => intro h; exact absurd rfl h
  | cons a t ih =>
    intro _
    by_cases ht : t = []
    · subst ht
      exact ⟨a, List.mem_cons_self, by intro x hx; simp at hx; subst hx; exact hirr x⟩
    · obtain ⟨m, hm, hmax⟩ := ih ht
      by_cases hma : lt m a = true
      · refine ⟨a, List.mem_cons_self, ?_⟩
        intro x hx
        rcases List.mem_cons.mp hx with e | hx'
        · subst e; exact hirr x
        · cases hax : lt a x with
          | false => rfl
          | true => have := htr m a x hma hax; rw [hmax x hx'] at this; cases this
      · refine ⟨m, List.mem_cons_of_mem _ hm, ?_⟩
        intro x hx
        rcases List.mem_cons.mp hx with e | hx'
        · subst e; simpa using hma
        · exact hmax x hx'

/-- the key a thread is about to acquire -/
def want : Thread K → Option K
  | ⟨_, .acq k :: _⟩ => some k
  | _ => none

theorem ok_acq_above {held : List K} {k : K} {rest : List (Ev K)}
    (h : (⟨held, .acq k :: rest⟩ : Thread K).ok lt extra) : ∀ x ∈ held, lt x k = true := by
  simp only [Thread.ok, run_cons, stepOK] at h
  split at h
  · rename_i hc
    simp only [Bool.and_eq_true, List.all_eq_true] at hc
    exact hc.1
  · simp at h

theorem ok_holder_not_done {t : Thread K} (h : t.ok lt extra) {k : K} (hk : k ∈ t.held) : t.rest ≠ [] := by
  intro e
  cases t with
  | mk held rest =>
    simp only at e hk
    subst e
    simp only [Thread.ok, run] at h
    injection h with h
    subst h
    cases hk

/-- **Deadlock freedom.**  If the remaining program of every thread is disciplined (every
    acquisition is strictly above, in a strict partial order of ranks, everything the thread holds,
    and the thread finally releases what it holds), then in any state in which some thread has
    not finished, some thread can take a step. -/
theorem progress (hirr : ∀ a, lt a a = false)
    (htr : ∀ a b c, lt a b = true → lt b c = true → lt a c = true)
    (s : List (Thread K)) (hok : ∀ t ∈ s, t.ok lt extra) (hlive : ∃ t ∈ s, t.rest ≠ []) :
    ∃ s', Step s s' := by
  -- a thread whose next event is a release can always step
  by_cases hrel : ∃ t ∈ s, ∃ k rest, t.rest = .rel k :: rest
  · obtain ⟨t, ht, k, rest, e⟩ := hrel
    obtain ⟨pre, post, hs⟩ := List.append_of_mem ht
    cases t with
    | mk held r =>
      simp only at e; subst e
      exact ⟨_, hs ▸ Step.rel pre post held k rest⟩
  · -- all unfinished threads want a key; take a maximal wanted key
    let wants := s.filterMap want
    have hne : wants ≠ [] := by
      obtain ⟨t, ht, hr⟩ := hlive
      cases t with
      | mk held r =>
        cases r with
        | nil => exact absurd rfl hr
        | cons e es =>
          cases e with
          | rel k => exact absurd ⟨_, ht, k, es, rfl⟩ hrel
          | acq k =>
            intro hw
            have : k ∈ wants := List.mem_filterMap.mpr ⟨_, ht, rfl⟩
            rw [hw] at this; cases this
    obtain ⟨m, hm, hmax⟩ := exists_maximal lt hirr htr wants hne
    obtain ⟨t, ht, hwt⟩ := List.mem_filterMap.mp hm
    cases t with
    | mk held r =>
      cases r with
      | nil => simp [want] at hwt
      | cons e es =>
        cases e with
        | rel k => simp [want] at hwt
        | acq k =>
          simp only [want, Option.some.injEq] at hwt
          subst hwt
          by_cases hfree : ∀ u ∈ s, k ∉ u.held
          · obtain ⟨pre, post, hs⟩ := List.append_of_mem ht
            exact ⟨_, hs ▸ Step.acq pre post held k es (hs ▸ hfree)⟩
          · exfalso
            have ⟨u, hu, hku⟩ : ∃ u ∈ s, k ∈ u.held := by
              apply Classical.byContradiction; intro hn
              exact hfree (fun u hu hk => hn ⟨u, hu, hk⟩)
            have hur := ok_holder_not_done lt extra (hok u hu) hku
            cases u with
            | mk uheld ur =>
              cases ur with
              | nil => exact hur rfl
              | cons e' es' =>
                cases e' with
                | rel k' => exact hrel ⟨_, hu, k', es', rfl⟩
                | acq k' =>
                  have h1 : lt k k' = true := ok_acq_above lt extra (hok _ hu) k hku
                  have h2 : k' ∈ wants := List.mem_filterMap.mpr ⟨_, hu, rfl⟩
                  rw [hmax k' h2] at h1; cases h1

/-- the wait-for relation of a state: `t` is blocked on a key that `u` holds -/
def WaitsFor (s : List (Thread K)) (t u : Thread K) : Prop :=
  t ∈ s ∧ u ∈ s ∧ ∃ k, want t = some k ∧ k ∈ u.held

/-- along a wait-for edge between blocked threads the wanted key strictly increases -/
theorem waitsFor_want_lt {s : List (Thread K)} (hok : ∀ t ∈ s, t.ok lt extra) {t u : Thread K}
    (h : WaitsFor s t u) {k k' : K} (hk : want t = some k) (hk' : want u = some k') : lt k k' = true := by
  obtain ⟨_, hu, k0, h0, hheld⟩ := h
  rw [hk] at h0; cases h0
  cases u with
  | mk uheld ur =>
    cases ur with
    | nil => simp [want] at hk'
    | cons e es =>
      cases e with
      | rel _ => simp [want] at hk'
      | acq k2 =>
        simp only [want, Option.some.injEq] at hk'; subst hk'
        exact ok_acq_above lt extra (hok _ hu) k hheld

/-- **The wait-for graph is acyclic**: no chain of blocked threads, each waiting for a key held by
    the next, returns to its start. -/
theorem waitfor_acyclic (hirr : ∀ a, lt a a = false)
    (htr : ∀ a b c, lt a b = true → lt b c = true → lt a c = true)
    (s : List (Thread K)) (hok : ∀ t ∈ s, t.ok lt extra) (t : Thread K) :
    ¬ Relation.TransGen (WaitsFor s) t t := by
  have key : ∀ a b, Relation.TransGen (WaitsFor s) a b → ∀ k k', want a = some k → want b = some k' → lt k k' = true := by
    intro a b h
    induction h with
    | single h => intro k k' hk hk'; exact waitsFor_want_lt lt extra hok h hk hk'
    | tail h1 h2 ih =>
      rename_i b c
      intro k k' hk hk'
      have h2' := h2
      obtain ⟨hb, _, kb, hkb, _⟩ := h2'
      exact htr _ _ _ (ih k kb hk hkb) (waitsFor_want_lt lt extra hok h2 hkb hk')
  intro h
  have hw : ∃ k, want t = some k := by
    have : ∀ a b, Relation.TransGen (WaitsFor s) a b → ∃ k, want a = some k := by
      intro a b h; induction h with
      | single h => exact ⟨_, h.2.2.choose_spec.1⟩
      | tail _ _ ih => exact ih
    exact this t t h
  obtain ⟨k, hk⟩ := hw
  have := key t t h k k hk hk
  rw [hirr k] at this; cases this

end generic
end Eru.Lock

namespace Eru.Lock

/-! ### the modelled helpers produce disciplined traces -/

abbrev R := run keyLt nodeOpRule

theorem keyLt_irrefl (a : Key) : keyLt a a = false := by
  simp [keyLt, String.lt_irrefl]

theorem keyLt_trans (a b c : Key) (h1 : keyLt a b = true) (h2 : keyLt b c = true) : keyLt a c = true := by
  simp only [keyLt, Bool.or_eq_true, decide_eq_true_eq, Bool.and_eq_true, beq_iff_eq] at *
  rcases h1 with h1 | ⟨e1, l1⟩
  · rcases h2 with h2 | ⟨e2, _⟩
    · left; omega
    · left; omega
  · rcases h2 with h2 | ⟨e2, l2⟩
    · left; omega
    · right; exact ⟨e1.trans e2, String.lt_trans l1 l2⟩

theorem run_append {K : Type} [DecidableEq K] (lt : K → K → Bool) (extra : List K → K → Bool)
    (a b : List (Ev K)) : ∀ (held : List K),
    run lt extra held (a ++ b) = (run lt extra held a).bind (fun h => run lt extra h b) := by
  induction a with
  | nil => intro held; simp [run]
  | cons e es ih =>
    intro held
    simp only [List.cons_append, run]
    cases stepOK lt extra held e with
    | none => rfl
    | some h' => exact ih h'

theorem run_acq_group (g : Nat) : ∀ (names : List String) (held : List Key),
    names.Pairwise (· < ·) →
    (∀ h ∈ held, ∀ n ∈ names, keyLt h ⟨g, n⟩ = true) →
    (g = gNodeOp → ∀ h ∈ held, h.group = gNodeOp) →
    R held ((names.map (Key.mk g)).map .acq) = some ((names.map (Key.mk g)).reverse ++ held) := by
  intro names
  induction names with
  | nil => intro held _ _ _; simp [R, run]
  | cons n ns ih =>
    intro held hp hlt hop
    have p := List.pairwise_cons.mp hp
    have c1 : (held.all fun h => keyLt h ⟨g, n⟩) = true := by
      simp only [List.all_eq_true]; intro h hh; exact hlt h hh n List.mem_cons_self
    have c2 : nodeOpRule held ⟨g, n⟩ = true := by
      simp only [nodeOpRule, Bool.or_eq_true, bne_iff_ne, ne_eq, List.all_eq_true, beq_iff_eq]
      by_cases hg : g = gNodeOp
      · right; exact hop hg
      · left; exact hg
    simp only [R, List.map_cons, run, stepOK, c1, c2, Bool.and_self, if_true]
    have := ih (⟨g, n⟩ :: held) p.2
      (by
        intro h hh n' hn'
        rcases List.mem_cons.mp hh with e | hh'
        · subst e; simp [keyLt, p.1 n' hn']
        · exact hlt h hh' n' (List.mem_cons_of_mem _ hn'))
      (by
        intro hg h hh
        rcases List.mem_cons.mp hh with e | hh'
        · subst e; exact hg
        · exact hop hg h hh')
    simp only [R] at this
    rw [this]
    simp

theorem run_rel_all : ∀ (ks held : List Key), R (ks ++ held) (ks.map .rel) = some held := by
  intro ks
  induction ks with
  | nil => intro held; simp [R, run]
  | cons k ks ih =>
    intro held
    simp only [R, List.map_cons, run, stepOK, List.cons_append, List.mem_cons, true_or, if_true,
      List.erase_cons_head]
    exact ih held

/-- a bracket `acq keys…; body; rel keys…` of one group keeps the held set, when the keys are
    strictly ascending, above everything held, and the body keeps the held set -/
theorem bracket_ok (g : Nat) (names : List String) (held : List Key) (body : Trace)
    (hp : names.Pairwise (· < ·))
    (hlt : ∀ h ∈ held, ∀ n ∈ names, keyLt h ⟨g, n⟩ = true)
    (hop : g = gNodeOp → ∀ h ∈ held, h.group = gNodeOp)
    (hbody : R ((names.map (Key.mk g)).reverse ++ held) body = some ((names.map (Key.mk g)).reverse ++ held)) :
    R held ((names.map (Key.mk g)).map .acq ++ body ++ (names.map (Key.mk g)).reverse.map .rel) = some held := by
  simp only [R, run_append, List.append_assoc]
  have h1 := run_acq_group g names held hp hlt hop
  simp only [R] at h1 hbody
  rw [h1]
  simp only [Option.bind_some, hbody]
  exact run_rel_all _ held

theorem getWorkloads_ids {w : World} : ∀ {ids : List String} {cs : List (String × String)},
    getWorkloads w ids = some cs → cs.map (·.1) = ids := by
  intro ids
  induction ids with
  | nil => intro cs h; simp [getWorkloads] at h; subst h; rfl
  | cons a rest ih =>
    intro cs h
    simp only [getWorkloads, List.mapM_cons, Option.bind_eq_bind, Option.pure_def] at h
    cases hf : w.workloads.find? (·.1 == a) with
    | none => simp [hf] at h
    | some c =>
      simp only [hf, Option.bind_some] at h
      cases hr : rest.mapM (fun id => w.workloads.find? (·.1 == id)) with
      | none => simp [hr] at h
      | some cs' =>
        simp only [hr, Option.bind_some, Option.some.injEq] at h
        subst h
        have h1 : c.1 = a := by simpa using List.find?_some hf
        simp only [List.map_cons, h1]
        congr 1
        exact ih (by simpa [getWorkloads] using hr)

/-- `withWorkloadsLocked` (no nested locking in its callback) keeps a held set made of pod locks -/
theorem workloads_ok (w : World) (ig : Bool) (ids : List String) (held : List Key)
    (hh : ∀ h ∈ held, h.group = gPod) : R held (withWorkloadsLocked w ig ids []) = some held := by
  unfold withWorkloadsLocked
  simp only []
  cases hg : getWorkloads w (sortUnique ids) with
  | none => simp [R, run]
  | some cs =>
    simp only []
    cases ig with
    | true => simp [R, run]
    | false =>
      simp only [Bool.false_eq_true, if_false]
      have hn := getWorkloads_ids hg
      have hk : (cs.map fun c => Key.mk gWorkload c.1) = (sortUnique ids).map (Key.mk gWorkload) := by
        rw [← hn, List.map_map]; rfl
      rw [hk]
      apply bracket_ok gWorkload (sortUnique ids) held [] (sortUnique_strict ids)
      · intro h hm n _; simp [keyLt, hh h hm, gPod, gWorkload]
      · intro e; simp [gWorkload, gNodeOp] at e
      · simp [R, run]

theorem workloadEach_ok (w : World) (wids : List String) (held : List Key)
    (hh : ∀ h ∈ held, h.group = gPod) :
    R held (wids.flatMap fun id => withWorkloadLocked w id false) = some held := by
  induction wids with
  | nil => simp [R, run]
  | cons a rest ih =>
    simp only [List.flatMap_cons, R, run_append]
    have := workloads_ok w false [a] held hh
    simp only [R] at this ih
    simp only [withWorkloadLocked, this, Option.bind_some]
    exact ih

/-- `withNodesLocked` with a held-set-preserving callback is a disciplined episode -/
theorem nodesLocked_ok (g : Nat) (genName : Node → String) (w : World) (nf : NodeFilter)
    (body : List Node → Trace)
    (hbody : ∀ ns (H : List Key), (∀ h ∈ H, h.group = g) → R H (body ns) = some H) :
    R [] (withNodesLocked g genName w nf body) = some [] := by
  unfold withNodesLocked
  cases filterNodes w.nodes nf with
  | ok ns =>
    simp only []
    apply bracket_ok g _ [] (body ns) (sortUnique_strict _)
    · intro h hm; cases hm
    · intro _ h hm; cases hm
    · apply hbody
      intro h hm
      simp only [List.append_nil, List.mem_reverse, List.mem_map] at hm
      obtain ⟨n, _, e⟩ := hm
      rw [← e]
  | err e => simp [R, run]
  | panic m => simp [R, run]
  | diverge => simp [R, run]

theorem nodePodLocked_ok (w : World) (node : String) (body : Trace)
    (hbody : ∀ (H : List Key), (∀ h ∈ H, h.group = gPod) → R H body = some H) :
    R [] (withNodePodLocked w node body) = some [] := by
  unfold withNodePodLocked withNodesPodLocked
  apply nodesLocked_ok
  intro ns H hH
  split
  · exact hbody H hH
  · simp [R, run]

theorem nodeOpLocked_ok (w : World) (node : String) :
    R [] (withNodeOperationLocked w node []) = some [] := by
  unfold withNodeOperationLocked withNodesOperationLocked
  apply nodesLocked_ok
  intro ns H _
  split <;> simp [R, run]

theorem traceOK_iff (t : Trace) : traceOK t = true ↔ R [] t = some [] := by
  simp [traceOK, wellOrdered, R]

theorem leading_split : ∀ (t : Trace), ∃ rest, t = (leadingAcqs t).map .acq ++ rest := by
  intro t
  induction t with
  | nil => exact ⟨[], rfl⟩
  | cons e es ih =>
    cases e with
    | acq k => obtain ⟨rest, h⟩ := ih; exact ⟨rest, by simp only [leadingAcqs, List.map_cons, List.cons_append]; rw [← h]⟩
    | rel k => exact ⟨.rel k :: es, by simp [leadingAcqs]⟩

theorem run_acqs_held : ∀ (ks held h' : List Key), R held (ks.map .acq) = some h' → h' = ks.reverse ++ held := by
  intro ks
  induction ks with
  | nil => intro held h' h; simp [R, run] at h; simp [h]
  | cons k ks ih =>
    intro held h' h
    simp only [R, List.map_cons, run, stepOK] at h
    split at h
    · cases h
    · rename_i hs heq
      split at heq
      · injection heq with heq; subst heq
        have := ih _ _ h
        simp [this]
      · cases heq

/-- a failed acquisition leaves a disciplined episode -/
theorem failTrunc_ok (k : Nat) (t : Trace) (h : traceOK t = true) : traceOK (failTrunc k t) = true := by
  rw [traceOK_iff] at h ⊢
  obtain ⟨rest, hsplit⟩ := leading_split t
  have hk : (leadingAcqs t) = (leadingAcqs t).take k ++ (leadingAcqs t).drop k := (List.take_append_drop k _).symm
  rw [hsplit, hk, List.map_append, List.append_assoc] at h
  simp only [R, run_append] at h
  cases hr : run keyLt nodeOpRule [] (((leadingAcqs t).take k).map .acq) with
  | none => rw [hr] at h; simp at h
  | some h' =>
    have e := run_acqs_held _ _ _ hr
    simp only [failTrunc, R, run_append, hr, Option.bind_some]
    rw [e]
    exact run_rel_all _ []

theorem list_prefix_lt_iff (p a b : List Char) : p ++ a < p ++ b ↔ a < b := by
  induction p with
  | nil => simp
  | cons c p ih => simp [ih]

/-- formatted lock names that share their group's prefix compare as the names themselves
    (`sort.Strings` on `plock_<pod>` strings = sorting the pod names) -/
theorem prefix_lt_iff (p a b : String) : p ++ a < p ++ b ↔ a < b := by
  rw [String.lt_iff, String.lt_iff, String.toList_append, String.toList_append]
  exact list_prefix_lt_iff _ _ _

/-- a segment of a trace that keeps the held set can be replaced by any other segment that keeps it -/
theorem replace_segment (a x y b : Trace) (h0 h : List Key)
    (ha : R h0 a = some h) (hx : R h x = some h) (hy : R h y = some h) :
    R h0 (a ++ x ++ b) = R h0 (a ++ y ++ b) := by
  simp only [R, run_append] at *
  simp [ha, hx, hy]

/-- in particular a nested bracket (e.g. `withWorkloadLocked` under a held pod lock) whose
    acquisition fails — at any position of the bracket: the first `j` keys were taken and are
    released again, the callback does not run — leaves a disciplined trace -/
theorem nested_failure_ok (a b : Trace) (g : Nat) (names : List String) (body : Trace) (j : Nat) (h : List Key)
    (ha : R [] a = some h)
    (hp : names.Pairwise (· < ·))
    (hlt : ∀ x ∈ h, ∀ n ∈ names, keyLt x ⟨g, n⟩ = true)
    (hop : g = gNodeOp → ∀ x ∈ h, x.group = gNodeOp)
    (hbody : R ((names.map (Key.mk g)).reverse ++ h) body = some ((names.map (Key.mk g)).reverse ++ h))
    (hall : R [] (a ++ ((names.map (Key.mk g)).map .acq ++ body ++ (names.map (Key.mk g)).reverse.map .rel) ++ b) = some []) :
    R [] (a ++ (((names.take j).map (Key.mk g)).map .acq ++ [] ++ ((names.take j).map (Key.mk g)).reverse.map .rel) ++ b) = some [] := by
  have hx := bracket_ok g names h body hp hlt hop hbody
  have hpj : (names.take j).Pairwise (· < ·) := hp.sublist (List.take_sublist j names)
  have hy := bracket_ok g (names.take j) h [] hpj
    (fun x hxm n hn => hlt x hxm n (List.mem_of_mem_take hn)) hop (by simp [R, run])
  rw [← replace_segment a _ _ b [] h ha hx hy]
  exact hall

end Eru.Lock
