import Eru.Lock.Filter
/- Helper lemmas for C21 (and the sorted-unique key lists of C20). Core Lean only. -/
namespace Eru.Lock

theorem str_lt_of_le_of_ne {a b : String} (h : a ≤ b) (h2 : a ≠ b) : a < b := Std.lt_of_le_of_ne h h2

/-- the adjacent-dedupe loop on a list sorted by key: strictly ascending keys, above `last`,
    nothing invented, every key of the input still represented -/
theorem dedup_spec {α : Type} (key : α → String) (l : List α) : ∀ (last : Option String),
    l.Pairwise (fun a b => key a ≤ key b) →
    (∀ k, last = some k → ∀ x ∈ l, k ≤ key x) →
    (dedupAdjBy key last l).Pairwise (fun a b => key a < key b) ∧
    (∀ k, last = some k → ∀ x ∈ dedupAdjBy key last l, k < key x) ∧
    (∀ x ∈ dedupAdjBy key last l, x ∈ l) ∧
    (∀ x ∈ l, last = some (key x) ∨ ∃ y ∈ dedupAdjBy key last l, key y = key x) := by
  induction l with
  | nil => intro last _ _; cases last <;> simp [dedupAdjBy]
  | cons x xs ih =>
    intro last hs hl
    have hs' := (List.pairwise_cons.mp hs)
    cases last with
    | none =>
      have := ih (some (key x)) hs'.2 (by intro k hk y hy; cases hk; exact hs'.1 y hy)
      obtain ⟨p1, p2, p3, p4⟩ := this
      simp only [dedupAdjBy]
      refine ⟨List.pairwise_cons.mpr ⟨fun y hy => p2 _ rfl y hy, p1⟩, (by intro k hk; cases hk), ?_, ?_⟩
      · intro y hy; rcases List.mem_cons.mp hy with h | h
        · exact h ▸ List.mem_cons_self
        · exact List.mem_cons_of_mem _ (p3 y h)
      · intro y hy; right; rcases List.mem_cons.mp hy with h | h
        · exact ⟨x, List.mem_cons_self, by rw [h]⟩
        · rcases p4 y h with h' | ⟨z, hz, hzk⟩
          · exact ⟨x, List.mem_cons_self, Option.some.inj h'⟩
          · exact ⟨z, List.mem_cons_of_mem _ hz, hzk⟩
    | some k =>
      simp only [dedupAdjBy]
      split
      · rename_i heq
        have := ih (some k) hs'.2 (by intro k' hk y hy; exact hl k' hk y (List.mem_cons_of_mem _ hy))
        obtain ⟨p1, p2, p3, p4⟩ := this
        refine ⟨p1, p2, fun y hy => List.mem_cons_of_mem _ (p3 y hy), ?_⟩
        intro y hy; rcases List.mem_cons.mp hy with h | h
        · left; rw [h, heq]
        · exact p4 y h
      · rename_i hne
        have hkx : k < key x := str_lt_of_le_of_ne (hl k rfl x List.mem_cons_self) (fun h => hne h.symm)
        have := ih (some (key x)) hs'.2 (by intro k' hk y hy; cases hk; exact hs'.1 y hy)
        obtain ⟨p1, p2, p3, p4⟩ := this
        refine ⟨List.pairwise_cons.mpr ⟨fun y hy => p2 _ rfl y hy, p1⟩, ?_, ?_, ?_⟩
        · intro k' hk y hy; cases hk
          rcases List.mem_cons.mp hy with h | h
          · exact h ▸ hkx
          · exact String.lt_trans hkx (p2 _ rfl y h)
        · intro y hy; rcases List.mem_cons.mp hy with h | h
          · exact h ▸ List.mem_cons_self
          · exact List.mem_cons_of_mem _ (p3 y h)
        · intro y hy; right; rcases List.mem_cons.mp hy with h | h
          · exact ⟨x, List.mem_cons_self, by rw [h]⟩
          · rcases p4 y h with h' | ⟨z, hz, hzk⟩
            · exact ⟨x, List.mem_cons_self, Option.some.inj h'⟩
            · exact ⟨z, List.mem_cons_of_mem _ hz, hzk⟩

/-- two strictly ascending lists with the same members are equal -/
theorem strict_sorted_ext {α : Type} (key : α → String) :
    ∀ (l1 l2 : List α), l1.Pairwise (fun a b => key a < key b) → l2.Pairwise (fun a b => key a < key b) →
    (∀ x, x ∈ l1 ↔ x ∈ l2) → l1 = l2 := by
  intro l1
  induction l1 with
  | nil => intro l2 _ _ h; cases l2 with
    | nil => rfl
    | cons y ys => exact absurd ((h y).mpr List.mem_cons_self) (by simp)
  | cons x xs ih =>
    intro l2 h1 h2 h
    cases l2 with
    | nil => exact absurd ((h x).mp List.mem_cons_self) (by simp)
    | cons y ys =>
      have p1 := List.pairwise_cons.mp h1
      have p2 := List.pairwise_cons.mp h2
      have hxy : x = y := by
        have hx := (h x).mp List.mem_cons_self
        have hy := (h y).mpr List.mem_cons_self
        rcases List.mem_cons.mp hx with e | hx'
        · exact e
        · rcases List.mem_cons.mp hy with e | hy'
          · exact e.symm
          · exact absurd (String.lt_trans (p2.1 x hx') (p1.1 y hy')) (String.lt_irrefl _)
      subst hxy
      congr 1
      apply ih ys p1.2 p2.2
      intro z
      constructor
      · intro hz
        rcases List.mem_cons.mp ((h z).mp (List.mem_cons_of_mem _ hz)) with e | h'
        · subst e; exact absurd (p1.1 z hz) (String.lt_irrefl _)
        · exact h'
      · intro hz
        rcases List.mem_cons.mp ((h z).mpr (List.mem_cons_of_mem _ hz)) with e | h'
        · subst e; exact absurd (p2.1 z hz) (String.lt_irrefl _)
        · exact h'

section isort
variable {α : Type} (le : α → α → Bool)

theorem insertBy_perm (x : α) (l : List α) : (insertBy le x l).Perm (x :: l) := by
  induction l with
  | nil => exact List.Perm.refl _
  | cons y ys ih =>
    simp only [insertBy]; split
    · exact List.Perm.refl _
    · exact (List.Perm.cons y ih).trans (List.Perm.swap x y ys)

theorem isortBy_perm (l : List α) : (isortBy le l).Perm l := by
  induction l with
  | nil => exact List.Perm.refl _
  | cons x xs ih => exact (insertBy_perm le x _).trans (List.Perm.cons x ih)

theorem insertBy_sorted (htr : ∀ a b c, le a b = true → le b c = true → le a c = true)
    (htot : ∀ a b, le a b = true ∨ le b a = true) (x : α) (l : List α)
    (h : l.Pairwise (fun a b => le a b = true)) : (insertBy le x l).Pairwise (fun a b => le a b = true) := by
  induction l with
  | nil => simp [insertBy]
  | cons y ys ih =>
    have p := List.pairwise_cons.mp h
    simp only [insertBy]; split
    · rename_i hxy
      refine List.pairwise_cons.mpr ⟨?_, h⟩
      intro z hz; rcases List.mem_cons.mp hz with e | hz'
      · exact e ▸ hxy
      · exact htr _ _ _ hxy (p.1 z hz')
    · rename_i hxy
      have hyx : le y x = true := (htot x y).resolve_left hxy
      refine List.pairwise_cons.mpr ⟨?_, ih p.2⟩
      intro z hz
      rcases List.mem_cons.mp ((insertBy_perm le x ys).mem_iff.mp hz) with e | hz'
      · exact e ▸ hyx
      · exact p.1 z hz'

theorem isortBy_sorted (htr : ∀ a b c, le a b = true → le b c = true → le a c = true)
    (htot : ∀ a b, le a b = true ∨ le b a = true) (l : List α) :
    (isortBy le l).Pairwise (fun a b => le a b = true) := by
  induction l with
  | nil => exact List.Pairwise.nil
  | cons x xs ih => exact insertBy_sorted le htr htot x _ ih

theorem isortBy_of_sorted (l : List α) (h : l.Pairwise (fun a b => le a b = true)) : isortBy le l = l := by
  induction l with
  | nil => rfl
  | cons x xs ih =>
    have p := List.pairwise_cons.mp h
    simp only [isortBy, ih p.2]
    cases xs with
    | nil => rfl
    | cons y ys => simp [insertBy, p.1 y List.mem_cons_self]
end isort

theorem sortStrings_sorted (l : List String) : (sortStrings l).Pairwise (· ≤ ·) := by
  have := isortBy_sorted (fun a b : String => decide (a ≤ b))
    (by intro a b c h1 h2; simp only [decide_eq_true_eq] at *; exact String.le_trans h1 h2)
    (by intro a b; simp only [decide_eq_true_eq]; exact String.le_total a b) l
  simpa [sortStrings] using this

theorem sortStrings_perm (l : List String) : (sortStrings l).Perm l := isortBy_perm _ _

theorem mem_sortStrings {l : List String} {x : String} : x ∈ sortStrings l ↔ x ∈ l :=
  (sortStrings_perm l).mem_iff

theorem sortByName_sorted (l : List Node) : (sortByName l).Pairwise (fun a b => a.name ≤ b.name) := by
  have := isortBy_sorted (fun a b : Node => decide (a.name ≤ b.name))
    (by intro a b c h1 h2; simp only [decide_eq_true_eq] at *; exact String.le_trans h1 h2)
    (by intro a b; simp only [decide_eq_true_eq]; exact String.le_total _ _) l
  simpa [sortByName] using this

theorem mem_sortByName {l : List Node} {x : Node} : x ∈ sortByName l ↔ x ∈ l :=
  (isortBy_perm _ _).mem_iff

/-! ### the swap loop of `utils.Unique` computes the adjacent dedupe of its (sorted) input -/

def lastOpt (i : Nat) (last : String) : Option String := if i = 0 then none else some last

theorem swap_take {s : Array String} {i j : Nat} (hj : j ≤ i) (hi : i < s.size) :
    (s.swapIfInBounds i j).toList.take (j + 1) = s.toList.take j ++ [s[i]] := by
  have hjs : j < s.size := by omega
  apply List.ext_getElem
  · simp; omega
  · intro n h1 h2
    simp only [List.length_take, Array.length_toList, Array.size_swapIfInBounds] at h1
    have hn : n < j + 1 := by omega
    simp only [List.getElem_take, Array.getElem_toList]
    have e : (s.swapIfInBounds i j)[n]'(by simp; omega) = if n = i then s[j] else if n = j then s[i] else s[n] := by
      simp only [Array.swapIfInBounds, hi, hjs, dite_true]; exact Array.getElem_swap ..
    rw [e]
    by_cases hnj : n = j
    · subst hnj
      rw [List.getElem_append_right (by simp; omega)]
      simp
      intro h; subst h; rfl
    · have hlt : n < j := by omega
      rw [List.getElem_append_left (by simp; omega)]
      simp [hnj]
      intro h; omega

theorem swap_drop {s : Array String} {i j : Nat} (hj : j ≤ i) (hi : i < s.size) :
    (s.swapIfInBounds i j).toList.drop (i + 1) = s.toList.drop (i + 1) := by
  have hjs : j < s.size := by omega
  apply List.ext_getElem
  · simp
  · intro n h1 h2
    simp only [List.getElem_drop, Array.getElem_toList]
    have e : (s.swapIfInBounds i j)[i + 1 + n]'(by simp at h1 ⊢; omega) = if i + 1 + n = i then s[j] else if i + 1 + n = j then s[i] else s[i + 1 + n]'(by simp at h1; omega) := by
      simp only [Array.swapIfInBounds, hi, hjs, dite_true]; exact Array.getElem_swap ..
    rw [e]
    rw [if_neg (by omega), if_neg (by omega)]

theorem uniqLoop_sim (s : Array String) (i j : Nat) (last : String) (hj : j ≤ i) :
    (uniqLoop s i j last).1.toList.take (uniqLoop s i j last).2 =
      s.toList.take j ++ dedupAdjBy id (lastOpt i last) (s.toList.drop i) := by
  fun_induction uniqLoop s i j last with
  | case1 s i j last h hc ih =>
    rw [ih (by omega)]
    have hd : s.toList.drop i = s[i] :: s.toList.drop (i + 1) := by
      rw [← Array.getElem_toList]; exact List.drop_eq_getElem_cons (by simpa using h)
    rw [hd]
    simp only [lastOpt, hc.2, if_false, dedupAdjBy, id, hc.1, if_true, Nat.add_eq_zero_iff, and_false, Nat.succ_ne_self]
  | case2 s i j last h hc ih =>
    rw [ih (by omega), swap_take hj h, swap_drop hj h]
    have hd : s.toList.drop i = s[i] :: s.toList.drop (i + 1) := by
      rw [← Array.getElem_toList]; exact List.drop_eq_getElem_cons (by simpa using h)
    rw [hd]
    have hl1 : lastOpt (i + 1) s[i] = some s[i] := by simp [lastOpt]
    rw [hl1]
    by_cases h0 : i = 0
    · simp [lastOpt, h0, dedupAdjBy]
    · have hne : ¬ s[i] = last := fun e => hc ⟨e, h0⟩
      simp [lastOpt, h0, dedupAdjBy, hne]
  | case3 s i j last h =>
    have : s.toList.drop i = [] := List.drop_eq_nil_of_le (by simpa using Nat.le_of_not_lt h)
    rw [this]
    cases lastOpt i last <;> simp [dedupAdjBy]

theorem uniqLoop_perm (s : Array String) (i j : Nat) (last : String) :
    (uniqLoop s i j last).1.toList.Perm s.toList := by
  fun_induction uniqLoop s i j last with
  | case1 s i j last h hc ih => exact ih
  | case2 s i j last h hc ih =>
    refine ih.trans ?_
    unfold Array.swapIfInBounds
    split
    · split
      · exact (Array.swap_perm _ _).toList
      · exact List.Perm.refl _
    · exact absurd h ‹_›
  | case3 s i j last h => exact List.Perm.refl _

theorem uniqLoop_le (s : Array String) (i j : Nat) (last : String) (hj : j ≤ i) (hi : i ≤ s.size) :
    (uniqLoop s i j last).2 ≤ (uniqLoop s i j last).1.size := by
  fun_induction uniqLoop s i j last with
  | case1 s i j last h hc ih => exact ih (by omega) (by omega)
  | case2 s i j last h hc ih => exact ih (by omega) (by simp only [Array.size_swapIfInBounds]; omega)
  | case3 s i j last h => simp; omega

/-- the prefix `Unique` leaves = adjacent dedupe of the sorted slice -/
theorem uniqueGo_prefix (s : Array String) :
    (uniqueGo s).1.toList.take (uniqueGo s).2 = dedupAdjBy id none (sortStrings s.toList) := by
  unfold uniqueGo
  rw [uniqLoop_sim _ 0 0 "" (Nat.le_refl _)]
  simp [lastOpt]

theorem sortStrings_idem (l : List String) : sortStrings (sortStrings l) = sortStrings l := by
  apply isortBy_of_sorted
  have := sortStrings_sorted l
  exact this.imp (by intro a b h; simpa using h)

theorem sortUnique_eq (xs : List String) : sortUnique xs = dedupAdjBy id none (sortStrings xs) := by
  unfold sortUnique
  simp only []
  rw [uniqueGo_prefix]
  simp [sortStrings_idem]

theorem sortUnique_strict (xs : List String) : (sortUnique xs).Pairwise (· < ·) := by
  rw [sortUnique_eq]
  exact (dedup_spec id _ none (sortStrings_sorted xs) (by intro k hk; cases hk)).1

theorem mem_sortUnique {xs : List String} {x : String} : x ∈ sortUnique xs ↔ x ∈ xs := by
  rw [sortUnique_eq]
  obtain ⟨_, _, p3, p4⟩ := dedup_spec id _ none (sortStrings_sorted xs) (by intro k hk; cases hk)
  constructor
  · intro h; exact mem_sortStrings.mp (p3 x h)
  · intro h
    rcases p4 x (mem_sortStrings.mpr h) with h' | ⟨y, hy, e⟩
    · cases h'
    · simp only [id] at e; exact e ▸ hy

end Eru.Lock

namespace Eru.Lock

theorem lookupAll_some {get : String → Option Node} : ∀ {l : List String} {ns : List Node},
    lookupAll get l = some ns → ∀ n, n ∈ ns ↔ ∃ x ∈ l, get x = some n := by
  intro l
  induction l with
  | nil => intro ns h n; simp [lookupAll] at h; subst h; simp
  | cons a rest ih =>
    intro ns h n
    simp only [lookupAll] at h
    cases hg : get a with
    | none => simp [hg] at h
    | some nd =>
      simp only [hg] at h
      cases hr : lookupAll get rest with
      | none => simp [hr] at h
      | some ns' =>
        simp only [hr, Option.map_some, Option.some.injEq] at h
        subst h
        have := ih hr n
        simp only [List.mem_cons, this]
        constructor
        · rintro (e | ⟨x, hx, hgx⟩)
          · exact ⟨a, Or.inl rfl, by rw [hg, e]⟩
          · exact ⟨x, Or.inr hx, hgx⟩
        · rintro ⟨x, (e | hx), hgx⟩
          · left; subst e; rw [hg] at hgx; exact (Option.some.inj hgx).symm
          · right; exact ⟨x, hx, hgx⟩

theorem lookupAll_none {get : String → Option Node} : ∀ {l : List String},
    lookupAll get l = none ↔ ∃ x ∈ l, get x = none := by
  intro l
  induction l with
  | nil => simp [lookupAll]
  | cons a rest ih =>
    simp only [lookupAll]
    cases hg : get a with
    | none => simp [hg]
    | some nd =>
      simp only [List.mem_cons, Option.map_eq_none_iff, ih]
      constructor
      · rintro ⟨x, hx, h⟩; exact ⟨x, Or.inr hx, h⟩
      · rintro ⟨x, (e | hx), h⟩
        · subst e; rw [hg] at h; cases h
        · exact ⟨x, hx, h⟩

theorem getNode_some {st : List Node} {x : String} {n : Node} (h : getNode st x = some n) :
    n ∈ st ∧ n.name = x := by
  unfold getNode at h
  exact ⟨List.mem_of_find?_eq_some h, by simpa using List.find?_some h⟩

theorem getNode_of_mem {st : List Node} (hst : (st.map (·.name)).Nodup) {n : Node} (hn : n ∈ st) :
    getNode st n.name = some n := by
  induction st with
  | nil => cases hn
  | cons a rest ih =>
    simp only [List.map_cons, List.nodup_cons] at hst
    unfold getNode
    rw [List.find?_cons]
    rcases List.mem_cons.mp hn with e | h
    · subst e; simp
    · have hne : a.name ≠ n.name := fun e => hst.1 (e ▸ List.mem_map_of_mem h)
      have hb : (a.name == n.name) = false := by simp [hne]
      simp only [hb]
      exact ih hst.2 h

theorem nodup_name_inj {st : List Node} (hst : (st.map (·.name)).Nodup) {a b : Node}
    (ha : a ∈ st) (hb : b ∈ st) (e : a.name = b.name) : a = b := by
  have h1 := getNode_of_mem hst ha
  have h2 := getNode_of_mem hst hb
  rw [e, h2] at h1
  exact (Option.some.inj h1).symm

/-- the deferred sort+dedupe keeps exactly the given nodes, each once, ascending by name -/
theorem finish_spec (ns : List Node) (hf : ∀ a ∈ ns, ∀ b ∈ ns, a.name = b.name → a = b) :
    (finish ns).Pairwise (fun a b => a.name < b.name) ∧ ∀ x, x ∈ finish ns ↔ x ∈ ns := by
  unfold finish
  split
  · rename_i h0
    have : ns = [] := List.eq_nil_of_length_eq_zero h0
    subst this; simp
  · obtain ⟨p1, _, p3, p4⟩ := dedup_spec Node.name _ none (sortByName_sorted ns) (by intro k hk; cases hk)
    refine ⟨p1, fun x => ⟨fun h => mem_sortByName.mp (p3 x h), fun h => ?_⟩⟩
    rcases p4 x (mem_sortByName.mpr h) with h' | ⟨y, hy, e⟩
    · cases h'
    · have : y = x := hf y (mem_sortByName.mp (p3 y hy)) x h e
      exact this ▸ hy

theorem strictAsc_of_pairwise : ∀ {l : List String}, l.Pairwise (· < ·) → strictAsc l = true := by
  intro l
  induction l with
  | nil => intro _; rfl
  | cons a rest ih =>
    intro h
    cases rest with
    | nil => rfl
    | cons b r =>
      have p := List.pairwise_cons.mp h
      simp only [strictAsc, Bool.and_eq_true, decide_eq_true_eq]
      exact ⟨p.1 b List.mem_cons_self, ih p.2⟩

theorem pairwise_of_strictAsc : ∀ {l : List String}, strictAsc l = true → l.Pairwise (· < ·) := by
  intro l
  induction l with
  | nil => intro _; exact List.Pairwise.nil
  | cons a rest ih =>
    intro h
    cases rest with
    | nil => simp
    | cons b r =>
      simp only [strictAsc, Bool.and_eq_true, decide_eq_true_eq] at h
      have pr := ih h.2
      refine List.pairwise_cons.mpr ⟨?_, pr⟩
      intro c hc
      rcases List.mem_cons.mp hc with e | hc'
      · exact e ▸ h.1
      · exact String.lt_trans h.1 ((List.pairwise_cons.mp pr).1 c hc')

theorem selected_inc {st : List Node} {nf : NodeFilter} {n : Node} (h : nf.includes.length ≠ 0) :
    selected st nf n = (nf.includes.contains n.name && st.contains n) := by
  unfold selected; rw [if_pos h]

theorem selected_pod {st : List Node} {nf : NodeFilter} {n : Node} (h : ¬ nf.includes.length ≠ 0) :
    selected st nf n = (st.contains n && listable nf n && !nf.excludes.contains n.name) := by
  unfold selected; rw [if_neg h]

theorem filter_disjoint_perm {α : Type} (p1 p2 : α → Bool) (l : List α)
    (hd : ∀ a ∈ l, ¬ (p1 a = true ∧ p2 a = true)) :
    (l.filter p1 ++ l.filter p2).Perm (l.filter fun a => p1 a || p2 a) := by
  induction l with
  | nil => exact List.Perm.refl _
  | cons a l ih =>
    have ih' := ih (fun b hb => hd b (List.mem_cons_of_mem _ hb))
    have ha := hd a List.mem_cons_self
    cases h1 : p1 a <;> cases h2 : p2 a
    · simp only [List.filter_cons, h1, h2, Bool.or_self, Bool.false_eq_true, if_false]; exact ih'
    · simp only [List.filter_cons, h1, h2, Bool.false_or, Bool.false_eq_true, if_false, if_true]
      exact List.perm_middle.trans (List.Perm.cons a ih')
    · simp only [List.filter_cons, h1, h2, Bool.or_false, Bool.false_eq_true, if_false, if_true, List.cons_append]
      exact List.Perm.cons a ih'
    · exact absurd ⟨h1, h2⟩ ha

/-- listing pod by pod (pods distinct) = listing the nodes whose pod is among the pods -/
theorem flatMap_pods_perm (q : Node → Bool) (st : List Node) : ∀ (pods : List String), pods.Nodup →
    (pods.flatMap fun pd => st.filter fun n => n.pod == pd && q n).Perm
      (st.filter fun n => pods.contains n.pod && q n) := by
  intro pods
  induction pods with
  | nil => intro _; simp
  | cons pd ps ih =>
    intro hnd
    have hnd' := List.nodup_cons.mp hnd
    simp only [List.flatMap_cons]
    refine (List.Perm.append_left _ (ih hnd'.2)).trans ?_
    refine (filter_disjoint_perm _ _ st ?_).trans ?_
    · intro a _ ⟨h1, h2⟩
      simp only [Bool.and_eq_true, beq_iff_eq, List.contains_iff_mem] at h1 h2
      exact hnd'.1 (h1.1 ▸ h2.1)
    · apply List.Perm.of_eq
      apply List.filter_congr
      intro a _
      by_cases h : a.pod = pd
      · simp [h]
      · have : (pd == a.pod) = false := by simp [Ne.symm h]
        simp [h, List.contains_cons, this]

end Eru.Lock
