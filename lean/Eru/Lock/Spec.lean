import Eru.Lock.Redis
import Eru.Lock.Etcd
/-
Protocol-independent specification of C18/C19, evaluated by the oracle on the results the
IMPLEMENTATION returned for a schedule (and proved of the models' own replay in ProofsSpec.lean).

The spec keeps its own book: holders = clients whose Lock/TryLock/join returned success and that have
not unlocked, with the server time of the acquisition; a holder is within its lease until
`acquiredAt + ttl` on the server clock (Redis) / until its lease is revoked (etcd).
-/
namespace Eru.Lock.Spec

inductive Op where
  | lock | tryLock | unlock | ff | lockAsync | join | revoke | observe | sleep | unknown
  deriving Repr, DecidableEq

structure SCmd where
  op : Op
  c : Nat
  dt : Nat
  deriving Repr

/-- classes of call results -/
inductive Out where
  | acquired | refused | blocked | ctxLive | ctxDone | ctxPlain | other
  deriving Repr, DecidableEq

/-- timing observations of the harness -/
inductive Flag where
  | none | slow | early | late
  deriving Repr, DecidableEq

structure SpecSt where
  now : Nat := 0
  holders : List (Nat × Nat) := []     -- (client, acquired at)
  lost : List Nat := []                -- etcd: clients whose lease was revoked
  viol : List String := []
  overlap : Bool := false              -- some acquisition happened while another client was inside (lease gone)
  queued : List Nat := []              -- waiters blocked in Lock (etcd: their key is in the queue)
  stale : List Nat := []               -- waiters whose wait deadline may have passed meanwhile (a blocking
                                       -- call of another client or a sleep consumed wall time): their
                                       -- later refusal is not judged
  slept : Nat := 0                     -- total `sleep` time so far
  since : List (Nat × Nat) := []       -- waiter ↦ value of `slept` when it started waiting

def tagTwoHolders := "C18:two-holders-within-lease"

def withinLease (redis : Bool) (ttl : Nat) (st : SpecSt) (h : Nat × Nat) : Bool :=
  if redis then decide (st.now < h.2 + ttl) else !st.lost.contains h.1

def isAcq : Op → Bool
  | .lock | .tryLock | .lockAsync | .join => true
  | _ => false

def liveOthers (redis : Bool) (ttl : Nat) (st : SpecSt) (c : Nat) : List (Nat × Nat) :=
  st.holders.filter fun h => h.1 != c && withinLease redis ttl st h

/-- a successful acquisition -/
def onAcquired (redis : Bool) (ttl : Nat) (st : SpecSt) (c : Nat) : SpecSt :=
  let already := st.holders.any (·.1 == c)
  let v := if (liveOthers redis ttl st c).isEmpty then [] else [tagTwoHolders]
  let others := st.holders.filter (·.1 != c)
  { st with holders := if already then st.holders else (c, st.now) :: st.holders, viol := st.viol ++ v,
            overlap := st.overlap || (!already && !others.isEmpty), queued := st.queued.filter (· != c) }

def sinceOf (st : SpecSt) (c : Nat) : Nat := ((st.since.find? (·.1 == c)).map (·.2)).getD 0

def tagRefused := "C18:refused-when-free"
def tagBlocked := "C18:blocked-when-free"

/-- is a refusal judged, and wrong?  A client blocked in Lock may get the key at any moment (etcd: its
    queued key is older; redis: its next retry), so refusing a later client then is legitimate.  A
    redis waiter only looks again at its retry instants (every `interval`): with a wait timeout of at
    most one interval it never retries before its deadline.  A `join` is judged only for a waiter the
    book knows as pending and not stale; a client whose own lease was revoked is not judged. -/
def wronglyRefused (redis : Bool) (ttl wait interval : Nat) (st : SpecSt) (c : SCmd) : Bool :=
  let behindQueue := !(st.queued.filter (· != c.c)).isEmpty
  let neverRetries := redis && decide (wait ≤ interval)
  let joinJudged := st.queued.contains c.c && !st.stale.contains c.c && !neverRetries
  (liveOthers redis ttl st c.c).isEmpty && !behindQueue && !st.lost.contains c.c &&
    (c.op == .lock || c.op == .tryLock || (c.op == .join && joinJudged))

/-- clauses about a refused acquisition -/
def refusedViol (redis : Bool) (ttl wait interval : Nat) (st : SpecSt) (c : SCmd) (flag : Flag) : List String :=
  (if wronglyRefused redis ttl wait interval st c then [tagRefused] else []) ++
  (if c.op == .tryLock && flag == .slow then ["C18:trylock-waited"] else []) ++
  -- a waiting Lock fails when its wait timeout expires: not (much) before, not (much) after
  (if c.op != .tryLock && flag == .early then ["C18:waiter-gave-up-early"] else []) ++
  (if c.op != .tryLock && flag == .late then ["C18:waiter-overstayed"] else [])

/-- calls that consume wall time (a blocking Lock that ran into its deadline, a `join`): every
    waiter still pending may have passed its own deadline meanwhile -/
def consumesTime : Op → Bool
  | .lock | .join => true
  | _ => false

def tagD15 := "C19:redis-ttl-expiry-not-signalled"
def tagNotSignalled := "C19:etcd-loss-not-signalled"

/-- C19: what an observed lock context must look like -/
def observeViol (redis : Bool) (ttl : Nat) (st : SpecSt) (c : Nat) (res : Out) (flag : Flag) : List String :=
  match st.holders.find? (·.1 == c) with
  | some h =>
    -- the loss itself must be reported: a context that merely ended with its upstream (plain
    -- cancellation / deadline) has not told the holder anything
    if !withinLease redis ttl st h && (res == .ctxLive || res == .ctxPlain) then
      [if redis then tagD15 else tagNotSignalled]
    else if !withinLease redis ttl st h && flag == .slow then ["C19:signalled-late"]
    else if withinLease redis ttl st h && res == .ctxDone then ["C19:cancelled-while-holding"]
    else []
  | none => []

def specStep (redis : Bool) (ttl wait interval : Nat) (st : SpecSt) (c : SCmd) (res : Out) (flag : Flag) : SpecSt :=
  match isAcq c.op, res with
  | true, .acquired =>
    let st1 := onAcquired redis ttl st c.c
    if c.op == .join then { st1 with stale := st1.queued ++ st1.stale } else st1
  | true, .refused =>
    let q := st.queued.filter (· != c.c)
    { st with viol := st.viol ++ refusedViol redis ttl wait interval st c flag, queued := q,
              stale := if consumesTime c.op then q ++ st.stale else st.stale }
  | true, .blocked =>
    let behindQueue := !(st.queued.filter (· != c.c)).isEmpty
    { st with viol := st.viol ++ (if (liveOthers redis ttl st c.c).isEmpty && !behindQueue then [tagBlocked] else []),
              queued := c.c :: st.queued, stale := st.stale.filter (· != c.c), since := (c.c, st.slept) :: st.since }
  | _, _ =>
    match c.op with
    | .unlock => { st with holders := st.holders.filter (·.1 != c.c) }
    | .ff => { st with now := st.now + c.dt }
    | .revoke => { st with lost := c.c :: st.lost }
    | .sleep =>
      -- a waiter that has slept through its whole wait timeout has given up
      { st with slept := st.slept + c.dt,
                stale := (st.queued.filter fun q => decide (wait + sinceOf st q ≤ st.slept + c.dt)) ++ st.stale }
    | .observe => { st with viol := st.viol ++ observeViol redis ttl st c.c res flag }
    | _ => st

/-- run the spec over a schedule with its results and timing flags (missing flags = none) -/
def specRun (redis : Bool) (ttl wait interval : Nat) : SpecSt → List SCmd → List Out → List Flag → SpecSt
  | st, c :: cs, r :: rs, f :: fs => specRun redis ttl wait interval (specStep redis ttl wait interval st c r f) cs rs fs
  | st, c :: cs, r :: rs, [] => specRun redis ttl wait interval (specStep redis ttl wait interval st c r .none) cs rs []
  | st, _, _, _ => st

/-! ### the schedules as the models see them -/

def ofRedis : Redis.Cmd → SCmd
  | .lock i => ⟨.lock, i, 0⟩ | .tryLock i => ⟨.tryLock, i, 0⟩ | .unlock i => ⟨.unlock, i, 0⟩
  | .ff dt => ⟨.ff, 0, dt⟩ | .lockAsync i => ⟨.lockAsync, i, 0⟩ | .join i => ⟨.join, i, 0⟩
  | .observe i => ⟨.observe, i, 0⟩
  | .cancelCtx i => ⟨.unknown, i, 0⟩

def classRedis : Redis.Res → Out
  | .acquired => .acquired | .notObtained => .refused | .blocked => .blocked
  | .ctxLive => .ctxLive | .ctxCancelled => .ctxDone
  | _ => .other

def ofEtcd : Etcd.Cmd → SCmd
  | .lock i => ⟨.lock, i, 0⟩ | .tryLock i => ⟨.tryLock, i, 0⟩ | .unlock i => ⟨.unlock, i, 0⟩
  | .lockAsync i => ⟨.lockAsync, i, 0⟩ | .join i => ⟨.join, i, 0⟩ | .sleep dt => ⟨.sleep, 0, dt⟩
  | .revoke i => ⟨.revoke, i, 0⟩ | .observe i => ⟨.observe, i, 0⟩
  | .cancelCtx i => ⟨.unknown, i, 0⟩

def classEtcd : Etcd.Res → Out
  | .acquired => .acquired | .locked => .refused | .timeout => .refused | .sessionExpired => .refused
  | .blocked => .blocked | .ctxLive => .ctxLive | .ctxCancelled => .ctxDone
  | _ => .other

end Eru.Lock.Spec

namespace Eru.Lock.Spec
/-- C19, several locks held by one critical section (Ctx.lean): the callback must have been told
    when any of its locks was lost -/
def multiKeyViol (lostFlags : List Bool) (seenLive : Bool) (late : Bool) : List String :=
  (if seenLive && lostFlags.any id then ["C19:lost-lock-not-signalled:multi-key"] else []) ++
  (if late then ["C19:signalled-late"] else [])
end Eru.Lock.Spec
