import Eru.Lock.Redis
import Eru.Lock.Etcd
/-
Protocol-independent specification of C18/C19, evaluated by the oracle on the results the
IMPLEMENTATION returned for a schedule (and proved of the models' own replay in ProofsSpec.lean).

The spec keeps its own book: holders = clients whose Lock/TryLock/join returned success and that have
not unlocked, with the server time of the acquisition; a holder is within its lease until
`acquiredAt + ttl` on the server clock (Redis) / until its lease is revoked (etcd).
-/
namespace Eru.Lock.Spec

inductive Op where
  | lock | tryLock | unlock | ff | lockAsync | join | revoke | observe | sleep | unknown
  deriving Repr, DecidableEq

structure SCmd where
  op : Op
  c : Nat
  dt : Nat
  deriving Repr

/-- classes of call results -/
inductive Out where
  | acquired | refused | blocked | ctxLive | ctxDone | ctxPlain | other
  deriving Repr, DecidableEq

/-- timing observations of the harness -/
inductive Flag where
  | none | slow | early | late
  deriving Repr, DecidableEq

structure SpecSt where
  now : Nat := 0
  holders : List (Nat × Nat) := []     -- (client, acquired at)
  lost : List Nat := []                -- etcd: clients whose lease was revoked
  viol : List String := []
  overlap : Bool := false              -- some acquisition happened while another client was inside (lease gone)
  queued : List Nat := []              -- waiters blocked in Lock (etcd: their key is in the queue)

def tagTwoHolders := "C18:two-holders-within-lease"

def withinLease (redis : Bool) (ttl : Nat) (st : SpecSt) (h : Nat × Nat) : Bool :=
  if redis then decide (st.now < h.2 + ttl) else !st.lost.contains h.1

def isAcq : Op → Bool
  | .lock | .tryLock | .lockAsync | .join => true
  | _ => false

def liveOthers (redis : Bool) (ttl : Nat) (st : SpecSt) (c : Nat) : List (Nat × Nat) :=
  st.holders.filter fun h => h.1 != c && withinLease redis ttl st h

/-- a successful acquisition -/
def onAcquired (redis : Bool) (ttl : Nat) (st : SpecSt) (c : Nat) : SpecSt :=
  let already := st.holders.any (·.1 == c)
  let v := if (liveOthers redis ttl st c).isEmpty then [] else [tagTwoHolders]
  let others := st.holders.filter (·.1 != c)
  { st with holders := if already then st.holders else (c, st.now) :: st.holders, viol := st.viol ++ v,
            overlap := st.overlap || (!already && !others.isEmpty), queued := st.queued.filter (· != c) }

/-- clauses about a refused acquisition -/
def refusedViol (redis : Bool) (ttl wait : Nat) (st : SpecSt) (c : SCmd) (flag : Flag) : List String :=
  -- a client blocked in Lock may get the key at any moment (etcd: its queued key is older; redis: its
  -- next retry): refusing a later client then is legitimate
  let behindQueue := !(st.queued.filter (· != c.c)).isEmpty
  -- a redis waiter only looks again at its retry instants (every 500 ms): with a wait timeout of at
  -- most one interval it never retries before its deadline
  let neverRetries := redis && c.op == .join && decide (wait ≤ 500)
  (if (liveOthers redis ttl st c.c).isEmpty && !behindQueue && !neverRetries && c.op != .lockAsync then ["C18:refused-when-free"] else []) ++
  (if c.op == .tryLock && flag == .slow then ["C18:trylock-waited"] else []) ++
  -- a waiting Lock fails when its wait timeout expires: not (much) before, not (much) after
  (if c.op != .tryLock && flag == .early then ["C18:waiter-gave-up-early"] else []) ++
  (if c.op != .tryLock && flag == .late then ["C18:waiter-overstayed"] else [])

/-- C19: what an observed lock context must look like -/
def observeViol (redis : Bool) (ttl : Nat) (st : SpecSt) (c : Nat) (res : Out) (flag : Flag) : List String :=
  match st.holders.find? (·.1 == c) with
  | some h =>
    -- the loss itself must be reported: a context that merely ended with its upstream (plain
    -- cancellation / deadline) has not told the holder anything
    if !withinLease redis ttl st h && (res == .ctxLive || res == .ctxPlain) then
      [if redis then "C19:redis-ttl-expiry-not-signalled" else "C19:etcd-loss-not-signalled"]
    else if !withinLease redis ttl st h && flag == .slow then ["C19:signalled-late"]
    else if withinLease redis ttl st h && res == .ctxDone then ["C19:cancelled-while-holding"]
    else []
  | none => []

def specStep (redis : Bool) (ttl wait : Nat) (st : SpecSt) (c : SCmd) (res : Out) (flag : Flag) : SpecSt :=
  match isAcq c.op, res with
  | true, .acquired => onAcquired redis ttl st c.c
  | true, .refused =>
    { st with viol := st.viol ++ refusedViol redis ttl wait st c flag, queued := st.queued.filter (· != c.c) }
  | true, .blocked =>
    let behindQueue := !(st.queued.filter (· != c.c)).isEmpty
    { st with viol := st.viol ++ (if (liveOthers redis ttl st c.c).isEmpty && !behindQueue then ["C18:blocked-when-free"] else []),
              queued := c.c :: st.queued }
  | _, _ =>
    match c.op with
    | .unlock => { st with holders := st.holders.filter (·.1 != c.c) }
    | .ff => { st with now := st.now + c.dt }
    | .revoke => { st with lost := c.c :: st.lost }
    | .observe => { st with viol := st.viol ++ observeViol redis ttl st c.c res flag }
    | _ => st

/-- run the spec over a schedule with its results and timing flags (missing flags = none) -/
def specRun (redis : Bool) (ttl wait : Nat) : SpecSt → List SCmd → List Out → List Flag → SpecSt
  | st, c :: cs, r :: rs, f :: fs => specRun redis ttl wait (specStep redis ttl wait st c r f) cs rs fs
  | st, c :: cs, r :: rs, [] => specRun redis ttl wait (specStep redis ttl wait st c r .none) cs rs []
  | st, _, _, _ => st

/-! ### the schedules as the models see them -/

def ofRedis : Redis.Cmd → SCmd
  | .lock i => ⟨.lock, i, 0⟩ | .tryLock i => ⟨.tryLock, i, 0⟩ | .unlock i => ⟨.unlock, i, 0⟩
  | .ff dt => ⟨.ff, 0, dt⟩ | .lockAsync i => ⟨.lockAsync, i, 0⟩ | .join i => ⟨.join, i, 0⟩
  | .observe i => ⟨.observe, i, 0⟩
  | .cancelCtx i => ⟨.unknown, i, 0⟩

def classRedis : Redis.Res → Out
  | .acquired => .acquired | .notObtained => .refused | .blocked => .blocked
  | .ctxLive => .ctxLive | .ctxCancelled => .ctxDone
  | _ => .other

def ofEtcd : Etcd.Cmd → SCmd
  | .lock i => ⟨.lock, i, 0⟩ | .tryLock i => ⟨.tryLock, i, 0⟩ | .unlock i => ⟨.unlock, i, 0⟩
  | .lockAsync i => ⟨.lockAsync, i, 0⟩ | .join i => ⟨.join, i, 0⟩ | .sleep dt => ⟨.sleep, 0, dt⟩
  | .revoke i => ⟨.revoke, i, 0⟩ | .observe i => ⟨.observe, i, 0⟩
  | .cancelCtx i => ⟨.unknown, i, 0⟩

def classEtcd : Etcd.Res → Out
  | .acquired => .acquired | .locked => .refused | .timeout => .refused | .sessionExpired => .refused
  | .blocked => .blocked | .ctxLive => .ctxLive | .ctxCancelled => .ctxDone
  | _ => .other

end Eru.Lock.Spec
