def hello := "world"
