import Eru.Store.Status
/- Simulation proofs: the Redis and etcd status protocols refine the visibility specification. -/
namespace Eru.Store.Status
open Eru.Store

/-! ### Redis -/
def RInv (r : Redis) (s : Spec) : Prop :=
  match r.key with
  | none => s.visible = none
  | some (v, rem) =>
    if rem = 0 then ∃ t, s.last = some (t, 0, v)
    else ∃ t ttl, s.last = some (t, ttl, v) ∧ 0 < ttl ∧ t + ttl = s.now + rem

theorem rinv_init : RInv {} {} := by simp [RInv, Spec.visible]

theorem rinv_visible {r : Redis} {s : Spec} (h : RInv r s) : r.visible = s.visible := by
  unfold RInv at h
  unfold Redis.visible Spec.visible
  cases hk : r.key with
  | none => simp only [hk] at h; simpa [Spec.visible] using h.symm
  | some p =>
    obtain ⟨v, rem⟩ := p
    simp only [hk] at h
    by_cases hr : rem = 0
    · simp only [hr, ↓reduceIte] at h
      obtain ⟨t, ht⟩ := h
      simp [ht]
    · simp only [hr, ↓reduceIte] at h
      obtain ⟨t, ttl, ht, hpos, heq⟩ := h
      have : s.now < t + ttl := by omega
      simp [ht, this]

theorem rinv_step {r : Redis} {s : Spec} (h : RInv r s) (ev : Ev) :
    RInv (r.step true ev).1 (s.step ev) ∧ (r.step true ev).2 = s.accepts ev := by
  cases ev with
  | report v ttl ex =>
    simp only [Redis.step, Spec.step, Spec.accepts, accepted]
    by_cases h0 : ttl = 0
    · subst h0; simp [RInv]
    · cases ex with
      | true =>
        have : 0 < ttl := Nat.pos_of_ne_zero h0
        simp [h0, RInv]
        exact ⟨s.now, ttl, ⟨rfl, rfl⟩, this, rfl⟩
      | false => simpa [h0] using h
  | remove => simp [Redis.step, Spec.step, Spec.accepts, RInv, Spec.visible]
  | tick d =>
    refine ⟨?_, rfl⟩
    unfold RInv at h ⊢
    simp only [Redis.step, Spec.step]
    cases hk : r.key with
    | none =>
      simp only [hk] at h ⊢
      unfold Spec.visible at h ⊢
      cases hl : s.last with
      | none => simp
      | some q =>
        obtain ⟨t, ttl, v⟩ := q
        simp only [hl] at h ⊢
        by_cases hc : ttl = 0 ∨ s.now < t + ttl
        · simp [hc] at h
        · have : ¬ (ttl = 0 ∨ s.now + d < t + ttl) := by omega
          simp [this]
    | some p =>
      obtain ⟨v, rem⟩ := p
      simp only [hk] at h ⊢
      by_cases hr : rem = 0
      · subst hr
        simp only [↓reduceIte, hk] at h ⊢
        exact h
      · simp only [hr, ↓reduceIte] at h ⊢
        obtain ⟨t, ttl, ht, hpos, heq⟩ := h
        by_cases hle : rem ≤ d
        · simp only [hle, ↓reduceIte, Spec.visible, ht]
          have : ¬ (ttl = 0 ∨ s.now + d < t + ttl) := by omega
          simp [this]
        · simp only [hle, ↓reduceIte]
          have : ¬ (rem - d = 0) := by omega
          simp only [this, ↓reduceIte]
          exact ⟨t, ttl, ht, hpos, by omega⟩

/-! ### etcd -/
structure EInv (e : Etcd) (s : Spec) : Prop where
  now : e.now = s.now
  fresh : ∀ i, e.next ≤ i → e.leases i = none
  pos : 1 ≤ e.next
  alive : ∀ i g dl, e.leases i = some (g, dl) → e.now < dl ∧ 0 < g
  key : match e.key with
    | none => s.visible = none
    | some (v, l) =>
      if l = 0 then ∃ t, s.last = some (t, 0, v)
      else ∃ t ttl, e.leases l = some (ttl, t + ttl) ∧ s.last = some (t, ttl, v) ∧ 0 < ttl

theorem einv_init : EInv {} {} :=
  { now := rfl, fresh := by intros; rfl, pos := by decide, alive := by intro i g dl h; simp at h,
    key := by simp [Spec.visible] }

theorem einv_visible {e : Etcd} {s : Spec} (h : EInv e s) : e.visible = s.visible := by
  have hk := h.key
  unfold Etcd.visible Spec.visible
  cases hkey : e.key with
  | none => simp only [hkey] at hk; simpa [Spec.visible] using hk.symm
  | some p =>
    obtain ⟨v, l⟩ := p
    simp only [hkey] at hk
    by_cases hl : l = 0
    · simp only [hl, ↓reduceIte] at hk
      obtain ⟨t, ht⟩ := hk
      simp [ht]
    · simp only [hl, ↓reduceIte] at hk
      obtain ⟨t, ttl, hlease, ht, hpos⟩ := hk
      have := (h.alive l ttl (t + ttl) hlease).1
      have : s.now < t + ttl := by rw [← h.now]; exact this
      simp [ht, this]


theorem spec_invisible_tick {s : Spec} (d : Nat) (h : s.visible = none) :
    ({ s with now := s.now + d } : Spec).visible = none := by
  unfold Spec.visible at h ⊢
  cases hl : s.last with
  | none => simp
  | some q =>
    obtain ⟨t, ttl, v⟩ := q
    simp only [hl] at h ⊢
    by_cases hc : ttl = 0 ∨ s.now < t + ttl
    · simp [hc] at h
    · have : ¬ (ttl = 0 ∨ s.now + d < t + ttl) := by omega
      simp [this]

theorem einv_remove {e : Etcd} {s : Spec} (h : EInv e s) :
    EInv (e.step .remove).1 (s.step .remove) :=
  { now := h.now, fresh := h.fresh, pos := h.pos, alive := h.alive,
    key := by simp [Etcd.step, Spec.step, Spec.visible] }

theorem einv_tick {e : Etcd} {s : Spec} (h : EInv e s) (d : Nat) :
    EInv (e.step (.tick d)).1 (s.step (.tick d)) := by
  have hk := h.key
  refine { now := ?_, fresh := ?_, pos := h.pos, alive := ?_, key := ?_ }
  · simp [Etcd.step, Spec.step, h.now]
  · intro i hi
    simp only [Etcd.step] at hi ⊢
    simp [h.fresh i hi]
  · intro i g dl hl
    simp only [Etcd.step] at hl ⊢
    cases ho : e.leases i with
    | none => simp [ho] at hl
    | some q =>
      obtain ⟨g0, dl0⟩ := q
      simp only [ho] at hl
      by_cases hc : e.now + d < dl0
      · simp only [hc, ↓reduceIte, Option.some.injEq, Prod.mk.injEq] at hl
        obtain ⟨rfl, rfl⟩ := hl
        exact ⟨hc, (h.alive i g0 dl0 ho).2⟩
      · simp [hc] at hl
  · simp only [Etcd.step, Spec.step]
    cases hkey : e.key with
    | none =>
      simp only [hkey] at hk ⊢
      exact spec_invisible_tick d hk
    | some p =>
      obtain ⟨v, l⟩ := p
      simp only [hkey] at hk ⊢
      by_cases hl : l = 0
      · simp only [hl, ↓reduceIte] at hk ⊢
        exact hk
      · simp only [hl, ↓reduceIte] at hk ⊢
        obtain ⟨t, ttl, hlease, ht, hpos⟩ := hk
        simp only [hlease]
        by_cases hc : e.now + d < t + ttl
        · simp only [hc, ↓reduceIte, Option.isSome_some, hl]
          exact ⟨t, ttl, by simp [hlease, hc], ht, hpos⟩
        · simp only [hc, ↓reduceIte, Option.isSome_none, Bool.false_eq_true, Spec.visible, ht]
          have : ¬ (ttl = 0 ∨ s.now + d < t + ttl) := by rw [← h.now]; omega
          simp [this]


theorem einv_report0 {e : Etcd} {s : Spec} (h : EInv e s) (v : Nat) (ex : Bool) :
    EInv (e.step (.report v 0 ex)).1 (s.step (.report v 0 ex)) ∧ (e.step (.report v 0 ex)).2 = true := by
  have hk := h.key
  have hspec : s.step (.report v 0 ex) = { s with last := some (s.now, 0, v) } := by
    simp [Spec.step, accepted]
  rw [hspec]
  simp only [Etcd.step, Etcd.bind, ↓reduceIte]
  have mk : ∀ (e' : Etcd), e'.now = e.now → e'.next = e.next → e'.leases = e.leases → e'.key = some (v, 0) →
      EInv e' { s with last := some (s.now, 0, v) } := by
    intro e' h1 h2 h3 h4
    exact { now := by rw [h1]; exact h.now, fresh := by rw [h2, h3]; exact h.fresh, pos := by rw [h2]; exact h.pos,
            alive := by rw [h1, h3]; exact h.alive, key := by rw [h4]; simp }
  cases hkey : e.key with
  | none =>
    simp only [Etcd.isTTLChanged, hkey, ne_eq, not_true_eq_false, decide_false, Bool.false_eq_true, ↓reduceIte]
    exact ⟨mk _ rfl rfl rfl rfl, trivial⟩
  | some p =>
    obtain ⟨v0, l⟩ := p
    by_cases hc : e.isTTLChanged 0 = true
    · simp only [hc, ↓reduceIte]
      exact ⟨mk _ rfl rfl rfl rfl, trivial⟩
    · simp only [hc, Bool.false_eq_true, ↓reduceIte]
      by_cases hv : v0 = v
      · subst hv
        simp only [ne_eq, not_true_eq_false, ↓reduceIte, and_true]
        -- unchanged and not "ttl changed": the key carries no lease
        have hl : l = 0 := by
          by_cases hl : l = 0
          · exact hl
          · exfalso
            simp only [hkey, hl, ↓reduceIte] at hk
            obtain ⟨t, ttl, hlease, _, hpos⟩ := hk
            apply hc
            simp [Etcd.isTTLChanged, hkey, hl, hlease]; omega
        subst hl
        exact mk e rfl rfl rfl hkey
      · simp only [ne_eq, hv, not_false_eq_true, ↓reduceIte, and_true]
        exact mk _ rfl rfl rfl rfl


/-- the lease table after `Grant(ttl)` -/
def granted (e : Etcd) (ttl : Nat) : Nat → Option (Nat × Nat) :=
  fun i => if i = e.next then some (ttl, e.now + ttl) else e.leases i

theorem lease_lt_next {e : Etcd} {s : Spec} (h : EInv e s) {l : Nat} {q : Nat × Nat}
    (hl : e.leases l = some q) : l < e.next := by
  by_cases hc : l < e.next
  · exact hc
  · have := h.fresh l (by omega)
    rw [this] at hl; cases hl

/-- accepted report stored under the fresh lease -/
theorem einv_put_new {e : Etcd} {s : Spec} (h : EInv e s) (v ttl : Nat) (hpos : 0 < ttl) :
    EInv { now := e.now, next := e.next + 1, leases := granted e ttl, key := some (v, e.next) }
         { s with last := some (s.now, ttl, v) } := by
  refine { now := h.now, fresh := ?_, pos := by have := h.pos; simp, alive := ?_, key := ?_ }
  · intro i hi
    simp only at hi
    have : i ≠ e.next := by omega
    simp only [granted, this, ↓reduceIte]
    exact h.fresh i (by omega)
  · intro i g dl hl
    simp only [granted] at hl
    by_cases hi : i = e.next
    · simp only [hi, ↓reduceIte, Option.some.injEq, Prod.mk.injEq] at hl
      obtain ⟨rfl, rfl⟩ := hl
      simp; omega
    · simp only [hi, ↓reduceIte] at hl
      exact h.alive i g dl hl
  · have : e.next ≠ 0 := by have := h.pos; omega
    simp only [this, ↓reduceIte, granted]
    exact ⟨s.now, ttl, by rw [h.now], rfl, hpos⟩

/-- rejected report: the fresh lease is revoked again, nothing else changes -/
theorem einv_reject {e : Etcd} {s : Spec} (h : EInv e s) (ttl : Nat) :
    EInv { now := e.now, next := e.next + 1,
           leases := fun i => if i = e.next then none else granted e ttl i, key := e.key } s := by
  have same : ∀ i, (if i = e.next then none else granted e ttl i) = e.leases i := by
    intro i
    by_cases hi : i = e.next
    · simp only [hi, ↓reduceIte]; exact (h.fresh _ (Nat.le_refl _)).symm
    · simp [hi, granted]
  refine { now := h.now, fresh := ?_, pos := by have := h.pos; simp, alive := ?_, key := ?_ }
  · intro i hi
    simp only at hi ⊢
    rw [same]; exact h.fresh i (by omega)
  · intro i g dl hl
    simp only at hl
    rw [same] at hl
    exact h.alive i g dl hl
  · have hk := h.key
    cases hkey : e.key with
    | none => simp only [hkey] at hk ⊢; exact hk
    | some p =>
      obtain ⟨v, l⟩ := p
      simp only [hkey] at hk ⊢
      by_cases hl : l = 0
      · simp only [hl, ↓reduceIte] at hk ⊢; exact hk
      · simp only [hl, ↓reduceIte] at hk ⊢
        rw [same]; exact hk

/-- identical report: the fresh lease is revoked and the original lease renewed -/
theorem einv_renew {e : Etcd} {s : Spec} (h : EInv e s) (v ttl l dl : Nat) (hpos : 0 < ttl)
    (_hkey : e.key = some (v, l)) (hl0 : l ≠ 0) (hlease : e.leases l = some (ttl, dl)) :
    EInv { now := e.now, next := e.next + 1,
           leases := fun i => if i = l then some (ttl, e.now + ttl)
                              else (if i = e.next then none else granted e ttl i),
           key := some (v, l) }
         { s with last := some (s.now, ttl, v) } := by
  have hlt : l < e.next := lease_lt_next h hlease
  have same : ∀ i, (if i = e.next then none else granted e ttl i) = e.leases i := by
    intro i
    by_cases hi : i = e.next
    · simp only [hi, ↓reduceIte]; exact (h.fresh _ (Nat.le_refl _)).symm
    · simp [hi, granted]
  refine { now := h.now, fresh := ?_, pos := by have := h.pos; simp, alive := ?_, key := ?_ }
  · intro i hi
    simp only at hi ⊢
    have : i ≠ l := by omega
    simp only [this, ↓reduceIte]
    rw [same]; exact h.fresh i (by omega)
  · intro i g d hl
    simp only at hl
    by_cases hi : i = l
    · simp only [hi, ↓reduceIte, Option.some.injEq, Prod.mk.injEq] at hl
      obtain ⟨rfl, rfl⟩ := hl
      simp; omega
    · simp only [hi, ↓reduceIte] at hl
      rw [same] at hl
      exact h.alive i g d hl
  · simp only [hl0, ↓reduceIte]
    exact ⟨s.now, ttl, by rw [h.now], rfl, hpos⟩


theorem einv_congr {e e' : Etcd} {s : Spec} (h : EInv e s) (h1 : e'.now = e.now) (h2 : e'.next = e.next)
    (h3 : e'.leases = e.leases) (h4 : e'.key = e.key) : EInv e' s := by
  cases e; cases e'; simp only at h1 h2 h3 h4; subst h1 h2 h3 h4; exact h

/-- the key's lease is never the lease that is about to be granted -/
theorem key_lease_ne_next {e : Etcd} {s : Spec} (h : EInv e s) {v l : Nat} (hkey : e.key = some (v, l)) :
    ¬ (l = e.next ∧ l ≠ 0) := by
  intro ⟨h1, h2⟩
  have hk := h.key
  simp only [hkey, h2, ↓reduceIte] at hk
  obtain ⟨t, ttl, hlease, _, _⟩ := hk
  have := lease_lt_next h hlease
  omega

theorem revoke_next_key {e : Etcd} {s : Spec} (h : EInv e s) :
    (match e.key with
     | some (v, l) => if l = e.next ∧ l ≠ 0 then none else some (v, l)
     | none => none) = e.key := by
  cases hkey : e.key with
  | none => rfl
  | some p =>
    obtain ⟨v, l⟩ := p
    simp only [key_lease_ne_next h hkey, ↓reduceIte]

theorem einv_report_pos {e : Etcd} {s : Spec} (h : EInv e s) (v ttl : Nat) (hpos : 0 < ttl) (ex : Bool) :
    EInv (e.bind v ttl ex).1 (s.step (.report v ttl ex)) ∧ (e.bind v ttl ex).2 = accepted ttl ex := by
  have hne : ttl ≠ 0 := by omega
  have hk := h.key
  cases ex with
  | false =>
    have hs : s.step (.report v ttl false) = s := by simp [Spec.step, accepted, hne]
    rw [hs]
    have hrej := einv_reject h ttl
    simp only [Etcd.bind, hne, ↓reduceIte, accepted, Bool.not_false, Bool.or_false]
    split
    · exact ⟨einv_congr hrej rfl rfl rfl (by simp only [Etcd.revoke]; exact revoke_next_key h), by simp [hne]⟩
    · exact ⟨einv_congr hrej rfl rfl rfl (by simp only [Etcd.revoke]; exact revoke_next_key h), by simp [hne]⟩
  | true =>
    have hs : s.step (.report v ttl true) = { s with last := some (s.now, ttl, v) } := by
      simp [Spec.step, accepted]
    rw [hs]
    have hput := einv_put_new h v ttl hpos
    simp only [Etcd.bind, hne, ↓reduceIte, accepted, Bool.or_true, Bool.not_true, Bool.false_eq_true]
    split
    · exact ⟨einv_congr hput rfl rfl rfl rfl, rfl⟩
    · rename_i hch
      cases hkey : e.key with
      | none => simp only [hkey]; exact ⟨einv_congr hput rfl rfl rfl rfl, trivial⟩
      | some p =>
        obtain ⟨v0, l⟩ := p
        simp only [hkey]
        by_cases hl : l = 0
        · simp only [hl, ↓reduceIte]; exact ⟨einv_congr hput rfl rfl rfl rfl, trivial⟩
        · simp only [hl, ↓reduceIte]
          by_cases hv : v0 = v
          · subst hv
            simp only [ne_eq, not_true_eq_false, ↓reduceIte]
            -- not "ttl changed": the key's lease was granted with this ttl
            simp only [hkey, hl, ↓reduceIte] at hk
            obtain ⟨t, ttl0, hlease, _, _⟩ := hk
            have hlt : l < e.next := lease_lt_next h hlease
            have hlne : l ≠ e.next := by omega
            have hsame : ttl0 = ttl := by
              simp only [Etcd.isTTLChanged, hkey, hl, ↓reduceIte, hlne, hlease] at hch
              simpa using hch
            subst hsame
            have hren := einv_renew h v0 ttl0 l (t + ttl0) hpos hkey hl hlease
            simp only [hlne, ne_eq, not_false_eq_true, ↓reduceIte, Etcd.keepAlive, Etcd.revoke, hlease]
            exact ⟨einv_congr hren rfl rfl rfl (by simp [hkey, key_lease_ne_next h hkey]), trivial⟩
          · simp only [ne_eq, hv, not_false_eq_true, ↓reduceIte]
            exact ⟨einv_congr hput rfl rfl rfl rfl, trivial⟩

end Eru.Store.Status
