import Eru.Store.Spec
/-
Status reports of ONE entity (one status key), C25.

* `Spec`   — the intended semantics, directly from the property: the status is visible at time
             `t` iff the latest report *accepted* since the last removal (accepted = no TTL, or
             the entity existed at report time) has `ttl = 0` or `t < reportTime + ttl`.
* `Etcd`   — `meta/etcd.go: BindStatus / bindStatusWithTTL / bindStatusWithoutTTL / isTTLChanged`
             over an environment model of etcd leases (grant, revoke, keep-alive, expiry deletes
             the attached key).
* `Redis`  — `redis/rediaron.go: BindStatus` (`EXISTS` entity unless ttl = 0, then `SET … EX ttl`),
             and `redis/node.go: SetNodeStatus` which has no entity check (`checkEntity = false`).

History events: a report (value, ttl, "entity key exists right now"), a removal (RemoveWorkload
deletes the status key; SetNodeStatus with negative TTL deletes it), time passing.
-/
namespace Eru.Store.Status
open Eru.Store

inductive Ev where
  | report (val ttl : Nat) (entity : Bool)
  | remove
  | tick (d : Nat)
  deriving DecidableEq, Repr

/-! ### specification -/
structure Spec where
  now : Nat := 0
  /-- latest accepted report since the last removal: (time, ttl, value) -/
  last : Option (Nat × Nat × Nat) := none
  deriving DecidableEq, Repr

def Spec.step (s : Spec) : Ev → Spec
  | .report v ttl ex => if accepted ttl ex then { s with last := some (s.now, ttl, v) } else s
  | .remove => { s with last := none }
  | .tick d => { s with now := s.now + d }

def Spec.run (s : Spec) : List Ev → Spec
  | [] => s
  | ev :: t => Spec.run (s.step ev) t

/-- the value visible now, if any -/
def Spec.visible (s : Spec) : Option Nat :=
  match s.last with
  | some (t, ttl, v) => if ttl = 0 ∨ s.now < t + ttl then some v else none
  | none => none

/-- does the backend accept this report? -/
def Spec.accepts (_ : Spec) : Ev → Bool
  | .report _ ttl ex => accepted ttl ex
  | _ => true

/-! ### Redis -/
structure Redis where
  /-- the status key: value and remaining seconds (0 = no expiry) -/
  key : Option (Nat × Nat) := none
  deriving DecidableEq, Repr

/-- `checkEntity = true`: Rediaron.BindStatus (workload status); `false`: Rediaron.SetNodeStatus -/
def Redis.step (checkEntity : Bool) (r : Redis) : Ev → Redis × Bool
  | .report v ttl ex =>
    if ttl ≠ 0 && checkEntity && !ex then (r, false)       -- EXISTS entityKey ≠ 1 → ErrInvaildCount
    else ({ key := some (v, ttl) }, true)                    -- SET statusKey value EX ttl (0 = persist)
  | .remove => ({ key := none }, true)                       -- DEL
  | .tick d =>
    (match r.key with
     | some (v, rem) => if rem = 0 then r else if rem ≤ d then { key := none } else { key := some (v, rem - d) }
     | none => r, true)

def Redis.visible (r : Redis) : Option Nat := r.key.map (·.1)

/-! ### etcd -/
structure Etcd where
  now : Nat := 0
  next : Nat := 1
  /-- lease table: id ↦ (granted ttl, deadline); lease ids start at 1, 0 means "no lease" -/
  leases : Nat → Option (Nat × Nat) := fun _ => none
  /-- the status key: value and attached lease id -/
  key : Option (Nat × Nat) := none

def Etcd.revoke (e : Etcd) (id : Nat) : Etcd :=
  { e with leases := fun i => if i = id then none else e.leases i,
           key := match e.key with | some (v, l) => if l = id ∧ l ≠ 0 then none else some (v, l) | none => none }

def Etcd.put (e : Etcd) (v lease : Nat) : Etcd := { e with key := some (v, lease) }

/-- `isTTLChanged(key, ttl)` -/
def Etcd.isTTLChanged (e : Etcd) (ttl : Nat) : Bool :=
  match e.key with
  | none => ttl ≠ 0
  | some (_, l) =>
    if l = 0 then ttl ≠ 0
    else match e.leases l with
      | some (g, _) => g ≠ ttl
      | none => 0 ≠ ttl       -- TimeToLive of an unknown lease reports GrantedTTL 0

def Etcd.keepAlive (e : Etcd) (id : Nat) : Etcd × Bool :=
  match e.leases id with
  | some (g, _) => ({ e with leases := fun i => if i = id then some (g, e.now + g) else e.leases i }, true)
  | none => (e, false)

/-- `BindStatus(entityKey, statusKey, value, ttl)` -/
def Etcd.bind (e : Etcd) (v ttl : Nat) (ex : Bool) : Etcd × Bool :=
  if ttl = 0 then
    -- bindStatusWithoutTTL
    if e.isTTLChanged 0 then (e.put v 0, true)
    else match e.key with
      | some (v0, _) => if v0 ≠ v then (e.put v 0, true) else (e, true)
      | none => (e.put v 0, true)
  else
    -- bindStatusWithTTL: grant first
    let id := e.next
    let e := { e with next := e.next + 1, leases := fun i => if i = id then some (ttl, e.now + ttl) else e.leases i }
    if e.isTTLChanged ttl then
      if ex then (e.put v id, true) else (e.revoke id, false)
    else if !ex then (e.revoke id, false)
    else match e.key with
      | none => (e.put v id, true)
      | some (v0, l) =>
        if l = 0 then (e.put v id, true)
        else if v0 ≠ v then (e.put v id, true)
        else
          let e := if l ≠ id then e.revoke id else e
          e.keepAlive l

def Etcd.step (e : Etcd) : Ev → Etcd × Bool
  | .report v ttl ex => e.bind v ttl ex
  | .remove => ({ e with key := none }, true)
  | .tick d =>
    let now := e.now + d
    let alive := fun i => match e.leases i with | some (g, dl) => if now < dl then some (g, dl) else none | none => none
    ({ e with now := now, leases := alive,
              key := match e.key with
                | some (v, l) => if l = 0 then some (v, l) else if (alive l).isSome then some (v, l) else none
                | none => none }, true)

def Etcd.visible (e : Etcd) : Option Nat := e.key.map (·.1)

end Eru.Store.Status
