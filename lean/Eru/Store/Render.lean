import Eru.Store.Ref
import Eru.Store.ModelFacts
/-
Canonical text forms of keys, values and results: exactly the strings the Go harness
(`harness/store/store_test.go`: canonVal, canonNodes, canonWls, …) derives from the real
backends' key space and return values.  Used by the oracle only (no theorem depends on it).
-/
namespace Eru.Store

def b01 (b : Bool) : String := if b then "1" else "0"

def bar (xs : List String) : String := String.intercalate "|" xs

def renderLabels (ls : Labels) : String :=
  String.intercalate "," (ls.map fun kv => kv.1 ++ "=" ++ kv.2)

def slash (ps : List String) : String := String.intercalate "/" (joinParts ps)

/-- the key strings, written with the templates of `Eru.Store.Facts` (which are regenerated from
    store/etcdv3/mercury.go and store/redis/rediaron.go on every run) the way the Go code builds
    them: `fmt.Sprintf(template, …)` resp. `filepath.Join(prefix, …)` -/
def Key.render : Key → String
  | .pod n => Facts.sprintf Facts.podInfoKey [n]
  | .node n => Facts.sprintf Facts.nodeInfoKey [n]
  | .nodePod p n => Facts.sprintf Facts.nodePodKey [p, n]
  | .ca n => Facts.sprintf Facts.nodeCaKey [n]
  | .cert n => Facts.sprintf Facts.nodeCertKey [n]
  | .ckey n => Facts.sprintf Facts.nodeKeyKey [n]
  | .wl id => Facts.sprintf Facts.workloadInfoKey [id]
  | .nodeWl n id => Facts.sprintf Facts.nodeWorkloadsKey [n, id]
  | .deploy a e n id => Facts.joinUnder Facts.workloadDeployPrefix [a, e, n, id]
  | .wst a e n id => Facts.joinUnder Facts.workloadStatusPrefix [a, e, n, id]
  | .nst n => Facts.nodeStatusPrefix ++ n
  | .proc a e n i => Facts.joinUnder Facts.workloadProcessingPrefix [a, e, n, i]

#guard (Key.pod "p1").render == "/pod/info/p1"
#guard (Key.nodePod "p1" "n1").render == "/node/p1:pod/n1"
#guard (Key.nodeWl "n1" "w1").render == "/node/n1:workloads/w1"
#guard (Key.ckey "n1").render == "/node/n1:key"
#guard (Key.deploy "a" "e" "n" "w").render == "/deploy/a/e/n/w"
#guard (Key.wst "a" "e" "n" "w").render == "/status/a/e/n/w"
#guard (Key.nst "n1").render == "/status:node/n1"
#guard (Key.proc "a" "e" "n" "i").render == "/processing/a/e/n/i"

def NodeRec.render (r : NodeRec) : String :=
  bar [r.name, r.pod, r.endpoint, renderLabels r.labels, b01 r.test, b01 r.bypass]

def WlRec.render (w : WlRec) : String :=
  bar [w.id, w.name, w.node, renderLabels w.labels, w.image]

def StRec.render (r : StRec) : String := bar [r.id, b01 r.running, b01 r.healthy]

def Val.render : Val → String
  | .pod n d => n ++ "|" ++ d
  | .node r => r.render
  | .wl w => w.render
  | .str s => s
  | .wst r => r.render
  | .nst n p => bar [n, p, "1"]
  | .cnt c => toString c

def NodeView.render (v : NodeView) : String := v.r.render ++ "|" ++ b01 v.available

def WlView.render (v : WlView) : String :=
  v.r.render ++ "|" ++ (match v.status with | some s => s.render | none => "-")

def Err.render : Err → String
  | .keyExists => "exists"
  | .notFound => "notfound"
  | .podHasNodes => "pod-has-nodes"
  | .badTTL => "bad-ttl"
  | .badStatus => "bad-status"
  | .badName => "bad-name"
  | .badMeta => "bad-meta"

/-- remaining lifetime of an entry (0 = persistent) -/
def Ent.remaining (now : Nat) (e : Ent) : Nat :=
  match e.exp with
  | some x => x - now
  | none => 0

/-- the whole key space: (key, canonical value, remaining ttl) -/
def St.dump (s : St) : List (String × String × Nat) :=
  s.kv.map fun ke => (ke.1.render, ke.2.val.render, ke.2.remaining s.now)

def dedupSort (xs : List String) : List String :=
  (dedup xs).mergeSort (fun a b => !(b < a))

end Eru.Store
