import Eru.Store.Ref
/-
Canonical text forms of keys, values and results: exactly the strings the Go harness
(`harness/store/store_test.go`: canonVal, canonNodes, canonWls, …) derives from the real
backends' key space and return values.  Used by the oracle only (no theorem depends on it).
-/
namespace Eru.Store

def b01 (b : Bool) : String := if b then "1" else "0"

def bar (xs : List String) : String := String.intercalate "|" xs

def renderLabels (ls : Labels) : String :=
  String.intercalate "," (ls.map fun kv => kv.1 ++ "=" ++ kv.2)

def slash (ps : List String) : String := String.intercalate "/" (joinParts ps)

def Key.render : Key → String
  | .pod n => "/pod/info/" ++ n
  | .node n => "/node/" ++ n
  | .nodePod p n => "/node/" ++ p ++ ":pod/" ++ n
  | .ca n => "/node/" ++ n ++ ":ca"
  | .cert n => "/node/" ++ n ++ ":cert"
  | .ckey n => "/node/" ++ n ++ ":key"
  | .wl id => "/workloads/" ++ id
  | .nodeWl n id => "/node/" ++ n ++ ":workloads/" ++ id
  | .deploy a e n id => "/deploy/" ++ slash [a, e, n, id]
  | .wst a e n id => "/status/" ++ slash [a, e, n, id]
  | .nst n => "/status:node/" ++ n
  | .proc a e n i => "/processing/" ++ slash [a, e, n, i]

def NodeRec.render (r : NodeRec) : String :=
  bar [r.name, r.pod, r.endpoint, renderLabels r.labels, b01 r.test, b01 r.bypass]

def WlRec.render (w : WlRec) : String :=
  bar [w.id, w.name, w.node, renderLabels w.labels, w.image]

def StRec.render (r : StRec) : String := bar [r.id, b01 r.running, b01 r.healthy]

def Val.render : Val → String
  | .pod n d => n ++ "|" ++ d
  | .node r => r.render
  | .wl w => w.render
  | .str s => s
  | .wst r => r.render
  | .nst n p => bar [n, p, "1"]
  | .cnt c => toString c

def NodeView.render (v : NodeView) : String := v.r.render ++ "|" ++ b01 v.available

def WlView.render (v : WlView) : String :=
  v.r.render ++ "|" ++ (match v.status with | some s => s.render | none => "-")

def Err.render : Err → String
  | .keyExists => "exists"
  | .notFound => "notfound"
  | .podHasNodes => "pod-has-nodes"
  | .badTTL => "bad-ttl"
  | .badStatus => "bad-status"
  | .badName => "bad-name"
  | .badMeta => "bad-meta"

/-- remaining lifetime of an entry (0 = persistent) -/
def Ent.remaining (now : Nat) (e : Ent) : Nat :=
  match e.exp with
  | some x => x - now
  | none => 0

/-- the whole key space: (key, canonical value, remaining ttl) -/
def St.dump (s : St) : List (String × String × Nat) :=
  s.kv.map fun ke => (ke.1.render, ke.2.val.render, ke.2.remaining s.now)

def dedupSort (xs : List String) : List String :=
  (dedup xs).mergeSort (fun a b => !(b < a))

end Eru.Store
