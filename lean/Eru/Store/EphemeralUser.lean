import Eru.Store.Ephemeral
/-
The two USERS of ephemeral keys, on top of the etcd transition system of `Ephemeral.lean` (C26):

* `cluster/calcium/service.go: RegisterService` — after the first registration a loop waits on the
  expiry channel; when it fires the loop tries to register again; an attempt that fails (transient
  store error, or the key is taken) is followed by a sleep and ANOTHER attempt: the loop keeps its
  own view "not registered" until an attempt succeeds (`svcAttempt`: a failed attempt changes
  nothing, in particular it does not make the loop believe it is registered or stop retrying).
* `selfmon/selfmon.go: withActiveLock` — a watcher registers `/selfmon/active`, then runs its
  critical section `f(ctx)`; a goroutine selecting on the expiry channel obtained BY THAT
  registration cancels `ctx` as soon as the channel is closed (`observe`): a watcher whose
  registration lapsed leaves the critical section within one step of the notification.
-/
namespace Eru.Store.Ephemeral

/-! ### service registration loop -/

/-- one iteration of the re-registration branch; `fail = true`: the store call returned a
    transient error before reaching etcd -/
def Etcd.svcAttempt (s : Etcd) (p ttl : Nat) (fail : Bool) : Etcd :=
  match s.regs p with
  | .holding _ => s            -- the loop is blocked on the expiry channel: no attempt
  | _ => if fail then s else (s.step (.register p ttl)).1

def Etcd.svcAttempts (s : Etcd) (p ttl : Nat) : List Bool → Etcd
  | [] => s
  | f :: t => Etcd.svcAttempts (s.svcAttempt p ttl f) p ttl t

def Etcd.holdingB (s : Etcd) (p : Nat) : Bool := match s.regs p with | .holding _ => true | _ => false

/-! ### single active watcher -/
structure Users where
  etcd : Etcd := {}
  /-- watcher `p` is inside its critical section (its `f(ctx)` runs, `ctx` not cancelled) -/
  cs : Nat → Bool := fun _ => false

inductive UEv where
  | register (p ttl : Nat)     -- a watcher outside its critical section tries to take the key
  | enter (p : Nat)            -- registration succeeded: f(ctx) starts
  | heartbeat (p : Nat)        -- keep-alive tick of p's registration
  | observe (p : Nat)          -- the goroutine selecting on p's expiry channel runs
  | leave (p : Nat)            -- f returned / selfmon closed: unregister
  | expire (l : Nat)           -- a lease elapses / is revoked
  deriving DecidableEq, Repr

def Users.step (u : Users) : UEv → Users
  | .register p ttl => if u.cs p then u else { u with etcd := (u.etcd.step (.register p ttl)).1 }
  | .enter p =>
    match u.etcd.regs p with
    | .holding _ => { u with cs := fun q => if q = p then true else u.cs q }
    | _ => u
  | .heartbeat p => { u with etcd := (u.etcd.step (.heartbeat p)).1 }
  | .observe p =>
    match u.etcd.regs p with
    | .notified => { u with cs := fun q => if q = p then false else u.cs q }
    | _ => u
  | .leave p => { etcd := (u.etcd.step (.deregister p)).1, cs := fun q => if q = p then false else u.cs q }
  | .expire l => { u with etcd := (u.etcd.step (.expire l)).1 }

def Users.run (u : Users) : List UEv → Users
  | [] => u
  | ev :: t => Users.run (u.step ev) t

end Eru.Store.Ephemeral
