import Eru.Store.Deploy
/- Invariant proofs for the deploy-status transition system. -/
namespace Eru.Store.Deploy
open Eru.Store

theorem inv_init : Inv {} :=
  { link := rfl, nodup := List.nodup_nil, nonneg := (by intro d hd; cases hd), recd := rfl }

theorem sum_remaining (l : List Dep) :
    ((l.map fun d => (d.ident, d.planned - d.added)).map (·.2)).sum =
      (l.map (·.planned)).sum - (l.map (·.added)).sum := by
  induction l with
  | nil => rfl
  | cons d t ih => simp only [List.map_cons, List.sum_cons, ih]; omega

/-- under the invariant the reported status equals prior + everything planned -/
theorem inv_status {s : DSt} (h : Inv s) : s.status = s.cap.prior + s.cap.planned := by
  unfold DSt.status Cap.planned
  rw [h.link, sum_remaining, h.recd]; omega

theorem sum_added_nonneg_gap (l : List Dep) (h : ∀ d ∈ l, d.added ≤ d.planned) :
    (l.map (·.added)).sum ≤ (l.map (·.planned)).sum := by
  induction l with
  | nil => simp
  | cons d t ih =>
    simp only [List.map_cons, List.sum_cons]
    have := h d (List.mem_cons_self ..)
    have := ih (fun x hx => h x (List.mem_cons_of_mem _ hx))
    omega

/-- **bounds**: recorded ≤ status ≤ prior + planned -/
theorem inv_bounds {s : DSt} (h : Inv s) :
    withinBounds s.recorded s.status s.cap.prior s.cap.planned = true := by
  have hs := inv_status h
  have hg := sum_added_nonneg_gap _ h.nonneg
  have hr := h.recd
  unfold Cap.planned at hs
  simp only [withinBounds, Bool.and_eq_true, decide_eq_true_eq]
  unfold Cap.planned
  constructor <;> omega

/-- **after return**: with no deployment running the status is the recorded count and no
    marker remains -/
theorem inv_idle {s : DSt} (h : Inv s) (hidle : s.cap.active = []) :
    s.status = s.recorded ∧ s.markers = [] := by
  have hl := h.link
  rw [hidle] at hl
  simp only [List.map_nil] at hl
  simp [DSt.status, hl]

/-! ### preservation -/
theorem ident_inj (l : List Dep) (hn : (l.map (·.ident)).Nodup) {a b : Dep} (ha : a ∈ l) (hb : b ∈ l)
    (h : a.ident = b.ident) : a = b := by
  induction l with
  | nil => cases ha
  | cons d t ih =>
    simp only [List.map_cons, List.nodup_cons] at hn
    simp only [List.mem_cons] at ha hb
    rcases ha with ha | ha <;> rcases hb with hb | hb
    · rw [ha, hb]
    · subst ha; exact absurd (h ▸ List.mem_map_of_mem hb) hn.1
    · subst hb; exact absurd (h ▸ List.mem_map_of_mem ha) hn.1
    · exact ih hn.2 ha hb

theorem map_added_other (l : List Dep) (i : String) (h : i ∉ l.map (·.ident)) :
    l.map (fun d => if d.ident == i then { d with added := d.added + 1 } else d) = l := by
  induction l with
  | nil => rfl
  | cons d t ih =>
    simp only [List.map_cons, List.mem_cons, not_or] at h
    have hne : (d.ident == i) = false := by
      simp only [beq_eq_false_iff_ne, ne_eq]; exact fun e => h.1 e.symm
    simp only [List.map_cons, hne, Bool.false_eq_true, ↓reduceIte, ih h.2]

theorem sum_added_step (l : List Dep) (i : String) (hn : (l.map (·.ident)).Nodup)
    (hm : i ∈ l.map (·.ident)) :
    ((l.map fun d => if d.ident == i then { d with added := d.added + 1 } else d).map (·.added)).sum
      = (l.map (·.added)).sum + 1 := by
  induction l with
  | nil => simp at hm
  | cons d t ih =>
    simp only [List.map_cons, List.nodup_cons] at hn
    by_cases hd : d.ident = i
    · have hnot : i ∉ t.map (·.ident) := by rw [← hd]; exact hn.1
      have hb : (d.ident == i) = true := by simp [hd]
      simp only [List.map_cons, hb, ↓reduceIte, List.sum_cons, map_added_other t i hnot]
      omega
    · have hb : (d.ident == i) = false := by simp [hd]
      have hm' : i ∈ t.map (·.ident) := by
        simp only [List.map_cons, List.mem_cons] at hm
        rcases hm with h | h
        · exact absurd h.symm hd
        · exact h
      simp only [List.map_cons, hb, Bool.false_eq_true, ↓reduceIte, List.sum_cons, ih hn.2 hm']
      omega

theorem idents_added (l : List Dep) (i : String) :
    (l.map fun d => if d.ident == i then { d with added := d.added + 1 } else d).map (·.ident) = l.map (·.ident) := by
  induction l with
  | nil => rfl
  | cons d t ih =>
    simp only [List.map_cons, ih]
    by_cases hd : (d.ident == i) = true <;> simp [hd]

theorem sum_filter_split (l : List Dep) (i : String) :
    (l.map (·.added)).sum =
      ((l.filter (·.ident == i)).map (·.added)).sum + ((l.filter (·.ident != i)).map (·.added)).sum := by
  induction l with
  | nil => rfl
  | cons d t ih =>
    by_cases hd : (d.ident == i) = true
    · simp only [List.map_cons, List.sum_cons, List.filter_cons, hd, ↓reduceIte, bne, Bool.not_true,
        Bool.false_eq_true, ih]; omega
    · simp only [Bool.not_eq_true] at hd
      simp only [List.map_cons, List.sum_cons, List.filter_cons, hd, Bool.false_eq_true, ↓reduceIte, bne,
        Bool.not_false, ih]; omega

theorem inv_step {s : DSt} (h : Inv s) (op : DOp) (he : s.enabled op) : Inv (s.step op) := by
  cases op with
  | create i c =>
    obtain ⟨hfresh, hc⟩ := he
    refine { link := ?_, nodup := ?_, nonneg := ?_, recd := ?_ }
    · simp [DSt.step, Cap.start, h.link]
    · simp only [DSt.step, Cap.start, List.map_append, List.map_cons, List.map_nil]
      rw [List.nodup_append]
      refine ⟨h.nodup, by simp, ?_⟩
      intro a ha b hb
      simp only [List.mem_singleton] at hb
      subst hb
      intro hab; subst hab; exact hfresh ha
    · intro d hd
      simp only [DSt.step, Cap.start, List.mem_append, List.mem_singleton] at hd
      rcases hd with hd | hd
      · exact h.nonneg d hd
      · subst hd; exact hc
    · simp [DSt.step, Cap.start, h.recd]
  | add i =>
    obtain ⟨d0, hd0, hid, hlt⟩ := he
    have hmem : i ∈ s.cap.active.map (·.ident) := by
      rw [← hid]; exact List.mem_map_of_mem hd0
    refine { link := ?_, nodup := ?_, nonneg := ?_, recd := ?_ }
    · simp only [DSt.step, Cap.added, h.link, List.map_map]
      apply List.map_congr_left
      intro d _
      by_cases hd : (d.ident == i) = true
      · simp only [Function.comp, hd, ↓reduceIte, Prod.mk.injEq, true_and]; omega
      · simp [Function.comp, hd]
    · simp only [DSt.step, Cap.added, idents_added]; exact h.nodup
    · intro d hd
      simp only [DSt.step, Cap.added, List.mem_map] at hd
      obtain ⟨d', hd', rfl⟩ := hd
      by_cases hi : (d'.ident == i) = true
      · simp only [hi, ↓reduceIte]
        -- d' is d0 (unique ident)
        have : d' = d0 := by
          have hidd : d'.ident = d0.ident := by rw [hid]; simpa using hi
          exact ident_inj _ h.nodup hd' hd0 hidd
        subst this; omega
      · simp only [hi, Bool.false_eq_true, ↓reduceIte]; exact h.nonneg d' hd'
    · simp only [DSt.step, Cap.added, sum_added_step _ i h.nodup hmem, h.recd]; omega
  | plainAdd =>
    exact { link := h.link, nodup := h.nodup, nonneg := h.nonneg,
            recd := by simp only [DSt.step, Cap.plainAdd, h.recd]; omega }
  | remove =>
    exact { link := h.link, nodup := h.nodup, nonneg := h.nonneg,
            recd := by simp only [DSt.step, Cap.removed, h.recd]; omega }
  | finish i =>
    refine { link := ?_, nodup := ?_, nonneg := ?_, recd := ?_ }
    · simp only [DSt.step, Cap.finish, h.link, List.filter_map]
      congr 1
    · simp only [DSt.step, Cap.finish]
      exact List.Nodup.sublist (List.Sublist.map _ List.filter_sublist) h.nodup
    · intro d hd
      simp only [DSt.step, Cap.finish] at hd
      exact h.nonneg d (List.mem_filter.mp hd).1
    · simp only [DSt.step, Cap.finish, h.recd]
      have := sum_filter_split s.cap.active i
      omega

theorem inv_run {s : DSt} (h : Inv s) (ops : List DOp) (he : Enabled s ops) : Inv (s.run ops) := by
  induction ops generalizing s with
  | nil => exact h
  | cons op t ih => exact ih (inv_step h op he.1) he.2

end Eru.Store.Deploy
