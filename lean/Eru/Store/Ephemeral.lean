/-
Ephemeral registrations on ONE key (C26): `store/etcdv3/meta/ephemeral.go` and
`store/redis/ephemeral.go`, used by `selfmon.withActiveLock` (single active node-status watcher)
and `RegisterService`.

Both are transition systems over schedule events; time is abstracted: a lease / key TTL may
elapse at any moment (`expire`) — that covers pauses longer than the TTL, lost keep-alives and
injected revocations — and heartbeats happen whenever the schedule says.

etcd:  register  = Grant(ttl); Txn(If version(key)=0 Then Put(key, lease)); on failure the lease is
                   simply left to expire
       heartbeat = KeepAliveOnce(lease); an error (lease gone) ends the goroutine: deferred
                   Revoke(lease), close(expiry)  → the registrant is *notified*
       deregister= cancel → deferred Revoke(own lease) (deletes the key iff it is attached to it)
redis: register  = SETNX key "__aaron__" EX ttl
       heartbeat = EXPIRE key ttl    (no error when the key is missing; refreshes whatever is there)
       deregister= DEL key           (deletes whatever is there)
The Redis key's value is a constant, so ownership is not represented in the store; the model
carries the creator as a ghost field to be able to state owner-safety.
-/
namespace Eru.Store.Ephemeral

/-- a registrant's view -/
inductive Reg where
  | idle
  | holding (tok : Nat)     -- etcd: its lease id; redis: its ttl
  | notified                -- expiry channel closed because the heartbeat failed
  deriving DecidableEq, Repr

/-! ### etcd -/
structure Etcd where
  /-- lease attached to the key, if the key exists -/
  key : Option Nat := none
  alive : Nat → Bool := fun _ => false
  ttl : Nat → Nat := fun _ => 0
  next : Nat := 0
  regs : Nat → Reg := fun _ => .idle

inductive EEv where
  | register (p ttl : Nat)
  | heartbeat (p : Nat)
  | deregister (p : Nat)
  | expire (l : Nat)
  deriving DecidableEq, Repr

def Etcd.revoke (s : Etcd) (l : Nat) : Etcd :=
  { s with alive := fun i => if i = l then false else s.alive i,
           key := if s.key = some l then none else s.key }

/-- returns the new state and whether a `register` succeeded (true for other events) -/
def Etcd.step (s : Etcd) : EEv → Etcd × Bool
  | .register p ttl =>
    match s.regs p with
    | .holding _ => (s, false)       -- not scheduled: a registrant registers again only after it stopped
    | _ =>
      let l := s.next
      let s1 : Etcd := { s with next := s.next + 1, alive := fun i => if i = l then true else s.alive i,
                                ttl := fun i => if i = l then ttl else s.ttl i }
      if s.key = none then
        ({ s1 with key := some l, regs := fun q => if q = p then .holding l else s.regs q }, true)
      else (s1, false)
  | .heartbeat p =>
    match s.regs p with
    | .holding l => if s.alive l then (s, true)
                    else ({ s with regs := fun q => if q = p then .notified else s.regs q }, true)
    | _ => (s, true)
  | .deregister p =>
    match s.regs p with
    | .holding l => ({ s.revoke l with regs := fun q => if q = p then .idle else s.regs q }, true)
    | _ => ({ s with regs := fun q => if q = p then .idle else s.regs q }, true)
  | .expire l => (if s.alive l then s.revoke l else s, true)

def Etcd.run (s : Etcd) : List EEv → Etcd
  | [] => s
  | ev :: t => Etcd.run (s.step ev).1 t

/-- `p` believes it holds the key and its registration has not lapsed -/
def Etcd.believes (s : Etcd) (p : Nat) : Prop := ∃ l, s.regs p = .holding l ∧ s.alive l = true

/-! ### Redis -/
structure Redis where
  /-- (ghost creator, ttl the key currently carries) -/
  key : Option (Nat × Nat) := none
  regs : Nat → Reg := fun _ => .idle

inductive REv where
  | register (p ttl : Nat)
  | heartbeat (p : Nat)
  | deregister (p : Nat)
  | expire
  deriving DecidableEq, Repr

def Redis.step (s : Redis) : REv → Redis × Bool
  | .register p ttl =>
    match s.regs p with
    | .holding _ => (s, false)
    | _ =>
      match s.key with
      | none => ({ key := some (p, ttl), regs := fun q => if q = p then .holding ttl else s.regs q }, true)
      | some _ => (s, false)
  | .heartbeat p =>
    match s.regs p with
    | .holding ttl => ({ s with key := s.key.map fun (o, _) => (o, ttl) }, true)
    | _ => (s, true)
  | .deregister p =>
    match s.regs p with
    | .holding _ => ({ key := none, regs := fun q => if q = p then .idle else s.regs q }, true)
    | _ => ({ s with regs := fun q => if q = p then .idle else s.regs q }, true)
  | .expire => ({ s with key := none }, true)

def Redis.run (s : Redis) : List REv → Redis
  | [] => s
  | ev :: t => Redis.run (s.step ev).1 t

def Redis.holding (s : Redis) (p : Nat) : Prop := ∃ t, s.regs p = .holding t

end Eru.Store.Ephemeral
