import Eru.Store.Ref
import Eru.Store.Status
/-
Named pieces of the store models that are ALSO read from /repo's source text on every run
(translator/store.json → Eru/Generated/StoreFacts.lean): the key templates shared by
store/etcdv3/mercury.go and store/redis/rediaron.go, the TTL guards of SetNodeStatus / BindStatus,
the SetWorkloadStatus argument guard, ParseWorkloadName's part count, Node.IsDown, the position
of the nodename inside deploy/processing/node-status keys, and the tick divisor of StartEphemeral.
Each piece comes with the lemma showing that the model's own code is written with it.
-/
namespace Eru.Store.Facts
open Eru.Store

/-! ### key templates (`fmt.Sprintf` formats and `filepath.Join` prefixes) -/
def podInfoKey : String := "/pod/info/%s"
def nodeInfoKey : String := "/node/%s"
def nodePodKey : String := "/node/%s:pod/%s"
def nodeCaKey : String := "/node/%s:ca"
def nodeCertKey : String := "/node/%s:cert"
def nodeKeyKey : String := "/node/%s:key"
def nodeStatusPrefix : String := "/status:node/"
def nodeWorkloadsKey : String := "/node/%s:workloads/%s"
def workloadInfoKey : String := "/workloads/%s"
def workloadDeployPrefix : String := "/deploy"
def workloadStatusPrefix : String := "/status"
def workloadProcessingPrefix : String := "/processing"
/-- the constant value of a Redis ephemeral key (no owner token: D19) -/
def ephemeralValue : String := "__aaron__"

/-- `fmt.Sprintf(tpl, args...)` for templates whose only verb is `%s` -/
def sprintf (tpl : String) (args : List String) : String :=
  let rec go : List String → List String → String
    | [], _ => ""
    | [p], _ => p
    | p :: ps, a :: as => p ++ a ++ go ps as
    | p :: ps, [] => p ++ go ps []
  go (tpl.splitOn "%s") args

/-- `filepath.Join(prefix, parts...)` for clean names: empty components dropped, "/"-separated -/
def joinUnder (pfx : String) (parts : List String) : String :=
  pfx ++ "/" ++ String.intercalate "/" (joinParts parts)

/-! ### TTL guards -/
/-- `SetNodeStatus`: `if ttl == 0 { return ErrInvaildNodeStatusTTL }` -/
def nodeStatusRejects (ttl : Int) : Bool := ttl == 0
/-- `SetNodeStatus`: `if ttl < 0 { delete the status key }` -/
def nodeStatusDeletes (ttl : Int) : Bool := ttl < 0
/-- `ETCD.BindStatus`: `if ttl == 0 { bindStatusWithoutTTL }`; `Rediaron.BindStatus` checks the
    entity under the negation `ttl != 0` -/
def bindNoTTL (ttl : Int) : Bool := ttl == 0

theorem setNodeStatus_uses (fl : Flavour) (s : St) (n p : String) (ttl : Int) :
    setNodeStatus fl s n p ttl =
      if nodeStatusRejects ttl then .error .badTTL
      else if nodeStatusDeletes ttl then .ok (batchDelete s [.nst n])
      else bindStatus s fl.nodeStatusChecksEntity (.node n) (.nst n) (.nst n p) ttl.toNat := by
  simp [setNodeStatus, nodeStatusRejects, nodeStatusDeletes]

theorem bindStatus_uses (s : St) (c : Bool) (ek sk : Key) (v : Val) (ttl : Nat) :
    bindStatus s c ek sk v ttl =
      if bindNoTTL (ttl : Int) then .ok { s with kv := s.kv.put sk { val := v, exp := none } }
      else if c && !s.kv.has ek then .error .notFound
      else .ok { s with kv := s.kv.put sk { val := v, exp := some (s.now + ttl) } } := by
  simp [bindStatus, bindNoTTL]

/-- the single-key protocol models branch on the same guard -/
theorem etcd_bind_uses (e : Status.Etcd) (v ttl : Nat) (ex : Bool) (h : bindNoTTL (ttl : Int) = true) :
    e.bind v ttl ex = e.bind v 0 ex := by
  have : ttl = 0 := by simpa [bindNoTTL] using h
  subst this; rfl

/-! ### argument guards -/
/-- `SetWorkloadStatus`: `status.Appname == "" || status.Entrypoint == "" || status.Nodename == ""` -/
def badStatus (status : StRec) : Bool := status.app == "" || status.entry == "" || status.node == ""

theorem setWorkloadStatus_uses (s : St) (r : StRec) (ttl : Nat) :
    setWorkloadStatus s r ttl =
      if badStatus r then .error .badStatus
      else bindStatus s true (.wl r.id) (.wst r.app r.entry r.node r.id) (.wst r) ttl := by
  simp [setWorkloadStatus, badStatus]

/-- `utils.ParseWorkloadName`: `if length >= 3` -/
def nameHasParts (length : Int) : Bool := length ≥ 3

theorem parseWorkloadName_uses (name : String) :
    (match parseWorkloadName name with | .ok _ => true | .error _ => false) =
      nameHasParts (((String.ofList (name.toList.dropWhile (· == '/'))).splitOn "_").length : Int) := by
  unfold parseWorkloadName nameHasParts
  simp only []
  split <;> rename_i h <;> split at h <;> simp_all <;> omega

/-- `types.Node.IsDown`: `n.Bypass || !n.Available` -/
def isDown (bypass available : Bool) : Bool := bypass || !available

theorem viewNodes_uses (s : St) (recs : List NodeRec) (labels : Labels) (all : Bool) (v : NodeView) :
    v ∈ viewNodes s recs labels all → all = true ∨ isDown v.r.bypass v.available = false := by
  intro h
  simp only [viewNodes, List.mem_filter] at h
  have := h.2
  simp only [isDown]
  cases all <;> simp_all

/-! ### where the nodename sits in a key -/
/-- offsets `K` of the `parts[len(parts)-K]` expressions: 1 = nodename of a node-status key
    (`extractNodename`), 2 = nodename of a deploy / processing key -/
def fromEndOffsets : List Int := [1, 2]

/-- the model's deploy/processing queries take the component before the last one as the node:
    of the components `[app, entry, node, id]` the node is the one at `length - 2` -/
theorem node_is_second_from_end (a e n id : String) :
    [a, e, n, id].getD ([a, e, n, id].length - 2) "" = n ∧ (2 : Int) ∈ fromEndOffsets := by
  exact ⟨rfl, by decide⟩

/-! ### heartbeat arithmetic of StartEphemeral -/
/-- both backends tick every `heartbeat / 3` -/
def tickDivisors : List Int := [3]

/-- what the C26 harness and the "one wait = every fast registrant had a heartbeat" reading of
    the oracle rely on: a tick comes strictly before the registration would lapse by itself -/
theorem tick_before_lapse (heartbeat : Int) (h : 0 < heartbeat) : ∀ k ∈ tickDivisors, heartbeat / k < heartbeat := by
  intro k hk
  simp only [tickDivisors, List.mem_singleton] at hk
  subst hk; omega

end Eru.Store.Facts
