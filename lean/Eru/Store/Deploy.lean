import Eru.Store.Spec
/-
Deploy-status counting for ONE (app, entrypoint, node), C13 (store side).

State: number of recorded workloads (`/deploy/a/e/n/*` keys), the in-progress markers
(`/processing/a/e/n/{ident}` ↦ remaining count) and the bookkeeping `Cap` of the bound
(prior count, running deployments with planned/added).  Operations are the effects the store
operations have on this triple:
  create i c  — CreateProcessing(ident i, count c)                      (fails on a duplicate ident)
  add i       — AddWorkload(fresh id, processing i): one atomic step: +1 recorded, −1 marker
  plainAdd    — AddWorkload without marker
  remove      — RemoveWorkload of a recorded workload (rollback or removal)
  finish i    — DeleteProcessing(ident i) when the deployment returns
`status = recorded + Σ markers` is what GetDeployStatus reports (`statusExact`).

Atomicity: `add i` is ONE transition — there is no state of this system in which the workload is
recorded and the marker is not yet decremented (or vice versa).  For the reference store that is
`Eru.Props.C13.add_with_marker_atomic` / `add_with_marker_keeps_status`; for the real etcd backend
(`BatchCreateAndDecr` = one transaction putting the workload keys and the decremented marker) the
tie is the per-revision check of harness/store: the bounds are evaluated at EVERY etcd revision
an AddWorkload-with-processing produces (`C13:above-planned:at-revision`), so an implementation
that writes the workload and decrements the marker in two transactions is caught even though
its end states are identical.
-/
namespace Eru.Store.Deploy
open Eru.Store

structure DSt where
  recorded : Int := 0
  markers : List (String × Int) := []
  cap : Cap := {}
  deriving DecidableEq, Repr

def DSt.status (s : DSt) : Int := s.recorded + (s.markers.map (·.2)).sum

inductive DOp where
  | create (i : String) (c : Int)
  | add (i : String)
  | plainAdd
  | remove
  | finish (i : String)
  deriving DecidableEq, Repr

/-- what the deployment code guarantees: idents are unique while running, counts are not
    negative, never more workloads are added under a marker than were planned -/
def DSt.enabled (s : DSt) : DOp → Prop
  | .create i c => i ∉ s.cap.active.map (·.ident) ∧ 0 ≤ c
  | .add i => ∃ d ∈ s.cap.active, d.ident = i ∧ d.added < d.planned
  | _ => True

def DSt.step (s : DSt) : DOp → DSt
  | .create i c => { s with markers := s.markers ++ [(i, c)], cap := s.cap.start i c }
  | .add i => { recorded := s.recorded + 1,
                markers := s.markers.map fun m => if m.1 == i then (m.1, m.2 - 1) else m,
                cap := s.cap.added i }
  | .plainAdd => { s with recorded := s.recorded + 1, cap := s.cap.plainAdd }
  | .remove => { s with recorded := s.recorded - 1, cap := s.cap.removed }
  | .finish i => { s with markers := s.markers.filter (·.1 != i), cap := s.cap.finish i }

structure Inv (s : DSt) : Prop where
  link : s.markers = s.cap.active.map fun d => (d.ident, d.planned - d.added)
  nodup : (s.cap.active.map (·.ident)).Nodup
  nonneg : ∀ d ∈ s.cap.active, d.added ≤ d.planned
  recd : s.recorded = s.cap.prior + (s.cap.active.map (·.added)).sum

/-- a sequence all of whose steps are enabled -/
def Enabled : DSt → List DOp → Prop
  | _, [] => True
  | s, op :: t => s.enabled op ∧ Enabled (s.step op) t

def DSt.run (s : DSt) : List DOp → DSt
  | [] => s
  | op :: t => DSt.run (s.step op) t

end Eru.Store.Deploy
