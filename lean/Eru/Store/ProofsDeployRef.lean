import Eru.Store.ProofsKV
/-
The reference store's deploy-status arithmetic: `GetDeployStatus` is exactly
`deployed + inProgress`, and the effect of the marker operations on these two numbers —
the link between `Eru/Store/Ref.lean` and the transition system of `Eru/Store/Deploy.lean`.
-/
namespace Eru.Store

theorem countOf_addCount (m : List (String × Int)) (k n : String) (d : Int) :
    countOf (addCount m k d) n = countOf m n + (if k = n then d else 0) := by
  induction m with
  | nil =>
    by_cases h : k = n
    · subst h; simp [addCount, countOf, List.lookup]
    · have : (n == k) = false := by simp [beq_eq_false_iff_ne]; exact fun e => h e.symm
      simp [addCount, countOf, List.lookup, h, this]
  | cons p t ih =>
    obtain ⟨k', v⟩ := p
    unfold addCount
    by_cases hk : k' = k
    · subst hk
      simp only [↓reduceIte]
      by_cases h : k' = n
      · subst h; simp [countOf, List.lookup]
      · have : (n == k') = false := by simp [beq_eq_false_iff_ne]; exact fun e => h e.symm
        simp [countOf, List.lookup, h, this]
    · simp only [hk, ↓reduceIte]
      unfold countOf at ih ⊢
      simp only [List.lookup]
      by_cases h2 : (n == k') = true
      · have hn : n = k' := by simpa using h2
        have : ¬ k = n := by rw [hn]; exact fun e => hk e.symm
        simp [h2, this]
      · simp only [h2]
        exact ih

theorem countOf_foldl {α} (f : α → String) (g : α → Int) (n : String) (l : List α) :
    ∀ m0, countOf (l.foldl (fun m x => addCount m (f x) (g x)) m0) n
      = countOf m0 n + (l.map fun x => if f x = n then g x else 0).sum := by
  induction l with
  | nil => intro m0; simp
  | cons x t ih =>
    intro m0
    simp only [List.foldl_cons, List.map_cons, List.sum_cons]
    rw [ih, countOf_addCount]; omega

/-- **`GetDeployStatus` is exact**: for every node the reported number is the number of
    recorded workloads plus the sum of the in-progress markers. -/
theorem getDeployStatus_exact (s : St) (a e n : String) :
    countOf (getDeployStatus s a e) n = deployed s a e n + inProgress s a e n := by
  unfold getDeployStatus deployed inProgress
  simp only []
  rw [countOf_foldl (fun nc : String × Int => nc.1) (fun nc => nc.2) n]
  rw [countOf_foldl (fun x : String × String × String × String × Ent => x.2.2.1) (fun _ => (1 : Int)) n]
  simp [countOf]

/-! ### unique keys -/
def KV.WF (m : KV) : Prop := (m.map (·.1)).Nodup

theorem KV.erase_keys_sub (m : KV) (k k2 : Key) (h : k2 ∈ (KV.erase m k).map (·.1)) : k2 ∈ m.map (·.1) := by
  induction m with
  | nil => simp [KV.erase] at h
  | cons p t ih =>
    obtain ⟨k3, e3⟩ := p
    simp only [KV.erase] at h
    by_cases hk : k3 = k
    · simp only [hk, ↓reduceIte] at h
      exact List.mem_cons_of_mem _ (ih h)
    · simp only [hk, ↓reduceIte, List.map_cons, List.mem_cons] at h ⊢
      rcases h with h | h
      · exact Or.inl h
      · exact Or.inr (ih h)

theorem KV.not_mem_erase (m : KV) (k : Key) : k ∉ (KV.erase m k).map (·.1) := by
  induction m with
  | nil => simp [KV.erase]
  | cons p t ih =>
    obtain ⟨k3, e3⟩ := p
    simp only [KV.erase]
    by_cases hk : k3 = k
    · simp only [hk, ↓reduceIte]; exact ih
    · simp only [hk, ↓reduceIte, List.map_cons, List.mem_cons, not_or]
      exact ⟨fun e => hk e.symm, ih⟩

theorem KV.wf_erase {m : KV} (h : KV.WF m) (k : Key) : KV.WF (KV.erase m k) := by
  induction m with
  | nil => exact h
  | cons p t ih =>
    obtain ⟨k3, e3⟩ := p
    unfold KV.WF at h ih ⊢
    simp only [List.map_cons, List.nodup_cons] at h
    simp only [KV.erase]
    by_cases hk : k3 = k
    · simp only [hk, ↓reduceIte]; exact ih h.2
    · simp only [hk, ↓reduceIte, List.map_cons, List.nodup_cons]
      exact ⟨fun hm => h.1 (KV.erase_keys_sub t k k3 hm), ih h.2⟩

theorem KV.wf_put {m : KV} (h : KV.WF m) (k : Key) (e : Ent) : KV.WF (KV.put m k e) := by
  unfold KV.WF KV.put
  simp only [List.map_cons, List.nodup_cons]
  exact ⟨KV.not_mem_erase m k, KV.wf_erase h k⟩

theorem KV.erase_absent (m : KV) (k : Key) (h : KV.get m k = none) : KV.erase m k = m := by
  induction m with
  | nil => rfl
  | cons p t ih =>
    obtain ⟨k3, e3⟩ := p
    simp only [KV.get] at h
    by_cases hk : k3 = k
    · simp [hk] at h
    · simp only [hk, ↓reduceIte] at h
      simp only [KV.erase, hk, ↓reduceIte, ih h]

/-- sum of a per-entry quantity over the map -/
def KV.sumBy (f : Key → Ent → Int) (m : KV) : Int := (m.map fun ke => f ke.1 ke.2).sum

theorem KV.sumBy_erase {m : KV} (hwf : KV.WF m) (f : Key → Ent → Int) (k : Key) :
    KV.sumBy f (KV.erase m k) = KV.sumBy f m - (match KV.get m k with | some e => f k e | none => 0) := by
  induction m with
  | nil => simp [KV.sumBy, KV.erase, KV.get]
  | cons p t ih =>
    obtain ⟨k3, e3⟩ := p
    unfold KV.WF at hwf
    simp only [List.map_cons, List.nodup_cons] at hwf
    by_cases hk : k3 = k
    · subst hk
      -- the rest of the list has no k3
      have hnone : KV.get t k3 = none := by
        cases hg : KV.get t k3 with
        | none => rfl
        | some e =>
          exfalso
          apply hwf.1
          clear ih hwf
          induction t with
          | nil => simp [KV.get] at hg
          | cons q t2 ih2 =>
            obtain ⟨k4, e4⟩ := q
            simp only [KV.get] at hg
            by_cases h4 : k4 = k3
            · simp [h4]
            · simp only [h4, ↓reduceIte] at hg
              exact List.mem_cons_of_mem _ (ih2 hg)
      simp only [KV.erase, ↓reduceIte, KV.get, KV.erase_absent t k3 hnone, KV.sumBy, List.map_cons, List.sum_cons]
      omega
    · have := ih hwf.2
      simp only [KV.erase, hk, ↓reduceIte, KV.get, KV.sumBy, List.map_cons, List.sum_cons] at this ⊢
      omega

theorem KV.sumBy_put {m : KV} (hwf : KV.WF m) (f : Key → Ent → Int) (k : Key) (e : Ent) :
    KV.sumBy f (KV.put m k e) = KV.sumBy f m - (match KV.get m k with | some e0 => f k e0 | none => 0) + f k e := by
  have := KV.sumBy_erase hwf f k
  simp only [KV.put, KV.sumBy, List.map_cons, List.sum_cons] at this ⊢
  omega

/-- per-entry contributions whose sums are `deployed` and `inProgress` -/
def deployedAt (a e n : String) (k : Key) (_ : Ent) : Int :=
  match k with
  | .deploy a' e' n' id => if isUnder (joinParts [a, e]) [a', e', n', id] && n' = n then 1 else 0
  | _ => 0

def inProgressAt (a e n : String) (k : Key) (ent : Ent) : Int :=
  match k, ent.val with
  | .proc a' e' n' i, .cnt c => if isUnder (joinParts [a, e]) [a', e', n', i] && n' = n then c else 0
  | _, _ => 0

theorem deployed_eq_sumBy (s : St) (a e n : String) : deployed s a e n = KV.sumBy (deployedAt a e n) s.kv := by
  unfold deployed deployKeys KV.sumBy
  generalize s.kv = m
  induction m with
  | nil => rfl
  | cons p t ih =>
    obtain ⟨k, ent⟩ := p
    simp only [List.filterMap_cons, List.map_cons, List.sum_cons]
    cases k <;> simp only [deployedAt] <;> (try (simp only [Int.zero_add]; exact ih))
    rename_i a' e' n' id
    by_cases hu : isUnder (joinParts [a, e]) [a', e', n', id] = true
    · simp only [hu, ↓reduceIte, List.map_cons, List.sum_cons, Bool.true_and, decide_eq_true_eq, ih]
      rfl
    · simp only [hu, Bool.false_eq_true, ↓reduceIte, Bool.false_and, Int.zero_add]; exact ih

theorem inProgress_eq_sumBy (s : St) (a e n : String) : inProgress s a e n = KV.sumBy (inProgressAt a e n) s.kv := by
  unfold inProgress procKeys KV.sumBy
  generalize s.kv = m
  induction m with
  | nil => rfl
  | cons p t ih =>
    obtain ⟨k, ent⟩ := p
    obtain ⟨v, x⟩ := ent
    simp only [List.filterMap_cons, List.map_cons, List.sum_cons]
    cases k <;> simp only [inProgressAt] <;> (try (simp only [Int.zero_add]; exact ih))
    rename_i a' e' n' i
    cases v <;> simp only [] <;> (try (simp only [Int.zero_add]; exact ih))
    rename_i c
    by_cases hu : isUnder (joinParts [a, e]) [a', e', n', i] = true
    · simp only [hu, ↓reduceIte, List.map_cons, List.sum_cons, Bool.true_and, decide_eq_true_eq, ih]
      rfl
    · simp only [hu, Bool.false_eq_true, ↓reduceIte, Bool.false_and, Int.zero_add]; exact ih


theorem KV.wf_putAll {m : KV} (h : KV.WF m) (data : List (Key × Val)) : KV.WF (KV.putAll m data) := by
  induction data generalizing m with
  | nil => exact h
  | cons kv t ih => obtain ⟨k, v⟩ := kv; exact ih (KV.wf_put h k _)

/-- writing fresh, pairwise distinct keys adds exactly their contributions -/
theorem KV.sumBy_putAll_fresh {m : KV} (hwf : KV.WF m) (f : Key → Ent → Int) (data : List (Key × Val))
    (hnd : (data.map (·.1)).Nodup) (habs : ∀ k ∈ data.map (·.1), KV.get m k = none) :
    KV.sumBy f (KV.putAll m data) = KV.sumBy f m + (data.map fun kv => f kv.1 { val := kv.2, exp := none }).sum := by
  induction data generalizing m with
  | nil => simp [KV.putAll]
  | cons kv t ih =>
    obtain ⟨k, v⟩ := kv
    simp only [List.map_cons, List.nodup_cons] at hnd
    simp only [KV.putAll, List.map_cons, List.sum_cons]
    rw [ih (KV.wf_put hwf k _) hnd.2]
    · rw [KV.sumBy_put hwf, habs k (by simp)]
      simp only
      omega
    · intro k2 hk2
      have hne : ¬ k = k2 := fun e => hnd.1 (e ▸ hk2)
      rw [KV.get_put_ne _ _ hne]
      exact habs k2 (by simp [hk2])

theorem isUnder_self (a e n i : String) (ha : a ≠ "") (he : e ≠ "") :
    isUnder (joinParts [a, e]) [a, e, n, i] = true := by
  simp [joinParts, ha, he, isUnder]

/-- **CreateProcessing** adds `count` to the in-progress number of its node and leaves the
    recorded number alone. -/
theorem createProcessing_effect {s s' : St} (hwf : KV.WF s.kv) (a e n i : String) (c : Int)
    (ha : a ≠ "") (he : e ≠ "") (h : createProcessing s a e n i c = .ok s') (n2 : String) :
    inProgress s' a e n2 = inProgress s a e n2 + (if n = n2 then c else 0) ∧
    deployed s' a e n2 = deployed s a e n2 := by
  unfold createProcessing batchCreate at h
  split at h
  · cases h
  · rename_i hfree
    cases h
    have hnone : KV.get s.kv (procKey a e n i) = none := by
      simp only [List.any_cons, List.any_nil, Bool.or_false, KV.has] at hfree
      cases hg : KV.get s.kv (procKey a e n i) with
      | none => rfl
      | some x => simp [hg] at hfree
    simp only [inProgress_eq_sumBy, deployed_eq_sumBy, KV.putAll]
    rw [KV.sumBy_put hwf, KV.sumBy_put hwf, hnone]
    simp only [procKey, inProgressAt, deployedAt, isUnder_self a e n i ha he, Bool.true_and, decide_eq_true_eq]
    constructor <;> omega

/-- **AddWorkload with a marker** (fresh workload id, marker of the workload's own
    app/entry/node): one more recorded workload, marker one less — the reported status does
    not move. -/
theorem addWorkload_marker_effect {s s' : St} (hwf : KV.WF s.kv) (w : WlRec) (a e x i : String) (c : Int)
    (exp : Option Nat) (ha : a ≠ "") (he : e ≠ "")
    (hname : parseWorkloadName w.name = .ok (a, e, x))
    (hmark : KV.get s.kv (procKey a e w.node i) = some { val := .cnt c, exp := exp })
    (hfresh : ∀ k ∈ (wlData w a e).map (·.1), KV.get s.kv k = none)
    (h : addWorkload s w (some (a, e, w.node, i)) = .ok s') (n2 : String) :
    deployed s' a e n2 = deployed s a e n2 + (if w.node = n2 then 1 else 0) ∧
    inProgress s' a e n2 = inProgress s a e n2 - (if w.node = n2 then 1 else 0) ∧
    deployed s' a e n2 + inProgress s' a e n2 = deployed s a e n2 + inProgress s a e n2 := by
  unfold addWorkload at h
  simp only [hname, createAndDecr, hmark] at h
  cases h
  have hnd : ((wlData w a e).map (·.1)).Nodup := by simp [wlData]
  have hdk : procKey a e w.node i ∉ (wlData w a e).map (·.1) := by simp [wlData, procKey]
  have hwf2 := KV.wf_putAll hwf (wlData w a e)
  have hget2 : KV.get (KV.putAll s.kv (wlData w a e)) (procKey a e w.node i) = some { val := .cnt c, exp := exp } := by
    rw [KV.get_putAll_not_mem _ _ _ hdk]; exact hmark
  have hu : isUnder (joinParts [a, e]) [a, e, w.node, w.id] = true := isUnder_self a e w.node w.id ha he
  have hu2 : isUnder (joinParts [a, e]) [a, e, w.node, i] = true := isUnder_self a e w.node i ha he
  have d : deployed { s with kv := KV.put (KV.putAll s.kv (wlData w a e)) (procKey a e w.node i) { val := .cnt (c - 1), exp := exp } } a e n2
      = deployed s a e n2 + (if w.node = n2 then 1 else 0) := by
    simp only [deployed_eq_sumBy]
    rw [KV.sumBy_put hwf2, hget2, KV.sumBy_putAll_fresh hwf _ _ hnd hfresh]
    simp only [wlData, procKey, deployedAt, List.map_cons, List.map_nil, List.sum_cons, List.sum_nil, hu,
      Bool.true_and, decide_eq_true_eq]
    omega
  have p : inProgress { s with kv := KV.put (KV.putAll s.kv (wlData w a e)) (procKey a e w.node i) { val := .cnt (c - 1), exp := exp } } a e n2
      = inProgress s a e n2 - (if w.node = n2 then 1 else 0) := by
    simp only [inProgress_eq_sumBy]
    rw [KV.sumBy_put hwf2, hget2, KV.sumBy_putAll_fresh hwf _ _ hnd hfresh]
    simp only [wlData, procKey, inProgressAt, List.map_cons, List.map_nil, List.sum_cons, List.sum_nil, hu2,
      Bool.true_and, decide_eq_true_eq]
    by_cases hn : w.node = n2 <;> simp [hn] <;> omega
  exact ⟨d, p, by rw [d, p]; omega⟩


/-! ### every reachable state has unique keys -/
theorem KV.wf_eraseAll {m : KV} (h : KV.WF m) (ks : List Key) : KV.WF (KV.eraseAll m ks) := by
  induction ks generalizing m with
  | nil => exact h
  | cons k t ih => exact ih (KV.wf_erase h k)

theorem KV.wf_filter {m : KV} (h : KV.WF m) (p : Key × Ent → Bool) : KV.WF (m.filter p) := by
  unfold KV.WF at h ⊢
  exact List.Nodup.sublist (List.Sublist.map _ List.filter_sublist) h

theorem wf_except {s : St} {r : Except Err St} (hs : KV.WF s.kv)
    (h : ∀ s', r = .ok s' → KV.WF s'.kv) : KV.WF (liftSt s r).1.kv := by
  unfold liftSt
  cases r with
  | ok s' => exact h s' rfl
  | error e => exact hs

theorem wf_batchCreate {s s' : St} (hs : KV.WF s.kv) {d : List (Key × Val)} (h : batchCreate s d = .ok s') : KV.WF s'.kv := by
  unfold batchCreate at h; split at h
  · cases h
  · cases h; exact KV.wf_putAll hs d

theorem wf_batchUpdate {s s' : St} (hs : KV.WF s.kv) {d : List (Key × Val)} (h : batchUpdate s d = .ok s') : KV.WF s'.kv := by
  unfold batchUpdate at h; split at h
  · cases h; exact KV.wf_putAll hs d
  · cases h

theorem wf_bindStatus {s s' : St} (hs : KV.WF s.kv) {c : Bool} {ek sk : Key} {v : Val} {ttl : Nat}
    (h : bindStatus s c ek sk v ttl = .ok s') : KV.WF s'.kv := by
  unfold bindStatus at h
  split at h
  · cases h; exact KV.wf_put hs _ _
  · split at h
    · cases h
    · cases h; exact KV.wf_put hs _ _

theorem wf_step (fl : Flavour) {s : St} (hs : KV.WF s.kv) (op : Op) : KV.WF (step fl s op).1.kv := by
  cases op <;> simp only [step, liftRd] <;> (try exact hs) <;> (try (split <;> exact hs))
  case addPod n d => exact wf_except hs (fun s' h => wf_batchCreate hs h)
  case removePod n =>
    apply wf_except hs
    intro s' h
    unfold removePod at h
    split at h
    · cases h
    · split at h
      · cases h; exact KV.wf_eraseAll hs _
      · cases h
  case addNode n ep p ca ce k ls t =>
    apply wf_except hs
    intro s' h
    unfold addNode at h
    split at h
    · cases h
    · exact wf_batchCreate hs h
  case removeNode p n => exact KV.wf_eraseAll hs _
  case updateNodes ns => exact KV.wf_putAll hs _
  case setNodeStatus n p ttl =>
    apply wf_except hs
    intro s' h
    unfold setNodeStatus at h
    split at h
    · cases h
    · split at h
      · cases h; exact KV.wf_eraseAll hs _
      · exact wf_bindStatus hs h
  case addWorkload w p =>
    apply wf_except hs
    intro s' h
    unfold addWorkload at h
    split at h
    · cases h
    · split at h
      · unfold createAndDecr at h
        split at h
        · cases h; exact KV.wf_put (KV.wf_putAll hs _) _ _
        · cases h
      · exact wf_batchCreate hs h
  case updateWorkload w =>
    apply wf_except hs
    intro s' h
    unfold updateWorkload at h
    split at h
    · cases h
    · exact wf_batchUpdate hs h
  case removeWorkload w =>
    apply wf_except hs
    intro s' h
    unfold removeWorkload at h
    split at h
    · cases h
    · cases h; exact KV.wf_eraseAll hs _
  case setWorkloadStatus r ttl =>
    apply wf_except hs
    intro s' h
    unfold setWorkloadStatus at h
    split at h
    · cases h
    · exact wf_bindStatus hs h
  case createProcessing a e n i c => exact wf_except hs (fun s' h => wf_batchCreate hs h)
  case deleteProcessing a e n i => exact KV.wf_eraseAll hs _
  case tick d => exact KV.wf_filter hs _

theorem wf_run (fl : Flavour) (ops : List Op) : ∀ s, KV.WF s.kv → KV.WF (run fl s ops).1.kv := by
  induction ops with
  | nil => intro s h; exact h
  | cons op t ih => intro s h; simp only [run]; exact ih _ (wf_step fl h op)

theorem wf_empty : KV.WF St.empty.kv := List.nodup_nil

theorem KV.sumBy_erase_zero {m : KV} (hwf : KV.WF m) (f : Key → Ent → Int) (k : Key)
    (hz : ∀ e, f k e = 0) : KV.sumBy f (KV.erase m k) = KV.sumBy f m := by
  rw [KV.sumBy_erase hwf]
  cases KV.get m k <;> simp [hz]

/-- **AddWorkload without a marker** (the create succeeded, so all three keys were free):
    one more recorded workload on its node, markers untouched (`DOp.plainAdd`). -/
theorem addWorkload_plain_effect {s s' : St} (hwf : KV.WF s.kv) (w : WlRec) (a e x : String)
    (ha : a ≠ "") (he : e ≠ "") (hname : parseWorkloadName w.name = .ok (a, e, x))
    (h : addWorkload s w none = .ok s') (n2 : String) :
    deployed s' a e n2 = deployed s a e n2 + (if w.node = n2 then 1 else 0) ∧
    inProgress s' a e n2 = inProgress s a e n2 := by
  unfold addWorkload at h
  simp only [hname, batchCreate] at h
  split at h
  · cases h
  · rename_i hfree
    cases h
    have hnd : ((wlData w a e).map (·.1)).Nodup := by simp [wlData]
    have habs : ∀ k ∈ (wlData w a e).map (·.1), KV.get s.kv k = none := by
      intro k hk
      simp only [List.mem_map] at hk
      obtain ⟨kv, hkv, rfl⟩ := hk
      cases hg : KV.get s.kv kv.1 with
      | none => rfl
      | some x => exact absurd (List.any_eq_true.mpr ⟨kv, hkv, by simp [KV.has, hg]⟩) hfree
    have hu : isUnder (joinParts [a, e]) [a, e, w.node, w.id] = true := isUnder_self a e w.node w.id ha he
    constructor
    · simp only [deployed_eq_sumBy]
      rw [KV.sumBy_putAll_fresh hwf _ _ hnd habs]
      simp only [wlData, deployedAt, List.map_cons, List.map_nil, List.sum_cons, List.sum_nil, hu,
        Bool.true_and, decide_eq_true_eq]
      omega
    · simp only [inProgress_eq_sumBy]
      rw [KV.sumBy_putAll_fresh hwf _ _ hnd habs]
      simp [wlData, inProgressAt]

/-- **RemoveWorkload**: one recorded workload less on its node iff its deploy key was there,
    markers untouched (`DOp.remove`). -/
theorem removeWorkload_effect {s s' : St} (hwf : KV.WF s.kv) (w : WlRec) (a e x : String)
    (ha : a ≠ "") (he : e ≠ "") (hname : parseWorkloadName w.name = .ok (a, e, x))
    (h : removeWorkload s w = .ok s') (n2 : String) :
    deployed s' a e n2 = deployed s a e n2 -
      (if (s.kv.has (.deploy a e w.node w.id) = true ∧ w.node = n2) then 1 else 0) ∧
    inProgress s' a e n2 = inProgress s a e n2 := by
  unfold removeWorkload at h
  simp only [hname] at h
  cases h
  have hu : isUnder (joinParts [a, e]) [a, e, w.node, w.id] = true := isUnder_self a e w.node w.id ha he
  have w1 := KV.wf_erase hwf (.wst a e w.node w.id)
  have w2 := KV.wf_erase w1 (.deploy a e w.node w.id)
  have w3 := KV.wf_erase w2 (.wl w.id)
  constructor
  · simp only [deployed_eq_sumBy, batchDelete, KV.eraseAll]
    rw [KV.sumBy_erase_zero w3 _ _ (by intro e; rfl), KV.sumBy_erase_zero w2 _ _ (by intro e; rfl),
        KV.sumBy_erase w1, KV.get_erase_ne _ (by simp), KV.sumBy_erase_zero hwf _ _ (by intro e; rfl)]
    cases hg : KV.get s.kv (.deploy a e w.node w.id) with
    | none => simp [KV.has, hg]
    | some ent =>
      simp only [deployedAt, hu, Bool.true_and, decide_eq_true_eq, KV.has, hg, Option.isSome_some, true_and]
  · simp only [inProgress_eq_sumBy, batchDelete, KV.eraseAll]
    rw [KV.sumBy_erase_zero w3 _ _ (by intro e; rfl), KV.sumBy_erase_zero w2 _ _ (by intro e; rfl),
        KV.sumBy_erase_zero w1 _ _ (by intro e; rfl), KV.sumBy_erase_zero hwf _ _ (by intro e; rfl)]

/-- **DeleteProcessing**: the marker's remaining count leaves the in-progress number of its node,
    recorded workloads untouched (`DOp.finish`). -/
theorem deleteProcessing_effect {s : St} (hwf : KV.WF s.kv) (a e n i : String)
    (ha : a ≠ "") (he : e ≠ "") (n2 : String) :
    inProgress (deleteProcessing s a e n i) a e n2 = inProgress s a e n2 -
      (match KV.get s.kv (procKey a e n i) with
       | some { val := .cnt c, .. } => if n = n2 then c else 0
       | _ => 0) ∧
    deployed (deleteProcessing s a e n i) a e n2 = deployed s a e n2 ∧
    (deleteProcessing s a e n i).kv.has (procKey a e n i) = false := by
  have hu : isUnder (joinParts [a, e]) [a, e, n, i] = true := isUnder_self a e n i ha he
  refine ⟨?_, ?_, ?_⟩
  · simp only [inProgress_eq_sumBy, deleteProcessing, batchDelete, KV.eraseAll]
    rw [KV.sumBy_erase hwf]
    cases hg : KV.get s.kv (procKey a e n i) with
    | none => simp
    | some ent =>
      obtain ⟨v, x⟩ := ent
      cases v <;> simp [procKey, inProgressAt, hu]
  · simp only [deployed_eq_sumBy, deleteProcessing, batchDelete, KV.eraseAll]
    exact KV.sumBy_erase_zero hwf _ _ (by intro e; rfl)
  · simp [deleteProcessing, batchDelete, KV.eraseAll, KV.has, KV.get_erase_same]

end Eru.Store
