import Eru.Store.Ref
/-
Decidable specification predicates evaluated by the oracle on the *implementation's* outputs
(return values and raw key-space read-backs), and proved about the reference model in
`Eru/Props/C13.lean`, `C23.lean`, `C25.lean`.
-/
namespace Eru.Store

/-! ### C23: a failing create leaves the store unchanged -/

/-- `before`/`after` are key-space read-backs around a call that returned `failed` -/
def createAtomicOK {α} [BEq α] (failed : Bool) (before after : α) : Bool :=
  !failed || before == after

/-! ### C25: status visibility -/

/-- a report is accepted iff it carries no TTL or its entity exists
    (the visibility specification itself is `Eru.Store.Status.Spec`) -/
def accepted (ttl : Nat) (entityExists : Bool) : Bool := ttl == 0 || entityExists

/-! ### C13: deploy status counts -/

/-- `GetDeployStatus` is exact: deployed keys + sum of markers -/
def statusExact (recorded markerSum status : Int) : Bool := status == recorded + markerSum

/-- bounds of the property at one observation point: never below what is recorded, never above
    the prior count plus everything planned by the deployments still running -/
def withinBounds (recorded status prior plannedActive : Int) : Bool :=
  decide (recorded ≤ status) && decide (status ≤ prior + plannedActive)

/-- one running deployment on an (app, entry, node): marker ident, planned count, successful adds -/
structure Dep where
  ident : String
  planned : Int
  added : Int
  deriving DecidableEq, Repr

/-- bookkeeping of the bound for one (app, entry, node) -/
structure Cap where
  prior : Int := 0
  active : List Dep := []
  deriving DecidableEq, Repr

def Cap.planned (c : Cap) : Int := (c.active.map (·.planned)).sum

def Cap.start (c : Cap) (ident : String) (planned : Int) : Cap :=
  { c with active := c.active ++ [{ ident := ident, planned := planned, added := 0 }] }

def Cap.added (c : Cap) (ident : String) : Cap :=
  { c with active := c.active.map fun d => if d.ident == ident then { d with added := d.added + 1 } else d }

def Cap.finish (c : Cap) (ident : String) : Cap :=
  { prior := c.prior + ((c.active.filter (·.ident == ident)).map (·.added)).sum,
    active := c.active.filter (·.ident != ident) }

def Cap.plainAdd (c : Cap) : Cap := { c with prior := c.prior + 1 }
def Cap.removed (c : Cap) : Cap := { c with prior := c.prior - 1 }

end Eru.Store
