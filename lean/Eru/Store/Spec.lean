import Eru.Store.Ref
/-
Decidable specification predicates evaluated by the oracle on the *implementation's* outputs
(return values and raw key-space read-backs), and proved about the reference model in
`Eru/Props/C13.lean`, `C23.lean`, `C25.lean`.
-/
namespace Eru.Store

/-! ### C23: a failing create leaves the store unchanged -/

/-- `before`/`after` are key-space read-backs around a call that returned `failed` -/
def createAtomicOK {α} [BEq α] (failed : Bool) (before after : α) : Bool :=
  !failed || before == after

/-! ### C25: status visibility -/

/-- what the history says about one status key: the latest accepted report (time, ttl)
    since the last removal, if any -/
abbrev Track := Option (Nat × Nat)

/-- a report is accepted iff it carries no TTL or its entity exists -/
def accepted (ttl : Nat) (entityExists : Bool) : Bool := ttl == 0 || entityExists

/-- visible at `now` iff there is such a report and (`ttl = 0` or `now < reportTime + ttl`) -/
def specVisible (now : Nat) : Track → Bool
  | some (t, ttl) => ttl == 0 || now < t + ttl
  | none => false

/-- remaining lifetime the history prescribes (0 = does not expire) -/
def specRemaining (now : Nat) : Track → Nat
  | some (t, ttl) => if ttl == 0 then 0 else t + ttl - now
  | none => 0

def Track.report (now ttl : Nat) (entityExists : Bool) (tr : Track) : Track :=
  if accepted ttl entityExists then some (now, ttl) else tr

/-! ### C13: deploy status counts -/

/-- `GetDeployStatus` is exact: deployed keys + sum of markers -/
def statusExact (recorded markerSum status : Int) : Bool := status == recorded + markerSum

/-- bounds of the property at one observation point: never below what is recorded, never above
    the prior count plus everything planned by the deployments still running -/
def withinBounds (recorded status prior plannedActive : Int) : Bool :=
  decide (recorded ≤ status) && decide (status ≤ prior + plannedActive)

/-- one running deployment on an (app, entry, node): marker ident, planned count, successful adds -/
structure Dep where
  ident : String
  planned : Int
  added : Int
  deriving DecidableEq, Repr

/-- bookkeeping of the bound for one (app, entry, node) -/
structure Cap where
  prior : Int := 0
  active : List Dep := []
  deriving DecidableEq, Repr

def Cap.planned (c : Cap) : Int := c.active.foldl (fun a d => a + d.planned) 0

def Cap.start (c : Cap) (ident : String) (planned : Int) : Cap :=
  { c with active := c.active ++ [{ ident := ident, planned := planned, added := 0 }] }

def Cap.added (c : Cap) (ident : String) : Cap :=
  { c with active := c.active.map fun d => if d.ident == ident then { d with added := d.added + 1 } else d }

def Cap.finish (c : Cap) (ident : String) : Cap :=
  { prior := c.prior + (c.active.filter (·.ident == ident)).foldl (fun a d => a + d.added) 0,
    active := c.active.filter (·.ident != ident) }

def Cap.plainAdd (c : Cap) : Cap := { c with prior := c.prior + 1 }
def Cap.removed (c : Cap) : Cap := { c with prior := c.prior - 1 }

end Eru.Store
