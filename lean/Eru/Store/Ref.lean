/-
Reference metadata store (C13, C23, C25).

One model for both backends.  `store/etcdv3/*.go` (Mercury, on `meta.ETCD`) and
`store/redis/*.go` (Rediaron) share the key layout (`mercury.go` / `rediaron.go` constants) and
are written operation by operation on top of the same few primitives
(`BatchCreate`, `BatchUpdate`, `BatchPut`, `BatchDelete`, `BatchCreateAndDecr`, `BindStatus`,
prefix/glob queries).  The model mirrors that structure: a typed key space (one constructor per
key format), a finite map `Key → (value, expiry deadline)`, a logical clock, the primitives,
and the `store.Store` operations written on top of them statement by statement.

Modelling conventions specific to this file
* names are "clean" (non-empty, no `/`, no glob metacharacters); C24 covers the others.
  With clean names `filepath.Join` is "drop empty components, join with /" and the etcd prefix
  query / Redis glob `prefix/*` both mean "the query's components are a proper prefix of the
  key's components" (`isUnder`).
* values are the fields of the marshalled Go structs that the harness reads back
  (`NodeRec`, `WlRec`, `StRec`); everything else in the JSON is constant in the harness.
* time is a logical clock in seconds; an entry with deadline `d` is gone once `now ≥ d`
  (etcd: the lease expired and the key was deleted; Redis: `EX` elapsed).
* `Flavour` switches the (few) places where a backend, as it is today, deviates from the
  reference; `Flavour.ref` is the specification.  See design.d/store.md for the list.
-/
namespace Eru.Store

abbrev Labels := List (String × String)

/-- `utils.LabelsFilter(extend, labels)`: every filter pair must be present with that value. -/
def labelsFilter (extend want : Labels) : Bool :=
  want.all fun kv => extend.lookup kv.1 == some kv.2

inductive Key where
  | pod (n : String)                 -- /pod/info/{pod}
  | node (n : String)                -- /node/{node}
  | nodePod (p n : String)           -- /node/{pod}:pod/{node}
  | ca (n : String)                  -- /node/{node}:ca
  | cert (n : String)                -- /node/{node}:cert
  | ckey (n : String)                -- /node/{node}:key
  | wl (id : String)                 -- /workloads/{id}
  | nodeWl (n id : String)           -- /node/{node}:workloads/{id}
  | deploy (a e n id : String)       -- /deploy/{app}/{entry}/{node}/{id}
  | wst (a e n id : String)          -- /status/{app}/{entry}/{node}/{id}
  | nst (n : String)                 -- /status:node/{node}
  | proc (a e n ident : String)      -- /processing/{app}/{entry}/{node}/{ident}
  deriving DecidableEq, Repr

structure NodeRec where
  name : String
  pod : String
  endpoint : String
  labels : Labels
  test : Bool
  bypass : Bool
  deriving DecidableEq, Repr

structure WlRec where
  id : String
  name : String
  node : String
  labels : Labels
  image : String
  deriving DecidableEq, Repr

structure StRec where
  id : String
  app : String
  entry : String
  node : String
  running : Bool
  healthy : Bool
  deriving DecidableEq, Repr

inductive Val where
  | pod (name desc : String)
  | node (r : NodeRec)
  | wl (r : WlRec)
  | str (s : String)
  | wst (r : StRec)
  | nst (node pod : String)
  | cnt (c : Int)
  deriving DecidableEq, Repr

structure Ent where
  val : Val
  exp : Option Nat      -- absolute deadline (logical seconds); none = persistent
  deriving DecidableEq, Repr

abbrev KV := List (Key × Ent)

structure St where
  kv : KV
  now : Nat
  deriving DecidableEq, Repr

def St.empty : St := { kv := [], now := 0 }

inductive Err where
  | keyExists      -- types.ErrKeyExists / redis.ErrAlreadyExists
  | notFound       -- types.ErrInvaildCount / ErrKeyNotExists / ErrPodNotFound / redis nil
  | podHasNodes    -- types.ErrPodHasNodes
  | badTTL         -- types.ErrInvaildNodeStatusTTL
  | badStatus      -- types.ErrInvaildWorkloadStatus
  | badName        -- types.ErrInvalidWorkloadName
  | badMeta        -- types.ErrInvaildWorkloadMeta
  deriving DecidableEq, Repr

/-- where a backend as it is today deviates from the reference -/
structure Flavour where
  /-- `SetNodeStatus` with positive TTL checks that `/node/{name}` exists -/
  nodeStatusChecksEntity : Bool
  deriving DecidableEq, Repr

def Flavour.ref : Flavour := { nodeStatusChecksEntity := true }
def Flavour.etcd : Flavour := Flavour.ref
/-- store/redis/node.go:SetNodeStatus writes the status key without looking at the node key -/
def Flavour.redis : Flavour := { nodeStatusChecksEntity := false }

/-! ### finite map -/
namespace KV
def get : KV → Key → Option Ent
  | [], _ => none
  | (k', e) :: t, k => if k' = k then some e else get t k

def has (m : KV) (k : Key) : Bool := (get m k).isSome

def erase : KV → Key → KV
  | [], _ => []
  | (k', e) :: t, k => if k' = k then erase t k else (k', e) :: erase t k

def put (m : KV) (k : Key) (e : Ent) : KV := (k, e) :: erase m k

def putAll (m : KV) : List (Key × Val) → KV
  | [] => m
  | (k, v) :: t => putAll (put m k { val := v, exp := none }) t

def eraseAll (m : KV) : List Key → KV
  | [] => m
  | k :: t => eraseAll (erase m k) t
end KV

/-! ### primitives (meta/etcd.go, redis/rediaron.go) -/

/-- `BatchCreate`: etcd — one transaction `If version(k)=0 for all k Then put all`;
    Redis (after the fix) — one script: if any key exists return 0, else set all. -/
def batchCreate (s : St) (data : List (Key × Val)) : Except Err St :=
  if data.any (fun kv => s.kv.has kv.1) then .error .keyExists
  else .ok { s with kv := s.kv.putAll data }

/-- `BatchUpdate`: all keys must exist. -/
def batchUpdate (s : St) (data : List (Key × Val)) : Except Err St :=
  if data.all (fun kv => s.kv.has kv.1) then .ok { s with kv := s.kv.putAll data }
  else .error .notFound

def batchPut (s : St) (data : List (Key × Val)) : St := { s with kv := s.kv.putAll data }

def batchDelete (s : St) (keys : List Key) : St := { s with kv := s.kv.eraseAll keys }

/-- `BatchCreateAndDecr`: the marker must exist; in one atomic step the data keys are *put*
    (etcd `OpPut`, no existence compare) and the marker is decremented. -/
def createAndDecr (s : St) (data : List (Key × Val)) (dk : Key) : Except Err St :=
  match s.kv.get dk with
  | some { val := .cnt c, exp := x } =>
    .ok { s with kv := (s.kv.putAll data).put dk { val := .cnt (c - 1), exp := x } }
  | _ => .error .notFound

/-- `BindStatus(entityKey, statusKey, value, ttl)`: `ttl = 0` — stored without expiry and without
    looking at the entity; `ttl > 0` — the entity must exist, the status is stored and expires
    `ttl` seconds after *this* report (a repeated identical report extends the lifetime). -/
def bindStatus (s : St) (checkEntity : Bool) (entity sk : Key) (v : Val) (ttl : Nat) : Except Err St :=
  if ttl = 0 then .ok { s with kv := s.kv.put sk { val := v, exp := none } }
  else if checkEntity && !s.kv.has entity then .error .notFound
  else .ok { s with kv := s.kv.put sk { val := v, exp := some (s.now + ttl) } }

/-- time passes: every entry whose deadline has been reached disappears -/
def tick (s : St) (d : Nat) : St :=
  let now := s.now + d
  { kv := s.kv.filter (fun ke => match ke.2.exp with | some x => now < x | none => true), now := now }

/-! ### key components and prefix queries -/
def joinParts (ps : List String) : List String := ps.filter (· ≠ "")

/-- the query components are a proper prefix of the key components
    (etcd `WithPrefix` on `Join(...)+"/"`, Redis `SCAN MATCH Join(...)/*`) -/
def isUnder : List String → List String → Bool
  | [], _ :: _ => true
  | q :: qs, c :: cs => q == c && isUnder qs cs
  | _, [] => false

def deployKeys (s : St) (q : List String) : List (String × String × String × String × Ent) :=
  s.kv.filterMap fun ke => match ke.1 with
    | .deploy a e n id => if isUnder q [a, e, n, id] then some (a, e, n, id, ke.2) else none
    | _ => none

def procKeys (s : St) (q : List String) : List (String × Int) :=
  s.kv.filterMap fun ke => match ke.1, ke.2.val with
    | .proc a e n i, .cnt c => if isUnder q [a, e, n, i] then some (n, c) else none
    | _, _ => none

/-! ### names -/
/-- `utils.ParseWorkloadName`: trim leading `/`, split on `_`, at least three parts -/
def parseWorkloadName (name : String) : Except Err (String × String × String) :=
  let t := String.ofList (name.toList.dropWhile (· == '/'))
  let parts := t.splitOn "_"
  let n := parts.length
  if n ≥ 3 then
    .ok (String.intercalate "_" (parts.take (n - 2)), parts.getD (n - 2) "", parts.getD (n - 1) "")
  else .error .badName

/-! ### pods (pod.go) -/
def getPod (s : St) (name : String) : Except Err (String × String) :=
  match s.kv.get (.pod name) with
  | some { val := .pod n d, .. } => .ok (n, d)
  | _ => .error .notFound

def getAllPods (s : St) : List (String × String) :=
  s.kv.filterMap fun ke => match ke.1, ke.2.val with
    | .pod _, .pod n d => some (n, d)
    | _, _ => none

def addPod (s : St) (name desc : String) : Except Err St :=
  batchCreate s [(.pod name, .pod name desc)]

/-! ### nodes (node.go) -/
structure NodeView where
  r : NodeRec
  available : Bool
  deriving DecidableEq, Repr

/-- `doGetNodes`: label filter, availability (test nodes: not bypassed; others: a node status
    is present), `!all && IsDown()` filter -/
def viewNodes (s : St) (recs : List NodeRec) (labels : Labels) (all : Bool) : List NodeView :=
  let sel := recs.filter (fun r => labelsFilter r.labels labels)
  let vs := sel.map fun r =>
    { r := r, available := if r.test then !r.bypass else s.kv.has (.nst r.name) : NodeView }
  vs.filter fun v => all || !(v.r.bypass || !v.available)

def getMultiNodes (s : St) : List String → Except Err (List NodeRec)
  | [] => .ok []
  | n :: t =>
    match s.kv.get (.node n) with
    | some { val := .node r, .. } => (getMultiNodes s t).map (r :: ·)
    | _ => .error .notFound

def getNodes (s : St) (names : List String) : Except Err (List NodeView) :=
  (getMultiNodes s names).map fun rs => viewNodes s rs [] true

def nodesOfPod (s : St) (pod : String) : List NodeRec :=
  s.kv.filterMap fun ke => match ke.1, ke.2.val with
    | .nodePod p _, .node r => if p == pod then some r else none
    | _, _ => none

def getNodesByPod (s : St) (pod : String) (labels : Labels) (all : Bool) : List NodeView :=
  if pod ≠ "" then viewNodes s (nodesOfPod s pod) labels all
  else (getAllPods s).flatMap fun p => viewNodes s (nodesOfPod s p.1) labels all

def removePod (s : St) (name : String) : Except Err St :=
  if !(getNodesByPod s name [] true).isEmpty then .error .podHasNodes
  else if s.kv.has (.pod name) then .ok (batchDelete s [.pod name])
  else .error .notFound

def certData (name ca cert key : String) : List (Key × Val) :=
  (if ca ≠ "" then [(Key.ca name, Val.str ca)] else []) ++
  (if cert ≠ "" then [(Key.cert name, Val.str cert)] else []) ++
  (if key ≠ "" then [(Key.ckey name, Val.str key)] else [])

def addNode (s : St) (name endpoint pod ca cert key : String) (labels : Labels) (test : Bool) :
    Except Err St :=
  match getPod s pod with
  | .error e => .error e
  | .ok _ =>
    let r : NodeRec := { name := name, pod := pod, endpoint := endpoint, labels := labels,
                         test := test || endpoint.startsWith "mock://", bypass := false }
    batchCreate s (certData name ca cert key ++ [(.node name, .node r), (.nodePod pod name, .node r)])

def removeNode (s : St) (pod name : String) : St :=
  batchDelete s [.node name, .nodePod pod name, .ca name, .cert name, .ckey name]

def updateNodes (s : St) (nodes : List (NodeRec × String × String × String)) : St :=
  batchPut s (nodes.flatMap fun (r, ca, cert, key) =>
    [(Key.node r.name, Val.node r), (Key.nodePod r.pod r.name, Val.node r)] ++ certData r.name ca cert key)

def setNodeStatus (fl : Flavour) (s : St) (name pod : String) (ttl : Int) : Except Err St :=
  if ttl = 0 then .error .badTTL
  else if ttl < 0 then .ok (batchDelete s [.nst name])
  else bindStatus s fl.nodeStatusChecksEntity (.node name) (.nst name) (.nst name pod) ttl.toNat

def getNodeStatus (s : St) (name : String) : Except Err (String × String) :=
  match s.kv.get (.nst name) with
  | some { val := .nst n p, .. } => .ok (n, p)
  | _ => .error .notFound

def strAt (s : St) (k : Key) : String :=
  match s.kv.get k with
  | some { val := .str v, .. } => v
  | _ => ""

def loadNodeCert (s : St) (name : String) : String × String × String :=
  (strAt s (.ca name), strAt s (.cert name), strAt s (.ckey name))

/-! ### workloads (workload.go) -/
structure WlView where
  r : WlRec
  status : Option StRec
  deriving DecidableEq, Repr

def wlData (w : WlRec) (a e : String) : List (Key × Val) :=
  [(.wl w.id, .wl w), (.nodeWl w.node w.id, .wl w), (.deploy a e w.node w.id, .wl w)]

def procKey (a e n i : String) : Key := .proc a e n i

def addWorkload (s : St) (w : WlRec) (proc : Option (String × String × String × String)) :
    Except Err St :=
  match parseWorkloadName w.name with
  | .error e => .error e
  | .ok (a, e, _) =>
    match proc with
    | some (pa, pe, pn, pi) => createAndDecr s (wlData w a e) (procKey pa pe pn pi)
    | none => batchCreate s (wlData w a e)

def updateWorkload (s : St) (w : WlRec) : Except Err St :=
  match parseWorkloadName w.name with
  | .error e => .error e
  | .ok (a, e, _) => batchUpdate s (wlData w a e)

def removeWorkload (s : St) (w : WlRec) : Except Err St :=
  match parseWorkloadName w.name with
  | .error e => .error e
  | .ok (a, e, _) =>
    .ok (batchDelete s [.wst a e w.node w.id, .deploy a e w.node w.id, .wl w.id, .nodeWl w.node w.id])

def dedup : List String → List String
  | [] => []
  | x :: t => x :: (dedup t).filter (· ≠ x)

/-- `bindWorkloadsAdditions`: every name must parse, every node must exist (`GetNodes`),
    the status is read from `/status/{app}/{entry}/{workload.Nodename}/{id}` -/
def bindAdditions (s : St) (ws : List WlRec) : Except Err (List WlView) :=
  match ws.mapM (fun w => (parseWorkloadName w.name).map fun (a, e, _) => (w, a, e)) with
  | .error e => .error e
  | .ok parsed =>
    match getMultiNodes s (dedup (ws.map (·.node))) with
    | .error e => .error e
    | .ok _ =>
      .ok (parsed.map fun (w, a, e) =>
        { r := w,
          status := match s.kv.get (.wst a e w.node w.id) with
            | some { val := .wst r, .. } => some r
            | _ => none })

def getMultiWls (s : St) : List String → Except Err (List WlRec)
  | [] => .ok []
  | id :: t =>
    match s.kv.get (.wl id) with
    | some { val := .wl r, .. } => (getMultiWls s t).map (r :: ·)
    | _ => .error .notFound

def getWorkloads (s : St) (ids : List String) : Except Err (List WlView) :=
  match getMultiWls s ids with
  | .error e => .error e
  | .ok ws => bindAdditions s ws

def setWorkloadStatus (s : St) (r : StRec) (ttl : Nat) : Except Err St :=
  if r.app = "" || r.entry = "" || r.node = "" then .error .badStatus
  else bindStatus s true (.wl r.id) (.wst r.app r.entry r.node r.id) (.wst r) ttl

def listQuery (a e n : String) : List String :=
  let e := if a = "" then "" else e
  let n := if e = "" then "" else n
  joinParts [a, e, n]

/-- all workloads under the prefix, before `limit` is applied -/
def listCandidates (s : St) (a e n : String) : List WlRec :=
  (deployKeys s (listQuery a e n)).filterMap fun (_, _, _, _, ent) =>
    match ent.val with | .wl r => some r | _ => none

/-- `ListWorkloads` with `limit = 0` (no limit) -/
def listWorkloads (s : St) (a e n : String) (labels : Labels) : Except Err (List WlView) :=
  bindAdditions s ((listCandidates s a e n).filter fun w => labelsFilter w.labels labels)

def listNodeWorkloads (s : St) (node : String) (labels : Labels) : Except Err (List WlView) :=
  let ws := s.kv.filterMap fun ke => match ke.1, ke.2.val with
    | .nodeWl n _, .wl r => if n == node then some r else none
    | _, _ => none
  bindAdditions s (ws.filter fun w => labelsFilter w.labels labels)

/-! ### deploy status and processing markers (deploy.go, processing.go) -/
def addCount (m : List (String × Int)) (n : String) (d : Int) : List (String × Int) :=
  match m with
  | [] => [(n, d)]
  | (k, v) :: t => if k = n then (k, v + d) :: t else (k, v) :: addCount t n d

def countOf (m : List (String × Int)) (n : String) : Int := (m.lookup n).getD 0

/-- number of `/deploy/{a}/{e}/{n}/…` keys -/
def deployed (s : St) (a e n : String) : Int :=
  ((deployKeys s (joinParts [a, e])).map fun x => if x.2.2.1 = n then (1 : Int) else 0).sum

/-- sum of the markers `/processing/{a}/{e}/{n}/…` -/
def inProgress (s : St) (a e n : String) : Int :=
  ((procKeys s (joinParts [a, e])).map fun nc => if nc.1 = n then nc.2 else 0).sum

/-- `GetDeployStatus`: per node, deployed keys + sum of markers (nodes with neither are absent) -/
def getDeployStatus (s : St) (a e : String) : List (String × Int) :=
  let q := joinParts [a, e]
  let m := (deployKeys s q).foldl (fun m (_, _, n, _, _) => addCount m n 1) []
  (procKeys s q).foldl (fun m nc => addCount m nc.1 nc.2) m

def createProcessing (s : St) (a e n i : String) (count : Int) : Except Err St :=
  batchCreate s [(procKey a e n i, .cnt count)]

def deleteProcessing (s : St) (a e n i : String) : St := batchDelete s [procKey a e n i]

/-! ### operations as data -/
inductive Op where
  | addPod (name desc : String)
  | removePod (name : String)
  | getPod (name : String)
  | getAllPods
  | addNode (name endpoint pod ca cert key : String) (labels : Labels) (test : Bool)
  | removeNode (pod name : String)
  | getNodes (names : List String)
  | getNodesByPod (pod : String) (labels : Labels) (all : Bool)
  | updateNodes (nodes : List (NodeRec × String × String × String))
  | setNodeStatus (name pod : String) (ttl : Int)
  | getNodeStatus (name : String)
  | loadNodeCert (name : String)
  | addWorkload (w : WlRec) (proc : Option (String × String × String × String))
  | updateWorkload (w : WlRec)
  | removeWorkload (w : WlRec)
  | getWorkloads (ids : List String)
  | setWorkloadStatus (r : StRec) (ttl : Nat)
  | listWorkloads (a e n : String) (limit : Nat) (labels : Labels)
  | listNodeWorkloads (node : String) (labels : Labels)
  | getDeployStatus (a e : String)
  | createProcessing (a e n i : String) (count : Int)
  | deleteProcessing (a e n i : String)
  | tick (d : Nat)
  deriving Repr

inductive Res where
  | err (e : Err)
  | unit
  | pod (name desc : String)
  | pods (ps : List (String × String))
  | nodes (ns : List NodeView)
  | nstatus (node pod : String)
  | cert (ca cert key : String)
  | wls (ws : List WlView)
  | counts (m : List (String × Int))
  deriving Repr

def liftSt (s : St) (r : Except Err St) : St × Res :=
  match r with
  | .ok s' => (s', .unit)
  | .error e => (s, .err e)

def liftRd {α} (s : St) (r : Except Err α) (f : α → Res) : St × Res :=
  match r with
  | .ok v => (s, f v)
  | .error e => (s, .err e)

/-- one `store.Store` call -/
def step (fl : Flavour) (s : St) : Op → St × Res
  | .addPod n d => liftSt s (addPod s n d)
  | .removePod n => liftSt s (removePod s n)
  | .getPod n => liftRd s (getPod s n) fun (a, b) => .pod a b
  | .getAllPods => (s, .pods (getAllPods s))
  | .addNode n ep p ca ce k ls t => liftSt s (addNode s n ep p ca ce k ls t)
  | .removeNode p n => (removeNode s p n, .unit)
  | .getNodes ns => liftRd s (getNodes s ns) .nodes
  | .getNodesByPod p ls all => (s, .nodes (getNodesByPod s p ls all))
  | .updateNodes ns => (updateNodes s ns, .unit)
  | .setNodeStatus n p ttl => liftSt s (setNodeStatus fl s n p ttl)
  | .getNodeStatus n => liftRd s (getNodeStatus s n) fun (a, b) => .nstatus a b
  | .loadNodeCert n => let (a, b, c) := loadNodeCert s n; (s, .cert a b c)
  | .addWorkload w p => liftSt s (addWorkload s w p)
  | .updateWorkload w => liftSt s (updateWorkload s w)
  | .removeWorkload w => liftSt s (removeWorkload s w)
  | .getWorkloads ids => liftRd s (getWorkloads s ids) .wls
  | .setWorkloadStatus r ttl => liftSt s (setWorkloadStatus s r ttl)
  | .listWorkloads a e n _ ls => liftRd s (listWorkloads s a e n ls) .wls
  | .listNodeWorkloads n ls => liftRd s (listNodeWorkloads s n ls) .wls
  | .getDeployStatus a e => (s, .counts (getDeployStatus s a e))
  | .createProcessing a e n i c => liftSt s (createProcessing s a e n i c)
  | .deleteProcessing a e n i => (deleteProcessing s a e n i, .unit)
  | .tick d => (tick s d, .unit)

/-- run a whole sequence, collecting the results -/
def run (fl : Flavour) (s : St) : List Op → St × List Res
  | [] => (s, [])
  | op :: t =>
    let (s', r) := step fl s op
    let (s'', rs) := run fl s' t
    (s'', r :: rs)

/-- the creates of the interface (operations that must fail when something already exists) -/
def Op.isCreate : Op → Bool
  | .addPod .. | .addNode .. | .createProcessing .. => true
  | .addWorkload _ none => true
  | _ => false

end Eru.Store
