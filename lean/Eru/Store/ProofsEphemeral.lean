import Eru.Store.Ephemeral
/- Invariants of the etcd ephemeral-key protocol and the guarded Redis protocol. -/
namespace Eru.Store.Ephemeral

structure EInv (s : Etcd) : Prop where
  keyAlive : ∀ l, s.key = some l → s.alive l = true
  aliveLt : ∀ l, s.alive l = true → l < s.next
  holdLt : ∀ p l, s.regs p = .holding l → l < s.next
  holdInj : ∀ p q l, s.regs p = .holding l → s.regs q = .holding l → p = q
  holdKey : ∀ p l, s.regs p = .holding l → s.alive l = true → s.key = some l

theorem einv_init : EInv {} :=
  { keyAlive := (by intro l h; cases h), aliveLt := (by intro l h; cases h),
    holdLt := (by intro p l h; cases h), holdInj := (by intro p q l h; cases h),
    holdKey := (by intro p l h; cases h) }

theorem einv_revoke {s : Etcd} (h : EInv s) (l : Nat) (regs' : Nat → Reg)
    (hsub : ∀ q l2, regs' q = .holding l2 → s.regs q = .holding l2) :
    EInv { s.revoke l with regs := regs' } := by
  refine { keyAlive := ?_, aliveLt := ?_, holdLt := ?_, holdInj := ?_, holdKey := ?_ }
  · intro l2 hk
    simp only [Etcd.revoke] at hk ⊢
    by_cases hkl : s.key = some l
    · simp [hkl] at hk
    · simp only [hkl, ↓reduceIte] at hk
      have hne : l2 ≠ l := fun e => hkl (e ▸ hk)
      simp only [hne, ↓reduceIte]; exact h.keyAlive l2 hk
  · intro l2 ha
    simp only [Etcd.revoke] at ha ⊢
    by_cases hl : l2 = l
    · simp [hl] at ha
    · simp only [hl, ↓reduceIte] at ha; exact h.aliveLt l2 ha
  · intro q l2 hq
    exact h.holdLt q l2 (hsub q l2 hq)
  · intro p q l2 hp hq
    exact h.holdInj p q l2 (hsub p l2 hp) (hsub q l2 hq)
  · intro q l2 hq ha
    have hq' := hsub q l2 hq
    have hne : l2 ≠ l := by
      intro e; subst e
      simp [Etcd.revoke] at ha
    simp only [Etcd.revoke, hne, ↓reduceIte] at ha ⊢
    have hk := h.holdKey q l2 hq' ha
    have : ¬ s.key = some l := by rw [hk]; intro e; exact hne (Option.some.inj e)
    simp only [this, ↓reduceIte]; exact hk

theorem einv_step {s : Etcd} (h : EInv s) (ev : EEv) : EInv (s.step ev).1 := by
  cases ev with
  | register p ttl =>
    simp only [Etcd.step]
    cases hp : s.regs p with
    | holding l0 => simpa [hp] using h
    | idle | notified =>
      all_goals
        simp only []
        by_cases hk : s.key = none
        · simp only [hk, ↓reduceIte]
          refine { keyAlive := ?_, aliveLt := ?_, holdLt := ?_, holdInj := ?_, holdKey := ?_ }
          · intro l hl; simp only [Option.some.injEq] at hl; simp [hl]
          · intro l ha
            simp only at ha ⊢
            by_cases hl : l = s.next
            · omega
            · simp only [hl, ↓reduceIte] at ha; have := h.aliveLt l ha; omega
          · intro q l hq
            simp only at hq ⊢
            by_cases hqp : q = p
            · simp only [hqp, ↓reduceIte, Reg.holding.injEq] at hq; omega
            · simp only [hqp, ↓reduceIte] at hq; have := h.holdLt q l hq; omega
          · intro q1 q2 l h1 h2
            simp only at h1 h2
            by_cases e1 : q1 = p <;> by_cases e2 : q2 = p
            · rw [e1, e2]
            · simp only [e1, ↓reduceIte, Reg.holding.injEq] at h1
              simp only [e2, ↓reduceIte] at h2
              have := h.holdLt q2 l h2; omega
            · simp only [e2, ↓reduceIte, Reg.holding.injEq] at h2
              simp only [e1, ↓reduceIte] at h1
              have := h.holdLt q1 l h1; omega
            · simp only [e1, e2, ↓reduceIte] at h1 h2; exact h.holdInj q1 q2 l h1 h2
          · intro q l hq ha
            simp only at hq ha ⊢
            by_cases hqp : q = p
            · simp only [hqp, ↓reduceIte, Reg.holding.injEq] at hq; rw [hq]
            · simp only [hqp, ↓reduceIte] at hq
              have hlt := h.holdLt q l hq
              have hne : l ≠ s.next := by omega
              simp only [hne, ↓reduceIte] at ha
              have := h.holdKey q l hq ha
              rw [hk] at this; cases this
        · simp only [hk, ↓reduceIte]
          refine { keyAlive := ?_, aliveLt := ?_, holdLt := ?_, holdInj := h.holdInj, holdKey := ?_ }
          · intro l hl
            simp only at hl ⊢
            have := h.keyAlive l hl
            by_cases e : l = s.next <;> simp [e, this]
          · intro l ha
            simp only at ha ⊢
            by_cases hl : l = s.next
            · omega
            · simp only [hl, ↓reduceIte] at ha; have := h.aliveLt l ha; omega
          · intro q l hq
            have := h.holdLt q l hq
            simp only; omega
          · intro q l hq ha
            simp only at ha ⊢
            have hlt := h.holdLt q l hq
            have hne : l ≠ s.next := by omega
            simp only [hne, ↓reduceIte] at ha
            exact h.holdKey q l hq ha
  | heartbeat p =>
    simp only [Etcd.step]
    cases hp : s.regs p with
    | idle | notified => simpa [hp] using h
    | holding l =>
      simp only []
      by_cases ha : s.alive l = true
      · simpa [ha] using h
      · simp only [ha, Bool.false_eq_true, ↓reduceIte]
        have sub : ∀ q l2, (if q = p then Reg.notified else s.regs q) = .holding l2 → s.regs q = .holding l2 := by
          intro q l2 hq
          by_cases e : q = p
          · simp [e] at hq
          · simpa [e] using hq
        exact { keyAlive := h.keyAlive, aliveLt := h.aliveLt,
                holdLt := fun q l2 hq => h.holdLt q l2 (sub q l2 hq),
                holdInj := fun q1 q2 l2 h1 h2 => h.holdInj q1 q2 l2 (sub q1 l2 h1) (sub q2 l2 h2),
                holdKey := fun q l2 hq => h.holdKey q l2 (sub q l2 hq) }
  | deregister p =>
    simp only [Etcd.step]
    cases hp : s.regs p with
    | holding l =>
      simp only []
      apply einv_revoke h l
      intro q l2 hq
      by_cases e : q = p
      · simp [e] at hq
      · simpa [e] using hq
    | idle | notified =>
      all_goals
        simp only []
        have sub : ∀ q l2, (if q = p then Reg.idle else s.regs q) = .holding l2 → s.regs q = .holding l2 := by
          intro q l2 hq
          by_cases e : q = p
          · simp [e] at hq
          · simpa [e] using hq
        exact { keyAlive := h.keyAlive, aliveLt := h.aliveLt,
                holdLt := fun q l2 hq => h.holdLt q l2 (sub q l2 hq),
                holdInj := fun q1 q2 l2 h1 h2 => h.holdInj q1 q2 l2 (sub q1 l2 h1) (sub q2 l2 h2),
                holdKey := fun q l2 hq => h.holdKey q l2 (sub q l2 hq) }
  | expire l =>
    simp only [Etcd.step]
    by_cases ha : s.alive l = true
    · simp only [ha, ↓reduceIte]
      exact einv_revoke h l s.regs (fun q l2 hq => hq)
    · simpa [ha] using h

end Eru.Store.Ephemeral
