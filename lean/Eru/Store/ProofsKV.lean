import Eru.Store.Ref
/- Finite-map lemmas for the reference store. -/
namespace Eru.Store
namespace KV

theorem get_erase_ne (m : KV) {k k2 : Key} (hne : ¬ k2 = k) : get (erase m k2) k = get m k := by
  induction m with
  | nil => rfl
  | cons p m ih =>
    obtain ⟨k3, e3⟩ := p
    simp only [erase]
    by_cases h32 : k3 = k2
    · simp only [h32, ↓reduceIte, get, hne]; exact ih
    · simp only [h32, ↓reduceIte, get, ih]

theorem get_erase_same (m : KV) (k : Key) : get (erase m k) k = none := by
  induction m with
  | nil => rfl
  | cons p m ih =>
    obtain ⟨k3, e3⟩ := p
    simp only [erase]
    by_cases h : k3 = k
    · simp only [h, ↓reduceIte]; exact ih
    · simp only [h, ↓reduceIte, get]; exact ih

theorem get_put_same (m : KV) (k : Key) (e : Ent) : get (put m k e) k = some e := by
  simp [put, get]

theorem get_put_ne (m : KV) {k k2 : Key} (e : Ent) (hne : ¬ k2 = k) : get (put m k2 e) k = get m k := by
  simp only [put, get, hne, ↓reduceIte]; exact get_erase_ne m hne

theorem get_putAll_not_mem (m : KV) (data : List (Key × Val)) (k : Key) (h : k ∉ data.map (·.1)) :
    get (putAll m data) k = get m k := by
  induction data generalizing m with
  | nil => rfl
  | cons kv t ih =>
    obtain ⟨k2, v2⟩ := kv
    simp only [List.map_cons, List.mem_cons, not_or] at h
    simp only [putAll]
    rw [ih _ h.2]
    exact get_put_ne m _ (fun e => h.1 e.symm)

theorem has_putAll_of_mem (m : KV) (data : List (Key × Val)) (k : Key)
    (hk : k ∈ data.map (·.1)) : (m.putAll data).has k = true := by
  induction data generalizing m with
  | nil => simp at hk
  | cons kv t ih =>
    obtain ⟨k', v⟩ := kv
    simp only [putAll]
    by_cases hin : k ∈ t.map (·.1)
    · exact ih _ hin
    · have hk' : k = k' := by
        simp only [List.map_cons, List.mem_cons] at hk
        rcases hk with h | h
        · exact h
        · exact absurd h hin
      subst hk'
      simp only [has, get_putAll_not_mem _ _ _ hin, get_put_same, Option.isSome_some]

end KV
end Eru.Store
