import Eru.TxnSpec
/-
Named guards of utils.Txn / utils.PCR (utils/transaction.go) in the model's words, each with the lemma
showing that the table model `txn` / `pcr` behaves according to it (decided over the whole table).
Tied to the source text on every run by Eru/Generated/TxwFacts.lean.
-/
namespace Eru.Txn.Facts
open Eru.Txn

/-- `if condErr = cond(txnCtx); condErr == nil && then != nil { … then(…) }` -/
def runThen (condOk hasThen : Bool) : Bool := condOk && hasThen
theorem runThen_is_model : ∀ cond thn rb c sl,
    decide (countStep .thn (txn cond thn rb c sl).calls = 1) = runThen (cond == .ok) (thn != .absent) := by decide

/-- PCR's wrapper: `if !failureByCond { return rollback(ctx) }` -/
def pcrRunsRollback (failureByCond : Bool) : Bool := !failureByCond
theorem pcrRunsRollback_is_model : ∀ prep commit c sl,
    countStep .rollback (pcr prep commit (.present .ok) c sl).calls =
      (if anyFailed prep commit && pcrRunsRollback (prep == .fail) then 1 else 0) := by decide

end Eru.Txn.Facts
