/-
Model of /repo/wal/event.go: event keys and id parsing.

    func (e HydroEvent) Key() []byte { return []byte(filepath.Join("/events/", fmt.Sprintf("%016x", e.ID))) }
    func parseHydroEventID(key []byte) (uint64, error) {
        ID := strings.TrimLeft(strings.TrimPrefix(string(key), "/events/"), "0")
        return strconv.ParseUint(ID, 16, 64) }

Keys are ASCII, modelled as `List Char`; bbolt orders keys with `bytes.Compare`, modelled by `lexLt`
(lexicographic on code points = bytes for ASCII).  `ID` is a Go `uint64`, so `%016x` prints exactly
16 digits: `key` is only meaningful for `id < 2^64` (hypothesis of every theorem about it).
-/
namespace Eru.Wal

abbrev Key := List Char

def eventPrefix : Key := "/events/".toList

def hexDigit (d : Nat) : Char :=
  if d < 10 then Char.ofNat (48 + d) else Char.ofNat (87 + d)

/-- `w` big-endian base-16 digits of `n` (exact for `n < 16^w`) -/
def fixedHex : Nat → Nat → List Char
  | 0, _ => []
  | w + 1, n => hexDigit (n / 16 ^ w) :: fixedHex w (n % 16 ^ w)

/-- `HydroEvent.Key` -/
def key (id : Nat) : Key := eventPrefix ++ fixedHex 16 id

/-- `bytes.Compare a b < 0` -/
def lexLt : Key → Key → Bool
  | [], [] => false
  | [], _ :: _ => true
  | _ :: _, [] => false
  | a :: as, b :: bs =>
    if a.toNat < b.toNat then true else if b.toNat < a.toNat then false else lexLt as bs

def isPre : Key → Key → Bool
  | [], _ => true
  | _ :: _, [] => false
  | a :: p, b :: s => a == b && isPre p s

/-- `strings.TrimPrefix` -/
def trimPrefix (p s : Key) : Key := if isPre p s then s.drop p.length else s

/-- value of one hex digit as accepted by `strconv.ParseUint(_, 16, _)` -/
def hexVal (c : Char) : Option Nat :=
  let n := c.toNat
  if 48 ≤ n ∧ n ≤ 57 then some (n - 48)
  else if 97 ≤ n ∧ n ≤ 102 then some (n - 87)
  else if 65 ≤ n ∧ n ≤ 70 then some (n - 55)
  else none

def parseHexAcc (acc : Nat) : List Char → Option Nat
  | [] => some acc
  | c :: cs => match hexVal c with
    | none => none
    | some d => parseHexAcc (acc * 16 + d) cs

/-- `strconv.ParseUint(s, 16, 64)`: error on empty input, a non-hex character or a value ≥ 2^64 -/
def parseUint16 (s : List Char) : Option Nat :=
  match s with
  | [] => none
  | _ => match parseHexAcc 0 s with
    | some v => if v < 2 ^ 64 then some v else none
    | none => none

/-- `parseHydroEventID` -/
def parseId (k : Key) : Option Nat :=
  parseUint16 ((trimPrefix eventPrefix k).dropWhile (· == '0'))

end Eru.Wal
