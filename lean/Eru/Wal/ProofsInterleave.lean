import Eru.Wal.ProofsHistory
import Eru.Wal.Interleave
/- refinement and history facts for the interleaved (scan / handle-one) recovery -/
namespace Eru.Wal

structure RRel (s : RSt) (a : Abs × List Event) : Prop where
  rel : Rel s.st a.1
  sc : s.scanned = a.2
  bnd : ∀ e ∈ a.2, e.id < 2 ^ 64

def ropOk : ROp → Prop
  | .base b => opOk b
  | _ => True

def rbegins : List ROp → Nat
  | [] => 0
  | .base b :: r => begins [b] + rbegins r
  | _ :: r => rbegins r

def ropsOk : List ROp → Prop
  | [] => True
  | op :: ops => ropOk op ∧ ropsOk ops

theorem RRel.init : RRel {} ({}, []) := ⟨Rel.init, rfl, fun _ h => nomatch h⟩

theorem pendingOf_rel {st : St} {a : Abs} (h : Rel st a) (hn : a.next < 2 ^ 64) : pendingOf st = a.pending := by
  obtain ⟨seq, kv, infl⟩ := st
  have hkv := h.kv
  simp only at hkv
  subst hkv
  exact pendingOf_map _ _ _ (fun e he => ⟨(h.pend e he).1, Nat.lt_of_le_of_lt (h.pend e he).2 hn⟩)

theorem absCalls_single (reg : List String) (out : Event → HOut) (x : Event) :
    absCalls reg out [x] = if reg.contains x.typ then (handleOne (out x) x).1 else [] := by
  unfold absCalls
  cases h : reg.contains x.typ <;>
    simp only [List.filter, h, List.flatMap_cons, List.flatMap_nil, List.append_nil, if_true, Bool.false_eq_true, if_false]

theorem rstep_refines (op : ROp) (s : RSt) (a : Abs × List Event) (h : RRel s a) (hop : ropOk op)
    (hn : a.1.next + rbegins [op] < 2 ^ 64) :
    (rstep op s).1 = (rabsStep op a).1 ∧ RRel (rstep op s).2 (rabsStep op a).2 := by
  obtain ⟨st, sc⟩ := s
  obtain ⟨ab, asc⟩ := a
  obtain ⟨hrel, hsc, hb⟩ := h
  simp only at hrel hsc hb
  subst hsc
  cases op with
  | base b =>
    obtain ⟨h1, h2⟩ := step_refines b st ab hrel hop (by simpa [rbegins] using hn)
    simp only [rstep, rabsStep]
    refine ⟨h1, h2, rfl, ?_⟩
    intro e he
    simp only at he
    split at he
    · exact nomatch he
    · exact hb e he
  | scan lim =>
    have hnext : ab.next < 2 ^ 64 := by simpa [rbegins] using hn
    have hp := pendingOf_rel hrel hnext
    simp only [rstep, rabsStep, hp]
    refine ⟨by first | rfl | trivial, hrel, rfl, ?_⟩
    intro e he
    have hmem : e ∈ ab.pending := by
      cases lim with
      | none => exact he
      | some n => exact List.mem_of_mem_take he
    exact Nat.lt_of_le_of_lt (hrel.pend e hmem).2 hnext
  | handleNext reg out =>
    have hnext : ab.next < 2 ^ 64 := by simpa [rbegins] using hn
    cases sc with
    | nil => exact ⟨rfl, hrel, rfl, hb⟩
    | cons x rest =>
      have hx : x.id < 2 ^ 64 := hb x (by simp)
      have hrest : ∀ e ∈ rest, e.id < 2 ^ 64 := fun e he => hb e (by simp [he])
      have hB : Bounded ab.pending := hrel.bounded hnext
      obtain ⟨seq, kv, infl⟩ := st
      obtain ⟨hseq, hinfl, hkv, hsorted, hpend, hinflb⟩ := hrel
      simp only at hseq hinfl hkv hsorted hpend hinflb
      subst hkv
      simp only [rstep, rabsStep, absCalls_single]
      by_cases hreg : reg.contains x.typ = true
      · simp only [hreg, if_true]
        by_cases hdel : (handleOne (out x) x).2 = true
        · have hrem : removes reg out x = true := by
            simp only [removes, hreg, Bool.true_and]; rw [← handleOne_del]; exact hdel
          simp only [hdel, hrem, if_true, kvDel_map x.id ab.pending hx hB]
          exact ⟨by first | rfl | trivial, ⟨hseq, hinfl, rfl, List.Pairwise.filter _ hsorted,
            fun e he => hpend e (List.mem_filter.mp he).1, hinflb⟩, rfl, hrest⟩
        · have hdel' : (handleOne (out x) x).2 = false := by simpa using hdel
          have hrem : removes reg out x = false := by
            simp only [removes, hreg, Bool.true_and]; rw [← handleOne_del]; exact hdel'
          simp only [hdel', hrem, Bool.false_eq_true, if_false]
          exact ⟨by first | rfl | trivial, ⟨hseq, hinfl, rfl, hsorted, hpend, hinflb⟩, rfl, hrest⟩
      · have hreg' : reg.contains x.typ = false := by simpa using hreg
        have hrem : removes reg out x = false := by simp only [removes, hreg', Bool.false_and]
        simp only [hreg', hrem, Bool.false_eq_true, if_false]
        exact ⟨by first | rfl | trivial, ⟨hseq, hinfl, rfl, hsorted, hpend, hinflb⟩, rfl, hrest⟩

theorem rabsStep_next (op : ROp) (a : Abs × List Event) : (rabsStep op a).2.1.next = a.1.next + rbegins [op] := by
  cases op with
  | base b => simp only [rabsStep, rbegins]; rw [absStep_next]; simp
  | scan lim => rfl
  | handleNext reg out => simp only [rabsStep, rbegins]; split <;> rfl

theorem rbegins_cons (op : ROp) (ops : List ROp) : rbegins (op :: ops) = rbegins [op] + rbegins ops := by
  cases op <;> simp [rbegins]

theorem rrun_refines (ops : List ROp) (s : RSt) (a : Abs × List Event) (h : RRel s a) (hok : ropsOk ops)
    (hn : a.1.next + rbegins ops < 2 ^ 64) :
    (rrun ops s).1 = (rabsRun ops a).1 ∧ RRel (rrun ops s).2 (rabsRun ops a).2 := by
  induction ops generalizing s a with
  | nil => exact ⟨rfl, h⟩
  | cons op ops ih =>
    have hb := rbegins_cons op ops
    obtain ⟨h1, h2⟩ := rstep_refines op s a h hok.1 (by omega)
    have hnext := rabsStep_next op a
    obtain ⟨h3, h4⟩ := ih (rstep op s).2 (rabsStep op a).2 h2 hok.2 (by omega)
    simp only [rrun, rabsRun]
    exact ⟨by rw [h1, h3], h4⟩

/-! ### what an interleaved recovery calls -/

/-- the operations that may run between the scan of a recovery and the end of its handling: logging
and commits of other goroutines, and the recovery's own `handleNext` steps -/
def Inter (reg : List String) (out : Event → HOut) : ROp → Prop
  | .base (.begin _ _) => True
  | .base (.finish _) => True
  | .base .rejected => True
  | .base (.commit id) => id < 2 ^ 64
  | .handleNext reg' out' => reg' = reg ∧ out' = out
  | _ => False

def handles : List ROp → Nat
  | [] => 0
  | .handleNext _ _ :: r => handles r + 1
  | _ :: r => handles r

theorem absStep_obs_nocalls (b : Op) (a : Abs) (h : ∀ reg out, b ≠ .recover reg out) (r : List Obs) :
    allCalls ((absStep b a).1 :: r) = allCalls r := by
  cases b with
  | begin t i => rfl
  | finish n => simp only [absStep]; split <;> rfl
  | rejected => rfl
  | commit n => rfl
  | reopen => rfl
  | inject k v => rfl
  | recover reg out => exact absurd rfl (h reg out)

/-- whatever is interleaved, the recovery's handler calls are the handler chains of the events its
scan collected, in scan order, one chain per `handleNext` -/
theorem inter_calls (reg : List String) (out : Event → HOut) (ops : List ROp) (a : Abs × List Event)
    (hops : ∀ op ∈ ops, Inter reg out op) :
    allCalls (rabsRun ops a).1 = absCalls reg out (a.2.take (handles ops)) ∧
    (rabsRun ops a).2.2 = a.2.drop (handles ops) := by
  induction ops generalizing a with
  | nil => simp [rabsRun, allCalls, handles, absCalls]
  | cons op ops ih =>
    have hop := hops op (by simp)
    have hrest : ∀ o ∈ ops, Inter reg out o := fun o ho => hops o (by simp [ho])
    simp only [rabsRun]
    cases op with
    | scan lim => exact hop.elim
    | base b =>
      have hsc : (rabsStep (.base b) a).2.2 = a.2 := by
        cases b <;> first | exact hop.elim | (simp [rabsStep, clearsScan])
      have hnr : ∀ reg' out', b ≠ .recover reg' out' := by
        intro reg' out' hb; subst hb; exact hop.elim
      have hnc : allCalls ((rabsStep (.base b) a).1 :: (rabsRun ops (rabsStep (.base b) a).2).1) =
          allCalls (rabsRun ops (rabsStep (.base b) a).2).1 :=
        absStep_obs_nocalls b a.1 hnr _
      have := ih (rabsStep (.base b) a).2 hrest
      rw [hsc] at this
      simp only [handles]
      exact ⟨by rw [hnc]; exact this.1, this.2⟩
    | handleNext reg' out' =>
      obtain ⟨h1, h2⟩ := hop
      subst h1 h2
      obtain ⟨ab, sc⟩ := a
      cases sc with
      | nil =>
        have := ih (ab, []) hrest
        simp only [rabsStep, allCalls, handles, List.take_nil, List.drop_nil, List.nil_append] at this ⊢
        exact ⟨by rw [this.1]; first | done | simp [absCalls], by rw [this.2]; first | done | simp⟩
      | cons x rest =>
        have := ih ({ ab with pending := if removes reg' out' x then ab.pending.filter (fun e => e.id ≠ x.id) else ab.pending }, rest) hrest
        simp only [rabsStep, allCalls, handles, List.take_succ_cons, List.drop_succ_cons] at this ⊢
        refine ⟨?_, this.2⟩
        rw [this.1]
        simp [absCalls, List.filter_cons]
        split <;> simp

/-! ### what an interleaved recovery removes -/

def commitsId (id : Nat) : ROp → Bool
  | .base (.commit n) => n == id
  | _ => false

/-- `id` has been issued and is not held by an in-flight logger -/
def NotInfl (id : Nat) (a : Abs) : Prop := id ≤ a.next ∧ ∀ x ∈ a.inflight, x.id ≠ id

theorem mem_insertById_of_ne (x e : Event) (P : List Event) (he : e ∈ P) (hne : e.id ≠ x.id) : e ∈ insertById x P := by
  induction P with
  | nil => exact nomatch he
  | cons y r ih =>
    unfold insertById
    split
    · exact List.mem_cons_of_mem _ he
    · split
      · rename_i heq
        rcases List.mem_cons.mp he with h | h
        · subst h; exact absurd heq.symm hne
        · exact List.mem_cons_of_mem _ h
      · rcases List.mem_cons.mp he with h | h
        · subst h; exact List.mem_cons_self
        · exact List.mem_cons_of_mem _ (ih h)

/-- `inter_removed_iff`: from a state with scanned list `sc` (sorted by id, and any scanned event with
`e`'s id IS `e`), after any interleaving `ops`: `e` is still pending iff it was, no `Commit` of its id
ran in between, and — if the recovery got to it — its handler did not remove it. -/
theorem inter_removed_iff (reg : List String) (out : Event → HOut) (e : Event) (ops : List ROp) (a : Abs × List Event)
    (hops : ∀ op ∈ ops, Inter reg out op) (hs : Sorted a.2) (hu : ∀ x ∈ a.2, x.id = e.id → x = e)
    (hni : NotInfl e.id a.1) :
    e ∈ (rabsRun ops a).2.1.pending ↔
      e ∈ a.1.pending ∧ ops.all (fun o => !commitsId e.id o) = true ∧
      (e ∈ a.2.take (handles ops) → removes reg out e = false) := by
  induction ops generalizing a with
  | nil => simp [rabsRun, handles]
  | cons op ops ih =>
    have hop := hops op (by simp)
    have hrest : ∀ o ∈ ops, Inter reg out o := fun o ho => hops o (by simp [ho])
    obtain ⟨ab, sc⟩ := a
    simp only at hs hu hni
    simp only [rabsRun, List.all_cons, Bool.and_eq_true]
    cases op with
    | scan lim => exact hop.elim
    | base b =>
      cases b with
      | reopen => exact hop.elim
      | inject k v => exact hop.elim
      | recover r o => exact hop.elim
      | begin t i =>
        have hni' : NotInfl e.id (absStep (.begin t i) ab).2 := by
          refine ⟨Nat.le_succ_of_le hni.1, ?_⟩
          intro x hx
          simp only [absStep] at hx
          rcases List.mem_append.mp hx with hx | hx
          · exact hni.2 x hx
          · simp at hx; subst hx; have := hni.1; simp; omega
        have := ih ((absStep (.begin t i) ab).2, sc) hrest hs hu hni'
        have hc : commitsId e.id (.base (.begin t i)) = false := rfl
        simp only [rabsStep, clearsScan, Bool.false_eq_true, if_false, handles, hc, Bool.not_false, true_and]
        rw [this]; simp only [absStep]
      | rejected =>
        have := ih (ab, sc) hrest hs hu hni
        have hc : commitsId e.id (.base .rejected) = false := rfl
        simp only [rabsStep, absStep, clearsScan, Bool.false_eq_true, if_false, handles, hc, Bool.not_false, true_and]
        exact this
      | finish n =>
        have hni' : NotInfl e.id (absStep (.finish n) ab).2 := by
          refine ⟨by simp only [absStep]; split <;> exact hni.1, ?_⟩
          intro x hx
          simp only [absStep] at hx
          split at hx
          · exact hni.2 x hx
          · exact hni.2 x (List.mem_filter.mp hx).1
        have hmem : e ∈ (absStep (.finish n) ab).2.pending ↔ e ∈ ab.pending := by
          simp only [absStep]
          cases hf : ab.inflight.find? (fun e => e.id == n) with
          | none => rfl
          | some x =>
            obtain ⟨hxm, _⟩ := find_spec hf
            have hne : e.id ≠ x.id := fun h => hni.2 x hxm h.symm
            constructor
            · intro h
              rcases mem_insertById x e ab.pending h with h | h
              · subst h; exact absurd rfl hne
              · exact h
            · intro h; exact mem_insertById_of_ne x e ab.pending h hne
        have := ih ((absStep (.finish n) ab).2, sc) hrest hs hu hni'
        have hc : commitsId e.id (.base (.finish n)) = false := rfl
        simp only [rabsStep, clearsScan, Bool.false_eq_true, if_false, handles, hc, Bool.not_false, true_and]
        rw [this, hmem]
      | commit n =>
        have hni' : NotInfl e.id (absStep (.commit n) ab).2 := hni
        have := ih ((absStep (.commit n) ab).2, sc) hrest hs hu hni'
        have hc : commitsId e.id (.base (.commit n)) = (n == e.id) := rfl
        simp only [rabsStep, clearsScan, Bool.false_eq_true, if_false, handles, hc]
        rw [this]
        simp only [absStep, List.mem_filter, decide_eq_true_eq, Bool.not_eq_true', beq_eq_false_iff_ne, ne_eq]
        constructor
        · rintro ⟨⟨h1, h2⟩, h3, h4⟩; exact ⟨h1, ⟨fun h => h2 h.symm, h3⟩, h4⟩
        · rintro ⟨h1, ⟨h2, h3⟩, h4⟩; exact ⟨⟨h1, fun h => h2 h.symm⟩, h3, h4⟩
    | handleNext reg' out' =>
      obtain ⟨h1, h2⟩ := hop
      subst h1 h2
      cases sc with
      | nil =>
        have := ih (ab, []) hrest hs hu hni
        have hc : commitsId e.id (.handleNext reg' out') = false := rfl
        simp only [rabsStep, handles, hc, Bool.not_false, true_and, List.take_nil] at this ⊢
        rw [this]
      | cons x rest =>
        have hs' : Sorted rest := (List.pairwise_cons.mp hs).2
        have hu' : ∀ y ∈ rest, y.id = e.id → y = e := fun y hy => hu y (by simp [hy])
        have hni' : NotInfl e.id { ab with pending := if removes reg' out' x then ab.pending.filter (fun e => e.id ≠ x.id) else ab.pending } := hni
        have := ih ({ ab with pending := if removes reg' out' x then ab.pending.filter (fun e => e.id ≠ x.id) else ab.pending }, rest) hrest hs' hu' hni'
        have hc : commitsId e.id (.handleNext reg' out') = false := rfl
        simp only [rabsStep, handles, hc, Bool.not_false, true_and, List.take_succ_cons, List.mem_cons]
        rw [this]
        by_cases hxe : x = e
        · subst hxe
          have hnr : x ∉ rest.take (handles ops) := by
            intro h
            have := (List.pairwise_cons.mp hs).1 x (List.mem_of_mem_take h)
            omega
          by_cases hr : removes reg' out' x = true
          · simp [hr]
          · have hr' : removes reg' out' x = false := by simpa using hr
            simp [hr', hnr]
        · have hid : e.id ≠ x.id := fun h => hxe (hu x (by simp) h.symm)
          have hex : ¬ e = x := fun h => hxe h.symm
          by_cases hr : removes reg' out' x = true
          · simp [hr, List.mem_filter, hid, hex]
          · have hr' : removes reg' out' x = false := by simpa using hr
            simp [hr', hex]

end Eru.Wal
