import Eru.Wal.Event
/-
Model of /repo/wal/hydro.go on top of /repo/wal/kv/lithium.go (one bbolt bucket).

State that survives a restart: the bucket's sequence counter and its key/value pairs (sorted by
key, as bbolt stores them).  Volatile: `Log` calls that already obtained their id from
`NextSequence` but have not executed their `Put` yet (concurrent loggers; they die on a crash).

Each KV call of Lithium is one bbolt `Update` transaction and therefore atomic; `Hydro.Log` is
two of them (`NextSequence`, `Put`), which is why it is split into `begin`/`finish`.

Assumed about bbolt (exercised by the harness on a real file): `NextSequence` returns the stored
counter + 1 and persists it; `Put` inserts/replaces; `Delete` of a missing key is a no-op;
a cursor visits keys in `bytes.Compare` order; everything committed survives Close/Open.
Handlers are pure scripted outcomes: they do not call back into the WAL.
-/
namespace Eru.Wal

structure Event where
  id : Nat
  typ : String
  item : String
  deriving Repr, DecidableEq, Inhabited

/-- decoded JSON value of an entry: `some (type, item)`, or `none` when the bytes are not a JSON
encoding of a `HydroEvent` (foreign write) -/
abbrev Val := Option (String × String)

abbrev KV := List (Key × Val)

def kvPut (k : Key) (v : Val) : KV → KV
  | [] => [(k, v)]
  | (k', v') :: r =>
    if lexLt k k' then (k, v) :: (k', v') :: r
    else if k = k' then (k, v) :: r
    else (k', v') :: kvPut k v r

def kvDel (k : Key) (kv : KV) : KV := kv.filter (fun e => e.1 ≠ k)

/-- `Lithium.Scan(prefix)`: `c.Seek(prefix)` then entries while `bytes.HasPrefix(key, prefix)` -/
def kvScan (pre : Key) (kv : KV) : KV :=
  (kv.dropWhile (fun e => lexLt e.1 pre)).takeWhile (fun e => isPre pre e.1)

structure St where
  seq : Nat := 0
  kv : KV := []
  inflight : List Event := []
  deriving Repr, DecidableEq, Inhabited

/-- what the handler of an event does during recovery -/
inductive HOut where
  | ok            -- Decode ok, Check = (true, nil), Handle = nil
  | handleErr     -- Handle returned an error
  | notNeeded     -- Check = (false, nil)
  | checkErr      -- Check returned an error
  | decodeErr     -- Decode returned an error
  | okDelErr          -- handled successfully, but the KV `Delete` of the event failed: the event stays
  | notNeededDelErr   -- declared unnecessary, but the KV `Delete` failed: the event stays
  deriving Repr, DecidableEq, Inhabited

inductive CallKind where
  | decode | check | handle
  deriving Repr, DecidableEq, Inhabited

/-- one handler invocation (`id` is a ghost field: handlers only see the item) -/
structure HCall where
  kind : CallKind
  id : Nat
  typ : String
  item : String
  deriving Repr, DecidableEq, Inhabited

/-- `Hydro.decodeEvent`: JSON value + id parsed from the key; any error skips the entry -/
def decodeEntry (e : Key × Val) : Option Event :=
  match e.2 with
  | none => none
  | some (t, i) =>
    match parseId e.1 with
    | none => none
    | some id => some { id := id, typ := t, item := i }

/-- `Hydro.recover` for one event: handler calls made, and whether the event's key is deleted -/
def handleOne (o : HOut) (ev : Event) : List HCall × Bool :=
  let c (k : CallKind) : HCall := { kind := k, id := ev.id, typ := ev.typ, item := ev.item }
  match o with
  | .decodeErr => ([c .decode], false)
  | .checkErr => ([c .decode, c .check], false)
  | .notNeeded => ([c .decode, c .check], true)
  | .handleErr => ([c .decode, c .check, c .handle], false)
  | .ok => ([c .decode, c .check, c .handle], true)
  | .okDelErr => ([c .decode, c .check, c .handle], false)
  | .notNeededDelErr => ([c .decode, c .check], false)

/-- second loop of `Hydro.Recover` -/
def recoverLoop (reg : List String) (out : Event → HOut) : List Event → KV → List HCall × KV
  | [], kv => ([], kv)
  | ev :: rest, kv =>
    if reg.contains ev.typ then
      let (cs, del) := handleOne (out ev) ev
      let kv' := if del then kvDel (key ev.id) kv else kv
      let (cs', kv'') := recoverLoop reg out rest kv'
      (cs ++ cs', kv'')
    else recoverLoop reg out rest kv

/-- `Hydro.Recover`: scan, decode (skipping undecodable entries), then handle in scan order -/
def recover (reg : List String) (out : Event → HOut) (st : St) : List HCall × St :=
  let events := (kvScan eventPrefix st.kv).filterMap decodeEntry
  let (cs, kv') := recoverLoop reg out events st.kv
  (cs, { st with kv := kv' })

inductive Op where
  | begin (typ item : String)      -- `Log` of a registered type up to and including `NextSequence`
  | finish (id : Nat)              -- the `Put` of the in-flight `Log` holding `id`
  | rejected                       -- `Log` with an unregistered type or failing `Encode`: no KV call
  | commit (id : Nat)              -- a `Commit` closure: `Delete(key id)`
  | reopen                         -- Close + NewHydro on the same file, or crash + restart
  | inject (k : Key) (v : Val)     -- foreign write into the bucket (not part of the property's histories)
  | recover (reg : List String) (out : Event → HOut)

/-- observable result of an operation -/
inductive Obs where
  | none
  | id (n : Nat)
  | calls (cs : List HCall)
  deriving Repr, DecidableEq, Inhabited

def encEvent (e : Event) : Key × Val := (key e.id, some (e.typ, e.item))

def step (op : Op) (st : St) : Obs × St :=
  match op with
  | .begin t i =>
    let id := st.seq + 1
    (.id id, { st with seq := id, inflight := st.inflight ++ [{ id := id, typ := t, item := i }] })
  | .finish id =>
    match st.inflight.find? (fun e => e.id == id) with
    | none => (.none, st)
    | some e =>
      (.none, { st with inflight := st.inflight.filter (fun e => e.id != id),
                        kv := kvPut (key e.id) (some (e.typ, e.item)) st.kv })
  | .rejected => (.none, st)
  | .commit id => (.none, { st with kv := kvDel (key id) st.kv })
  | .reopen => (.none, { st with inflight := [] })
  | .inject k v => (.none, { st with kv := kvPut k v st.kv })
  | .recover reg out =>
    let (cs, st') := recover reg out st
    (.calls cs, st')

def run : List Op → St → List Obs × St
  | [], st => ([], st)
  | op :: ops, st =>
    let (o, st') := step op st
    let (os, st'') := run ops st'
    (o :: os, st'')

end Eru.Wal
