import Eru.Wal.Spec
/-
`Hydro.Recover` is not one transaction.  The Go code

    ch, _ := h.store.Scan(prefix)            // ONE bbolt transaction: collects all entries
    for entry := range ch { decode, append } // (an entry carrying a scan error is skipped)
    for _, event := range events {           // LATER transactions, one Delete per removed event
        handler ... ; h.store.Delete(event.Key()) }

lets `Log` / `Commit` calls of other goroutines run between the scan and the handling of an event.
This file refines the atomic `Op.recover` into `scan` followed by one `handleNext` per scanned event,
interleavable with the base operations.
-/
namespace Eru.Wal

/-- WAL state plus the recovery in progress: events collected by its scan and not yet handled -/
structure RSt where
  st : St := {}
  scanned : List Event := []
  deriving Repr, DecidableEq, Inhabited

inductive ROp where
  | base (op : Op)                 -- an operation of the atomic model (other goroutines; also restarts)
  | scan (limit : Option Nat)      -- first loop of `Recover`; `some n`: the scan fails after `n` entries
                                   -- (Lithium sends an error entry, `decodeEvent` skips it, the channel closes)
  | handleNext (reg : List String) (out : Event → HOut)   -- one iteration of the second loop

def clearsScan : Op → Bool
  | .reopen => true
  | _ => false

/-- does the handler chain with outcome `o` delete the event? -/
def deletes (o : HOut) : Bool := (handleOne o default).2

def rstep (op : ROp) (s : RSt) : Obs × RSt :=
  match op with
  | .base b =>
    let (o, st') := step b s.st
    (o, { st := st', scanned := if clearsScan b then [] else s.scanned })
  | .scan lim =>
    let evs := pendingOf s.st
    (.none, { s with scanned := match lim with | none => evs | some n => evs.take n })
  | .handleNext reg out =>
    match s.scanned with
    | [] => (.calls [], s)
    | ev :: rest =>
      if reg.contains ev.typ then
        let (cs, del) := handleOne (out ev) ev
        (.calls cs, { st := { s.st with kv := if del then kvDel (key ev.id) s.st.kv else s.st.kv }, scanned := rest })
      else (.calls [], { s with scanned := rest })

def rrun : List ROp → RSt → List Obs × RSt
  | [], s => ([], s)
  | op :: ops, s =>
    let (o, s') := rstep op s
    let (os, s'') := rrun ops s'
    (o :: os, s'')

/-- abstract counterpart: the event with the scanned id is removed iff its handler says so -/
def rabsStep (op : ROp) (a : Abs × List Event) : Obs × (Abs × List Event) :=
  match op with
  | .base b =>
    let (o, a') := absStep b a.1
    (o, (a', if clearsScan b then [] else a.2))
  | .scan lim => (.none, (a.1, match lim with | none => a.1.pending | some n => a.1.pending.take n))
  | .handleNext reg out =>
    match a.2 with
    | [] => (.calls [], a)
    | x :: rest =>
      (.calls (absCalls reg out [x]),
       ({ a.1 with pending := if removes reg out x then a.1.pending.filter (fun e => e.id ≠ x.id) else a.1.pending }, rest))

def rabsRun : List ROp → Abs × List Event → List Obs × (Abs × List Event)
  | [], a => ([], a)
  | op :: ops, a =>
    let (o, a') := rabsStep op a
    let (os, a'') := rabsRun ops a'
    (o :: os, a'')

/-- all handler calls of a run, in order -/
def allCalls : List Obs → List HCall
  | [] => []
  | .calls cs :: r => cs ++ allCalls r
  | _ :: r => allCalls r

/-- an `Atomic`-free recovery: scan, then handle everything with nothing in between — what calcium does
at start-up before it serves requests -/
def recoverSeq (reg : List String) (out : Event → HOut) (n : Nat) : List ROp :=
  .scan none :: List.replicate n (.handleNext reg out)

end Eru.Wal
