import Eru.Wal.ProofsEvent
import Eru.Wal.Spec
/- refinement of the concrete WAL model (bbolt bucket with byte-ordered keys) to the abstract log -/
namespace Eru.Wal

def Sorted (l : List Event) : Prop := l.Pairwise (fun a b => a.id < b.id)

def Bounded (l : List Event) : Prop := ∀ e ∈ l, e.id < 2 ^ 64

/-! ### bucket operations on encoded events -/

theorem kvPut_map (e : Event) (P : List Event) (he : e.id < 2 ^ 64) (hP : Bounded P) :
    kvPut (key e.id) (some (e.typ, e.item)) (P.map encEvent) = (insertById e P).map encEvent := by
  induction P with
  | nil => simp [kvPut, insertById, encEvent]
  | cons x r ih =>
    have hx : x.id < 2 ^ 64 := hP x (by simp)
    have hr : Bounded r := fun y hy => hP y (by simp [hy])
    simp only [List.map_cons, encEvent, kvPut, insertById, lexLt_key _ _ he hx]
    by_cases h1 : e.id < x.id
    · simp [h1, encEvent]
    · by_cases h2 : e.id = x.id
      · rw [if_neg (by simpa using h1), if_pos (by rw [h2]), if_neg h1, if_pos h2]; simp [encEvent]
      · have hk : key e.id ≠ key x.id := fun h => h2 (key_inj _ _ he hx h)
        have := ih hr
        simp [h1, h2, hk, this, encEvent]

theorem kvDel_map (id : Nat) (P : List Event) (hid : id < 2 ^ 64) (hP : Bounded P) :
    kvDel (key id) (P.map encEvent) = (P.filter (fun e => e.id ≠ id)).map encEvent := by
  induction P with
  | nil => simp [kvDel]
  | cons x r ih =>
    have hx : x.id < 2 ^ 64 := hP x (by simp)
    have hr : Bounded r := fun y hy => hP y (by simp [hy])
    have := ih hr
    unfold kvDel at this ⊢
    by_cases h : x.id = id
    · simp [List.filter_cons, encEvent, h, this]
      simpa [encEvent] using this
    · have hk : key x.id ≠ key id := fun hh => h (key_inj _ _ hx hid hh)
      simp [List.filter_cons, encEvent, h, hk]
      simpa [encEvent] using this

theorem kvScan_map (P : List Event) : kvScan eventPrefix (P.map encEvent) = P.map encEvent := by
  unfold kvScan
  have h1 : (P.map encEvent).dropWhile (fun e => lexLt e.1 eventPrefix) = P.map encEvent := by
    cases P with
    | nil => rfl
    | cons x r => simp [List.dropWhile_cons, encEvent, lexLt_key_prefix]
  rw [h1]
  induction P with
  | nil => rfl
  | cons x r ih =>
    simp only [List.map_cons, List.takeWhile_cons, encEvent, isPre_key, if_true]
    congr 1
    apply ih
    cases r with
    | nil => rfl
    | cons y r' => simp [List.dropWhile_cons, encEvent, lexLt_key_prefix]

theorem decode_map (P : List Event) (hP : ∀ e ∈ P, 1 ≤ e.id ∧ e.id < 2 ^ 64) :
    (P.map encEvent).filterMap decodeEntry = P := by
  induction P with
  | nil => rfl
  | cons x r ih =>
    have hx := hP x (by simp)
    have := ih (fun y hy => hP y (by simp [hy]))
    simp [List.filterMap_cons, decodeEntry, encEvent, parseId_key _ hx.1 hx.2]
    simpa [encEvent] using this

/-- what the store reads back as pending is the abstract pending list -/
theorem pendingOf_map (seq : Nat) (infl : List Event) (P : List Event) (hP : ∀ e ∈ P, 1 ≤ e.id ∧ e.id < 2 ^ 64) :
    pendingOf { seq := seq, kv := P.map encEvent, inflight := infl } = P := by
  simp only [pendingOf, kvScan_map, decode_map P hP]

/-! ### ordered insertion -/

theorem mem_insertById (e x : Event) (P : List Event) : x ∈ insertById e P → x = e ∨ x ∈ P := by
  induction P with
  | nil => simp [insertById]
  | cons y r ih =>
    unfold insertById
    split
    · simp
    · split
      · simp; intro h; rcases h with h | h; exact Or.inl h; exact Or.inr (Or.inr h)
      · simp; intro h; rcases h with h | h; exact Or.inr (Or.inl h)
        rcases ih h with h | h; exact Or.inl h; exact Or.inr (Or.inr h)

theorem sorted_insertById (e : Event) (P : List Event) (h : Sorted P) : Sorted (insertById e P) := by
  induction P with
  | nil => simp [insertById, Sorted]
  | cons y r ih =>
    unfold Sorted at h ih ⊢
    rw [List.pairwise_cons] at h
    unfold insertById
    split
    · rename_i hlt
      rw [List.pairwise_cons]
      refine ⟨?_, List.pairwise_cons.mpr h⟩
      intro z hz
      rcases List.mem_cons.mp hz with hz | hz
      · rw [hz]; exact hlt
      · exact Nat.lt_trans hlt (h.1 z hz)
    · split
      · rename_i heq
        rw [List.pairwise_cons]
        exact ⟨fun z hz => heq ▸ h.1 z hz, h.2⟩
      · rename_i hnlt hne
        rw [List.pairwise_cons]
        refine ⟨?_, ih h.2⟩
        intro z hz
        rcases mem_insertById e z r hz with hz | hz
        · rw [hz]; omega
        · exact h.1 z hz

/-! ### recovery -/

theorem handleOne_del (o : HOut) (e : Event) : (handleOne o e).2 = (o == .ok || o == .notNeeded) := by
  cases o <;> rfl

/-- the handling loop on a store holding `Q`, for any list of events with bounded ids -/
theorem recoverLoop_map (reg : List String) (out : Event → HOut) (evs Q : List Event)
    (hevs : Bounded evs) (hQ : Bounded Q) :
    recoverLoop reg out evs (Q.map encEvent) =
      (absCalls reg out evs,
       (Q.filter (fun e => !(evs.any (fun x => x.id == e.id && removes reg out x)))).map encEvent) := by
  induction evs generalizing Q with
  | nil =>
    have : Q.filter (fun _ => true) = Q := List.filter_eq_self.mpr (by simp)
    simp [recoverLoop, absCalls, this]
  | cons ev rest ih =>
    have hev : ev.id < 2 ^ 64 := hevs ev (by simp)
    have hrest : Bounded rest := fun y hy => hevs y (by simp [hy])
    unfold recoverLoop
    by_cases hreg : reg.contains ev.typ = true
    · have hmem : ev.typ ∈ reg := by simpa using hreg
      simp only [hreg, if_true]
      by_cases hdel : (handleOne (out ev) ev).2 = true
      · have hrem : removes reg out ev = true := by
          simp only [removes, hreg, Bool.true_and]; rw [← handleOne_del]; exact hdel
        have hQ' : Bounded (Q.filter (fun e => e.id ≠ ev.id)) := fun y hy => hQ y (List.mem_filter.mp hy).1
        have := ih (Q.filter (fun e => e.id ≠ ev.id)) hrest hQ'
        simp only [hdel, if_true, kvDel_map _ _ hev hQ, this]
        refine Prod.ext ?_ ?_
        · simp [absCalls, List.filter_cons, hmem]
        · simp only [List.filter_filter, List.any_cons]
          congr 1
          apply List.filter_congr
          intro x _
          by_cases hx : x.id = ev.id
          · simp [hx, hrem]
          · have : (ev.id == x.id) = false := by simp; omega
            simp [hx, this]
      · have hdel' : (handleOne (out ev) ev).2 = false := by simpa using hdel
        have hrem : removes reg out ev = false := by
          simp only [removes, hreg, Bool.true_and]; rw [← handleOne_del]; exact hdel'
        have := ih Q hrest hQ
        simp only [hdel', Bool.false_eq_true, if_false, this]
        refine Prod.ext ?_ ?_
        · simp [absCalls, List.filter_cons, hmem]
        · simp [List.any_cons, hrem]
    · have hreg' : reg.contains ev.typ = false := by simpa using hreg
      have hmem : ev.typ ∉ reg := by simpa using hreg'
      have hrem : removes reg out ev = false := by simp [removes, hmem]
      have := ih Q hrest hQ
      simp only [hreg', this]
      refine Prod.ext ?_ ?_
      · simp [absCalls, List.filter_cons, hmem]
      · simp [List.any_cons, hrem]

theorem sorted_id_inj (P : List Event) (hs : Sorted P) (a b : Event) (ha : a ∈ P) (hb : b ∈ P)
    (h : a.id = b.id) : a = b := by
  induction P with
  | nil => simp at ha
  | cons y r ih =>
    unfold Sorted at hs ih
    rw [List.pairwise_cons] at hs
    rcases List.mem_cons.mp ha with ha | ha <;> rcases List.mem_cons.mp hb with hb | hb
    · rw [ha, hb]
    · have := hs.1 b hb; rw [← ha] at this; omega
    · have := hs.1 a ha; rw [← hb] at this; omega
    · exact ih hs.2 ha hb

theorem filter_any_self (reg : List String) (out : Event → HOut) (P : List Event) (hs : Sorted P) :
    P.filter (fun e => !(P.any (fun x => x.id == e.id && removes reg out x))) =
    P.filter (fun e => !removes reg out e) := by
  apply List.filter_congr
  intro e he
  congr 1
  apply Bool.eq_iff_iff.mpr
  simp only [List.any_eq_true, Bool.and_eq_true, beq_iff_eq]
  constructor
  · rintro ⟨x, hx, hid, hr⟩
    rw [← sorted_id_inj P hs x e hx he hid]; exact hr
  · intro hr; exact ⟨e, he, rfl, hr⟩

end Eru.Wal
