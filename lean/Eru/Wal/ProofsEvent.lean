import Eru.Wal.Event
import Mathlib.Tactic.Ring
import Mathlib.Tactic.Linarith
/- lemmas about event keys: parsing inverts formatting, byte order = numeric order -/
namespace Eru.Wal

theorem hexVal_hexDigit : ∀ d < 16, hexVal (hexDigit d) = some d := by decide

theorem hexDigit_ne_zero : ∀ d < 16, d ≠ 0 → (hexDigit d == '0') = false := by decide

theorem hexDigit_zero : hexDigit 0 = '0' := by decide

theorem hexDigit_lt : ∀ x < 16, ∀ y < 16, ((hexDigit x).toNat < (hexDigit y).toNat ↔ x < y) := by decide

theorem pow16_pos (w : Nat) : 0 < 16 ^ w := Nat.pow_pos (by decide)

theorem digit_lt {w n : Nat} (h : n < 16 ^ (w + 1)) : n / 16 ^ w < 16 := by
  apply Nat.div_lt_of_lt_mul
  rw [Nat.pow_succ] at h
  exact h

theorem parseHexAcc_fixed (w acc n : Nat) (h : n < 16 ^ w) :
    parseHexAcc acc (fixedHex w n) = some (acc * 16 ^ w + n) := by
  induction w generalizing acc n with
  | zero => simp at h; simp [fixedHex, parseHexAcc, h]
  | succ w ih =>
    have hd := digit_lt h
    have hm : n % 16 ^ w < 16 ^ w := Nat.mod_lt _ (pow16_pos w)
    simp only [fixedHex, parseHexAcc, hexVal_hexDigit _ hd, ih _ _ hm]
    congr 1
    have := Nat.div_add_mod n (16 ^ w)
    rw [Nat.pow_succ]
    nlinarith

/-- dropping the padding zeros of a non-zero id leaves a non-empty digit string with the same value -/
theorem parse_dropZeros (w n : Nat) (h : n < 16 ^ w) (h1 : 1 ≤ n) :
    (fixedHex w n).dropWhile (· == '0') ≠ [] ∧
    parseHexAcc 0 ((fixedHex w n).dropWhile (· == '0')) = some n := by
  induction w generalizing n with
  | zero => simp at h; omega
  | succ w ih =>
    have hd := digit_lt h
    have hm : n % 16 ^ w < 16 ^ w := Nat.mod_lt _ (pow16_pos w)
    by_cases hq : n / 16 ^ w = 0
    · have hn : n % 16 ^ w = n := by
        have := Nat.div_add_mod n (16 ^ w); rw [hq] at this; simpa using this
      simp only [fixedHex, hq, hexDigit_zero, List.dropWhile_cons, beq_self_eq_true, if_true, hn]
      exact ih n (by omega) h1
    · have hne := hexDigit_ne_zero _ hd hq
      have hfull := parseHexAcc_fixed (w + 1) 0 n h
      simp only [fixedHex] at hfull
      simp only [fixedHex, List.dropWhile_cons, hne]
      exact ⟨by simp, by simpa using hfull⟩

theorem isPre_append (p s : Key) : isPre p (p ++ s) = true := by
  induction p with
  | nil => simp [isPre]
  | cons a p ih => simp [isPre, ih]

theorem trimPrefix_append (p s : Key) : trimPrefix p (p ++ s) = s := by
  simp [trimPrefix, isPre_append]

/-- `parse_key`: parsing a formatted key gives the id back (ids start at 1: bbolt's first sequence) -/
theorem parseId_key (id : Nat) (h1 : 1 ≤ id) (h : id < 2 ^ 64) : parseId (key id) = some id := by
  have h16 : id < 16 ^ 16 := by simpa using h
  obtain ⟨hne, hp⟩ := parse_dropZeros 16 id h16 h1
  unfold parseId key
  rw [trimPrefix_append]
  unfold parseUint16
  split
  · rename_i heq; exact absurd heq hne
  · simp only [hp]; have : id < 18446744073709551616 := by simpa using h
    simp [this]

/-- the id 0 (never produced by bbolt) would not parse: the digit string is empty after trimming -/
theorem parseId_key_zero : parseId (key 0) = none := by decide

theorem lexLt_irrefl (k : Key) : lexLt k k = false := by
  induction k with
  | nil => rfl
  | cons a k ih => simp [lexLt, ih]

theorem lexLt_append (p a b : Key) : lexLt (p ++ a) (p ++ b) = lexLt a b := by
  induction p with
  | nil => rfl
  | cons c p ih => simp [lexLt, ih]

theorem lt_iff_divmod (p a b : Nat) (hp : 0 < p) :
    a < b ↔ a / p < b / p ∨ (a / p = b / p ∧ a % p < b % p) := by
  have ha := Nat.div_add_mod a p
  have hb := Nat.div_add_mod b p
  have hra := Nat.mod_lt a hp
  have hrb := Nat.mod_lt b hp
  constructor
  · intro h
    rcases Nat.lt_trichotomy (a / p) (b / p) with hlt | heq | hgt
    · exact Or.inl hlt
    · right; refine ⟨heq, ?_⟩; rw [heq] at ha; omega
    · exfalso; have : p * (b / p + 1) ≤ p * (a / p) := Nat.mul_le_mul_left p hgt
      rw [Nat.mul_add, Nat.mul_one] at this; omega
  · rintro (hlt | ⟨heq, hr⟩)
    · exact Nat.lt_of_div_lt_div hlt
    · rw [heq] at ha; omega

theorem lexLt_fixedHex (w a b : Nat) (ha : a < 16 ^ w) (hb : b < 16 ^ w) :
    lexLt (fixedHex w a) (fixedHex w b) = decide (a < b) := by
  induction w generalizing a b with
  | zero => simp at ha hb; simp [fixedHex, lexLt, ha, hb]
  | succ w ih =>
    have hda := digit_lt ha
    have hdb := digit_lt hb
    have hma : a % 16 ^ w < 16 ^ w := Nat.mod_lt _ (pow16_pos w)
    have hmb : b % 16 ^ w < 16 ^ w := Nat.mod_lt _ (pow16_pos w)
    have hlt := hexDigit_lt _ hda _ hdb
    have hgt := hexDigit_lt _ hdb _ hda
    have hdm := lt_iff_divmod (16 ^ w) a b (pow16_pos w)
    simp only [fixedHex, lexLt]
    by_cases h1 : a / 16 ^ w < b / 16 ^ w
    · simp [hlt.mpr h1, hdm.mpr (Or.inl h1)]
    · by_cases h2 : b / 16 ^ w < a / 16 ^ w
      · have : ¬ a < b := by
          intro h; rcases hdm.mp h with h | ⟨h, _⟩ <;> omega
        simp [mt hlt.mp h1, hgt.mpr h2, this]
      · have heq : a / 16 ^ w = b / 16 ^ w := by omega
        simp only [mt hlt.mp h1, mt hgt.mp h2, if_false, ih _ _ hma hmb]
        congr 1
        apply propext
        rw [hdm]
        constructor
        · intro h; exact Or.inr ⟨heq, h⟩
        · rintro (h | ⟨_, h⟩); omega; exact h

/-- `key_order`: bbolt's byte order on keys is the numeric order on ids, i.e. logging order -/
theorem lexLt_key (a b : Nat) (ha : a < 2 ^ 64) (hb : b < 2 ^ 64) : lexLt (key a) (key b) = decide (a < b) := by
  unfold key
  rw [lexLt_append]
  exact lexLt_fixedHex 16 a b (by simpa using ha) (by simpa using hb)

theorem key_inj (a b : Nat) (ha : a < 2 ^ 64) (hb : b < 2 ^ 64) (h : key a = key b) : a = b := by
  have h1 := lexLt_key a b ha hb
  have h2 := lexLt_key b a hb ha
  rw [h, lexLt_irrefl] at h1
  rw [← h, lexLt_irrefl] at h2
  have := of_decide_eq_false h1.symm
  have := of_decide_eq_false h2.symm
  omega

theorem isPre_key (id : Nat) : isPre eventPrefix (key id) = true := isPre_append _ _

theorem lexLt_key_prefix (id : Nat) : lexLt (key id) eventPrefix = false := by
  unfold key
  have : ∀ (p s : Key), lexLt (p ++ s) p = false := by
    intro p s
    induction p with
    | nil => cases s <;> rfl
    | cons c p ih => simp [lexLt, ih]
  exact this _ _

end Eru.Wal
