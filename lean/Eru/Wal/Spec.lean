import Eru.Wal.Hydro
/-
Specification side of C16: the abstract write-ahead log ("the set of logged and uncommitted
events") and the decidable checks the oracle evaluates on the implementation's trace.
-/
namespace Eru.Wal

/-- abstract state: last id handed out, in-flight loggers, pending events ordered by id -/
structure Abs where
  next : Nat := 0
  inflight : List Event := []
  pending : List Event := []
  deriving Repr, DecidableEq, Inhabited

def insertById (e : Event) : List Event → List Event
  | [] => [e]
  | x :: r =>
    if e.id < x.id then e :: x :: r
    else if e.id = x.id then e :: r
    else x :: insertById e r

/-- the event is removed by a recovery: its type has a handler and the handler succeeded or
declared the event unnecessary -/
def removes (reg : List String) (out : Event → HOut) (e : Event) : Bool :=
  reg.contains e.typ && (out e == .ok || out e == .notNeeded)

/-- handler calls of a recovery: pending events with a registered type, in id order -/
def absCalls (reg : List String) (out : Event → HOut) (pending : List Event) : List HCall :=
  (pending.filter (fun e => reg.contains e.typ)).flatMap (fun e => (handleOne (out e) e).1)

def absStep (op : Op) (a : Abs) : Obs × Abs :=
  match op with
  | .begin t i =>
    (.id (a.next + 1), { a with next := a.next + 1, inflight := a.inflight ++ [{ id := a.next + 1, typ := t, item := i }] })
  | .finish id =>
    match a.inflight.find? (fun e => e.id == id) with
    | none => (.none, a)
    | some e => (.none, { a with inflight := a.inflight.filter (fun e => e.id != id), pending := insertById e a.pending })
  | .rejected => (.none, a)
  | .commit id => (.none, { a with pending := a.pending.filter (fun e => e.id ≠ id) })
  | .reopen => (.none, { a with inflight := [] })
  | .inject _ _ => (.none, a)        -- foreign writes are outside the abstract log
  | .recover reg out =>
    (.calls (absCalls reg out a.pending), { a with pending := a.pending.filter (fun e => !removes reg out e) })

def absRun : List Op → Abs → List Obs × Abs
  | [], a => ([], a)
  | op :: ops, a =>
    let (o, a') := absStep op a
    let (os, a'') := absRun ops a'
    (o :: os, a'')

/-- ids handed out by a run, in order -/
def issued : List Obs → List Nat
  | [] => []
  | .id n :: r => n :: issued r
  | _ :: r => issued r

/-- strictly increasing -/
def increasing : List Nat → Bool
  | [] => true
  | [_] => true
  | a :: b :: r => decide (a < b) && increasing (b :: r)

/-- history without foreign writes (the histories the property quantifies over) -/
def noInject : List Op → Bool
  | [] => true
  | .inject _ _ :: _ => false
  | _ :: r => noInject r

/-- number of `begin`s -/
def begins : List Op → Nat
  | [] => 0
  | .begin _ _ :: r => begins r + 1
  | _ :: r => begins r

/-- pending events as read back from the store of the concrete model -/
def pendingOf (st : St) : List Event := (kvScan eventPrefix st.kv).filterMap decodeEntry

end Eru.Wal
