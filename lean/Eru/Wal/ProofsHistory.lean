import Eru.Wal.ProofsRefine
/- history-level facts about the abstract log: reachable-state invariant, characterisation of
   "pending" by the history, committed/removed events never come back -/
namespace Eru.Wal

/-- invariant of every abstract state reachable from the empty log -/
structure AInv (a : Abs) : Prop where
  sortedP : Sorted a.pending
  sortedI : Sorted a.inflight
  pend : ∀ e ∈ a.pending, e.id ≤ a.next
  infl : ∀ e ∈ a.inflight, e.id ≤ a.next
  disj : ∀ e ∈ a.inflight, ∀ p ∈ a.pending, e.id ≠ p.id

theorem AInv.init : AInv {} :=
  ⟨List.Pairwise.nil, List.Pairwise.nil, (fun _ h => nomatch h), (fun _ h => nomatch h), (fun _ h => nomatch h)⟩

theorem find_spec {id : Nat} {l : List Event} {x : Event} (h : l.find? (fun e => e.id == id) = some x) :
    x ∈ l ∧ x.id = id := by
  refine ⟨List.mem_of_find?_eq_some h, ?_⟩
  have := List.find?_some h
  simpa using this

theorem AInv.step (op : Op) (a : Abs) (h : AInv a) : AInv (absStep op a).2 := by
  obtain ⟨hsp, hsi, hp, hi, hd⟩ := h
  cases op with
  | begin t i =>
    simp only [absStep]
    refine ⟨hsp, ?_, fun e he => Nat.le_succ_of_le (hp e he), ?_, ?_⟩
    · unfold Sorted
      rw [List.pairwise_append]
      refine ⟨hsi, List.pairwise_singleton _ _, ?_⟩
      intro x hx y hy
      simp at hy; subst hy
      have := hi x hx; simp; omega
    · intro e he
      rcases List.mem_append.mp he with he | he
      · exact Nat.le_succ_of_le (hi e he)
      · simp at he; subst he; exact Nat.le_refl _
    · intro e he p hpp
      rcases List.mem_append.mp he with he | he
      · exact hd e he p hpp
      · simp at he; subst he; have := hp p hpp; simp; omega
  | finish n =>
    simp only [absStep]
    cases hf : a.inflight.find? (fun e => e.id == n) with
    | none => exact ⟨hsp, hsi, hp, hi, hd⟩
    | some x =>
      obtain ⟨hxm, hxid⟩ := find_spec hf
      refine ⟨sorted_insertById x a.pending hsp, List.Pairwise.filter _ hsi, ?_,
        fun e he => hi e (List.mem_filter.mp he).1, ?_⟩
      · intro e he
        rcases mem_insertById x e a.pending he with he | he
        · subst he; exact hi _ hxm
        · exact hp e he
      · intro e he p hpp
        have hem := List.mem_filter.mp he
        rcases mem_insertById x p a.pending hpp with hpx | hpx
        · subst hpx; have : e.id ≠ n := by simpa using hem.2
          omega
        · exact hd e hem.1 p hpx
  | rejected => exact ⟨hsp, hsi, hp, hi, hd⟩
  | commit n =>
    exact ⟨List.Pairwise.filter _ hsp, hsi, fun e he => hp e (List.mem_filter.mp he).1, hi,
      fun e he p hpp => hd e he p (List.mem_filter.mp hpp).1⟩
  | reopen => exact ⟨hsp, List.Pairwise.nil, hp, (fun _ h => nomatch h), (fun _ h => nomatch h)⟩
  | inject k v => exact ⟨hsp, hsi, hp, hi, hd⟩
  | recover reg out =>
    exact ⟨List.Pairwise.filter _ hsp, hsi, fun e he => hp e (List.mem_filter.mp he).1, hi,
      fun e he p hpp => hd e he p (List.mem_filter.mp hpp).1⟩

theorem AInv.run (ops : List Op) (a : Abs) (h : AInv a) : AInv (absRun ops a).2 := by
  induction ops generalizing a with
  | nil => exact h
  | cons op ops ih => simp only [absRun]; exact ih _ (h.step op a)

/-- every state reachable from the empty log satisfies the invariant -/
theorem AInv.reachable (ops : List Op) : AInv (absRun ops {}).2 := AInv.init.run ops {}

theorem absRun_append (ops1 ops2 : List Op) (a : Abs) :
    (absRun (ops1 ++ ops2) a).2 = (absRun ops2 (absRun ops1 a).2).2 := by
  induction ops1 generalizing a with
  | nil => rfl
  | cons op ops ih => simp only [List.cons_append, absRun]; exact ih _

theorem run_append (ops1 ops2 : List Op) (st : St) :
    (run (ops1 ++ ops2) st).2 = (run ops2 (run ops1 st).2).2 := by
  induction ops1 generalizing st with
  | nil => rfl
  | cons op ops ih => simp only [List.cons_append, run]; exact ih _

/-! ### which operations keep a pending event -/

/-- `op` does not take the stored event `e` out of the log -/
def keeps (e : Event) : Op → Bool
  | .commit id => id != e.id
  | .recover reg out => !removes reg out e
  | _ => true

theorem mem_insertById_iff (x e : Event) (P : List Event) (hx : ∀ p ∈ P, p.id ≠ x.id) :
    e ∈ insertById x P ↔ e = x ∨ e ∈ P := by
  constructor
  · exact mem_insertById x e P
  · induction P with
    | nil => simp [insertById]
    | cons y r ih =>
      have hy : y.id ≠ x.id := hx y (by simp)
      have hr : ∀ p ∈ r, p.id ≠ x.id := fun p hp => hx p (by simp [hp])
      unfold insertById
      intro h
      split
      · simpa using h
      · split
        · rename_i heq; exact absurd heq.symm hy
        · rcases h with h | h
          · exact List.mem_cons_of_mem _ (ih hr (Or.inl h))
          · rcases List.mem_cons.mp h with h | h
            · rw [h]; exact List.mem_cons_self
            · exact List.mem_cons_of_mem _ (ih hr (Or.inr h))

/-- one step: `e` is pending afterwards iff it was pending and the step keeps it, or the step is the
`Put` of the in-flight logger holding `e` -/
theorem mem_pending_step (op : Op) (a : Abs) (h : AInv a) (e : Event) :
    e ∈ (absStep op a).2.pending ↔
      (e ∈ a.pending ∧ keeps e op = true) ∨ (op = .finish e.id ∧ e ∈ a.inflight) := by
  cases op with
  | begin t i => simp [absStep, keeps]
  | rejected => simp [absStep, keeps]
  | reopen => simp [absStep, keeps]
  | inject k v => simp [absStep, keeps]
  | commit n =>
    simp only [absStep, keeps, List.mem_filter, decide_eq_true_eq, bne_iff_ne, ne_eq, reduceCtorEq, false_and, or_false]
    constructor
    · rintro ⟨h1, h2⟩; exact ⟨h1, fun hh => h2 hh.symm⟩
    · rintro ⟨h1, h2⟩; exact ⟨h1, fun hh => h2 hh.symm⟩
  | recover reg out =>
    simp [absStep, keeps, List.mem_filter]
  | finish n =>
    simp only [absStep, keeps, and_true]
    cases hf : a.inflight.find? (fun e => e.id == n) with
    | none =>
      simp only
      constructor
      · exact fun h => Or.inl h
      · rintro (h1 | ⟨h1, h2⟩)
        · exact h1
        · exfalso
          have hn : n = e.id := by injection h1
          have := List.find?_eq_none.mp hf e h2
          simp [hn] at this
    | some x =>
      obtain ⟨hxm, hxid⟩ := find_spec hf
      have hxP : ∀ p ∈ a.pending, p.id ≠ x.id := fun p hp hh => h.disj x hxm p hp hh.symm
      simp only
      rw [mem_insertById_iff x e a.pending hxP]
      constructor
      · rintro (h1 | h1)
        · subst h1; exact Or.inr ⟨by rw [hxid], hxm⟩
        · exact Or.inl h1
      · rintro (h1 | ⟨h1, h2⟩)
        · exact Or.inr h1
        · have hn : n = e.id := by injection h1
          left
          exact sorted_id_inj a.inflight h.sortedI e x h2 hxm (by omega)

/-- `pending_iff_history`: after a history, `e` is pending iff it was pending at the start and every
operation kept it, or the history contains the `Put` of the logger holding `e` (it was in flight at
that moment) and every later operation kept it: no later commit of its id, no later recovery whose
handler succeeded / declared it unnecessary. -/
theorem pending_iff_history (ops : List Op) (a : Abs) (h : AInv a) (e : Event) :
    e ∈ (absRun ops a).2.pending ↔
      (e ∈ a.pending ∧ ops.all (keeps e) = true) ∨
      (∃ ops1 ops2, ops = ops1 ++ .finish e.id :: ops2 ∧ e ∈ (absRun ops1 a).2.inflight ∧ ops2.all (keeps e) = true) := by
  induction ops generalizing a with
  | nil =>
    simp only [absRun, List.all_nil, and_true]
    constructor
    · exact fun h => Or.inl h
    · rintro (h1 | ⟨o1, o2, h1, _⟩)
      · exact h1
      · cases o1 <;> simp at h1
  | cons op ops ih =>
    simp only [absRun]
    rw [ih _ (h.step op a), mem_pending_step op a h e]
    constructor
    · rintro (⟨(⟨h1, h2⟩ | ⟨h1, h2⟩), h3⟩ | ⟨o1, o2, h1, h2, h3⟩)
      · exact Or.inl ⟨h1, by simp [h2, h3]⟩
      · exact Or.inr ⟨[], ops, by simp [h1], h2, h3⟩
      · exact Or.inr ⟨op :: o1, o2, by simp [h1], by simpa [absRun] using h2, h3⟩
    · rintro (⟨h1, h2⟩ | ⟨o1, o2, h1, h2, h3⟩)
      · simp only [List.all_cons, Bool.and_eq_true] at h2
        exact Or.inl ⟨Or.inl ⟨h1, h2.1⟩, h2.2⟩
      · cases o1 with
        | nil =>
          simp only [List.nil_append, List.cons.injEq] at h1
          obtain ⟨h1a, h1b⟩ := h1
          subst h1b
          exact Or.inl ⟨Or.inr ⟨h1a, h2⟩, h3⟩
        | cons o o1' =>
          simp only [List.cons_append, List.cons.injEq] at h1
          obtain ⟨h1a, h1b⟩ := h1
          subst h1a
          exact Or.inr ⟨o1', o2, h1b, by simpa [absRun] using h2, h3⟩

theorem opsOk_append_iff (a b : List Op) : opsOk (a ++ b) ↔ opsOk a ∧ opsOk b := by
  induction a with
  | nil => simp [opsOk]
  | cons x r ih => simp only [List.cons_append, opsOk, ih, and_assoc]

theorem begins_append (a b : List Op) : begins (a ++ b) = begins a + begins b := by
  induction a with
  | nil => simp [begins]
  | cons x r ih =>
    have h1 := begins_cons x (r ++ b)
    have h2 := begins_cons x r
    rw [List.cons_append]; omega

/-- an id that is pending in a reachable state is `Gone` once it is committed / removed -/
theorem gone_after_commit (a : Abs) (h : AInv a) (e : Event) (he : e ∈ a.pending) :
    Gone e.id (absStep (.commit e.id) a).2 :=
  ⟨h.pend e he, fun x hx => by simp only [absStep, List.mem_filter, decide_eq_true_eq] at hx; exact hx.2,
   fun x hx hh => h.disj x hx e he hh⟩

theorem gone_after_recover (a : Abs) (h : AInv a) (reg : List String) (out : Event → HOut) (e : Event)
    (he : e ∈ a.pending) (hrm : removes reg out e = true) :
    Gone e.id (absStep (.recover reg out) a).2 := by
  refine ⟨h.pend e he, ?_, fun x hx hh => h.disj x hx e he hh⟩
  intro x hx hid
  simp only [absStep, List.mem_filter] at hx
  have : x = e := sorted_id_inj a.pending h.sortedP x e hx.1 he hid
  subst this
  simp [hrm] at hx

end Eru.Wal
