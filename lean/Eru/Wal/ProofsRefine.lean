import Eru.Wal.ProofsHydro
/- the concrete WAL model refines the abstract log, step by step and over whole histories -/
namespace Eru.Wal

structure Rel (st : St) (a : Abs) : Prop where
  seq : st.seq = a.next
  infl : st.inflight = a.inflight
  kv : st.kv = a.pending.map encEvent
  sorted : Sorted a.pending
  pend : ∀ e ∈ a.pending, 1 ≤ e.id ∧ e.id ≤ a.next
  inflb : ∀ e ∈ a.inflight, 1 ≤ e.id ∧ e.id ≤ a.next

/-- well-formed operation of a history the property quantifies over: no foreign write into the
bucket; ids are Go `uint64` values -/
def opOk : Op → Prop
  | .inject _ _ => False
  | .commit id => id < 2 ^ 64
  | _ => True

def opsOk : List Op → Prop
  | [] => True
  | op :: ops => opOk op ∧ opsOk ops

theorem Rel.init : Rel {} {} :=
  ⟨rfl, rfl, rfl, List.Pairwise.nil, fun _ h => by simp at h, fun _ h => by simp at h⟩

theorem Rel.bounded {st : St} {a : Abs} (h : Rel st a) (hn : a.next < 2 ^ 64) : Bounded a.pending :=
  fun e he => Nat.lt_of_le_of_lt (h.pend e he).2 hn

theorem absStep_next_mono (op : Op) (a : Abs) : a.next ≤ (absStep op a).2.next := by
  cases op <;> simp only [absStep] <;> try exact Nat.le_refl _
  · exact Nat.le_succ _
  · split <;> exact Nat.le_refl _

theorem absStep_next (op : Op) (a : Abs) : (absStep op a).2.next = a.next + begins [op] := by
  cases op <;> simp only [absStep, begins] <;> try rfl
  · split <;> rfl

theorem step_refines (op : Op) (st : St) (a : Abs) (h : Rel st a) (hop : opOk op)
    (hn : a.next + begins [op] < 2 ^ 64) :
    (step op st).1 = (absStep op a).1 ∧ Rel (step op st).2 (absStep op a).2 := by
  obtain ⟨seq, kv, infl⟩ := st
  obtain ⟨next, ainfl, pending⟩ := a
  obtain ⟨hseq, hinfl, hkv, hsorted, hpend, hinflb⟩ := h
  simp only at hseq hinfl hkv hsorted hpend hinflb
  subst hseq hinfl hkv
  have hnext : seq < 2 ^ 64 := by
    have : seq ≤ seq + begins [op] := Nat.le_add_right _ _
    exact Nat.lt_of_le_of_lt this hn
  have hB : Bounded pending := fun e he => Nat.lt_of_le_of_lt (hpend e he).2 hnext
  cases op with
  | begin t i =>
    simp only [step, absStep]
    refine ⟨by first | rfl | trivial, ⟨rfl, rfl, rfl, hsorted, ?_, ?_⟩⟩
    · intro e he; have := hpend e he; exact ⟨this.1, Nat.le_succ_of_le this.2⟩
    · intro e he
      rcases List.mem_append.mp he with he | he
      · have := hinflb e he; exact ⟨this.1, Nat.le_succ_of_le this.2⟩
      · simp at he; subst he; exact ⟨by simp, Nat.le_refl _⟩
  | finish id =>
    simp only [step, absStep]
    cases hf : infl.find? (fun e => e.id == id) with
    | none => exact ⟨by first | rfl | trivial, ⟨rfl, rfl, rfl, hsorted, hpend, hinflb⟩⟩
    | some e =>
      have hmem : e ∈ infl := List.mem_of_find?_eq_some hf
      have hb := hinflb e hmem
      have he : e.id < 2 ^ 64 := Nat.lt_of_le_of_lt hb.2 hnext
      refine ⟨by first | rfl | trivial, ⟨rfl, rfl, kvPut_map e pending he hB, sorted_insertById e pending hsorted, ?_, ?_⟩⟩
      · intro x hx
        rcases mem_insertById e x pending hx with hx | hx
        · subst hx; exact hb
        · exact hpend x hx
      · intro x hx; exact hinflb x (List.mem_filter.mp hx).1
  | rejected => exact ⟨by first | rfl | trivial, ⟨rfl, rfl, rfl, hsorted, hpend, hinflb⟩⟩
  | commit id =>
    simp only [step, absStep]
    refine ⟨by first | rfl | trivial, ⟨rfl, rfl, kvDel_map id pending hop hB, List.Pairwise.filter _ hsorted, ?_, hinflb⟩⟩
    intro x hx; exact hpend x (List.mem_filter.mp hx).1
  | reopen =>
    exact ⟨by first | rfl | trivial, ⟨rfl, rfl, rfl, hsorted, hpend, fun _ h => nomatch h⟩⟩
  | inject k v => exact hop.elim
  | recover reg out =>
    have hP : ∀ e ∈ pending, 1 ≤ e.id ∧ e.id < 2 ^ 64 :=
      fun e he => ⟨(hpend e he).1, hB e he⟩
    simp only [step, absStep, recover, kvScan_map, decode_map pending hP,
      recoverLoop_map reg out pending pending hB hB, filter_any_self reg out pending hsorted]
    refine ⟨by first | rfl | trivial, ⟨rfl, rfl, rfl, List.Pairwise.filter _ hsorted, ?_, hinflb⟩⟩
    intro x hx; exact hpend x (List.mem_filter.mp hx).1

theorem begins_cons (op : Op) (ops : List Op) : begins (op :: ops) = begins [op] + begins ops := by
  cases op <;> simp [begins] <;> omega

theorem run_refines (ops : List Op) (st : St) (a : Abs) (h : Rel st a) (hops : opsOk ops)
    (hn : a.next + begins ops < 2 ^ 64) :
    (run ops st).1 = (absRun ops a).1 ∧ Rel (run ops st).2 (absRun ops a).2 := by
  induction ops generalizing st a with
  | nil => exact ⟨rfl, h⟩
  | cons op ops ih =>
    have hb := begins_cons op ops
    obtain ⟨h1, h2⟩ := step_refines op st a h hops.1 (by omega)
    have hnext := absStep_next op a
    obtain ⟨h3, h4⟩ := ih (step op st).2 (absStep op a).2 h2 hops.2 (by omega)
    simp only [run, absRun]
    exact ⟨by rw [h1, h3], h4⟩

theorem absRun_next (ops : List Op) (a : Abs) : (absRun ops a).2.next = a.next + begins ops := by
  induction ops generalizing a with
  | nil => rfl
  | cons op ops ih =>
    simp only [absRun]
    have := begins_cons op ops
    rw [ih, absStep_next]; omega

theorem opsOk_append (ops : List Op) (op : Op) (h : opsOk ops) (ho : opOk op) : opsOk (ops ++ [op]) := by
  induction ops with
  | nil => exact ⟨ho, trivial⟩
  | cons x r ih => exact ⟨h.1, ih h.2⟩

theorem begins_append_recover (ops : List Op) (reg : List String) (out : Event → HOut) :
    begins (ops ++ [.recover reg out]) = begins ops := by
  induction ops with
  | nil => rfl
  | cons x r ih =>
    have h1 := begins_cons x (r ++ [.recover reg out])
    have h2 := begins_cons x r
    rw [List.cons_append]; omega

theorem absRun_append_recover (ops : List Op) (reg : List String) (out : Event → HOut) (a : Abs) :
    (absRun (ops ++ [.recover reg out]) a).2.pending =
      ((absRun ops a).2.pending).filter (fun e => !removes reg out e) := by
  induction ops generalizing a with
  | nil => rfl
  | cons op ops ih => simp only [List.cons_append, absRun]; exact ih _

theorem handleOne_fields (o : HOut) (e : Event) (c : HCall) (h : c ∈ (handleOne o e).1) :
    c.id = e.id ∧ c.typ = e.typ ∧ c.item = e.item := by
  have : ((handleOne o e).1.all (fun c => c.id == e.id && c.typ == e.typ && c.item == e.item)) = true := by
    cases o <;> simp [handleOne]
  have := List.all_eq_true.mp this c h
  simp only [Bool.and_eq_true, beq_iff_eq] at this
  exact ⟨this.1.1, this.1.2, this.2⟩

/-! ### a committed event never comes back (abstract log) -/

/-- `id` has been issued already and no stored or in-flight event carries it -/
def Gone (id : Nat) (a : Abs) : Prop :=
  id ≤ a.next ∧ (∀ e ∈ a.pending, e.id ≠ id) ∧ (∀ e ∈ a.inflight, e.id ≠ id)

theorem Gone.step (id : Nat) (op : Op) (a : Abs) (h : Gone id a) : Gone id (absStep op a).2 := by
  obtain ⟨h1, h2, h3⟩ := h
  cases op with
  | begin t i =>
    refine ⟨Nat.le_succ_of_le h1, h2, ?_⟩
    intro e he
    simp only [absStep] at he
    rcases List.mem_append.mp he with he | he
    · exact h3 e he
    · simp at he; subst he; simp; omega
  | finish n =>
    simp only [absStep]
    cases hf : a.inflight.find? (fun e => e.id == n) with
    | none => exact ⟨h1, h2, h3⟩
    | some e =>
      refine ⟨h1, ?_, fun x hx => h3 x (List.mem_filter.mp hx).1⟩
      intro x hx
      rcases mem_insertById e x a.pending hx with hx | hx
      · subst hx; exact h3 _ (List.mem_of_find?_eq_some hf)
      · exact h2 x hx
  | rejected => exact ⟨h1, h2, h3⟩
  | commit n => exact ⟨h1, fun x hx => h2 x (List.mem_filter.mp hx).1, h3⟩
  | reopen => exact ⟨h1, h2, fun _ h => nomatch h⟩
  | inject k v => exact ⟨h1, h2, h3⟩
  | recover reg out => exact ⟨h1, fun x hx => h2 x (List.mem_filter.mp hx).1, h3⟩

theorem Gone.run (id : Nat) (ops : List Op) (a : Abs) (h : Gone id a) : Gone id (absRun ops a).2 := by
  induction ops generalizing a with
  | nil => exact h
  | cons op ops ih => simp only [absRun]; exact ih _ (h.step id op a)

/-! ### ids never repeat (concrete model, any history at all) -/

theorem step_seq_mono (op : Op) (st : St) : st.seq ≤ (step op st).2.seq := by
  cases op <;> simp only [step, recover] <;> try exact Nat.le_refl _
  · exact Nat.le_succ _
  · split <;> exact Nat.le_refl _

theorem issued_run_gt (ops : List Op) (st : St) : ∀ n ∈ issued (run ops st).1, st.seq < n := by
  induction ops generalizing st with
  | nil => simp [run, issued]
  | cons op ops ih =>
    intro n hn
    have hm := step_seq_mono op st
    simp only [run] at hn
    cases op with
    | begin t i =>
      simp only [step, issued, List.mem_cons] at hn
      rcases hn with hn | hn
      · omega
      · have := ih _ n hn; simp at this; omega
    | finish id =>
      have hs : (step (.finish id) st).1 = .none := by simp only [step]; split <;> rfl
      rw [hs] at hn; simp only [issued] at hn
      have := ih _ n hn; omega
    | rejected => simp only [step, issued] at hn; exact ih _ n hn
    | commit id => simp only [step, issued] at hn; have := ih _ n hn; simpa using this
    | reopen => simp only [step, issued] at hn; have := ih _ n hn; simpa using this
    | inject k v => simp only [step, issued] at hn; have := ih _ n hn; simpa using this
    | recover reg out =>
      simp only [step, issued] at hn
      have := ih _ n hn
      simp only [step] at hm
      omega

theorem increasing_cons_of (a : Nat) (l : List Nat) (h : ∀ n ∈ l, a < n) (hl : increasing l = true) :
    increasing (a :: l) = true := by
  cases l with
  | nil => rfl
  | cons b r => simp [increasing, h b (by simp), hl]

theorem issued_increasing (ops : List Op) (st : St) : increasing (issued (run ops st).1) = true := by
  induction ops generalizing st with
  | nil => rfl
  | cons op ops ih =>
    simp only [run]
    cases op with
    | begin t i =>
      simp only [step, issued]
      apply increasing_cons_of
      · intro n hn; have := issued_run_gt ops _ n hn; simpa using this
      · exact ih _
    | finish id =>
      have hs : (step (.finish id) st).1 = .none := by simp only [step]; split <;> rfl
      rw [hs]; simp only [issued]; exact ih _
    | rejected => simp only [step, issued]; exact ih _
    | commit id => simp only [step, issued]; exact ih _
    | reopen => simp only [step, issued]; exact ih _
    | inject k v => simp only [step, issued]; exact ih _
    | recover reg out => simp only [step, issued]; exact ih _

end Eru.Wal
