import Eru.TxnSpec
/- helper lemmas for C17: lifting the table model to arbitrary step bodies -/
namespace Eru.Txn

def outcomeOf (ok : Bool) : Out := if ok then .ok else .fail

/-- the outcome of `then` as produced by its body in the world left by `cond` -/
def thenOutcome {σ} (cond : Body σ) (thn : Option (Body σ)) (rb : Option (Bool → Body σ)) (c : Cancel) (sl : Slow) (s : σ) : Opt :=
  match thn with
  | none => .absent
  | some f =>
    let k : Ctx := if rb.isNone then .inherit else .txn
    .present (outcomeOf (f k (view k .thn c sl) (cond .txn (view .txn .cond c sl) s).2).1)

def rbOutcome {σ} (rb : Option (Bool → Body σ)) : Opt :=
  match rb with | none => .absent | some _ => .present .ok

def invOf (c : Call) : Inv := (c.step, c.ctx, c.byCond)

/-- for arbitrary bodies and EVERY cancellation point: the returned error and the sequence of
invocations (step, context kind, flag) are those of the table entry selected by the outcomes the
bodies produced, and the final world is obtained by running exactly the invoked bodies, once each,
in that order (no body runs outside the trace). -/
theorem txnM_eq_table {σ : Type} (cond : Body σ) (thn : Option (Body σ)) (rb : Option (Bool → Body σ)) (c : Cancel) (sl : Slow) (s : σ) :
    let t := txn (outcomeOf (cond .txn (view .txn .cond c sl) s).1) (thenOutcome cond thn rb c sl s) (rbOutcome rb) c sl
    (txnM cond thn rb c sl s).1 = t.ret ∧ (txnM cond thn rb c sl s).2.1 = t.calls.map invOf ∧
    (txnM cond thn rb c sl s).2.2 = (txnM cond thn rb c sl s).2.1.foldl (applyInv cond thn rb c sl) s := by
  unfold txnM thenOutcome rbOutcome
  rcases hc : cond .txn (view .txn .cond c sl) s with ⟨ok, s1⟩
  cases ok <;> cases thn <;> cases rb <;> simp [txn, outcomeOf, mkCall, invOf, applyInv, hc]
  all_goals (split <;> simp_all [mkCall, invOf, applyInv])

/-- what a body observes of its context is fixed by the context kind and the cancellation point:
the entry/exit observations recorded in the table are exactly `view` at the step's entry/exit time -/
theorem observed_view : ∀ cond thn rb c sl, ∀ k ∈ (txn cond thn rb c sl).calls,
    k.cancelledAtEntry = view k.ctx k.step c sl (entryRank k.step) ∧
    k.cancelledAtExit = view k.ctx k.step c sl (exitRank k.step) := by decide

/-- which bodies run, in which order, with which context kind and flag does not depend on when (or
whether) the caller cancels — only on the outcomes -/
theorem trace_independent_of_cancellation : ∀ cond thn rb c sl,
    (txn cond thn rb c sl).calls.map invOf = (txn cond thn rb .never .none).calls.map invOf ∧
    (txn cond thn rb c sl).ret = (txn cond thn rb .never .none).ret := by decide

end Eru.Txn
