import Eru.TxnSpec
/- helper lemmas for C17: lifting the table model to arbitrary step bodies -/
namespace Eru.Txn

def outcomeOf (ok : Bool) : Out := if ok then .ok else .fail

/-- the outcome of `then` as produced by its body in the world left by `cond` -/
def thenOutcome {σ} (cond : Body σ) (thn : Option (Body σ)) (rb : Option (Bool → Body σ)) (s : σ) : Opt :=
  match thn with
  | none => .absent
  | some f => .present (outcomeOf (f (if rb.isNone then .inherit else .txn) (cond .txn s).2).1)

def rbOutcome {σ} (rb : Option (Bool → Body σ)) : Opt :=
  match rb with | none => .absent | some _ => .present .ok

def invOf (c : Call) : Inv := (c.step, c.ctx, c.byCond)

/-- for arbitrary bodies: the returned error and the sequence of invocations (step, context kind,
flag) are those of the table entry selected by the outcomes the bodies produced -/
theorem txnM_eq_table {σ : Type} (cond : Body σ) (thn : Option (Body σ)) (rb : Option (Bool → Body σ)) (s : σ) :
    let t := txn (outcomeOf (cond .txn s).1) (thenOutcome cond thn rb s) (rbOutcome rb) .never
    (txnM cond thn rb s).1 = t.ret ∧ (txnM cond thn rb s).2.1 = t.calls.map invOf := by
  unfold txnM thenOutcome rbOutcome
  rcases hc : cond .txn s with ⟨ok, s1⟩
  cases ok <;> cases thn <;> cases rb <;> simp [txn, outcomeOf, mkCall, invOf]
  all_goals (split <;> simp_all [mkCall, invOf])

theorem txnM_ret_eq_table {σ : Type} (cond : Body σ) (thn : Option (Body σ)) (rb : Option (Bool → Body σ)) (s : σ) :
    (txnM cond thn rb s).1 = (txn (outcomeOf (cond .txn s).1) (thenOutcome cond thn rb s) (rbOutcome rb) .never).ret :=
  (txnM_eq_table cond thn rb s).1

end Eru.Txn
