import Eru.Strategy.ProofsSort
import Eru.Strategy.ProofsAverage
import Eru.Strategy.ProofsGlobal
import Eru.Strategy.ProofsOrders
/- Assembly of the per-strategy results into statements about the candidate list as given
   (any order) and into the decidable predicate `c01` that the oracle evaluates. -/
namespace Eru.Strategy
open Eru Eru.GoSort

theorem auto_plan {infos : List Info} {need total limit : Int} {p : Plan} (hv : Valid infos) (hneed : 1 ≤ need)
    (h : communism infos need total limit = .ok p) :
    PlanWithin infos p ∧ sumBy infos (fun i => p.get i.name) = need ∧
    (∀ i ∈ infos, p.get i.name ≤ allowance limit i) := by
  unfold communism at h
  split at h
  · cases h
  · have inv0 : CommInv infos limit (GoHeap.init commLess (infos.filter (commKeep limit)).toArray).toList [] :=
      (commInv_init infos limit hv).perm (by simpa using (GoHeap.init_perm commLess _).symm)
    have := (commLoop_spec infos limit hv need need.toNat _ [] inv0 (by rw [sumBy_zero (fun _ _ => by simp)]; omega)).1 p h
    refine ⟨⟨this.2.2, fun i hi => ⟨(this.2.1 i hi).1, ?_⟩⟩, this.1, fun i hi => (this.2.1 i hi).2⟩
    have h1 := (this.2.1 i hi).2
    have hc := hv.2 i hi
    simp only [allowance] at h1
    split at h1 <;> omega

theorem global_plan {infos : List Info} {need total : Int} {p : Plan} (hv : Valid infos) (hneed : 1 ≤ need)
    (h : global infos need total = .ok p) :
    PlanWithin infos p ∧ sumBy infos (fun i => p.get i.name) = need := by
  unfold global at h
  split at h
  · cases h
  · have inv0 : GlobInv infos (GoHeap.init globalLess (infos.filter (fun i => i.cap > 0)).toArray).toList [] :=
      (globInv_init infos hv).perm (by simpa using (GoHeap.init_perm globalLess _).symm)
    have := (globalLoop_spec infos hv need need.toNat _ [] inv0 (by rw [sumBy_zero (fun _ _ => by simp)]; omega)).1 p h
    exact ⟨⟨this.2.2, this.2.1⟩, this.1⟩

theorem drained_plan {infos : List Info} {need total : Int} {p : Plan} (hv : Valid infos) (hneed : 1 ≤ need)
    (h : drained infos need total = .ok p) :
    PlanWithin infos p ∧ sumBy infos (fun i => p.get i.name) = need := by
  unfold drained at h
  have hperm := isort_perm drainedLess infos
  obtain ⟨h1, h2⟩ := drainedOn_spec _ need total p (hv.perm hperm.symm) hneed h
  exact ⟨h1.perm hperm, by rw [← sumBy_perm hperm]; exact h2⟩

/-- EACH: the candidates split into `chosen` (exactly the effective limit many, each given `need`, each with
    room for it) and `rest` (given nothing) -/
theorem each_plan {infos : List Info} {need limit : Int} {p : Plan} (hv : Valid infos)
    (h : average infos need limit = .ok p) :
    ∃ chosen rest : List Info, (chosen ++ rest).Perm infos ∧ (chosen.length : Int) = effLimitEach infos limit ∧
      (∀ i ∈ chosen, p.has i.name = true ∧ p.get i.name = need ∧ need ≤ i.cap) ∧
      (∀ j ∈ rest, p.has j.name = false ∧ p.get j.name = 0) ∧
      (∀ k, p.has k = true → k ∈ infos.map (·.name)) ∧
      (∀ i ∈ chosen, ∀ j ∈ rest, j.cap ≤ i.cap) := by
  unfold average at h
  have hperm := isort_perm averageLess infos
  have hsorted := isort_sorted averageLess_sw infos
  obtain ⟨l, hl, hln, hc, hr, hk⟩ := averageOn_spec _ need limit p (hv.perm hperm.symm) hsorted h
  refine ⟨(isort averageLess infos).take l, (isort averageLess infos).drop l, ?_, ?_, hc, hr, ?_, ?_⟩
  · rw [List.take_append_drop]; exact hperm
  · rw [List.length_take, Nat.min_eq_left hln, hl]
    simp [effLimitEach, hperm.length_eq]
  · intro k hkk; exact (hperm.map _).mem_iff.mp (hk k hkk)
  · intro i hi j hj
    have hs := hsorted
    rw [← List.take_append_drop l (isort averageLess infos), List.pairwise_append] at hs
    have := hs.2.2 i hi j hj
    simpa [averageLess] using this

theorem fillLoop_nonpos (need : Int) (L : List Info) (limit : Int) (d : Plan) (t : Int) (hl : limit ≤ 0) :
    ∀ r, fillLoop need L limit d t ≠ .ok r := by
  induction L generalizing limit d t with
  | nil => intro r hr; simp [fillLoop] at hr
  | cons x xs ih =>
    intro r hr
    unfold fillLoop at hr
    split at hr
    · simp only at hr
      split at hr
      · omega
      · exact ih _ _ _ (by omega) r hr
    · exact ih _ _ _ hl r hr

/-- FILL: `chosen` are exactly the effective-limit many selected nodes, each eligible and topped up to `need`;
    eligible nodes that were not selected never have a larger count than a selected one -/
theorem fill_plan {infos : List Info} {need limit : Int} {p : Plan} {flag : Bool} (hv : Valid infos)
    (h : fill infos need limit = .ok (p, flag)) :
    ∃ chosen rest : List Info, (chosen ++ rest).Perm infos ∧ (chosen.length : Int) = effLimit infos limit ∧
      (∀ i ∈ chosen, fillEligible need i = true ∧ p.has i.name = true ∧ p.get i.name = max (need - i.count) 0) ∧
      (∀ j ∈ rest, p.has j.name = false ∧ p.get j.name = 0) ∧
      (∀ k, p.has k = true → k ∈ infos.map (·.name)) ∧
      (∀ i ∈ chosen, ∀ j ∈ rest, fillEligible need j = true → j.count ≤ i.count) := by
  unfold fill fillOn at h
  simp only at h
  have hperm := isort_perm fillLess infos
  have hsorted := isort_sorted fillLess_sw infos
  have hv' := hv.perm hperm.symm
  have heff : effLimit infos limit = (if limit = 0 then ((isort fillLess infos).length : Int) else limit) := by
    simp [effLimit, hperm.length_eq]
  generalize hL : (if limit = 0 then ((isort fillLess infos).length : Int) else limit) = L at h heff
  split at h
  · cases h
  · by_cases hL1 : 1 ≤ L
    · obtain ⟨pre, post, hsplit, hlen, hc, hs, hp, ho⟩ :=
        fillLoop_spec need _ L [] 0 p flag hL1 hv'.1 (fun _ _ => rfl) h
      refine ⟨pre.filter (fillEligible need), pre.filter (fun i => !fillEligible need i) ++ post, ?_, ?_, ?_, ?_, ?_, ?_⟩
      · rw [← List.append_assoc]
        refine List.Perm.trans ?_ (hsplit ▸ hperm)
        exact List.Perm.append_right _ (List.filter_append_perm _ _)
      · rw [hlen, heff]
      · intro i hi
        obtain ⟨him, hie⟩ := List.mem_filter.mp hi
        exact ⟨hie, hc i him hie⟩
      · intro j hj
        rcases List.mem_append.mp hj with hj | hj
        · obtain ⟨hjm, hje⟩ := List.mem_filter.mp hj
          exact hs j hjm (by simpa using hje)
        · exact hp j hj
      · intro k hk
        by_cases hm : k ∈ (isort fillLess infos).map (·.name)
        · exact (hperm.map _).mem_iff.mp hm
        · have := (ho k hm).2; rw [this] at hk; simp [Plan.has] at hk
      · intro i hi j hj hje
        obtain ⟨him, _⟩ := List.mem_filter.mp hi
        rcases List.mem_append.mp hj with hj | hj
        · obtain ⟨_, hjn⟩ := List.mem_filter.mp hj
          rw [hje] at hjn; cases hjn
        · have hs' := hsorted
          rw [hsplit, List.pairwise_append] at hs'
          have := hs'.2.2 i him j hj
          simp only [fillLess, beq_iff_eq] at this
          split at this <;> simp at this <;> omega
    · exact absurd h (fillLoop_nonpos need _ L [] 0 (by omega) _)

end Eru.Strategy
