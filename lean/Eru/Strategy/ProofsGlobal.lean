import Eru.Strategy.ProofsAuto
/- GLOBAL (global.go): same multiset invariant as AUTO, without the per-node limit. -/
namespace Eru.Strategy
open Eru

structure GlobInv (infos : List Info) (h : List Info) (d : Plan) : Prop where
  tracked : ∀ e ∈ h, ∃ i ∈ infos, e.name = i.name ∧ e.cap = i.cap - d.get i.name ∧ 1 ≤ e.cap ∧
      e.rate = i.rate ∧ e.usage = i.usage + i.rate * d.get i.name
  nodup : (h.map (·.name)).Nodup
  within : ∀ i ∈ infos, 0 ≤ d.get i.name ∧ d.get i.name ≤ i.cap
  keys : ∀ k, d.has k = true → k ∈ infos.map (·.name)
  exhausted : ∀ i ∈ infos, i.name ∉ h.map (·.name) → d.get i.name = i.cap

theorem GlobInv.perm {infos h h' d} (hp : List.Perm h h') (inv : GlobInv infos h d) : GlobInv infos h' d :=
  { tracked := fun e he => inv.tracked e (hp.mem_iff.mpr he)
    nodup := (hp.map _).nodup_iff.mp inv.nodup
    within := inv.within
    keys := inv.keys
    exhausted := fun i hi hn => inv.exhausted i hi (fun hm => hn ((hp.map _).mem_iff.mp hm)) }

theorem globInv_init (infos : List Info) (hv : Valid infos) :
    GlobInv infos (infos.filter (fun i => i.cap > 0)) [] := by
  refine ⟨?_, ?_, ?_, ?_, ?_⟩
  · intro e he
    obtain ⟨hm, _⟩ := List.mem_filter.mp he
    exact ⟨e, hm, rfl, by simp, (hv.2 e hm).1, rfl, by simp⟩
  · exact (List.filter_sublist.map _).nodup hv.1
  · intro i hi
    have hc := hv.2 i hi
    simp only [Plan.get_nil]; omega
  · intro k hk; simp [Plan.has] at hk
  · intro i hi hn
    have hc := hv.2 i hi
    exfalso; apply hn
    have hpos : decide (i.cap > 0) = true := decide_eq_true (by omega)
    have hm : i ∈ infos.filter (fun i => decide (i.cap > 0)) := List.mem_filter.mpr ⟨hi, hpos⟩
    exact List.mem_map_of_mem (f := (·.name)) hm

theorem globInv_step (infos : List Info) (hv : Valid infos) (info : Info) (h' : List Info) (d : Plan)
    (inv : GlobInv infos (info :: h') d) :
    let d' := d.add info.name 1
    let info' : Info := { info with usage := info.usage + info.rate, cap := info.cap - 1 }
    sumBy infos (fun i => d'.get i.name) = sumBy infos (fun i => d.get i.name) + 1 ∧
    GlobInv infos (if info'.cap > 0 then info' :: h' else h') d' := by
  intro d' info'
  obtain ⟨i0, hi0, hname, hcap, hcap1, hrate, husage⟩ := inv.tracked info List.mem_cons_self
  have hnd := inv.nodup
  simp only [List.map_cons, List.nodup_cons] at hnd
  have hget : ∀ i ∈ infos, d'.get i.name = d.get i.name + (if i0.name = i.name then 1 else 0) := by
    intro i _
    simp only [d', Plan.get_add, hname]
    split
    · rename_i e; rw [e]
    · omega
  have hw0 := inv.within i0 hi0
  refine ⟨?_, ?_⟩
  · rw [sumBy_congr hget, sumBy_add, sumBy_indicator hv.1 hi0]
  · have hother : ∀ i ∈ infos, i.name ≠ info.name → d'.get i.name = d.get i.name := by
      intro i hi hne
      rw [hget i hi]
      have : ¬ i0.name = i.name := fun e => hne (by rw [← e, hname])
      simp [this]
    have hsame : ∀ i ∈ infos, i.name = info.name → i = i0 := fun i hi e =>
      name_inj hv.1 hi hi0 (by rw [e, hname])
    have hd0 : d'.get i0.name = d.get i0.name + 1 := by rw [hget i0 hi0]; simp
    have htr' : ∀ e ∈ h', ∃ i ∈ infos, e.name = i.name ∧ e.cap = i.cap - d'.get i.name ∧ 1 ≤ e.cap ∧
        e.rate = i.rate ∧ e.usage = i.usage + i.rate * d'.get i.name := by
      intro e he
      obtain ⟨i, hi, hn, hc, h1, hr, hu⟩ := inv.tracked e (List.mem_cons_of_mem _ he)
      have hne : i.name ≠ info.name := by
        intro e'; exact hnd.1 (by rw [← e', ← hn]; exact List.mem_map_of_mem (f := (·.name)) he)
      exact ⟨i, hi, hn, by rw [hother i hi hne]; exact hc, h1, hr, by rw [hother i hi hne]; exact hu⟩
    have hwithin' : ∀ i ∈ infos, 0 ≤ d'.get i.name ∧ d'.get i.name ≤ i.cap := by
      intro i hi
      by_cases hne : i.name = info.name
      · have := hsame i hi hne; subst this
        rw [hd0]; omega
      · rw [hother i hi hne]; exact inv.within i hi
    have hkeys' : ∀ k, d'.has k = true → k ∈ infos.map (·.name) := by
      intro k hk
      simp only [d', Plan.has_add, Bool.or_eq_true, decide_eq_true_eq] at hk
      rcases hk with rfl | hk
      · rw [hname]; exact List.mem_map_of_mem (f := (·.name)) hi0
      · exact inv.keys k hk
    split
    · rename_i hkeep
      simp only [info'] at hkeep
      refine ⟨?_, ?_, hwithin', hkeys', ?_⟩
      · intro e he
        rcases List.mem_cons.mp he with rfl | he'
        · refine ⟨i0, hi0, hname, ?_, ?_, hrate, ?_⟩
          · simp only [info']; rw [hd0]; omega
          · simp only [info']; omega
          · simp only [info']; rw [hd0, husage, hrate, Int.mul_add]; omega
        · exact htr' e he'
      · simp only [List.map_cons, List.nodup_cons]; exact hnd
      · intro i hi hn
        simp only [List.map_cons, List.mem_cons, not_or, info'] at hn
        have hne : i.name ≠ info.name := hn.1
        rw [hother i hi hne]
        apply inv.exhausted i hi
        simp only [List.map_cons, List.mem_cons, not_or]
        exact ⟨hne, hn.2⟩
    · rename_i hkeep
      simp only [info'] at hkeep
      refine ⟨htr', hnd.2, hwithin', hkeys', ?_⟩
      intro i hi hn
      by_cases hne : i.name = info.name
      · have := hsame i hi hne; subst this
        rw [hd0]; omega
      · rw [hother i hi hne]
        apply inv.exhausted i hi
        simp only [List.map_cons, List.mem_cons, not_or]
        exact ⟨hne, hn⟩

theorem globalStep_perm (h : Array Info) (info : Info) :
    let info' : Info := { info with usage := info.usage + info.rate, cap := info.cap - 1 }
    (globalStep h info).toList.Perm (if info'.cap > 0 then info' :: h.toList else h.toList) := by
  intro info'
  unfold globalStep
  simp only
  split
  · exact GoHeap.push_perm ..
  · exact List.Perm.refl _

theorem globalLoop_spec (infos : List Info) (hv : Valid infos) (need : Int) :
    ∀ (n : Nat) (h : Array Info) (d : Plan), GlobInv infos h.toList d →
      sumBy infos (fun i => d.get i.name) + n = need →
      (∀ p, globalLoop n h d = .ok p →
        sumBy infos (fun i => p.get i.name) = need ∧
        (∀ i ∈ infos, 0 ≤ p.get i.name ∧ p.get i.name ≤ i.cap) ∧
        (∀ k, p.has k = true → k ∈ infos.map (·.name))) ∧
      (∀ e, globalLoop n h d = .err e → sumBy infos (·.cap) < need) ∧
      (∀ m, globalLoop n h d ≠ .panic m) ∧ globalLoop n h d ≠ .diverge := by
  intro n
  induction n with
  | zero =>
    intro h d inv hsum
    simp only [globalLoop]
    refine ⟨?_, ?_, ?_, ?_⟩
    · intro p hp; cases hp
      exact ⟨by simpa using hsum, inv.within, inv.keys⟩
    · intro e he; cases he
    · intro m hm; cases hm
    · intro hm; cases hm
  | succ n ih =>
    intro h d inv hsum
    unfold globalLoop
    cases hpop : GoHeap.pop globalLess h with
    | none =>
      have hsz := (GoHeap.pop_none globalLess h).mp hpop
      have hnil : h.toList = [] := by
        have : h = #[] := Array.eq_empty_of_size_eq_zero hsz
        simp [this]
      simp only
      refine ⟨fun p hp => (by cases hp), ?_, fun m hm => (by cases hm), fun hm => (by cases hm)⟩
      intro e _
      have hex : ∀ i ∈ infos, d.get i.name = i.cap := fun i hi =>
        inv.exhausted i hi (by simp [hnil])
      rw [← sumBy_congr hex]; omega
    | some r =>
      obtain ⟨info, h'⟩ := r
      have hperm := GoHeap.pop_perm globalLess h info h' hpop
      have inv' := inv.perm hperm
      obtain ⟨hs, hinv⟩ := globInv_step infos hv info h'.toList d inv'
      simp only
      exact ih _ _ (hinv.perm (globalStep_perm h' info).symm) (by rw [hs]; omega)

end Eru.Strategy
