import Eru.Strategy.ProofsC02
import Eru.Strategy.ProofsC03Sort
/-
DRAINED / EACH / FILL for *any* sorted permutation of the candidates.

The executable model instantiates `sort.Slice` with insertion sort (`GoSort.isort`, exact for n ≤ 12); Go
switches to pdqsort for longer slices, which is not modelled.  Nothing in C01–C03 depends on which sorting
algorithm is used: the lemmas below are the `isort`-free versions of `drained_plan`/`drained_bal`/
`drained_err_infeasible`, `each_plan`/`each_cases`, `fill_plan`/`fill_cases` — the sorted list is a parameter
`sorted` with `sorted.Perm infos` and `sorted.Pairwise (fun a b => less b a = false)` (no element is strictly
less than an earlier one: exactly what `sort.Slice` guarantees for a strict weak order, stable or not).
-/
namespace Eru.Strategy
open Eru Eru.GoSort

/-! ### DRAINED -/

theorem drainedOn_plan {infos sorted : List Info} {need total : Int} {p : Plan} (hv : Valid infos)
    (hp : sorted.Perm infos) (hneed : 1 ≤ need) (h : drainedOn sorted need total = .ok p) :
    PlanWithin infos p ∧ sumBy infos (fun i => p.get i.name) = need := by
  obtain ⟨h1, h2⟩ := drainedOn_spec _ need total p (hv.perm hp.symm) hneed h
  exact ⟨h1.perm hp, by rw [← sumBy_perm hp]; exact h2⟩

theorem drainedOn_bal {infos sorted : List Info} {need total : Int} {p : Plan} (hv : Valid infos)
    (hp : sorted.Perm infos) (hs : sorted.Pairwise (fun a b => drainedLess b a = false)) (hneed : 1 ≤ need)
    (h : drainedOn sorted need total = .ok p) : DrainedBal infos p := by
  unfold drainedOn at h
  split at h
  · cases h
  · have hv' := hv.perm hp.symm
    obtain ⟨pre, x, post, hsplit, hpre, hpost⟩ :=
      drainedLoop_order _ need [] p hneed (fun i hi => (hv'.2 i hi).1) hv'.1 (fun _ _ => rfl) h
    rw [hsplit, List.pairwise_append, List.pairwise_cons] at hs
    obtain ⟨_, ⟨hx, _⟩, hpp⟩ := hs
    have hlt : ∀ a b : Info, a.cap < b.cap → drainedLess a b = true := by
      intro a b hab
      have : a.cap ≠ b.cap := by omega
      simp [drainedLess, this, hab]
    intro i hi j hj hcap hpos
    have hi' : i ∈ pre ++ x :: post := hsplit ▸ hp.mem_iff.mpr hi
    have hj' : j ∈ pre ++ x :: post := hsplit ▸ hp.mem_iff.mpr hj
    have hij := hlt i j hcap
    rcases List.mem_append.mp hi' with hip | hix
    · exact hpre i hip
    · exfalso
      rcases List.mem_append.mp hj' with hjp | hjx
      · have := hpp j hjp i hix
        rw [hij] at this; cases this
      · rcases List.mem_cons.mp hjx with rfl | hjpost
        · rcases List.mem_cons.mp hix with rfl | hipost
          · omega
          · have := hx i hipost
            rw [hij] at this; cases this
        · have := hpost j hjpost
          omega

/-- a refusal of DRAINED on any ordering of the candidates: the error is `errInsufficient` and the capacities
    do not add up to the request -/
theorem drainedOn_err {infos sorted : List Info} {need total limit : Int} {e : String} (hv : Valid infos)
    (hp : sorted.Perm infos) (hneed : 1 ≤ need) (hm : need ≤ maxInt) (ht : total = satTotal infos)
    (h : drainedOn sorted need total = .err e) :
    e = errInsufficient ∧ feasible .drained infos need limit = false := by
  simp only [feasible, ge_iff_le, decide_eq_false_iff_not, Int.not_le]
  unfold drainedOn at h
  split at h
  · rename_i hlt
    cases h
    exact ⟨rfl, satTotal_lt hv hm (ht ▸ hlt)⟩
  · obtain ⟨he, hlt⟩ := (drainedLoop_cases _ need [] hneed).1 e h
    exact ⟨he, by rw [← sumBy_perm hp]; exact hlt⟩

theorem drainedOn_no_crash (sorted : List Info) {need : Int} (total : Int) (hneed : 1 ≤ need) :
    (∀ m, drainedOn sorted need total ≠ .panic m) ∧ drainedOn sorted need total ≠ .diverge := by
  unfold drainedOn
  split
  · exact ⟨fun _ => nofun, nofun⟩
  · exact (drainedLoop_cases _ need [] hneed).2

/-! ### EACH -/

/-- `each_plan` for any capacity-descending permutation of the candidates -/
theorem averageOn_plan {infos sorted : List Info} {need limit : Int} {p : Plan} (hv : Valid infos)
    (hp : sorted.Perm infos) (hs : sorted.Pairwise (fun a b => averageLess b a = false))
    (h : averageOn sorted need limit = .ok p) :
    ∃ chosen rest : List Info, (chosen ++ rest).Perm infos ∧ (chosen.length : Int) = effLimitEach infos limit ∧
      (∀ i ∈ chosen, p.has i.name = true ∧ p.get i.name = need ∧ need ≤ i.cap) ∧
      (∀ j ∈ rest, p.has j.name = false ∧ p.get j.name = 0) ∧
      (∀ k, p.has k = true → k ∈ infos.map (·.name)) ∧
      (∀ i ∈ chosen, ∀ j ∈ rest, j.cap ≤ i.cap) := by
  obtain ⟨l, hl, hln, hc, hr, hk⟩ := averageOn_spec _ need limit p (hv.perm hp.symm) hs h
  refine ⟨sorted.take l, sorted.drop l, ?_, ?_, hc, hr, ?_, ?_⟩
  · rw [List.take_append_drop]; exact hp
  · rw [List.length_take, Nat.min_eq_left hln, hl]
    simp [effLimitEach, hp.length_eq]
  · intro k hkk; exact (hp.map _).mem_iff.mp (hk k hkk)
  · intro i hi j hj
    have hs' := hs
    rw [← List.take_append_drop l sorted, List.pairwise_append] at hs'
    have := hs'.2.2 i hi j hj
    simpa [averageLess] using this

theorem c01_each_of_split {infos : List Info} {need limit : Int} {p : Plan} (hv : Valid infos) (hneed : 1 ≤ need)
    (h : ∃ chosen rest : List Info, (chosen ++ rest).Perm infos ∧ (chosen.length : Int) = effLimitEach infos limit ∧
      (∀ i ∈ chosen, p.has i.name = true ∧ p.get i.name = need ∧ need ≤ i.cap) ∧
      (∀ j ∈ rest, p.has j.name = false ∧ p.get j.name = 0) ∧
      (∀ k, p.has k = true → k ∈ infos.map (·.name)) ∧
      (∀ i ∈ chosen, ∀ j ∈ rest, j.cap ≤ i.cap)) : c01 .each infos need limit p = true := by
  obtain ⟨chosen, rest, hperm, hlen, hc, hr, hk, _⟩ := h
  have hw : PlanWithin infos p := by
    refine ⟨hk, fun i hi => ?_⟩
    have hcap := hv.2 i hi
    rcases List.mem_append.mp (hperm.mem_iff.mpr hi) with hi' | hi'
    · have := hc i hi'; omega
    · have := hr i hi'; omega
  have hfl := filter_length_split hperm (fun i => p.get i.name == need)
    (fun i hi => by simp [(hc i hi).2.1]) (fun j hj => by simp [(hr j hj).2]; omega)
  simp only [c01, c01Common_of_within hw, Bool.true_and, Bool.and_eq_true, List.all_eq_true, Bool.or_eq_true,
    beq_iff_eq]
  refine ⟨fun i hi => ?_, ?_⟩
  · rcases List.mem_append.mp (hperm.mem_iff.mpr hi) with hi' | hi'
    · exact Or.inr (hc i hi').2.1
    · exact Or.inl (hr i hi').2
  · rw [← hlen]; exact_mod_cast hfl

theorem each_bal_of_split {infos : List Info} {need limit : Int} {p : Plan} (hneed : 1 ≤ need)
    (h : ∃ chosen rest : List Info, (chosen ++ rest).Perm infos ∧ (chosen.length : Int) = effLimitEach infos limit ∧
      (∀ i ∈ chosen, p.has i.name = true ∧ p.get i.name = need ∧ need ≤ i.cap) ∧
      (∀ j ∈ rest, p.has j.name = false ∧ p.get j.name = 0) ∧
      (∀ k, p.has k = true → k ∈ infos.map (·.name)) ∧
      (∀ i ∈ chosen, ∀ j ∈ rest, j.cap ≤ i.cap)) : EachBal infos p := by
  obtain ⟨chosen, rest, hperm, _, hc, hr, _, hord⟩ := h
  intro i hi j hj hpos hzero
  rcases List.mem_append.mp (hperm.mem_iff.mpr hi) with hic | hir
  · rcases List.mem_append.mp (hperm.mem_iff.mpr hj) with hjc | hjr
    · have := (hc j hjc).2.1; omega
    · exact hord i hic j hjr
  · have := (hr i hir).2; omega

/-- `each_cases` for any capacity-descending permutation of the candidates -/
theorem averageOn_cases_perm {infos sorted : List Info} (need limit : Int) (hp : sorted.Perm infos)
    (hs : sorted.Pairwise (fun a b => averageLess b a = false)) :
    (∀ p, averageOn sorted need limit = .ok p → feasible .each infos need limit = true) ∧
    (∀ e, averageOn sorted need limit = .err e →
      (e = errInsufficient ∨ e = errInsufficientCapacity) ∧ feasible .each infos need limit = false) ∧
    (∀ m, averageOn sorted need limit ≠ .panic m) ∧ averageOn sorted need limit ≠ .diverge := by
  rw [← feasible_perm .each hp]
  exact averageOn_cases _ need limit hs

/-- the refusal of EACH (which of the two errors included) is the same on every capacity-descending
    permutation of the same candidates -/
theorem averageOn_err_perm {s₁ s₂ : List Info} {need limit : Int} {e : String} (hp : s₁.Perm s₂)
    (h₁ : s₁.Pairwise (fun a b => averageLess b a = false)) (h₂ : s₂.Pairwise (fun a b => averageLess b a = false))
    (h : averageOn s₁ need limit = .err e) : averageOn s₂ need limit = .err e := by
  unfold averageOn at h ⊢
  simp only at h ⊢
  rw [← each_filter_search s₁ need h₁] at h
  rw [← each_filter_search s₂ need h₂, ← (hp.filter _).length_eq, ← hp.length_eq]
  generalize (if limit ≤ 0 then (s₁.length : Int) else limit) = L at h ⊢
  by_cases c1 : (s₁.length : Int) < L
  · simp only [if_pos c1] at h ⊢; exact h
  · simp only [if_neg c1] at h ⊢
    split at h
    · rename_i c2; simp only [if_pos c2]; exact h
    · rename_i c2
      simp only [if_neg c2]
      split at h
      · rename_i c3; simp only [if_pos c3]; exact h
      · cases h

/-! ### FILL -/

/-- `fill_plan` for any permutation of the candidates sorted by `fillLess` -/
theorem fillOn_plan {infos sorted : List Info} {need limit : Int} {p : Plan} {flag : Bool} (hv : Valid infos)
    (hp : sorted.Perm infos) (hs : sorted.Pairwise (fun a b => fillLess b a = false))
    (h : fillOn sorted need limit = .ok (p, flag)) :
    ∃ chosen rest : List Info, (chosen ++ rest).Perm infos ∧ (chosen.length : Int) = effLimit infos limit ∧
      (∀ i ∈ chosen, fillEligible need i = true ∧ p.has i.name = true ∧ p.get i.name = max (need - i.count) 0) ∧
      (∀ j ∈ rest, p.has j.name = false ∧ p.get j.name = 0) ∧
      (∀ k, p.has k = true → k ∈ infos.map (·.name)) ∧
      (∀ i ∈ chosen, ∀ j ∈ rest, fillEligible need j = true → j.count ≤ i.count) := by
  unfold fillOn at h
  simp only at h
  have hv' := hv.perm hp.symm
  have heff : effLimit infos limit = (if limit = 0 then (sorted.length : Int) else limit) := by
    simp [effLimit, hp.length_eq]
  generalize hL : (if limit = 0 then (sorted.length : Int) else limit) = L at h heff
  split at h
  · cases h
  · by_cases hL1 : 1 ≤ L
    · obtain ⟨pre, post, hsplit, hlen, hc, hs0, hpo, ho⟩ :=
        fillLoop_spec need _ L [] 0 p flag hL1 hv'.1 (fun _ _ => rfl) h
      refine ⟨pre.filter (fillEligible need), pre.filter (fun i => !fillEligible need i) ++ post, ?_, ?_, ?_, ?_, ?_, ?_⟩
      · rw [← List.append_assoc]
        refine List.Perm.trans ?_ (hsplit ▸ hp)
        exact List.Perm.append_right _ (List.filter_append_perm _ _)
      · rw [hlen, heff]
      · intro i hi
        obtain ⟨him, hie⟩ := List.mem_filter.mp hi
        exact ⟨hie, hc i him hie⟩
      · intro j hj
        rcases List.mem_append.mp hj with hj | hj
        · obtain ⟨hjm, hje⟩ := List.mem_filter.mp hj
          exact hs0 j hjm (by simpa using hje)
        · exact hpo j hj
      · intro k hk
        by_cases hm : k ∈ sorted.map (·.name)
        · exact (hp.map _).mem_iff.mp hm
        · have := (ho k hm).2; rw [this] at hk; simp [Plan.has] at hk
      · intro i hi j hj hje
        obtain ⟨him, _⟩ := List.mem_filter.mp hi
        rcases List.mem_append.mp hj with hj | hj
        · obtain ⟨_, hjn⟩ := List.mem_filter.mp hj
          rw [hje] at hjn; cases hjn
        · have hs' := hs
          rw [hsplit, List.pairwise_append] at hs'
          have := hs'.2.2 i him j hj
          simp only [fillLess, beq_iff_eq] at this
          split at this <;> simp at this <;> omega
    · exact absurd h (fillLoop_nonpos need _ L [] 0 (by omega) _)

theorem c01_fill_of_split {infos : List Info} {need limit : Int} {p : Plan} (hv : Valid infos)
    (h : ∃ chosen rest : List Info, (chosen ++ rest).Perm infos ∧ (chosen.length : Int) = effLimit infos limit ∧
      (∀ i ∈ chosen, fillEligible need i = true ∧ p.has i.name = true ∧ p.get i.name = max (need - i.count) 0) ∧
      (∀ j ∈ rest, p.has j.name = false ∧ p.get j.name = 0) ∧
      (∀ k, p.has k = true → k ∈ infos.map (·.name)) ∧
      (∀ i ∈ chosen, ∀ j ∈ rest, fillEligible need j = true → j.count ≤ i.count)) :
    c01 .fill infos need limit p = true := by
  obtain ⟨chosen, rest, hperm, hlen, hc, hr, hk, _⟩ := h
  have hw : PlanWithin infos p := by
    refine ⟨hk, fun i hi => ?_⟩
    have hcap := hv.2 i hi
    rcases List.mem_append.mp (hperm.mem_iff.mpr hi) with hi' | hi'
    · have := hc i hi'
      have he : i.cap ≥ need - i.count := by simpa [fillEligible] using this.1
      omega
    · have := hr i hi'; omega
  have hfl := filter_length_split hperm (fun i => p.has i.name)
    (fun i hi => (hc i hi).2.1) (fun j hj => (hr j hj).1)
  simp only [c01, c01Common_of_within hw, Bool.true_and, Bool.and_eq_true, List.all_eq_true, Bool.or_eq_true,
    Bool.not_eq_true', beq_iff_eq, decide_eq_true_eq]
  refine ⟨fun i hi => ?_, ?_⟩
  · rcases List.mem_append.mp (hperm.mem_iff.mpr hi) with hi' | hi'
    · have := hc i hi'
      exact Or.inr ⟨this.2.2, by rw [this.2.2]; omega⟩
    · exact Or.inl (hr i hi').1
  · rw [← hlen]; exact_mod_cast hfl

theorem fill_bal_of_split {infos : List Info} {need limit : Int} {p : Plan}
    (h : ∃ chosen rest : List Info, (chosen ++ rest).Perm infos ∧ (chosen.length : Int) = effLimit infos limit ∧
      (∀ i ∈ chosen, fillEligible need i = true ∧ p.has i.name = true ∧ p.get i.name = max (need - i.count) 0) ∧
      (∀ j ∈ rest, p.has j.name = false ∧ p.get j.name = 0) ∧
      (∀ k, p.has k = true → k ∈ infos.map (·.name)) ∧
      (∀ i ∈ chosen, ∀ j ∈ rest, fillEligible need j = true → j.count ≤ i.count)) : FillBal infos need p := by
  obtain ⟨chosen, rest, hperm, _, hc, hr, _, hord⟩ := h
  intro i hi j hj hhas hnot hel
  rcases List.mem_append.mp (hperm.mem_iff.mpr hi) with hic | hir
  · rcases List.mem_append.mp (hperm.mem_iff.mpr hj) with hjc | hjr
    · have := (hc j hjc).2.1
      rw [hnot] at this; cases this
    · exact hord i hic j hjr (by simpa [fillEligible] using hel)
  · have := (hr i hir).1
    rw [hhas] at this; cases this

/-- `fill_cases` for any ordering of the candidates (feasibility of FILL does not look at the order) -/
theorem fillOn_cases {infos sorted : List Info} (need limit : Int) (hp : sorted.Perm infos) :
    (∀ r, fillOn sorted need limit = .ok r → feasible .fill infos need limit = true) ∧
    (∀ e, fillOn sorted need limit = .err e → e = errInsufficient ∧ feasible .fill infos need limit = false) ∧
    (∀ m, fillOn sorted need limit ≠ .panic m) ∧ fillOn sorted need limit ≠ .diverge := by
  rw [← feasible_perm .fill hp, Bool.eq_false_iff, Ne, feasible_fill_iff]
  unfold fillOn
  simp only
  unfold effLimit
  generalize (if limit = 0 then (sorted.length : Int) else limit) = L
  by_cases h1 : (sorted.length : Int) < L
  · simp only [if_pos h1]
    exact ⟨fun _ => nofun, fun e h => (by cases h; exact ⟨rfl, by omega⟩),
      fun _ => nofun, nofun⟩
  · simp only [if_neg h1]
    obtain ⟨w1, w2, w3⟩ := fillLoop_weak need sorted L [] 0
    refine ⟨?_, ?_, w2, w3⟩
    · intro r h
      by_cases hL : 1 ≤ L
      · exact ⟨by omega, hL, (fillLoop_cases need sorted L [] 0 hL).1 r h⟩
      · exact absurd h (fillLoop_nonpos need sorted L [] 0 (by omega) r)
    · intro e h
      refine ⟨w1 e h, ?_⟩
      by_cases hL : 1 ≤ L
      · have := (fillLoop_cases need sorted L [] 0 hL).2 e h; omega
      · omega

/-! ### the insertion-sort instance answers an infeasible request with the same refusal -/

theorem drained_err_of_infeasible {infos : List Info} {need total limit : Int} (hv : Valid infos) (hneed : 1 ≤ need)
    (hf : feasible .drained infos need limit = false) : drained infos need total = .err errInsufficient := by
  cases h : drained infos need total with
  | ok p => have := drained_ok_feasible (limit := limit) hv hneed h; rw [hf] at this; cases this
  | err e => rw [drained_err_kind hneed h]
  | panic m => exact absurd h ((drained_no_crash hneed).1 m)
  | diverge => exact absurd h (drained_no_crash hneed).2

theorem fill_err_of_infeasible {infos : List Info} {need limit : Int}
    (hf : feasible .fill infos need limit = false) : fill infos need limit = .err errInsufficient := by
  obtain ⟨h1, h2, h3, h4⟩ := fill_cases infos need limit
  cases h : fill infos need limit with
  | ok r => have := h1 r h; rw [hf] at this; cases this
  | err e => rw [(h2 e h).1]
  | panic m => exact absurd h (h3 m)
  | diverge => exact absurd h h4

end Eru.Strategy
