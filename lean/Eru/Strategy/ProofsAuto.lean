import Eru.Strategy.ProofsBase
/- AUTO (communism.go): loop invariant over the heap's multiset; no heap-order facts are needed for
   the count/capacity/limit/feasibility results (C01, C02). -/
namespace Eru.Strategy
open Eru

/-- the most instances AUTO may add to node `i`: its capacity, cut by the per-node limit -/
def allowance (limit : Int) (i : Info) : Int :=
  if limit > 0 then min i.cap (max (limit - i.count) 0) else i.cap

theorem name_inj {infos : List Info} (hnd : (infos.map (·.name)).Nodup) {i j : Info}
    (hi : i ∈ infos) (hj : j ∈ infos) (h : i.name = j.name) : i = j := by
  induction infos with
  | nil => cases hi
  | cons x xs ih =>
    simp only [List.map_cons, List.nodup_cons] at hnd
    rcases List.mem_cons.mp hi with rfl | hi' <;> rcases List.mem_cons.mp hj with rfl | hj'
    · rfl
    · exact absurd (h ▸ List.mem_map_of_mem (f := (·.name)) hj') hnd.1
    · exact absurd (h ▸ List.mem_map_of_mem (f := (·.name)) hi') hnd.1
    · exact ih hnd.2 hi' hj'

structure CommInv (infos : List Info) (limit : Int) (h : List Info) (d : Plan) : Prop where
  tracked : ∀ e ∈ h, ∃ i ∈ infos, e.name = i.name ∧ e.cap = i.cap - d.get i.name ∧
      e.count = i.count + d.get i.name ∧ 1 ≤ e.cap ∧ (0 < limit → e.count < limit)
  nodup : (h.map (·.name)).Nodup
  within : ∀ i ∈ infos, 0 ≤ d.get i.name ∧ d.get i.name ≤ allowance limit i
  keys : ∀ k, d.has k = true → k ∈ infos.map (·.name)
  exhausted : ∀ i ∈ infos, i.name ∉ h.map (·.name) → d.get i.name = allowance limit i

theorem CommInv.perm {infos limit h h' d} (hp : List.Perm h h') (inv : CommInv infos limit h d) :
    CommInv infos limit h' d :=
  { tracked := fun e he => inv.tracked e (hp.mem_iff.mpr he)
    nodup := (hp.map _).nodup_iff.mp inv.nodup
    within := inv.within
    keys := inv.keys
    exhausted := fun i hi hn => inv.exhausted i hi (fun hm => hn ((hp.map _).mem_iff.mp hm)) }

theorem commInv_init (infos : List Info) (limit : Int) (hv : Valid infos) :
    CommInv infos limit (infos.filter (commKeep limit)) [] := by
  refine ⟨?_, ?_, ?_, ?_, ?_⟩
  · intro e he
    obtain ⟨hm, hk⟩ := List.mem_filter.mp he
    have hc := hv.2 e hm
    refine ⟨e, hm, rfl, by simp, by simp, hc.1, ?_⟩
    intro hl
    simp only [commKeep, Bool.not_eq_true', Bool.or_eq_false_iff, Bool.and_eq_false_iff] at hk
    rcases hk.2 with h | h
    · simp at h; omega
    · simpa using h
  · exact (List.filter_sublist.map _).nodup hv.1
  · intro i hi
    have hc := hv.2 i hi
    simp only [Plan.get_nil, allowance]
    refine ⟨Int.le_refl _, ?_⟩
    split <;> omega
  · intro k hk; simp [Plan.has] at hk
  · intro i hi hn
    have hc := hv.2 i hi
    have hk : commKeep limit i = false := by
      cases hkk : commKeep limit i
      · rfl
      · exact absurd (List.mem_map_of_mem (f := (·.name)) (List.mem_filter.mpr ⟨hi, hkk⟩)) hn
    simp only [commKeep, Bool.not_eq_false', Bool.or_eq_true, beq_iff_eq, Bool.and_eq_true,
      decide_eq_true_eq] at hk
    simp only [Plan.get_nil, allowance]
    rcases hk with h | ⟨h1, h2⟩
    · omega
    · simp only [h1, if_true]; omega

/-- one iteration: pop `info`, plan one more instance on it, push it back unless exhausted -/
theorem commInv_step (infos : List Info) (limit : Int) (hv : Valid infos) (info : Info) (h' : List Info) (d : Plan)
    (inv : CommInv infos limit (info :: h') d) :
    let d' := d.add info.name 1
    let info' : Info := { info with count := info.count + 1, cap := info.cap - 1 }
    sumBy infos (fun i => d'.get i.name) = sumBy infos (fun i => d.get i.name) + 1 ∧
    CommInv infos limit (if commKeep limit info' then info' :: h' else h') d' := by
  intro d' info'
  obtain ⟨i0, hi0, hname, hcap, hcount, hcap1, hlim⟩ := inv.tracked info List.mem_cons_self
  have hnd := inv.nodup
  simp only [List.map_cons, List.nodup_cons] at hnd
  have hget : ∀ i ∈ infos, d'.get i.name = d.get i.name + (if i0.name = i.name then 1 else 0) := by
    intro i _
    simp only [d', Plan.get_add, hname]
    split
    · rename_i e; rw [e]
    · omega
  have hc0 := hv.2 i0 hi0
  have hw0 := inv.within i0 hi0
  have hallow : d.get i0.name + 1 ≤ allowance limit i0 := by
    simp only [allowance]
    split
    · rename_i hl; have := hlim hl; omega
    · omega
  refine ⟨?_, ?_⟩
  · rw [sumBy_congr hget, sumBy_add, sumBy_indicator hv.1 hi0]
  · have hother : ∀ i ∈ infos, i.name ≠ info.name → d'.get i.name = d.get i.name := by
      intro i hi hne
      rw [hget i hi]
      have : ¬ i0.name = i.name := fun e => hne (by rw [← e, hname])
      simp [this]
    have hsame : ∀ i ∈ infos, i.name = info.name → i = i0 := fun i hi e =>
      name_inj hv.1 hi hi0 (by rw [e, hname])
    have htr' : ∀ e ∈ h', ∃ i ∈ infos, e.name = i.name ∧ e.cap = i.cap - d'.get i.name ∧
        e.count = i.count + d'.get i.name ∧ 1 ≤ e.cap ∧ (0 < limit → e.count < limit) := by
      intro e he
      obtain ⟨i, hi, hn, hc, hcn, h1, hl⟩ := inv.tracked e (List.mem_cons_of_mem _ he)
      have hne : i.name ≠ info.name := by
        intro e'; exact hnd.1 (by rw [← e', ← hn]; exact List.mem_map_of_mem (f := (·.name)) he)
      exact ⟨i, hi, hn, by rw [hother i hi hne]; exact hc, by rw [hother i hi hne]; exact hcn, h1, hl⟩
    have hwithin' : ∀ i ∈ infos, 0 ≤ d'.get i.name ∧ d'.get i.name ≤ allowance limit i := by
      intro i hi
      by_cases hne : i.name = info.name
      · have := hsame i hi hne; subst this
        rw [hget i hi]; simp only [if_true]; omega
      · rw [hother i hi hne]; exact inv.within i hi
    have hkeys' : ∀ k, d'.has k = true → k ∈ infos.map (·.name) := by
      intro k hk
      simp only [d', Plan.has_add, Bool.or_eq_true, decide_eq_true_eq] at hk
      rcases hk with rfl | hk
      · rw [hname]; exact List.mem_map_of_mem (f := (·.name)) hi0
      · exact inv.keys k hk
    have hd0 : d'.get i0.name = d.get i0.name + 1 := by rw [hget i0 hi0]; simp
    split
    · rename_i hkeep
      refine ⟨?_, ?_, hwithin', hkeys', ?_⟩
      · intro e he
        rcases List.mem_cons.mp he with rfl | he'
        · simp only [commKeep, Bool.not_eq_true', Bool.or_eq_false_iff, Bool.and_eq_false_iff,
            beq_eq_false_iff_ne, ne_eq, decide_eq_false_iff_not, Int.not_le, Int.not_lt, info'] at hkeep
          refine ⟨i0, hi0, hname, ?_, ?_, ?_, ?_⟩
          · simp only [info']; rw [hd0]; omega
          · simp only [info']; rw [hd0]; omega
          · simp only [info']; omega
          · intro hl
            simp only [info']
            rcases hkeep.2 with h | h
            · omega
            · exact h
        · exact htr' e he'
      · simp only [List.map_cons, List.nodup_cons]; exact hnd
      · intro i hi hn
        simp only [List.map_cons, List.mem_cons, not_or, info'] at hn
        have hne : i.name ≠ info.name := hn.1
        rw [hother i hi hne]
        apply inv.exhausted i hi
        simp only [List.map_cons, List.mem_cons, not_or]
        exact ⟨hne, hn.2⟩
    · rename_i hkeep
      refine ⟨htr', hnd.2, hwithin', hkeys', ?_⟩
      intro i hi hn
      by_cases hne : i.name = info.name
      · have := hsame i hi hne; subst this
        rw [hd0]
        have hk0 : commKeep limit info' = false := Bool.eq_false_iff.mpr hkeep
        simp only [commKeep, Bool.not_eq_false', Bool.or_eq_true, beq_iff_eq,
          Bool.and_eq_true, decide_eq_true_eq, info'] at hk0
        have hk : info.cap - 1 = 0 ∨ (limit > 0 ∧ info.count + 1 ≥ limit) := hk0
        simp only [allowance]
        rcases hk with h | ⟨h1, h2⟩
        · split
          · rename_i hl; have := hlim hl; omega
          · omega
        · have := hlim h1
          simp only [h1, if_true]; omega
      · rw [hother i hi hne]
        apply inv.exhausted i hi
        simp only [List.map_cons, List.mem_cons, not_or]
        exact ⟨hne, hn⟩

theorem commStep_perm (limit : Int) (h : Array Info) (info : Info) :
    let info' : Info := { info with count := info.count + 1, cap := info.cap - 1 }
    (commStep limit h info).toList.Perm (if commKeep limit info' then info' :: h.toList else h.toList) := by
  intro info'
  unfold commStep
  simp only
  split
  · exact GoHeap.push_perm ..
  · exact GoHeap.pushDeclined_perm ..

/-- the loop: on success the plan is within every allowance and places exactly `need`;
    on refusal the allowances cannot accommodate `need` -/
theorem commLoop_spec (infos : List Info) (limit : Int) (hv : Valid infos) (need : Int) :
    ∀ (n : Nat) (h : Array Info) (d : Plan), CommInv infos limit h.toList d →
      sumBy infos (fun i => d.get i.name) + n = need →
      (∀ p, commLoop limit n h d = .ok p →
        sumBy infos (fun i => p.get i.name) = need ∧
        (∀ i ∈ infos, 0 ≤ p.get i.name ∧ p.get i.name ≤ allowance limit i) ∧
        (∀ k, p.has k = true → k ∈ infos.map (·.name))) ∧
      (∀ e, commLoop limit n h d = .err e → sumBy infos (allowance limit) < need) ∧
      (∀ m, commLoop limit n h d ≠ .panic m) ∧ commLoop limit n h d ≠ .diverge := by
  intro n
  induction n with
  | zero =>
    intro h d inv hsum
    simp only [commLoop]
    refine ⟨?_, ?_, ?_, ?_⟩
    · intro p hp; cases hp
      exact ⟨by simpa using hsum, inv.within, inv.keys⟩
    · intro e he; cases he
    · intro m hm; cases hm
    · intro hm; cases hm
  | succ n ih =>
    intro h d inv hsum
    unfold commLoop
    cases hpop : GoHeap.pop commLess h with
    | none =>
      have hsz := (GoHeap.pop_none commLess h).mp hpop
      have hnil : h.toList = [] := by
        have : h = #[] := Array.eq_empty_of_size_eq_zero hsz
        simp [this]
      simp only
      refine ⟨fun p hp => (by cases hp), ?_, fun m hm => (by cases hm), fun hm => (by cases hm)⟩
      intro e _
      have hex : ∀ i ∈ infos, d.get i.name = allowance limit i := fun i hi =>
        inv.exhausted i hi (by simp [hnil])
      rw [← sumBy_congr hex]; omega
    | some r =>
      obtain ⟨info, h'⟩ := r
      have hperm := GoHeap.pop_perm commLess h info h' hpop
      have inv' := inv.perm hperm
      obtain ⟨hs, hinv⟩ := commInv_step infos limit hv info h'.toList d inv'
      simp only
      split
      · rename_i hn0
        refine ⟨?_, fun e he => (by cases he), fun m hm => (by cases hm), fun hm => (by cases hm)⟩
        intro p hp; cases hp
        exact ⟨by rw [hs]; omega, hinv.within, hinv.keys⟩
      · exact ih _ _ (hinv.perm (commStep_perm limit h' info).symm) (by rw [hs]; omega)

end Eru.Strategy
