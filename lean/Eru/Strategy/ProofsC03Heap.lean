import Eru.Strategy.ProofsC01Bridge
import Eru.Basic.GoHeapProofs
/- C03 for the heap-based strategies (AUTO, GLOBAL): the multiset invariants of ProofsAuto/ProofsGlobal
   extended with the heap shape (`IsHeap`, so the popped element is a minimum) and "balanced so far". -/
namespace Eru.Strategy
open Eru Eru.GoSort

/-! ### AUTO -/

/-- balanced so far: a node that already received an instance is at most one above every node still in the heap -/
def CommEven (infos : List Info) (h : List Info) (d : Plan) : Prop :=
  ∀ i ∈ infos, 0 < d.get i.name → ∀ e ∈ h, i.count + d.get i.name ≤ e.count + 1

/-- the AUTO clause of `c03` as a proposition -/
def AutoBal (infos : List Info) (limit : Int) (p : Plan) : Prop :=
  ∀ i ∈ infos, ∀ j ∈ infos, 0 < p.get i.name → canTake infos limit p j = true →
    i.count + p.get i.name ≤ j.count + p.get j.name + 1

theorem CommEven.mono {infos h h' d} (hsub : ∀ e ∈ h', e ∈ h) (ev : CommEven infos h d) : CommEven infos h' d :=
  fun i hi hpos e he => ev i hi hpos e (hsub e he)

theorem lt_allowance_of_canTake {infos : List Info} {limit : Int} {p : Plan} {j : Info}
    (h : canTake infos limit p j = true) : p.get j.name < allowance limit j := by
  simp only [canTake, Bool.and_eq_true, Bool.or_eq_true, decide_eq_true_eq] at h
  simp only [allowance]
  split <;> omega

/-- a node that can still take an instance is still in the heap, where its count is tracked -/
theorem autoBal_of_inv {infos : List Info} {limit : Int} {h : List Info} {d : Plan} (hv : Valid infos)
    (inv : CommInv infos limit h d) (ev : CommEven infos h d) : AutoBal infos limit d := by
  intro i hi j hj hpos hct
  have hlt := lt_allowance_of_canTake hct
  have hin : j.name ∈ h.map (·.name) := by
    apply Classical.byContradiction
    intro hn
    have := inv.exhausted j hj hn
    omega
  obtain ⟨e, he, hen⟩ := List.mem_map.mp hin
  obtain ⟨i', hi', hn', _, hcnt, _, _⟩ := inv.tracked e he
  have hij : i' = j := name_inj hv.1 hi' hj (by rw [← hn']; exact hen)
  subst hij
  have := ev i hi hpos e he
  omega

/-- popping a minimum and planning one more instance on it keeps the plan balanced -/
theorem commEven_step {infos : List Info} {limit : Int} (hv : Valid infos) (info : Info) (h' : List Info) (d : Plan)
    (inv : CommInv infos limit (info :: h') d) (ev : CommEven infos (info :: h') d)
    (hmin : ∀ y ∈ info :: h', commLess y info = false) :
    CommEven infos ({ info with count := info.count + 1, cap := info.cap - 1 } :: h') (d.add info.name 1) := by
  obtain ⟨i0, hi0, hname, _, hcount, _, _⟩ := inv.tracked info List.mem_cons_self
  have hminc : ∀ y ∈ info :: h', info.count ≤ y.count := by
    intro y hy
    have := hmin y hy
    simp only [commLess, Bool.or_eq_false_iff, decide_eq_false_iff_not] at this
    omega
  intro i hi hpos e he
  rw [Plan.get_add] at hpos ⊢
  by_cases hn : info.name = i.name
  · have hii : i = i0 := name_inj hv.1 hi hi0 (by rw [← hn, hname])
    subst hii
    rw [if_pos hn, hn]
    rcases List.mem_cons.mp he with rfl | he'
    · simp only; omega
    · have := hminc e (List.mem_cons_of_mem _ he'); omega
  · rw [if_neg hn] at hpos ⊢
    rcases List.mem_cons.mp he with rfl | he'
    · have := ev i hi hpos info List.mem_cons_self
      simp only; omega
    · exact ev i hi hpos e (List.mem_cons_of_mem _ he')

theorem commStep_isHeap (limit : Int) (h : Array Info) (info : Info) (hh : GoHeap.IsHeap commLess h) :
    GoHeap.IsHeap commLess (commStep limit h info) := by
  unfold commStep
  simp only
  split
  · exact GoHeap.push_isHeap commLess_sw _ _ hh
  · exact GoHeap.pushDeclined_isHeap commLess_sw _ hh

theorem commLoop_even (infos : List Info) (limit : Int) (hv : Valid infos) :
    ∀ (n : Nat) (h : Array Info) (d : Plan), CommInv infos limit h.toList d → GoHeap.IsHeap commLess h →
      CommEven infos h.toList d → ∀ p, commLoop limit n h d = .ok p → AutoBal infos limit p := by
  intro n
  induction n with
  | zero =>
    intro h d inv _ ev p hp
    simp only [commLoop] at hp
    cases hp
    exact autoBal_of_inv hv inv ev
  | succ n ih =>
    intro h d inv hh ev p hp
    unfold commLoop at hp
    cases hpop : GoHeap.pop commLess h with
    | none => rw [hpop] at hp; cases hp
    | some r =>
      obtain ⟨info, h'⟩ := r
      rw [hpop] at hp
      simp only at hp
      have hperm := GoHeap.pop_perm commLess h info h' hpop
      obtain ⟨hh', _, hmin⟩ := GoHeap.pop_isHeap commLess_sw h info h' hh hpop
      have inv' := inv.perm hperm
      have ev' : CommEven infos (info :: h'.toList) d := ev.mono (fun e he => hperm.mem_iff.mpr he)
      have hmin' : ∀ y ∈ info :: h'.toList, commLess y info = false :=
        fun y hy => hmin y (hperm.mem_iff.mpr hy)
      obtain ⟨_, hinv⟩ := commInv_step infos limit hv info h'.toList d inv'
      have hev := commEven_step hv info h'.toList d inv' ev' hmin'
      have hev2 : CommEven infos
          (if commKeep limit { info with count := info.count + 1, cap := info.cap - 1 }
            then { info with count := info.count + 1, cap := info.cap - 1 } :: h'.toList else h'.toList)
          (d.add info.name 1) := by
        split
        · exact hev
        · exact hev.mono (fun e he => List.mem_cons_of_mem _ he)
      split at hp
      · cases hp
        exact autoBal_of_inv hv hinv hev2
      · exact ih _ _ (hinv.perm (commStep_perm limit h' info).symm) (commStep_isHeap limit h' info hh')
          (hev2.mono (fun e he => (commStep_perm limit h' info).mem_iff.mp he)) p hp

theorem auto_bal {infos : List Info} {need total limit : Int} {p : Plan} (hv : Valid infos)
    (h : communism infos need total limit = .ok p) : AutoBal infos limit p := by
  unfold communism at h
  split at h
  · cases h
  · have inv0 : CommInv infos limit (GoHeap.init commLess (infos.filter (commKeep limit)).toArray).toList [] :=
      (commInv_init infos limit hv).perm (by simpa using (GoHeap.init_perm commLess _).symm)
    refine commLoop_even infos limit hv need.toNat _ [] inv0 (GoHeap.init_isHeap commLess_sw _) ?_ p h
    intro i _ hpos
    simp at hpos

/-! ### GLOBAL -/

/-- balanced so far: a node that already received an instance is not above any node still in the heap
    after that node would take one more -/
def GlobEven (infos : List Info) (h : List Info) (d : Plan) : Prop :=
  ∀ i ∈ infos, 0 < d.get i.name → ∀ e ∈ h, i.usage + i.rate * d.get i.name ≤ e.usage + e.rate

/-- the GLOBAL clause of `c03` as a proposition -/
def GlobalBal (infos : List Info) (p : Plan) : Prop :=
  ∀ i ∈ infos, ∀ j ∈ infos, 0 < p.get i.name → p.get j.name < j.cap →
    i.usage + i.rate * p.get i.name ≤ j.usage + j.rate * p.get j.name + j.rate

theorem GlobEven.mono {infos h h' d} (hsub : ∀ e ∈ h', e ∈ h) (ev : GlobEven infos h d) : GlobEven infos h' d :=
  fun i hi hpos e he => ev i hi hpos e (hsub e he)

theorem globalBal_of_inv {infos : List Info} {h : List Info} {d : Plan} (hv : Valid infos)
    (inv : GlobInv infos h d) (ev : GlobEven infos h d) : GlobalBal infos d := by
  intro i hi j hj hpos hlt
  have hin : j.name ∈ h.map (·.name) := by
    apply Classical.byContradiction
    intro hn
    have := inv.exhausted j hj hn
    omega
  obtain ⟨e, he, hen⟩ := List.mem_map.mp hin
  obtain ⟨i', hi', hn', _, _, hrate, husage⟩ := inv.tracked e he
  have hij : i' = j := name_inj hv.1 hi' hj (by rw [← hn']; exact hen)
  subst hij
  have := ev i hi hpos e he
  rw [hrate, husage] at this
  exact this

theorem globEven_step {infos : List Info} (hv : Valid infos) (hr : ∀ i ∈ infos, 0 ≤ i.rate)
    (info : Info) (h' : List Info) (d : Plan)
    (inv : GlobInv infos (info :: h') d) (ev : GlobEven infos (info :: h') d)
    (hmin : ∀ y ∈ info :: h', globalLess y info = false) :
    GlobEven infos ({ info with usage := info.usage + info.rate, cap := info.cap - 1 } :: h') (d.add info.name 1) := by
  obtain ⟨i0, hi0, hname, _, _, hrate, husage⟩ := inv.tracked info List.mem_cons_self
  have hr0 := hr i0 hi0
  have hminc : ∀ y ∈ info :: h', info.usage + info.rate ≤ y.usage + y.rate := by
    intro y hy
    have := hmin y hy
    simp only [globalLess, decide_eq_false_iff_not] at this
    omega
  intro i hi hpos e he
  rw [Plan.get_add] at hpos ⊢
  by_cases hn : info.name = i.name
  · have hii : i = i0 := name_inj hv.1 hi hi0 (by rw [← hn, hname])
    subst hii
    rw [if_pos hn, hn, Int.mul_add, Int.mul_one]
    rcases List.mem_cons.mp he with rfl | he'
    · simp only; omega
    · have := hminc e (List.mem_cons_of_mem _ he'); omega
  · rw [if_neg hn] at hpos ⊢
    rcases List.mem_cons.mp he with rfl | he'
    · have := ev i hi hpos info List.mem_cons_self
      simp only; omega
    · exact ev i hi hpos e (List.mem_cons_of_mem _ he')

theorem globalStep_isHeap (h : Array Info) (info : Info) (hh : GoHeap.IsHeap globalLess h) :
    GoHeap.IsHeap globalLess (globalStep h info) := by
  unfold globalStep
  simp only
  split
  · exact GoHeap.push_isHeap globalLess_sw _ _ hh
  · exact hh

theorem globalLoop_even (infos : List Info) (hv : Valid infos) (hr : ∀ i ∈ infos, 0 ≤ i.rate) :
    ∀ (n : Nat) (h : Array Info) (d : Plan), GlobInv infos h.toList d → GoHeap.IsHeap globalLess h →
      GlobEven infos h.toList d → ∀ p, globalLoop n h d = .ok p → GlobalBal infos p := by
  intro n
  induction n with
  | zero =>
    intro h d inv _ ev p hp
    simp only [globalLoop] at hp
    cases hp
    exact globalBal_of_inv hv inv ev
  | succ n ih =>
    intro h d inv hh ev p hp
    unfold globalLoop at hp
    cases hpop : GoHeap.pop globalLess h with
    | none => rw [hpop] at hp; cases hp
    | some r =>
      obtain ⟨info, h'⟩ := r
      rw [hpop] at hp
      simp only at hp
      have hperm := GoHeap.pop_perm globalLess h info h' hpop
      obtain ⟨hh', _, hmin⟩ := GoHeap.pop_isHeap globalLess_sw h info h' hh hpop
      have inv' := inv.perm hperm
      have ev' : GlobEven infos (info :: h'.toList) d := ev.mono (fun e he => hperm.mem_iff.mpr he)
      have hmin' : ∀ y ∈ info :: h'.toList, globalLess y info = false :=
        fun y hy => hmin y (hperm.mem_iff.mpr hy)
      obtain ⟨_, hinv⟩ := globInv_step infos hv info h'.toList d inv'
      have hev := globEven_step hv hr info h'.toList d inv' ev' hmin'
      have hev2 : GlobEven infos
          (if ({ info with usage := info.usage + info.rate, cap := info.cap - 1 } : Info).cap > 0
            then { info with usage := info.usage + info.rate, cap := info.cap - 1 } :: h'.toList else h'.toList)
          (d.add info.name 1) := by
        split
        · exact hev
        · exact hev.mono (fun e he => List.mem_cons_of_mem _ he)
      exact ih _ _ (hinv.perm (globalStep_perm h' info).symm) (globalStep_isHeap h' info hh')
        (hev2.mono (fun e he => (globalStep_perm h' info).mem_iff.mp he)) p hp

theorem global_bal {infos : List Info} {need total : Int} {p : Plan} (hv : Valid infos)
    (hr : ∀ i ∈ infos, 0 ≤ i.rate) (h : global infos need total = .ok p) : GlobalBal infos p := by
  unfold global at h
  split at h
  · cases h
  · have inv0 : GlobInv infos (GoHeap.init globalLess (infos.filter (fun i => i.cap > 0)).toArray).toList [] :=
      (globInv_init infos hv).perm (by simpa using (GoHeap.init_perm globalLess _).symm)
    refine globalLoop_even infos hv hr need.toNat _ [] inv0 (GoHeap.init_isHeap globalLess_sw _) ?_ p h
    intro i _ hpos
    simp at hpos

end Eru.Strategy
