import Eru.Strategy.ProofsBase
import Eru.Basic.GoSortProofs
/- EACH (average.go): the first `limit` nodes of the capacity-descending order, each with `need`. -/
namespace Eru.Strategy
open Eru

theorem foldl_add_spec (L : List Info) (v : Int) (d0 : Plan) (k : String)
    (hnd : (L.map (·.name)).Nodup) :
    (L.foldl (fun d i => d.add i.name v) d0).get k = d0.get k + (if k ∈ L.map (·.name) then v else 0) ∧
    (L.foldl (fun d i => d.add i.name v) d0).has k = (d0.has k || decide (k ∈ L.map (·.name))) := by
  induction L generalizing d0 with
  | nil => simp
  | cons x xs ih =>
    simp only [List.map_cons, List.nodup_cons] at hnd
    simp only [List.foldl_cons, List.map_cons, List.mem_cons]
    obtain ⟨h1, h2⟩ := ih (d0.add x.name v) hnd.2
    rw [h1, h2]
    by_cases hk : x.name = k
    · subst hk
      simp [Plan.get_add, Plan.has_add, hnd.1]
    · have hk' : ¬ k = x.name := fun e => hk e.symm
      simp [Plan.get_add, Plan.has_add, hk, hk']

theorem averageOn_spec (sorted : List Info) (need limit : Int) (p : Plan)
    (hv : Valid sorted) (hs : sorted.Pairwise (fun a b => averageLess b a = false))
    (h : averageOn sorted need limit = .ok p) :
    ∃ l : Nat, (l : Int) = effLimitEach sorted limit ∧ l ≤ sorted.length ∧
      (∀ i ∈ sorted.take l, p.has i.name = true ∧ p.get i.name = need ∧ need ≤ i.cap) ∧
      (∀ j ∈ sorted.drop l, p.has j.name = false ∧ p.get j.name = 0) ∧
      (∀ k, p.has k = true → k ∈ sorted.map (·.name)) := by
  unfold averageOn at h
  simp only at h
  have heff : effLimitEach sorted limit = (if limit ≤ 0 then (sorted.length : Int) else limit) := rfl
  generalize hL : (if limit ≤ 0 then (sorted.length : Int) else limit) = L at h heff
  have hl0 : ¬ L < 0 := by
    rw [← hL]; split <;> omega
  split at h
  · cases h
  · rename_i hnl
    split at h
    · cases h
    · rename_i hp0
      split at h
      · cases h
      · rename_i hpl
        cases h
        have hLn : L.toNat ≤ sorted.length := by omega
        have hnd_take : ((sorted.take L.toNat).map (·.name)).Nodup :=
          (List.take_sublist _ _).map _ |>.nodup hv.1
        -- monotonicity of the search predicate from sortedness
        have hmono : ∀ i j, i ≤ j → j < sorted.length →
            decide ((sorted.getD i default).cap < need) = true → decide ((sorted.getD j default).cap < need) = true := by
          intro i j hij hj hi
          rcases Nat.lt_or_eq_of_le hij with hlt | rfl
          · have hi' : i < sorted.length := by omega
            have := List.pairwise_iff_getElem.mp hs i j hi' hj hlt
            simp only [averageLess, decide_eq_false_iff_not, Int.not_lt, gt_iff_lt] at this
            simp only [List.getD_eq_getElem?_getD, List.getElem?_eq_getElem hi', List.getElem?_eq_getElem hj,
              Option.getD_some, decide_eq_true_eq] at hi ⊢
            omega
          · exact hi
        have hsp := (GoSort.search_spec sorted.length _ hmono).1
        refine ⟨L.toNat, by rw [heff]; omega, hLn, ?_, ?_, ?_⟩
        · intro i hi
          have hmem : i.name ∈ (sorted.take L.toNat).map (·.name) := List.mem_map_of_mem (f := (·.name)) hi
          obtain ⟨h1, h2⟩ := foldl_add_spec (sorted.take L.toNat) need [] i.name hnd_take
          refine ⟨by rw [h2]; simp only [Plan.has, Bool.false_or, decide_eq_true_eq]; exact hmem, by rw [h1, if_pos hmem]; simp, ?_⟩
          obtain ⟨idx, hidx, rfl⟩ := List.getElem_of_mem hi
          simp only [List.length_take] at hidx
          have hlt : idx < GoSort.search sorted.length (fun i => decide ((sorted.getD i default).cap < need)) := by omega
          have := hsp idx hlt
          have hidx' : idx < sorted.length := by omega
          simp only [List.getD_eq_getElem?_getD, List.getElem?_eq_getElem hidx', Option.getD_some,
            decide_eq_false_iff_not, Int.not_lt] at this
          simpa [List.getElem_take] using this
        · intro j hj
          have hnm : j.name ∉ (sorted.take L.toNat).map (·.name) := by
            intro hm
            have hnd := hv.1
            rw [← List.take_append_drop L.toNat sorted, List.map_append, List.nodup_append] at hnd
            exact hnd.2.2 _ hm _ (List.mem_map_of_mem (f := (·.name)) hj) rfl
          obtain ⟨h1, h2⟩ := foldl_add_spec (sorted.take L.toNat) need [] j.name hnd_take
          exact ⟨by rw [h2]; simp only [Plan.has, Bool.false_or, decide_eq_false_iff_not]; exact hnm, by rw [h1, if_neg hnm]; simp⟩
        · intro k hk
          obtain ⟨_, h2⟩ := foldl_add_spec (sorted.take L.toNat) need [] k hnd_take
          rw [h2] at hk
          simp only [Plan.has, Bool.false_or, decide_eq_true_eq] at hk
          obtain ⟨x, hx, rfl⟩ := List.mem_map.mp hk
          exact List.mem_map_of_mem (f := (·.name)) (List.mem_of_mem_take hx)

end Eru.Strategy
