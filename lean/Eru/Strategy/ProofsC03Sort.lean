import Eru.Strategy.ProofsC03Heap
/- C03 for the sort-based strategies (DRAINED, EACH, FILL) and the bridge from the propositional
   balancing results to the decidable predicate `c03` of Spec.lean. -/
namespace Eru.Strategy
open Eru Eru.GoSort

/-! ### DRAINED -/

/-- the loop stops at some element `x`: everything before it is filled completely, everything after it gets nothing -/
theorem drainedLoop_order (rest : List Info) (need : Int) (d p : Plan)
    (hneed : 1 ≤ need) (hcap : ∀ i ∈ rest, 1 ≤ i.cap)
    (hnd : (rest.map (·.name)).Nodup) (hfresh : ∀ i ∈ rest, d.has i.name = false)
    (h : drainedLoop rest need d = .ok p) :
    ∃ pre x post, rest = pre ++ x :: post ∧ (∀ i ∈ pre, p.get i.name = i.cap) ∧
      (∀ j ∈ post, p.get j.name = 0) := by
  induction rest generalizing need d with
  | nil => simp [drainedLoop] at h
  | cons info rest ih =>
    simp only [List.map_cons, List.nodup_cons] at hnd
    have hrest_ne : ∀ i ∈ rest, info.name ≠ i.name := by
      intro i hi e; exact hnd.1 (e ▸ List.mem_map_of_mem (f := (·.name)) hi)
    have hd_rest : ∀ i ∈ rest, d.get i.name = 0 := fun i hi =>
      Plan.get_of_not_has _ _ (hfresh i (List.mem_cons_of_mem _ hi))
    have stop : ∀ v : Int, ∃ pre x post, info :: rest = pre ++ x :: post ∧
        (∀ i ∈ pre, (d.set info.name v).get i.name = i.cap) ∧
        (∀ j ∈ post, (d.set info.name v).get j.name = 0) := by
      intro v
      refine ⟨[], info, rest, rfl, fun i hi => (by cases hi), fun j hj => ?_⟩
      simp [Plan.get_set, hrest_ne j hj, hd_rest j hj]
    unfold drainedLoop at h
    split at h
    · cases h; exact stop need
    · simp only at h
      split at h
      · cases h; exact stop info.cap
      · have hfresh' : ∀ i ∈ rest, (d.set info.name info.cap).has i.name = false := by
          intro i hi
          have := hfresh i (List.mem_cons_of_mem _ hi)
          simp [Plan.has_set, hrest_ne i hi, this]
        have hcap' : ∀ i ∈ rest, 1 ≤ i.cap := fun i hi => hcap i (List.mem_cons_of_mem _ hi)
        obtain ⟨pre, x, post, hsplit, hpre, hpost⟩ :=
          ih (need - info.cap) (d.set info.name info.cap) (by omega) hcap' hnd.2 hfresh' h
        obtain ⟨_, _, ho⟩ := drainedLoop_spec rest (need - info.cap) (d.set info.name info.cap) p (by omega)
          hcap' hnd.2 hfresh' h
        have hinfo := (ho info.name hnd.1).1
        simp only [Plan.get_set, if_true] at hinfo
        refine ⟨info :: pre, x, post, by simp [hsplit], ?_, hpost⟩
        intro i hi
        rcases List.mem_cons.mp hi with rfl | hi'
        · exact hinfo
        · exact hpre i hi'

/-- the DRAINED clause of `c03` as a proposition -/
def DrainedBal (infos : List Info) (p : Plan) : Prop :=
  ∀ i ∈ infos, ∀ j ∈ infos, i.cap < j.cap → 0 < p.get j.name → p.get i.name = i.cap

theorem drained_bal {infos : List Info} {need total : Int} {p : Plan} (hv : Valid infos) (hneed : 1 ≤ need)
    (h : drained infos need total = .ok p) : DrainedBal infos p := by
  unfold drained drainedOn at h
  split at h
  · cases h
  · have hperm := isort_perm drainedLess infos
    have hv' := hv.perm hperm.symm
    have hsorted := isort_sorted drainedLess_sw infos
    obtain ⟨pre, x, post, hsplit, hpre, hpost⟩ :=
      drainedLoop_order _ need [] p hneed (fun i hi => (hv'.2 i hi).1) hv'.1 (fun _ _ => rfl) h
    rw [hsplit, List.pairwise_append, List.pairwise_cons] at hsorted
    obtain ⟨_, ⟨hx, _⟩, hpp⟩ := hsorted
    have hlt : ∀ a b : Info, a.cap < b.cap → drainedLess a b = true := by
      intro a b hab
      have : a.cap ≠ b.cap := by omega
      simp [drainedLess, this, hab]
    intro i hi j hj hcap hpos
    have hi' : i ∈ pre ++ x :: post := hsplit ▸ hperm.mem_iff.mpr hi
    have hj' : j ∈ pre ++ x :: post := hsplit ▸ hperm.mem_iff.mpr hj
    have hij := hlt i j hcap
    rcases List.mem_append.mp hi' with hip | hix
    · exact hpre i hip
    · exfalso
      rcases List.mem_append.mp hj' with hjp | hjx
      · -- j strictly before i in the ascending order, yet i < j
        have := hpp j hjp i hix
        rw [hij] at this; cases this
      · rcases List.mem_cons.mp hjx with rfl | hjpost
        · rcases List.mem_cons.mp hix with rfl | hipost
          · omega
          · have := hx i hipost
            rw [hij] at this; cases this
        · have := hpost j hjpost
          omega

/-! ### EACH, FILL -/

def EachBal (infos : List Info) (p : Plan) : Prop :=
  ∀ i ∈ infos, ∀ j ∈ infos, 0 < p.get i.name → p.get j.name = 0 → j.cap ≤ i.cap

theorem each_bal {infos : List Info} {need limit : Int} {p : Plan} (hv : Valid infos) (hneed : 1 ≤ need)
    (h : average infos need limit = .ok p) : EachBal infos p := by
  obtain ⟨chosen, rest, hperm, _, hc, hr, _, hord⟩ := each_plan hv h
  intro i hi j hj hpos hzero
  rcases List.mem_append.mp (hperm.mem_iff.mpr hi) with hic | hir
  · rcases List.mem_append.mp (hperm.mem_iff.mpr hj) with hjc | hjr
    · have := (hc j hjc).2.1; omega
    · exact hord i hic j hjr
  · have := (hr i hir).2; omega

def FillBal (infos : List Info) (need : Int) (p : Plan) : Prop :=
  ∀ i ∈ infos, ∀ j ∈ infos, p.has i.name = true → p.has j.name = false → j.cap ≥ need - j.count →
    j.count ≤ i.count

theorem fill_bal {infos : List Info} {need limit : Int} {p : Plan} {flag : Bool} (hv : Valid infos)
    (h : fill infos need limit = .ok (p, flag)) : FillBal infos need p := by
  obtain ⟨chosen, rest, hperm, _, hc, hr, _, hord⟩ := fill_plan hv h
  intro i hi j hj hhas hnot hel
  rcases List.mem_append.mp (hperm.mem_iff.mpr hi) with hic | hir
  · rcases List.mem_append.mp (hperm.mem_iff.mpr hj) with hjc | hjr
    · have := (hc j hjc).2.1
      rw [hnot] at this; cases this
    · exact hord i hic j hjr (by simpa [fillEligible] using hel)
  · have := (hr i hir).1
    rw [hhas] at this; cases this

/-! ### Bridge to the Bool predicate -/

theorem c03_auto_iff (infos : List Info) (need limit : Int) (p : Plan) :
    c03 .auto infos need limit p = true ↔ AutoBal infos limit p := by
  simp only [c03, AutoBal, List.all_eq_true, Bool.or_eq_true, Bool.not_eq_true', Bool.and_eq_false_iff,
    decide_eq_true_eq, decide_eq_false_iff_not]
  constructor
  · intro h i hi j hj hpos hct
    rcases h i hi j hj with (h1 | h1) | h1
    · omega
    · rw [hct] at h1; cases h1
    · exact h1
  · intro h i hi j hj
    by_cases hpos : 0 < p.get i.name
    · cases hct : canTake infos limit p j
      · exact Or.inl (Or.inr rfl)
      · exact Or.inr (h i hi j hj hpos hct)
    · exact Or.inl (Or.inl (by omega))

theorem c03_global_iff (infos : List Info) (need limit : Int) (p : Plan) :
    c03 .global infos need limit p = true ↔ GlobalBal infos p := by
  simp only [c03, GlobalBal, List.all_eq_true, Bool.or_eq_true, Bool.not_eq_true', Bool.and_eq_false_iff,
    decide_eq_true_eq, decide_eq_false_iff_not]
  constructor
  · intro h i hi j hj hpos hlt
    rcases h i hi j hj with (h1 | h1) | h1
    · omega
    · omega
    · exact h1
  · intro h i hi j hj
    by_cases hpos : 0 < p.get i.name
    · by_cases hlt : p.get j.name < j.cap
      · exact Or.inr (h i hi j hj hpos hlt)
      · exact Or.inl (Or.inr hlt)
    · exact Or.inl (Or.inl (by omega))

theorem c03_drained_iff (infos : List Info) (need limit : Int) (p : Plan) :
    c03 .drained infos need limit p = true ↔ DrainedBal infos p := by
  simp only [c03, DrainedBal, List.all_eq_true, Bool.or_eq_true, Bool.not_eq_true', Bool.and_eq_false_iff,
    decide_eq_false_iff_not, beq_iff_eq]
  constructor
  · intro h i hi j hj hcap hpos
    rcases h i hi j hj with (h1 | h1) | h1
    · omega
    · omega
    · exact h1
  · intro h i hi j hj
    by_cases hcap : i.cap < j.cap
    · by_cases hpos : 0 < p.get j.name
      · exact Or.inr (h i hi j hj hcap hpos)
      · exact Or.inl (Or.inr (by omega))
    · exact Or.inl (Or.inl hcap)

theorem c03_each_iff (infos : List Info) (need limit : Int) (p : Plan) :
    c03 .each infos need limit p = true ↔ EachBal infos p := by
  simp only [c03, EachBal, List.all_eq_true, Bool.or_eq_true, Bool.not_eq_true', Bool.and_eq_false_iff,
    decide_eq_true_eq, decide_eq_false_iff_not, beq_eq_false_iff_ne, ne_eq]
  constructor
  · intro h i hi j hj hpos hz
    rcases h i hi j hj with (h1 | h1) | h1
    · omega
    · exact absurd hz h1
    · exact h1
  · intro h i hi j hj
    by_cases hpos : 0 < p.get i.name
    · by_cases hz : p.get j.name = 0
      · exact Or.inr (h i hi j hj hpos hz)
      · exact Or.inl (Or.inr hz)
    · exact Or.inl (Or.inl (by omega))

theorem c03_fill_iff (infos : List Info) (need limit : Int) (p : Plan) :
    c03 .fill infos need limit p = true ↔ FillBal infos need p := by
  simp only [c03, FillBal, List.all_eq_true, Bool.or_eq_true, Bool.not_eq_true', Bool.and_eq_false_iff,
    decide_eq_true_eq, decide_eq_false_iff_not, Bool.not_eq_false']
  constructor
  · intro h i hi j hj hhas hnot hel
    rcases h i hi j hj with ((h1 | h1) | h1) | h1
    · rw [hhas] at h1; cases h1
    · rw [hnot] at h1; cases h1
    · omega
    · exact h1
  · intro h i hi j hj
    cases hhas : p.has i.name
    · exact Or.inl (Or.inl (Or.inl rfl))
    · cases hnot : p.has j.name
      · by_cases hel : j.cap ≥ need - j.count
        · exact Or.inr (h i hi j hj hhas hnot hel)
        · exact Or.inl (Or.inr hel)
      · exact Or.inl (Or.inl (Or.inr rfl))

end Eru.Strategy
