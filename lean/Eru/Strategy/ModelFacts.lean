import Eru.Strategy.Model
/-
Named pieces of the strategy model (comparators, guards, eligibility tests, the strategy table) in
exactly the surface form the fact translator emits from the Go source, each proved to be what the
model actually uses.  Eru/Generated/StrategyFacts.lean (regenerated from /repo on every run) proves
`generated = these` by `rfl`, so an edit to any of these expressions in the Go code breaks a proof
obligation.
-/
namespace Eru.Strategy.Facts
open Eru Eru.Strategy

def commLess (a b : Info) : Bool := (a.count < b.count) || (((a.count == b.count) && (a.cap > b.cap)))
theorem commLess_is_model : @commLess = @Eru.Strategy.commLess := rfl

/-- skip condition of `infoHeap.Push` and of `newInfoHeap` -/
def commSkip (limit : Int) (info : Info) : Bool := (info.cap == 0) || (((limit > 0) && (info.count ≥ limit)))
theorem commKeep_is_not_skip (limit : Int) (i : Info) : commKeep limit i = !commSkip limit i := rfl

def globalLess (a b : Info) : Bool := ((a.usage + a.rate)) < ((b.usage + b.rate))
theorem globalLess_is_model : @globalLess = @Eru.Strategy.globalLess := rfl

def globalKeep (info : Info) : Bool := info.cap > 0
theorem global_filter_is_keep (infos : List Info) (need total : Int) (h : ¬ total < need) :
    global infos need total = globalLoop need.toNat (GoHeap.init Eru.Strategy.globalLess (infos.filter globalKeep).toArray) [] := by
  unfold global; rw [if_neg h]; rfl
theorem globalStep_uses_keep (h : Array Info) (info : Info) :
    globalStep h info =
      (let info' : Info := { info with usage := info.usage + info.rate, cap := info.cap - 1 }
       if globalKeep info' = true then GoHeap.push Eru.Strategy.globalLess h info' else h) := by
  simp [globalStep, globalKeep]

def drainedLess (a b : Info) : Bool := if a.cap != b.cap then a.cap < b.cap else a.usage > b.usage
theorem drainedLess_is_model : @drainedLess = @Eru.Strategy.drainedLess := rfl

def drainedPartial (need : Int) (info : Info) : Bool := need < info.cap
theorem drainedLoop_cons (info : Info) (rest : List Info) (need : Int) (d : Plan) :
    drainedLoop (info :: rest) need d =
      if drainedPartial need info = true then .ok (d.set info.name need)
      else if need - info.cap = 0 then .ok (d.set info.name info.cap)
      else drainedLoop rest (need - info.cap) (d.set info.name info.cap) := by
  simp [drainedLoop, drainedPartial]

def averageLess (a b : Info) : Bool := a.cap > b.cap
theorem averageLess_is_model : @averageLess = @Eru.Strategy.averageLess := rfl

/-- predicate of the binary search in `AveragePlan` -/
def averageShort (need : Int) (a : Info) : Bool := a.cap < need

def fillLess (a b : Info) : Bool := if a.count == b.count then a.cap > b.cap else a.count > b.count
theorem fillLess_is_model : @fillLess = @Eru.Strategy.fillLess := rfl

def fillEligible (need : Int) (info : Info) : Bool := info.cap ≥ (need - info.count)
theorem fillLoop_cons (need : Int) (info : Info) (rest : List Info) (limit : Int) (d : Plan) (t : Int) :
    fillLoop need (info :: rest) limit d t =
      if fillEligible need info = true then
        (let d' := d.add info.name (max (need - info.count) 0)
         if limit - 1 = 0 then .ok (d', (t + d'.get info.name) == 0)
         else fillLoop need rest (limit - 1) d' (t + d'.get info.name))
      else fillLoop need rest limit d t := by
  simp [fillLoop, fillEligible]

def totalShort (need total : Int) : Bool := total < need
def countInvalid (count : Int) : Bool := count ≤ 0
theorem deploy_rejects (s : String) (st : Strat) (count limit total : Int) (infos : List Info)
    (hs : Strat.ofString? s = some st) (h : countInvalid count = true) :
    deploy s count limit infos total = .err errInvalidCount := by
  simp only [countInvalid, decide_eq_true_eq] at h
  simp [deploy, hs, h]

/-- `strategy.Plans`: strategy name → planning function (sorted by name) -/
def plansTable : List String :=
  ["AUTO→CommunismPlan", "DRAINED→DrainedPlan", "EACH→AveragePlan", "FILL→FillPlan", "GLOBAL→GlobalPlan"]
/-- the model's dispatcher knows exactly the table's names and sends each to the model of the listed function -/
theorem dispatch_table :
    Strat.ofString? "AUTO" = some .auto ∧ Strat.ofString? "DRAINED" = some .drained ∧
    Strat.ofString? "EACH" = some .each ∧ Strat.ofString? "FILL" = some .fill ∧
    Strat.ofString? "GLOBAL" = some .global := ⟨rfl, rfl, rfl, rfl, rfl⟩

end Eru.Strategy.Facts
