import Eru.Strategy.Model
import Eru.Basic.GoSortProofs
/- The comparators used by the strategies are strict weak orders (after the DRAINED fix). -/
namespace Eru.Strategy
open Eru Eru.GoSort

theorem averageLess_sw : StrictWeak averageLess := by
  refine ⟨?_, ?_, ?_⟩ <;> intros <;> simp_all [averageLess] <;> omega

theorem fillLess_sw : StrictWeak fillLess := by
  refine ⟨?_, ?_, ?_⟩
  · intro a; simp [fillLess]
  · intro a b c h1 h2
    simp only [fillLess, beq_iff_eq] at *
    split at h1 <;> split at h2 <;> split <;> simp_all <;> omega
  · intro a b c h1 h2
    simp only [fillLess, beq_iff_eq] at *
    split at h1 <;> split at h2 <;> split <;> simp_all <;> omega

theorem drainedLess_sw : StrictWeak drainedLess := by
  refine ⟨?_, ?_, ?_⟩
  · intro a; simp [drainedLess]
  · intro a b c h1 h2
    simp only [drainedLess, bne_iff_ne, ne_eq] at *
    split at h1 <;> split at h2 <;> split <;> simp_all <;> omega
  · intro a b c h1 h2
    simp only [drainedLess, bne_iff_ne, ne_eq] at *
    split at h1 <;> split at h2 <;> split <;> simp_all <;> omega

theorem commLess_sw : StrictWeak commLess := by
  refine ⟨?_, ?_, ?_⟩
  · intro a; simp [commLess]
  · intro a b c h1 h2
    simp only [commLess, Bool.or_eq_true, Bool.and_eq_true, decide_eq_true_eq, beq_iff_eq] at *
    omega
  · intro a b c h1 h2
    simp only [commLess, Bool.or_eq_false_iff, Bool.and_eq_false_iff, decide_eq_false_iff_not,
      beq_eq_false_iff_ne, ne_eq] at *
    omega

theorem globalLess_sw : StrictWeak globalLess := by
  refine ⟨?_, ?_, ?_⟩ <;> intros <;> simp_all [globalLess] <;> omega

end Eru.Strategy
