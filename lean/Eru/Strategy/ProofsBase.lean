import Eru.Strategy.Spec
/- Helper lemmas for the strategy proofs: sums over candidate lists, plan updates. -/
namespace Eru.Strategy
open Eru

@[simp] theorem sumBy_nil (f : Info → Int) : sumBy [] f = 0 := rfl
@[simp] theorem sumBy_cons (i : Info) (l : List Info) (f : Info → Int) :
    sumBy (i :: l) f = f i + sumBy l f := by simp [sumBy]

theorem sumBy_perm {l₁ l₂ : List Info} (h : l₁.Perm l₂) (f : Info → Int) : sumBy l₁ f = sumBy l₂ f := by
  induction h with
  | nil => rfl
  | cons x _ ih => simp [ih]
  | swap x y l => simp; omega
  | trans _ _ ih1 ih2 => exact ih1.trans ih2

theorem sumBy_congr {l : List Info} {f g : Info → Int} (h : ∀ i ∈ l, f i = g i) : sumBy l f = sumBy l g := by
  induction l with
  | nil => rfl
  | cons x xs ih =>
    simp only [sumBy_cons]
    rw [h x (List.mem_cons_self), ih (fun i hi => h i (List.mem_cons_of_mem _ hi))]

theorem sumBy_zero {l : List Info} {f : Info → Int} (h : ∀ i ∈ l, f i = 0) : sumBy l f = 0 := by
  induction l with
  | nil => rfl
  | cons x xs ih =>
    simp only [sumBy_cons]
    rw [h x (List.mem_cons_self), ih (fun i hi => h i (List.mem_cons_of_mem _ hi))]; rfl

theorem sumBy_add (l : List Info) (f g : Info → Int) : sumBy l (fun i => f i + g i) = sumBy l f + sumBy l g := by
  induction l with
  | nil => rfl
  | cons x xs ih => simp only [sumBy_cons, ih]; omega

theorem sumBy_le {l : List Info} {f g : Info → Int} (h : ∀ i ∈ l, f i ≤ g i) : sumBy l f ≤ sumBy l g := by
  induction l with
  | nil => exact Int.le_refl _
  | cons x xs ih =>
    simp only [sumBy_cons]
    have := h x (List.mem_cons_self)
    have := ih (fun i hi => h i (List.mem_cons_of_mem _ hi))
    omega

/-- indicator sum over a list with distinct names: exactly one element carries a given member's name -/
theorem sumBy_indicator {l : List Info} (hnd : (l.map (·.name)).Nodup) {x : Info} (hx : x ∈ l) (v : Int) :
    sumBy l (fun i => if x.name = i.name then v else 0) = v := by
  induction l with
  | nil => cases hx
  | cons y ys ih =>
    simp only [List.map_cons, List.nodup_cons] at hnd
    simp only [sumBy_cons]
    rcases List.mem_cons.mp hx with rfl | hx'
    · have : sumBy ys (fun i => if x.name = i.name then v else 0) = 0 := by
        apply sumBy_zero
        intro i hi
        have : x.name ≠ i.name := by
          intro e; exact hnd.1 (e ▸ List.mem_map_of_mem (f := (·.name)) hi)
        simp [this]
      simp [this]
    · have hne : x.name ≠ y.name := by
        intro e; exact hnd.1 (e ▸ List.mem_map_of_mem (f := (·.name)) hx')
      simp [hne, ih hnd.2 hx']

/-- valid candidate set: distinct names, capacities ≥ 1 (up to unlimited), counts ≥ 0 -/
def Valid (infos : List Info) : Prop :=
  (infos.map (·.name)).Nodup ∧ ∀ i ∈ infos, 1 ≤ i.cap ∧ i.cap ≤ maxInt ∧ 0 ≤ i.count

theorem Valid.perm {l₁ l₂ : List Info} (h : l₁.Perm l₂) (hv : Valid l₁) : Valid l₂ :=
  ⟨(h.map _).nodup_iff.mp hv.1, fun i hi => hv.2 i (h.mem_iff.mpr hi)⟩

/-- the clauses of C01 shared by all strategies, as a proposition over the candidate list -/
def PlanWithin (infos : List Info) (p : Plan) : Prop :=
  (∀ k, p.has k = true → k ∈ infos.map (·.name)) ∧ ∀ i ∈ infos, 0 ≤ p.get i.name ∧ p.get i.name ≤ i.cap

theorem PlanWithin.perm {l₁ l₂ : List Info} (h : l₁.Perm l₂) {p : Plan} (hp : PlanWithin l₁ p) : PlanWithin l₂ p :=
  ⟨fun k hk => (h.map _).mem_iff.mp (hp.1 k hk), fun i hi => hp.2 i (h.mem_iff.mpr hi)⟩

end Eru.Strategy
