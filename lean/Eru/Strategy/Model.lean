import Eru.Basic.Outcome
import Eru.Basic.AssocMap
import Eru.Basic.GoHeap
import Eru.Basic.GoSort
/-
Model of /repo/strategy/*.go, statement by statement.

* `Info.usage`, `Info.rate` are fixed-point integers (unit 2^-20): Go uses float64 and
  only ever adds and compares them; the correspondence generator emits dyadic values
  whose sums are exact in binary64, so the two agree there (trusted-base item).
* Go `int` is unbounded `Int` here; no modelled expression can overflow for
  `0 ≤ count`, `1 ≤ cap ≤ maxInt`, `1 ≤ need` after the FILL fix (`cap ≥ need − count`).
* `sort.Slice` = `GoSort.isort` (exact for n ≤ 12, see GoSort.lean).
-/
namespace Eru.Strategy
open Eru

structure Info where
  name : String
  usage : Int
  rate : Int
  cap : Int
  count : Int
  deriving Repr, DecidableEq, Inhabited

def errInsufficient := "insufficient"
def errInsufficientCapacity := "insufficient-capacity"
def errAlreadyFilled := "already-filled"
def errInvalidStrategy := "invalid-strategy"
def errInvalidCount := "invalid-count"

/-! ### AUTO (communism.go) -/

def commLess (a b : Info) : Bool :=
  a.count < b.count || (a.count == b.count && a.cap > b.cap)

/-- negation of the skip condition in `infoHeap.Push` / `newInfoHeap` -/
def commKeep (limit : Int) (i : Info) : Bool :=
  !(i.cap == 0 || (limit > 0 && i.count ≥ limit))

def commStep (limit : Int) (h : Array Info) (info : Info) : Array Info :=
  let info' := { info with count := info.count + 1, cap := info.cap - 1 }
  if commKeep limit info' then GoHeap.push commLess h info' else GoHeap.pushDeclined commLess h

/-- the `for { … }` loop; the first argument is `need` (≥ 1 at entry) -/
def commLoop (limit : Int) : Nat → Array Info → Plan → Outcome Plan
  | 0, _, d => .ok d
  | n + 1, h, d =>
    match GoHeap.pop commLess h with
    | none => .err errInsufficient
    | some (info, h') =>
      let d' := d.add info.name 1
      if n = 0 then .ok d' else commLoop limit n (commStep limit h' info) d'

def communism (infos : List Info) (need total limit : Int) : Outcome Plan :=
  if total < need then .err errInsufficient
  else
    let h := GoHeap.init commLess (infos.filter (commKeep limit)).toArray
    commLoop limit need.toNat h []

/-! ### GLOBAL (global.go) -/

def globalLess (a b : Info) : Bool := a.usage + a.rate < b.usage + b.rate

def globalStep (h : Array Info) (info : Info) : Array Info :=
  let info' := { info with usage := info.usage + info.rate, cap := info.cap - 1 }
  if info'.cap > 0 then GoHeap.push globalLess h info' else h

/-- `for i := 0; i < need; i++` -/
def globalLoop : Nat → Array Info → Plan → Outcome Plan
  | 0, _, d => .ok d
  | n + 1, h, d =>
    match GoHeap.pop globalLess h with
    | none => .err errInsufficient
    | some (info, h') => globalLoop n (globalStep h' info) (d.add info.name 1)

def global (infos : List Info) (need total : Int) : Outcome Plan :=
  if total < need then .err errInsufficient
  else
    let h := GoHeap.init globalLess (infos.filter (fun i => i.cap > 0)).toArray
    globalLoop need.toNat h []

/-! ### DRAINED (drained.go) -/

def drainedLess (a b : Info) : Bool :=
  if a.cap != b.cap then a.cap < b.cap else a.usage > b.usage

def drainedLoop : List Info → Int → Plan → Outcome Plan
  | [], _, _ => .err errInsufficient      -- "BUG: never reach here"
  | info :: rest, need, d =>
    if need < info.cap then .ok (d.set info.name need)
    else
      let d' := d.set info.name info.cap
      let need' := need - info.cap
      if need' = 0 then .ok d' else drainedLoop rest need' d'

def drainedOn (sorted : List Info) (need total : Int) : Outcome Plan :=
  if total < need then .err errInsufficient else drainedLoop sorted need []

def drained (infos : List Info) (need total : Int) : Outcome Plan :=
  drainedOn (GoSort.isort drainedLess infos) need total

/-! ### EACH (average.go) -/

def averageLess (a b : Info) : Bool := a.cap > b.cap

def averageOn (sorted : List Info) (need limit : Int) : Outcome Plan :=
  let n : Int := sorted.length
  let limit := if limit ≤ 0 then n else limit
  if n < limit then .err errInsufficient
  else
    let p : Int := GoSort.search sorted.length (fun i => (sorted.getD i default).cap < need)
    if p = 0 then .err errInsufficientCapacity
    else if p < limit then .err errInsufficient
    else .ok ((sorted.take limit.toNat).foldl (fun d i => d.add i.name need) [])

def average (infos : List Info) (need limit : Int) : Outcome Plan :=
  averageOn (GoSort.isort averageLess infos) need limit

/-! ### FILL (fill.go) -/

def fillLess (a b : Info) : Bool :=
  if a.count == b.count then a.cap > b.cap else a.count > b.count

/-- returns the plan and whether the error `ErrAlreadyFilled` accompanies it -/
def fillLoop (need : Int) : List Info → Int → Plan → Int → Outcome (Plan × Bool)
  | [], _, _, _ => .err errInsufficient
  | info :: rest, limit, d, toDeploy =>
    if info.cap ≥ need - info.count then
      let d' := d.add info.name (max (need - info.count) 0)
      let toDeploy' := toDeploy + d'.get info.name
      let limit' := limit - 1
      if limit' = 0 then .ok (d', toDeploy' == 0)
      else fillLoop need rest limit' d' toDeploy'
    else fillLoop need rest limit d toDeploy

def fillOn (sorted : List Info) (need limit : Int) : Outcome (Plan × Bool) :=
  let n : Int := sorted.length
  let limit := if limit = 0 then n else limit
  if n < limit then .err errInsufficient
  else fillLoop need sorted limit [] 0

def fill (infos : List Info) (need limit : Int) : Outcome (Plan × Bool) :=
  fillOn (GoSort.isort fillLess infos) need limit

/-! ### Deploy (strategy.go) -/

inductive Strat | auto | fill | each | global | drained
  deriving Repr, DecidableEq

def Strat.ofString? : String → Option Strat
  | "AUTO" => some .auto | "FILL" => some .fill | "EACH" => some .each
  | "GLOBAL" => some .global | "DRAINED" => some .drained | _ => none

/-- `strategy.Deploy`; FILL's "plan together with ErrAlreadyFilled" is reported as the error. -/
def deploy (strategy : String) (count limit : Int) (infos : List Info) (total : Int) : Outcome Plan :=
  match Strat.ofString? strategy with
  | none => .err errInvalidStrategy
  | some s =>
    if count ≤ 0 then .err errInvalidCount
    else match s with
      | .auto => communism infos count total limit
      | .global => global infos count total
      | .drained => drained infos count total
      | .each => average infos count limit
      | .fill =>
        match fill infos count limit with
        | .ok (d, false) => .ok d
        | .ok (_, true) => .err errAlreadyFilled
        | .err e => .err e
        | .panic m => .panic m
        | .diverge => .diverge

end Eru.Strategy
