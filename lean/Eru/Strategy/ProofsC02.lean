import Eru.Strategy.ProofsC01
/- C02: every strategy returns a plan exactly when the reference feasibility predicate holds
   (error-case companions of the loop specifications used for C01). -/
namespace Eru.Strategy
open Eru Eru.GoSort

/-! ### the saturating total -/

theorem sumBy_nonneg {l : List Info} {f : Info → Int} (h : ∀ i ∈ l, 0 ≤ f i) : 0 ≤ sumBy l f := by
  induction l with
  | nil => simp
  | cons x xs ih =>
    have := h x List.mem_cons_self
    have := ih (fun i hi => h i (List.mem_cons_of_mem _ hi))
    simp only [sumBy_cons]; omega

theorem satFold_eq (l : List Info) (t : Int) (ht0 : 0 ≤ t) (htm : t ≤ maxInt) (hc : ∀ i ∈ l, 0 ≤ i.cap) :
    l.foldl (fun t i => if t + i.cap > maxInt then maxInt else t + i.cap) t
      = min (t + sumBy l (fun i => i.cap)) maxInt := by
  induction l generalizing t with
  | nil => simp only [List.foldl_nil, sumBy_nil]; omega
  | cons x xs ih =>
    have hx := hc x List.mem_cons_self
    have hxs : ∀ i ∈ xs, 0 ≤ i.cap := fun i hi => hc i (List.mem_cons_of_mem _ hi)
    have hs := sumBy_nonneg (f := fun i : Info => i.cap) hxs
    simp only [List.foldl_cons, sumBy_cons]
    split
    · rw [ih _ (by omega) (Int.le_refl _) hxs]; omega
    · rw [ih _ (by omega) (by omega) hxs]; omega

/-- the resource manager's saturating sum is the true sum of capacities, capped at MaxInt64 -/
theorem satTotal_eq {infos : List Info} (hv : Valid infos) :
    satTotal infos = min (sumBy infos (fun i => i.cap)) maxInt := by
  unfold satTotal
  rw [satFold_eq infos 0 (Int.le_refl _) (by simp [maxInt]) (fun i hi => by have := (hv.2 i hi).1; omega)]
  simp

theorem satTotal_lt {infos : List Info} (hv : Valid infos) {count : Int} (hc : count ≤ maxInt)
    (h : satTotal infos < count) : sumBy infos (fun i => i.cap) < count := by
  rw [satTotal_eq hv] at h; omega

/-! ### AUTO -/

theorem allowance_le_cap (limit : Int) (i : Info) : allowance limit i ≤ i.cap := by
  unfold allowance; split <;> omega

theorem allowance_pos {limit : Int} (hl : limit > 0) :
    allowance limit = fun i => min i.cap (max (limit - i.count) 0) := by
  funext i; simp [allowance, hl]

theorem allowance_nonpos {limit : Int} (hl : ¬ limit > 0) : allowance limit = fun i => i.cap := by
  funext i; simp [allowance, hl]

theorem feasible_auto (infos : List Info) (need limit : Int) :
    feasible .auto infos need limit = decide (need ≤ sumBy infos (allowance limit)) := by
  by_cases hl : limit > 0
  · rw [allowance_pos hl]; simp [feasible, hl]
  · rw [allowance_nonpos hl]; simp [feasible, hl]

theorem commLoop_err_kind (limit : Int) : ∀ (n : Nat) (h : Array Info) (d : Plan) (e : String),
    commLoop limit n h d = .err e → e = errInsufficient := by
  intro n
  induction n with
  | zero => intro h d e he; simp [commLoop] at he
  | succ n ih =>
    intro h d e he
    unfold commLoop at he
    split at he
    · cases he; rfl
    · simp only at he
      split at he
      · cases he
      · exact ih _ _ _ he

theorem auto_spec {infos : List Info} (limit : Int) (hv : Valid infos) {need : Int} (hneed : 1 ≤ need) :
    let r := commLoop limit need.toNat (GoHeap.init commLess (infos.filter (commKeep limit)).toArray) []
    (∀ e, r = .err e → sumBy infos (allowance limit) < need) ∧ (∀ m, r ≠ .panic m) ∧ r ≠ .diverge := by
  have inv0 : CommInv infos limit (GoHeap.init commLess (infos.filter (commKeep limit)).toArray).toList [] :=
    (commInv_init infos limit hv).perm (by simpa using (GoHeap.init_perm commLess _).symm)
  exact (commLoop_spec infos limit hv need need.toNat _ [] inv0
    (by rw [sumBy_zero (fun _ _ => by simp)]; omega)).2

theorem auto_ok_feasible {infos : List Info} {need total limit : Int} {p : Plan} (hv : Valid infos)
    (hneed : 1 ≤ need) (h : communism infos need total limit = .ok p) :
    feasible .auto infos need limit = true := by
  obtain ⟨_, hs, ha⟩ := auto_plan hv hneed h
  rw [feasible_auto, decide_eq_true_eq, ← hs]
  exact sumBy_le ha

theorem auto_err_kind {infos : List Info} {need total limit : Int} {e : String}
    (h : communism infos need total limit = .err e) : e = errInsufficient := by
  unfold communism at h
  split at h
  · cases h; rfl
  · exact commLoop_err_kind _ _ _ _ _ h

theorem auto_err_infeasible {infos : List Info} {need total limit : Int} {e : String} (hv : Valid infos)
    (hneed : 1 ≤ need) (hm : need ≤ maxInt) (ht : total = satTotal infos)
    (h : communism infos need total limit = .err e) : feasible .auto infos need limit = false := by
  rw [feasible_auto, decide_eq_false_iff_not, Int.not_le]
  unfold communism at h
  split at h
  · rename_i hlt
    have h1 := satTotal_lt hv hm (ht ▸ hlt)
    have h2 := sumBy_le (l := infos) (g := fun i => i.cap) (fun i _ => allowance_le_cap limit i)
    omega
  · exact (auto_spec limit hv hneed).1 e h

theorem auto_no_crash {infos : List Info} {need total limit : Int} (hv : Valid infos) (hneed : 1 ≤ need) :
    (∀ m, communism infos need total limit ≠ .panic m) ∧ communism infos need total limit ≠ .diverge := by
  unfold communism
  split
  · exact ⟨fun _ => nofun, nofun⟩
  · exact (auto_spec limit hv hneed).2

/-! ### GLOBAL -/

theorem globalLoop_err_kind : ∀ (n : Nat) (h : Array Info) (d : Plan) (e : String),
    globalLoop n h d = .err e → e = errInsufficient := by
  intro n
  induction n with
  | zero => intro h d e he; simp [globalLoop] at he
  | succ n ih =>
    intro h d e he
    unfold globalLoop at he
    split at he
    · cases he; rfl
    · exact ih _ _ _ he

theorem global_spec {infos : List Info} (hv : Valid infos) {need : Int} (hneed : 1 ≤ need) :
    let r := globalLoop need.toNat (GoHeap.init globalLess (infos.filter (fun i => i.cap > 0)).toArray) []
    (∀ e, r = .err e → sumBy infos (fun i => i.cap) < need) ∧ (∀ m, r ≠ .panic m) ∧ r ≠ .diverge := by
  have inv0 : GlobInv infos (GoHeap.init globalLess (infos.filter (fun i => i.cap > 0)).toArray).toList [] :=
    (globInv_init infos hv).perm (by simpa using (GoHeap.init_perm globalLess _).symm)
  exact (globalLoop_spec infos hv need need.toNat _ [] inv0
    (by rw [sumBy_zero (fun _ _ => by simp)]; omega)).2

theorem sum_ok_feasible {infos : List Info} {need : Int} {p : Plan}
    (h : PlanWithin infos p ∧ sumBy infos (fun i => p.get i.name) = need) :
    need ≤ sumBy infos (fun i => i.cap) := by
  rw [← h.2]; exact sumBy_le (fun i hi => (h.1.2 i hi).2)

theorem global_ok_feasible {infos : List Info} {need total limit : Int} {p : Plan} (hv : Valid infos)
    (hneed : 1 ≤ need) (h : global infos need total = .ok p) : feasible .global infos need limit = true := by
  simp only [feasible, ge_iff_le, decide_eq_true_eq]
  exact sum_ok_feasible (global_plan hv hneed h)

theorem global_err_kind {infos : List Info} {need total : Int} {e : String}
    (h : global infos need total = .err e) : e = errInsufficient := by
  unfold global at h
  split at h
  · cases h; rfl
  · exact globalLoop_err_kind _ _ _ _ h

theorem global_err_infeasible {infos : List Info} {need total limit : Int} {e : String} (hv : Valid infos)
    (hneed : 1 ≤ need) (hm : need ≤ maxInt) (ht : total = satTotal infos)
    (h : global infos need total = .err e) : feasible .global infos need limit = false := by
  simp only [feasible, ge_iff_le, decide_eq_false_iff_not, Int.not_le]
  unfold global at h
  split at h
  · rename_i hlt
    exact satTotal_lt hv hm (ht ▸ hlt)
  · exact (global_spec hv hneed).1 e h

theorem global_no_crash {infos : List Info} {need total : Int} (hv : Valid infos) (hneed : 1 ≤ need) :
    (∀ m, global infos need total ≠ .panic m) ∧ global infos need total ≠ .diverge := by
  unfold global
  split
  · exact ⟨fun _ => nofun, nofun⟩
  · exact (global_spec hv hneed).2

/-! ### DRAINED -/

/-- error-case companion of `drainedLoop_spec`: the loop runs off the end of the list only when the
    capacities do not add up to the remaining need; it never panics or diverges -/
theorem drainedLoop_cases : ∀ (rest : List Info) (need : Int) (d : Plan), 1 ≤ need →
    (∀ e, drainedLoop rest need d = .err e → e = errInsufficient ∧ sumBy rest (fun i => i.cap) < need) ∧
    (∀ m, drainedLoop rest need d ≠ .panic m) ∧ drainedLoop rest need d ≠ .diverge := by
  intro rest
  induction rest with
  | nil =>
    intro need d hneed
    simp only [drainedLoop, sumBy_nil]
    exact ⟨fun e h => (by cases h; exact ⟨rfl, by omega⟩), fun _ => nofun, nofun⟩
  | cons info rest ih =>
    intro need d hneed
    unfold drainedLoop
    split
    · exact ⟨fun _ => nofun, fun _ => nofun, nofun⟩
    · simp only
      split
      · exact ⟨fun _ => nofun, fun _ => nofun, nofun⟩
      · obtain ⟨h1, h2⟩ := ih (need - info.cap) (d.set info.name info.cap) (by omega)
        refine ⟨fun e h => ?_, h2⟩
        obtain ⟨he, hs⟩ := h1 e h
        exact ⟨he, by simp only [sumBy_cons]; omega⟩

theorem drained_ok_feasible {infos : List Info} {need total limit : Int} {p : Plan} (hv : Valid infos)
    (hneed : 1 ≤ need) (h : drained infos need total = .ok p) : feasible .drained infos need limit = true := by
  simp only [feasible, ge_iff_le, decide_eq_true_eq]
  exact sum_ok_feasible (drained_plan hv hneed h)

theorem drained_err_kind {infos : List Info} {need total : Int} {e : String} (hneed : 1 ≤ need)
    (h : drained infos need total = .err e) : e = errInsufficient := by
  unfold drained drainedOn at h
  split at h
  · cases h; rfl
  · exact ((drainedLoop_cases _ need [] hneed).1 e h).1

theorem drained_err_infeasible {infos : List Info} {need total limit : Int} {e : String} (hv : Valid infos)
    (hneed : 1 ≤ need) (hm : need ≤ maxInt) (ht : total = satTotal infos)
    (h : drained infos need total = .err e) : feasible .drained infos need limit = false := by
  simp only [feasible, ge_iff_le, decide_eq_false_iff_not, Int.not_le]
  unfold drained drainedOn at h
  split at h
  · rename_i hlt
    exact satTotal_lt hv hm (ht ▸ hlt)
  · rw [← sumBy_perm (isort_perm drainedLess infos)]
    exact ((drainedLoop_cases _ need [] hneed).1 e h).2

theorem drained_no_crash {infos : List Info} {need total : Int} (hneed : 1 ≤ need) :
    (∀ m, drained infos need total ≠ .panic m) ∧ drained infos need total ≠ .diverge := by
  unfold drained drainedOn
  split
  · exact ⟨fun _ => nofun, nofun⟩
  · exact (drainedLoop_cases _ need [] hneed).2

/-! ### EACH -/

/-- a predicate that holds on the first `s` positions of a list and fails afterwards selects exactly `s` -/
theorem filter_length_of_split {α : Type} (q : α → Bool) : ∀ (l : List α) (s : Nat), s ≤ l.length →
    (∀ i (hi : i < l.length), i < s → q l[i] = true) →
    (∀ i (hi : i < l.length), s ≤ i → q l[i] = false) → (l.filter q).length = s
  | [], s, hs, _, _ => by simp at hs; simp [hs]
  | x :: xs, 0, _, _, h2 => by
    have : (x :: xs).filter q = [] := List.filter_eq_nil_iff.mpr (fun a ha => by
      obtain ⟨i, hi, rfl⟩ := List.getElem_of_mem ha
      simp [h2 i hi (Nat.zero_le _)])
    simp [this]
  | x :: xs, s + 1, hs, h1, h2 => by
    have hx : q x = true := h1 0 (by simp) (by omega)
    have ih := filter_length_of_split q xs s (by simpa using hs)
      (fun i hi his => by have := h1 (i + 1) (by simpa using hi) (by omega); simpa using this)
      (fun i hi his => by have := h2 (i + 1) (by simpa using hi) (by omega); simpa using this)
    simp [List.filter, hx, ih]

/-- on the capacity-descending list, `sort.Search` counts the nodes with room for `need` -/
theorem each_filter_search (sorted : List Info) (need : Int)
    (hs : sorted.Pairwise (fun a b => averageLess b a = false)) :
    (sorted.filter (fun i => decide (i.cap ≥ need))).length
      = search sorted.length (fun i => decide ((sorted.getD i default).cap < need)) := by
  have hmono : ∀ i j, i ≤ j → j < sorted.length →
      decide ((sorted.getD i default).cap < need) = true → decide ((sorted.getD j default).cap < need) = true := by
    intro i j hij hj hi
    rcases Nat.lt_or_eq_of_le hij with hlt | rfl
    · have hi' : i < sorted.length := by omega
      have := List.pairwise_iff_getElem.mp hs i j hi' hj hlt
      simp only [averageLess, decide_eq_false_iff_not, Int.not_lt, gt_iff_lt] at this
      simp only [List.getD_eq_getElem?_getD, List.getElem?_eq_getElem hi', List.getElem?_eq_getElem hj,
        Option.getD_some, decide_eq_true_eq] at hi ⊢
      omega
    · exact hi
  obtain ⟨hlo, hhi⟩ := search_spec sorted.length _ hmono
  apply filter_length_of_split _ _ _ (search_le _ _)
  · intro i hi his
    have := hlo i his
    simp only [List.getD_eq_getElem?_getD, List.getElem?_eq_getElem hi, Option.getD_some,
      decide_eq_false_iff_not, Int.not_lt] at this
    simpa using this
  · intro i hi his
    have := hhi i his hi
    simp only [List.getD_eq_getElem?_getD, List.getElem?_eq_getElem hi, Option.getD_some,
      decide_eq_true_eq] at this
    simpa using this

theorem feasible_perm (s : Strat) {l₁ l₂ : List Info} (hp : l₁.Perm l₂) (need limit : Int) :
    feasible s l₁ need limit = feasible s l₂ need limit := by
  cases s <;>
    simp only [feasible, effLimit, effLimitEach, hp.length_eq, (hp.filter _).length_eq, sumBy_perm hp] <;> try rfl

theorem feasible_each_iff (sorted : List Info) (need limit : Int)
    (hs : sorted.Pairwise (fun a b => averageLess b a = false)) :
    feasible .each sorted need limit = true ↔
      (effLimitEach sorted limit ≤ sorted.length ∧
       max (effLimitEach sorted limit) 1 ≤
         ((search sorted.length (fun i => decide ((sorted.getD i default).cap < need)) : Nat) : Int)) := by
  simp only [feasible, ge_iff_le, decide_eq_true_eq, ← each_filter_search sorted need hs]

theorem averageOn_cases (sorted : List Info) (need limit : Int)
    (hs : sorted.Pairwise (fun a b => averageLess b a = false)) :
    (∀ p, averageOn sorted need limit = .ok p → feasible .each sorted need limit = true) ∧
    (∀ e, averageOn sorted need limit = .err e →
      (e = errInsufficient ∨ e = errInsufficientCapacity) ∧ feasible .each sorted need limit = false) ∧
    (∀ m, averageOn sorted need limit ≠ .panic m) ∧ averageOn sorted need limit ≠ .diverge := by
  have hf := feasible_each_iff sorted need limit hs
  rw [Bool.eq_false_iff, Ne, hf]
  unfold averageOn
  simp only
  unfold effLimitEach
  generalize (search sorted.length (fun i => decide ((sorted.getD i default).cap < need))) = P
  generalize (if limit ≤ 0 then (sorted.length : Int) else limit) = L
  by_cases h1 : (sorted.length : Int) < L
  · simp only [if_pos h1]
    exact ⟨fun _ => nofun, fun e h => (by cases h; exact ⟨Or.inl rfl, by omega⟩),
      fun _ => nofun, nofun⟩
  · simp only [if_neg h1]
    by_cases h2 : (P : Int) = 0
    · simp only [if_pos h2]
      exact ⟨fun _ => nofun, fun e h => (by cases h; exact ⟨Or.inr rfl, by omega⟩),
        fun _ => nofun, nofun⟩
    · simp only [if_neg h2]
      by_cases h3 : (P : Int) < L
      · simp only [if_pos h3]
        exact ⟨fun _ => nofun, fun e h => (by cases h; exact ⟨Or.inl rfl, by omega⟩),
          fun _ => nofun, nofun⟩
      · simp only [if_neg h3]
        exact ⟨fun p _ => by omega, fun _ => nofun,
          fun _ => nofun, nofun⟩

/-- EACH never panics or diverges, whatever the limit (after the fix: `limit ≤ 0` means all nodes) -/
theorem each_cases (infos : List Info) (need limit : Int) :
    (∀ p, average infos need limit = .ok p → feasible .each infos need limit = true) ∧
    (∀ e, average infos need limit = .err e →
      (e = errInsufficient ∨ e = errInsufficientCapacity) ∧ feasible .each infos need limit = false) ∧
    (∀ m, average infos need limit ≠ .panic m) ∧ average infos need limit ≠ .diverge := by
  rw [← feasible_perm .each (isort_perm averageLess infos)]
  exact averageOn_cases _ need limit (isort_sorted averageLess_sw infos)

/-! ### FILL -/

theorem fillLoop_weak (need : Int) : ∀ (L : List Info) (limit : Int) (d : Plan) (t : Int),
    (∀ e, fillLoop need L limit d t = .err e → e = errInsufficient) ∧
    (∀ m, fillLoop need L limit d t ≠ .panic m) ∧ fillLoop need L limit d t ≠ .diverge := by
  intro L
  induction L with
  | nil =>
    intro limit d t
    simp only [fillLoop]
    exact ⟨fun e h => by cases h; rfl, fun _ => nofun, nofun⟩
  | cons x xs ih =>
    intro limit d t
    unfold fillLoop
    split
    · simp only
      split
      · exact ⟨fun _ => nofun, fun _ => nofun, nofun⟩
      · exact ih _ _ _
    · exact ih _ _ _

/-- error-case companion of `fillLoop_spec`: with a positive limit the loop succeeds only if at least
    `limit` nodes are eligible, and runs off the end of the list only if fewer are -/
theorem fillLoop_cases (need : Int) : ∀ (L : List Info) (limit : Int) (d : Plan) (t : Int), 1 ≤ limit →
    (∀ r, fillLoop need L limit d t = .ok r → limit ≤ ((L.filter (fillEligible need)).length : Int)) ∧
    (∀ e, fillLoop need L limit d t = .err e → ((L.filter (fillEligible need)).length : Int) < limit) := by
  intro L
  induction L with
  | nil =>
    intro limit d t hl
    simp only [fillLoop, List.filter_nil, List.length_nil]
    exact ⟨fun _ => nofun, fun e _ => by omega⟩
  | cons x xs ih =>
    intro limit d t hl
    unfold fillLoop
    split
    · rename_i hel
      have hel' : fillEligible need x = true := by simpa [fillEligible] using hel
      simp only [List.filter_cons, hel', if_true, List.length_cons]
      split
      · exact ⟨fun r _ => by omega, fun _ => nofun⟩
      · obtain ⟨h1, h2⟩ := ih (limit - 1) (d.add x.name (max (need - x.count) 0))
          (t + (d.add x.name (max (need - x.count) 0)).get x.name) (by omega)
        exact ⟨fun r h => by have := h1 r h; omega, fun e h => by have := h2 e h; omega⟩
    · rename_i hel
      have hel' : fillEligible need x = false := by simpa [fillEligible] using hel
      simp only [List.filter_cons, hel']
      exact ih limit d t hl

theorem feasible_fill_iff (l : List Info) (need limit : Int) :
    feasible .fill l need limit = true ↔
      (effLimit l limit ≤ l.length ∧ 1 ≤ effLimit l limit ∧
        effLimit l limit ≤ ((l.filter (fillEligible need)).length : Int)) := by
  have : fillEligible need = fun i => decide (i.cap ≥ need - i.count) := rfl
  rw [this]
  simp only [feasible, ge_iff_le, decide_eq_true_eq]

theorem fill_cases (infos : List Info) (need limit : Int) :
    (∀ r, fill infos need limit = .ok r → feasible .fill infos need limit = true) ∧
    (∀ e, fill infos need limit = .err e → e = errInsufficient ∧ feasible .fill infos need limit = false) ∧
    (∀ m, fill infos need limit ≠ .panic m) ∧ fill infos need limit ≠ .diverge := by
  rw [← feasible_perm .fill (isort_perm fillLess infos), Bool.eq_false_iff, Ne, feasible_fill_iff]
  unfold fill fillOn
  simp only
  unfold effLimit
  generalize isort fillLess infos = sorted
  generalize (if limit = 0 then (sorted.length : Int) else limit) = L
  by_cases h1 : (sorted.length : Int) < L
  · simp only [if_pos h1]
    exact ⟨fun _ => nofun, fun e h => (by cases h; exact ⟨rfl, by omega⟩),
      fun _ => nofun, nofun⟩
  · simp only [if_neg h1]
    obtain ⟨w1, w2, w3⟩ := fillLoop_weak need sorted L [] 0
    refine ⟨?_, ?_, w2, w3⟩
    · intro r h
      by_cases hL : 1 ≤ L
      · exact ⟨by omega, hL, (fillLoop_cases need sorted L [] 0 hL).1 r h⟩
      · exact absurd h (fillLoop_nonpos need sorted L [] 0 (by omega) r)
    · intro e h
      refine ⟨w1 e h, ?_⟩
      by_cases hL : 1 ≤ L
      · have := (fillLoop_cases need sorted L [] 0 hL).2 e h; omega
      · omega

/-! ### `deploy` for a known strategy and positive count -/

theorem deploy_known {sname : String} {s : Strat} (hs : Strat.ofString? sname = some s) {count : Int}
    (hc : 1 ≤ count) (limit : Int) (infos : List Info) (total : Int) :
    deploy sname count limit infos total =
      match s with
      | .auto => communism infos count total limit
      | .global => global infos count total
      | .drained => drained infos count total
      | .each => average infos count limit
      | .fill =>
        match fill infos count limit with
        | .ok (d, false) => .ok d
        | .ok (_, true) => .err errAlreadyFilled
        | .err e => .err e
        | .panic m => .panic m
        | .diverge => .diverge := by
  simp only [deploy, hs, if_neg (show ¬ count ≤ 0 by omega)]
  cases s <;> rfl

theorem deploy_pos_of_ok {sname : String} {count limit total : Int} {infos : List Info} {p : Plan}
    (h : deploy sname count limit infos total = .ok p) : 1 ≤ count := by
  unfold deploy at h
  split at h
  · cases h
  · split at h
    · cases h
    · omega

end Eru.Strategy
