import Eru.Strategy.ProofsC01
/- From the propositional per-strategy results to the decidable predicate `c01` of Spec.lean. -/
namespace Eru.Strategy
open Eru

theorem mem_keys_iff_has (p : Plan) (k : String) : k ∈ p.keys ↔ p.has k = true := by
  induction p with
  | nil => simp [Plan.keys, Plan.has]
  | cons x xs ih =>
    obtain ⟨a, b⟩ := x
    simp only [Plan.keys, List.map_cons, List.mem_cons, Plan.has, Bool.or_eq_true, decide_eq_true_eq] at ih ⊢
    constructor
    · rintro (h | h)
      · exact Or.inl h.symm
      · exact Or.inr (ih.mp h)
    · rintro (h | h)
      · exact Or.inl h.symm
      · exact Or.inr (ih.mpr h)

theorem c01Common_of_within {infos : List Info} {p : Plan} (h : PlanWithin infos p) : c01Common infos p = true := by
  simp only [c01Common, Bool.and_eq_true, List.all_eq_true, List.any_eq_true, beq_iff_eq, decide_eq_true_eq]
  refine ⟨?_, fun i hi => h.2 i hi⟩
  intro k hk
  have := h.1 k ((mem_keys_iff_has p k).mp hk)
  obtain ⟨x, hx, rfl⟩ := List.mem_map.mp this
  exact ⟨x, hx, rfl⟩

theorem c01_auto {infos : List Info} {need total limit : Int} {p : Plan} (hv : Valid infos) (hneed : 1 ≤ need)
    (h : communism infos need total limit = .ok p) : c01 .auto infos need limit p = true := by
  obtain ⟨hw, hs, ha⟩ := auto_plan hv hneed h
  simp only [c01, c01Common_of_within hw, Bool.true_and, Bool.and_eq_true, beq_iff_eq, Bool.or_eq_true,
    decide_eq_true_eq, List.all_eq_true]
  refine ⟨hs, ?_⟩
  by_cases hl : limit ≤ 0
  · exact Or.inl hl
  · right
    intro i hi
    have := ha i hi
    simp only [allowance] at this
    split at this <;> omega

theorem c01_global {infos : List Info} {need total limit : Int} {p : Plan} (hv : Valid infos) (hneed : 1 ≤ need)
    (h : global infos need total = .ok p) : c01 .global infos need limit p = true := by
  obtain ⟨hw, hs⟩ := global_plan hv hneed h
  simp [c01, c01Common_of_within hw, hs]

theorem c01_drained {infos : List Info} {need total limit : Int} {p : Plan} (hv : Valid infos) (hneed : 1 ≤ need)
    (h : drained infos need total = .ok p) : c01 .drained infos need limit p = true := by
  obtain ⟨hw, hs⟩ := drained_plan hv hneed h
  simp [c01, c01Common_of_within hw, hs]

theorem filter_length_split {chosen rest infos : List Info} (hp : (chosen ++ rest).Perm infos) (q : Info → Bool)
    (hc : ∀ i ∈ chosen, q i = true) (hr : ∀ j ∈ rest, q j = false) :
    (infos.filter q).length = chosen.length := by
  rw [← (hp.filter q).length_eq, List.filter_append, List.length_append,
    List.filter_eq_self.mpr hc, List.filter_eq_nil_iff.mpr (fun j hj => by simp [hr j hj])]
  simp

theorem c01_each {infos : List Info} {need limit : Int} {p : Plan} (hv : Valid infos) (hneed : 1 ≤ need)
    (h : average infos need limit = .ok p) : c01 .each infos need limit p = true := by
  obtain ⟨chosen, rest, hperm, hlen, hc, hr, hk, _⟩ := each_plan hv h
  have hw : PlanWithin infos p := by
    refine ⟨hk, fun i hi => ?_⟩
    have hcap := hv.2 i hi
    rcases List.mem_append.mp (hperm.mem_iff.mpr hi) with hi' | hi'
    · have := hc i hi'; omega
    · have := hr i hi'; omega
  have hfl := filter_length_split hperm (fun i => p.get i.name == need)
    (fun i hi => by simp [(hc i hi).2.1]) (fun j hj => by simp [(hr j hj).2]; omega)
  simp only [c01, c01Common_of_within hw, Bool.true_and, Bool.and_eq_true, List.all_eq_true, Bool.or_eq_true,
    beq_iff_eq]
  refine ⟨fun i hi => ?_, ?_⟩
  · rcases List.mem_append.mp (hperm.mem_iff.mpr hi) with hi' | hi'
    · exact Or.inr (hc i hi').2.1
    · exact Or.inl (hr i hi').2
  · rw [← hlen]; exact_mod_cast hfl

theorem c01_fill {infos : List Info} {need limit : Int} {p : Plan} {flag : Bool} (hv : Valid infos)
    (h : fill infos need limit = .ok (p, flag)) : c01 .fill infos need limit p = true := by
  obtain ⟨chosen, rest, hperm, hlen, hc, hr, hk, _⟩ := fill_plan hv h
  have hw : PlanWithin infos p := by
    refine ⟨hk, fun i hi => ?_⟩
    have hcap := hv.2 i hi
    rcases List.mem_append.mp (hperm.mem_iff.mpr hi) with hi' | hi'
    · have := hc i hi'
      have he : i.cap ≥ need - i.count := by simpa [fillEligible] using this.1
      omega
    · have := hr i hi'; omega
  have hfl := filter_length_split hperm (fun i => p.has i.name)
    (fun i hi => (hc i hi).2.1) (fun j hj => (hr j hj).1)
  simp only [c01, c01Common_of_within hw, Bool.true_and, Bool.and_eq_true, List.all_eq_true, Bool.or_eq_true,
    Bool.not_eq_true', beq_iff_eq, decide_eq_true_eq]
  refine ⟨fun i hi => ?_, ?_⟩
  · rcases List.mem_append.mp (hperm.mem_iff.mpr hi) with hi' | hi'
    · have := hc i hi'
      exact Or.inr ⟨this.2.2, by rw [this.2.2]; omega⟩
    · exact Or.inl (hr i hi').1
  · rw [← hlen]; exact_mod_cast hfl

end Eru.Strategy
