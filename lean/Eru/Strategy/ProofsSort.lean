import Eru.Strategy.ProofsBase
/- DRAINED / EACH / FILL: loops over an (arbitrary) ordering of the candidates. -/
namespace Eru.Strategy
open Eru

/-! ### DRAINED -/

theorem drainedLoop_spec (rest : List Info) (need : Int) (d p : Plan)
    (hneed : 1 ≤ need) (hcap : ∀ i ∈ rest, 1 ≤ i.cap)
    (hnd : (rest.map (·.name)).Nodup) (hfresh : ∀ i ∈ rest, d.has i.name = false)
    (h : drainedLoop rest need d = .ok p) :
    sumBy rest (fun i => p.get i.name) = need ∧
    (∀ i ∈ rest, 0 ≤ p.get i.name ∧ p.get i.name ≤ i.cap) ∧
    (∀ k, k ∉ rest.map (·.name) → p.get k = d.get k ∧ p.has k = d.has k) := by
  induction rest generalizing need d with
  | nil => simp [drainedLoop] at h
  | cons info rest ih =>
    simp only [List.map_cons, List.nodup_cons] at hnd
    have hci := hcap info (List.mem_cons_self)
    have hrest_ne : ∀ i ∈ rest, info.name ≠ i.name := by
      intro i hi e; exact hnd.1 (e ▸ List.mem_map_of_mem (f := (·.name)) hi)
    have hd_info : d.get info.name = 0 := Plan.get_of_not_has _ _ (hfresh info List.mem_cons_self)
    have hd_rest : ∀ i ∈ rest, d.get i.name = 0 := fun i hi =>
      Plan.get_of_not_has _ _ (hfresh i (List.mem_cons_of_mem _ hi))
    -- a plan that only sets `info.name` to v on top of d
    have base : ∀ v : Int, 0 ≤ v → v ≤ info.cap →
        sumBy (info :: rest) (fun i => (d.set info.name v).get i.name) = v ∧
        (∀ i ∈ info :: rest, 0 ≤ (d.set info.name v).get i.name ∧ (d.set info.name v).get i.name ≤ i.cap) ∧
        (∀ k, k ∉ (info :: rest).map (·.name) → (d.set info.name v).get k = d.get k ∧ (d.set info.name v).has k = d.has k) := by
      intro v hv0 hvc
      have hz : sumBy rest (fun i => (d.set info.name v).get i.name) = 0 := by
        apply sumBy_zero; intro i hi
        simp [Plan.get_set, hrest_ne i hi, hd_rest i hi]
      refine ⟨by rw [sumBy_cons, hz]; simp [Plan.get_set], ?_, ?_⟩
      · intro i hi
        rcases List.mem_cons.mp hi with rfl | hi'
        · simp [Plan.get_set, hv0, hvc]
        · have := hcap i hi
          simp [Plan.get_set, hrest_ne i hi', hd_rest i hi']; omega
      · intro k hk
        simp only [List.map_cons, List.mem_cons, not_or] at hk
        have : ¬ info.name = k := fun e => hk.1 e.symm
        simp [Plan.get_set, Plan.has_set, this]
    unfold drainedLoop at h
    split at h
    · rename_i hlt
      cases h
      exact base need (by omega) (by omega)
    · rename_i hge
      simp only at h
      split at h
      · cases h
        have := base info.cap (by omega) (Int.le_refl _)
        rename_i h0
        have hneq : need = info.cap := by omega
        rw [hneq]; exact this
      · rename_i hne
        have hfresh' : ∀ i ∈ rest, (d.set info.name info.cap).has i.name = false := by
          intro i hi
          have := hfresh i (List.mem_cons_of_mem _ hi)
          simp [Plan.has_set, hrest_ne i hi, this]
        obtain ⟨hs, hb, ho⟩ := ih (need - info.cap) (d.set info.name info.cap) (by omega)
          (fun i hi => hcap i (List.mem_cons_of_mem _ hi)) hnd.2 hfresh' h
        have hinfo := ho info.name hnd.1
        simp only [Plan.get_set, Plan.has_set, if_true] at hinfo
        refine ⟨by simp only [sumBy_cons, hs, hinfo.1]; omega, ?_, ?_⟩
        · intro i hi
          rcases List.mem_cons.mp hi with rfl | hi'
          · rw [hinfo.1]; omega
          · exact hb i hi'
        · intro k hk
          simp only [List.map_cons, List.mem_cons, not_or] at hk
          have hk' := ho k hk.2
          have : ¬ info.name = k := fun e => hk.1 e.symm
          simpa [Plan.get_set, Plan.has_set, this] using hk'

theorem drainedOn_spec (sorted : List Info) (need total : Int) (p : Plan)
    (hv : Valid sorted) (hneed : 1 ≤ need) (h : drainedOn sorted need total = .ok p) :
    PlanWithin sorted p ∧ sumBy sorted (fun i => p.get i.name) = need := by
  unfold drainedOn at h
  split at h
  · cases h
  · obtain ⟨hs, hb, ho⟩ := drainedLoop_spec sorted need [] p hneed (fun i hi => (hv.2 i hi).1) hv.1
      (fun _ _ => rfl) h
    refine ⟨⟨?_, hb⟩, hs⟩
    intro k hk
    by_cases hm : k ∈ sorted.map (·.name)
    · exact hm
    · have := (ho k hm).2; simp [Plan.has] at this; rw [this] at hk; cases hk

end Eru.Strategy

namespace Eru.Strategy
open Eru

/-! ### FILL -/

def fillEligible (need : Int) (i : Info) : Bool := i.cap ≥ need - i.count

theorem fillLoop_spec (need : Int) (L : List Info) (limit : Int) (d : Plan) (t : Int) (p : Plan) (flag : Bool)
    (hlim : 1 ≤ limit) (hnd : (L.map (·.name)).Nodup) (hfresh : ∀ i ∈ L, d.has i.name = false)
    (h : fillLoop need L limit d t = .ok (p, flag)) :
    ∃ pre post, L = pre ++ post ∧ ((pre.filter (fillEligible need)).length : Int) = limit ∧
      (∀ i ∈ pre, fillEligible need i = true → p.has i.name = true ∧ p.get i.name = max (need - i.count) 0) ∧
      (∀ i ∈ pre, fillEligible need i = false → p.has i.name = false ∧ p.get i.name = 0) ∧
      (∀ j ∈ post, p.has j.name = false ∧ p.get j.name = 0) ∧
      (∀ k, k ∉ L.map (·.name) → p.get k = d.get k ∧ p.has k = d.has k) := by
  induction L generalizing limit d t with
  | nil => simp [fillLoop] at h
  | cons info rest ih =>
    simp only [List.map_cons, List.nodup_cons] at hnd
    have hrest_ne : ∀ i ∈ rest, info.name ≠ i.name := by
      intro i hi e; exact hnd.1 (e ▸ List.mem_map_of_mem (f := (·.name)) hi)
    have hd_info : d.get info.name = 0 := Plan.get_of_not_has _ _ (hfresh info List.mem_cons_self)
    unfold fillLoop at h
    split at h
    · rename_i hel
      have hel' : fillEligible need info = true := by simpa [fillEligible] using hel
      simp only at h
      split at h
      · -- limit reached: stop here
        rename_i hl0
        cases h
        refine ⟨[info], rest, rfl, ?_, ?_, ?_, ?_, ?_⟩
        · simp [List.filter, hel']; omega
        · intro i hi _
          simp only [List.mem_singleton] at hi; subst hi
          simp [Plan.get_add, Plan.has_add, hd_info]
        · intro i hi hne
          simp only [List.mem_singleton] at hi; subst hi
          rw [hel'] at hne; cases hne
        · intro j hj
          have h1 := hfresh j (List.mem_cons_of_mem _ hj)
          have h2 := Plan.get_of_not_has _ _ h1
          simp [Plan.get_add, Plan.has_add, hrest_ne j hj, h1, h2]
        · intro k hk
          simp only [List.map_cons, List.mem_cons, not_or] at hk
          have : ¬ info.name = k := fun e => hk.1 e.symm
          simp [Plan.get_add, Plan.has_add, this]
      · rename_i hl0
        have hfresh' : ∀ i ∈ rest, (d.add info.name (max (need - info.count) 0)).has i.name = false := by
          intro i hi
          have := hfresh i (List.mem_cons_of_mem _ hi)
          simp [Plan.has_add, hrest_ne i hi, this]
        obtain ⟨pre, post, hL, hlen, hc, hs, hp, ho⟩ := ih (limit - 1) _ _ (by omega) hnd.2 hfresh' h
        have hinfo := ho info.name hnd.1
        simp only [Plan.get_add, Plan.has_add, if_true, hd_info, decide_true, Bool.true_or] at hinfo
        refine ⟨info :: pre, post, by simp [hL], ?_, ?_, ?_, hp, ?_⟩
        · simp only [List.filter, hel', List.length_cons]; push_cast; omega
        · intro i hi hei
          rcases List.mem_cons.mp hi with rfl | hi'
          · exact ⟨hinfo.2, by rw [hinfo.1]; simp⟩
          · exact hc i hi' hei
        · intro i hi hei
          rcases List.mem_cons.mp hi with rfl | hi'
          · rw [hel'] at hei; cases hei
          · exact hs i hi' hei
        · intro k hk
          simp only [List.map_cons, List.mem_cons, not_or] at hk
          have hk' := ho k hk.2
          have : ¬ info.name = k := fun e => hk.1 e.symm
          simpa [Plan.get_add, Plan.has_add, this] using hk'
    · rename_i hel
      have hel' : fillEligible need info = false := by simpa [fillEligible] using hel
      have hfresh' : ∀ i ∈ rest, d.has i.name = false := fun i hi => hfresh i (List.mem_cons_of_mem _ hi)
      obtain ⟨pre, post, hL, hlen, hc, hs, hp, ho⟩ := ih limit d t hlim hnd.2 hfresh' h
      have hinfo := ho info.name hnd.1
      refine ⟨info :: pre, post, by simp [hL], ?_, ?_, ?_, hp, ?_⟩
      · simp only [List.filter, hel']; exact hlen
      · intro i hi hei
        rcases List.mem_cons.mp hi with rfl | hi'
        · rw [hel'] at hei; cases hei
        · exact hc i hi' hei
      · intro i hi hei
        rcases List.mem_cons.mp hi with rfl | hi'
        · exact ⟨by rw [hinfo.2]; exact hfresh _ List.mem_cons_self, by rw [hinfo.1]; exact hd_info⟩
        · exact hs i hi' hei
      · intro k hk
        simp only [List.map_cons, List.mem_cons, not_or] at hk
        exact ho k hk.2

end Eru.Strategy
