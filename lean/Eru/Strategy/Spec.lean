import Eru.Strategy.Model
/-
Decidable specification predicates for C01–C03, evaluated by the oracle on the
*implementation's* output and proved of the model's output in Eru/Props/C0{1,2,3}.lean.
-/
namespace Eru.Strategy
open Eru

def sumBy (infos : List Info) (f : Info → Int) : Int := (infos.map f).sum

/-- saturating sum of capacities, as computed by the resource manager -/
def satTotal (infos : List Info) : Int :=
  infos.foldl (fun t i => if t + i.cap > maxInt then maxInt else t + i.cap) 0

def effLimit (infos : List Info) (limit : Int) : Int := if limit = 0 then infos.length else limit
/-- EACH (after the fix): any non-positive limit means "all nodes" -/
def effLimitEach (infos : List Info) (limit : Int) : Int := if limit ≤ 0 then infos.length else limit

/-- reference feasibility per strategy (C02) -/
def feasible (s : Strat) (infos : List Info) (need limit : Int) : Bool :=
  match s with
  | .auto =>
    if limit > 0 then sumBy infos (fun i => min i.cap (max (limit - i.count) 0)) ≥ need
    else sumBy infos (·.cap) ≥ need
  | .global | .drained => sumBy infos (·.cap) ≥ need
  | .each =>
    let l := effLimitEach infos limit
    l ≤ infos.length ∧ (infos.filter (fun i => i.cap ≥ need)).length ≥ max l 1
  | .fill =>
    let l := effLimit infos limit
    l ≤ infos.length ∧ l ≥ 1 ∧ (infos.filter (fun i => i.cap ≥ need - i.count)).length ≥ l

/-- C01 clauses common to all strategies -/
def c01Common (infos : List Info) (p : Plan) : Bool :=
  p.keys.all (fun k => infos.any (·.name == k)) &&
  infos.all (fun i => 0 ≤ p.get i.name && p.get i.name ≤ i.cap)

def c01 (s : Strat) (infos : List Info) (need limit : Int) (p : Plan) : Bool :=
  c01Common infos p &&
  match s with
  | .auto =>
    sumBy infos (fun i => p.get i.name) == need &&
    (limit ≤ 0 || infos.all (fun i => p.get i.name ≤ 0 || i.count + p.get i.name ≤ limit))
  | .global | .drained => sumBy infos (fun i => p.get i.name) == need
  | .each =>
    infos.all (fun i => p.get i.name == 0 || p.get i.name == need) &&
    (infos.filter (fun i => p.get i.name == need)).length == effLimitEach infos limit
  | .fill =>
    infos.all (fun i => !p.has i.name || (p.get i.name == max (need - i.count) 0 && i.count + p.get i.name ≥ need)) &&
    (infos.filter (fun i => p.has i.name)).length == effLimit infos limit

/-- C03 balancing clauses -/
def canTake (infos : List Info) (limit : Int) (p : Plan) (j : Info) : Bool :=
  p.get j.name < j.cap && (limit ≤ 0 || j.count + p.get j.name < limit)

def c03 (s : Strat) (infos : List Info) (need limit : Int) (p : Plan) : Bool :=
  match s with
  | .auto =>
    infos.all fun i => infos.all fun j =>
      !(p.get i.name > 0 && canTake infos limit p j) ||
        i.count + p.get i.name ≤ j.count + p.get j.name + 1
  | .global =>
    infos.all fun i => infos.all fun j =>
      !(p.get i.name > 0 && p.get j.name < j.cap) ||
        i.usage + i.rate * p.get i.name ≤ j.usage + j.rate * p.get j.name + j.rate
  | .drained =>
    infos.all fun i => infos.all fun j =>
      !(i.cap < j.cap && p.get j.name > 0) || p.get i.name == i.cap
  | .each =>
    infos.all fun i => infos.all fun j =>
      !(p.get i.name > 0 && p.get j.name == 0) || i.cap ≥ j.cap
  | .fill =>
    infos.all fun i => infos.all fun j =>
      !(p.has i.name && !p.has j.name && j.cap ≥ need - j.count) || i.count ≥ j.count

end Eru.Strategy
