import Eru.Cluster.ProofsStream
/-
add-node / remove-node: invariant preservation (C10) and "a failed call changes nothing" (C11).
-/
set_option linter.unusedSectionVars false
set_option linter.unusedSimpArgs false
namespace Eru.Cluster
variable {R : Type} [ResAlg R]
open ResAlg

section proj
variable (n : String) (c : R) (s : State R)
@[simp] theorem pAddNode_wls : (pAddNode n c s).wls = s.wls := rfl
@[simp] theorem pAddNode_next : (pAddNode n c s).next = s.next := rfl
@[simp] theorem pAddNode_nodes : (pAddNode n c s).nodes = s.nodes := rfl
@[simp] theorem pAddNode_cts : (pAddNode n c s).cts = s.cts := rfl
@[simp] theorem pAddNode_pnodes : (pAddNode n c s).pnodes = n :: s.pnodes := rfl
@[simp] theorem pAddNode_cap : (pAddNode n c s).cap = fun m => if m = n then c else s.cap m := rfl
@[simp] theorem pAddNode_usage : (pAddNode n c s).usage = fun m => if m = n then zero else s.usage m := rfl
@[simp] theorem pRmNode_wls : (pRmNode n s).wls = s.wls := rfl
@[simp] theorem pRmNode_next : (pRmNode n s).next = s.next := rfl
@[simp] theorem pRmNode_nodes : (pRmNode n s).nodes = s.nodes := rfl
@[simp] theorem pRmNode_cts : (pRmNode n s).cts = s.cts := rfl
@[simp] theorem pRmNode_pnodes : (pRmNode n s).pnodes = s.pnodes.filter (fun m => m != n) := rfl
@[simp] theorem pRmNode_cap : (pRmNode n s).cap = fun m => if m = n then zero else s.cap m := rfl
@[simp] theorem pRmNode_usage : (pRmNode n s).usage = fun m => if m = n then zero else s.usage m := rfl
@[simp] theorem sAddNode_wls : (sAddNode n s).wls = s.wls := rfl
@[simp] theorem sAddNode_next : (sAddNode n s).next = s.next := rfl
@[simp] theorem sAddNode_usage : (sAddNode n s).usage = s.usage := rfl
@[simp] theorem sAddNode_cap : (sAddNode n s).cap = s.cap := rfl
@[simp] theorem sAddNode_cts : (sAddNode n s).cts = s.cts := rfl
@[simp] theorem sAddNode_pnodes : (sAddNode n s).pnodes = s.pnodes := rfl
@[simp] theorem sAddNode_nodes : (sAddNode n s).nodes = s.nodes ++ [n] := rfl
@[simp] theorem sRmNode_wls : (sRmNode n s).wls = s.wls := rfl
@[simp] theorem sRmNode_next : (sRmNode n s).next = s.next := rfl
@[simp] theorem sRmNode_usage : (sRmNode n s).usage = s.usage := rfl
@[simp] theorem sRmNode_cap : (sRmNode n s).cap = s.cap := rfl
@[simp] theorem sRmNode_cts : (sRmNode n s).cts = s.cts := rfl
@[simp] theorem sRmNode_pnodes : (sRmNode n s).pnodes = s.pnodes := rfl
@[simp] theorem sRmNode_nodes : (sRmNode n s).nodes = s.nodes.filter (fun m => m != n) := rfl
end proj

/-- no workload is recorded on node `n` -/
def NoWlOn (n : String) (s : State R) : Prop := ∀ w ∈ s.wls, w.node ≠ n

theorem loadL_zero_of_noWl (ws : List (Wl R)) (n : String) (h : ∀ w ∈ ws, w.node ≠ n) : loadL ws n = zero := by
  induction ws with
  | nil => rfl
  | cons w rest ih =>
    have hw : ¬ w.node = n := h w (List.mem_cons_self ..)
    simp only [loadL, hw, if_false]
    exact ih (fun x hx => h x (List.mem_cons_of_mem _ hx))

/-- creating or deleting the plugin record of a node without workloads keeps `Inv` -/
theorem inv_zero_usage {s s' : State R} {n : String} (h : Inv s) (hno : NoWlOn n s)
    (hw : s'.wls = s.wls) (hn : s'.next = s.next)
    (hu : s'.usage = fun m => if m = n then zero else s.usage m) : Inv s' := by
  obtain ⟨h1, h2, h3⟩ := h
  refine ⟨hw ▸ h1, fun w hw' => by rw [hn]; exact h2 w (hw ▸ hw'), ?_⟩
  intro m
  unfold load
  rw [hu, hw]
  by_cases hm : m = n
  · subst hm
    simp only [if_true]
    exact (loadL_zero_of_noWl s.wls m hno).symm
  · simp only [hm, if_false]
    exact h3 m

def InvNo (n : String) (s : State R) : Prop := Inv s ∧ NoWlOn n s

theorem pres_invNo_step (n : String) (k nd : String) (eff : State R → State R)
    (h : ∀ s, InvNo n s → InvNo n (eff s)) : Pres (onSt (InvNo n)) (step k nd eff) :=
  pres_step _ _ _ h

theorem invNo_keep {n : String} {s s' : State R} (h : InvNo n s) (hu : s'.usage = s.usage) (hw : s'.wls = s.wls)
    (hn : s'.next = s.next) : InvNo n s' :=
  ⟨inv_of_eq h.1 hu hw (Nat.le_of_eq hn.symm), fun w hw' => h.2 w (hw ▸ hw')⟩

theorem invNo_zero {n : String} {s s' : State R} (h : InvNo n s) (hw : s'.wls = s.wls) (hn : s'.next = s.next)
    (hu : s'.usage = fun m => if m = n then zero else s.usage m) : InvNo n s' :=
  ⟨inv_zero_usage h.1 h.2 hw hn hu, fun w hw' => h.2 w (hw ▸ hw')⟩

/-- **add-node keeps `Inv`** (no workload is recorded under the new node's name) -/
theorem pres_addNode (n : String) (c : R) : Pres (onSt (InvNo n)) (addNode n c) := by
  unfold addNode
  apply pres_bind (pres_invNo_step n _ _ id (fun s h => h)); intro _
  apply pres_bind (fun _ _ h => h); intro s
  apply pres_txn onSt_setDet
  · apply pres_ite
    · exact pres_bind (pres_invNo_step n _ _ id (fun s h => h)) (fun _ => pres_refuse _)
    · exact pres_invNo_step n _ _ (pAddNode n c) (fun s h => invNo_zero h rfl rfl rfl)
  · apply pres_ite
    · exact pres_bind (pres_invNo_step n _ _ id (fun s h => h)) (fun _ => pres_refuse _)
    · exact pres_invNo_step n _ _ (sAddNode n) (fun s h => invNo_keep h rfl rfl rfl)
  · apply pres_onThenFailure
    exact pres_invNo_step n _ _ (pRmNode n) (fun s h => invNo_zero h rfl rfl rfl)

/-- **remove-node keeps `Inv`** (it refuses a node that still has workloads) -/
theorem pres_removeNode (n : String) : Pres (onSt Inv) (removeNode (R := R) n) := by
  unfold removeNode
  apply pres_bind (pres_readStep _ _); intro _
  apply pres_getSt_bind
  intro flt ms h
  rw [wp_ite]
  split
  · rw [wp_bind]
    apply wp_mono (wp_readStep_st _ _ flt ms)
    intro o ms1 h1
    have h1' : Inv ms1.st := by rw [h1]; exact h
    cases o with
    | fail => exact h1'
    | ok u =>
      simp only [wpK_ok]
      rw [wp_ite]
      split
      · exact h1'
      · rename_i hany
        have hno : NoWlOn n ms1.st := by
          intro w hw hnode
          apply hany
          rw [h1] at hw
          simp only [List.any_eq_true, beq_iff_eq]
          exact ⟨w, hw, hnode⟩
        have hI : onSt (InvNo n) ms1 := ⟨h1', hno⟩
        have : Pres (onSt (InvNo n)) (removeNodeTxn (R := R) n) := by
          unfold removeNodeTxn removeNodeCond
          apply pres_txn onSt_setDet
          · apply pres_bind (pres_attempt (pres_invNo_step n _ _ id (fun s h => h))); intro _
            apply pres_bind (pres_invNo_step n _ _ (sRmNode n) (fun s h => invNo_keep h rfl rfl rfl)); intro _
            apply pres_bind (pres_attempt (pres_invNo_step n _ _ id (fun s h => h))); intro _
            exact pres_pure _ _
          · exact pres_invNo_step n _ _ (pRmNode n) (fun s h => invNo_zero h rfl rfl rfl)
          · intro f hf b
            simp only [Option.some.injEq] at hf
            subst hf
            exact pres_pure _ _
        exact wp_mono (this flt ms1 hI) (fun _ _ h' => h'.1)
  · exact h

/-! ### C11 -/

/-- same abstract projection including the plugin's node records -/
def NodeAbsEq (s s' : State R) : Prop := AbsEq s s' ∧ s'.pnodes = s.pnodes

/-- **add-node**: whatever single step fails (engine info, plugin, store), a failed AddNode leaves
nodes, plugin records, capacity, usage and workloads as they were. `hfresh`: a node the plugin has
no record of reads as zero capacity / usage. -/
theorem addNode_failed (n : String) (c : R) (flt : Option Addr) (ms : MS R)
    (hfresh : ¬ ms.st.pnodes.contains n → ms.st.cap n = zero ∧ ms.st.usage n = zero)
    (hsub : ms.st.nodes.contains n = true → ms.st.pnodes.contains n = true) :
    wp (addNode n c) (fun o ms' => o = .fail → NodeAbsEq ms.st ms'.st) flt ms := by
  have same : ∀ ms' : MS R, ms'.st = ms.st → NodeAbsEq ms.st ms'.st := by
    intro ms' e; rw [e]; exact ⟨AbsEq.refl _, rfl⟩
  unfold addNode
  rw [wp_bind, wp_readStep]
  split
  · intro _; exact same _ rfl
  · simp only [wpK_ok]
    rw [wp_bind, wp_getSt]
    simp only [wpK_ok, okMS_st, id]
    rw [wp_txn, wp_ite]
    split
    · wp_simp
      split <;> (intro _; exact same _ rfl)
    · rename_i hnot
      have hz := hfresh (by simpa using hnot)
      have hns : ms.st.nodes.contains n = false := by
        cases hc : ms.st.nodes.contains n with
        | false => rfl
        | true => exact absurd (hsub hc) hnot
      simp only [hns, Bool.false_eq_true, if_false]
      wp_simp
      split
      · intro _; exact same _ rfl
      · split
        · intro _
          simp only [exec_step, hit_fired, failMS_fired, okMS_fired, Bool.false_eq_true, if_false, okMS_st, failMS_st, id]
          refine ⟨⟨rfl, ?_, ?_, fun _ => Iff.rfl⟩, ?_⟩
          · funext m
            by_cases hm : m = n
            · subst hm; simp [hz.1]
            · simp [hm]
          · funext m
            by_cases hm : m = n
            · subst hm; simp [hz.2]
            · simp [hm]
          · simp only [pRmNode_pnodes, pAddNode_pnodes, List.filter_cons, bne_self_eq_false, Bool.false_eq_true, if_false]
            apply List.filter_eq_self.mpr
            intro x hx
            have : x ≠ n := fun e => hnot (by simpa using (e ▸ hx))
            simpa using this
        · intro hc; cases hc

/-- the fault plan does not hit the plugin's RemoveNode call -/
def RemoveNodeGuard (flt : Option Addr) : Prop := ∀ a, flt = some a → a.kind ≠ "pluginRemoveNode"

/-- **remove-node, partial (D16c)**: when the plan does not hit the plugin's RemoveNode and the caller is not
cancelled (a cancelled caller makes the plugin call of the then-step fail just the same), a failed
RemoveNode leaves everything as it was. -/
theorem removeNode_failed_partial (n : String) (flt : Option Addr) (hG : RemoveNodeGuard flt) (ms : MS R)
    (hnc : ms.cancel = none ∧ ms.cancelled = false) :
    wp (removeNode n) (fun o ms' => o = .fail → NodeAbsEq ms.st ms'.st) flt ms := by
  have same : ∀ ms' : MS R, ms'.st = ms.st → NodeAbsEq ms.st ms'.st := by
    intro ms' e; rw [e]; exact ⟨AbsEq.refl _, rfl⟩
  unfold removeNode
  rw [wp_bind, wp_readStep]
  split
  · intro _; exact same _ rfl
  · simp only [wpK_ok]
    rw [wp_bind, wp_getSt]
    simp only [wpK_ok, okMS_st, id]
    rw [wp_ite]
    split
    · rw [wp_bind, wp_readStep]
      split
      · intro _; exact same _ rfl
      · simp only [wpK_ok, okMS_st, id]
        rw [wp_ite]
        split
        · intro _; exact same _ rfl
        · unfold removeNodeTxn removeNodeCond
          wp_simp
          have hcx : ∀ (c : List (String × String × Nat)) (d : Bool), ((false || decide ((none : Option (Addr × Bool)) = some (⟨"pluginRemoveNode", n, count c "pluginRemoveNode" n⟩, false))) && !d && sensitive "pluginRemoveNode") = false := by
            intro c d; simp
          simp only [cxOf, cancelHere, cancelledAfter, okMS, failMS, hnc.1, hnc.2, Bool.false_or, Bool.or_false,
            reduceCtorEq, decide_false, Bool.false_and, hit_of_kind_ne hG, Bool.false_eq_true, if_false]
          repeat' split
          all_goals first
            | (intro _; exact ⟨AbsEq.refl _, rfl⟩)
            | (intro hc; exact absurd hc (by simp))
    · intro _; exact same _ rfl

/-- the plugin's view is well-formed: a node it has no record of reads as zero capacity / usage,
and every node of the store has a plugin record -/
def PluginWF (s : State R) : Prop :=
  (∀ n, s.pnodes.contains n = false → s.cap n = zero ∧ s.usage n = zero) ∧
  (∀ n, s.nodes.contains n = true → s.pnodes.contains n = true)

theorem pluginWF_pAdd {s : State R} (n : String) (c : R) (h : PluginWF s) : PluginWF (pAddNode n c s) := by
  refine ⟨fun m hm => ?_, fun m hm => ?_⟩
  · simp only [pAddNode_pnodes, List.contains_cons, Bool.or_eq_false_iff, beq_eq_false_iff_ne, ne_eq] at hm
    have := h.1 m hm.2
    simp [hm.1, this]
  · simp only [pAddNode_pnodes, List.contains_cons, Bool.or_eq_true]
    exact Or.inr (h.2 m hm)

/-- successful add-node keeps the plugin's view well-formed (the store record comes second) -/
theorem pluginWF_addNode_ok {s : State R} (n : String) (c : R) (h : PluginWF s) :
    PluginWF (sAddNode n (pAddNode n c s)) := by
  have h1 := pluginWF_pAdd n c h
  refine ⟨h1.1, fun m hm => ?_⟩
  simp only [sAddNode_nodes, List.contains_eq_mem, List.mem_append, List.mem_singleton, decide_eq_true_eq] at hm
  rcases hm with hm | rfl
  · exact h1.2 m (by simpa using hm)
  · simp

/-- successful remove-node (store record first, plugin record second) keeps it well-formed when
node names are distinct in the store -/
theorem pluginWF_removeNode_ok {s : State R} (n : String) (h : PluginWF s) (hnd : s.nodes.Nodup) :
    PluginWF (pRmNode n (sRmNode n s)) := by
  refine ⟨fun m hm => ?_, fun m hm => ?_⟩
  · by_cases hmn : m = n
    · subst hmn; simp
    · have : s.pnodes.contains m = false := by
        cases hc : s.pnodes.contains m with
        | false => rfl
        | true =>
          exfalso
          simp only [pRmNode_pnodes, sRmNode_pnodes, List.contains_eq_mem, List.mem_filter, decide_eq_false_iff_not] at hm
          apply hm
          exact ⟨by simpa using hc, by simpa using hmn⟩
      have := h.1 m this
      simp [hmn, this]
  · simp only [pRmNode_nodes, sRmNode_nodes, List.contains_eq_mem, List.mem_filter, decide_eq_true_eq] at hm
    have hp := h.2 m (by simpa using hm.1)
    simp only [pRmNode_pnodes, sRmNode_pnodes, List.contains_eq_mem, List.mem_filter, decide_eq_true_eq]
    exact ⟨by simpa using hp, hm.2⟩

/-- the repair establishes usage = Σ records on the repaired node and touches nothing else -/
theorem inv_fixUsage (n : String) (s : State R) (h : Inv s) : Inv (fixUsage n s) := by
  obtain ⟨h1, h2, h3⟩ := h
  refine ⟨h1, h2, fun m => ?_⟩
  show (if m = n then load s n else s.usage m) = load s m
  by_cases hm : m = n
  · subst hm; simp
  · simp only [hm, if_false]; exact h3 m

/-- **NodeResource (with or without fix) keeps `Inv`** -/
theorem pres_nodeResource (n : String) (fix : Bool) : Pres (onSt Inv) (nodeResource (R := R) n fix) := by
  unfold nodeResource
  apply pres_bind (pres_readStep _ _); intro _
  apply pres_bind (pres_readStep _ _); intro _
  apply pres_bind
  · cases fix
    · exact pres_step _ _ _ (fun s h => h)
    · exact pres_step _ _ _ (fun s h => inv_fixUsage n s h)
  intro _
  apply pres_bind (fun _ _ h => h); intro s
  exact pres_forEach _ (fun _ _ => pres_bind (pres_attempt (pres_readStep _ _)) (fun _ => pres_pure _ _))

end Eru.Cluster
