import Eru.Cluster.ProofsState
/-
Exact outcome of the per-workload transactions under EVERY single-fault placement:
either the operation succeeds and the state is the explicit success state, or it fails and
the abstract projection (usage, capacity, nodes, workload records up to order) is the one
before.  Proved by enumerating, with the wp calculus, the places where the plan can hit.
-/
set_option linter.unusedSectionVars false
set_option linter.unusedSimpArgs false
namespace Eru.Cluster
variable {R : Type} [ResAlg R]
open ResAlg

/-- outcome of removing / dissociating workload `w` started in state `s` -/
def ReleasePost (w : Wl R) (s : State R) (o : Out Unit) (s' : State R) : Prop :=
  s'.cap = s.cap ∧ s'.nodes = s.nodes ∧ s'.next = s.next ∧
  ((o = .ok () ∧ s'.usage = (addUsage w.node (-w.res) s).usage ∧ s'.wls = s.wls.filter (fun x => x.id != w.id) ∧
      s'.cts = s.cts.filter (fun c => c.id != w.id)) ∨
   (o = .fail ∧ s'.usage = s.usage ∧ s'.cts = s.cts ∧
      (s'.wls = s.wls ∨ s'.wls = w :: s.wls.filter (fun x => x.id != w.id))))

theorem dissociateTxn_spec (w : Wl R) (flt : Option Addr) (ms : MS R) :
    wp (dissociateTxn w) (fun o ms' =>
      ms'.st.cap = ms.st.cap ∧ ms'.st.nodes = ms.st.nodes ∧ ms'.st.next = ms.st.next ∧ ms'.st.cts = ms.st.cts ∧
      ((o = .ok () ∧ ms'.st.usage = (addUsage w.node (-w.res) ms.st).usage ∧
          ms'.st.wls = ms.st.wls.filter (fun x => x.id != w.id)) ∨
       (o = .fail ∧ ms'.st.usage = ms.st.usage ∧ ms'.st.wls = ms.st.wls))) flt ms := by
  unfold dissociateTxn
  wp_simp
  split
  · simp
  · split
    · simp
    · simp

theorem removeTxn_spec (w : Wl R) (flt : Option Addr) (ms : MS R) :
    wp (removeTxn w) (fun o ms' => ReleasePost w ms.st o ms'.st) flt ms := by
  unfold removeTxn doRemoveWorkload ReleasePost
  wp_simp
  split
  · simp
  · split
    · simp
    · split
      · simp
      · simp

/-- outcome of `doReallocOnNode` for workload `w` -/
theorem doReallocOnNode_spec (w : Wl R) (answer : Option (R × R)) (flt : Option Addr) (ms : MS R) :
    wp (doReallocOnNode w answer) (fun o ms' =>
      ms'.st.cap = ms.st.cap ∧ ms'.st.nodes = ms.st.nodes ∧ ms'.st.next = ms.st.next ∧ ms'.st.cts = ms.st.cts ∧
      ((∃ delta newRes, answer = some (delta, newRes) ∧ o = .ok () ∧
          ms'.st.usage = (addUsage w.node delta ms.st).usage ∧ ms'.st.wls = (setWlRes w.id newRes ms.st).wls) ∨
       (o = .fail ∧ ms'.st.usage = ms.st.usage ∧
          (ms'.st.wls = ms.st.wls ∨ ms'.st.wls = (setWlRes w.id w.res ms.st).wls)))) flt ms := by
  cases answer with
  | none =>
    have h : doReallocOnNode w (none : Option (R × R)) = (do readStep "pluginRealloc" w.node; refuse) := rfl
    rw [h]
    wp_simp
    split <;> simp
  | some p =>
    obtain ⟨delta, newRes⟩ := p
    have h : doReallocOnNode w (some (delta, newRes)) = (do
      setFlag false
      txn (step "pluginRealloc" w.node (addUsage w.node delta))
        (do step "storeUpdateWorkload" w.node (setWlRes w.id newRes)
            setFlag true
            readStep "engineUpdate" w.node)
        (onThenFailure (do
            step "pluginRollbackRealloc" w.node (addUsage w.node (-delta))
            let ms ← getMS
            if ms.flag then step "storeUpdateWorkload" w.node (setWlRes w.id w.res) else pure ()))) := rfl
    rw [h]
    wp_simp
    split
    · simp
    · split
      · simp
      · split
        · simp [List.map_map]
          right
          intro x _
          by_cases h : x.id = w.id <;> simp [h]
        · simp
          exact ⟨delta, newRes, ⟨rfl, rfl⟩, rfl, fun _ _ => rfl⟩

end Eru.Cluster

namespace Eru.Cluster
variable {R : Type} [ResAlg R]
open ResAlg

theorem filter_map_running (l : List Ct) (id : Nat) (b : Bool) :
    (l.map (fun c => if c.id = id then { c with running := b } else c)).filter (fun c => c.id != id) =
      l.filter (fun c => c.id != id) := by
  induction l with
  | nil => rfl
  | cons c rest ih =>
    by_cases h : c.id = id
    · simp [List.filter_cons, h, ih]
    · simp [List.filter_cons, h, ih]

/-- what `deployTxn` / `deployOne` guarantee, relative to the machine state `ms` they started in;
`o`: did it succeed -/
def DeployPost (n : String) (r : R) (ms : MS R) (ok : Bool) (ms' : MS R) : Prop :=
  ms'.st.cap = ms.st.cap ∧ ms'.st.nodes = ms.st.nodes ∧ ms'.st.usage = ms.st.usage ∧
  ms'.failed = ms.failed ∧ ms'.allocd = ms.allocd ∧ ms'.msgs = ms.msgs ∧ ms.st.next ≤ ms'.st.next ∧
  (ms.fired = true → ms'.fired = true) ∧
  ((ok = true ∧ ms'.st.wls = ⟨ms.st.next, n, r⟩ :: ms.st.wls ∧ ms'.st.next = max ms.st.next (ms.st.next + 1) ∧
      ms'.st.cts = ⟨ms.st.next, n, true⟩ :: (setRunning ms.st.next true ms.st).cts) ∨
   (ok = false ∧ ms'.fired = true ∧
      (ms'.st.wls = ms.st.wls ∨ ms'.st.wls = ms.st.wls.filter (fun w => w.id != ms.st.next)) ∧
      (ms'.st.cts = ms.st.cts ∨ ms'.st.cts = ms.st.cts.filter (fun c => c.id != ms.st.next))))

theorem deployTxn_spec (n : String) (r : R) (decr : Bool) (flt : Option Addr) (ms : MS R) :
    wp (deployTxn n r decr ms.st.next)
      (fun o ms' => DeployPost n r ms (match o with | .ok _ => true | .fail => false) ms') flt ms := by
  unfold deployTxn DeployPost
  cases decr <;>
  · simp only [Bool.false_eq_true, if_false, if_true]
    wp_simp
    split
    · wp_fin
    · split
      · wp_fin
      · split
        · wp_fin
        · split
          · wp_fin
          · split
            · simp [exec_pure, exec_step, exec_bind_step, exec_bind_getSt, exec_ite, filter_map_running]
            · wp_fin

/-- nothing the properties look at changed (only WAL / markers / bookkeeping may differ) -/
def Same (ms ms' : MS R) : Prop :=
  ms'.st.cap = ms.st.cap ∧ ms'.st.nodes = ms.st.nodes ∧ ms'.st.usage = ms.st.usage ∧ ms'.st.wls = ms.st.wls ∧
  ms'.st.cts = ms.st.cts ∧ ms'.st.next = ms.st.next ∧ ms'.failed = ms.failed ∧ ms'.allocd = ms.allocd ∧
  ms'.msgs = ms.msgs ∧ (ms.fired = true → ms'.fired = true)

theorem Same.refl (ms : MS R) : Same ms ms := ⟨rfl, rfl, rfl, rfl, rfl, rfl, rfl, rfl, rfl, id⟩

theorem Same.trans {a b c : MS R} (h1 : Same a b) (h2 : Same b c) : Same a c := by
  obtain ⟨a1, a2, a3, a4, a5, a6, a7, a8, a9, a10⟩ := h1
  obtain ⟨b1, b2, b3, b4, b5, b6, b7, b8, b9, b10⟩ := h2
  exact ⟨b1.trans a1, b2.trans a2, b3.trans a3, b4.trans a4, b5.trans a5, b6.trans a6, b7.trans a7,
    b8.trans a8, b9.trans a9, fun h => b10 (a10 h)⟩

/-- a step whose effect does not touch what the properties look at -/
def Inert (eff : State R → State R) : Prop :=
  ∀ s, (eff s).cap = s.cap ∧ (eff s).nodes = s.nodes ∧ (eff s).usage = s.usage ∧ (eff s).wls = s.wls ∧
       (eff s).cts = s.cts ∧ (eff s).next = s.next

theorem inert_id : Inert (id : State R → State R) := fun _ => ⟨rfl, rfl, rfl, rfl, rfl, rfl⟩
theorem inert_walAdd (e n : String) (k : Nat) : Inert (walAdd (R := R) e n k) := fun _ => ⟨rfl, rfl, rfl, rfl, rfl, rfl⟩
theorem inert_walRm (e n : String) (k : Nat) : Inert (walRm (R := R) e n k) := fun _ => ⟨rfl, rfl, rfl, rfl, rfl, rfl⟩
theorem inert_addMarker (n : String) (k : Nat) : Inert (addMarker (R := R) n k) := fun _ => ⟨rfl, rfl, rfl, rfl, rfl, rfl⟩
theorem inert_rmMarker (n : String) : Inert (rmMarker (R := R) n) := fun _ => ⟨rfl, rfl, rfl, rfl, rfl, rfl⟩

/-- an inert step keeps everything; if it fails the fault has fired -/
theorem wp_step_inert (k n : String) (eff : State R → State R) (he : Inert eff) (flt : Option Addr) (ms : MS R) :
    wp (step k n eff) (fun o ms' => Same ms ms' ∧ (o = .fail → ms'.fired = true)) flt ms := by
  rw [wp_step]
  have := he ms.st
  split
  · simp [Same]
  · simp [Same, this]

theorem attempt_step_inert (k n : String) (eff : State R → State R) (he : Inert eff) (flt : Option Addr) (ms : MS R) :
    wp (attempt (step k n eff)) (fun o ms' => (∃ b, o = .ok b) ∧ Same ms ms') flt ms := by
  rw [wp_attempt]
  apply wp_mono (wp_step_inert k n eff he flt ms)
  intro o ms' h
  cases o <;> simp [h.1]

theorem commitCreated_spec (n : String) (id : Nat) (flt : Option Addr) (ms : MS R) :
    wp (commitCreated n id) (fun o ms' => o = .ok () ∧ Same ms ms') flt ms := by
  unfold commitCreated
  rw [wp_bind, wp_getSt]
  simp only [wpK_ok]
  rw [wp_ite]
  split
  · rw [wp_bind]
    apply wp_mono (attempt_step_inert _ _ _ (inert_walRm _ _ _) flt ms)
    intro o ms' h
    obtain ⟨⟨b, rfl⟩, hs⟩ := h
    simp only [wpK_ok, wp_pure]
    exact ⟨trivial, hs⟩
  · rw [wp_pure]
    exact ⟨rfl, Same.refl ms⟩

theorem DeployPost.same {n : String} {r : R} {ms ms1 ms2 : MS R} {b : Bool}
    (h : DeployPost n r ms b ms1) (hs : Same ms1 ms2) : DeployPost n r ms b ms2 := by
  obtain ⟨s1, s2, s3, s4, s5, s6, s7, s8, s9, s10⟩ := hs
  obtain ⟨h1, h2, h3, h4, h5, h6, h7, h8, h9⟩ := h
  refine ⟨s1.trans h1, s2.trans h2, s3.trans h3, s7.trans h4, s8.trans h5, s9.trans h6, by omega,
    fun hf => s10 (h8 hf), ?_⟩
  rcases h9 with ⟨hb, hw, hn, hc⟩ | ⟨hb, hf, hw, hc⟩
  · exact Or.inl ⟨hb, s4.trans hw, s6.trans hn, s5.trans hc⟩
  · refine Or.inr ⟨hb, s10 hf, ?_, ?_⟩
    · rw [s4]; exact hw
    · rw [s5]; exact hc

/-- outcome of `doDeployOneWorkload` (see `DeployPost`); on success the returned id is the fresh id -/
theorem deployOne_spec (n : String) (r : R) (decr : Bool) (flt : Option Addr) (ms : MS R) :
    wp (deployOne n r decr) (fun o ms' =>
      (o = .ok ms.st.next ∧ DeployPost n r ms true ms') ∨ (o = .fail ∧ DeployPost n r ms false ms')) flt ms := by
  unfold deployOne
  rw [wp_bind, wp_getSt]
  simp only [wpK_ok]
  rw [wp_bind, wp_attempt]
  apply wp_mono (deployTxn_spec n r decr flt ms)
  intro o ms1 h1
  cases o with
  | ok u =>
    simp only [attK_ok, wpK_ok]
    rw [wp_bind]
    apply wp_mono (commitCreated_spec n ms.st.next flt ms1)
    intro o2 ms2 h2
    obtain ⟨rfl, hs⟩ := h2
    simp only [wpK_ok, if_true, wp_pure]
    exact Or.inl ⟨trivial, h1.same hs⟩
  | fail =>
    simp only [attK_fail, wpK_ok]
    rw [wp_bind]
    apply wp_mono (commitCreated_spec n ms.st.next flt ms1)
    intro o2 ms2 h2
    obtain ⟨rfl, hs⟩ := h2
    simp only [wpK_ok, Bool.false_eq_true, if_false, wp_refuse]
    exact Or.inr ⟨trivial, h1.same hs⟩

end Eru.Cluster
