import Eru.Cluster.Steps
/-
Weakest-precondition calculus for the step programs: `wp m Q flt ms` says that running `m`
under fault plan `flt` from machine state `ms` ends in an outcome and machine state
satisfying `Q`.  The lemmas below reduce `wp` of a program to nested case distinctions on
"does the plan hit this step?", which `split` then enumerates; after a hit `fired` is set and
every later step succeeds (`step_of_fired`).
-/
namespace Eru.Cluster
variable {R : Type}

def wp {α} (m : M R α) (Q : Out α → MS R → Prop) (flt : Option Addr) (ms : MS R) : Prop :=
  Q (m flt ms).1 (m flt ms).2

/-- final machine state of a program (used for rollbacks, whose outcome is only logged) -/
def exec {α} (m : M R α) (flt : Option Addr) (ms : MS R) : MS R := (m flt ms).2

theorem wp_pure {α} (a : α) (Q : Out α → MS R → Prop) (flt ms) :
    wp (pure a : M R α) Q flt ms ↔ Q (.ok a) ms := Iff.rfl

/-- continuation of a bind (kept folded until the outcome is known, so that post-conditions
are not duplicated at every bind) -/
def wpK {α β} (f : α → M R β) (Q : Out β → MS R → Prop) (flt : Option Addr) (o : Out α) (ms : MS R) : Prop :=
  match o with
  | .ok a => wp (f a) Q flt ms
  | .fail => Q .fail ms

@[simp] theorem wpK_ok {α β} (f : α → M R β) (Q : Out β → MS R → Prop) (flt) (a : α) (ms : MS R) :
    wpK f Q flt (.ok a) ms = wp (f a) Q flt ms := rfl
@[simp] theorem wpK_fail {α β} (f : α → M R β) (Q : Out β → MS R → Prop) (flt) (ms : MS R) :
    wpK f Q flt (.fail : Out α) ms = Q .fail ms := rfl

theorem wp_bind {α β} (m : M R α) (f : α → M R β) (Q : Out β → MS R → Prop) (flt ms) :
    wp (m >>= f) Q flt ms ↔ wp m (wpK f Q flt) flt ms := by
  show wp (M.bind m f) Q flt ms ↔ _
  unfold wp M.bind
  cases h : m flt ms with
  | mk o ms' => cases o <;> simp [wpK, wp]

/-- consequence rule -/
theorem wp_mono {α} {m : M R α} {Q Q' : Out α → MS R → Prop} {flt : Option Addr} {ms : MS R}
    (h : wp m Q flt ms) (himp : ∀ o ms', Q o ms' → Q' o ms') : wp m Q' flt ms := himp _ _ h

theorem wp_step (k n : String) (eff : State R → State R) (Q : Out Unit → MS R → Prop) (flt ms) :
    wp (step k n eff) Q flt ms ↔
      (if hit flt ms.fired ms.cnt (cxOf ms k n) k n = true then Q .fail (failMS ms k n) else Q (.ok ()) (okMS ms k n eff)) := by
  unfold wp step
  split <;> simp

theorem wp_readStep (k n : String) (Q : Out Unit → MS R → Prop) (flt ms) :
    wp (readStep k n) Q flt ms ↔
      (if hit flt ms.fired ms.cnt (cxOf ms k n) k n = true then Q .fail (failMS ms k n) else Q (.ok ()) (okMS ms k n id)) :=
  wp_step k n id Q flt ms

theorem wp_refuse {α} (Q : Out α → MS R → Prop) (flt ms) : wp (refuse : M R α) Q flt ms ↔ Q .fail ms := Iff.rfl
theorem wp_getSt (Q : Out (State R) → MS R → Prop) (flt ms) : wp getSt Q flt ms ↔ Q (.ok ms.st) ms := Iff.rfl
theorem wp_setFlag (b : Bool) (Q : Out Unit → MS R → Prop) (flt ms) :
    wp (setFlag b) Q flt ms ↔ Q (.ok ()) { ms with flag := b } := Iff.rfl
theorem wp_getMS (Q : Out (MS R) → MS R → Prop) (flt ms) : wp getMS Q flt ms ↔ Q (.ok ms) ms := Iff.rfl
theorem wp_emit (m : Msg R) (Q : Out Unit → MS R → Prop) (flt ms) :
    wp (emit m) Q flt ms ↔ Q (.ok ()) { ms with msgs := ms.msgs ++ [m] } := Iff.rfl

def attK (Q : Out Bool → MS R → Prop) (o : Out Unit) (ms : MS R) : Prop :=
  match o with
  | .ok _ => Q (.ok true) ms
  | .fail => Q (.ok false) ms
@[simp] theorem attK_ok (Q : Out Bool → MS R → Prop) (u : Unit) (ms : MS R) : attK Q (.ok u) ms = Q (.ok true) ms := rfl
@[simp] theorem attK_fail (Q : Out Bool → MS R → Prop) (ms : MS R) : attK Q .fail ms = Q (.ok false) ms := rfl

theorem wp_attempt (m : M R Unit) (Q : Out Bool → MS R → Prop) (flt ms) :
    wp (attempt m) Q flt ms ↔ wp m (attK Q) flt ms := by
  unfold wp attempt
  cases h : m flt ms with
  | mk o ms' => cases o <;> simp [attK]

/-- after the then-step of a transaction -/
def txnK2 (rb : Option (Bool → M R Unit)) (Q : Out Unit → MS R → Prop) (flt : Option Addr) (o : Out Unit) (ms : MS R) : Prop :=
  match o with
  | .ok _ => Q (.ok ()) ms
  | .fail => match rb with
    | none => Q .fail ms
    | some rb => Q .fail (exec (withDetached (rb false)) flt ms)
/-- after the condition step of a transaction -/
def txnK1 (t : M R Unit) (rb : Option (Bool → M R Unit)) (Q : Out Unit → MS R → Prop) (flt : Option Addr) (o : Out Unit) (ms : MS R) : Prop :=
  match o with
  | .ok _ => wp (match rb with | none => withDetached t | some _ => t) (txnK2 rb Q flt) flt ms
  | .fail => match rb with
    | none => Q .fail ms
    | some rb => Q .fail (exec (withDetached (rb true)) flt ms)

@[simp] theorem txnK2_ok (rb : Option (Bool → M R Unit)) (Q : Out Unit → MS R → Prop) (flt) (u : Unit) (ms : MS R) :
    txnK2 rb Q flt (.ok u) ms = Q (.ok ()) ms := rfl
@[simp] theorem txnK2_fail_some (rb : Bool → M R Unit) (Q : Out Unit → MS R → Prop) (flt) (ms : MS R) :
    txnK2 (some rb) Q flt .fail ms = Q .fail (exec (withDetached (rb false)) flt ms) := rfl
@[simp] theorem txnK2_fail_none (Q : Out Unit → MS R → Prop) (flt) (ms : MS R) :
    txnK2 none Q flt .fail ms = Q .fail ms := rfl
@[simp] theorem txnK1_ok_some (t : M R Unit) (rb : Bool → M R Unit) (Q : Out Unit → MS R → Prop) (flt) (u : Unit) (ms : MS R) :
    txnK1 t (some rb) Q flt (.ok u) ms = wp t (txnK2 (some rb) Q flt) flt ms := rfl
@[simp] theorem txnK1_ok_none (t : M R Unit) (Q : Out Unit → MS R → Prop) (flt) (u : Unit) (ms : MS R) :
    txnK1 t none Q flt (.ok u) ms = wp (withDetached t) (txnK2 none Q flt) flt ms := rfl
@[simp] theorem txnK1_fail_some (t : M R Unit) (rb : Bool → M R Unit) (Q : Out Unit → MS R → Prop) (flt) (ms : MS R) :
    txnK1 t (some rb) Q flt .fail ms = Q .fail (exec (withDetached (rb true)) flt ms) := rfl
@[simp] theorem txnK1_fail_none (t : M R Unit) (Q : Out Unit → MS R → Prop) (flt) (ms : MS R) :
    txnK1 t none Q flt .fail ms = Q .fail ms := rfl

theorem wp_txn (c t : M R Unit) (rb : Option (Bool → M R Unit)) (Q : Out Unit → MS R → Prop) (flt ms) :
    wp (txn c t rb) Q flt ms ↔ wp c (txnK1 t rb Q flt) flt ms := by
  unfold wp txn
  cases h : c flt ms with
  | mk o ms1 =>
    cases o with
    | fail => cases rb <;> simp [txnK1, exec]
    | ok u =>
      cases rb with
      | none =>
        simp only [txnK1, wp]
        cases h2 : withDetached t flt ms1 with
        | mk o2 ms2 => cases o2 <;> simp [txnK2]
      | some rb =>
        simp only [txnK1, wp]
        cases h2 : t flt ms1 with
        | mk o2 ms2 => cases o2 <;> simp [txnK2, exec]

theorem wp_txn_some (c t : M R Unit) (rb : Bool → M R Unit) (Q : Out Unit → MS R → Prop) (flt ms) :
    wp (txn c t (some rb)) Q flt ms ↔ wp c (txnK1 t (some rb) Q flt) flt ms := wp_txn c t (some rb) Q flt ms

theorem wp_txn_none (c t : M R Unit) (Q : Out Unit → MS R → Prop) (flt ms) :
    wp (txn c t none) Q flt ms ↔ wp c (txnK1 t none Q flt) flt ms := wp_txn c t none Q flt ms

/-- the machine state with the detached flag set to `b` -/
def setDet (ms : MS R) (b : Bool) : MS R := { ms with detached := b }

@[simp] theorem setDet_st (ms : MS R) (b) : (setDet ms b).st = ms.st := rfl
@[simp] theorem setDet_fired (ms : MS R) (b) : (setDet ms b).fired = ms.fired := rfl
@[simp] theorem setDet_cnt (ms : MS R) (b) : (setDet ms b).cnt = ms.cnt := rfl
@[simp] theorem setDet_msgs (ms : MS R) (b) : (setDet ms b).msgs = ms.msgs := rfl
@[simp] theorem setDet_allocd (ms : MS R) (b) : (setDet ms b).allocd = ms.allocd := rfl
@[simp] theorem setDet_failed (ms : MS R) (b) : (setDet ms b).failed = ms.failed := rfl
@[simp] theorem setDet_detached (ms : MS R) (b) : (setDet ms b).detached = b := rfl
@[simp] theorem setDet_cancel (ms : MS R) (b) : (setDet ms b).cancel = ms.cancel := rfl
@[simp] theorem setDet_cancelled (ms : MS R) (b) : (setDet ms b).cancelled = ms.cancelled := rfl

theorem wp_withDetached {α} (m : M R α) (Q : Out α → MS R → Prop) (flt : Option Addr) (ms : MS R) :
    wp (withDetached m) Q flt ms ↔ wp m (fun o ms' => Q o (setDet ms' ms.detached)) flt (setDet ms true) := Iff.rfl

theorem exec_withDetached {α} (m : M R α) (flt : Option Addr) (ms : MS R) :
    exec (withDetached m) flt ms = setDet (exec m flt (setDet ms true)) ms.detached := rfl

/-- the machine state after `renew` -/
def renewMS (flt : Option Addr) (ms : MS R) : MS R :=
  if flt.isNone && ms.cancel.isSome then { ms with fired := false } else ms

@[simp] theorem renewMS_st (flt) (ms : MS R) : (renewMS flt ms).st = ms.st := by unfold renewMS; split <;> rfl
@[simp] theorem renewMS_msgs (flt) (ms : MS R) : (renewMS flt ms).msgs = ms.msgs := by unfold renewMS; split <;> rfl
@[simp] theorem renewMS_allocd (flt) (ms : MS R) : (renewMS flt ms).allocd = ms.allocd := by unfold renewMS; split <;> rfl
@[simp] theorem renewMS_failed (flt) (ms : MS R) : (renewMS flt ms).failed = ms.failed := by unfold renewMS; split <;> rfl
@[simp] theorem renewMS_detached (flt) (ms : MS R) : (renewMS flt ms).detached = ms.detached := by unfold renewMS; split <;> rfl

theorem wp_renew (Q : Out Unit → MS R → Prop) (flt : Option Addr) (ms : MS R) :
    wp renew Q flt ms ↔ Q (.ok ()) (renewMS flt ms) := Iff.rfl

theorem exec_pure (flt : Option Addr) (ms : MS R) : exec (pure () : M R Unit) flt ms = ms := rfl

theorem exec_step (k n : String) (eff : State R → State R) (flt : Option Addr) (ms : MS R) :
    exec (step k n eff) flt ms = if hit flt ms.fired ms.cnt (cxOf ms k n) k n = true then failMS ms k n else okMS ms k n eff := by
  unfold exec step
  split <;> rfl

theorem exec_bind_step {β} (k n : String) (eff : State R → State R) (f : Unit → M R β)
    (flt : Option Addr) (ms : MS R) :
    exec (step k n eff >>= f) flt ms =
      if hit flt ms.fired ms.cnt (cxOf ms k n) k n = true then failMS ms k n else exec (f ()) flt (okMS ms k n eff) := by
  show (M.bind (step k n eff) f flt ms).2 = _
  unfold M.bind step exec
  by_cases h : hit flt ms.fired ms.cnt (cxOf ms k n) k n = true <;> simp [h]

theorem exec_bind_getSt {β} (f : State R → M R β) (flt : Option Addr) (ms : MS R) :
    exec (getSt >>= f) flt ms = exec (f ms.st) flt ms := rfl

theorem exec_bind_getMS {β} (f : MS R → M R β) (flt : Option Addr) (ms : MS R) :
    exec (getMS >>= f) flt ms = exec (f ms) flt ms := rfl

theorem exec_ite {α} (c : Prop) [Decidable c] (a b : M R α) (flt : Option Addr) (ms : MS R) :
    exec (if c then a else b) flt ms = if c then exec a flt ms else exec b flt ms := by
  split <;> rfl

theorem wp_ite {α} (c : Prop) [Decidable c] (a b : M R α) (Q : Out α → MS R → Prop) (flt : Option Addr) (ms : MS R) :
    wp (if c then a else b) Q flt ms ↔ if c then wp a Q flt ms else wp b Q flt ms := by
  split <;> rfl

theorem hit_true_fired {flt : Option Addr} {fired : Bool} {c cx k n} (h : hit flt fired c cx k n = true) :
    fired = false := by
  simp [hit] at h
  exact h.1

@[simp] theorem failMS_fired (ms : MS R) (k n) : (failMS ms k n).fired = true := rfl
@[simp] theorem failMS_st (ms : MS R) (k n) : (failMS ms k n).st = ms.st := rfl
@[simp] theorem failMS_msgs (ms : MS R) (k n) : (failMS ms k n).msgs = ms.msgs := rfl
@[simp] theorem failMS_allocd (ms : MS R) (k n) : (failMS ms k n).allocd = ms.allocd := rfl
@[simp] theorem failMS_failed (ms : MS R) (k n) : (failMS ms k n).failed = ms.failed := rfl
@[simp] theorem okMS_fired (ms : MS R) (k n eff) : (okMS ms k n eff).fired = ms.fired := rfl
@[simp] theorem okMS_flag (ms : MS R) (k n eff) : (okMS ms k n eff).flag = ms.flag := rfl
@[simp] theorem failMS_flag (ms : MS R) (k n) : (failMS ms k n).flag = ms.flag := rfl
@[simp] theorem setDet_flag (ms : MS R) (b) : (setDet ms b).flag = ms.flag := rfl
@[simp] theorem okMS_detached (ms : MS R) (k n eff) : (okMS ms k n eff).detached = ms.detached := rfl
@[simp] theorem failMS_detached (ms : MS R) (k n) : (failMS ms k n).detached = ms.detached := rfl
@[simp] theorem okMS_cancel (ms : MS R) (k n eff) : (okMS ms k n eff).cancel = ms.cancel := rfl
@[simp] theorem failMS_cancel (ms : MS R) (k n) : (failMS ms k n).cancel = ms.cancel := rfl
@[simp] theorem okMS_st (ms : MS R) (k n eff) : (okMS ms k n eff).st = eff ms.st := rfl
@[simp] theorem okMS_msgs (ms : MS R) (k n eff) : (okMS ms k n eff).msgs = ms.msgs := rfl
@[simp] theorem okMS_allocd (ms : MS R) (k n eff) : (okMS ms k n eff).allocd = ms.allocd := rfl
@[simp] theorem okMS_failed (ms : MS R) (k n eff) : (okMS ms k n eff).failed = ms.failed := rfl

/-- unfold one layer of the wp calculus (everything up to the next "does the plan hit this step?") -/
macro "wp_simp" : tactic => `(tactic| simp only [wp_txn, wp_step, wp_readStep, wp_bind, wp_pure, wp_refuse,
  wp_getSt, wp_getMS, wp_setFlag, okMS_flag, failMS_flag, setDet_flag, wp_emit, wp_attempt, wp_ite, wpK_ok, wpK_fail, attK_ok, attK_fail,
  txnK1_ok_some, txnK1_ok_none, txnK1_fail_some, txnK1_fail_none, txnK2_ok, txnK2_fail_some, txnK2_fail_none, onThenFailure,
  wp_withDetached, exec_withDetached, wp_renew, setDet_st, setDet_fired, setDet_cnt, setDet_detached,
  exec_pure, exec_step, exec_bind_step, exec_bind_getSt, exec_bind_getMS, exec_ite, hit_fired,
  failMS_fired, okMS_fired, failMS_st, okMS_st, Bool.false_eq_true, if_false, if_true])

/-- close a leaf of the case tree -/
macro "wp_fin" : tactic => `(tactic| simp [exec_pure, exec_step, exec_bind_step, exec_bind_getSt, exec_bind_getMS, exec_ite, exec_withDetached])

end Eru.Cluster
