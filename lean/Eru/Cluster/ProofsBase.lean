import Eru.Cluster.Steps
/-
Weakest-precondition calculus for the step programs: `wp m Q flt ms` says that running `m`
under fault plan `flt` from machine state `ms` ends in an outcome and machine state
satisfying `Q`.  The lemmas below reduce `wp` of a program to nested case distinctions on
"does the plan hit this step?", which `split` then enumerates; after a hit `fired` is set and
every later step succeeds (`step_of_fired`).
-/
namespace Eru.Cluster
variable {R : Type}

def wp {α} (m : M R α) (Q : Out α → MS R → Prop) (flt : Option Addr) (ms : MS R) : Prop :=
  Q (m flt ms).1 (m flt ms).2

/-- final machine state of a program (used for rollbacks, whose outcome is only logged) -/
def exec {α} (m : M R α) (flt : Option Addr) (ms : MS R) : MS R := (m flt ms).2

theorem wp_pure {α} (a : α) (Q : Out α → MS R → Prop) (flt ms) :
    wp (pure a : M R α) Q flt ms ↔ Q (.ok a) ms := Iff.rfl

theorem wp_bind {α β} (m : M R α) (f : α → M R β) (Q : Out β → MS R → Prop) (flt ms) :
    wp (m >>= f) Q flt ms ↔
      wp m (fun o ms' => match o with | .ok a => wp (f a) Q flt ms' | .fail => Q .fail ms') flt ms := by
  show wp (M.bind m f) Q flt ms ↔ _
  unfold wp M.bind
  cases h : m flt ms with
  | mk o ms' => cases o <;> simp

theorem wp_step (k n : String) (eff : State R → State R) (Q : Out Unit → MS R → Prop) (flt ms) :
    wp (step k n eff) Q flt ms ↔
      (if hit flt ms.fired ms.cnt k n = true then Q .fail (failMS ms k n) else Q (.ok ()) (okMS ms k n eff)) := by
  unfold wp step
  split <;> simp

theorem wp_readStep (k n : String) (Q : Out Unit → MS R → Prop) (flt ms) :
    wp (readStep k n) Q flt ms ↔
      (if hit flt ms.fired ms.cnt k n = true then Q .fail (failMS ms k n) else Q (.ok ()) (okMS ms k n id)) :=
  wp_step k n id Q flt ms

theorem wp_refuse {α} (Q : Out α → MS R → Prop) (flt ms) : wp (refuse : M R α) Q flt ms ↔ Q .fail ms := Iff.rfl
theorem wp_getSt (Q : Out (State R) → MS R → Prop) (flt ms) : wp getSt Q flt ms ↔ Q (.ok ms.st) ms := Iff.rfl
theorem wp_getMS (Q : Out (MS R) → MS R → Prop) (flt ms) : wp getMS Q flt ms ↔ Q (.ok ms) ms := Iff.rfl
theorem wp_emit (m : Msg) (Q : Out Unit → MS R → Prop) (flt ms) :
    wp (emit m) Q flt ms ↔ Q (.ok ()) { ms with msgs := ms.msgs ++ [m] } := Iff.rfl

theorem wp_attempt (m : M R Unit) (Q : Out Bool → MS R → Prop) (flt ms) :
    wp (attempt m) Q flt ms ↔
      wp m (fun o ms' => match o with | .ok _ => Q (.ok true) ms' | .fail => Q (.ok false) ms') flt ms := by
  unfold wp attempt
  cases h : m flt ms with
  | mk o ms' => cases o <;> simp

theorem wp_txn_some (c t : M R Unit) (rb : Bool → M R Unit) (Q : Out Unit → MS R → Prop) (flt ms) :
    wp (txn c t (some rb)) Q flt ms ↔
      wp c (fun o ms1 => match o with
        | .fail => Q .fail (exec (rb true) flt ms1)
        | .ok _ => wp t (fun o2 ms2 => match o2 with
            | .ok _ => Q (.ok ()) ms2
            | .fail => Q .fail (exec (rb false) flt ms2)) flt ms1) flt ms := by
  unfold wp txn exec
  cases h : c flt ms with
  | mk o ms1 =>
    cases o with
    | fail => simp
    | ok u =>
      simp only
      cases h2 : t flt ms1 with
      | mk o2 ms2 => cases o2 <;> simp

theorem wp_txn_none (c t : M R Unit) (Q : Out Unit → MS R → Prop) (flt ms) :
    wp (txn c t none) Q flt ms ↔
      wp c (fun o ms1 => match o with
        | .fail => Q .fail ms1
        | .ok _ => wp t (fun o2 ms2 => match o2 with
            | .ok _ => Q (.ok ()) ms2
            | .fail => Q .fail ms2) flt ms1) flt ms := by
  unfold wp txn
  cases h : c flt ms with
  | mk o ms1 =>
    cases o with
    | fail => simp
    | ok u =>
      simp only
      cases h2 : t flt ms1 with
      | mk o2 ms2 => cases o2 <;> simp

theorem exec_pure (flt : Option Addr) (ms : MS R) : exec (pure () : M R Unit) flt ms = ms := rfl

theorem exec_step (k n : String) (eff : State R → State R) (flt : Option Addr) (ms : MS R) :
    exec (step k n eff) flt ms = if hit flt ms.fired ms.cnt k n = true then failMS ms k n else okMS ms k n eff := by
  unfold exec step
  split <;> rfl

theorem exec_bind_step {β} (k n : String) (eff : State R → State R) (f : Unit → M R β)
    (flt : Option Addr) (ms : MS R) :
    exec (step k n eff >>= f) flt ms =
      if hit flt ms.fired ms.cnt k n = true then failMS ms k n else exec (f ()) flt (okMS ms k n eff) := by
  show (M.bind (step k n eff) f flt ms).2 = _
  unfold M.bind step exec
  by_cases h : hit flt ms.fired ms.cnt k n = true <;> simp [h]

theorem hit_true_fired {flt : Option Addr} {fired : Bool} {c k n} (h : hit flt fired c k n = true) :
    fired = false := by
  simp [hit] at h
  exact h.1

@[simp] theorem failMS_fired (ms : MS R) (k n) : (failMS ms k n).fired = true := rfl
@[simp] theorem failMS_st (ms : MS R) (k n) : (failMS ms k n).st = ms.st := rfl
@[simp] theorem failMS_msgs (ms : MS R) (k n) : (failMS ms k n).msgs = ms.msgs := rfl
@[simp] theorem failMS_allocd (ms : MS R) (k n) : (failMS ms k n).allocd = ms.allocd := rfl
@[simp] theorem failMS_failed (ms : MS R) (k n) : (failMS ms k n).failed = ms.failed := rfl
@[simp] theorem okMS_fired (ms : MS R) (k n eff) : (okMS ms k n eff).fired = ms.fired := rfl
@[simp] theorem okMS_st (ms : MS R) (k n eff) : (okMS ms k n eff).st = eff ms.st := rfl
@[simp] theorem okMS_msgs (ms : MS R) (k n eff) : (okMS ms k n eff).msgs = ms.msgs := rfl
@[simp] theorem okMS_allocd (ms : MS R) (k n eff) : (okMS ms k n eff).allocd = ms.allocd := rfl
@[simp] theorem okMS_failed (ms : MS R) (k n eff) : (okMS ms k n eff).failed = ms.failed := rfl

end Eru.Cluster
