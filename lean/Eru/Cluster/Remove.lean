import Eru.Cluster.Steps
/-
Cluster model: `RemoveWorkload` (remove.go) and `DissociateWorkload` (dissociate.go).
Removal is always forced in the harness (`force = true`), so the engine's "running, needs
force" refusal is not modelled.
-/
namespace Eru.Cluster
variable {R : Type} [ResAlg R]

/-- `doRemoveWorkload`: store record first, then the container; re-add the record if the
engine fails. -/
def doRemoveWorkload (w : Wl R) : M R Unit :=
  txn (step "storeRemoveWorkload" w.node (rmWl w.id))
      (step "engineRemove" w.node (rmCt w.id))
      (onThenFailure (step "storeAddWorkload" w.node (addWl w)))

/-- the per-workload transaction of `RemoveWorkload` -/
def removeTxn (w : Wl R) : M R Unit :=
  txn (step "pluginSetUsage:decr" w.node (addUsage w.node (-w.res)))
      (doRemoveWorkload w)
      (onThenFailure (step "pluginSetUsage:incr" w.node (addUsage w.node w.res)))

/-- the per-workload transaction of `DissociateWorkload` -/
def dissociateTxn (w : Wl R) : M R Unit :=
  txn (step "pluginSetUsage:decr" w.node (addUsage w.node (-w.res)))
      (step "storeRemoveWorkload" w.node (rmWl w.id))
      (onThenFailure (step "pluginSetUsage:incr" w.node (addUsage w.node w.res)))

/-- `withWorkloadLocked id f`: re-read the workload (store.GetWorkloads [id]) and run `f` on the
record; a missing record is a refusal. -/
def withWorkloadLocked (node : String) (id : Nat) (f : Wl R → M R Unit) : M R Unit := do
  readStep "storeGetWorkloads" node
  let s ← getSt
  match findWl s id with
  | some w => f w
  | none => refuse

/-- one workload inside the per-node loop: run the transaction under the workload lock and
send one message. -/
def removeOne (body : Wl R → M R Unit) (node : String) (id : Nat) : M R Unit := do
  renew
  let ok ← attempt (withWorkloadLocked node id body)
  emit ⟨node, id, ok, none⟩

/-- the per-node part: `withNodePodLocked` (filterNodes reads the node), then the workloads in order.
`failMsg`: RemoveWorkload sends one anonymous failure message when the node cannot be locked,
DissociateWorkload sends nothing. -/
def removeOnNode (body : Wl R → M R Unit) (failMsg : Bool) (node : String) (ids : List Nat) : M R Unit := do
  renew
  let ok ← attempt (readStep "storeGetNode" node)
  if ok then forEach ids (removeOne body node)
  else if failMsg then emit ⟨"", 0, false, none⟩ else pure ()

/-- `groups`: the ids grouped by node (visit order of the Go map), `firstNode`: the node field the
first read is recorded under (the node when there is a single id, "" otherwise). All ids must
be recorded, else `GetWorkloads` refuses and no channel is returned. -/
def removeLike (body : Wl R → M R Unit) (failMsg : Bool) (firstNode : String) (groups : List (String × List Nat)) : M R Unit := do
  readStep "storeGetWorkloads" firstNode
  let s ← getSt
  if groups.all (fun g => g.2.all (fun id => (findWl s id).isSome)) then
    forEach groups (fun g => removeOnNode body failMsg g.1 g.2)
  else refuse

def remove (firstNode : String) (groups : List (String × List Nat)) : M R Unit :=
  removeLike removeTxn true firstNode groups

def dissociate (firstNode : String) (groups : List (String × List Nat)) : M R Unit :=
  removeLike dissociateTxn false firstNode groups

end Eru.Cluster
