import Eru.Cluster.Create
import Eru.Cluster.Remove
import Eru.Cluster.Realloc
import Eru.Cluster.Replace
import Eru.Cluster.Node
/-
Cluster model: the operation alphabet of histories and the decidable specification
predicates of C10–C12 (the same predicates the theorems are about and the oracle evaluates
on the implementation's snapshots).
-/
namespace Eru.Cluster
variable {R : Type} [ResAlg R]

inductive Op (R : Type) where
  | create (a : CreateArgs R)
  | remove (firstNode : String) (groups : List (String × List Nat))
  | dissociate (firstNode : String) (groups : List (String × List Nat))
  | realloc (node : String) (id : Nat) (answer : Option (R × R))
  | replace (node : String) (id : Nat)
  | setNode (n : String) (newCap : Option R)
  | addNode (n : String) (c : R)
  | removeNode (n : String)
  | nodeResource (n : String) (fix : Bool)

def runOp : Op R → M R Unit
  | .create a => create a
  | .remove f g => remove f g
  | .dissociate f g => dissociate f g
  | .realloc n id a => realloc n id a
  | .replace n id => replace n id
  | .setNode n c => setNode n c
  | .addNode n c => addNode n c
  | .removeNode n => removeNode n
  | .nodeResource n fix => nodeResource n fix

/-- state after running `op` from `s` under fault plan `flt` -/
def after (op : Op R) (flt : Option Addr) (s : State R) (cancel : Option (Addr × Bool) := none) : State R :=
  (run (runOp op) flt s cancel).2.st

/-- a history: operations, each with at most one injected fault and possibly a cancelled caller -/
def runHistory (h : List (Op R × Option Addr × Option (Addr × Bool))) (s : State R) : State R :=
  match h with
  | [] => s
  | (op, flt, cn) :: rest => runHistory rest (after op flt s cn)

/-! ### decidable specification predicates -/
section Spec
variable [DecidableEq R]

/-- names that can carry usage or load in `s` -/
def namesOf (s : State R) : List String := s.nodes ++ s.wls.map (·.node)

/-- C10 on a snapshot: usage = Σ recorded workloads, for every node name of the snapshot -/
def consistentB (s : State R) : Bool := (namesOf s).all (fun n => decide (s.usage n = load s n))

/-- the abstract projection C11 compares: workload records, node names, capacity, usage -/
def sameAbsB (names : List String) (a b : State R) : Bool :=
  decide (a.nodes = b.nodes) &&
  a.wls.all (fun w => b.wls.contains w) && b.wls.all (fun w => a.wls.contains w) &&
  names.all (fun n => decide (a.usage n = b.usage n) && decide (a.cap n = b.cap n))

/-- C12 stream shape: a single failure with nothing created, or one message per planned instance -/
def streamShapeB (planned : Nat) (msgs : List (Msg R)) (created : Nat) : Bool :=
  (msgs.length == 1 && msgs.all (fun m => !m.ok) && created == 0) || msgs.length == planned

/-- C12 truthfulness: every success names a recorded workload on the reported node with the
reported resources whose container exists and runs; distinct successes name distinct workloads -/
def truthfulB (msgs : List (Msg R)) (s : State R) : Bool :=
  let succ := msgs.filter (·.ok)
  succ.all (fun m => s.wls.any (fun w => w.id == m.id && w.node == m.node && decide (some w.res = m.res)) &&
                     s.cts.any (fun c => c.id == m.id && c.node == m.node && c.running)) &&
  (succ.map (·.id)).eraseDups.length == succ.length

/-- C12 cleanliness: the workloads / containers present after the call are exactly the ones
present before plus the reported successes (so a failed instance left no record and no
container), and usage grew by exactly the successes' resources -/
def cleanB (msgs : List (Msg R)) (pre post : State R) : Bool :=
  let succ := (msgs.filter (·.ok)).map (·.id)
  post.wls.all (fun w => pre.wls.contains w || succ.contains w.id) &&
  pre.wls.all (fun w => post.wls.contains w) &&
  post.cts.all (fun c => pre.cts.any (fun c' => c'.id == c.id) || succ.contains c.id) &&
  (namesOf post).all (fun n => decide (post.usage n = pre.usage n + loadL (post.wls.filter (fun w => succ.contains w.id)) n))
end Spec

end Eru.Cluster
