import Eru.Cluster.ProofsOps
/-
Invariant preservation: every operation, under every single-fault placement, preserves
`Inv` = well-formed ids ∧ `Consistent` (C10).  `Pres I m`: program `m` re-establishes `I` in
every outcome (success or failure), whatever the fault plan.
-/
set_option linter.unusedSectionVars false
set_option linter.unusedSimpArgs false
namespace Eru.Cluster
variable {R : Type} [ResAlg R]
open ResAlg

/-- ids distinct and below the fresh-id counter, usage = Σ records -/
def Inv (s : State R) : Prop :=
  (s.wls.map (·.id)).Nodup ∧ (∀ w ∈ s.wls, w.id < s.next) ∧ Consistent s

def Pres {α} (I : MS R → Prop) (m : M R α) : Prop :=
  ∀ flt ms, I ms → wp m (fun _ ms' => I ms') flt ms

/-- a machine-state predicate that only looks at the cluster state -/
def onSt (P : State R → Prop) : MS R → Prop := fun ms => P ms.st

theorem pres_pure {α} (I : MS R → Prop) (a : α) : Pres I (pure a : M R α) := fun _ _ h => h
theorem pres_refuse {α} (I : MS R → Prop) : Pres I (refuse : M R α) := fun _ _ h => h

theorem pres_bind {α β} {I : MS R → Prop} {m : M R α} {f : α → M R β}
    (hm : Pres I m) (hf : ∀ a, Pres I (f a)) : Pres I (m >>= f) := by
  intro flt ms h
  rw [wp_bind]
  apply wp_mono (hm flt ms h)
  intro o ms' h'
  cases o with
  | ok a => exact hf a flt ms' h'
  | fail => exact h'

theorem pres_attempt {I : MS R → Prop} {m : M R Unit} (hm : Pres I m) : Pres I (attempt m) := by
  intro flt ms h
  rw [wp_attempt]
  apply wp_mono (hm flt ms h)
  intro o ms' h'
  cases o <;> exact h'

theorem pres_forEach {α} {I : MS R → Prop} (xs : List α) {f : α → M R Unit}
    (hf : ∀ x ∈ xs, Pres I (f x)) : Pres I (forEach xs f) := by
  induction xs with
  | nil => exact pres_pure I ()
  | cons x rest ih =>
    show Pres I (f x >>= fun _ => forEach rest f)
    exact pres_bind (hf x (List.mem_cons_self ..)) (fun _ => ih (fun y hy => hf y (List.mem_cons_of_mem _ hy)))

theorem pres_ite {α} {I : MS R → Prop} (c : Prop) [Decidable c] {a b : M R α}
    (ha : Pres I a) (hb : Pres I b) : Pres I (if c then a else b) := by
  split <;> assumption

theorem pres_step {P : State R → Prop} (k n : String) (eff : State R → State R)
    (h : ∀ s, P s → P (eff s)) : Pres (onSt P) (step k n eff) := by
  intro flt ms hI
  rw [wp_step]
  split
  · exact hI
  · exact h _ hI

theorem pres_readStep {P : State R → Prop} (k n : String) : Pres (onSt P) (readStep (R := R) k n) :=
  pres_step k n id (fun _ h => h)

theorem pres_renew {P : State R → Prop} : Pres (onSt P) (renew (R := R)) := by
  intro flt ms h
  rw [wp_renew]
  show P (renewMS flt ms).st
  rw [renewMS_st]; exact h

theorem onSt_setDet {P : State R → Prop} : ∀ (ms : MS R) (b : Bool), onSt P ms → onSt P (setDet ms b) := fun _ _ h => h

/-- running detached does not matter for a predicate that does not look at the flag -/
theorem pres_withDetached {α} {I : MS R → Prop} {m : M R α} (hI : ∀ ms b, I ms → I (setDet ms b))
    (hm : Pres I m) : Pres I (withDetached m) := by
  intro flt ms h
  rw [wp_withDetached]
  exact wp_mono (hm flt (setDet ms true) (hI ms true h)) (fun _ ms' h' => hI ms' ms.detached h')

theorem pres_emit {P : State R → Prop} (m : Msg R) : Pres (onSt P) (emit (R := R) m) := fun _ _ h => h

/-- continue with the state that was read -/
theorem pres_getSt_bind {α} {I : MS R → Prop} {f : State R → M R α}
    (hf : ∀ flt ms, I ms → wp (f ms.st) (fun _ ms' => I ms') flt ms) : Pres I (getSt >>= f) := by
  intro flt ms h
  rw [wp_bind, wp_getSt]
  exact hf flt ms h

/-! ### Inv only depends on usage, records and the id counter -/

theorem inv_of_eq {s s' : State R} (h : Inv s) (hu : s'.usage = s.usage) (hw : s'.wls = s.wls)
    (hn : s.next ≤ s'.next) : Inv s' := by
  obtain ⟨h1, h2, h3⟩ := h
  refine ⟨hw ▸ h1, ?_, (consistent_congr hu hw).mpr h3⟩
  intro w hw'
  rw [hw] at hw'
  exact Nat.lt_of_lt_of_le (h2 w hw') hn

theorem inert_pres (eff : State R → State R) (he : Inert eff) : ∀ s, Inv s → Inv (eff s) := by
  intro s h
  have := he s
  exact inv_of_eq h this.2.2.1 this.2.2.2.1 (Nat.le_of_eq this.2.2.2.2.2.symm)

theorem nodup_filter_ids (ws : List (Wl R)) (p : Wl R → Bool) (h : (ws.map (·.id)).Nodup) :
    ((ws.filter p).map (·.id)).Nodup :=
  List.Nodup.sublist (List.Sublist.map _ List.filter_sublist) h

theorem mem_of_findWl {s : State R} {id : Nat} {w : Wl R} (h : findWl s id = some w) : w ∈ s.wls ∧ w.id = id := by
  unfold findWl at h
  refine ⟨List.mem_of_find?_eq_some h, ?_⟩
  have := List.find?_some h
  simpa using this

/-- release shape: the record of `w` is gone and its resources are released -/
theorem inv_release {s s' : State R} {w : Wl R} (h : Inv s) (hw : w ∈ s.wls)
    (hu : s'.usage = (addUsage w.node (-w.res) s).usage) (hws : s'.wls = s.wls.filter (fun x => x.id != w.id))
    (hn : s'.next = s.next) : Inv s' := by
  obtain ⟨h1, h2, h3⟩ := h
  refine ⟨hws ▸ nodup_filter_ids _ _ h1, ?_, ?_⟩
  · intro x hx
    rw [hws] at hx
    rw [hn]
    exact h2 x ((List.mem_filter.mp hx).1)
  · have := consistent_release h3 hw h1
    exact (consistent_congr (a := s') (b := rmWl w.id (addUsage w.node (-w.res) s)) hu hws).mpr this

/-- the record of `w` was taken out and put back in front -/
theorem inv_readd {s s' : State R} {w : Wl R} (h : Inv s) (hw : w ∈ s.wls)
    (hu : s'.usage = s.usage) (hws : s'.wls = w :: s.wls.filter (fun x => x.id != w.id))
    (hn : s'.next = s.next) : Inv s' := by
  obtain ⟨h1, h2, h3⟩ := h
  refine ⟨?_, ?_, ?_⟩
  · rw [hws, List.map_cons, List.nodup_cons]
    refine ⟨?_, nodup_filter_ids _ _ h1⟩
    intro hmem
    obtain ⟨x, hx, hxid⟩ := List.mem_map.mp hmem
    have := (List.mem_filter.mp hx).2
    simp [hxid] at this
  · intro x hx
    rw [hws] at hx
    rw [hn]
    rcases List.mem_cons.mp hx with rfl | hx
    · exact h2 _ hw
    · exact h2 x ((List.mem_filter.mp hx).1)
  · intro n
    unfold load
    rw [hu, hws, loadL_readd s.wls w n hw h1]
    exact h3 n

theorem releasePost_inv {s s' : State R} {w : Wl R} {o : Out Unit} (h : Inv s) (hw : w ∈ s.wls)
    (hp : ReleasePost w s o s') : Inv s' := by
  obtain ⟨_, _, hn, hp⟩ := hp
  rcases hp with ⟨_, hu, hws, _⟩ | ⟨_, hu, _, hws | hws⟩
  · exact inv_release h hw hu hws hn
  · exact inv_of_eq h hu hws (Nat.le_of_eq hn.symm)
  · exact inv_readd h hw hu hws hn

theorem pres_removeTxn (w : Wl R) : ∀ flt (ms : MS R), Inv ms.st → w ∈ ms.st.wls →
    wp (removeTxn w) (fun _ ms' => Inv ms'.st) flt ms := by
  intro flt ms h hw
  apply wp_mono (removeTxn_spec w flt ms)
  intro o ms' hp
  exact releasePost_inv h hw hp

theorem pres_dissociateTxn (w : Wl R) : ∀ flt (ms : MS R), Inv ms.st → w ∈ ms.st.wls →
    wp (dissociateTxn w) (fun _ ms' => Inv ms'.st) flt ms := by
  intro flt ms h hw
  apply wp_mono (dissociateTxn_spec w flt ms)
  intro o ms' hp
  obtain ⟨_, _, hn, _, hp⟩ := hp
  rcases hp with ⟨_, hu, hws⟩ | ⟨_, hu, hws⟩
  · exact inv_release h hw hu hws hn
  · exact inv_of_eq h hu hws (Nat.le_of_eq hn.symm)

/-- `withWorkloadLocked`: the body runs on a record that is in the store -/
theorem pres_withWorkloadLocked (node : String) (id : Nat) (body : Wl R → M R Unit)
    (hb : ∀ w flt (ms : MS R), Inv ms.st → w ∈ ms.st.wls → w.id = id → wp (body w) (fun _ ms' => Inv ms'.st) flt ms) :
    Pres (onSt Inv) (withWorkloadLocked node id body) := by
  unfold withWorkloadLocked
  apply pres_bind (pres_readStep _ _)
  intro _
  apply pres_getSt_bind
  intro flt ms h
  cases hf : findWl ms.st id with
  | none => exact h
  | some w =>
    have := mem_of_findWl hf
    exact hb w flt ms h this.1 this.2

theorem pres_removeLike (body : Wl R → M R Unit) (failMsg : Bool) (firstNode : String) (groups : List (String × List Nat))
    (hb : ∀ w flt (ms : MS R), Inv ms.st → w ∈ ms.st.wls → wp (body w) (fun _ ms' => Inv ms'.st) flt ms) :
    Pres (onSt Inv) (removeLike body failMsg firstNode groups) := by
  unfold removeLike
  apply pres_bind (pres_readStep _ _)
  intro _
  apply pres_bind (fun _ _ h => h)
  intro s
  apply pres_ite
  · apply pres_forEach
    intro g _
    unfold removeOnNode
    apply pres_bind pres_renew; intro _
    apply pres_bind (pres_attempt (pres_readStep _ _))
    intro ok
    apply pres_ite
    · apply pres_forEach
      intro id _
      unfold removeOne
      apply pres_bind pres_renew; intro _
      apply pres_bind
      · apply pres_attempt
        exact pres_withWorkloadLocked _ _ _ (fun w flt ms h hw _ => hb w flt ms h hw)
      · intro _
        exact pres_emit _
    · apply pres_ite
      · exact pres_emit _
      · exact pres_pure _ _
  · exact pres_refuse _

theorem pres_remove (firstNode : String) (groups : List (String × List Nat)) :
    Pres (onSt Inv) (remove (R := R) firstNode groups) :=
  pres_removeLike _ _ _ _ pres_removeTxn

theorem pres_dissociate (firstNode : String) (groups : List (String × List Nat)) :
    Pres (onSt Inv) (dissociate (R := R) firstNode groups) :=
  pres_removeLike _ _ _ _ pres_dissociateTxn

theorem pres_txn {I : MS R → Prop} {c t : M R Unit} {rb : Option (Bool → M R Unit)}
    (hI : ∀ ms b, I ms → I (setDet ms b))
    (hc : Pres I c) (ht : Pres I t) (hrb : ∀ f, rb = some f → ∀ b, Pres I (f b)) : Pres I (txn c t rb) := by
  intro flt ms h
  rw [wp_txn]
  apply wp_mono (hc flt ms h)
  intro o ms1 h1
  cases o with
  | fail =>
    cases rb with
    | none => exact h1
    | some f => exact pres_withDetached hI (hrb f rfl true) flt ms1 h1
  | ok u =>
    cases rb with
    | none =>
      simp only [txnK1_ok_none]
      apply wp_mono (pres_withDetached hI ht flt ms1 h1)
      intro o2 ms2 h2
      cases o2 <;> exact h2
    | some f =>
      simp only [txnK1_ok_some]
      apply wp_mono (ht flt ms1 h1)
      intro o2 ms2 h2
      cases o2 with
      | ok _ => exact h2
      | fail => exact pres_withDetached hI (hrb f rfl false) flt ms2 h2

theorem pres_onThenFailure {I : MS R → Prop} {m : M R Unit} (hm : Pres I m) :
    ∀ f, onThenFailure m = some f → ∀ b, Pres I (f b) := by
  intro f hf b
  simp only [onThenFailure, Option.some.injEq] at hf
  subst hf
  cases b
  · simpa using hm
  · simpa using pres_pure I ()

/-! ### set-node: no step touches usage or records -/

theorem pres_setNode (n : String) (newCap : Option R) (rr : Bool) : Pres (onSt Inv) (setNode n newCap rr) := by
  unfold setNode
  apply pres_bind (pres_readStep _ _); intro _
  apply pres_bind (pres_readStep _ _); intro _
  apply pres_bind (fun _ _ h => h); intro s
  apply pres_txn onSt_setDet
  · cases newCap with
    | none => exact pres_pure _ _
    | some c => exact pres_step _ _ _ (fun s h => inv_of_eq h rfl rfl (Nat.le_refl _))
  · apply pres_bind (pres_step _ _ _ (fun s h => h)); intro _
    apply pres_bind (pres_attempt (pres_readStep _ _)); intro _
    exact pres_pure _ _
  · apply pres_onThenFailure
    cases newCap with
    | none => exact pres_pure _ _
    | some c =>
      apply pres_step
      intro s h
      cases rr
      · exact h
      · exact inv_of_eq h rfl rfl (Nat.le_refl _)

/-! ### realloc -/

theorem eq_of_id_eq {ws : List (Wl R)} {x w : Wl R} (hnd : (ws.map (·.id)).Nodup) (hx : x ∈ ws) (hw : w ∈ ws)
    (h : x.id = w.id) : x = w := by
  induction ws with
  | nil => cases hx
  | cons y rest ih =>
    simp only [List.map_cons, List.nodup_cons] at hnd
    rcases List.mem_cons.mp hx with rfl | hx' <;> rcases List.mem_cons.mp hw with rfl | hw'
    · rfl
    · exact absurd (h ▸ List.mem_map_of_mem hw') hnd.1
    · exact absurd (h ▸ List.mem_map_of_mem hx') hnd.1
    · exact ih hnd.2 hx' hw'

theorem map_set_self {ws : List (Wl R)} {w : Wl R} (hnd : (ws.map (·.id)).Nodup) (hw : w ∈ ws) :
    ws.map (fun x => if x.id = w.id then { x with res := w.res } else x) = ws := by
  conv => rhs; rw [← List.map_id ws]
  apply List.map_congr_left
  intro x hx
  by_cases h : x.id = w.id
  · have := eq_of_id_eq hnd hx hw h
    subst this
    simp
  · simp [h]

theorem inv_resize {s s' : State R} {w : Wl R} {delta newRes : R} (h : Inv s) (hw : w ∈ s.wls)
    (hres : newRes = w.res + delta)
    (hu : s'.usage = (addUsage w.node delta s).usage) (hws : s'.wls = (setWlRes w.id newRes s).wls)
    (hn : s'.next = s.next) : Inv s' := by
  obtain ⟨h1, h2, h3⟩ := h
  have hids : (s'.wls.map (·.id)) = s.wls.map (·.id) := by
    rw [hws, setWlRes_wls, List.map_map]
    apply List.map_congr_left
    intro x _
    by_cases hx : x.id = w.id <;> simp [hx]
  refine ⟨hids ▸ h1, ?_, ?_⟩
  · intro x hx
    have : x.id ∈ s'.wls.map (·.id) := List.mem_map_of_mem hx
    rw [hids] at this
    obtain ⟨y, hy, hyid⟩ := List.mem_map.mp this
    rw [hn, ← hyid]
    exact h2 y hy
  · have := consistent_resize h3 hw h1 hres
    exact (consistent_congr (a := s') (b := setWlRes w.id newRes (addUsage w.node delta s)) hu hws).mpr this

theorem wp_readStep_st (k n : String) (flt : Option Addr) (ms : MS R) :
    wp (readStep k n) (fun _ ms' => ms'.st = ms.st) flt ms := by
  rw [wp_readStep]
  split <;> rfl

/-- the resource layer's realloc answer is coherent: new resources = old resources + delta -/
def ReallocOK (s : State R) (id : Nat) (answer : Option (R × R)) : Prop :=
  ∀ w ∈ s.wls, w.id = id → ∀ delta newRes, answer = some (delta, newRes) → newRes = w.res + delta

theorem realloc_inv (node : String) (id : Nat) (answer : Option (R × R)) (flt : Option Addr) (ms : MS R)
    (h : Inv ms.st) (hok : ReallocOK ms.st id answer) :
    wp (realloc node id answer) (fun _ ms' => Inv ms'.st) flt ms := by
  have hI : ∀ ms' : MS R, ms'.st = ms.st → Inv ms'.st := fun ms' e => by rw [e]; exact h
  unfold realloc
  rw [wp_bind]
  apply wp_mono (wp_readStep_st _ _ flt ms)
  intro o ms1 h1
  cases o with
  | fail => exact hI ms1 h1
  | ok u =>
    simp only [wpK_ok]
    rw [wp_bind, wp_getSt]
    simp only [wpK_ok]
    cases hf : findWl ms1.st id with
    | none => exact hI ms1 h1
    | some w0 =>
      simp only
      rw [wp_bind]
      apply wp_mono (wp_readStep_st _ _ flt ms1)
      intro o2 ms2 h2
      have hst : ms2.st = ms.st := h2.trans h1
      cases o2 with
      | fail => exact hI ms2 hst
      | ok u2 =>
        simp only [wpK_ok]
        -- withWorkloadLocked
        unfold withWorkloadLocked
        rw [wp_bind]
        apply wp_mono (wp_readStep_st _ _ flt ms2)
        intro o3 ms3 h3
        have hst3 : ms3.st = ms.st := h3.trans hst
        cases o3 with
        | fail => exact hI ms3 hst3
        | ok u3 =>
          simp only [wpK_ok]
          rw [wp_bind, wp_getSt]
          simp only [wpK_ok]
          cases hf3 : findWl ms3.st id with
          | none => exact hI ms3 hst3
          | some w =>
            simp only
            have hmem := mem_of_findWl hf3
            have hinv3 : Inv ms3.st := hI ms3 hst3
            apply wp_mono (doReallocOnNode_spec w answer flt ms3)
            intro o4 ms4 hp
            obtain ⟨_, _, hn, _, hp⟩ := hp
            rcases hp with ⟨delta, newRes, hans, _, hu, hws⟩ | ⟨_, hu, hws | hws⟩
            · have hres := hok w (hst3 ▸ hmem.1) hmem.2 delta newRes hans
              exact inv_resize hinv3 hmem.1 hres hu hws hn
            · exact inv_of_eq hinv3 hu hws (Nat.le_of_eq hn.symm)
            · refine inv_of_eq hinv3 hu ?_ (Nat.le_of_eq hn.symm)
              rw [hws, setWlRes_wls]
              exact map_set_self hinv3.1 hmem.1

/-! ### replace (partial: D13) -/

/-- the fault plan does not hit the removal of the old workload -/
def ReplaceGuard (flt : Option Addr) : Prop :=
  ∀ a, flt = some a → a.kind ≠ "storeRemoveWorkload" ∧ a.kind ≠ "engineRemove"

theorem hit_of_kind_ne {flt : Option Addr} {k : String} (h : ∀ a, flt = some a → a.kind ≠ k)
    (f : Bool) (c : List (String × String × Nat)) (n : String) : hit flt f c false k n = false := by
  unfold hit
  cases flt with
  | none => simp
  | some a =>
    have := h a rfl
    have hne : a ≠ ⟨k, n, count c k n⟩ := fun e => this (by rw [e])
    simp [hne]

/-- a detached step is never made with the caller's ended context -/
theorem cxOf_detached {ms : MS R} (h : ms.detached = true) (k n : String) : cxOf ms k n = false := by
  simp [cxOf, h]

theorem filter_fresh {s : State R} (h : ∀ w ∈ s.wls, w.id < s.next) :
    s.wls.filter (fun w => w.id != s.next) = s.wls := by
  apply List.filter_eq_self.mpr
  intro w hw
  have := h w hw
  simp; omega

/-- swap shape: `w`'s record replaced by a fresh record with the same node and resources -/
theorem inv_swap {s s' : State R} {w : Wl R} (h : Inv s) (hw : w ∈ s.wls)
    (hu : s'.usage = s.usage)
    (hws : s'.wls = (⟨s.next, w.node, w.res⟩ :: s.wls).filter (fun x => x.id != w.id))
    (hn : s.next + 1 ≤ s'.next) : Inv s' := by
  obtain ⟨h1, h2, h3⟩ := h
  have hne : s.next ≠ w.id := by have := h2 w hw; omega
  have hb : ((s.next : Nat) != w.id) = true := by simpa using hne
  have hws' : s'.wls = ⟨s.next, w.node, w.res⟩ :: s.wls.filter (fun x => x.id != w.id) := by
    rw [hws, List.filter_cons]; simp [hb]
  refine ⟨?_, ?_, ?_⟩
  · rw [hws', List.map_cons, List.nodup_cons]
    refine ⟨?_, nodup_filter_ids _ _ h1⟩
    intro hmem
    obtain ⟨x, hx, hxid⟩ := List.mem_map.mp hmem
    have := h2 x (List.mem_filter.mp hx).1
    simp only at hxid
    omega
  · intro x hx
    rw [hws'] at hx
    rcases List.mem_cons.mp hx with rfl | hx
    · simp only; omega
    · have := h2 x (List.mem_filter.mp hx).1
      omega
  · have := consistent_swap s.next h3 hw h1 hne
    refine (consistent_congr (a := s') (b := rmWl w.id (addWl ⟨s.next, w.node, w.res⟩ s)) (by simp [hu]) ?_).mpr this
    rw [hws]; rfl

theorem doRemoveWorkload_guarded (w : Wl R) (flt : Option Addr) (hG : ReplaceGuard flt) (ms : MS R)
    (hdet : ms.detached = true) :
    wp (doRemoveWorkload w) (fun o ms' => o = .ok () ∧ ms'.st.usage = ms.st.usage ∧
      ms'.st.wls = ms.st.wls.filter (fun x => x.id != w.id) ∧ ms'.st.next = ms.st.next) flt ms := by
  unfold doRemoveWorkload
  wp_simp
  rw [cxOf_detached hdet, hit_of_kind_ne (fun a e => (hG a e).1)]
  simp only [Bool.false_eq_true, if_false]
  rw [cxOf_detached (by simpa using hdet), hit_of_kind_ne (fun a e => (hG a e).2)]
  simp

theorem wp_withWorkloadLocked (node : String) (id : Nat) (body : Wl R → M R Unit) (flt : Option Addr)
    (hb : ∀ w (ms : MS R), Inv ms.st → w ∈ ms.st.wls → w.id = id → wp (body w) (fun _ ms' => Inv ms'.st) flt ms)
    (ms : MS R) (h : Inv ms.st) : wp (withWorkloadLocked node id body) (fun _ ms' => Inv ms'.st) flt ms := by
  unfold withWorkloadLocked
  rw [wp_bind]
  apply wp_mono (wp_readStep_st _ _ flt ms)
  intro o ms1 h1
  have h1' : Inv ms1.st := by rw [h1]; exact h
  cases o with
  | fail => exact h1'
  | ok u =>
    simp only [wpK_ok]
    rw [wp_bind, wp_getSt]
    simp only [wpK_ok]
    cases hf : findWl ms1.st id with
    | none => exact h1'
    | some w =>
      have := mem_of_findWl hf
      exact hb w ms1 h1' this.1 this.2

theorem doReplaceWorkload_inv (w : Wl R) (flt : Option Addr) (hG : ReplaceGuard flt) (ms : MS R)
    (h : Inv ms.st) (hw : w ∈ ms.st.wls) :
    wp (doReplaceWorkload w) (fun _ ms' => Inv ms'.st) flt ms := by
  unfold doReplaceWorkload
  rw [wp_bind]
  apply wp_mono (wp_readStep_st _ _ flt ms)
  intro o ms1 h1
  have h1' : Inv ms1.st := by rw [h1]; exact h
  have hw1 : w ∈ ms1.st.wls := by rw [h1]; exact hw
  cases o with
  | fail => exact h1'
  | ok u =>
    simp only [wpK_ok]
    rw [wp_bind, wp_getSt]
    simp only [wpK_ok]
    rw [wp_bind]
    refine wp_mono (Q := fun _ ms' => Inv ms'.st) ?_ (fun o ms' h' => by cases o <;> exact h')
    -- the transaction: engineStop ; (deploy new ; remove old) ; rollback engineStart
    have hstart : Pres (onSt Inv) (step "engineStart" w.node (setRunning (R := R) w.id true)) :=
      pres_step _ _ _ (fun s hs => inv_of_eq hs rfl rfl (Nat.le_refl _))
    rw [wp_txn, wp_step]
    have hstartD := pres_withDetached (I := onSt Inv) onSt_setDet hstart
    split
    · exact hstartD flt _ (by simpa [onSt] using h1')
    · simp only [txnK1_ok_some]
      have h2 : Inv (okMS ms1 "engineStop" w.node (setRunning w.id false)).st :=
        inv_of_eq h1' rfl rfl (Nat.le_refl _)
      have hw2 : w ∈ (okMS ms1 "engineStop" w.node (setRunning w.id false)).st.wls := hw1
      generalize okMS ms1 "engineStop" w.node (setRunning w.id false) = ms2 at h2 hw2 ⊢
      refine wp_mono (Q := fun _ ms' => Inv ms'.st) ?_ (fun o ms' h' => by
        cases o with
        | ok _ => exact h'
        | fail => exact hstartD flt ms' h')
      -- inner transaction, no rollback
      rw [wp_txn, wp_bind]
      apply wp_mono (deployOne_spec w.node w.res false flt ms2)
      intro o3 ms3 h3
      rcases h3 with ⟨rfl, hp⟩ | ⟨rfl, hp⟩
      · obtain ⟨_, _, hu3, _, _, _, _, _, hp⟩ := hp
        rcases hp with ⟨_, hws3, hn3, _⟩ | ⟨hb, _⟩
        · simp only [wpK_ok, wp_pure, txnK1_ok_none]
          rw [wp_withDetached]
          apply wp_mono (doRemoveWorkload_guarded w flt hG (setDet ms3 true) rfl)
          intro o4 ms4 h4
          obtain ⟨rfl, hu4, hws4, hn4⟩ := h4
          simp only [txnK2_ok, setDet_st] at hu4 hws4 hn4 ⊢
          refine inv_swap h2 hw2 (hu4.trans hu3) (by rw [hws4, hws3]) ?_
          rw [hn4, hn3]; omega
        · cases hb
      · obtain ⟨_, _, hu3, _, _, _, hle, _, hp⟩ := hp
        rcases hp with ⟨hb, _⟩ | ⟨_, _, hws3, _⟩
        · cases hb
        · simp only [wpK_fail, txnK1_fail_none]
          refine inv_of_eq h2 hu3 ?_ hle
          rcases hws3 with e | e
          · exact e
          · rw [e, filter_fresh h2.2.1]

theorem replace_inv (node : String) (id : Nat) (flt : Option Addr) (hG : ReplaceGuard flt) :
    ∀ ms : MS R, Inv ms.st → wp (replace node id) (fun _ ms' => Inv ms'.st) flt ms := by
  intro ms h
  unfold replace
  rw [wp_bind]
  refine wp_mono (Q := fun _ ms' => Inv ms'.st) ?_ (fun o ms' h' => by
    cases o with
    | ok b => exact h'
    | fail => exact h')
  rw [wp_attempt]
  refine wp_mono (Q := fun _ ms' => Inv ms'.st) ?_ (fun o ms' h' => by cases o <;> exact h')
  apply wp_withWorkloadLocked node id _ flt _ ms h
  intro w ms0 h0 hw _
  rw [wp_bind]
  refine wp_mono (doReplaceWorkload_inv w flt hG ms0 h0 hw) (fun o ms' h' => by cases o <;> exact h')

end Eru.Cluster
