import Eru.Cluster.ProofsInv
/-
`create` preserves `Inv` under every single-fault placement (C10 for create, after the D12
fix).  The bookkeeping is a linear equation per node that every step keeps:

  condition step :  usage = load + Σ allocated-so-far
  then step      :  usage + Σ resources of the instances handled so far
                        = load + Σ planned + Σ failed-so-far
  rollbacks      :  give back exactly Σ allocated-so-far  resp.  Σ failed.
-/
set_option linter.unusedSectionVars false
set_option linter.unusedSimpArgs false
namespace Eru.Cluster
variable {R : Type} [ResAlg R]
open ResAlg

instance : Std.Associative (α := R) (· + ·) := ⟨add_assoc⟩
instance : Std.Commutative (α := R) (· + ·) := ⟨add_comm⟩

/-- `r` at node `n`, nothing elsewhere -/
def dlt (n : String) (r : R) (m : String) : R := if n = m then r else zero

theorem dlt_add (n : String) (a b : R) (m : String) : dlt n (a + b) m = dlt n a m + dlt n b m := by
  unfold dlt; split <;> simp [add_zero]

theorem dlt_zero (n m : String) : dlt n (zero : R) m = zero := by unfold dlt; split <;> rfl

theorem loadL_cons_dlt (w : Wl R) (ws : List (Wl R)) (m : String) :
    loadL (w :: ws) m = dlt w.node w.res m + loadL ws m := by
  unfold dlt; rw [loadL_cons]; split <;> simp [zero_add]

theorem sumOn_cons_dlt (n : String) (r : R) (l : List (String × R)) (m : String) :
    sumOn ((n, r) :: l) m = dlt n r m + sumOn l m := by
  unfold dlt; simp only [sumOn]; split <;> simp [zero_add]

theorem sumOn_append_single (l : List (String × R)) (n : String) (r : R) (m : String) :
    sumOn (l ++ [(n, r)]) m = sumOn l m + dlt n r m := by
  induction l with
  | nil => simp [sumOn_cons_dlt, sumOn, add_zero, zero_add]
  | cons p rest ih =>
    obtain ⟨n', r'⟩ := p
    rw [List.cons_append, sumOn_cons_dlt, sumOn_cons_dlt, ih, add_assoc]

theorem usage_addUsage_dlt (n : String) (r : R) (s : State R) (m : String) :
    (addUsage n r s).usage m = s.usage m + dlt n r m := by
  unfold dlt
  simp only [addUsage_usage]
  by_cases h : m = n
  · simp [h]
  · have : ¬ n = m := fun e => h e.symm
    simp [h, this, add_zero]

/-- Σ over the plan entries of node `m` of the instances' resources -/
def sumOnPlan (pl : List (String × List R)) (m : String) : R :=
  match pl with
  | [] => zero
  | p :: rest => dlt p.1 (sumRes p.2) m + sumOnPlan rest m

theorem sumOnPlan_append_single (pl : List (String × List R)) (p : String × List R) (m : String) :
    sumOnPlan (pl ++ [p]) m = sumOnPlan pl m + dlt p.1 (sumRes p.2) m := by
  induction pl with
  | nil => simp [sumOnPlan, add_zero, zero_add]
  | cons q rest ih => rw [List.cons_append]; simp only [sumOnPlan]; rw [ih, add_assoc]

theorem sumRes_append_single (rs : List R) (r : R) : sumRes (rs ++ [r]) = sumRes rs + r := by
  induction rs with
  | nil => simp [sumRes, add_zero, zero_add]
  | cons x rest ih => rw [List.cons_append]; simp only [sumRes]; rw [ih, add_assoc]

/-- ids distinct and below the fresh-id counter -/
def WFids (s : State R) : Prop := (s.wls.map (·.id)).Nodup ∧ ∀ w ∈ s.wls, w.id < s.next

/-- no step of a detached section can fail any more: a failure has already happened in this part
(`fired`), or there is no single fault at all (`flt = none`: the run is fault-free or cancelled, and
detached steps ignore the cancelled caller) -/
def Spent (flt : Option Addr) (ms : MS R) : Prop := ms.fired = true ∨ flt = none

theorem spent_renew {flt : Option Addr} {ms : MS R} (h : Spent flt ms) : Spent flt (renewMS flt ms) := by
  unfold renewMS
  split
  · rename_i hc
    right
    simp only [Bool.and_eq_true, Option.isNone_iff_eq_none] at hc
    exact hc.1
  · exact h

/-- a step of a detached section whose part is spent cannot fail -/
theorem hit_spent {flt : Option Addr} {ms : MS R} (hs : Spent flt ms) (hd : ms.detached = true) (k n : String) :
    hit flt ms.fired ms.cnt (cxOf ms k n) k n = false := by
  rcases hs with h | h
  · rw [h]; exact hit_fired _ _ _ _ _
  · subst h
    have : cxOf ms k n = false := by simp [cxOf, hd]
    rw [this]
    simp [hit]

theorem inv_iff (s : State R) : Inv s ↔ WFids s ∧ ∀ m, s.usage m = load s m :=
  ⟨fun h => ⟨⟨h.1, h.2.1⟩, h.2.2⟩, fun h => ⟨h.1.1, h.1.2, h.2⟩⟩

theorem wp_withFailMsg (m : M R Unit) (msg : Msg R) (Q : Out Unit → MS R → Prop) (flt : Option Addr) (ms : MS R) :
    wp (withFailMsg m msg) Q flt ms ↔
      wp m (fun o ms' => match o with
        | .ok u => Q (.ok u) ms'
        | .fail => Q .fail { ms' with msgs := ms'.msgs ++ [msg] }) flt ms := by
  unfold wp withFailMsg
  cases h : m flt ms with
  | mk o ms' => cases o <;> simp

/-- `forEach` with an invariant indexed by the prefix already visited -/
theorem wp_forEach_prefix {α} (I : List α → MS R → Prop) (F : MS R → Prop) (f : α → M R Unit)
    (flt : Option Addr) (all : List α)
    (hf : ∀ pre x suf, all = pre ++ x :: suf → ∀ ms, I pre ms →
      wp (f x) (fun o ms' => match o with | .ok _ => I (pre ++ [x]) ms' | .fail => F ms') flt ms) :
    ∀ (xs pre : List α), all = pre ++ xs → ∀ ms, I pre ms →
      wp (forEach xs f) (fun o ms' => match o with | .ok _ => I all ms' | .fail => F ms') flt ms := by
  intro xs
  induction xs with
  | nil =>
    intro pre hall ms h
    rw [List.append_nil] at hall
    subst hall
    exact h
  | cons x rest ih =>
    intro pre hall ms h
    show wp (f x >>= fun _ => forEach rest f) _ flt ms
    rw [wp_bind]
    apply wp_mono (hf pre x rest hall ms h)
    intro o ms' h'
    cases o with
    | fail => exact h'
    | ok u =>
      simp only [wpK_ok]
      exact ih (pre ++ [x]) (by rw [hall]; simp) ms' h'

theorem pres_step' {I : MS R → Prop} (k n : String) (eff : State R → State R)
    (hok : ∀ ms, I ms → I (okMS ms k n eff)) (hfail : ∀ ms, I ms → I (failMS ms k n)) :
    Pres I (step k n eff) := by
  intro flt ms h
  rw [wp_step]
  split
  · exact hfail ms h
  · exact hok ms h

/-! ### condition step -/

/-- before anything was allocated -/
def P0 (ms : MS R) : Prop := Inv ms.st ∧ ms.allocd = [] ∧ ms.failed = []

/-- while visiting the plan (prefix `pre` done) -/
def J1 (pre : List (String × List R)) (ms : MS R) : Prop :=
  WFids ms.st ∧ ms.failed = [] ∧ (∀ m, ms.st.usage m = load ms.st m + sumOn ms.allocd m) ∧
  (∀ m, sumOn ms.allocd m = sumOnPlan pre m)

/-- the condition step failed -/
def F1 (flt : Option Addr) (ms : MS R) : Prop :=
  WFids ms.st ∧ ms.failed = [] ∧ (∀ m, ms.st.usage m = load ms.st m + sumOn ms.allocd m) ∧
  (Spent flt ms ∨ ms.allocd = [])

theorem P0_F1 {flt : Option Addr} {ms : MS R} (h : P0 ms) : F1 flt ms := by
  obtain ⟨hi, ha, hf⟩ := h
  have := (inv_iff _).mp hi
  refine ⟨this.1, hf, ?_, Or.inr ha⟩
  intro m
  rw [ha, this.2 m]
  simp [sumOn, add_zero]

theorem P0_J1 {ms : MS R} (h : P0 ms) : J1 [] ms := by
  have hF := P0_F1 (flt := none) h
  exact ⟨hF.1, hF.2.1, hF.2.2.1, fun m => by rw [h.2.1]; rfl⟩

theorem wp_noteAlloc (n : String) (r : R) (Q : Out Unit → MS R → Prop) (flt : Option Addr) (ms : MS R) :
    wp (noteAlloc n r) Q flt ms ↔ Q (.ok ()) { ms with allocd := ms.allocd ++ [(n, r)] } := Iff.rfl

theorem wp_noteFailed (n : String) (r : R) (Q : Out Unit → MS R → Prop) (flt : Option Addr) (ms : MS R) :
    wp (noteFailed n r) Q flt ms ↔ Q (.ok ()) { ms with failed := ms.failed ++ [(n, r)] } := Iff.rfl

theorem pres_P0_inert (k n : String) (eff : State R → State R) (he : Inert eff) : Pres P0 (step k n eff) := by
  apply pres_step'
  · intro ms h
    exact ⟨inert_pres eff he _ h.1, h.2.1, h.2.2⟩
  · intro ms h
    exact h

theorem allocNode_spec (n : String) (rs : List R) (pre : List (String × List R)) (flt : Option Addr) (ms : MS R)
    (h : J1 pre ms) :
    wp (allocNode n rs) (fun o ms' => match o with | .ok _ => J1 (pre ++ [(n, rs)]) ms' | .fail => F1 flt ms') flt ms := by
  obtain ⟨hwf, hfl, hu, hs⟩ := h
  have key : ∀ m, (addUsage n (sumRes rs) ms.st).usage m =
      load ms.st m + sumOn (ms.allocd ++ [(n, sumRes rs)]) m := by
    intro m
    rw [usage_addUsage_dlt, hu m, sumOn_append_single, add_assoc]
  have key2 : ∀ m, sumOn (ms.allocd ++ [(n, sumRes rs)]) m = sumOnPlan (pre ++ [(n, rs)]) m := by
    intro m
    rw [sumOn_append_single, sumOnPlan_append_single, hs m]
  unfold allocNode
  simp only [wp_bind, wp_step, wp_noteAlloc, wpK_ok, wpK_fail]
  split
  · exact ⟨hwf, hfl, hu, Or.inl (Or.inl rfl)⟩
  · split
    · exact ⟨hwf, hfl, key, Or.inl (Or.inl rfl)⟩
    · split
      · exact ⟨hwf, hfl, key, Or.inl (Or.inl rfl)⟩
      · exact ⟨hwf, hfl, key, key2⟩

/-- a P0-preserving step followed by a continuation: on failure `F1` holds -/
theorem wp_P0_then {m : M R Unit} {k : Unit → M R Unit} {Q : Out Unit → MS R → Prop} (hm : Pres P0 m)
    (flt : Option Addr) (ms : MS R) (h : P0 ms)
    (hfail : ∀ ms', F1 flt ms' → Q .fail ms') (hk : ∀ ms', P0 ms' → wp (k ()) Q flt ms') :
    wp (m >>= k) Q flt ms := by
  rw [wp_bind]
  apply wp_mono (hm flt ms h)
  intro o ms1 h1
  cases o with
  | fail => exact hfail ms1 (P0_F1 h1)
  | ok u => exact hk ms1 h1

theorem createCond_spec (a : CreateArgs R) (flt : Option Addr) (ms : MS R) (h : P0 ms) :
    wp (createCond a) (fun o ms' => match o with | .ok _ => J1 a.plan ms' | .fail => F1 flt ms') flt ms := by
  unfold createCond
  have hfilter : Pres P0 (createFilter a) := by
    unfold createFilter
    apply pres_ite
    · exact pres_P0_inert _ _ _ inert_id
    · exact pres_forEach _ (fun n _ => pres_P0_inert _ _ _ inert_id)
  have hguard : Pres P0 (guardNodes a) := by
    unfold guardNodes
    exact pres_ite _ (pres_refuse _) (pres_pure _ _)
  apply wp_P0_then hfilter flt ms h (fun _ hF => hF)
  intro ms1 h1
  apply wp_P0_then hguard flt ms1 h1 (fun _ hF => hF)
  intro ms2 h2
  apply wp_P0_then (pres_P0_inert _ _ _ (inert_walAdd _ _ _)) flt ms2 h2 (fun _ hF => hF)
  intro ms3 h3
  apply wp_P0_then (pres_P0_inert _ _ _ inert_id) flt ms3 h3 (fun _ hF => hF)
  intro ms4 h4
  apply wp_P0_then (pres_P0_inert _ _ _ inert_id) flt ms4 h4 (fun _ hF => hF)
  intro ms5 h5
  unfold createPlan
  rw [wp_ite]
  split
  · exact wp_forEach_prefix J1 (F1 flt) _ flt a.plan
      (fun pre x suf _ ms' hJ => allocNode_spec x.1 x.2 pre flt ms' hJ) a.plan [] rfl ms5 (P0_J1 h5)
  · exact P0_F1 h5

/-! ### giving back -/

theorem dlt_neg_cancel (n : String) (r : R) (m : String) : dlt n r m + dlt n (-r) m = zero := by
  rw [← dlt_add, add_neg, dlt_zero]

theorem alg_cancel {L d d' S : R} (h : d + d' = zero) : (L + (d + S)) + d' = L + S := by
  have e : (L + (d + S)) + d' = L + S + (d + d') := by ac_rfl
  rw [e, h, add_zero]

theorem giveBack_fired (n : String) (r : R) (flt : Option Addr) (ms : MS R) (hf : Spent flt ms)
    (hd : ms.detached = true) :
    wp (giveBack n r) (fun o ms' => o = .ok () ∧ (Spent flt ms' ∧ ms'.detached = true) ∧
      ms'.st.usage = (addUsage n (-r) ms.st).usage ∧ ms'.st.wls = ms.st.wls ∧ ms'.st.next = ms.st.next) flt ms := by
  unfold giveBack
  wp_simp
  rw [hit_spent hf hd]
  simp only [Bool.false_eq_true, if_false]
  have hf1 : Spent flt (okMS ms "storeGetNode" n id) := hf
  have h2 := hit_spent hf1 (show (okMS ms "storeGetNode" n id).detached = true from hd) "pluginRollbackAlloc" n
  simp only [okMS_fired] at h2
  rw [h2]
  simp only [Bool.false_eq_true, if_false]
  exact ⟨trivial, ⟨hf, hd⟩, by simp, rfl, rfl⟩

/-- giving back every entry of `l` when usage = load + Σ l restores `Inv` -/
theorem giveBackAll_inv (flt : Option Addr) : ∀ (l : List (String × R)) (ms : MS R), Spent flt ms ∧ ms.detached = true → WFids ms.st →
    (∀ m, ms.st.usage m = load ms.st m + sumOn l m) →
    wp (forEach l (fun p => giveBack p.1 p.2)) (fun _ ms' => Inv ms'.st) flt ms := by
  intro l
  induction l with
  | nil =>
    intro ms _ hwf hu
    show Inv ms.st
    refine (inv_iff _).mpr ⟨hwf, fun m => ?_⟩
    rw [hu m]; simp [sumOn, add_zero]
  | cons p rest ih =>
    obtain ⟨n, r⟩ := p
    intro ms hf hwf hu
    show wp (giveBack n r >>= fun _ => forEach rest _) _ flt ms
    rw [wp_bind]
    apply wp_mono (giveBack_fired n r flt ms hf.1 hf.2)
    intro o ms' h'
    obtain ⟨rfl, hf', hu', hw', hn'⟩ := h'
    simp only [wpK_ok]
    apply ih ms' hf'
    · exact ⟨hw' ▸ hwf.1, fun w hw => by rw [hn']; exact hwf.2 w (hw' ▸ hw)⟩
    · intro m
      have : load ms'.st m = load ms.st m := by unfold load; rw [hw']
      rw [this, hu', usage_addUsage_dlt, hu m, sumOn_cons_dlt]
      exact alg_cancel (dlt_neg_cancel n r m)

theorem rollbackCond_inv (a : CreateArgs R) (flt : Option Addr) (ms : MS R) (h : F1 flt ms) (hd : ms.detached = true) :
    wp (createRollback a true) (fun _ ms' => Inv ms'.st) flt ms := by
  obtain ⟨hwf, _, hu, hor⟩ := h
  unfold createRollback
  rw [wp_bind, wp_getMS]
  simp only [wpK_ok, if_true]
  rcases hor with hf | he
  · exact giveBackAll_inv flt ms.allocd ms ⟨hf, hd⟩ hwf hu
  · rw [he]
    show Inv ms.st
    refine (inv_iff _).mpr ⟨hwf, fun m => ?_⟩
    have := hu m
    rw [he] at this
    rw [this]; simp [sumOn, add_zero]

/-! ### then step -/

/-- while deploying: plan prefix `pre` done, on the current node `n` instances `done` done -/
def KI (flt : Option Addr) (plan pre : List (String × List R)) (n : String) (done : List R) (ms : MS R) : Prop :=
  WFids ms.st ∧
  (∀ m, ms.st.usage m + (sumOnPlan pre m + dlt n (sumRes done) m) =
        load ms.st m + sumOnPlan plan m + sumOn ms.failed m) ∧
  (ms.failed ≠ [] → Spent flt ms) ∧ (∀ p ∈ ms.failed, p.1 ∈ plan.map (·.1))

def K (flt : Option Addr) (plan pre : List (String × List R)) (ms : MS R) : Prop :=
  WFids ms.st ∧
  (∀ m, ms.st.usage m + sumOnPlan pre m = load ms.st m + sumOnPlan plan m + sumOn ms.failed m) ∧
  (ms.failed ≠ [] → Spent flt ms) ∧ (∀ p ∈ ms.failed, p.1 ∈ plan.map (·.1))

theorem K_KI {flt : Option Addr} {plan pre : List (String × List R)} {n : String} {ms : MS R} (h : K flt plan pre ms) : KI flt plan pre n [] ms := by
  obtain ⟨h1, h2, h3, h4⟩ := h
  refine ⟨h1, fun m => ?_, h3, h4⟩
  rw [show sumRes ([] : List R) = zero from rfl, dlt_zero, add_zero]
  exact h2 m

theorem KI_K {flt : Option Addr} {plan pre : List (String × List R)} {n : String} {rs : List R} {ms : MS R}
    (h : KI flt plan pre n rs ms) : K flt plan (pre ++ [(n, rs)]) ms := by
  obtain ⟨h1, h2, h3, h4⟩ := h
  refine ⟨h1, fun m => ?_, h3, h4⟩
  rw [sumOnPlan_append_single]
  exact h2 m

/-- one more failed instance: both sides of the equation grow by its resources -/
theorem KI_fail {flt : Option Addr} {plan pre : List (String × List R)} {n : String} {done : List R} {r : R} {ms ms' : MS R}
    (h : KI flt plan pre n done ms) (hn : n ∈ plan.map (·.1))
    (hu : ms'.st.usage = ms.st.usage) (hw : ms'.st.wls = ms.st.wls) (hnx : ms.st.next ≤ ms'.st.next)
    (hfl : ms'.failed = ms.failed ++ [(n, r)]) (hf : Spent flt ms') : KI flt plan pre n (done ++ [r]) ms' := by
  obtain ⟨h1, h2, h3, h4⟩ := h
  refine ⟨⟨hw ▸ h1.1, fun w hw' => Nat.lt_of_lt_of_le (h1.2 w (hw ▸ hw')) hnx⟩, fun m => ?_, fun _ => hf, ?_⟩
  · have hl : load ms'.st m = load ms.st m := by unfold load; rw [hw]
    rw [hl, hu, hfl, sumOn_append_single, sumRes_append_single, dlt_add]
    have e : ms.st.usage m + (sumOnPlan pre m + (dlt n (sumRes done) m + dlt n r m)) =
        (ms.st.usage m + (sumOnPlan pre m + dlt n (sumRes done) m)) + dlt n r m := by ac_rfl
    rw [e, h2 m]; ac_rfl
  · intro p hp
    rw [hfl] at hp
    rcases List.mem_append.mp hp with hp | hp
    · exact h4 p hp
    · simp only [List.mem_singleton] at hp
      rw [hp]; exact hn

/-- one more deployed instance: a fresh record with its resources -/
theorem KI_ok {flt : Option Addr} {plan pre : List (String × List R)} {n : String} {done : List R} {r : R} {ms ms' : MS R}
    (h : KI flt plan pre n done ms)
    (hu : ms'.st.usage = ms.st.usage) (hw : ms'.st.wls = ⟨ms.st.next, n, r⟩ :: ms.st.wls)
    (hnx : ms.st.next + 1 ≤ ms'.st.next)
    (hfl : ms'.failed = ms.failed) (hf : Spent flt ms → Spent flt ms') : KI flt plan pre n (done ++ [r]) ms' := by
  obtain ⟨h1, h2, h3, h4⟩ := h
  refine ⟨⟨?_, ?_⟩, fun m => ?_, fun hne => hf (h3 (hfl ▸ hne)), fun p hp => h4 p (hfl ▸ hp)⟩
  · rw [hw, List.map_cons, List.nodup_cons]
    refine ⟨?_, h1.1⟩
    intro hmem
    obtain ⟨x, hx, hxid⟩ := List.mem_map.mp hmem
    have := h1.2 x hx
    simp only at hxid
    omega
  · intro w hw'
    rw [hw] at hw'
    rcases List.mem_cons.mp hw' with rfl | hw'
    · simp only; omega
    · have := h1.2 w hw'; omega
  · have hl : load ms'.st m = dlt n r m + load ms.st m := by
      unfold load; rw [hw, loadL_cons_dlt]
    rw [hl, hu, hfl, sumRes_append_single, dlt_add]
    have e : ms.st.usage m + (sumOnPlan pre m + (dlt n (sumRes done) m + dlt n r m)) =
        (ms.st.usage m + (sumOnPlan pre m + dlt n (sumRes done) m)) + dlt n r m := by ac_rfl
    rw [e, h2 m]; ac_rfl

theorem deployInsts_spec (plan pre : List (String × List R)) (n : String) (hn : n ∈ plan.map (·.1))
    (flt : Option Addr) : ∀ (rs done : List R) (ms : MS R), KI flt plan pre n done ms →
    wp (deployInsts n rs) (fun o ms' => o = .ok () ∧ KI flt plan pre n (done ++ rs) ms') flt ms := by
  intro rs
  induction rs with
  | nil =>
    intro done ms h
    rw [List.append_nil]
    exact ⟨rfl, h⟩
  | cons r rest ih =>
    intro done ms h
    have hrec : ∀ ms', KI flt plan pre n (done ++ [r]) ms' →
        wp (deployInsts n rest) (fun o ms' => o = .ok () ∧ KI flt plan pre n (done ++ r :: rest) ms') flt ms' := by
      intro ms' h'
      have := ih (done ++ [r]) ms' h'
      rwa [List.append_assoc, List.singleton_append] at this
    unfold deployInsts
    rw [wp_bind, wp_renew]
    simp only [wpK_ok]
    have h : KI flt plan pre n done (renewMS flt ms) := by
      obtain ⟨h1, h2, h3, h4⟩ := h
      exact ⟨by simpa using h1, by simpa [load] using h2, fun hne => spent_renew (h3 (by simpa using hne)), by simpa using h4⟩
    generalize renewMS flt ms = ms at h ⊢
    rw [wp_bind, wp_getSt]
    simp only [wpK_ok]
    rw [wp_bind, wp_attempt, wp_bind]
    apply wp_mono (deployOne_spec n r true flt ms)
    intro o ms1 h1
    rcases h1 with ⟨rfl, hp⟩ | ⟨rfl, hp⟩
    · obtain ⟨_, _, hu, hfl, _, _, _, hfm, hp⟩ := hp
      rcases hp with ⟨_, hws, hnx, _⟩ | ⟨hb, _⟩
      · simp only [wpK_ok, wp_pure, attK_ok]
        rw [wp_bind]
        unfold instMsg
        simp only [if_true, wp_emit, wpK_ok]
        apply hrec
        exact KI_ok h hu hws (by rw [hnx]; omega) hfl (fun hs => hs.elim (fun e => Or.inl (hfm e)) Or.inr)
      · cases hb
    · obtain ⟨_, _, hu, hfl, _, _, hle, _, hp⟩ := hp
      rcases hp with ⟨hb, _⟩ | ⟨_, hf, hws, _⟩
      · cases hb
      · simp only [wpK_fail, attK_fail, wpK_ok]
        rw [wp_bind]
        unfold instMsg
        simp only [Bool.false_eq_true, if_false, wp_bind, wp_noteFailed, wp_emit, wpK_ok]
        apply hrec
        have hws' : ms1.st.wls = ms.st.wls := by
          rcases hws with e | e
          · exact e
          · rw [e, filter_fresh h.1.2]
        exact KI_fail h hn hu hws' hle (by simp [hfl]) (Or.inl (by simpa using hf))

/-- the node could not be prepared: every instance is reported failed -/
theorem failAll_spec (plan pre : List (String × List R)) (n : String) (hn : n ∈ plan.map (·.1))
    (flt : Option Addr) : ∀ (rs done : List R) (ms : MS R), KI flt plan pre n done ms → Spent flt ms →
    wp (forEach rs (fun r => do noteFailed n r; emit ⟨"", 0, false, none⟩))
      (fun o ms' => o = .ok () ∧ KI flt plan pre n (done ++ rs) ms') flt ms := by
  intro rs
  induction rs with
  | nil =>
    intro done ms h _
    rw [List.append_nil]
    exact ⟨rfl, h⟩
  | cons r rest ih =>
    intro done ms h hf
    show wp ((do noteFailed n r; emit ⟨"", 0, false, none⟩) >>= fun _ => forEach rest _) _ flt ms
    simp only [wp_bind, wp_noteFailed, wp_emit, wpK_ok]
    have := ih (done ++ [r]) _ (KI_fail (ms' := { ms with failed := ms.failed ++ [(n, r)], msgs := ms.msgs ++ [⟨"", 0, false, none⟩] })
      h hn rfl rfl (Nat.le_refl _) rfl hf) hf
    rwa [List.append_assoc, List.singleton_append] at this

/-- entering the node with nothing to give back keeps the equation (zero is added to both sides) -/
theorem K_noteZero {flt : Option Addr} {plan pre : List (String × List R)} {ms : MS R} (n : String) (hn : n ∈ plan.map (·.1))
    (h : K flt plan pre ms) (hf : Spent flt ms) : K flt plan pre { ms with failed := ms.failed ++ [(n, zero)] } := by
  obtain ⟨h1, h2, h3, h4⟩ := h
  refine ⟨h1, fun m => ?_, fun _ => hf, ?_⟩
  · show ms.st.usage m + sumOnPlan pre m = load ms.st m + sumOnPlan plan m + sumOn (ms.failed ++ [(n, zero)]) m
    rw [sumOn_append_single, dlt_zero, add_zero]
    exact h2 m
  · intro p hp
    rcases List.mem_append.mp hp with hp | hp
    · exact h4 p hp
    · simp only [List.mem_singleton] at hp
      rw [hp]; exact hn

/-- `noteNodeFailed` after the failed read keeps `K` -/
theorem wp_noteNodeFailed_K {plan pre : List (String × List R)} (n : String) (rs : List R) (hn : n ∈ plan.map (·.1))
    (flt : Option Addr) (ms : MS R) (h : K flt plan pre ms) (hf : Spent flt ms) :
    wp (noteNodeFailed n rs) (fun o ms' => o = .ok () ∧ K flt plan pre ms' ∧ Spent flt ms') flt ms := by
  unfold noteNodeFailed
  rw [wp_ite]
  split
  · exact ⟨rfl, K_noteZero n hn h hf, hf⟩
  · exact ⟨rfl, h, hf⟩

theorem K_failMS {flt : Option Addr} {plan pre : List (String × List R)} {ms : MS R} (k n : String) (h : K flt plan pre ms) :
    K flt plan pre (failMS ms k n) := ⟨h.1, h.2.1, fun _ => Or.inl rfl, h.2.2.2⟩

theorem K_okMS_id {flt : Option Addr} {plan pre : List (String × List R)} {ms : MS R} (k n : String) (h : K flt plan pre ms) :
    K flt plan pre (okMS ms k n id) := h

theorem deployNode_spec (plan pre : List (String × List R)) (p : String × List R) (hn : p.1 ∈ plan.map (·.1))
    (flt : Option Addr) (ms : MS R) (h : K flt plan pre ms) :
    wp (deployNode p.1 p.2) (fun o ms' => match o with | .ok _ => K flt plan (pre ++ [p]) ms' | .fail => False) flt ms := by
  unfold deployNode
  rw [wp_bind, wp_renew]
  simp only [wpK_ok]
  have h : K flt plan pre (renewMS flt ms) := by
    obtain ⟨h1, h2, h3, h4⟩ := h
    exact ⟨by simpa using h1, by simpa [load] using h2, fun hne => spent_renew (h3 (by simpa using hne)), by simpa using h4⟩
  generalize renewMS flt ms = ms at h ⊢
  rw [wp_bind, wp_attempt, wp_readStep]
  split
  · simp only [attK_fail, wpK_ok, Bool.false_eq_true, if_false]
    rw [wp_bind]
    apply wp_mono (wp_noteNodeFailed_K p.1 p.2 hn flt _ (K_failMS "storeGetNode" p.1 h) (Or.inl rfl))
    intro o0 ms0 h0
    obtain ⟨rfl, hK0, hf0⟩ := h0
    simp only [wpK_ok]
    apply wp_mono (failAll_spec plan pre p.1 hn flt p.2 [] _ (K_KI hK0) hf0)
    intro o ms' h'
    obtain ⟨rfl, h'⟩ := h'
    simp only [List.nil_append] at h'
    exact KI_K h'
  · simp only [attK_ok, wpK_ok, if_true]
    apply wp_mono (deployInsts_spec plan pre p.1 hn flt p.2 [] _ (K_KI (K_okMS_id _ _ h)))
    intro o ms' h'
    obtain ⟨rfl, h'⟩ := h'
    simp only [List.nil_append] at h'
    exact KI_K h'

/-- the then step failed: usage = load + Σ failed, and the fault has fired -/
def R2 (flt : Option Addr) (plan : List (String × List R)) (ms : MS R) : Prop :=
  WFids ms.st ∧ (∀ m, ms.st.usage m = load ms.st m + sumOn ms.failed m) ∧ Spent flt ms ∧
  (∀ p ∈ ms.failed, p.1 ∈ plan.map (·.1))

theorem createThen_spec (a : CreateArgs R) (flt : Option Addr) (ms : MS R) (h : J1 a.plan ms) :
    wp (createThen a) (fun o ms' => match o with | .ok _ => Inv ms'.st | .fail => R2 flt a.plan ms') flt ms := by
  obtain ⟨hwf, hfl, hu, hs⟩ := h
  have hK : K flt a.plan [] ms := by
    refine ⟨hwf, fun m => ?_, fun hne => absurd hfl hne, fun p hp => by rw [hfl] at hp; cases hp⟩
    rw [hfl, hu m, hs m]
    simp [sumOnPlan, sumOn, add_zero]
  unfold createThen
  rw [wp_bind]
  have := wp_forEach_prefix (K flt a.plan) (fun _ => False) (fun p => deployNode p.1 p.2) flt a.plan
    (fun pre x suf hall ms' hJ => deployNode_spec a.plan pre x (by rw [hall]; simp) flt ms' hJ) a.plan [] rfl ms hK
  apply wp_mono this
  intro o ms1 h1
  cases o with
  | fail => exact h1.elim
  | ok u =>
    obtain ⟨hwf1, hu1, hf1, hk1⟩ := h1
    simp only [wpK_ok]
    rw [wp_bind, wp_getMS]
    simp only [wpK_ok]
    have hu1' : ∀ m, ms1.st.usage m = load ms1.st m + sumOn ms1.failed m := by
      intro m
      have e : ms1.st.usage m + sumOnPlan a.plan m = (load ms1.st m + sumOn ms1.failed m) + sumOnPlan a.plan m := by
        rw [hu1 m]; ac_rfl
      exact add_right_cancel e
    rw [wp_ite]
    split
    · rename_i he
      have he' : ms1.failed = [] := by simpa using he
      show Inv ms1.st
      refine (inv_iff _).mpr ⟨hwf1, fun m => ?_⟩
      rw [hu1' m, he']; simp [sumOn, add_zero]
    · rename_i he
      have he' : ms1.failed ≠ [] := by simpa using he
      exact ⟨hwf1, hu1', hf1 he', hk1⟩

theorem sumOn_zero_of_not_hasKey (l : List (String × R)) (m : String) (h : hasKey l m = false) :
    sumOn l m = zero := by
  induction l with
  | nil => rfl
  | cons p rest ih =>
    obtain ⟨n, r⟩ := p
    simp only [hasKey, List.any_cons, Bool.or_eq_false_iff, beq_eq_false_iff_ne, ne_eq] at h
    have hne : ¬ n = m := h.1
    simp only [sumOn, hne, if_false]
    exact ih (by simpa [hasKey] using h.2)

theorem giveBackNodes_inv (fl : List (String × R)) (flt : Option Addr) :
    ∀ (ps : List (String × List R)) (ms : MS R), (ps.map (·.1)).Nodup → Spent flt ms ∧ ms.detached = true → WFids ms.st →
    (∀ m, ms.st.usage m = load ms.st m + (if m ∈ ps.map (·.1) then sumOn fl m else zero)) →
    wp (forEach ps (fun p => giveBack p.1 (sumOn fl p.1))) (fun _ ms' => Inv ms'.st) flt ms := by
  intro ps
  induction ps with
  | nil =>
    intro ms _ _ hwf hu
    show Inv ms.st
    refine (inv_iff _).mpr ⟨hwf, fun m => ?_⟩
    rw [hu m]; simp [add_zero]
  | cons p rest ih =>
    intro ms hnd hf hwf hu
    simp only [List.map_cons, List.nodup_cons] at hnd
    show wp (giveBack p.1 (sumOn fl p.1) >>= fun _ => forEach rest _) _ flt ms
    rw [wp_bind]
    apply wp_mono (giveBack_fired p.1 (sumOn fl p.1) flt ms hf.1 hf.2)
    intro o ms' h'
    obtain ⟨rfl, hf', hu', hw', hn'⟩ := h'
    simp only [wpK_ok]
    apply ih ms' hnd.2 hf'
    · exact ⟨hw' ▸ hwf.1, fun w hw => by rw [hn']; exact hwf.2 w (hw' ▸ hw)⟩
    · intro m
      have hl : load ms'.st m = load ms.st m := by unfold load; rw [hw']
      rw [hl, hu', usage_addUsage_dlt, hu m]
      by_cases hm : p.1 = m
      · subst hm
        have hnot : ¬ p.1 ∈ rest.map (·.1) := hnd.1
        simp only [List.map_cons, List.mem_cons, true_or, if_true, hnot, if_false, dlt]
        rw [add_assoc, add_neg]
      · have hm' : ¬ m = p.1 := fun e => hm e.symm
        simp only [List.map_cons, List.mem_cons, hm', false_or, dlt, hm, if_false, add_zero]

theorem rollbackThen_inv (a : CreateArgs R) (hnd : (a.plan.map (·.1)).Nodup) (flt : Option Addr) (ms : MS R)
    (h : R2 flt a.plan ms) (hd : ms.detached = true) : wp (createRollback a false) (fun _ ms' => Inv ms'.st) flt ms := by
  obtain ⟨hwf, hu, hf, hk⟩ := h
  unfold createRollback
  rw [wp_bind, wp_getMS]
  simp only [wpK_ok, Bool.false_eq_true, if_false]
  apply giveBackNodes_inv ms.failed flt _ ms
    (List.Nodup.sublist (List.Sublist.map _ List.filter_sublist) hnd) ⟨hf, hd⟩ hwf
  intro m
  rw [hu m]
  split
  · rfl
  · rename_i hnot
    have : hasKey ms.failed m = false := by
      cases hh : hasKey ms.failed m with
      | false => rfl
      | true =>
        exfalso
        apply hnot
        simp only [hasKey, List.any_eq_true, beq_iff_eq] at hh
        obtain ⟨q, hq, hqm⟩ := hh
        obtain ⟨p, hp, hpm⟩ := List.mem_map.mp (hk q hq)
        refine List.mem_map.mpr ⟨p, List.mem_filter.mpr ⟨hp, ?_⟩, by rw [hpm, hqm]⟩
        simp only [hasKey, List.any_eq_true, beq_iff_eq]
        exact ⟨q, hq, by rw [hpm]⟩
    rw [sumOn_zero_of_not_hasKey _ _ this]

theorem createTxn_inv (a : CreateArgs R) (hnd : (a.plan.map (·.1)).Nodup) (flt : Option Addr) (ms : MS R)
    (h : P0 ms) : wp (createTxn a) (fun _ ms' => Inv ms'.st) flt ms := by
  unfold createTxn
  rw [wp_txn, wp_withFailMsg]
  apply wp_mono (createCond_spec a flt ms h)
  intro o ms1 h1
  cases o with
  | fail =>
    simp only [txnK1_fail_some, exec_withDetached, setDet_st]
    exact rollbackCond_inv a flt (setDet { ms1 with msgs := ms1.msgs ++ [⟨"", 0, false, none⟩] } true)
      (show F1 flt (setDet { ms1 with msgs := ms1.msgs ++ [⟨"", 0, false, none⟩] } true) from h1) rfl
  | ok u =>
    simp only [txnK1_ok_some]
    apply wp_mono (createThen_spec a flt ms1 h1)
    intro o2 ms2 h2
    cases o2 with
    | ok u2 => exact h2
    | fail =>
      simp only [txnK2_fail_some, exec_withDetached, setDet_st]
      exact rollbackThen_inv a hnd flt (setDet ms2 true) h2 rfl

/-- **create preserves `Inv` under every single-fault placement** (nodes of the plan distinct, as
the keys of Go's deploy map are) -/
theorem create_inv (a : CreateArgs R) (hnd : (a.plan.map (·.1)).Nodup) (flt : Option Addr) (ms : MS R)
    (h : P0 ms) : wp (create a) (fun _ ms' => Inv ms'.st) flt ms := by
  have hinert : ∀ (k n : String) (eff : State R → State R), Inert eff →
      Pres (onSt Inv) (do let _ ← attempt (step k n eff); pure ()) := by
    intro k n eff he
    exact pres_bind (pres_attempt (pres_step _ _ _ (inert_pres eff he))) (fun _ => pres_pure _ _)
  unfold create
  rw [wp_bind, wp_attempt]
  apply wp_mono (createTxn_inv a hnd flt ms h)
  intro o ms1 h1
  have h1' : onSt Inv ms1 := h1
  have tail : Pres (onSt Inv) (do withDetached (deleteMarkers a); withDetached (commitProcessing a); withDetached commitAllocated) := by
    apply pres_bind
    · apply pres_withDetached onSt_setDet
      unfold deleteMarkers
      apply pres_bind (fun _ _ h => h)
      intro msx
      exact pres_ite _ (pres_forEach _ (fun p _ => hinert _ _ _ (inert_rmMarker _))) (pres_pure _ _)
    · intro _
      apply pres_bind
      · apply pres_withDetached onSt_setDet
        unfold commitProcessing
        apply pres_bind (fun _ _ h => h)
        intro msx
        exact pres_forEach _ (fun p _ => hinert _ _ _ (inert_walRm _ _ _))
      · intro _
        apply pres_withDetached onSt_setDet
        unfold commitAllocated
        apply pres_bind (fun _ _ h => h)
        intro msx
        exact pres_ite _ (hinert _ _ _ (inert_walRm _ _ _)) (pres_pure _ _)
  cases o <;> exact tail flt ms1 h1'

end Eru.Cluster
