import Eru.Cluster.Steps
import Eru.Cluster.Remove
/-
Cluster model: `ReallocResource` (realloc.go, after the D11 fix be32499 + d840e09: the metadata update is part
of the then-step, so its failure triggers the rollback of the committed usage delta; the rollback writes
the original metadata back only if the new metadata had been written).
The resource layer's answer (`delta`, `newRes`) is an argument; `none` = the plugin refuses
(nothing committed).
-/
namespace Eru.Cluster
variable {R : Type} [ResAlg R]

def doReallocOnNode (w : Wl R) (answer : Option (R × R)) : M R Unit :=
  match answer with
  | none => do readStep "pluginRealloc" w.node; refuse
  | some (delta, newRes) => do
    setFlag false                                   -- metaUpdated := false
    txn (step "pluginRealloc" w.node (addUsage w.node delta))
        (do step "storeUpdateWorkload" w.node (setWlRes w.id newRes)
            setFlag true                            -- metaUpdated = true
            readStep "engineUpdate" w.node)
        (onThenFailure (do
            step "pluginRollbackRealloc" w.node (addUsage w.node (-delta))
            let ms ← getMS
            -- the original metadata is written back only if the new one had been written (/repo d840e09)
            if ms.flag then step "storeUpdateWorkload" w.node (setWlRes w.id w.res) else pure ()))

/-- `node`: the node the id was last seen on (address of the reads). -/
def realloc (node : String) (id : Nat) (answer : Option (R × R)) : M R Unit := do
  readStep "storeGetWorkload" node
  let s ← getSt
  match findWl s id with
  | none => refuse
  | some w0 =>
    readStep "storeGetNode" w0.node
    withWorkloadLocked w0.node id (fun w => doReallocOnNode w answer)

end Eru.Cluster
