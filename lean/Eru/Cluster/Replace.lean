import Eru.Cluster.Steps
import Eru.Cluster.Remove
/-
Cluster model: `doDeployOneWorkload` (create.go, shared by create and replace) and
`ReplaceWorkload` for one id (replace.go): stop old; create+start new with the old
workload's resources (no allocation); remove old (no release); restart old on failure.
The inner transaction has NO rollback (D13).
-/
namespace Eru.Cluster
variable {R : Type} [ResAlg R]

/-- the transaction inside `doDeployOneWorkload`; `id` is the id the engine will hand out -/
def deployTxn (n : String) (r : R) (decr : Bool) (id : Nat) : M R Unit :=
  txn
    (do step "engineCreate" n (addCt ⟨id, n, false⟩)
        step "walLog:create-workload" n (walAdd "create-workload" n id))
    (do step "storeAddWorkload" n (fun s => (if decr then decrMarker n else fun x => x) (addWl ⟨id, n, r⟩ s))
        step "engineStart" n (setRunning id true)
        readStep "engineInspect" n)
    (some fun _ => do
        let s ← getSt
        if s.next > id then do                -- Go: workload.ID != "" (engineCreate succeeded and consumed the id)
          step "storeRemoveWorkload" n (rmWl id)
          step "engineRemove" n (rmCt id)
        else pure ())

/-- deferred in `doDeployOneWorkload`: commit the create-workload event if it was logged -/
def commitCreated (n : String) (id : Nat) : M R Unit := do
  let s ← getSt
  if s.wal.contains ("create-workload", n, id) then
    let _ ← attempt (step "walCommit:create-workload" n (walRm "create-workload" n id))
    pure ()
  else pure ()

/-- `doDeployOneWorkload` on node `n` with resources `r`; `decr`: also decrement the
in-progress marker (create) or not (replace). Returns the new workload's id. -/
def deployOne (n : String) (r : R) (decr : Bool) : M R Nat := do
  let s ← getSt
  let id := s.next
  let ok ← attempt (deployTxn n r decr id)
  commitCreated n id
  if ok then pure id else refuse

def doReplaceWorkload (w : Wl R) : M R Nat := do
  readStep "storeGetNode" w.node                      -- doGetAndPrepareNode
  let s ← getSt
  let newId := s.next
  txn (step "engineStop" w.node (setRunning w.id false))
      (txn (do let _ ← deployOne w.node w.res false; pure ())
           (doRemoveWorkload w)
           none)
      (some fun _ => step "engineStart" w.node (setRunning w.id true))
  pure newId

/-- replace one workload; sends one message (ok / failed), returns nothing -/
def replace (node : String) (id : Nat) : M R Unit := do
  let ok ← attempt (withWorkloadLocked node id (fun w => do let _ ← doReplaceWorkload w; pure ()))
  emit ⟨node, id, ok, none⟩

end Eru.Cluster
