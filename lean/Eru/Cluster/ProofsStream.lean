import Eru.Cluster.ProofsEffect
/-
C12 at the model level: shape of the create result stream and truthfulness of its successes.
-/
set_option linter.unusedSectionVars false
set_option linter.unusedSimpArgs false
namespace Eru.Cluster
variable {R : Type} [ResAlg R]
open ResAlg

/-- number of planned instances -/
def planned (pl : List (String × List R)) : Nat :=
  match pl with
  | [] => 0
  | p :: rest => p.2.length + planned rest

theorem planned_append_single (pl : List (String × List R)) (p : String × List R) :
    planned (pl ++ [p]) = planned pl + p.2.length := by
  induction pl with
  | nil => simp [planned]
  | cons q rest ih => rw [List.cons_append]; simp only [planned]; rw [ih]; omega

/-- every success message sent so far names a recorded workload on the reported node whose
container exists and runs (ids of reported workloads are below the fresh-id counter) -/
def Truth (ms : MS R) : Prop :=
  ∀ m ∈ ms.msgs, m.ok = true →
    m.id < ms.st.next ∧ (∃ w ∈ ms.st.wls, w.id = m.id ∧ w.node = m.node) ∧ (⟨m.id, m.node, true⟩ : Ct) ∈ ms.st.cts

/-- `Truth` is kept when messages, records, containers and the counter are kept -/
theorem Truth.same {ms ms' : MS R} (h : Truth ms) (hm : ms'.msgs = ms.msgs) (hw : ms'.st.wls = ms.st.wls)
    (hc : ms'.st.cts = ms.st.cts) (hn : ms.st.next ≤ ms'.st.next) : Truth ms' := by
  intro m hmem hok
  rw [hm] at hmem
  obtain ⟨h1, h2, h3⟩ := h m hmem hok
  exact ⟨Nat.lt_of_lt_of_le h1 hn, hw ▸ h2, hc ▸ h3⟩

/-- a failure message never hurts -/
theorem Truth.addFail {ms ms' : MS R} (h : Truth ms) (f : Msg) (hf : f.ok = false)
    (hm : ms'.msgs = ms.msgs ++ [f]) (hw : ms'.st.wls = ms.st.wls)
    (hc : ms'.st.cts = ms.st.cts) (hn : ms.st.next ≤ ms'.st.next) : Truth ms' := by
  intro m hmem hok
  rw [hm] at hmem
  rcases List.mem_append.mp hmem with hmem | hmem
  · obtain ⟨h1, h2, h3⟩ := h m hmem hok
    exact ⟨Nat.lt_of_lt_of_le h1 hn, hw ▸ h2, hc ▸ h3⟩
  · simp only [List.mem_singleton] at hmem
    rw [hmem, hf] at hok
    cases hok

/-- `Truth` survives a deploy attempt of a FRESH id (`DeployPost`), whatever its outcome -/
theorem Truth.deploy {n : String} {r : R} {ms ms' : MS R} {b : Bool} (h : Truth ms)
    (hp : DeployPost n r ms b ms') : Truth ms' := by
  obtain ⟨_, _, _, _, _, hm, hle, _, hp⟩ := hp
  intro m hmem hok
  rw [hm] at hmem
  obtain ⟨h1, ⟨w, hw, hwid, hwn⟩, h3⟩ := h m hmem hok
  refine ⟨Nat.lt_of_lt_of_le h1 hle, ?_, ?_⟩
  · rcases hp with ⟨_, hws, _, _⟩ | ⟨_, _, hws, _⟩
    · exact ⟨w, by rw [hws]; exact List.mem_cons_of_mem _ hw, hwid, hwn⟩
    · rcases hws with e | e
      · exact ⟨w, e ▸ hw, hwid, hwn⟩
      · refine ⟨w, ?_, hwid, hwn⟩
        rw [e]
        refine List.mem_filter.mpr ⟨hw, ?_⟩
        simp only [bne_iff_ne, ne_eq]; omega
  · rcases hp with ⟨_, _, _, hcts⟩ | ⟨_, _, _, hcts⟩
    · rw [hcts]
      refine List.mem_cons_of_mem _ ?_
      simp only [setRunning_cts]
      refine List.mem_map.mpr ⟨⟨m.id, m.node, true⟩, h3, ?_⟩
      split <;> rfl
    · rcases hcts with e | e
      · exact e ▸ h3
      · rw [e]
        refine List.mem_filter.mpr ⟨h3, ?_⟩
        simp only [bne_iff_ne, ne_eq]; omega

/-- a successful deploy may be reported -/
theorem Truth.addOk {n : String} {r : R} {ms ms1 ms' : MS R} (h : Truth ms) (hp : DeployPost n r ms true ms1)
    (hm : ms'.msgs = ms1.msgs ++ [⟨n, ms.st.next, true⟩]) (hst : ms'.st = ms1.st) : Truth ms' := by
  have h1 := h.deploy hp
  obtain ⟨_, _, _, _, _, _, hle, _, hp'⟩ := hp
  rcases hp' with ⟨_, hws, hnx, hcts⟩ | ⟨hb, _⟩
  · intro m hmem hok
    rw [hm] at hmem
    rcases List.mem_append.mp hmem with hmem | hmem
    · rw [hst]; exact h1 m hmem hok
    · simp only [List.mem_singleton] at hmem
      subst hmem
      rw [hst]
      refine ⟨by rw [hnx]; simp only; omega, ⟨⟨ms.st.next, n, r⟩, by rw [hws]; exact List.mem_cons_self .., rfl, rfl⟩, ?_⟩
      rw [hcts]; exact List.mem_cons_self ..
  · cases hb

/-! ### stream shape and truthfulness through the then step -/

/-- on the current node: `base` messages before it, `done` instances handled -/
def SI (base : Nat) (done : List R) (ms : MS R) : Prop :=
  ms.msgs.length = base + done.length ∧ Truth ms

theorem deployInsts_stream (n : String) (base : Nat) (flt : Option Addr) :
    ∀ (rs done : List R) (ms : MS R), SI base done ms →
    wp (deployInsts n rs) (fun o ms' => o = .ok () ∧ SI base (done ++ rs) ms') flt ms := by
  intro rs
  induction rs with
  | nil => intro done ms h; rw [List.append_nil]; exact ⟨rfl, h⟩
  | cons r rest ih =>
    intro done ms h
    have hrec : ∀ ms', SI base (done ++ [r]) ms' →
        wp (deployInsts n rest) (fun o ms' => o = .ok () ∧ SI base (done ++ r :: rest) ms') flt ms' := by
      intro ms' h'
      have := ih (done ++ [r]) ms' h'
      rwa [List.append_assoc, List.singleton_append] at this
    unfold deployInsts
    rw [wp_bind, wp_getSt]
    simp only [wpK_ok]
    rw [wp_bind, wp_attempt, wp_bind]
    apply wp_mono (deployOne_spec n r true flt ms)
    intro o ms1 h1
    rcases h1 with ⟨rfl, hp⟩ | ⟨rfl, hp⟩
    · simp only [wpK_ok, wp_pure, attK_ok]
      rw [wp_bind]
      unfold instMsg
      simp only [if_true, wp_emit, wpK_ok]
      apply hrec
      refine ⟨?_, h.2.addOk hp rfl rfl⟩
      simp only [List.length_append, List.length_singleton, hp.2.2.2.2.2.1, h.1]
      omega
    · simp only [wpK_fail, attK_fail, wpK_ok]
      rw [wp_bind]
      unfold instMsg
      simp only [Bool.false_eq_true, if_false, wp_bind, wp_noteFailed, wp_emit, wpK_ok]
      apply hrec
      refine ⟨?_, (h.2.deploy hp).addFail ⟨n, 0, false⟩ rfl rfl rfl rfl (Nat.le_refl _)⟩
      simp only [List.length_append, List.length_singleton, hp.2.2.2.2.2.1, h.1]
      omega

theorem failAll_stream (n : String) (base : Nat) (flt : Option Addr) :
    ∀ (rs done : List R) (ms : MS R), SI base done ms →
    wp (forEach rs (fun r => do noteFailed n r; emit ⟨"", 0, false⟩))
      (fun o ms' => o = .ok () ∧ SI base (done ++ rs) ms') flt ms := by
  intro rs
  induction rs with
  | nil => intro done ms h; rw [List.append_nil]; exact ⟨rfl, h⟩
  | cons r rest ih =>
    intro done ms h
    show wp ((do noteFailed n r; emit ⟨"", 0, false⟩) >>= fun _ => forEach rest _) _ flt ms
    simp only [wp_bind, wp_noteFailed, wp_emit, wpK_ok]
    have := ih (done ++ [r]) { ms with failed := ms.failed ++ [(n, r)], msgs := ms.msgs ++ [⟨"", 0, false⟩] }
      ⟨by simp only [List.length_append, List.length_singleton, h.1]; omega,
       h.2.addFail ⟨"", 0, false⟩ rfl rfl rfl rfl (Nat.le_refl _)⟩
    rwa [List.append_assoc, List.singleton_append] at this

/-- plan prefix `pre` handled: one message per instance so far, all successes truthful -/
def S (pre : List (String × List R)) (ms : MS R) : Prop :=
  ms.msgs.length = planned pre ∧ Truth ms

theorem deployNode_stream (pre : List (String × List R)) (p : String × List R) (flt : Option Addr) (ms : MS R)
    (h : S pre ms) :
    wp (deployNode p.1 p.2) (fun o ms' => match o with | .ok _ => S (pre ++ [p]) ms' | .fail => False) flt ms := by
  have conv : ∀ ms', SI (planned pre) ([] ++ p.2) ms' → S (pre ++ [p]) ms' := by
    intro ms' h'
    refine ⟨?_, h'.2⟩
    rw [planned_append_single, h'.1]; simp
  unfold deployNode
  rw [wp_bind, wp_attempt, wp_readStep]
  split
  · simp only [attK_fail, wpK_ok, Bool.false_eq_true, if_false]
    have hs : SI (planned pre) [] (failMS ms "storeGetNode" p.1) :=
      ⟨by simpa using h.1, h.2.same rfl rfl rfl (Nat.le_refl _)⟩
    apply wp_mono (failAll_stream p.1 (planned pre) flt p.2 [] _ hs)
    intro o ms' h'
    obtain ⟨rfl, h'⟩ := h'
    exact conv ms' h'
  · simp only [attK_ok, wpK_ok, if_true]
    have hs : SI (planned pre) [] (okMS ms "storeGetNode" p.1 id) :=
      ⟨by simpa using h.1, h.2.same rfl rfl rfl (Nat.le_refl _)⟩
    apply wp_mono (deployInsts_stream p.1 (planned pre) flt p.2 [] _ hs)
    intro o ms' h'
    obtain ⟨rfl, h'⟩ := h'
    exact conv ms' h'

/-- effects that keep records, containers and the id counter (usage / WAL / marker updates) -/
def KeepsRC (eff : State R → State R) : Prop :=
  ∀ s, (eff s).wls = s.wls ∧ (eff s).cts = s.cts ∧ (eff s).next = s.next

/-- messages, records, containers are exactly `m0`, `w0`, `c0` -/
def Frozen (m0 : List Msg) (w0 : List (Wl R)) (c0 : List Ct) (ms : MS R) : Prop :=
  ms.msgs = m0 ∧ ms.st.wls = w0 ∧ ms.st.cts = c0

theorem pres_frozen_step (m0 : List Msg) (w0 : List (Wl R)) (c0 : List Ct) (k n : String) (eff : State R → State R)
    (he : KeepsRC eff) : Pres (Frozen m0 w0 c0) (step k n eff) := by
  apply pres_step'
  · intro ms h
    have := he ms.st
    exact ⟨h.1, by simp [this.1, h.2.1], by simp [this.2.1, h.2.2]⟩
  · intro ms h; exact h

theorem pres_stream_step (kk : Nat) (k n : String) (eff : State R → State R) (he : KeepsRC eff) :
    Pres (fun ms : MS R => ms.msgs.length = kk ∧ Truth ms) (step k n eff) := by
  apply pres_step'
  · intro ms h
    have := he ms.st
    exact ⟨h.1, h.2.same rfl (by simp [this.1]) (by simp [this.2.1]) (by simp [this.2.2])⟩
  · intro ms h
    exact ⟨h.1, h.2.same rfl rfl rfl (Nat.le_refl _)⟩

theorem keepsRC_id : KeepsRC (id : State R → State R) := fun _ => ⟨rfl, rfl, rfl⟩
theorem keepsRC_addUsage (n : String) (r : R) : KeepsRC (addUsage n r) := fun _ => ⟨rfl, rfl, rfl⟩
theorem keepsRC_walAdd (e n : String) (k : Nat) : KeepsRC (walAdd (R := R) e n k) := fun _ => ⟨rfl, rfl, rfl⟩
theorem keepsRC_walRm (e n : String) (k : Nat) : KeepsRC (walRm (R := R) e n k) := fun _ => ⟨rfl, rfl, rfl⟩
theorem keepsRC_addMarker (n : String) (k : Nat) : KeepsRC (addMarker (R := R) n k) := fun _ => ⟨rfl, rfl, rfl⟩
theorem keepsRC_rmMarker (n : String) : KeepsRC (rmMarker (R := R) n) := fun _ => ⟨rfl, rfl, rfl⟩

/-- programs built from steps with `KeepsRC` effects keep any predicate that such steps keep -/
theorem pres_giveBack {I : MS R → Prop}
    (hstep : ∀ k n (eff : State R → State R), KeepsRC eff → Pres I (step k n eff)) (n : String) (r : R) :
    Pres I (giveBack n r) := by
  unfold giveBack
  apply pres_bind
  · apply pres_attempt
    exact pres_bind (hstep _ _ id keepsRC_id) (fun _ => hstep _ _ _ (keepsRC_addUsage _ _))
  · intro _; exact pres_pure _ _

theorem pres_createRollback {I : MS R → Prop}
    (hstep : ∀ k n (eff : State R → State R), KeepsRC eff → Pres I (step k n eff)) (a : CreateArgs R) (b : Bool) :
    Pres I (createRollback a b) := by
  unfold createRollback
  apply pres_bind (fun _ _ h => h)
  intro msx
  apply pres_ite
  · exact pres_forEach _ (fun p _ => pres_giveBack hstep _ _)
  · exact pres_forEach _ (fun p _ => pres_giveBack hstep _ _)

theorem pres_createCond {I : MS R → Prop}
    (hstep : ∀ k n (eff : State R → State R), KeepsRC eff → Pres I (step k n eff))
    (hnote : ∀ n r, Pres I (noteAlloc n r)) (a : CreateArgs R) : Pres I (createCond a) := by
  unfold createCond
  apply pres_bind
  · unfold createFilter
    exact pres_ite _ (hstep _ _ id keepsRC_id) (pres_forEach _ (fun n _ => hstep _ _ id keepsRC_id))
  intro _
  apply pres_bind
  · unfold guardNodes
    exact pres_ite _ (pres_refuse _) (pres_pure _ _)
  intro _
  apply pres_bind (hstep _ _ (walAdd _ _ _) (keepsRC_walAdd _ _ _)); intro _
  apply pres_bind (hstep _ _ id keepsRC_id); intro _
  apply pres_bind (hstep _ _ id keepsRC_id); intro _
  unfold createPlan
  apply pres_ite
  · apply pres_forEach
    intro p _
    unfold allocNode
    apply pres_bind (hstep _ _ (addUsage _ _) (keepsRC_addUsage _ _)); intro _
    apply pres_bind (hnote _ _); intro _
    apply pres_bind (hstep _ _ (walAdd _ _ _) (keepsRC_walAdd _ _ _)); intro _
    exact hstep _ _ (addMarker _ _) (keepsRC_addMarker _ _)
  · exact pres_refuse _

/-- **stream shape + truthfulness of `createTxn`**: started with an empty stream, the transaction
ends with EITHER the single failure message and records / containers untouched, OR exactly one
message per planned instance; and every success message is truthful. -/
theorem createTxn_stream (a : CreateArgs R) (flt : Option Addr) (ms : MS R) (hm : ms.msgs = []) :
    wp (createTxn a) (fun _ ms' =>
      ((ms'.msgs = [⟨"", 0, false⟩] ∧ ms'.st.wls = ms.st.wls ∧ ms'.st.cts = ms.st.cts) ∨
        ms'.msgs.length = planned a.plan) ∧ Truth ms') flt ms := by
  unfold createTxn
  rw [wp_txn, wp_withFailMsg]
  have hfrozen := pres_createCond (I := Frozen [] ms.st.wls ms.st.cts)
    (pres_frozen_step _ _ _) (fun _ _ _ _ h => h) a flt ms ⟨hm, rfl, rfl⟩
  apply wp_mono hfrozen
  intro o ms1 h1
  cases o with
  | fail =>
    simp only [txnK1_fail_some]
    have h1' : Frozen [⟨"", 0, false⟩] ms.st.wls ms.st.cts { ms1 with msgs := ms1.msgs ++ [⟨"", 0, false⟩] } :=
      ⟨by simp [h1.1], h1.2.1, h1.2.2⟩
    have := pres_createRollback (I := Frozen [⟨"", 0, false⟩] ms.st.wls ms.st.cts)
      (pres_frozen_step _ _ _) a true flt _ h1'
    refine ⟨Or.inl this, ?_⟩
    intro m hmem hok
    rw [show (exec (createRollback a true) flt { ms1 with msgs := ms1.msgs ++ [⟨"", 0, false⟩] }).msgs = [⟨"", 0, false⟩] from this.1] at hmem
    simp only [List.mem_singleton] at hmem
    rw [hmem] at hok
    cases hok
  | ok u =>
    simp only [txnK1_ok]
    have hS : S ([] : List (String × List R)) ms1 := by
      refine ⟨by rw [h1.1]; rfl, ?_⟩
      intro m hmem
      rw [h1.1] at hmem
      cases hmem
    unfold createThen
    rw [wp_bind]
    have := wp_forEach_prefix S (fun _ => False) (fun p => deployNode p.1 p.2) flt a.plan
      (fun pre x suf _ ms' hJ => deployNode_stream pre x flt ms' hJ) a.plan [] rfl ms1 hS
    apply wp_mono this
    intro o2 ms2 h2
    cases o2 with
    | fail => exact h2.elim
    | ok u2 =>
      simp only [wpK_ok]
      rw [wp_bind, wp_getMS]
      simp only [wpK_ok]
      rw [wp_ite]
      split
      · simp only [wp_pure, txnK2_ok]
        exact ⟨Or.inr h2.1, h2.2⟩
      · simp only [wp_refuse, txnK2_fail_some]
        have := pres_createRollback (I := fun ms : MS R => ms.msgs.length = planned a.plan ∧ Truth ms)
          (pres_stream_step _) a false flt ms2 h2
        exact ⟨Or.inr this.1, this.2⟩

/-- what the create result stream looks like (relative to the state `s0` the call started in) -/
def StreamPost (a : CreateArgs R) (s0 : State R) (ms' : MS R) : Prop :=
  ((ms'.msgs = [⟨"", 0, false⟩] ∧ ms'.st.wls = s0.wls ∧ ms'.st.cts = s0.cts) ∨
    ms'.msgs.length = planned a.plan) ∧ Truth ms'

theorem pres_streamPost_step (a : CreateArgs R) (s0 : State R) (k n : String) (eff : State R → State R)
    (he : KeepsRC eff) : Pres (StreamPost a s0) (step k n eff) := by
  apply pres_step'
  · intro ms h
    have := he ms.st
    refine ⟨?_, h.2.same rfl (by simp [this.1]) (by simp [this.2.1]) (by simp [this.2.2])⟩
    rcases h.1 with ⟨h1, h2, h3⟩ | h1
    · exact Or.inl ⟨h1, by simp [this.1, h2], by simp [this.2.1, h3]⟩
    · exact Or.inr h1
  · intro ms h
    exact ⟨h.1, h.2.same rfl rfl rfl (Nat.le_refl _)⟩

/-- **C12 for the whole `create` body** (transaction + deferred WAL commits and marker deletions) -/
theorem create_stream (a : CreateArgs R) (flt : Option Addr) (ms : MS R) (hm : ms.msgs = []) :
    wp (create a) (fun _ ms' => StreamPost a ms.st ms') flt ms := by
  have hinert : ∀ (k n : String) (eff : State R → State R), KeepsRC eff →
      Pres (StreamPost a ms.st) (do let _ ← attempt (step k n eff); pure ()) := by
    intro k n eff he
    exact pres_bind (pres_attempt (pres_streamPost_step a ms.st _ _ _ he)) (fun _ => pres_pure _ _)
  unfold create
  rw [wp_bind, wp_attempt]
  apply wp_mono (createTxn_stream a flt ms hm)
  intro o ms1 h1
  have tail : Pres (StreamPost a ms.st) (do deleteMarkers a; commitProcessing a; commitAllocated) := by
    apply pres_bind
    · unfold deleteMarkers
      apply pres_bind (fun _ _ h => h)
      intro msx
      exact pres_ite _ (pres_forEach _ (fun p _ => hinert _ _ _ (keepsRC_rmMarker _))) (pres_pure _ _)
    · intro _
      apply pres_bind
      · unfold commitProcessing
        apply pres_bind (fun _ _ h => h)
        intro msx
        exact pres_forEach _ (fun p _ => hinert _ _ _ (keepsRC_walRm _ _ _))
      · intro _
        unfold commitAllocated
        apply pres_bind (fun _ _ h => h)
        intro msx
        exact pres_ite _ (hinert _ _ _ (keepsRC_walRm _ _ _)) (pres_pure _ _)
  cases o <;> exact tail flt ms1 h1

end Eru.Cluster
