import Eru.Cluster.ProofsEffect
/-
C12 at the model level: shape of the create result stream and truthfulness of its successes.
-/
set_option linter.unusedSectionVars false
set_option linter.unusedSimpArgs false
namespace Eru.Cluster
variable {R : Type} [ResAlg R]
open ResAlg

/-- number of planned instances -/
def planned (pl : List (String × List R)) : Nat :=
  match pl with
  | [] => 0
  | p :: rest => p.2.length + planned rest

theorem planned_append_single (pl : List (String × List R)) (p : String × List R) :
    planned (pl ++ [p]) = planned pl + p.2.length := by
  induction pl with
  | nil => simp [planned]
  | cons q rest ih => rw [List.cons_append]; simp only [planned]; rw [ih]; omega

/-- every success message sent so far names a recorded workload on the reported node whose
container exists and runs (ids of reported workloads are below the fresh-id counter) -/
def Truth1 (ms : MS R) : Prop :=
  ∀ m ∈ ms.msgs, m.ok = true →
    m.id < ms.st.next ∧ (∃ w ∈ ms.st.wls, w.id = m.id ∧ w.node = m.node ∧ m.res = some w.res) ∧ (⟨m.id, m.node, true⟩ : Ct) ∈ ms.st.cts

/-- `Truth1` is kept when messages, records, containers and the counter are kept -/
theorem Truth1.same {ms ms' : MS R} (h : Truth1 ms) (hm : ms'.msgs = ms.msgs) (hw : ms'.st.wls = ms.st.wls)
    (hc : ms'.st.cts = ms.st.cts) (hn : ms.st.next ≤ ms'.st.next) : Truth1 ms' := by
  intro m hmem hok
  rw [hm] at hmem
  obtain ⟨h1, h2, h3⟩ := h m hmem hok
  exact ⟨Nat.lt_of_lt_of_le h1 hn, hw ▸ h2, hc ▸ h3⟩

/-- a failure message never hurts -/
theorem Truth1.addFail {ms ms' : MS R} (h : Truth1 ms) (f : Msg R) (hf : f.ok = false)
    (hm : ms'.msgs = ms.msgs ++ [f]) (hw : ms'.st.wls = ms.st.wls)
    (hc : ms'.st.cts = ms.st.cts) (hn : ms.st.next ≤ ms'.st.next) : Truth1 ms' := by
  intro m hmem hok
  rw [hm] at hmem
  rcases List.mem_append.mp hmem with hmem | hmem
  · obtain ⟨h1, h2, h3⟩ := h m hmem hok
    exact ⟨Nat.lt_of_lt_of_le h1 hn, hw ▸ h2, hc ▸ h3⟩
  · simp only [List.mem_singleton] at hmem
    rw [hmem, hf] at hok
    cases hok

/-- `Truth1` survives a deploy attempt of a FRESH id (`DeployPost`), whatever its outcome -/
theorem Truth1.deploy {n : String} {r : R} {ms ms' : MS R} {b : Bool} (h : Truth1 ms)
    (hp : DeployPost n r ms b ms') : Truth1 ms' := by
  obtain ⟨_, _, _, _, _, hm, hle, _, hp⟩ := hp
  intro m hmem hok
  rw [hm] at hmem
  obtain ⟨h1, ⟨w, hw, hwid, hwn, hwr⟩, h3⟩ := h m hmem hok
  refine ⟨Nat.lt_of_lt_of_le h1 hle, ?_, ?_⟩
  · rcases hp with ⟨_, hws, _, _⟩ | ⟨_, _, hws, _⟩
    · exact ⟨w, by rw [hws]; exact List.mem_cons_of_mem _ hw, hwid, hwn, hwr⟩
    · rcases hws with e | e
      · exact ⟨w, e ▸ hw, hwid, hwn, hwr⟩
      · refine ⟨w, ?_, hwid, hwn, hwr⟩
        rw [e]
        refine List.mem_filter.mpr ⟨hw, ?_⟩
        simp only [bne_iff_ne, ne_eq]; omega
  · rcases hp with ⟨_, _, _, hcts⟩ | ⟨_, _, _, hcts⟩
    · rw [hcts]
      refine List.mem_cons_of_mem _ ?_
      simp only [setRunning_cts]
      refine List.mem_map.mpr ⟨⟨m.id, m.node, true⟩, h3, ?_⟩
      split <;> rfl
    · rcases hcts with e | e
      · exact e ▸ h3
      · rw [e]
        refine List.mem_filter.mpr ⟨h3, ?_⟩
        simp only [bne_iff_ne, ne_eq]; omega

/-- a successful deploy may be reported -/
theorem Truth1.addOk {n : String} {r : R} {ms ms1 ms' : MS R} (h : Truth1 ms) (hp : DeployPost n r ms true ms1)
    (hm : ms'.msgs = ms1.msgs ++ [⟨n, ms.st.next, true, some r⟩]) (hst : ms'.st = ms1.st) : Truth1 ms' := by
  have h1 := h.deploy hp
  obtain ⟨_, _, _, _, _, _, hle, _, hp'⟩ := hp
  rcases hp' with ⟨_, hws, hnx, hcts⟩ | ⟨hb, _⟩
  · intro m hmem hok
    rw [hm] at hmem
    rcases List.mem_append.mp hmem with hmem | hmem
    · rw [hst]; exact h1 m hmem hok
    · simp only [List.mem_singleton] at hmem
      subst hmem
      rw [hst]
      refine ⟨by rw [hnx]; simp only; omega, ⟨⟨ms.st.next, n, r⟩, by rw [hws]; exact List.mem_cons_self .., rfl, rfl, rfl⟩, ?_⟩
      rw [hcts]; exact List.mem_cons_self ..
  · cases hb

/-- ids of the success messages -/
def okIds (msgs : List (Msg R)) : List Nat := (msgs.filter (·.ok)).map (·.id)

theorem okIds_append_fail (msgs : List (Msg R)) (f : Msg R) (hf : f.ok = false) : okIds (msgs ++ [f]) = okIds msgs := by
  simp [okIds, List.filter_append, hf]

theorem okIds_append_ok (msgs : List (Msg R)) (f : Msg R) (hf : f.ok = true) : okIds (msgs ++ [f]) = okIds msgs ++ [f.id] := by
  simp [okIds, List.filter_append, hf]

/-- all successes so far are truthful (`Truth1`) and name pairwise different workloads -/
def Truth (ms : MS R) : Prop := Truth1 ms ∧ (okIds ms.msgs).Nodup

theorem Truth.same {ms ms' : MS R} (h : Truth ms) (hm : ms'.msgs = ms.msgs) (hw : ms'.st.wls = ms.st.wls)
    (hc : ms'.st.cts = ms.st.cts) (hn : ms.st.next ≤ ms'.st.next) : Truth ms' :=
  ⟨h.1.same hm hw hc hn, hm ▸ h.2⟩

theorem Truth.addFail {ms ms' : MS R} (h : Truth ms) (f : Msg R) (hf : f.ok = false)
    (hm : ms'.msgs = ms.msgs ++ [f]) (hw : ms'.st.wls = ms.st.wls)
    (hc : ms'.st.cts = ms.st.cts) (hn : ms.st.next ≤ ms'.st.next) : Truth ms' :=
  ⟨h.1.addFail f hf hm hw hc hn, by rw [hm, okIds_append_fail _ _ hf]; exact h.2⟩

theorem Truth.deploy {n : String} {r : R} {ms ms' : MS R} {b : Bool} (h : Truth ms)
    (hp : DeployPost n r ms b ms') : Truth ms' :=
  ⟨h.1.deploy hp, by rw [hp.2.2.2.2.2.1]; exact h.2⟩

theorem Truth.addOk {n : String} {r : R} {ms ms1 ms' : MS R} (h : Truth ms) (hp : DeployPost n r ms true ms1)
    (hm : ms'.msgs = ms1.msgs ++ [⟨n, ms.st.next, true, some r⟩]) (hst : ms'.st = ms1.st) : Truth ms' := by
  refine ⟨h.1.addOk hp hm hst, ?_⟩
  rw [hm, okIds_append_ok _ _ rfl, hp.2.2.2.2.2.1]
  apply List.nodup_append.mpr
  refine ⟨h.2, by simp, ?_⟩
  intro a ha b hb
  simp only [List.mem_singleton] at hb
  subst hb
  simp only [okIds, List.mem_map, List.mem_filter] at ha
  obtain ⟨m, ⟨hmem, hok⟩, rfl⟩ := ha
  have := (h.1 m hmem hok).1
  omega

theorem Truth.renew {flt : Option Addr} {ms : MS R} (h : Truth ms) : Truth (renewMS flt ms) :=
  h.same (by simp) (by simp) (by simp) (Nat.le_of_eq (by simp))

/-! ### stream shape and truthfulness through the then step -/

/-- on the current node: `base` messages before it, `done` instances handled -/
def SI (base : Nat) (done : List R) (ms : MS R) : Prop :=
  ms.msgs.length = base + done.length ∧ Truth ms

theorem deployInsts_stream (n : String) (base : Nat) (flt : Option Addr) :
    ∀ (rs done : List R) (ms : MS R), SI base done ms →
    wp (deployInsts n rs) (fun o ms' => o = .ok () ∧ SI base (done ++ rs) ms') flt ms := by
  intro rs
  induction rs with
  | nil => intro done ms h; rw [List.append_nil]; exact ⟨rfl, h⟩
  | cons r rest ih =>
    intro done ms h
    have hrec : ∀ ms', SI base (done ++ [r]) ms' →
        wp (deployInsts n rest) (fun o ms' => o = .ok () ∧ SI base (done ++ r :: rest) ms') flt ms' := by
      intro ms' h'
      have := ih (done ++ [r]) ms' h'
      rwa [List.append_assoc, List.singleton_append] at this
    unfold deployInsts
    rw [wp_bind, wp_renew]
    simp only [wpK_ok]
    have h : SI base done (renewMS flt ms) := ⟨by simpa using h.1, h.2.renew⟩
    generalize renewMS flt ms = ms at h ⊢
    rw [wp_bind, wp_getSt]
    simp only [wpK_ok]
    rw [wp_bind, wp_attempt, wp_bind]
    apply wp_mono (deployOne_spec n r true flt ms)
    intro o ms1 h1
    rcases h1 with ⟨rfl, hp⟩ | ⟨rfl, hp⟩
    · simp only [wpK_ok, wp_pure, attK_ok]
      rw [wp_bind]
      unfold instMsg
      simp only [if_true, wp_emit, wpK_ok]
      apply hrec
      refine ⟨?_, h.2.addOk hp rfl rfl⟩
      simp only [List.length_append, List.length_singleton, hp.2.2.2.2.2.1, h.1]
      omega
    · simp only [wpK_fail, attK_fail, wpK_ok]
      rw [wp_bind]
      unfold instMsg
      simp only [Bool.false_eq_true, if_false, wp_bind, wp_noteFailed, wp_emit, wpK_ok]
      apply hrec
      refine ⟨?_, (h.2.deploy hp).addFail ⟨n, 0, false, none⟩ rfl rfl rfl rfl (Nat.le_refl _)⟩
      simp only [List.length_append, List.length_singleton, hp.2.2.2.2.2.1, h.1]
      omega

theorem failAll_stream (n : String) (base : Nat) (flt : Option Addr) :
    ∀ (rs done : List R) (ms : MS R), SI base done ms →
    wp (forEach rs (fun r => do noteFailed n r; emit ⟨"", 0, false, none⟩))
      (fun o ms' => o = .ok () ∧ SI base (done ++ rs) ms') flt ms := by
  intro rs
  induction rs with
  | nil => intro done ms h; rw [List.append_nil]; exact ⟨rfl, h⟩
  | cons r rest ih =>
    intro done ms h
    show wp ((do noteFailed n r; emit ⟨"", 0, false, none⟩) >>= fun _ => forEach rest _) _ flt ms
    simp only [wp_bind, wp_noteFailed, wp_emit, wpK_ok]
    have := ih (done ++ [r]) { ms with failed := ms.failed ++ [(n, r)], msgs := ms.msgs ++ [⟨"", 0, false, none⟩] }
      ⟨by simp only [List.length_append, List.length_singleton, h.1]; omega,
       h.2.addFail ⟨"", 0, false, none⟩ rfl rfl rfl rfl (Nat.le_refl _)⟩
    rwa [List.append_assoc, List.singleton_append] at this

/-- `noteNodeFailed` only touches the rollback bookkeeping -/
theorem wp_noteNodeFailed_frame (n : String) (rs : List R) (Q : Out Unit → MS R → Prop) (flt : Option Addr) (ms : MS R)
    (h : ∀ fl, Q (.ok ()) { ms with failed := fl }) : wp (noteNodeFailed n rs) Q flt ms := by
  unfold noteNodeFailed
  rw [wp_ite]
  split
  · exact h _
  · exact h ms.failed

/-- plan prefix `pre` handled: one message per instance so far, all successes truthful -/
def S (pre : List (String × List R)) (ms : MS R) : Prop :=
  ms.msgs.length = planned pre ∧ Truth ms

theorem deployNode_stream (pre : List (String × List R)) (p : String × List R) (flt : Option Addr) (ms : MS R)
    (h : S pre ms) :
    wp (deployNode p.1 p.2) (fun o ms' => match o with | .ok _ => S (pre ++ [p]) ms' | .fail => False) flt ms := by
  have conv : ∀ ms', SI (planned pre) ([] ++ p.2) ms' → S (pre ++ [p]) ms' := by
    intro ms' h'
    refine ⟨?_, h'.2⟩
    rw [planned_append_single, h'.1]; simp
  unfold deployNode
  rw [wp_bind, wp_renew]
  simp only [wpK_ok]
  have h : S pre (renewMS flt ms) := ⟨by simpa using h.1, h.2.renew⟩
  generalize renewMS flt ms = ms at h ⊢
  rw [wp_bind, wp_attempt, wp_readStep]
  split
  · simp only [attK_fail, wpK_ok, Bool.false_eq_true, if_false]
    have hs : SI (planned pre) [] (failMS ms "storeGetNode" p.1) :=
      ⟨by simpa using h.1, h.2.same rfl rfl rfl (Nat.le_refl _)⟩
    rw [wp_bind]
    apply wp_noteNodeFailed_frame
    intro fl
    simp only [wpK_ok]
    have hs' : SI (planned pre) [] { failMS ms "storeGetNode" p.1 with failed := fl } := hs
    apply wp_mono (failAll_stream p.1 (planned pre) flt p.2 [] _ hs')
    intro o ms' h'
    obtain ⟨rfl, h'⟩ := h'
    exact conv ms' h'
  · simp only [attK_ok, wpK_ok, if_true]
    have hs : SI (planned pre) [] (okMS ms "storeGetNode" p.1 id) :=
      ⟨by simpa using h.1, h.2.same rfl rfl rfl (Nat.le_refl _)⟩
    apply wp_mono (deployInsts_stream p.1 (planned pre) flt p.2 [] _ hs)
    intro o ms' h'
    obtain ⟨rfl, h'⟩ := h'
    exact conv ms' h'

/-- effects that keep records, containers and the id counter (usage / WAL / marker updates) -/
def KeepsRC (eff : State R → State R) : Prop :=
  ∀ s, (eff s).wls = s.wls ∧ (eff s).cts = s.cts ∧ (eff s).next = s.next ∧ (eff s).cap = s.cap ∧ (eff s).nodes = s.nodes

/-- messages, records, containers are exactly `m0`, `w0`, `c0` -/
def Frozen (m0 : List (Msg R)) (w0 : List (Wl R)) (c0 : List Ct) (ms : MS R) : Prop :=
  ms.msgs = m0 ∧ ms.st.wls = w0 ∧ ms.st.cts = c0

theorem pres_frozen_step (m0 : List (Msg R)) (w0 : List (Wl R)) (c0 : List Ct) (k n : String) (eff : State R → State R)
    (he : KeepsRC eff) : Pres (Frozen m0 w0 c0) (step k n eff) := by
  apply pres_step'
  · intro ms h
    have := he ms.st
    exact ⟨h.1, by simp [this.1, h.2.1], by simp [this.2.1, h.2.2]⟩
  · intro ms h; exact h

theorem pres_stream_step (kk : Nat) (k n : String) (eff : State R → State R) (he : KeepsRC eff) :
    Pres (fun ms : MS R => ms.msgs.length = kk ∧ Truth ms) (step k n eff) := by
  apply pres_step'
  · intro ms h
    have := he ms.st
    exact ⟨h.1, h.2.same rfl (by simp [this.1]) (by simp [this.2.1]) (by simp [this.2.2.1])⟩
  · intro ms h
    exact ⟨h.1, h.2.same rfl rfl rfl (Nat.le_refl _)⟩

theorem keepsRC_id : KeepsRC (id : State R → State R) := fun _ => ⟨rfl, rfl, rfl, rfl, rfl⟩
theorem keepsRC_addUsage (n : String) (r : R) : KeepsRC (addUsage n r) := fun _ => ⟨rfl, rfl, rfl, rfl, rfl⟩
theorem keepsRC_walAdd (e n : String) (k : Nat) : KeepsRC (walAdd (R := R) e n k) := fun _ => ⟨rfl, rfl, rfl, rfl, rfl⟩
theorem keepsRC_walRm (e n : String) (k : Nat) : KeepsRC (walRm (R := R) e n k) := fun _ => ⟨rfl, rfl, rfl, rfl, rfl⟩
theorem keepsRC_addMarker (n : String) (k : Nat) : KeepsRC (addMarker (R := R) n k) := fun _ => ⟨rfl, rfl, rfl, rfl, rfl⟩
theorem keepsRC_rmMarker (n : String) : KeepsRC (rmMarker (R := R) n) := fun _ => ⟨rfl, rfl, rfl, rfl, rfl⟩

/-- programs built from steps with `KeepsRC` effects keep any predicate that such steps keep -/
theorem pres_giveBack {I : MS R → Prop}
    (hstep : ∀ k n (eff : State R → State R), KeepsRC eff → Pres I (step k n eff)) (n : String) (r : R) :
    Pres I (giveBack n r) := by
  unfold giveBack
  apply pres_bind
  · apply pres_attempt
    exact pres_bind (hstep _ _ id keepsRC_id) (fun _ => hstep _ _ _ (keepsRC_addUsage _ _))
  · intro _; exact pres_pure _ _

theorem pres_createRollback {I : MS R → Prop}
    (hstep : ∀ k n (eff : State R → State R), KeepsRC eff → Pres I (step k n eff)) (a : CreateArgs R) (b : Bool) :
    Pres I (createRollback a b) := by
  unfold createRollback
  apply pres_bind (fun _ _ h => h)
  intro msx
  apply pres_ite
  · exact pres_forEach _ (fun p _ => pres_giveBack hstep _ _)
  · exact pres_forEach _ (fun p _ => pres_giveBack hstep _ _)

theorem pres_createCond {I : MS R → Prop}
    (hstep : ∀ k n (eff : State R → State R), KeepsRC eff → Pres I (step k n eff))
    (hnote : ∀ n r, Pres I (noteAlloc n r)) (a : CreateArgs R) : Pres I (createCond a) := by
  unfold createCond
  apply pres_bind
  · unfold createFilter
    exact pres_ite _ (hstep _ _ id keepsRC_id) (pres_forEach _ (fun n _ => hstep _ _ id keepsRC_id))
  intro _
  apply pres_bind
  · unfold guardNodes
    exact pres_ite _ (pres_refuse _) (pres_pure _ _)
  intro _
  apply pres_bind (hstep _ _ (walAdd _ _ _) (keepsRC_walAdd _ _ _)); intro _
  apply pres_bind (hstep _ _ id keepsRC_id); intro _
  apply pres_bind (hstep _ _ id keepsRC_id); intro _
  unfold createPlan
  apply pres_ite
  · apply pres_forEach
    intro p _
    unfold allocNode
    apply pres_bind (hstep _ _ (addUsage _ _) (keepsRC_addUsage _ _)); intro _
    apply pres_bind (hnote _ _); intro _
    apply pres_bind (hstep _ _ (walAdd _ _ _) (keepsRC_walAdd _ _ _)); intro _
    exact hstep _ _ (addMarker _ _) (keepsRC_addMarker _ _)
  · exact pres_refuse _

/-- **stream shape + truthfulness of `createTxn`**: started with an empty stream, the transaction
ends with EITHER the single failure message and records / containers untouched, OR exactly one
message per planned instance; and every success message is truthful. -/
theorem createTxn_stream (a : CreateArgs R) (flt : Option Addr) (ms : MS R) (hm : ms.msgs = []) :
    wp (createTxn a) (fun _ ms' =>
      ((ms'.msgs = [⟨"", 0, false, none⟩] ∧ ms'.st.wls = ms.st.wls ∧ ms'.st.cts = ms.st.cts) ∨
        ms'.msgs.length = planned a.plan) ∧ Truth ms') flt ms := by
  unfold createTxn
  rw [wp_txn, wp_withFailMsg]
  have hfrozen := pres_createCond (I := Frozen [] ms.st.wls ms.st.cts)
    (pres_frozen_step _ _ _) (fun _ _ _ _ h => h) a flt ms ⟨hm, rfl, rfl⟩
  apply wp_mono hfrozen
  intro o ms1 h1
  cases o with
  | fail =>
    simp only [txnK1_fail_some]
    have h1' : Frozen [⟨"", 0, false, none⟩] ms.st.wls ms.st.cts { ms1 with msgs := ms1.msgs ++ [⟨"", 0, false, none⟩] } :=
      ⟨by simp [h1.1], h1.2.1, h1.2.2⟩
    have := pres_withDetached (fun _ _ h => h) (pres_createRollback (I := Frozen [⟨"", 0, false, none⟩] ms.st.wls ms.st.cts)
      (pres_frozen_step _ _ _) a true) flt _ h1'
    have hmsgs : (exec (withDetached (createRollback a true)) flt { ms1 with msgs := ms1.msgs ++ [⟨"", 0, false, none⟩] }).msgs = [⟨"", 0, false, none⟩] := this.1
    refine ⟨Or.inl this, ?_, by rw [hmsgs]; simp [okIds]⟩
    intro m hmem hok
    rw [hmsgs] at hmem
    simp only [List.mem_singleton] at hmem
    rw [hmem] at hok
    cases hok
  | ok u =>
    simp only [txnK1_ok_some]
    have hS : S ([] : List (String × List R)) ms1 := by
      refine ⟨by rw [h1.1]; rfl, ?_, by rw [h1.1]; exact List.nodup_nil⟩
      intro m hmem
      rw [h1.1] at hmem
      cases hmem
    unfold createThen
    rw [wp_bind]
    have := wp_forEach_prefix S (fun _ => False) (fun p => deployNode p.1 p.2) flt a.plan
      (fun pre x suf _ ms' hJ => deployNode_stream pre x flt ms' hJ) a.plan [] rfl ms1 hS
    apply wp_mono this
    intro o2 ms2 h2
    cases o2 with
    | fail => exact h2.elim
    | ok u2 =>
      simp only [wpK_ok]
      rw [wp_bind, wp_getMS]
      simp only [wpK_ok]
      rw [wp_ite]
      split
      · simp only [wp_pure, txnK2_ok]
        exact ⟨Or.inr h2.1, h2.2⟩
      · simp only [wp_refuse, txnK2_fail_some]
        have := pres_withDetached (fun _ _ h => h) (pres_createRollback (I := fun ms : MS R => ms.msgs.length = planned a.plan ∧ Truth ms)
          (pres_stream_step _) a false) flt ms2 h2
        exact ⟨Or.inr this.1, this.2⟩

/-! ### cleanliness of the whole call -/

/-- relative to the state `s0` the call started in: every record is an old one or a reported success,
no old record is lost, every container is an old one or belongs to a reported success, capacity and
nodes are untouched -/
def Clean (s0 : State R) (ms : MS R) : Prop :=
  (∀ w ∈ ms.st.wls, w ∈ s0.wls ∨ w.id ∈ okIds ms.msgs) ∧ (∀ w ∈ s0.wls, w ∈ ms.st.wls) ∧
  (∀ c ∈ ms.st.cts, (∃ c0 ∈ s0.cts, c0.id = c.id) ∨ c.id ∈ okIds ms.msgs) ∧
  s0.next ≤ ms.st.next ∧ ms.st.cap = s0.cap ∧ ms.st.nodes = s0.nodes

theorem Clean.same {s0 : State R} {ms ms' : MS R} (h : Clean s0 ms) (hm : okIds ms'.msgs = okIds ms.msgs)
    (hw : ms'.st.wls = ms.st.wls) (hc : ms'.st.cts = ms.st.cts) (hn : ms.st.next ≤ ms'.st.next)
    (hcap : ms'.st.cap = ms.st.cap) (hnodes : ms'.st.nodes = ms.st.nodes) : Clean s0 ms' := by
  obtain ⟨h1, h2, h3, h4, h5, h6⟩ := h
  exact ⟨fun w hw' => by rw [hm]; exact h1 w (hw ▸ hw'), fun w hw' => hw ▸ h2 w hw',
    fun c hc' => by rw [hm]; exact h3 c (hc ▸ hc'), Nat.le_trans h4 hn, hcap.trans h5, hnodes.trans h6⟩

theorem pres_clean_step (s0 : State R) (k n : String) (eff : State R → State R) (he : KeepsRC eff) :
    Pres (Clean s0) (step k n eff) := by
  apply pres_step'
  · intro ms h
    have := he ms.st
    exact h.same rfl (by simp [this.1]) (by simp [this.2.1]) (by simp [this.2.2.1]) (by simp [this.2.2.2.1]) (by simp [this.2.2.2.2])
  · intro ms h
    exact h.same rfl rfl rfl (Nat.le_refl _) rfl rfl

/-- a deploy attempt followed by its message keeps `Clean` -/
theorem Clean.deployMsg {s0 : State R} {n : String} {r : R} {ms ms1 ms' : MS R} {b : Bool}
    (h : Clean s0 ms) (hids : ∀ w ∈ s0.wls, w.id < s0.next) (hp : DeployPost n r ms b ms1)
    (hst : ms'.st = ms1.st)
    (hm : okIds ms'.msgs = if b then okIds ms.msgs ++ [ms.st.next] else okIds ms.msgs) : Clean s0 ms' := by
  obtain ⟨h1, h2, h3, h4, h5, h6⟩ := h
  obtain ⟨hcap, hnodes, _, _, _, _, hle, _, hp⟩ := hp
  unfold Clean
  rw [hst]
  rcases hp with ⟨rfl, hws, hnx, hcts⟩ | ⟨rfl, _, hws, hcts⟩
  · simp only [if_true] at hm
    refine ⟨?_, ?_, ?_, Nat.le_trans h4 hle, hcap.trans h5, hnodes.trans h6⟩
    · intro w hw
      rw [hws] at hw
      rw [hm]
      rcases List.mem_cons.mp hw with rfl | hw
      · exact Or.inr (by simp)
      · rcases h1 w hw with h' | h'
        · exact Or.inl h'
        · exact Or.inr (List.mem_append_left _ h')
    · intro w hw
      rw [hws]; exact List.mem_cons_of_mem _ (h2 w hw)
    · intro c hc
      rw [hcts] at hc
      rw [hm]
      rcases List.mem_cons.mp hc with rfl | hc
      · exact Or.inr (by simp)
      · simp only [setRunning_cts, List.mem_map] at hc
        obtain ⟨c', hc', rfl⟩ := hc
        have hid : (if c'.id = ms.st.next then { c' with running := true } else c').id = c'.id := by split <;> rfl
        rw [hid]
        rcases h3 c' hc' with h' | h'
        · exact Or.inl h'
        · exact Or.inr (List.mem_append_left _ h')
  · simp only [Bool.false_eq_true, if_false] at hm
    refine ⟨?_, ?_, ?_, Nat.le_trans h4 hle, hcap.trans h5, hnodes.trans h6⟩
    · intro w hw
      rw [hm]
      rcases hws with e | e
      · exact h1 w (e ▸ hw)
      · rw [e] at hw; exact h1 w (List.mem_filter.mp hw).1
    · intro w hw
      rcases hws with e | e
      · rw [e]; exact h2 w hw
      · rw [e]
        refine List.mem_filter.mpr ⟨h2 w hw, ?_⟩
        have := hids w hw
        simp only [bne_iff_ne, ne_eq]; omega
    · intro c hc
      rw [hm]
      rcases hcts with e | e
      · exact h3 c (e ▸ hc)
      · rw [e] at hc; exact h3 c (List.mem_filter.mp hc).1

theorem Clean.renew {s0 : State R} {flt : Option Addr} {ms : MS R} (h : Clean s0 ms) : Clean s0 (renewMS flt ms) :=
  h.same (by simp) (by simp) (by simp) (Nat.le_of_eq (by simp)) (by simp) (by simp)

theorem deployInsts_clean (s0 : State R) (hids : ∀ w ∈ s0.wls, w.id < s0.next) (n : String) (flt : Option Addr) :
    ∀ (rs : List R) (ms : MS R), Clean s0 ms → wp (deployInsts n rs) (fun _ ms' => Clean s0 ms') flt ms := by
  intro rs
  induction rs with
  | nil => intro ms h; exact h
  | cons r rest ih =>
    intro ms h
    unfold deployInsts
    rw [wp_bind, wp_renew]
    simp only [wpK_ok]
    have h : Clean s0 (renewMS flt ms) := h.renew
    generalize renewMS flt ms = ms at h ⊢
    rw [wp_bind, wp_getSt]
    simp only [wpK_ok]
    rw [wp_bind, wp_attempt, wp_bind]
    apply wp_mono (deployOne_spec n r true flt ms)
    intro o ms1 h1
    rcases h1 with ⟨rfl, hp⟩ | ⟨rfl, hp⟩
    · simp only [wpK_ok, wp_pure, attK_ok]
      rw [wp_bind]
      unfold instMsg
      simp only [if_true, wp_emit, wpK_ok]
      apply ih
      exact h.deployMsg hids hp rfl (by simp [okIds_append_ok, hp.2.2.2.2.2.1])
    · simp only [wpK_fail, attK_fail, wpK_ok]
      rw [wp_bind]
      unfold instMsg
      simp only [Bool.false_eq_true, if_false, wp_bind, wp_noteFailed, wp_emit, wpK_ok]
      apply ih
      exact h.deployMsg hids hp rfl (by simp [okIds_append_fail, hp.2.2.2.2.2.1])

theorem deployNode_clean (s0 : State R) (hids : ∀ w ∈ s0.wls, w.id < s0.next) (p : String × List R) :
    Pres (Clean s0) (deployNode p.1 p.2) := by
  intro flt ms h
  unfold deployNode
  rw [wp_bind, wp_renew]
  simp only [wpK_ok]
  have h : Clean s0 (renewMS flt ms) := h.renew
  generalize renewMS flt ms = ms at h ⊢
  rw [wp_bind, wp_attempt, wp_readStep]
  split
  · simp only [attK_fail, wpK_ok, Bool.false_eq_true, if_false]
    have hf : Clean s0 (failMS ms "storeGetNode" p.1) := h.same rfl rfl rfl (Nat.le_refl _) rfl rfl
    rw [wp_bind]
    apply wp_noteNodeFailed_frame
    intro fl
    simp only [wpK_ok]
    have hf' : Clean s0 { failMS ms "storeGetNode" p.1 with failed := fl } := hf
    refine pres_forEach (I := Clean s0) p.2 (fun r _ => ?_) flt _ hf'
    intro flt' ms' h'
    simp only [wp_bind, wp_noteFailed, wp_emit, wpK_ok]
    exact h'.same (by simp [okIds_append_fail]) rfl rfl (Nat.le_refl _) rfl rfl
  · simp only [attK_ok, wpK_ok, if_true]
    have hf : Clean s0 (okMS ms "storeGetNode" p.1 id) := h.same rfl rfl rfl (Nat.le_refl _) rfl rfl
    exact deployInsts_clean s0 hids p.1 flt p.2 _ hf

/-- **cleanliness of `create`**: whatever the fault, the call ends with `Clean` -/
theorem create_clean (a : CreateArgs R) (flt : Option Addr) (ms : MS R) (hm : ms.msgs = [])
    (hids : ∀ w ∈ ms.st.wls, w.id < ms.st.next) : wp (create a) (fun _ ms' => Clean ms.st ms') flt ms := by
  have h0 : Clean ms.st ms :=
    ⟨fun w hw => Or.inl hw, fun w hw => hw, fun c hc => Or.inl ⟨c, hc, rfl⟩, Nat.le_refl _, rfl, rfl⟩
  have hstep := pres_clean_step ms.st
  have hkeep : ∀ (m : M R Unit), (∀ flt' ms', (m flt' ms').2 = ms') → Pres (Clean ms.st) m := by
    intro m hm' flt' ms' h'
    unfold wp; rw [hm']; exact h'
  have hinert : ∀ (k n : String) (eff : State R → State R), KeepsRC eff →
      Pres (Clean ms.st) (do let _ ← attempt (step k n eff); pure ()) := by
    intro k n eff he
    exact pres_bind (pres_attempt (hstep _ _ _ he)) (fun _ => pres_pure _ _)
  have htxn : Pres (Clean ms.st) (createTxn a) := by
    unfold createTxn
    apply pres_txn (fun _ _ h => h)
    · intro flt' ms' h'
      rw [wp_withFailMsg]
      apply wp_mono (pres_createCond hstep (fun _ _ _ _ h => h) a flt' ms' h')
      intro o ms1 h1
      cases o with
      | ok u => exact h1
      | fail => exact h1.same (by simp [okIds_append_fail]) rfl rfl (Nat.le_refl _) rfl rfl
    · unfold createThen
      apply pres_bind (pres_forEach _ (fun p _ => deployNode_clean ms.st hids p))
      intro _
      apply pres_bind (fun _ _ h => h)
      intro msx
      exact pres_ite _ (pres_pure _ _) (pres_refuse _)
    · intro f hf b
      simp only [Option.some.injEq] at hf
      subst hf
      exact pres_createRollback hstep a b
  unfold create
  apply pres_bind (pres_attempt htxn) _ flt ms h0
  intro _
  apply pres_bind
  · apply pres_withDetached (fun _ _ h => h)
    unfold deleteMarkers
    apply pres_bind (fun _ _ h => h)
    intro msx
    exact pres_ite _ (pres_forEach _ (fun p _ => hinert _ _ _ (keepsRC_rmMarker _))) (pres_pure _ _)
  · intro _
    apply pres_bind
    · apply pres_withDetached (fun _ _ h => h)
      unfold commitProcessing
      apply pres_bind (fun _ _ h => h)
      intro msx
      exact pres_forEach _ (fun p _ => hinert _ _ _ (keepsRC_walRm _ _ _))
    · intro _
      apply pres_withDetached (fun _ _ h => h)
      unfold commitAllocated
      apply pres_bind (fun _ _ h => h)
      intro msx
      exact pres_ite _ (hinert _ _ _ (keepsRC_walRm _ _ _)) (pres_pure _ _)

/-- what the create result stream looks like (relative to the state `s0` the call started in) -/
def StreamPost (a : CreateArgs R) (s0 : State R) (ms' : MS R) : Prop :=
  ((ms'.msgs = [⟨"", 0, false, none⟩] ∧ ms'.st.wls = s0.wls ∧ ms'.st.cts = s0.cts) ∨
    ms'.msgs.length = planned a.plan) ∧ Truth ms'

theorem pres_streamPost_step (a : CreateArgs R) (s0 : State R) (k n : String) (eff : State R → State R)
    (he : KeepsRC eff) : Pres (StreamPost a s0) (step k n eff) := by
  apply pres_step'
  · intro ms h
    have := he ms.st
    refine ⟨?_, h.2.same rfl (by simp [this.1]) (by simp [this.2.1]) (by simp [this.2.2.1])⟩
    rcases h.1 with ⟨h1, h2, h3⟩ | h1
    · exact Or.inl ⟨h1, by simp [this.1, h2], by simp [this.2.1, h3]⟩
    · exact Or.inr h1
  · intro ms h
    exact ⟨h.1, h.2.same rfl rfl rfl (Nat.le_refl _)⟩

/-- **C12 for the whole `create` body** (transaction + deferred WAL commits and marker deletions) -/
theorem create_stream (a : CreateArgs R) (flt : Option Addr) (ms : MS R) (hm : ms.msgs = []) :
    wp (create a) (fun _ ms' => StreamPost a ms.st ms') flt ms := by
  have hinert : ∀ (k n : String) (eff : State R → State R), KeepsRC eff →
      Pres (StreamPost a ms.st) (do let _ ← attempt (step k n eff); pure ()) := by
    intro k n eff he
    exact pres_bind (pres_attempt (pres_streamPost_step a ms.st _ _ _ he)) (fun _ => pres_pure _ _)
  unfold create
  rw [wp_bind, wp_attempt]
  apply wp_mono (createTxn_stream a flt ms hm)
  intro o ms1 h1
  have tail : Pres (StreamPost a ms.st) (do withDetached (deleteMarkers a); withDetached (commitProcessing a); withDetached commitAllocated) := by
    apply pres_bind
    · apply pres_withDetached (fun _ _ h => h)
      unfold deleteMarkers
      apply pres_bind (fun _ _ h => h)
      intro msx
      exact pres_ite _ (pres_forEach _ (fun p _ => hinert _ _ _ (keepsRC_rmMarker _))) (pres_pure _ _)
    · intro _
      apply pres_bind
      · apply pres_withDetached (fun _ _ h => h)
        unfold commitProcessing
        apply pres_bind (fun _ _ h => h)
        intro msx
        exact pres_forEach _ (fun p _ => hinert _ _ _ (keepsRC_walRm _ _ _))
      · intro _
        apply pres_withDetached (fun _ _ h => h)
        unfold commitAllocated
        apply pres_bind (fun _ _ h => h)
        intro msx
        exact pres_ite _ (hinert _ _ _ (keepsRC_walRm _ _ _)) (pres_pure _ _)
  cases o <;> exact tail flt ms1 h1

theorem nodup_of_map_nodup {α β : Type} (f : α → β) : ∀ (l : List α), (l.map f).Nodup → l.Nodup := by
  intro l
  induction l with
  | nil => intro _; exact List.nodup_nil
  | cons x rest ih =>
    intro h
    simp only [List.map_cons, List.nodup_cons] at h ⊢
    exact ⟨fun hx => h.1 (List.mem_map_of_mem hx), ih h.2⟩

theorem loadL_perm {l1 l2 : List (Wl R)} (h : l1.Perm l2) (n : String) : loadL l1 n = loadL l2 n := by
  induction h with
  | nil => rfl
  | cons x _ ih => simp only [loadL_cons, ih]
  | swap x y l =>
    simp only [loadL_cons]
    by_cases hx : x.node = n <;> by_cases hy : y.node = n <;> simp [hx, hy, add_left_comm]
  | trans _ _ ih1 ih2 => exact ih1.trans ih2

/-- every message of a create call reports failure ⇒ the call changed nothing: same nodes, capacity,
usage and records, and no new container -/
theorem create_all_failed (a : CreateArgs R) (hnd : (a.plan.map (·.1)).Nodup) (flt : Option Addr) (s : State R)
    (cancel : Option (Addr × Bool)) (h : Inv s) :
    okIds (run (create a) flt s cancel).2.msgs = [] →
      AbsEq s (run (create a) flt s cancel).2.st ∧ ∀ c ∈ (run (create a) flt s cancel).2.st.cts, ∃ c0 ∈ s.cts, c0.id = c.id := by
  intro hok
  have hc : Clean s (run (create a) flt s cancel).2 := create_clean a flt { st := s, cancel := cancel } rfl h.2.1
  have hi : Inv (run (create a) flt s cancel).2.st := create_inv a hnd flt { st := s, cancel := cancel } ⟨h, rfl, rfl⟩
  obtain ⟨c1, c2, c3, _, c5, c6⟩ := hc
  rw [hok] at c1 c3
  have hmem : ∀ w, w ∈ (run (create a) flt s cancel).2.st.wls ↔ w ∈ s.wls :=
    fun w => ⟨fun hw => (c1 w hw).elim id (fun h' => by cases h'), c2 w⟩
  refine ⟨⟨c6, c5, ?_, hmem⟩, fun c hc' => (c3 c hc').elim id (fun h' => by cases h')⟩
  funext m
  have hp : (run (create a) flt s cancel).2.st.wls.Perm s.wls :=
    (List.perm_ext_iff_of_nodup (nodup_of_map_nodup _ _ hi.1) (nodup_of_map_nodup _ _ h.1)).mpr hmem
  have e1 := hi.2.2 m
  have e0 := h.2.2 m
  unfold load at e1 e0
  rw [e1, e0, loadL_perm hp m]

end Eru.Cluster
