import Eru.Cluster.Steps
/-
Cluster model: `SetNode` (node.go). The new capacity is the resource layer's answer to the
capacity request and is an argument (`newCap = none`: no resource change requested).
`rollbackRestores`: whether the capacity rollback actually rewrites the origin capacity —
`true` models the repaired code, `false` the code as found (cobalt returned an empty
`before`, so the rollback call changed nothing; D25). `refused`: the plugin rejects the capacity
request (invalid layout), nothing is written.
-/
namespace Eru.Cluster
variable {R : Type} [ResAlg R]

def setNode (n : String) (newCap : Option R) (rollbackRestores : Bool := true) (refused : Bool := false) : M R Unit := do
  readStep "storeGetNode" n                       -- withNodePodLocked / filterNodes
  readStep "pluginGetNodeResourceInfo" n
  let s ← getSt
  let origin := s.cap n
  txn (match newCap with
       | none => pure ()
       | some c =>
         if refused then do readStep "pluginSetCapacity" n; refuse   -- the plugin rejects the request: nothing written
         else step "pluginSetCapacity" n (setCap n c))
      (do step "storeUpdateNodes" n (fun x => x)
          let _ ← attempt (readStep "pluginGetNodeResourceInfo" n)
          pure ())
      (onThenFailure (match newCap with
       | none => pure ()
       | some _ => step "pluginSetCapacity" n (if rollbackRestores then setCap n origin else fun x => x)))

/-- `AddNode`: ask the engine, create the plugin record, then the store record; a failing store
write removes the plugin record again. `c`: the capacity the plugin derives from the request.
A node the plugin already knows is refused by the plugin (nothing happens); a node the store
already knows is refused by the store (and the fresh plugin record is removed again). -/
def addNode (n : String) (c : R) : M R Unit := do
  readStep "engineInfo" n
  let s ← getSt
  txn (if s.pnodes.contains n then do readStep "pluginAddNode" n; refuse
       else step "pluginAddNode" n (pAddNode n c))
      (if s.nodes.contains n then do readStep "storeAddNode" n; refuse   -- the store refuses an existing node
       else step "storeAddNode" n (sAddNode n))
      (onThenFailure (step "pluginRemoveNode" n (pRmNode n)))

/-- condition step of `RemoveNode`: mark the node down (result ignored), delete the store record,
drop the status (result ignored) -/
def removeNodeCond (n : String) : M R Unit := do
  let _ ← attempt (readStep "storeSetNodeStatus" n)
  step "storeRemoveNode" n (sRmNode n)
  let _ ← attempt (readStep "storeSetNodeStatus" n)
  pure ()

def removeNodeTxn (n : String) : M R Unit :=
  txn (removeNodeCond n) (step "pluginRemoveNode" n (pRmNode n)) (some fun _ => pure ())

/-- `RemoveNode`: only an empty node; the store record goes in the condition step, the plugin record
in the then step, and the rollback does nothing (so a failing plugin call leaves the plugin record
of a node the store no longer knows: D16c). -/
def removeNode (n : String) : M R Unit := do
  readStep "storeGetNode" n
  let s ← getSt
  if s.nodes.contains n then do
    readStep "storeListNodeWorkloads" n
    if s.wls.any (fun w => w.node == n) then refuse else removeNodeTxn n
  else refuse

/-- the repair of `NodeResource(fix = true)`: the node's usage is rewritten to the sum of the
workloads recorded on it -/
def fixUsage (n : String) (s : State R) : State R :=
  { s with usage := fun m => if m = n then load s n else s.usage m }

/-- `NodeResource(node, fix)` (resource.go `doGetNodeResource` with inspect): under the pod lock, list
the node's workloads, let the plugin compare (and with `fix` rewrite) the usage, inspect every
workload's container (a failing inspect only adds a diff line). -/
def nodeResource (n : String) (fix : Bool) : M R Unit := do
  readStep "storeGetNode" n
  readStep "storeListNodeWorkloads" n
  step "pluginGetNodeResourceInfo" n (if fix then fixUsage n else fun s => s)
  let s ← getSt
  forEach (s.wls.filter (fun w => w.node == n)) (fun _ => do
    let _ ← attempt (readStep "engineInspect" n); pure ())

end Eru.Cluster
