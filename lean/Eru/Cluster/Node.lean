import Eru.Cluster.Steps
/-
Cluster model: `SetNode` (node.go). The new capacity is the resource layer's answer to the
capacity request and is an argument (`newCap = none`: no resource change requested).
`rollbackRestores`: whether the capacity rollback actually rewrites the origin capacity —
`true` models the repaired code, `false` the code as found (cobalt returned an empty
`before`, so the rollback call changed nothing; D25).
-/
namespace Eru.Cluster
variable {R : Type} [ResAlg R]

def setNode (n : String) (newCap : Option R) (rollbackRestores : Bool := true) : M R Unit := do
  readStep "storeGetNode" n                       -- withNodePodLocked / filterNodes
  readStep "pluginGetNodeResourceInfo" n
  let s ← getSt
  let origin := s.cap n
  txn (match newCap with
       | none => pure ()
       | some c => step "pluginSetCapacity" n (setCap n c))
      (do step "storeUpdateNodes" n (fun x => x)
          let _ ← attempt (readStep "pluginGetNodeResourceInfo" n)
          pure ())
      (onThenFailure (match newCap with
       | none => pure ()
       | some _ => step "pluginSetCapacity" n (if rollbackRestores then setCap n origin else fun x => x)))

end Eru.Cluster
