import Eru.Cluster.Ops
import Eru.Cluster.ProofsBase
/-
Bookkeeping lemmas of the abstract state: how the primitive updates change `usage` and
`load`, and the four shapes of "usage and records change together" that the operations
produce (record removed + usage released, record re-sized + delta committed, record added +
usage allocated, record replaced by a fresh one with the same resources).
-/
set_option linter.unusedSectionVars false
namespace Eru.Cluster
variable {R : Type} [ResAlg R]
open ResAlg

/-! ### projections of the primitive updates -/
section proj
variable (n : String) (r : R) (s : State R) (w : Wl R) (id : Nat) (c : Ct) (b : Bool) (k : Nat) (e : String)
@[simp] theorem addUsage_usage : (addUsage n r s).usage = fun m => if m = n then s.usage m + r else s.usage m := rfl
@[simp] theorem addUsage_wls : (addUsage n r s).wls = s.wls := rfl
@[simp] theorem addUsage_cap : (addUsage n r s).cap = s.cap := rfl
@[simp] theorem addUsage_cts : (addUsage n r s).cts = s.cts := rfl
@[simp] theorem addUsage_nodes : (addUsage n r s).nodes = s.nodes := rfl
@[simp] theorem addUsage_next : (addUsage n r s).next = s.next := rfl
@[simp] theorem setCap_usage : (setCap n r s).usage = s.usage := rfl
@[simp] theorem setCap_wls : (setCap n r s).wls = s.wls := rfl
@[simp] theorem setCap_nodes : (setCap n r s).nodes = s.nodes := rfl
@[simp] theorem setCap_next : (setCap n r s).next = s.next := rfl
@[simp] theorem setCap_cts : (setCap n r s).cts = s.cts := rfl
@[simp] theorem addWl_usage : (addWl w s).usage = s.usage := rfl
@[simp] theorem addWl_wls : (addWl w s).wls = w :: s.wls := rfl
@[simp] theorem addWl_cap : (addWl w s).cap = s.cap := rfl
@[simp] theorem addWl_cts : (addWl w s).cts = s.cts := rfl
@[simp] theorem addWl_nodes : (addWl w s).nodes = s.nodes := rfl
@[simp] theorem addWl_next : (addWl w s).next = s.next := rfl
@[simp] theorem rmWl_usage : (rmWl id s).usage = s.usage := rfl
@[simp] theorem rmWl_wls : (rmWl id s).wls = s.wls.filter (fun w => w.id != id) := rfl
@[simp] theorem rmWl_cap : (rmWl id s).cap = s.cap := rfl
@[simp] theorem rmWl_cts : (rmWl id s).cts = s.cts := rfl
@[simp] theorem rmWl_nodes : (rmWl id s).nodes = s.nodes := rfl
@[simp] theorem rmWl_next : (rmWl id s).next = s.next := rfl
@[simp] theorem setWlRes_usage : (setWlRes id r s).usage = s.usage := rfl
@[simp] theorem setWlRes_wls : (setWlRes id r s).wls = s.wls.map (fun w => if w.id = id then { w with res := r } else w) := rfl
@[simp] theorem setWlRes_cap : (setWlRes id r s).cap = s.cap := rfl
@[simp] theorem setWlRes_cts : (setWlRes id r s).cts = s.cts := rfl
@[simp] theorem setWlRes_nodes : (setWlRes id r s).nodes = s.nodes := rfl
@[simp] theorem setWlRes_next : (setWlRes id r s).next = s.next := rfl
@[simp] theorem addCt_usage : (addCt c s).usage = s.usage := rfl
@[simp] theorem addCt_wls : (addCt c s).wls = s.wls := rfl
@[simp] theorem addCt_cap : (addCt c s).cap = s.cap := rfl
@[simp] theorem addCt_nodes : (addCt c s).nodes = s.nodes := rfl
@[simp] theorem addCt_cts : (addCt c s).cts = c :: s.cts := rfl
@[simp] theorem addCt_next : (addCt c s).next = max s.next (c.id + 1) := rfl
@[simp] theorem rmCt_usage : (rmCt id s).usage = s.usage := rfl
@[simp] theorem rmCt_wls : (rmCt id s).wls = s.wls := rfl
@[simp] theorem rmCt_cap : (rmCt id s).cap = s.cap := rfl
@[simp] theorem rmCt_nodes : (rmCt id s).nodes = s.nodes := rfl
@[simp] theorem rmCt_next : (rmCt id s).next = s.next := rfl
@[simp] theorem rmCt_cts : (rmCt id s).cts = s.cts.filter (fun c => c.id != id) := rfl
@[simp] theorem setRunning_usage : (setRunning id b s).usage = s.usage := rfl
@[simp] theorem setRunning_wls : (setRunning id b s).wls = s.wls := rfl
@[simp] theorem setRunning_cap : (setRunning id b s).cap = s.cap := rfl
@[simp] theorem setRunning_nodes : (setRunning id b s).nodes = s.nodes := rfl
@[simp] theorem setRunning_next : (setRunning id b s).next = s.next := rfl
@[simp] theorem setRunning_cts : (setRunning id b s).cts = s.cts.map (fun c => if c.id = id then { c with running := b } else c) := rfl
@[simp] theorem addMarker_usage : (addMarker n k s).usage = s.usage := rfl
@[simp] theorem addMarker_wls : (addMarker n k s).wls = s.wls := rfl
@[simp] theorem addMarker_cap : (addMarker n k s).cap = s.cap := rfl
@[simp] theorem addMarker_cts : (addMarker n k s).cts = s.cts := rfl
@[simp] theorem addMarker_nodes : (addMarker n k s).nodes = s.nodes := rfl
@[simp] theorem addMarker_next : (addMarker n k s).next = s.next := rfl
@[simp] theorem rmMarker_usage : (rmMarker n s).usage = s.usage := rfl
@[simp] theorem rmMarker_wls : (rmMarker n s).wls = s.wls := rfl
@[simp] theorem rmMarker_cap : (rmMarker n s).cap = s.cap := rfl
@[simp] theorem rmMarker_cts : (rmMarker n s).cts = s.cts := rfl
@[simp] theorem rmMarker_nodes : (rmMarker n s).nodes = s.nodes := rfl
@[simp] theorem rmMarker_next : (rmMarker n s).next = s.next := rfl
@[simp] theorem decrMarker_usage : (decrMarker n s).usage = s.usage := rfl
@[simp] theorem decrMarker_wls : (decrMarker n s).wls = s.wls := rfl
@[simp] theorem decrMarker_cap : (decrMarker n s).cap = s.cap := rfl
@[simp] theorem decrMarker_cts : (decrMarker n s).cts = s.cts := rfl
@[simp] theorem decrMarker_nodes : (decrMarker n s).nodes = s.nodes := rfl
@[simp] theorem decrMarker_next : (decrMarker n s).next = s.next := rfl
@[simp] theorem walAdd_usage : (walAdd e n k s).usage = s.usage := rfl
@[simp] theorem walAdd_wls : (walAdd e n k s).wls = s.wls := rfl
@[simp] theorem walAdd_cap : (walAdd e n k s).cap = s.cap := rfl
@[simp] theorem walAdd_cts : (walAdd e n k s).cts = s.cts := rfl
@[simp] theorem walAdd_nodes : (walAdd e n k s).nodes = s.nodes := rfl
@[simp] theorem walAdd_next : (walAdd e n k s).next = s.next := rfl
@[simp] theorem walRm_usage : (walRm e n k s).usage = s.usage := rfl
@[simp] theorem walRm_wls : (walRm e n k s).wls = s.wls := rfl
@[simp] theorem walRm_cap : (walRm e n k s).cap = s.cap := rfl
@[simp] theorem walRm_cts : (walRm e n k s).cts = s.cts := rfl
@[simp] theorem walRm_nodes : (walRm e n k s).nodes = s.nodes := rfl
@[simp] theorem walRm_next : (walRm e n k s).next = s.next := rfl
end proj

/-- `Consistent` only looks at usage and workload records -/
theorem consistent_congr {a b : State R} (hu : a.usage = b.usage) (hw : a.wls = b.wls) :
    Consistent a ↔ Consistent b := by
  unfold Consistent load
  rw [hu, hw]

/-! ### load of a list of records -/

theorem loadL_cons (w : Wl R) (ws : List (Wl R)) (n : String) :
    loadL (w :: ws) n = if w.node = n then w.res + loadL ws n else loadL ws n := rfl

/-- removing the (unique) record with `w`'s id removes exactly `w`'s resources from its node -/
theorem loadL_filter (ws : List (Wl R)) (w : Wl R) (n : String)
    (hw : w ∈ ws) (hnd : (ws.map (·.id)).Nodup) :
    loadL ws n = if w.node = n then w.res + loadL (ws.filter (fun x => x.id != w.id)) n
                 else loadL (ws.filter (fun x => x.id != w.id)) n := by
  induction ws with
  | nil => cases hw
  | cons x rest ih =>
    simp only [List.map_cons, List.nodup_cons] at hnd
    rcases List.mem_cons.mp hw with h | h
    · subst h
      have hrest : rest.filter (fun x => x.id != w.id) = rest := by
        apply List.filter_eq_self.mpr
        intro y hy
        have : y.id ≠ w.id := fun e => hnd.1 (e ▸ List.mem_map_of_mem hy)
        simpa using this
      simp [List.filter_cons, loadL_cons, hrest]
    · have hne : x.id ≠ w.id := fun e => hnd.1 (e ▸ List.mem_map_of_mem h)
      have hb : (x.id != w.id) = true := by simpa using hne
      rw [List.filter_cons, hb]
      simp only [if_true, loadL_cons]
      rw [ih h hnd.2]
      by_cases h1 : x.node = n <;> by_cases h2 : w.node = n <;> simp [h1, h2, add_left_comm]

/-- re-sizing the (unique) record with `w`'s id -/
theorem loadL_map_set (ws : List (Wl R)) (w : Wl R) (r : R) (n : String)
    (hw : w ∈ ws) (hnd : (ws.map (·.id)).Nodup) :
    loadL (ws.map (fun x => if x.id = w.id then { x with res := r } else x)) n =
      if w.node = n then r + loadL (ws.filter (fun x => x.id != w.id)) n
      else loadL (ws.filter (fun x => x.id != w.id)) n := by
  induction ws with
  | nil => cases hw
  | cons x rest ih =>
    simp only [List.map_cons, List.nodup_cons] at hnd
    rcases List.mem_cons.mp hw with h | h
    · subst h
      have hrest : rest.filter (fun x => x.id != w.id) = rest := by
        apply List.filter_eq_self.mpr
        intro y hy
        have : y.id ≠ w.id := fun e => hnd.1 (e ▸ List.mem_map_of_mem hy)
        simpa using this
      have hmap : rest.map (fun x => if x.id = w.id then { x with res := r } else x) = rest := by
        conv => rhs; rw [← List.map_id rest]
        apply List.map_congr_left
        intro y hy
        have : y.id ≠ w.id := fun e => hnd.1 (e ▸ List.mem_map_of_mem hy)
        simp [this]
      simp [List.filter_cons, loadL_cons, hrest, hmap]
    · have hne : x.id ≠ w.id := fun e => hnd.1 (e ▸ List.mem_map_of_mem h)
      have hb : (x.id != w.id) = true := by simpa using hne
      rw [List.map_cons, List.filter_cons, hb]
      simp only [if_true, loadL_cons, hne, if_false]
      rw [ih h hnd.2]
      by_cases h1 : x.node = n <;> by_cases h2 : w.node = n <;> simp [h1, h2, add_left_comm]

/-! ### the four shapes -/

/-- record removed, its resources released (remove / dissociate) -/
theorem consistent_release {s : State R} {w : Wl R} (hc : Consistent s) (hw : w ∈ s.wls)
    (hnd : (s.wls.map (·.id)).Nodup) : Consistent (rmWl w.id (addUsage w.node (-w.res) s)) := by
  intro n
  have h := hc n
  unfold load at h ⊢
  rw [loadL_filter s.wls w n hw hnd] at h
  simp only [rmWl_usage, addUsage_usage, rmWl_wls, addUsage_wls]
  by_cases hn : w.node = n
  · simp only [hn, if_true] at h ⊢
    rw [h, add_comm w.res, add_neg_cancel_right]
  · have : ¬ n = w.node := fun e => hn e.symm
    simp only [hn, if_false, this] at h ⊢
    exact h

/-- record re-sized to `w.res + delta`, `delta` committed (realloc) -/
theorem consistent_resize {s : State R} {w : Wl R} {delta newRes : R} (hc : Consistent s) (hw : w ∈ s.wls)
    (hnd : (s.wls.map (·.id)).Nodup) (hres : newRes = w.res + delta) :
    Consistent (setWlRes w.id newRes (addUsage w.node delta s)) := by
  intro n
  have h := hc n
  unfold load at h ⊢
  rw [loadL_filter s.wls w n hw hnd] at h
  simp only [setWlRes_usage, addUsage_usage, setWlRes_wls, addUsage_wls]
  rw [loadL_map_set s.wls w newRes n hw hnd]
  by_cases hn : w.node = n
  · simp only [hn, if_true] at h ⊢
    rw [h, hres, add_assoc, add_assoc, add_comm _ delta]
  · have : ¬ n = w.node := fun e => hn e.symm
    simp only [hn, if_false, this] at h ⊢
    exact h

/-- record added, its resources allocated (create) -/
theorem consistent_alloc {s : State R} (w : Wl R) (hc : Consistent s) :
    Consistent (addWl w (addUsage w.node w.res s)) := by
  intro n
  have h := hc n
  unfold load at h ⊢
  simp only [addWl_usage, addUsage_usage, addWl_wls, addUsage_wls, loadL_cons]
  by_cases hn : w.node = n
  · simp only [hn, if_true]
    rw [h, add_comm]
  · have : ¬ n = w.node := fun e => hn e.symm
    simp only [hn, if_false, this]
    exact h

/-- record `w` replaced by a fresh record with the same node and resources (replace) -/
theorem consistent_swap {s : State R} {w : Wl R} (id : Nat) (hc : Consistent s) (hw : w ∈ s.wls)
    (hnd : (s.wls.map (·.id)).Nodup) (hid : id ≠ w.id) :
    Consistent (rmWl w.id (addWl ⟨id, w.node, w.res⟩ s)) := by
  intro n
  have h := hc n
  unfold load at h ⊢
  rw [loadL_filter s.wls w n hw hnd] at h
  have hb : (id != w.id) = true := by simpa using hid
  simp only [rmWl_usage, addWl_usage, rmWl_wls, addWl_wls, List.filter_cons, hb, if_true, loadL_cons]
  exact h

/-- putting a removed record back (rollback of remove) restores the load -/
theorem loadL_readd (ws : List (Wl R)) (w : Wl R) (n : String) (hw : w ∈ ws)
    (hnd : (ws.map (·.id)).Nodup) :
    loadL (w :: ws.filter (fun x => x.id != w.id)) n = loadL ws n := by
  rw [loadL_filter ws w n hw hnd, loadL_cons]

@[simp] theorem usage_fun_cancel_neg (u : String → R) (n : String) (r : R) :
    (fun m => if m = n then (if m = n then u m + -r else u m) + r else if m = n then u m + -r else u m) = u := by
  funext m
  by_cases h : m = n <;> simp [h, neg_add_cancel_right]

@[simp] theorem usage_fun_cancel_pos (u : String → R) (n : String) (r : R) :
    (fun m => if m = n then (if m = n then u m + r else u m) + -r else if m = n then u m + r else u m) = u := by
  funext m
  by_cases h : m = n <;> simp [h, add_neg_cancel_right]

theorem addUsage_neg_cancel (n : String) (r : R) (s : State R) :
    (addUsage n r (addUsage n (-r) s)).usage = s.usage := by
  funext m
  simp only [addUsage_usage]
  by_cases h : m = n <;> simp [h, neg_add_cancel_right]

theorem addUsage_cancel_neg (n : String) (r : R) (s : State R) :
    (addUsage n (-r) (addUsage n r s)).usage = s.usage := by
  funext m
  simp only [addUsage_usage]
  by_cases h : m = n <;> simp [h, add_neg_cancel_right]

end Eru.Cluster
