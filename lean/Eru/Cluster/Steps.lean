import Eru.Cluster.State
/-
Cluster model, part 2: externally visible steps, single-fault plans and the `txn`
combinator with the exact `failureByCond` semantics of `utils.Txn`.

An operation is a program in `M R α`: it reads the fault plan (`Option Addr`), threads the
machine state `MS` (abstract cluster state + bookkeeping) and ends with `Out.ok a` or
`Out.fail`.  A *step* is one externally visible call (store / plugin / engine / WAL).  Its
structural address is (kind, node, ordinal among the steps of that kind on that node in
this operation) — exactly the address the Go harness' recorder computes.  A step whose
address equals the plan fails WITHOUT taking effect, at most once per operation (`fired`).
Compensating steps therefore always succeed under a single-fault plan.
-/
namespace Eru.Cluster

structure Addr where
  kind : String
  node : String
  ord : Nat
  deriving DecidableEq, Repr

inductive Out (α : Type) where
  | ok (a : α)
  | fail
  deriving Repr, DecidableEq

/-- one message on a result channel -/
structure Msg (R : Type) where
  node : String
  id : Nat          -- workload id (0 = none)
  ok : Bool
  res : Option R    -- the resources a create success reports (`none` otherwise)
  deriving Repr, DecidableEq

/-- machine state of a running operation -/
structure MS (R : Type) where
  st : State R
  fired : Bool := false
  cnt : List (String × String × Nat) := []
  tr : List (String × String × Bool) := []
  msgs : List (Msg R) := []
  /-- scratch variables shared between the steps of `doCreateWorkloads` (Go: captured locals
  `workloadResourcesMap` of the nodes whose Alloc succeeded, and `rollbackMap`) -/
  allocd : List (String × R) := []
  failed : List (String × R) := []
  /-- scratch flag of an operation (Go: a captured local such as `metaUpdated` of `doReallocOnNode`) -/
  flag : Bool := false
  /-- cancellation plan of the run: the caller's context ends right before (`false`) or right after
  (`true`) the addressed step -/
  cancel : Option (Addr × Bool) := none
  /-- the caller's context has ended -/
  cancelled : Bool := false
  /-- the current steps run under a context DETACHED from the caller's (rollbacks of `utils.Txn`, its
  then-step when there is no rollback, deferred cleanups): a cancelled caller does not affect them -/
  detached : Bool := false

abbrev M (R : Type) (α : Type) := Option Addr → MS R → Out α × MS R

variable {R : Type}

@[inline] def M.pure {α} (a : α) : M R α := fun _ ms => (.ok a, ms)
@[inline] def M.bind {α β} (m : M R α) (f : α → M R β) : M R β := fun flt ms =>
  match m flt ms with
  | (.ok a, ms') => f a flt ms'
  | (.fail, ms') => (.fail, ms')

instance : Monad (M R) where
  pure := M.pure
  bind := M.bind

/-- number of steps of kind `k` on node `n` seen so far -/
def count (c : List (String × String × Nat)) (k n : String) : Nat :=
  match c with
  | [] => 0
  | (k', n', v) :: rest => if k' = k ∧ n' = n then v else count rest k n

def bump (c : List (String × String × Nat)) (k n : String) : List (String × String × Nat) :=
  match c with
  | [] => [(k, n, 1)]
  | (k', n', v) :: rest => if k' = k ∧ n' = n then (k', n', v + 1) :: rest else (k', n', v) :: bump rest k n

/-- calls that take the caller's context (store, resource plugin, engine); WAL writes do not -/
def sensitive (k : String) : Bool :=
  k.toList.take 5 == ['s', 't', 'o', 'r', 'e'] || k.toList.take 6 == ['p', 'l', 'u', 'g', 'i', 'n'] ||
  k.toList.take 6 == ['e', 'n', 'g', 'i', 'n', 'e']

/-- is the next step of kind `k` on node `n` the one the cancellation plan addresses (before / after)? -/
def cancelHere (ms : MS R) (k n : String) (after : Bool) : Bool :=
  decide (ms.cancel = some (⟨k, n, count ms.cnt k n⟩, after))

/-- the next step would be made with an ended caller context -/
def cxOf (ms : MS R) (k n : String) : Bool :=
  (ms.cancelled || cancelHere ms k n false) && !ms.detached && sensitive k

/-- does the next step of kind `k` on node `n` fail? `fired`: a failure has already happened in this
part of the operation (the single fault is spent / the part is being unwound); `c`: the ordinal
counters; `cx`: the step would be made with an ended caller context (`cxOf`). -/
def hit (flt : Option Addr) (fired : Bool) (c : List (String × String × Nat)) (cx : Bool) (k n : String) : Bool :=
  !fired && (decide (flt = some ⟨k, n, count c k n⟩) || cx)

@[simp] theorem hit_fired (flt : Option Addr) (c : List (String × String × Nat)) (cx : Bool) (k n : String) :
    hit flt true c cx k n = false := by simp [hit]

@[simp] theorem hit_none (fired : Bool) (c : List (String × String × Nat)) (k n : String) :
    hit none fired c false k n = false := by simp [hit]

/-- after the step: has the caller's context ended by now? -/
def cancelledAfter (ms : MS R) (k n : String) : Bool :=
  ms.cancelled || cancelHere ms k n false || cancelHere ms k n true

/-- machine state after the failure of a step (no effect) -/
def failMS (ms : MS R) (k n : String) : MS R :=
  { ms with fired := true, cnt := bump ms.cnt k n, tr := ms.tr ++ [(k, n, false)], cancelled := cancelledAfter ms k n }

/-- machine state after a successful step with effect `eff` -/
def okMS (ms : MS R) (k n : String) (eff : State R → State R) : MS R :=
  { ms with st := eff ms.st, cnt := bump ms.cnt k n, tr := ms.tr ++ [(k, n, true)], cancelled := cancelledAfter ms k n }

/-- an externally visible step with effect `eff`: it fails (without effect) when the single-fault plan
addresses it or when it would be made with an ended caller context -/
def step (k n : String) (eff : State R → State R) : M R Unit := fun flt ms =>
  if hit flt ms.fired ms.cnt (cxOf ms k n) k n then (.fail, failMS ms k n) else (.ok (), okMS ms k n eff)

/-- a read-only step -/
def readStep (k n : String) : M R Unit := step k n id

/-- refusal that is not an injected fault (nothing happened) -/
def refuse {α} : M R α := fun _ ms => (.fail, ms)

def getSt : M R (State R) := fun _ ms => (.ok ms.st, ms)

def emit (m : Msg R) : M R Unit := fun _ ms => (.ok (), { ms with msgs := ms.msgs ++ [m] })

def setFlag (b : Bool) : M R Unit := fun _ ms => (.ok (), { ms with flag := b })
def getMS : M R (MS R) := fun _ ms => (.ok ms, ms)
def noteAlloc (n : String) (r : R) : M R Unit := fun _ ms => (.ok (), { ms with allocd := ms.allocd ++ [(n, r)] })
def noteFailed (n : String) (r : R) : M R Unit := fun _ ms => (.ok (), { ms with failed := ms.failed ++ [(n, r)] })

/-- the distinct first components, in order of first occurrence (Go: keys of `rollbackMap`) -/
def keysOf {β} (l : List (String × β)) : List String := (l.map (·.1)).eraseDups

/-- run `m`, turning failure into `false` (Go: error logged / recorded, execution continues) -/
def attempt (m : M R Unit) : M R Bool := fun flt ms =>
  match m flt ms with
  | (.ok _, ms') => (.ok true, ms')
  | (.fail, ms') => (.ok false, ms')

/-- run `m` under a context detached from the caller's (`utils.NewInheritCtx`) -/
def withDetached {α} (m : M R α) : M R α := fun flt ms =>
  let r := m flt { ms with detached := true }
  (r.1, { r.2 with detached := ms.detached })

/-- start of an independent part of an operation (next workload, next node, next instance): under a
cancellation plan the part is exposed to the ended context again (`fired` only says that the
PREVIOUS part is being unwound); under a single-fault plan nothing changes -/
def renew : M R Unit := fun flt ms =>
  (.ok (), if flt.isNone && ms.cancel.isSome then { ms with fired := false } else ms)

/-- `utils.Txn(cond, then, rollback)`: run `cond`; if it fails, run `rollback true` (when a
rollback is given) and fail; otherwise run `thn`; if it fails run `rollback false` and fail.
The rollback's own error is only logged. Rollbacks run detached from the caller's context, and so
does `thn` when there is no rollback ("forbid interrupting further process"). -/
def txn (cond thn : M R Unit) (rollback : Option (Bool → M R Unit)) : M R Unit := fun flt ms =>
  match cond flt ms with
  | (.fail, ms1) =>
    match rollback with
    | none => (.fail, ms1)
    | some rb => (.fail, (withDetached (rb true) flt ms1).2)
  | (.ok _, ms1) =>
    match (match rollback with | none => withDetached thn | some _ => thn) flt ms1 with
    | (.ok _, ms2) => (.ok (), ms2)
    | (.fail, ms2) =>
      match rollback with
      | none => (.fail, ms2)
      | some rb => (.fail, (withDetached (rb false) flt ms2).2)

/-- run `m`; if it fails also send message `msg` (Go: deferred `ch <- &Message{Error: err}`) -/
def withFailMsg (m : M R Unit) (msg : Msg R) : M R Unit := fun flt ms =>
  match m flt ms with
  | (.ok u, ms') => (.ok u, ms')
  | (.fail, ms') => (.fail, { ms' with msgs := ms'.msgs ++ [msg] })

/-- `utils.PCR`-style rollback: only when the commit (then) step failed -/
def onThenFailure (rb : M R Unit) : Option (Bool → M R Unit) :=
  some fun byCond => if byCond then pure () else rb

/-- sequential for-each (Go loops over nodes / instances; the model visits them in list order) -/
def forEach {α} (xs : List α) (f : α → M R Unit) : M R Unit :=
  match xs with
  | [] => pure ()
  | x :: rest => do f x; forEach rest f

/-- run a program from a state under a fault plan -/
def run {α} (m : M R α) (flt : Option Addr) (s : State R) (cancel : Option (Addr × Bool) := none) : Out α × MS R :=
  m flt { st := s, cancel := cancel }

end Eru.Cluster
