/-
Cluster model, part 1: abstract resources and the abstract cluster state.

The cluster operations of `cluster/calcium` only add, subtract and compare resource
vectors; what the vectors are is the business of the resource plugin (modelled by other
groups).  `ResAlg` is the interface the cluster layer relies on: a commutative group
(`usage' = usage + Σ resources`, `rollback ∘ commit = id` are consequences).  `Res4` is the
concrete four-component instance (CPU in nano-cores, memory, per-core pieces, per-NUMA-node
memory) used by the oracle.  No Mathlib.
-/
namespace Eru.Cluster

/-- Commutative-group interface of resource vectors. -/
class ResAlg (R : Type) extends Add R, Neg R, Sub R where
  zero : R
  add_assoc : ∀ a b c : R, a + b + c = a + (b + c)
  add_comm : ∀ a b : R, a + b = b + a
  zero_add : ∀ a : R, zero + a = a
  neg_add : ∀ a : R, -a + a = zero
  sub_def : ∀ a b : R, a - b = a + -b

namespace ResAlg
variable {R : Type} [ResAlg R]
theorem add_zero (a : R) : a + zero = a := by rw [add_comm, zero_add]
theorem add_neg (a : R) : a + -a = (zero : R) := by rw [add_comm, neg_add]
theorem add_left_comm (a b c : R) : a + (b + c) = b + (a + c) := by
  rw [← add_assoc, add_comm a b, add_assoc]
theorem add_neg_cancel_right (a b : R) : a + b + -b = a := by
  rw [add_assoc, add_neg, add_zero]
theorem neg_add_cancel_right (a b : R) : a + -b + b = a := by
  rw [add_assoc, neg_add, add_zero]
theorem add_right_cancel {a b c : R} (h : a + c = b + c) : a = b := by
  have := congrArg (· + -c) h
  simpa [add_neg_cancel_right] using this
theorem neg_zero : -(zero : R) = zero := by
  have h : -(zero : R) + zero = zero := neg_add zero
  rwa [add_zero] at h
end ResAlg

/-- the one-component instance (used for small concrete examples) -/
instance : ResAlg Int where
  zero := 0
  add_assoc := Int.add_assoc
  add_comm := Int.add_comm
  zero_add := Int.zero_add
  neg_add := Int.add_left_neg
  sub_def := fun _ _ => Int.sub_eq_add_neg

/-- A workload record: id, node it is recorded on, resources. -/
structure Wl (R : Type) where
  id : Nat
  node : String
  res : R
  deriving Repr, DecidableEq

/-- A container of the engine. -/
structure Ct where
  id : Nat
  node : String
  running : Bool
  deriving Repr, DecidableEq

/-- Abstract cluster state: the store (nodes, workload records, in-progress markers), the
plugin (capacity and usage per node name), the engine (containers) and the WAL (pending events). -/
structure State (R : Type) where
  nodes : List String
  cap : String → R
  usage : String → R
  wls : List (Wl R)
  cts : List Ct := []
  markers : List (String × Nat) := []          -- (node, count) of the running deployment
  wal : List (String × String × Nat) := []     -- pending (event, node, workload id or 0)
  next : Nat := 0                              -- next fresh container / workload id
  pnodes : List String := []                   -- nodes the resource plugin holds a record of

variable {R : Type} [ResAlg R]

/-- Sum of the resources of the workloads recorded on node `n`. -/
def loadL (ws : List (Wl R)) (n : String) : R :=
  match ws with
  | [] => ResAlg.zero
  | w :: rest => if w.node = n then w.res + loadL rest n else loadL rest n

def load (s : State R) (n : String) : R := loadL s.wls n

/-- **The C10 invariant**: every node's recorded usage equals the sum over the workloads
recorded on it (all four components at once: equality of resource vectors). -/
def Consistent (s : State R) : Prop := ∀ n, s.usage n = load s n

/-- Well-formedness: workload ids are distinct and below the fresh-id counter. -/
def WF (s : State R) : Prop :=
  (s.wls.map (·.id)).Nodup ∧ (∀ w ∈ s.wls, w.id < s.next) ∧ (∀ c ∈ s.cts, c.id < s.next)

/-! ### primitive state updates (the effects of the externally visible steps) -/

def addUsage (n : String) (r : R) (s : State R) : State R :=
  { s with usage := fun m => if m = n then s.usage m + r else s.usage m }

def setCap (n : String) (c : R) (s : State R) : State R :=
  { s with cap := fun m => if m = n then c else s.cap m }

def addWl (w : Wl R) (s : State R) : State R := { s with wls := w :: s.wls }

def rmWl (id : Nat) (s : State R) : State R := { s with wls := s.wls.filter (fun w => w.id != id) }

def setWlRes (id : Nat) (r : R) (s : State R) : State R :=
  { s with wls := s.wls.map (fun w => if w.id = id then { w with res := r } else w) }

/-- plugin `AddNode`: new record with capacity `c`, nothing used -/
def pAddNode (n : String) (c : R) (s : State R) : State R :=
  { s with pnodes := n :: s.pnodes,
           cap := fun m => if m = n then c else s.cap m,
           usage := fun m => if m = n then ResAlg.zero else s.usage m }

/-- plugin `RemoveNode`: the record is deleted (an absent record reads as zero) -/
def pRmNode (n : String) (s : State R) : State R :=
  { s with pnodes := s.pnodes.filter (fun m => m != n),
           cap := fun m => if m = n then ResAlg.zero else s.cap m,
           usage := fun m => if m = n then ResAlg.zero else s.usage m }

def sAddNode (n : String) (s : State R) : State R := { s with nodes := s.nodes ++ [n] }
def sRmNode (n : String) (s : State R) : State R := { s with nodes := s.nodes.filter (fun m => m != n) }

def findWl (s : State R) (id : Nat) : Option (Wl R) := s.wls.find? (fun w => w.id == id)

def addCt (c : Ct) (s : State R) : State R := { s with cts := c :: s.cts, next := max s.next (c.id + 1) }

def rmCt (id : Nat) (s : State R) : State R := { s with cts := s.cts.filter (fun c => c.id != id) }

def setRunning (id : Nat) (b : Bool) (s : State R) : State R :=
  { s with cts := s.cts.map (fun c => if c.id = id then { c with running := b } else c) }

def findCt (s : State R) (id : Nat) : Option Ct := s.cts.find? (fun c => c.id == id)

def addMarker (n : String) (k : Nat) (s : State R) : State R := { s with markers := (n, k) :: s.markers }
def rmMarker (n : String) (s : State R) : State R := { s with markers := s.markers.filter (fun m => m.1 != n) }
def decrMarker (n : String) (s : State R) : State R :=
  { s with markers := s.markers.map (fun m => if m.1 = n then (m.1, m.2 - 1) else m) }
def walAdd (e n : String) (id : Nat) (s : State R) : State R := { s with wal := (e, n, id) :: s.wal }
def walRm (e n : String) (id : Nat) (s : State R) : State R := { s with wal := s.wal.erase (e, n, id) }

/-! ### the concrete four-component resource vector -/

/-- number of per-core slots / NUMA slots of the concrete vector (harness nodes stay below) -/
def nCores : Nat := 16
def nNuma : Nat := 4

structure Res4 where
  cpu : Int
  mem : Int
  cores : Vector Int nCores
  numa : Vector Int nNuma
  deriving DecidableEq, Repr

namespace Res4
def add (a b : Res4) : Res4 := ⟨a.cpu + b.cpu, a.mem + b.mem, Vector.zipWith (· + ·) a.cores b.cores, Vector.zipWith (· + ·) a.numa b.numa⟩
def neg (a : Res4) : Res4 := ⟨-a.cpu, -a.mem, a.cores.map (- ·), a.numa.map (- ·)⟩
def zero : Res4 := ⟨0, 0, Vector.replicate nCores 0, Vector.replicate nNuma 0⟩
/-- capacity check: memory, every core's pieces and every NUMA node's memory stay within
capacity (the scalar CPU amount of unbound requests is not capacity-limited by the plugin) -/
def le (a b : Res4) : Bool :=
  decide (a.mem ≤ b.mem) &&
  (List.range nCores).all (fun i => decide (a.cores.toList.getD i 0 ≤ b.cores.toList.getD i 0)) &&
  (List.range nNuma).all (fun i => decide (a.numa.toList.getD i 0 ≤ b.numa.toList.getD i 0))
end Res4

instance : ResAlg Res4 where
  add := Res4.add
  neg := Res4.neg
  sub a b := Res4.add a (Res4.neg b)
  zero := Res4.zero
  add_assoc a b c := by
    show Res4.add (Res4.add a b) c = Res4.add a (Res4.add b c)
    simp only [Res4.add, Res4.mk.injEq]
    refine ⟨by omega, by omega, ?_, ?_⟩ <;> (apply Vector.ext; intro i hi; simp; omega)
  add_comm a b := by
    show Res4.add a b = Res4.add b a
    simp only [Res4.add, Res4.mk.injEq]
    refine ⟨by omega, by omega, ?_, ?_⟩ <;> (apply Vector.ext; intro i hi; simp; omega)
  zero_add a := by
    show Res4.add Res4.zero a = a
    cases a
    simp only [Res4.add, Res4.zero, Res4.mk.injEq]
    refine ⟨by omega, by omega, ?_, ?_⟩ <;> (apply Vector.ext; intro i hi; simp)
  neg_add a := by
    show Res4.add (Res4.neg a) a = Res4.zero
    simp only [Res4.add, Res4.neg, Res4.zero, Res4.mk.injEq]
    refine ⟨by omega, by omega, ?_, ?_⟩ <;> (apply Vector.ext; intro i hi; simp; omega)
  sub_def a b := rfl

end Eru.Cluster
