import Eru.Cluster.Steps
import Eru.Cluster.Replace
/-
Cluster model: `CreateWorkload` / `doCreateWorkloads` (create.go, after the D12 fix: a
failure inside the condition step gives back what the nodes visited so far were allocated).

The deployment plan and the per-instance resources are the *answers of the strategy and of
the resource layer* and are arguments of the model: `plan` lists, in the order the
condition step visits them, the planned nodes with the resources of each instance.
`planOk = false`: the strategy / capacity calculation refuses (nothing has happened yet).
The Go code runs the nodes and the instances of the then-step concurrently; the model
visits them in plan order (steps of different nodes / instances commute: they touch
disjoint records, and usage updates happen under the pod lock).
-/
namespace Eru.Cluster
variable {R : Type} [ResAlg R]

def sumRes (rs : List R) : R :=
  match rs with
  | [] => ResAlg.zero
  | r :: rest => r + sumRes rest

/-- sum of the entries of an association list recorded for node `n` -/
def sumOn (l : List (String × R)) (n : String) : R :=
  match l with
  | [] => ResAlg.zero
  | (m, r) :: rest => if m = n then r + sumOn rest n else sumOn rest n

structure CreateArgs (R : Type) where
  includes : List String := []          -- NodeFilter.Includes (filterNodes reads each)
  noNodes : Bool := false               -- the node filter selects no node (ErrEmptyNodeMap)
  planOk : Bool := true
  plan : List (String × List R)

/-- the per-node part of the condition step's loop -/
def allocNode (n : String) (rs : List R) : M R Unit := do
  step "pluginAlloc" n (addUsage n (sumRes rs))
  noteAlloc n (sumRes rs)
  step "walLog:create-processing" n (walAdd "create-processing" n 0)
  step "storeCreateProcessing" n (addMarker n rs.length)

/-- condition step of `doCreateWorkloads` (inside `withNodesPodLocked`) -/
def createCond (a : CreateArgs R) : M R Unit := do
  if a.includes.isEmpty then readStep "storeGetNodesByPod" ""
  else forEach a.includes (fun n => readStep "storeGetNode" n)
  if a.noNodes then refuse
  step "walLog:allocate-workload" "" (walAdd "allocate-workload" "" 0)
  readStep "pluginGetDeployCapacity" ""
  readStep "storeGetDeployStatus" ""
  if a.planOk then forEach a.plan (fun p => allocNode p.1 p.2) else refuse

/-- instances of one node, in index order; failed instances are noted for the rollback -/
def deployInsts (n : String) : List R → M R Unit
  | [] => pure ()
  | r :: rest => do
    let s ← getSt
    let id := s.next
    let ok ← attempt (do let _ ← deployOne n r true; pure ())
    if ok then emit ⟨n, id, true⟩ else do noteFailed n r; emit ⟨n, 0, false⟩
    deployInsts n rest

/-- `doDeployWorkloadsOnNode` -/
def deployNode (n : String) (rs : List R) : M R Unit := do
  let ok ← attempt (readStep "storeGetNode" n)       -- doGetAndPrepareNode
  if ok then deployInsts n rs
  else forEach rs (fun r => do noteFailed n r; emit ⟨"", 0, false⟩)   -- anonymous failure messages

/-- then step: `doDeployWorkloads`; fails iff some instance failed -/
def createThen (a : CreateArgs R) : M R Unit := do
  forEach a.plan (fun p => deployNode p.1 p.2)
  let ms ← getMS
  if ms.failed.isEmpty then pure () else refuse

/-- give back `r` on node `n` (under the pod lock: `withNodePodLocked` re-reads the node) -/
def giveBack (n : String) (r : R) : M R Unit := do
  let _ ← attempt (do
    readStep "storeGetNode" n
    step "pluginRollbackAlloc" n (addUsage n (-r)))
  pure ()

/-- rollback of `doCreateWorkloads`: by condition → everything allocated so far; by then →
the failed instances of each node -/
def createRollback (byCond : Bool) : M R Unit := do
  let ms ← getMS
  if byCond then forEach ms.allocd (fun p => giveBack p.1 p.2)
  else forEach (keysOf ms.failed) (fun n => giveBack n (sumOn ms.failed n))   -- one call per node

/-- the body run on the worker pool; deferred calls in Go's reverse order -/
def create (a : CreateArgs R) : M R Unit := do
  let condThen : M R Unit := txn
    (fun flt ms => match createCond a flt ms with
      | (.ok u, ms') => (.ok u, ms')
      | (.fail, ms') => (.fail, { ms' with msgs := ms'.msgs ++ [⟨"", 0, false⟩] }))   -- single error message
    (createThen a)
    (some createRollback)
  let _ ← attempt condThen
  -- defer 3: commit the create-processing events that were logged
  let ms ← getMS
  forEach (a.plan.filter (fun p => ms.tr.contains ("walLog:create-processing", p.1, true))) (fun p => do
    let _ ← attempt (step "walCommit:create-processing" p.1 (walRm "create-processing" p.1 0)); pure ())
  -- defer 2: commit the allocate-workload event if it was logged
  if ms.tr.contains ("walLog:allocate-workload", "", true) then
    let _ ← attempt (step "walCommit:allocate-workload" "" (walRm "allocate-workload" "" 0))
  -- defer 1: delete the markers of every planned node (deployMap is set once the plan exists), close
  let ms ← getMS
  if a.planOk && ms.tr.contains ("storeGetDeployStatus", "", true) then
    forEach a.plan (fun p => do let _ ← attempt (step "storeDeleteProcessing" p.1 (rmMarker p.1)); pure ())

end Eru.Cluster
