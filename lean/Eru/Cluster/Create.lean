import Eru.Cluster.Steps
import Eru.Cluster.Replace
/-
Cluster model: `CreateWorkload` / `doCreateWorkloads` (create.go, after the D12 fix: a
failure inside the condition step gives back what the nodes visited so far were allocated).

The deployment plan and the per-instance resources are the *answers of the strategy and of
the resource layer* and are arguments of the model: `plan` lists, in the order the
condition step visits them, the planned nodes with the resources of each instance.
`planOk = false`: the strategy / capacity calculation refuses (nothing has happened yet).
The Go code runs the nodes and the instances of the then-step concurrently; the model
visits them in plan order (steps of different nodes / instances commute: they touch
disjoint records, and usage updates happen under the pod lock).
-/
namespace Eru.Cluster
variable {R : Type} [ResAlg R]

def sumRes (rs : List R) : R :=
  match rs with
  | [] => ResAlg.zero
  | r :: rest => r + sumRes rest

/-- sum of the entries of an association list recorded for node `n` -/
def sumOn (l : List (String × R)) (n : String) : R :=
  match l with
  | [] => ResAlg.zero
  | (m, r) :: rest => if m = n then r + sumOn rest n else sumOn rest n

structure CreateArgs (R : Type) where
  includes : List String := []          -- NodeFilter.Includes (filterNodes reads each)
  noNodes : Bool := false               -- the node filter selects no node (ErrEmptyNodeMap)
  planOk : Bool := true
  plan : List (String × List R)

/-- the per-node part of the condition step's loop -/
def allocNode (n : String) (rs : List R) : M R Unit := do
  step "pluginAlloc" n (addUsage n (sumRes rs))
  noteAlloc n (sumRes rs)
  step "walLog:create-processing" n (walAdd "create-processing" n 0)
  step "storeCreateProcessing" n (addMarker n rs.length)

/-- `filterNodes`: read the included nodes, or list the pod's nodes -/
def createFilter (a : CreateArgs R) : M R Unit :=
  if a.includes.isEmpty then readStep "storeGetNodesByPod" ""
  else forEach a.includes (fun n => readStep "storeGetNode" n)

/-- `ErrEmptyNodeMap` -/
def guardNodes (a : CreateArgs R) : M R Unit := if a.noNodes then refuse else pure ()

/-- the loop over the deploy map (or the strategy's refusal) -/
def createPlan (a : CreateArgs R) : M R Unit :=
  if a.planOk then forEach a.plan (fun p => allocNode p.1 p.2) else refuse

/-- condition step of `doCreateWorkloads` (inside `withNodesPodLocked`) -/
def createCond (a : CreateArgs R) : M R Unit := do
  createFilter a
  guardNodes a
  step "walLog:allocate-workload" "" (walAdd "allocate-workload" "" 0)
  readStep "pluginGetDeployCapacity" ""
  readStep "storeGetDeployStatus" ""
  createPlan a

/-- the message of one instance; a failed instance is noted for the rollback -/
def instMsg (n : String) (id : Nat) (r : R) (ok : Bool) : M R Unit :=
  if ok then emit ⟨n, id, true, some r⟩ else do noteFailed n r; emit ⟨n, 0, false, none⟩

/-- instances of one node, in index order -/
def deployInsts (n : String) : List R → M R Unit
  | [] => pure ()
  | r :: rest => do
    renew
    let s ← getSt
    let ok ← attempt (do let _ ← deployOne n r true; pure ())
    instMsg n s.next r ok
    deployInsts n rest

/-- a node that cannot be prepared is entered into the rollback map even when nothing was planned on
it (Go: `syncRollbackMap.Set(nodename, utils.Range(0))`), which makes the then-step fail and the
rollback visit the node with nothing to give back -/
def noteNodeFailed (n : String) (rs : List R) : M R Unit :=
  if rs.isEmpty then noteFailed n ResAlg.zero else pure ()

/-- `doDeployWorkloadsOnNode` -/
def deployNode (n : String) (rs : List R) : M R Unit := do
  renew
  let ok ← attempt (readStep "storeGetNode" n)       -- doGetAndPrepareNode
  if ok then deployInsts n rs
  else do
    noteNodeFailed n rs
    forEach rs (fun r => do noteFailed n r; emit ⟨"", 0, false, none⟩)   -- anonymous failure messages

/-- then step: `doDeployWorkloads`; fails iff some instance failed -/
def createThen (a : CreateArgs R) : M R Unit := do
  forEach a.plan (fun p => deployNode p.1 p.2)
  let ms ← getMS
  if ms.failed.isEmpty then pure () else refuse

/-- give back `r` on node `n` (under the pod lock: `withNodePodLocked` re-reads the node) -/
def giveBack (n : String) (r : R) : M R Unit := do
  let _ ← attempt (do
    readStep "storeGetNode" n
    step "pluginRollbackAlloc" n (addUsage n (-r)))
  pure ()

def hasKey (l : List (String × R)) (n : String) : Bool := l.any (fun p => p.1 == n)

/-- rollback of `doCreateWorkloads`: by condition → everything allocated so far; by then →
for every planned node with failed instances, one call giving back their resources -/
def createRollback (a : CreateArgs R) (byCond : Bool) : M R Unit := do
  let ms ← getMS
  if byCond then forEach ms.allocd (fun p => giveBack p.1 p.2)
  else forEach (a.plan.filter (fun p => hasKey ms.failed p.1)) (fun p => giveBack p.1 (sumOn ms.failed p.1))

/-- `utils.Txn(cond, then, rollback)` of `doCreateWorkloads`; a failing condition step sends the
single error message -/
def createTxn (a : CreateArgs R) : M R Unit :=
  txn (withFailMsg (createCond a) ⟨"", 0, false, none⟩) (createThen a) (some (createRollback a))

/-- deferred: commit the create-processing events that were logged -/
def commitProcessing (a : CreateArgs R) : M R Unit := do
  let ms ← getMS
  forEach (a.plan.filter (fun p => ms.tr.contains ("walLog:create-processing", p.1, true))) (fun p => do
    let _ ← attempt (step "walCommit:create-processing" p.1 (walRm "create-processing" p.1 0)); pure ())

/-- deferred: commit the allocate-workload event if it was logged -/
def commitAllocated : M R Unit := do
  let ms ← getMS
  if ms.tr.contains ("walLog:allocate-workload", "", true) then
    let _ ← attempt (step "walCommit:allocate-workload" "" (walRm "allocate-workload" "" 0))
    pure ()
  else pure ()

/-- deferred: delete the markers of every planned node (`deployMap` is set once the plan exists) -/
def deleteMarkers (a : CreateArgs R) : M R Unit := do
  let ms ← getMS
  if a.planOk && ms.tr.contains ("storeGetDeployStatus", "", true) then
    forEach a.plan (fun p => do let _ ← attempt (step "storeDeleteProcessing" p.1 (rmMarker p.1)); pure ())
  else pure ()

/-- the body run on the worker pool; deferred calls in Go's reverse order of registration (the
markers are deleted BEFORE their WAL events are committed, /repo 3c42b65) -/
def create (a : CreateArgs R) : M R Unit := do
  let _ ← attempt (createTxn a)
  withDetached (deleteMarkers a)        -- deferred calls use a context detached from the request's
  withDetached (commitProcessing a)
  withDetached commitAllocated

end Eru.Cluster
