import Eru.Cluster.ProofsCreate
/-
C11 at the model level: the part of an operation that reports failure leaves the abstract
projection (nodes, capacity, usage, workload records up to order) as it was.
-/
set_option linter.unusedSectionVars false
set_option linter.unusedSimpArgs false
namespace Eru.Cluster
variable {R : Type} [ResAlg R]
open ResAlg

/-- same nodes, capacity, usage and the same set of workload records -/
def AbsEq (s s' : State R) : Prop :=
  s'.nodes = s.nodes ∧ s'.cap = s.cap ∧ s'.usage = s.usage ∧ ∀ w, w ∈ s'.wls ↔ w ∈ s.wls

theorem AbsEq.refl (s : State R) : AbsEq s s := ⟨rfl, rfl, rfl, fun _ => Iff.rfl⟩

theorem mem_readd {ws : List (Wl R)} {w : Wl R} (hnd : (ws.map (·.id)).Nodup) (hw : w ∈ ws) (x : Wl R) :
    x ∈ w :: ws.filter (fun y => y.id != w.id) ↔ x ∈ ws := by
  constructor
  · intro h
    rcases List.mem_cons.mp h with rfl | h
    · exact hw
    · exact (List.mem_filter.mp h).1
  · intro h
    by_cases hx : x.id = w.id
    · rw [eq_of_id_eq hnd h hw hx]; exact List.mem_cons_self ..
    · exact List.mem_cons_of_mem _ (List.mem_filter.mpr ⟨h, by simpa using hx⟩)

/-- **remove**: a failed removal of `w` (any single fault) leaves nodes, capacity, usage, records
and containers as they were -/
theorem removeTxn_failed_no_effect (w : Wl R) (flt : Option Addr) (ms : MS R)
    (hnd : (ms.st.wls.map (·.id)).Nodup) (hw : w ∈ ms.st.wls) :
    wp (removeTxn w) (fun o ms' => o = .fail → AbsEq ms.st ms'.st ∧ ms'.st.cts = ms.st.cts) flt ms := by
  apply wp_mono (removeTxn_spec w flt ms)
  intro o ms' hp hfail
  obtain ⟨hc, hn, _, hp⟩ := hp
  rcases hp with ⟨ho, _⟩ | ⟨_, hu, hct, hws⟩
  · rw [hfail] at ho; cases ho
  · refine ⟨⟨hn, hc, hu, fun x => ?_⟩, hct⟩
    rcases hws with e | e
    · rw [e]
    · rw [e]; exact mem_readd hnd hw x

/-- **dissociate** -/
theorem dissociateTxn_failed_no_effect (w : Wl R) (flt : Option Addr) (ms : MS R) :
    wp (dissociateTxn w) (fun o ms' => o = .fail → AbsEq ms.st ms'.st ∧ ms'.st.cts = ms.st.cts) flt ms := by
  apply wp_mono (dissociateTxn_spec w flt ms)
  intro o ms' hp hfail
  obtain ⟨hc, hn, _, hct, hp⟩ := hp
  rcases hp with ⟨ho, _⟩ | ⟨_, hu, hws⟩
  · rw [hfail] at ho; cases ho
  · exact ⟨⟨hn, hc, hu, fun x => by rw [hws]⟩, hct⟩

/-- **realloc** (after the D11 fix): a failed realloc leaves everything as it was -/
theorem doReallocOnNode_failed_no_effect (w : Wl R) (answer : Option (R × R)) (flt : Option Addr) (ms : MS R)
    (hnd : (ms.st.wls.map (·.id)).Nodup) (hw : w ∈ ms.st.wls) :
    wp (doReallocOnNode w answer) (fun o ms' => o = .fail → AbsEq ms.st ms'.st ∧ ms'.st.cts = ms.st.cts) flt ms := by
  apply wp_mono (doReallocOnNode_spec w answer flt ms)
  intro o ms' hp hfail
  obtain ⟨hc, hn, _, hct, hp⟩ := hp
  rcases hp with ⟨_, _, _, ho, _⟩ | ⟨_, hu, hws⟩
  · rw [hfail] at ho; cases ho
  · refine ⟨⟨hn, hc, hu, fun x => ?_⟩, hct⟩
    rcases hws with e | e
    · rw [e]
    · rw [e, setWlRes_wls, map_set_self hnd hw]

/-- **set-node** (after the D25 fix): usage and records are never touched; a failed call leaves
the capacity as it was, a successful one installs the new capacity -/
theorem setNode_spec (n : String) (newCap : Option R) (flt : Option Addr) (ms : MS R) :
    wp (setNode n newCap true) (fun o ms' =>
      ms'.st.usage = ms.st.usage ∧ ms'.st.wls = ms.st.wls ∧ ms'.st.nodes = ms.st.nodes ∧ ms'.st.cts = ms.st.cts ∧
      (o = .fail → ms'.st.cap = ms.st.cap) ∧
      (o = .ok () → ms'.st.cap = match newCap with | none => ms.st.cap | some c => (setCap n c ms.st).cap)) flt ms := by
  cases newCap with
  | none =>
    unfold setNode
    wp_simp
    split
    · simp
    · split
      · simp
      · split
        · simp
        · split <;> simp
  | some c =>
    unfold setNode
    wp_simp
    split
    · simp
    · split
      · simp
      · split
        · simp
        · split
          · simp [setCap]
            funext m
            by_cases h : m = n <;> simp [h]
          · split <;> simp

theorem setNode_failed_no_effect (n : String) (newCap : Option R) (flt : Option Addr) (ms : MS R) :
    wp (setNode n newCap true) (fun o ms' => o = .fail → AbsEq ms.st ms'.st) flt ms := by
  apply wp_mono (setNode_spec n newCap flt ms)
  intro o ms' hp hfail
  obtain ⟨hu, hw, hn, _, hc, _⟩ := hp
  exact ⟨hn, hc hfail, hu, fun x => by rw [hw]⟩

/-! ### replace -/

theorem mem_setRunning {cts : List Ct} {c : Ct} (id : Nat) (b : Bool) (hc : c ∈ cts) (hid : c.id = id) :
    (⟨c.id, c.node, b⟩ : Ct) ∈ cts.map (fun x => if x.id = id then { x with running := b } else x) := by
  refine List.mem_map.mpr ⟨c, hc, ?_⟩
  simp [hid]

/-- what a FAILED replace of `w` guarantees -/
def ReplaceFailPost (w : Wl R) (s s' : State R) : Prop :=
  AbsEq s s' ∧ ∀ c ∈ s.cts, c.id = w.id → (⟨c.id, c.node, true⟩ : Ct) ∈ s'.cts ∨ (c ∈ s'.cts)

/-- **replace, partial (D13)**: when the plan does not hit the removal of the old workload, a failed
replace leaves nodes, capacity, usage and records as they were; the old workload's container
is still there — restarted if it had been stopped (`⟨id, node, true⟩`), untouched otherwise. -/
theorem doReplaceWorkload_failed_partial (w : Wl R) (flt : Option Addr) (hG : ReplaceGuard flt) (ms : MS R)
    (h : Inv ms.st) (hw : w ∈ ms.st.wls) :
    wp (doReplaceWorkload w) (fun o ms' => o = .fail → ReplaceFailPost w ms.st ms'.st) flt ms := by
  unfold doReplaceWorkload
  rw [wp_bind, wp_readStep]
  split
  · intro _
    exact ⟨AbsEq.refl _, fun c hc _ => Or.inr hc⟩
  · simp only [wpK_ok]
    rw [wp_bind, wp_getSt]
    simp only [wpK_ok]
    rw [wp_bind, wp_txn, wp_step]
    have hnext : w.id < ms.st.next := h.2.1 w hw
    split
    · -- engineStop hit: the rollback starts the container again
      simp only [txnK1_fail_some, wpK_fail, exec_withDetached, exec_step, setDet_fired, hit_fired, failMS_fired, Bool.false_eq_true, if_false]
      intro _
      refine ⟨⟨rfl, rfl, rfl, fun _ => Iff.rfl⟩, fun c hc hid => Or.inl ?_⟩
      exact mem_setRunning w.id true hc hid
    · simp only [txnK1_ok_some]
      generalize hms2 : okMS ms "storeGetNode" w.node id = ms1
      have e1 : ms1.st = ms.st := by rw [← hms2]; rfl
      generalize hms3 : okMS ms1 "engineStop" w.node (setRunning w.id false) = ms2
      have e2u : ms2.st.usage = ms.st.usage := by rw [← hms3]; simp [e1]
      have e2w : ms2.st.wls = ms.st.wls := by rw [← hms3]; simp [e1]
      have e2c : ms2.st.cap = ms.st.cap := by rw [← hms3]; simp [e1]
      have e2n : ms2.st.nodes = ms.st.nodes := by rw [← hms3]; simp [e1]
      have e2x : ms2.st.next = ms.st.next := by rw [← hms3]; simp [e1]
      have e2t : ms2.st.cts = (setRunning w.id false ms.st).cts := by rw [← hms3]; simp [e1]
      rw [wp_txn, wp_bind]
      apply wp_mono (deployOne_spec w.node w.res false flt ms2)
      intro o3 ms3 h3
      rcases h3 with ⟨rfl, hp⟩ | ⟨rfl, hp⟩
      · obtain ⟨_, _, _, _, _, _, _, _, hp⟩ := hp
        rcases hp with ⟨_, _, _, _⟩ | ⟨hb, _⟩
        · simp only [wpK_ok, wp_pure, txnK1_ok_none]
          rw [wp_withDetached]
          apply wp_mono (doRemoveWorkload_guarded w flt hG (setDet ms3 true) rfl)
          intro o4 ms4 h4
          obtain ⟨rfl, _⟩ := h4
          simp only [txnK2_ok, wpK_ok, wp_pure]
          intro hc; cases hc
        · cases hb
      · obtain ⟨hc3, hn3, hu3, _, _, _, _, _, hp⟩ := hp
        rcases hp with ⟨hb, _⟩ | ⟨_, hf3, hws3, hcts3⟩
        · cases hb
        · simp only [wpK_fail, txnK1_fail_none, txnK2_fail_some, exec_withDetached, exec_step, setDet_fired, hf3, hit_fired,
            Bool.false_eq_true, if_false]
          intro _
          have hws : ms3.st.wls = ms.st.wls := by
            rcases hws3 with e | e
            · rw [e, e2w]
            · rw [e, e2w, e2x, filter_fresh h.2.1]
          refine ⟨⟨by simp [hn3, e2n], by simp [hc3, e2c], by simp [hu3, e2u], fun x => by simp [hws]⟩,
            fun c hc hid => Or.inl ?_⟩
          simp only [setDet_st, okMS_st, setRunning_cts]
          have hstop : (⟨c.id, c.node, false⟩ : Ct) ∈ ms2.st.cts := by
            rw [e2t]; exact mem_setRunning w.id false hc hid
          have hin3 : (⟨c.id, c.node, false⟩ : Ct) ∈ ms3.st.cts := by
            rcases hcts3 with e | e
            · rw [e]; exact hstop
            · rw [e]
              refine List.mem_filter.mpr ⟨hstop, ?_⟩
              simp only [bne_iff_ne, ne_eq]
              rw [hid, e2x]; omega
          exact mem_setRunning (c := ⟨c.id, c.node, false⟩) w.id true hin3 hid

/-! ### create: the all-or-nothing part -/

/-- a step that does not touch the workload records -/
theorem pres_wls_step (w0 : List (Wl R)) (k n : String) (eff : State R → State R) (he : ∀ s, (eff s).wls = s.wls) :
    Pres (onSt (fun s : State R => s.wls = w0)) (step k n eff) :=
  pres_step _ _ _ (fun s h => by rw [he s]; exact h)

theorem createCond_keeps_wls (a : CreateArgs R) (w0 : List (Wl R)) :
    Pres (onSt (fun s : State R => s.wls = w0)) (createCond a) := by
  have rd : ∀ k n, Pres (onSt (fun s : State R => s.wls = w0)) (readStep k n) :=
    fun k n => pres_wls_step w0 k n id (fun _ => rfl)
  unfold createCond
  apply pres_bind
  · unfold createFilter
    exact pres_ite _ (rd _ _) (pres_forEach _ (fun n _ => rd _ _))
  intro _
  apply pres_bind
  · unfold guardNodes
    exact pres_ite _ (pres_refuse _) (pres_pure _ _)
  intro _
  apply pres_bind (pres_wls_step w0 _ _ (walAdd _ _ _) (fun _ => rfl)); intro _
  apply pres_bind (rd _ _); intro _
  apply pres_bind (rd _ _); intro _
  unfold createPlan
  apply pres_ite
  · apply pres_forEach
    intro p _
    unfold allocNode
    apply pres_bind (pres_wls_step w0 _ _ (addUsage _ _) (fun _ => rfl)); intro _
    apply pres_bind (fun _ _ h => h); intro _
    apply pres_bind (pres_wls_step w0 _ _ (walAdd _ _ _) (fun _ => rfl)); intro _
    exact pres_wls_step w0 _ _ (addMarker _ _) (fun _ => rfl)
  · exact pres_refuse _

theorem rollbackCond_keeps_wls (a : CreateArgs R) (w0 : List (Wl R)) :
    Pres (onSt (fun s : State R => s.wls = w0)) (createRollback a true) := by
  unfold createRollback
  apply pres_bind (fun _ _ h => h)
  intro msx
  simp only [if_true]
  apply pres_forEach
  intro p _
  unfold giveBack
  apply pres_bind
  · apply pres_attempt
    exact pres_bind (pres_wls_step w0 _ _ id (fun _ => rfl)) (fun _ => pres_wls_step w0 _ _ (addUsage _ _) (fun _ => rfl))
  · intro _; exact pres_pure _ _

/-- **create, condition step** (after the D12 fix): if the condition step fails — at the allocation
of any node, a WAL write, a marker write — then after the rollback `utils.Txn` runs the
workload records and every node's usage are exactly what they were. -/
theorem createCond_failure_restores (a : CreateArgs R) (flt : Option Addr) (ms : MS R) (h : P0 ms) :
    wp (createCond a) (fun o ms1 => o = .fail →
      (exec (withDetached (createRollback a true)) flt ms1).st.wls = ms.st.wls ∧
      (exec (withDetached (createRollback a true)) flt ms1).st.usage = ms.st.usage) flt ms := by
  have h1 := createCond_spec a flt ms h
  have h2 := createCond_keeps_wls a ms.st.wls flt ms rfl
  unfold wp at h1 h2 ⊢
  intro hfail
  rw [hfail] at h1
  have hF : F1 flt (setDet (createCond a flt ms).2 true) := h1
  have hinv : Inv (exec (createRollback a true) flt (setDet (createCond a flt ms).2 true)).st :=
    rollbackCond_inv a flt _ hF rfl
  have hw : (exec (createRollback a true) flt (setDet (createCond a flt ms).2 true)).st.wls = ms.st.wls :=
    rollbackCond_keeps_wls a ms.st.wls flt (setDet (createCond a flt ms).2 true) h2
  simp only [exec_withDetached, setDet_st]
  refine ⟨hw, ?_⟩
  funext m
  have e1 := hinv.2.2 m
  have e0 := h.1.2.2 m
  unfold load at e1 e0
  rw [e1, hw, ← e0]

end Eru.Cluster
