import Eru.Cluster.ProofsSerial
/-
C11 at the API level: the reads the API wrappers put in front of the transactions cannot change
the state, so "the call / the message reports failure ⇒ nothing changed" lifts from the inner
transactions to `realloc`, `replace`, `remove`, `dissociate`.
-/
set_option linter.unusedSectionVars false
set_option linter.unusedSimpArgs false
namespace Eru.Cluster
variable {R : Type} [ResAlg R]
open ResAlg

/-- `withWorkloadLocked` with a post-condition `Q` that holds trivially when nothing happened -/
theorem wp_withWorkloadLocked_post (node : String) (id : Nat) (body : Wl R → M R Unit) (flt : Option Addr)
    (Q : State R → Out Unit → MS R → Prop)
    (hsame : ∀ (s : State R) (ms' : MS R), ms'.st = s → Q s .fail ms')
    (hb : ∀ w (ms : MS R), w ∈ ms.st.wls → w.id = id → wp (body w) (Q ms.st) flt ms)
    (ms : MS R) : wp (withWorkloadLocked node id body) (Q ms.st) flt ms := by
  unfold withWorkloadLocked
  rw [wp_bind]
  apply wp_mono (wp_readStep_st _ _ flt ms)
  intro o ms1 h1
  cases o with
  | fail => exact hsame _ ms1 h1
  | ok u =>
    simp only [wpK_ok]
    rw [wp_bind, wp_getSt]
    simp only [wpK_ok]
    cases hf : findWl ms1.st id with
    | none => exact hsame _ ms1 h1
    | some w =>
      have := mem_of_findWl hf
      have hq := hb w ms1 this.1 this.2
      rw [h1] at hq
      exact hq

/-- **realloc, API level**: `ReallocResource` returns an error ⇒ nothing changed -/
theorem realloc_failed (node : String) (id : Nat) (answer : Option (R × R)) (flt : Option Addr) (ms : MS R)
    (hnd : (ms.st.wls.map (·.id)).Nodup) :
    wp (realloc node id answer) (fun o ms' => o = .fail → AbsEq ms.st ms'.st ∧ ms'.st.cts = ms.st.cts) flt ms := by
  have same : ∀ ms' : MS R, ms'.st = ms.st → AbsEq ms.st ms'.st ∧ ms'.st.cts = ms.st.cts := by
    intro ms' e; rw [e]; exact ⟨AbsEq.refl _, rfl⟩
  unfold realloc
  rw [wp_bind]
  apply wp_mono (wp_readStep_st _ _ flt ms)
  intro o ms1 h1
  cases o with
  | fail => intro _; exact same ms1 h1
  | ok u =>
    simp only [wpK_ok]
    rw [wp_bind, wp_getSt]
    simp only [wpK_ok]
    cases hf : findWl ms1.st id with
    | none => intro _; exact same ms1 h1
    | some w0 =>
      simp only
      rw [wp_bind]
      apply wp_mono (wp_readStep_st _ _ flt ms1)
      intro o2 ms2 h2
      have hst : ms2.st = ms.st := h2.trans h1
      cases o2 with
      | fail => intro _; exact same ms2 hst
      | ok u2 =>
        simp only [wpK_ok]
        have := wp_withWorkloadLocked_post w0.node id (fun w => doReallocOnNode w answer) flt
          (fun s o ms' => (s.wls.map (·.id)).Nodup → o = .fail → AbsEq s ms'.st ∧ ms'.st.cts = s.cts)
          (fun s ms' e _ _ => by rw [e]; exact ⟨AbsEq.refl _, rfl⟩)
          (fun w msx hw _ => by
            have := doReallocOnNode_failed_no_effect w answer flt msx
            unfold wp at this ⊢
            intro hnd' hfail
            exact this hnd' hw hfail) ms2
        rw [hst] at this
        exact wp_mono this (fun o ms' h' hfail => h' hnd hfail)

/-- **replace, API level (partial, D13)**: the message the call sends is the last one of the stream;
if it reports failure, `ReplaceFailPost` holds for the workload that was to be replaced -/
theorem replace_failed_partial (node : String) (id : Nat) (flt : Option Addr) (hG : ReplaceGuard flt) (ms : MS R)
    (h : Inv ms.st) :
    wp (replace node id) (fun _ ms' => ∃ ok, ms'.msgs.getLast? = some ⟨node, id, ok, none⟩ ∧
      (ok = false → ∀ w ∈ ms.st.wls, w.id = id → ReplaceFailPost w ms.st ms'.st)) flt ms := by
  unfold replace
  rw [wp_bind, wp_attempt]
  have := wp_withWorkloadLocked_post node id (fun w => do let _ ← doReplaceWorkload w; pure ()) flt
    (fun s o ms' => Inv s → o = .fail → ∀ w ∈ s.wls, w.id = id → ReplaceFailPost w s ms'.st)
    (fun s ms' e _ _ w _ _ => by rw [e]; exact ⟨AbsEq.refl _, fun c hc _ => Or.inr hc⟩)
    (fun w msx hw hid => by
      rw [wp_bind]
      have h1 := doReplaceWorkload_failed_partial w flt hG msx
      unfold wp at h1 ⊢
      cases hres : (doReplaceWorkload w flt msx).1 with
      | ok v =>
        simp only [wpK, hres, wp]
        intro _ hc; cases hc
      | fail =>
        simp only [wpK, hres]
        intro hinv _ w' hw' hid'
        have : w' = w := eq_of_id_eq hinv.1 hw' hw (hid'.trans hid.symm)
        subst this
        exact h1 hinv hw' hres) ms
  apply wp_mono this
  intro o ms1 h1
  cases o with
  | ok u =>
    simp only [attK_ok, wpK_ok, wp_emit]
    exact ⟨true, by simp, fun hc => by cases hc⟩
  | fail =>
    simp only [attK_fail, wpK_ok, wp_emit]
    exact ⟨false, by simp, fun _ => h1 h rfl⟩

/-! ### remove / dissociate at the API level -/

theorem wp_and {α} {m : M R α} {Q1 Q2 : Out α → MS R → Prop} {flt : Option Addr} {ms : MS R}
    (h1 : wp m Q1 flt ms) (h2 : wp m Q2 flt ms) : wp m (fun o ms' => Q1 o ms' ∧ Q2 o ms') flt ms := ⟨h1, h2⟩

theorem removeTxn_msgs (w : Wl R) (flt : Option Addr) (ms : MS R) :
    wp (removeTxn w) (fun _ ms' => ms'.msgs = ms.msgs) flt ms := by
  unfold removeTxn doRemoveWorkload
  wp_simp
  repeat' split
  all_goals simp

theorem dissociateTxn_msgs (w : Wl R) (flt : Option Addr) (ms : MS R) :
    wp (dissociateTxn w) (fun _ ms' => ms'.msgs = ms.msgs) flt ms := by
  unfold dissociateTxn
  wp_simp
  repeat' split
  all_goals simp

/-- what a per-workload release transaction guarantees about the record list -/
def ReleaseWls (w : Wl R) (ms : MS R) (o : Out Unit) (ms' : MS R) : Prop :=
  ms'.msgs = ms.msgs ∧
  (o = .ok () → ms'.st.wls = ms.st.wls.filter (fun x => x.id != w.id)) ∧
  (o = .fail → ∀ x, x ∈ ms'.st.wls ↔ x ∈ ms.st.wls)

theorem removeTxn_wls (w : Wl R) (flt : Option Addr) (ms : MS R) (hnd : (ms.st.wls.map (·.id)).Nodup)
    (hw : w ∈ ms.st.wls) : wp (removeTxn w) (ReleaseWls w ms) flt ms := by
  have h1 := removeTxn_spec w flt ms
  have h2 := removeTxn_msgs w flt ms
  unfold wp at h1 h2 ⊢
  obtain ⟨_, _, _, hp⟩ := h1
  refine ⟨h2, ?_, ?_⟩
  · intro ho
    rcases hp with ⟨_, _, hws, _⟩ | ⟨hf, _⟩
    · exact hws
    · rw [ho] at hf; cases hf
  · intro ho x
    rcases hp with ⟨hk, _⟩ | ⟨_, _, _, hws⟩
    · rw [ho] at hk; cases hk
    · rcases hws with e | e
      · rw [e]
      · rw [e]; exact mem_readd hnd hw x

theorem dissociateTxn_wls (w : Wl R) (flt : Option Addr) (ms : MS R) (_hnd : (ms.st.wls.map (·.id)).Nodup)
    (_hw : w ∈ ms.st.wls) : wp (dissociateTxn w) (ReleaseWls w ms) flt ms := by
  have h1 := dissociateTxn_spec w flt ms
  have h2 := dissociateTxn_msgs w flt ms
  unfold wp at h1 h2 ⊢
  obtain ⟨_, _, _, _, hp⟩ := h1
  refine ⟨h2, ?_, ?_⟩
  · intro ho
    rcases hp with ⟨_, _, hws⟩ | ⟨hf, _⟩
    · exact hws
    · rw [ho] at hf; cases hf
  · intro ho x
    rcases hp with ⟨hk, _⟩ | ⟨_, _, hws⟩
    · rw [ho] at hk; cases hk
    · rw [hws]

/-- the records after the messages sent so far: exactly the initial ones minus those reported removed -/
def RmInv (s0 : State R) (ms : MS R) : Prop :=
  Inv ms.st ∧ ∀ x, x ∈ ms.st.wls ↔ (x ∈ s0.wls ∧ ¬ x.id ∈ okIds ms.msgs)

theorem removeOne_rmInv (body : Wl R → M R Unit) (s0 : State R) (node : String) (wid : Nat) (flt : Option Addr)
    (hinv : ∀ w flt (ms : MS R), Inv ms.st → w ∈ ms.st.wls → wp (body w) (fun _ ms' => Inv ms'.st) flt ms)
    (hwls : ∀ w (ms : MS R), (ms.st.wls.map (·.id)).Nodup → w ∈ ms.st.wls → wp (body w) (ReleaseWls w ms) flt ms)
    (ms : MS R) (h : RmInv s0 ms) : wp (removeOne body node wid) (fun _ ms' => RmInv s0 ms') flt ms := by
  unfold removeOne
  rw [wp_bind, wp_renew]
  simp only [wpK_ok]
  have h : RmInv s0 (renewMS flt ms) := ⟨by simpa using h.1, fun x => by simpa using h.2 x⟩
  generalize renewMS flt ms = ms at h ⊢
  rw [wp_bind, wp_attempt]
  -- Inv part and record part of the locked body, together
  have hI := pres_withWorkloadLocked node wid body (fun w flt ms h hw _ => hinv w flt ms h hw) flt ms h.1
  have hW : wp (withWorkloadLocked node wid body) (fun o ms' => ms'.msgs = ms.msgs ∧
      (o = .ok () → ms'.st.wls = ms.st.wls.filter (fun x => x.id != wid)) ∧
      (o = .fail → ∀ x, x ∈ ms'.st.wls ↔ x ∈ ms.st.wls)) flt ms := by
    unfold withWorkloadLocked
    rw [wp_bind, wp_readStep]
    split
    · exact ⟨rfl, (fun hc => by cases hc), fun _ _ => Iff.rfl⟩
    · simp only [wpK_ok]
      rw [wp_bind, wp_getSt]
      simp only [wpK_ok, okMS_st, id]
      cases hf : findWl ms.st wid with
      | none => exact ⟨rfl, (fun hc => by cases hc), fun _ _ => Iff.rfl⟩
      | some w =>
        have hm := mem_of_findWl hf
        have := hwls w (okMS ms "storeGetWorkloads" node id) h.1.1 hm.1
        rw [← hm.2]
        exact this
  apply wp_mono (wp_and hI hW)
  intro o ms1 h1
  obtain ⟨hinv1, hmsgs, hok, hfail⟩ := h1
  cases o with
  | ok u =>
    simp only [attK_ok, wpK_ok, wp_emit]
    refine ⟨hinv1, fun x => ?_⟩
    simp only [hmsgs, okIds_append_ok _ (⟨node, wid, true, none⟩ : Msg R) rfl, List.mem_append, List.mem_singleton]
    rw [hok rfl, List.mem_filter, h.2 x]
    simp only [bne_iff_ne, ne_eq, decide_not, Bool.not_eq_true', decide_eq_false_iff_not]
    constructor
    · rintro ⟨⟨h1, h2⟩, h3⟩
      exact ⟨h1, fun hc => hc.elim h2 h3⟩
    · rintro ⟨h1, h2⟩
      exact ⟨⟨h1, fun hc => h2 (Or.inl hc)⟩, fun hc => h2 (Or.inr hc)⟩
  | fail =>
    simp only [attK_fail, wpK_ok, wp_emit]
    refine ⟨hinv1, fun x => ?_⟩
    simp only [hmsgs, okIds_append_fail _ (⟨node, wid, false, none⟩ : Msg R) rfl]
    rw [hfail rfl x, h.2 x]

theorem removeLike_rmInv (body : Wl R → M R Unit) (failMsg : Bool) (firstNode : String) (groups : List (String × List Nat))
    (flt : Option Addr)
    (hinv : ∀ w flt (ms : MS R), Inv ms.st → w ∈ ms.st.wls → wp (body w) (fun _ ms' => Inv ms'.st) flt ms)
    (hwls : ∀ w (ms : MS R), (ms.st.wls.map (·.id)).Nodup → w ∈ ms.st.wls → wp (body w) (ReleaseWls w ms) flt ms)
    (s0 : State R) (ms : MS R) (h : RmInv s0 ms) :
    wp (removeLike body failMsg firstNode groups) (fun _ ms' => RmInv s0 ms') flt ms := by
  have keep : ∀ (ms1 : MS R) (k n : String), RmInv s0 ms1 → RmInv s0 (okMS ms1 k n id) ∧ RmInv s0 (failMS ms1 k n) :=
    fun ms1 k n h1 => ⟨h1, h1⟩
  -- a flt-specific "preserves" for the loop bodies
  have one : ∀ node wid ms1, RmInv s0 ms1 → wp (removeOne body node wid) (fun _ ms' => RmInv s0 ms') flt ms1 :=
    fun node wid ms1 h1 => removeOne_rmInv body s0 node wid flt hinv hwls ms1 h1
  have loopIds : ∀ node (ids : List Nat) ms1, RmInv s0 ms1 →
      wp (forEach ids (removeOne body node)) (fun _ ms' => RmInv s0 ms') flt ms1 := by
    intro node ids
    induction ids with
    | nil => intro ms1 h1; exact h1
    | cons i rest ih =>
      intro ms1 h1
      show wp (removeOne body node i >>= fun _ => forEach rest _) _ flt ms1
      rw [wp_bind]
      apply wp_mono (one node i ms1 h1)
      intro o ms2 h2
      cases o with
      | ok u => exact ih ms2 h2
      | fail => exact h2
  have onNode : ∀ (g : String × List Nat) ms1, RmInv s0 ms1 →
      wp (removeOnNode body failMsg g.1 g.2) (fun _ ms' => RmInv s0 ms') flt ms1 := by
    intro g ms1 h1
    unfold removeOnNode
    rw [wp_bind, wp_renew]
    simp only [wpK_ok]
    have h1 : RmInv s0 (renewMS flt ms1) := ⟨by simpa using h1.1, fun x => by simpa using h1.2 x⟩
    generalize renewMS flt ms1 = ms1 at h1 ⊢
    rw [wp_bind, wp_attempt, wp_readStep]
    split
    · simp only [attK_fail, wpK_ok, Bool.false_eq_true, if_false]
      rw [wp_ite]
      split
      · simp only [wp_emit]
        refine ⟨h1.1, fun x => ?_⟩
        simp only [failMS_msgs, failMS_st, okIds_append_fail _ (⟨"", 0, false, none⟩ : Msg R) rfl]
        exact h1.2 x
      · exact h1
    · simp only [attK_ok, wpK_ok, if_true]
      exact loopIds g.1 g.2 _ (keep ms1 _ _ h1).1
  unfold removeLike
  rw [wp_bind, wp_readStep]
  split
  · exact (keep ms _ _ h).2
  · simp only [wpK_ok]
    rw [wp_bind, wp_getSt]
    simp only [wpK_ok]
    rw [wp_ite]
    split
    · rename_i hall
      clear hall
      have h' := (keep ms "storeGetWorkloads" firstNode h).1
      generalize okMS ms "storeGetWorkloads" firstNode id = msA at h' ⊢
      clear h
      induction groups generalizing msA with
      | nil => exact h'
      | cons g rest ih =>
        show wp (removeOnNode body failMsg g.1 g.2 >>= fun _ => forEach rest _) _ flt msA
        rw [wp_bind]
        apply wp_mono (onNode g msA h')
        intro o ms2 h2
        cases o with
        | ok u => exact ih ms2 h2
        | fail => exact h2
    · exact (keep ms _ _ h).1

end Eru.Cluster
