import Eru.Cluster.ProofsNode
/-
Interleavings of operations whose usage-changing sections are atomic blocks (critical sections
under the same pod lock): every interleaving is a sequence of blocks, so whatever each block
preserves is preserved, and two single-block operations end in one of the two sequential orders.
-/
set_option linter.unusedSectionVars false
namespace Eru.Cluster
variable {R : Type}

/-- all interleavings of two block sequences (each sequence keeps its own order) -/
def merges {α : Type} : List α → List α → List (List α)
  | [], ys => [ys]
  | x :: xs, [] => [x :: xs]
  | x :: xs, y :: ys => (merges xs (y :: ys)).map (x :: ·) ++ (merges (x :: xs) ys).map (y :: ·)
termination_by xs ys => xs.length + ys.length

def runBlocks (bs : List (State R → State R)) (s : State R) : State R := bs.foldl (fun s f => f s) s

theorem mem_of_mem_merges {α : Type} : ∀ (xs ys sched : List α), sched ∈ merges xs ys → ∀ b ∈ sched, b ∈ xs ∨ b ∈ ys := by
  intro xs ys
  induction xs, ys using merges.induct with
  | case1 ys =>
    intro sched h b hb
    simp only [merges, List.mem_singleton] at h
    exact Or.inr (h ▸ hb)
  | case2 x xs =>
    intro sched h b hb
    simp only [merges, List.mem_singleton] at h
    exact Or.inl (h ▸ hb)
  | case3 x xs y ys ih1 ih2 =>
    intro sched h b hb
    simp only [merges, List.mem_append, List.mem_map] at h
    rcases h with ⟨t, ht, rfl⟩ | ⟨t, ht, rfl⟩
    · rcases List.mem_cons.mp hb with rfl | hb
      · exact Or.inl (List.mem_cons_self ..)
      · rcases ih1 t ht b hb with h' | h'
        · exact Or.inl (List.mem_cons_of_mem _ h')
        · exact Or.inr h'
    · rcases List.mem_cons.mp hb with rfl | hb
      · exact Or.inr (List.mem_cons_self ..)
      · rcases ih2 t ht b hb with h' | h'
        · exact Or.inl h'
        · exact Or.inr (List.mem_cons_of_mem _ h')

theorem runBlocks_pres (P : State R → Prop) : ∀ (bs : List (State R → State R)), (∀ f ∈ bs, ∀ s, P s → P (f s)) →
    ∀ s, P s → P (runBlocks bs s) := by
  intro bs
  induction bs with
  | nil => intro _ s h; exact h
  | cons f rest ih =>
    intro hb s h
    exact ih (fun g hg => hb g (List.mem_cons_of_mem _ hg)) (f s) (hb f (List.mem_cons_self ..) s h)

/-- whatever every block of both clients preserves is preserved by every interleaving -/
theorem pres_of_interleaving (P : State R → Prop) (xs ys : List (State R → State R))
    (hx : ∀ f ∈ xs, ∀ s, P s → P (f s)) (hy : ∀ f ∈ ys, ∀ s, P s → P (f s))
    (sched : List (State R → State R)) (h : sched ∈ merges xs ys) (s : State R) (hs : P s) : P (runBlocks sched s) := by
  apply runBlocks_pres P sched _ s hs
  intro f hf
  rcases mem_of_mem_merges xs ys sched h f hf with h' | h'
  · exact hx f h'
  · exact hy f h'

/-- two single-block operations: every interleaving is one of the two sequential orders -/
theorem podlock_serialises (f g : State R → State R) (sched : List (State R → State R))
    (h : sched ∈ merges [f] [g]) (s : State R) : runBlocks sched s = g (f s) ∨ runBlocks sched s = f (g s) := by
  simp [merges] at h
  rcases h with rfl | rfl
  · exact Or.inl rfl
  · exact Or.inr rfl

/-- all interleavings of any number of block sequences -/
def mergesAll {α : Type} : List (List α) → List (List α)
  | [] => [[]]
  | xs :: rest => (mergesAll rest).flatMap (merges xs)

theorem mem_of_mem_mergesAll {α : Type} : ∀ (xss : List (List α)) (sched : List α), sched ∈ mergesAll xss →
    ∀ b ∈ sched, ∃ xs ∈ xss, b ∈ xs := by
  intro xss
  induction xss with
  | nil =>
    intro sched h b hb
    simp only [mergesAll, List.mem_singleton] at h
    subst h
    cases hb
  | cons xs rest ih =>
    intro sched h b hb
    simp only [mergesAll, List.mem_flatMap] at h
    obtain ⟨t, ht, hs⟩ := h
    rcases mem_of_mem_merges xs t sched hs b hb with h' | h'
    · exact ⟨xs, List.mem_cons_self .., h'⟩
    · obtain ⟨ys, hys, hb'⟩ := ih t ht b h'
      exact ⟨ys, List.mem_cons_of_mem _ hys, hb'⟩

/-- whatever every block of every client preserves is preserved by every interleaving of all of them -/
theorem pres_of_interleavingN (P : State R → Prop) (xss : List (List (State R → State R)))
    (hx : ∀ xs ∈ xss, ∀ f ∈ xs, ∀ s, P s → P (f s))
    (sched : List (State R → State R)) (h : sched ∈ mergesAll xss) (s : State R) (hs : P s) : P (runBlocks sched s) := by
  apply runBlocks_pres P sched _ s hs
  intro f hf
  obtain ⟨xs, hxs, hfx⟩ := mem_of_mem_mergesAll xss sched h f hf
  exact hx xs hxs f hfx

end Eru.Cluster
