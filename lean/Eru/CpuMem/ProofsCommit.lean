import Eru.CpuMem.ProofsAffinity
/-
Committing a deployment (`SetNodeResourceUsage` with the chosen workloads, delta + incr) on a node
without NUMA topology leaves a state that `Validate` accepts and whose memory usage fits.
-/
namespace Eru.CpuMem
open Eru

theorem mem_keys_set (m : Eru.Plan) (k k' : String) (v : Int) (h : k' ∈ (m.set k v).keys) : k' ∈ m.keys ∨ k' = k := by
  rw [keys_set] at h
  split at h
  · left; exact h
  · rcases List.mem_append.mp h with h | h
    · left; exact h
    · right; simpa using h

/-- `c[k] += v` for all entries of a plan with distinct keys -/
theorem mapAdd_spec (c p : Eru.Plan) (hc : c.keys.Nodup) (hp : p.keys.Nodup) :
    (mapAdd c p).keys.Nodup ∧ (∀ id, (mapAdd c p).get id = c.get id + p.get id) ∧
    (∀ k ∈ (mapAdd c p).keys, k ∈ c.keys ∨ k ∈ p.keys) := by
  unfold mapAdd
  induction p generalizing c with
  | nil => exact ⟨by simpa using hc, by simp, fun k hk => Or.inl (by simpa using hk)⟩
  | cons kv rest ih =>
    obtain ⟨k, v⟩ := kv
    simp only [Plan.keys, List.map_cons, List.nodup_cons] at hp
    simp only [List.foldl_cons]
    have hc' : (c.add k v).keys.Nodup := keys_set_nodup _ _ _ hc
    obtain ⟨i1, i2, i3⟩ := ih (c.add k v) hc' hp.2
    refine ⟨i1, ?_, ?_⟩
    · intro id
      rw [i2 id, Plan.get_add]
      simp only [Plan.get]
      by_cases hk : k = id
      · simp only [hk, if_true]
        have : Plan.get rest id = 0 := Plan.get_of_not_has rest id (not_has_of_not_mem _ _ (by rw [← hk]; exact hp.1))
        omega
      · simp only [hk, if_false]
    · intro k' hk'
      rcases i3 k' hk' with h | h
      · rcases mem_keys_set c k k' _ h with h | h
        · left; exact h
        · right; simp [Plan.keys, h]
      · right; simp only [Plan.keys, List.map_cons, List.mem_cons]; right; exact h

theorem commitUsage_spec (use : NodeRes) (ws : List Workload) (hu : use.cpuMap.keys.Nodup)
    (hw : ∀ w ∈ ws, w.cpuMap.keys.Nodup) :
    (commitUsage use ws).cpuMap.keys.Nodup ∧
    (∀ id, (commitUsage use ws).cpuMap.get id = use.cpuMap.get id + usedBy (ws.map (·.cpuMap)) id) ∧
    (∀ k ∈ (commitUsage use ws).cpuMap.keys, k ∈ use.cpuMap.keys ∨ ∃ w ∈ ws, k ∈ w.cpuMap.keys) ∧
    (commitUsage use ws).mem = use.mem + ((ws.map (·.memReq)).sum) := by
  unfold commitUsage
  induction ws generalizing use with
  | nil => exact ⟨by simpa using hu, by simp [usedBy], fun k hk => Or.inl (by simpa using hk), by simp⟩
  | cons w ws ih =>
    simp only [List.foldl_cons]
    obtain ⟨m1, m2, m3⟩ := mapAdd_spec use.cpuMap w.cpuMap hu (hw w (List.mem_cons_self ..))
    obtain ⟨i1, i2, i3, i4⟩ := ih (use.add { cpuMap := w.cpuMap, mem := w.memReq, numaMem := w.numaMem })
      (by simpa [NodeRes.add] using m1) (fun w' hw' => hw w' (List.mem_cons_of_mem _ hw'))
    refine ⟨i1, ?_, ?_, ?_⟩
    · intro id
      rw [i2 id, List.map_cons, usedBy_cons]
      simp only [NodeRes.add]
      rw [m2 id]; omega
    · intro k hk
      rcases i3 k hk with h | ⟨w', hw', h⟩
      · simp only [NodeRes.add] at h
        rcases m3 k h with h | h
        · left; exact h
        · right; exact ⟨w, List.mem_cons_self .., h⟩
      · right; exact ⟨w', List.mem_cons_of_mem _ hw', h⟩
    · rw [i4]; simp only [NodeRes.add, List.map_cons, List.sum_cons]; omega

/-- committing any prefix of the plans returned by `GetCPUPlans` to a valid node whose memory usage
    fits leaves a node that `Validate` accepts and whose memory usage still fits — given the NUMA block
    of `Validate` for the new state (`hV3`; trivial without NUMA topology, `commit_numa_clause` otherwise) -/
theorem commit_valid_core (info : NodeInfo) (origin : CpuMap) (B maxShare : Int) (req : Req) (order : List String)
    (ps : List CpuPlan) (n : Nat) (ws : List Workload) (hB : 1 ≤ B) (hck : info.cap.cpuMap.keys.Nodup) (huk : info.use.cpuMap.keys.Nodup)
    (hord : order.Nodup) (hval : info.validate = true) (hnk : (info.cap.numa.map (·.1)).Nodup)
    (hV3 : ({ info with use := commitUsage info.use ws } : NodeInfo).validateNuma = true) (hmem0 : 0 ≤ req.mem)
    (h : getCPUPlans info origin B maxShare req order = .ok ps)
    (hws1 : ws.map (·.cpuMap) = (ps.map (·.cpuMap)).take n) (hws2 : ∀ w ∈ ws, w.memReq = req.mem) :
    ∃ info', commit info ws = .ok info' ∧ (memValid info = true → memValid info' = true) := by
  obtain ⟨ps', h', hu, hok⟩ := getCPUPlans_spec info origin B hB maxShare req order hord hnk hck
  rw [h] at h'; cases h'
  have hfm := getCPUPlans_fit_memory info origin B maxShare req order ps h
  have hpn := piecesRequest_nonneg req B
  have hfr0 : 0 ≤ (piecesRequest req B).tmod B := by
    rw [Int.tmod_eq_emod_of_nonneg hpn]; exact Int.emod_nonneg _ (by omega)
  -- facts about the chosen workloads
  have hwin : ∀ w ∈ ws, ∃ pl ∈ ps, pl.cpuMap = w.cpuMap := by
    intro w hw
    have : w.cpuMap ∈ (ps.map (·.cpuMap)).take n := by rw [← hws1]; exact List.mem_map_of_mem hw
    obtain ⟨pl, hpl, e⟩ := List.mem_map.mp (List.mem_of_mem_take this)
    exact ⟨pl, hpl, e⟩
  have hwk : ∀ w ∈ ws, w.cpuMap.keys.Nodup := by
    intro w hw
    obtain ⟨pl, hpl, e⟩ := hwin w hw
    obtain ⟨⟨ids, hf⟩, _⟩ := hok pl hpl
    rw [← e]; exact planForm_keys_nodup hf
  have hmaps : ws.map (·.cpuMap) = (ps.map (·.cpuMap)).take n := hws1
  have hnnp : ∀ id, ∀ p ∈ ps.map (·.cpuMap), 0 ≤ p.get id := by
    intro id p hp
    obtain ⟨pl, hpl, rfl⟩ := List.mem_map.mp hp
    obtain ⟨⟨ids, hf⟩, _⟩ := hok pl hpl
    exact planForm_get_nonneg hf (by omega) hfr0 id
  obtain ⟨c1, c2, c3, c4⟩ := commitUsage_spec info.use ws huk hwk
  -- available = capacity − usage
  obtain ⟨_, av⟩ := mapSub_spec info.cap.cpuMap info.use.cpuMap hck huk
  have hav : ∀ id, info.available.cpuMap.get id = info.cap.cpuMap.get id - info.use.cpuMap.get id := av
  -- validity of the old state, clause by clause
  unfold NodeInfo.validate NodeInfo.validateCpu at hval
  simp only [Bool.and_eq_true, Bool.not_eq_true', List.all_eq_true, decide_eq_true_eq] at hval
  obtain ⟨⟨hv1, hv2⟩, _⟩ := hval
  have hused : ∀ id, usedBy ((ps.map (·.cpuMap)).take n) id ≤ usedBy (ps.map (·.cpuMap)) id ∧ 0 ≤ usedBy ((ps.map (·.cpuMap)).take n) id := by
    intro id
    have := usedBy_take_le (ps.map (·.cpuMap)) n id (hnnp id)
    exact ⟨this.2, this.1⟩
  unfold commit
  have hvalid' : ({ info with use := commitUsage info.use ws } : NodeInfo).validate = true := by
    unfold NodeInfo.validate
    rw [hV3, Bool.and_true]
    unfold NodeInfo.validateCpu
    simp only [Bool.and_eq_true, Bool.not_eq_true', List.all_eq_true, decide_eq_true_eq]
    refine ⟨hv1, ?_⟩
    intro kv hkv
    obtain ⟨k, used⟩ := kv
    have hk : k ∈ (commitUsage info.use ws).cpuMap.keys := List.mem_map.mpr ⟨(k, used), hkv, rfl⟩
    have hget : (commitUsage info.use ws).cpuMap.get k = used := get_of_mem_nodup _ k used hkv c1
    rw [c2 k, hmaps] at hget
    have hub := hu k
    have hut := hused k
    rw [hav k] at hub
    simp only []
    rcases c3 k hk with hin | ⟨w, hw, hin⟩
    · -- a core that already carried usage: the old state's clause applies
      have hold := hv2 (k, info.use.cpuMap.get k) (has_mem_get _ k ((has_eq_mem_keys _ k).mpr hin))
      simp only [] at hold
      refine ⟨⟨hold.1.1, hold.1.2⟩, ?_⟩
      have := hold.2
      omega
    · -- a core that appears only through a plan: it has positive free pieces
      obtain ⟨p, hpl, hpe⟩ := hwin w hw
      rw [← hpe] at hin
      obtain ⟨⟨ids, hf⟩, _⟩ := hok p hpl
      obtain ⟨v, hkv'⟩ : ∃ v, (k, v) ∈ p.cpuMap := by
        obtain ⟨kv, hkv', e⟩ := List.mem_map.mp hin
        exact ⟨kv.2, by rw [← e]; exact hkv'⟩
      have hvpos : 0 < v := planForm_vals_pos hB hfr0 hf (k, v) hkv'
      have hpg : p.cpuMap.get k = v := get_of_mem_nodup _ k v hkv' (planForm_keys_nodup hf)
      have hge := usedBy_ge_of_mem (ps.map (·.cpuMap)) p.cpuMap (List.mem_map_of_mem hpl) k (hnnp k)
      by_cases huse : k ∈ info.use.cpuMap.keys
      · have hold := hv2 (k, info.use.cpuMap.get k) (has_mem_get _ k ((has_eq_mem_keys _ k).mpr huse))
        simp only [] at hold
        refine ⟨⟨hold.1.1, hold.1.2⟩, ?_⟩
        have := hold.2
        omega
      · have hu0 : info.use.cpuMap.get k = 0 := Plan.get_of_not_has _ k (not_has_of_not_mem _ _ huse)
        have hcpos : 0 < info.cap.cpuMap.get k := by omega
        have hhas : info.cap.cpuMap.has k = true := by
          cases hh : info.cap.cpuMap.has k with
          | true => rfl
          | false => have := Plan.get_of_not_has info.cap.cpuMap k hh; omega
        exact ⟨⟨hhas, by omega⟩, by omega⟩
  rw [if_pos hvalid']
  refine ⟨_, rfl, ?_⟩
  -- memory
  intro hmv
  unfold memValid at hmv ⊢
  simp only [decide_eq_true_eq] at hmv ⊢
  rw [c4]
  have hs : ∀ (l : List Workload), (∀ w ∈ l, w.memReq = req.mem) → (l.map (·.memReq)).sum = (l.length : Int) * req.mem := by
    intro l hl
    induction l with
    | nil => simp
    | cons w l ih =>
      simp only [List.map_cons, List.sum_cons, List.length_cons, Int.natCast_succ, Int.add_mul]
      rw [ih (fun w' hw' => hl w' (List.mem_cons_of_mem _ hw')), hl w (List.mem_cons_self ..)]; omega
  rw [hs ws hws2]
  have hwl : ws.length = (ps.take n).length := by
    have := congrArg List.length hws1
    simpa [List.length_take] using this
  unfold fitMemory at hfm
  simp only [Bool.or_eq_true, beq_iff_eq, decide_eq_true_eq] at hfm
  have hlen : (ws.length : Int) ≤ ps.length := by rw [hwl, List.length_take]; omega
  have hmono : (ws.length : Int) * req.mem ≤ (ps.length : Int) * req.mem := Int.mul_le_mul_of_nonneg_right hlen hmem0
  have havm : info.available.mem = info.cap.mem - info.use.mem := rfl
  rcases hfm with (h0 | hle) | hfit
  · rw [h0] at hlen
    have : (ws.length : Int) = 0 := by omega
    rw [this]; omega
  · have : req.mem = 0 := by omega
    rw [this]; omega
  · omega


/-- nodes without NUMA topology -/
theorem commit_valid_nonnuma (info : NodeInfo) (origin : CpuMap) (B maxShare : Int) (req : Req) (order : List String)
    (ps : List CpuPlan) (n : Nat) (ws : List Workload) (hB : 1 ≤ B) (hck : info.cap.cpuMap.keys.Nodup) (huk : info.use.cpuMap.keys.Nodup)
    (hord : order.Nodup) (hval : info.validate = true) (hnuma : info.cap.numa = []) (hmem0 : 0 ≤ req.mem)
    (h : getCPUPlans info origin B maxShare req order = .ok ps)
    (hws1 : ws.map (·.cpuMap) = (ps.map (·.cpuMap)).take n) (hws2 : ∀ w ∈ ws, w.memReq = req.mem) :
    ∃ info', commit info ws = .ok info' ∧ (memValid info = true → memValid info' = true) :=
  commit_valid_core info origin B maxShare req order ps n ws hB hck huk hord hval (by rw [hnuma]; simp)
    (by unfold NodeInfo.validateNuma; simp [hnuma]) hmem0 h hws1 hws2


/-! ### the memory-only path (`doAllocByMemory`) -/

theorem post_memReq_nonneg (w : RawReq) (h1 : 0 ≤ w.memReq) : 0 ≤ w.post.memReq := by
  unfold RawReq.post
  dsimp only
  repeat' split
  all_goals (first | omega | (simp_all; try omega))

theorem validate_memReq_nonneg (raw w : RawReq) (h : raw.validate = .ok w) : 0 ≤ w.memReq := by
  unfold RawReq.validate at h
  split at h
  · cases h
  · rename_i hm
    split at h
    · cases h
    · split at h
      · cases h
      · cases h
        exact post_memReq_nonneg _ (by omega)

/-- `doAllocByMemory`'s workloads change no CPU map and no NUMA memory -/
theorem commitUsage_unbound (use : NodeRes) (n : Nat) (w0 : Workload) (h1 : w0.cpuMap = []) (h2 : w0.numaMem = []) :
    (commitUsage use (List.replicate n w0)).cpuMap = use.cpuMap ∧
    (commitUsage use (List.replicate n w0)).numaMem = use.numaMem ∧
    (commitUsage use (List.replicate n w0)).mem = use.mem + (n : Int) * w0.memReq := by
  unfold commitUsage
  induction n generalizing use with
  | zero => simp
  | succ n ih =>
    simp only [List.replicate_succ, List.foldl_cons]
    obtain ⟨i1, i2, i3⟩ := ih (use.add { cpuMap := w0.cpuMap, mem := w0.memReq, numaMem := w0.numaMem })
    refine ⟨?_, ?_, ?_⟩
    · rw [i1]; simp [NodeRes.add, h1, mapAdd]
    · rw [i2]; simp [NodeRes.add, h2, mapAdd]
    · rw [i3]; simp only [NodeRes.add, Int.natCast_succ, Int.add_mul]; omega

end Eru.CpuMem
