import Eru.CpuMem.ProofsSpec
/-
C33 (partial): with affinity, a whole-core workload whose cores are all still whole cores in the
available map is the first plan.
-/
namespace Eru.CpuMem
open Eru

theorem orderIdx_ne_zero_iff (old : List Core) (id : String) : orderIdx old id ≠ 0 ↔ id ∈ old.map (·.id) := by
  unfold orderIdx
  cases h : old.findIdx? (fun c => c.id == id) with
  | none =>
    simp only [ne_eq, not_true_eq_false, false_iff]
    rw [List.findIdx?_eq_none_iff] at h
    intro hm
    obtain ⟨c, hc, rfl⟩ := List.mem_map.mp hm
    have := h c hc
    simp at this
  | some i =>
    simp only [ne_eq, Nat.add_eq_zero_iff, Nat.succ_ne_self, and_false, not_false_eq_true, true_iff]
    rw [List.findIdx?_eq_some_iff_getElem] at h
    obtain ⟨hi, hp, _⟩ := h
    have : old[i].id = id := by simpa using hp
    rw [← this]
    exact List.mem_map_of_mem (List.getElem_mem hi)

theorem affinityLoop_head (B : Int) (full : Nat) (hf : 1 ≤ full) (fuel : Nat) (cores : List Core)
    (hlen : full ≤ cores.length) (plans : List CpuMap) (h : affinityLoop B full (fuel + 1) cores = .ok plans) :
    ∃ rest, plans = planOfCores B (cores.take full) :: rest := by
  simp only [affinityLoop] at h
  rw [if_neg (by omega)] at h
  have hcount : 1 ≤ cores.length / full := by
    rw [Nat.le_div_iff_mul_le (by omega)]; omega
  generalize cores.length / full = count at hcount h
  split at h
  · rename_i rest _
    cases h
    obtain ⟨c, rfl⟩ : ∃ c, count = c + 1 := ⟨count - 1, by omega⟩
    simp only [groupPlans, List.cons_append]
    rw [List.take_take]
    have : min full ((c + 1) * full) = full := by
      rw [Nat.succ_mul]; omega
    rw [this]
    exact ⟨_, rfl⟩
  · rename_i o hne
    cases o <;> simp_all

theorem has_mem_get (m : Eru.Plan) (k : String) (h : m.has k = true) : (k, m.get k) ∈ m := by
  induction m with
  | nil => simp [Plan.has] at h
  | cons kv rest ih =>
    obtain ⟨a, b⟩ := kv
    simp only [Plan.has, Bool.or_eq_true, decide_eq_true_eq] at h
    simp only [Plan.get]
    by_cases e : a = k
    · subst e; simp
    · simp only [e, if_false]
      rcases h with h | h
      · exact absurd h e
      · exact List.mem_cons_of_mem _ (ih h)

/-- **the affinity argument**: origin map `M` of whole cores (`B` each, distinct keys), all still
    whole cores of the available map, request = `|M|` whole cores → the first plan is `M`. -/
theorem doGet_affinity_keeps (M avail : CpuMap) (availMem B : Int) (hB : 1 ≤ B) (maxShare : Int) (req : Req)
    (hMk : M.keys.Nodup) (hM1 : M ≠ []) (hMv : ∀ kv ∈ M, kv.2 = B) (hak : avail.keys.Nodup)
    (hfull : ∀ k ∈ M.keys, isFull B ⟨k, avail.get k⟩ = true ∧ avail.has k = true)
    (hreq : piecesRequest req B = (M.length : Int) * B) (p : CpuMap) (rest : List CpuMap)
    (h : doGetCPUPlans M avail availMem B maxShare req = .ok (p :: rest)) :
    mapEq p M = true := by
  have hne : M.isEmpty = false := by cases M with | nil => exact absurd rfl hM1 | cons _ _ => rfl
  have hlenM : 1 ≤ M.length := by cases M with | nil => exact absurd rfl hM1 | cons _ _ => simp
  -- hosts
  obtain ⟨hokA, _, _⟩ := newHost_ok avail B hB hak
  -- the origin host: every core is full
  have hOF : ∀ id, id ∈ (newHost M B).full.map (·.id) ↔ id ∈ M.keys := by
    intro id
    unfold newHost
    simp only []
    have hall : (M.map fun kv => Core.mk kv.1 kv.2).filter (isFull B) = M.map fun kv => Core.mk kv.1 kv.2 := by
      rw [List.filter_eq_self]
      intro c hc
      obtain ⟨kv, hkv, rfl⟩ := List.mem_map.mp hc
      have := hMv kv hkv
      simp only [isFull, this, Int.le_refl, decide_true, Bool.true_and, decide_eq_true_eq]
      exact Int.tmod_self
    rw [hall]
    have hp := ((ssort_perm Core.le (M.map fun kv => Core.mk kv.1 kv.2)).map (·.id)).mem_iff (a := id)
    rw [hp]
    simp [Plan.keys, List.map_map, Function.comp_def]
  -- the reordered full list starts with exactly M's cores
  generalize hF : (newHost avail B).full = F at *
  have hFn : (F.map (·.id)).Nodup := by
    have := hokA.nodup; rw [hF, List.map_append] at this; exact (List.nodup_append.mp this).1
  have hMinF : ∀ k ∈ M.keys, k ∈ F.map (·.id) := by
    intro k hk
    obtain ⟨hfk, hhk⟩ := hfull k hk
    have hmem : (⟨k, avail.get k⟩ : Core) ∈ (newHost avail B).full := by
      unfold newHost
      simp only []
      refine (ssort_perm _ _).mem_iff.mpr (List.mem_filter.mpr ⟨?_, hfk⟩)
      exact List.mem_map.mpr ⟨(k, avail.get k), has_mem_get avail k hhk, rfl⟩
    rw [hF] at hmem
    exact List.mem_map.mpr ⟨_, hmem, rfl⟩
  let pres := F.filter fun c => orderIdx (newHost M B).full c.id != 0
  have hpres_ids : ∀ id, id ∈ pres.map (·.id) ↔ id ∈ M.keys := by
    intro id
    constructor
    · intro hm
      obtain ⟨c, hc, rfl⟩ := List.mem_map.mp hm
      have := (List.mem_filter.mp hc).2
      have hnz : orderIdx (newHost M B).full c.id ≠ 0 := by simpa [bne] using this
      exact (hOF c.id).mp ((orderIdx_ne_zero_iff _ _).mp hnz)
    · intro hk
      obtain ⟨c, hc, hid⟩ := List.mem_map.mp (hMinF id hk)
      refine List.mem_map.mpr ⟨c, List.mem_filter.mpr ⟨hc, ?_⟩, hid⟩
      have : orderIdx (newHost M B).full c.id ≠ 0 := (orderIdx_ne_zero_iff _ _).mpr ((hOF c.id).mpr (by rw [hid]; exact hk))
      simpa [bne] using this
  have hpres_nodup : (pres.map (·.id)).Nodup := hFn.sublist ((List.filter_sublist).map _)
  have hpres_len : pres.length = M.length := by
    have hperm : (pres.map (·.id)).Perm M.keys := (List.perm_ext_iff_of_nodup hpres_nodup hMk).mpr hpres_ids
    have := hperm.length_eq
    simpa [Plan.keys] using this
  -- unfold the computation
  unfold doGetCPUPlans at h
  simp only [hne, Bool.false_eq_true, if_false, hF] at h
  have hpn : ¬ (piecesRequest req B ≤ 0) := by
    rw [hreq]
    have : (1 : Int) * 1 ≤ (M.length : Int) * B := Int.mul_le_mul (by omega) hB (by omega) (by omega)
    omega
  have htd : (piecesRequest req B).tdiv B = M.length := by
    rw [hreq]; exact Int.mul_tdiv_cancel _ (by omega)
  have htm : (piecesRequest req B).tmod B = 0 := by
    rw [hreq]; exact Int.mul_tmod_left _ _
  -- the host plans
  have hhost : ∀ plans, hostPlans B maxShare true
      { full := reorder (newHost M B).full F, frag := reorder (newHost M B).frag (newHost avail B).frag }
      (piecesRequest req B) = .ok plans → plans ≠ [] → ∃ r, plans = planOfCores B (ssort (fun a b => decide (orderIdx (newHost M B).full a.id ≤ orderIdx (newHost M B).full b.id)) pres) :: r := by
    intro plans hp hnil
    unfold hostPlans at hp
    rw [if_neg hpn] at hp
    simp only [htd, htm, if_true] at hp
    unfold getFullPlans getFullPlansAffinity at hp
    simp only [if_true] at hp
    rw [if_neg (by omega), if_neg (by omega)] at hp
    simp only [Int.toNat_natCast] at hp
    have hsl : (ssort (fun a b => decide (orderIdx (newHost M B).full a.id ≤ orderIdx (newHost M B).full b.id)) pres).length = M.length := by
      rw [(ssort_perm _ pres).length_eq]; exact hpres_len
    have hre : reorder (newHost M B).full F =
        ssort (fun a b => decide (orderIdx (newHost M B).full a.id ≤ orderIdx (newHost M B).full b.id)) pres ++
          F.filter (fun c => orderIdx (newHost M B).full c.id == 0) := rfl
    have hlen : M.length ≤ (reorder (newHost M B).full F).length := by
      rw [hre, List.length_append, hsl]; omega
    obtain ⟨r, hr⟩ := affinityLoop_head B M.length hlenM _ _ hlen plans hp
    refine ⟨r, ?_⟩
    rw [hr, hre, List.take_left' hsl]
  -- memory truncation keeps the head
  have hp0 : ∃ plans r, hostPlans B maxShare true
      { full := reorder (newHost M B).full F, frag := reorder (newHost M B).frag (newHost avail B).frag }
      (piecesRequest req B) = .ok plans ∧ plans = p :: r := by
    have htake : ∀ (plans : List CpuMap) (k : Nat), plans.take k = p :: rest → ∃ r, plans = p :: r := by
      intro plans k hk
      cases plans with
      | nil => simp at hk
      | cons q qs =>
        cases k with
        | zero => simp at hk
        | succ k =>
          simp only [List.take_succ_cons, List.cons.injEq] at hk
          exact ⟨qs, by rw [hk.1]⟩
    split at h
    · rename_i plans hpl
      refine ⟨plans, ?_⟩
      split at h
      · split at h
        · obtain ⟨r, hr⟩ := htake plans _ (Outcome.ok.inj h)
          exact ⟨r, hpl, hr⟩
        · exact ⟨rest, hpl, Outcome.ok.inj h⟩
      · exact ⟨rest, hpl, Outcome.ok.inj h⟩
    · rename_i o hne'
      cases o <;> simp_all
  obtain ⟨plans, r, hpl, hpe⟩ := hp0
  obtain ⟨r', hr'⟩ := hhost plans hpl (by rw [hpe]; simp)
  have hpeq : p = planOfCores B (ssort (fun a b => decide (orderIdx (newHost M B).full a.id ≤ orderIdx (newHost M B).full b.id)) pres) := by
    rw [hpe] at hr'; exact (List.cons.inj hr').1
  -- the plan as a map equals M
  generalize hS : ssort (fun a b => decide (orderIdx (newHost M B).full a.id ≤ orderIdx (newHost M B).full b.id)) pres = S at hpeq
  have hSperm : S.Perm pres := by rw [← hS]; exact ssort_perm _ _
  have hSn : (S.map (·.id)).Nodup := ((hSperm.map _).nodup_iff).mpr hpres_nodup
  have hSids : ∀ id, id ∈ S.map (·.id) ↔ id ∈ M.keys := fun id => ((hSperm.map (·.id)).mem_iff).trans (hpres_ids id)
  rw [hpeq, planOfCores_eq_map B S hSn]
  unfold mapEq
  simp only [Bool.and_eq_true, List.all_eq_true]
  constructor
  · intro kv hkv
    obtain ⟨c, hc, rfl⟩ := List.mem_map.mp hkv
    have hk : c.id ∈ M.keys := (hSids c.id).mp (List.mem_map_of_mem hc)
    have hhas : M.has c.id = true := (has_eq_mem_keys M c.id).mpr hk
    have hget : M.get c.id = B := hMv _ (has_mem_get M c.id hhas)
    simp [hhas, hget]
  · intro kv hkv
    obtain ⟨k, v⟩ := kv
    have hv : v = B := hMv _ hkv
    have hk : k ∈ M.keys := List.mem_map.mpr ⟨(k, v), hkv, rfl⟩
    have hin : k ∈ Plan.keys (S.map fun c => (c.id, B)) := by rw [keys_map_cores]; exact (hSids k).mpr hk
    have hhas : Plan.has (S.map fun c => (c.id, B)) k = true := (has_eq_mem_keys _ k).mpr hin
    have hmem := has_mem_get _ k hhas
    obtain ⟨c, _, hc⟩ := List.mem_map.mp hmem
    have hget : Plan.get (S.map fun c => (c.id, B)) k = B := by
      have := congrArg Prod.snd hc; simpa using this.symm
    simp [hhas, hget, hv]

end Eru.CpuMem
