import Eru.CpuMem.ProofsHost
import Eru.CpuMem.ProofsMem
/-
From `host.getCPUPlans` to `doGetCPUPlans` and `GetCPUPlans`: well-formed hosts out of CPU maps
(Go maps: distinct keys), totality, per-core fit.
-/
namespace Eru.CpuMem
open Eru

theorem insSorted_perm {α : Type} (le : α → α → Bool) (x : α) (l : List α) : (insSorted le x l).Perm (x :: l) := by
  induction l with
  | nil => exact List.Perm.refl _
  | cons y ys ih =>
    simp only [insSorted]; split
    · exact List.Perm.refl _
    · exact (List.Perm.cons y ih).trans (List.Perm.swap x y ys)

theorem ssort_perm {α : Type} (le : α → α → Bool) (l : List α) : (ssort le l).Perm l := by
  unfold ssort
  induction l with
  | nil => exact List.Perm.refl _
  | cons x xs ih => simp only [List.foldr_cons]; exact (insSorted_perm le x _).trans (List.Perm.cons x ih)

theorem filter_not_perm {α : Type} (p : α → Bool) (l : List α) :
    (l.filter p ++ l.filter (fun x => !p x)).Perm l := by
  induction l with
  | nil => simp
  | cons x xs ih =>
    simp only [List.filter_cons]
    cases hp : p x
    · simp only [Bool.false_eq_true, if_false, Bool.not_false, if_true]
      exact (List.perm_middle).trans (List.Perm.cons x ih)
    · simp only [if_true, Bool.not_true, Bool.false_eq_true, if_false, List.cons_append]
      exact List.Perm.cons x ih

theorem reorder_perm (old new : List Core) : (reorder old new).Perm new := by
  unfold reorder
  have h1 := ssort_perm (fun a b => decide (orderIdx old a.id ≤ orderIdx old b.id)) (new.filter fun c => orderIdx old c.id != 0)
  have h2 := filter_not_perm (fun c => orderIdx old c.id != 0) new
  have e : (new.filter fun c => orderIdx old c.id == 0) = new.filter (fun c => !(orderIdx old c.id != 0)) := by
    congr 1; funext c; simp only [bne, Bool.not_not]
  rw [e]
  exact (List.Perm.append_right _ h1).trans h2

theorem isFull_fullCore {B : Int} (hB : 1 ≤ B) {c : Core} (h : isFull B c = true) : FullCore B c := by
  unfold isFull at h
  simp only [Bool.and_eq_true, decide_eq_true_eq] at h
  refine ⟨h.1, ?_⟩
  have hp : 0 ≤ c.pieces := by omega
  rw [Int.tmod_eq_emod_of_nonneg hp] at h
  exact Int.dvd_of_emod_eq_zero h.2

theorem piecesOf_zero_of_not_mem (l : List Core) (id : String) (h : id ∉ l.map (·.id)) : piecesOf l id = 0 := by
  induction l with
  | nil => rfl
  | cons x xs ih =>
    simp only [List.map_cons, List.mem_cons, not_or] at h
    simp only [piecesOf]
    rw [ih h.2, if_neg (fun e => h.1 e.symm)]; rfl

/-- splitting a list of cores with distinct ids by two exclusive predicates keeps ids distinct and
    gives each id at most the pieces it had -/
theorem split_cores (l : List Core) (p q : Core → Bool) (hex : ∀ c, p c = true → q c = false)
    (hq : ∀ c, q c = true → 0 ≤ c.pieces) (hp : ∀ c, p c = true → 0 ≤ c.pieces)
    (hn : (l.map (·.id)).Nodup) :
    ((l.filter p ++ l.filter q).map (·.id)).Nodup ∧
    (∀ id, piecesOf (l.filter p ++ l.filter q) id ≤ max (piecesOf l id) 0) ∧
    (∀ c ∈ l.filter p ++ l.filter q, c ∈ l) := by
  refine ⟨?_, ?_, ?_⟩
  · have hsub : ∀ (r : Core → Bool), ((l.filter r).map (·.id)).Sublist (l.map (·.id)) := fun r => (List.filter_sublist).map _
    rw [List.map_append]
    refine List.nodup_append.mpr ⟨hn.sublist (hsub p), hn.sublist (hsub q), ?_⟩
    intro a ha b hb e
    subst e
    obtain ⟨c1, hc1, e1⟩ := List.mem_map.mp ha
    obtain ⟨c2, hc2, e2⟩ := List.mem_map.mp hb
    have m1 := List.mem_filter.mp hc1
    have m2 := List.mem_filter.mp hc2
    -- distinct ids: c1 = c2
    have : c1 = c2 := by
      have hinj : ∀ (l : List Core), (l.map (·.id)).Nodup → ∀ x ∈ l, ∀ y ∈ l, x.id = y.id → x = y := by
        intro l
        induction l with
        | nil => intro _ x hx; simp at hx
        | cons z zs ih =>
          intro hnd x hx y hy hxy
          simp only [List.map_cons, List.nodup_cons] at hnd
          rcases List.mem_cons.mp hx with hx | hx <;> rcases List.mem_cons.mp hy with hy | hy
          · rw [hx, hy]
          · have : z.id ∈ zs.map (·.id) := by rw [← hx, hxy]; exact List.mem_map_of_mem hy
            exact absurd this hnd.1
          · have : z.id ∈ zs.map (·.id) := by rw [← hy, ← hxy]; exact List.mem_map_of_mem hx
            exact absurd this hnd.1
          · exact ih hnd.2 x hx y hy hxy
      exact hinj l hn c1 m1.1 c2 m2.1 (by rw [e1, e2])
    subst this
    have := hex c1 m1.2
    rw [m2.2] at this; exact Bool.noConfusion this
  · intro id
    induction l with
    | nil => simp [piecesOf]
    | cons x xs ih =>
      simp only [List.map_cons, List.nodup_cons] at hn
      have ih' := ih hn.2
      rw [piecesOf_append] at ih' ⊢
      have pc : ∀ (t : List Core), piecesOf (x :: t) id = (if x.id = id then x.pieces else 0) + piecesOf t id := fun t => rfl
      have fp : piecesOf ((x :: xs).filter p) id = (if p x = true then (if x.id = id then x.pieces else 0) else 0) + piecesOf (xs.filter p) id := by
        cases hpx : p x
        · rw [List.filter_cons_of_neg (by simp [hpx])]; simp
        · rw [List.filter_cons_of_pos hpx, pc]; simp
      have fq : piecesOf ((x :: xs).filter q) id = (if q x = true then (if x.id = id then x.pieces else 0) else 0) + piecesOf (xs.filter q) id := by
        cases hqx : q x
        · rw [List.filter_cons_of_neg (by simp [hqx])]; simp
        · rw [List.filter_cons_of_pos hqx, pc]; simp
      rw [fp, fq, pc]
      by_cases hx : x.id = id
      · have hz : piecesOf xs id = 0 := piecesOf_zero_of_not_mem xs id (by rw [← hx]; exact hn.1)
        have hz1 : piecesOf (xs.filter p) id = 0 := piecesOf_zero_of_not_mem _ id (by
          rw [← hx]; intro hm; exact hn.1 (((List.filter_sublist).map _).subset hm))
        have hz2 : piecesOf (xs.filter q) id = 0 := piecesOf_zero_of_not_mem _ id (by
          rw [← hx]; intro hm; exact hn.1 (((List.filter_sublist).map _).subset hm))
        rw [hz, hz1, hz2, if_pos hx]
        cases hpx : p x <;> cases hqx : q x
        · simp only [Bool.false_eq_true, if_false]; omega
        · have := hq x hqx; simp only [Bool.false_eq_true, if_false, if_true]; omega
        · have := hp x hpx; simp only [Bool.false_eq_true, if_false, if_true]; omega
        · have := hex x hpx; rw [hqx] at this; exact Bool.noConfusion this
      · rw [if_neg hx]
        have e1 : (if p x = true then (0 : Int) else 0) = 0 := by split <;> rfl
        have e2 : (if q x = true then (0 : Int) else 0) = 0 := by split <;> rfl
        rw [e1, e2]; omega
  · intro c hc
    rcases List.mem_append.mp hc with hc | hc
    · exact (List.mem_filter.mp hc).1
    · exact (List.mem_filter.mp hc).1

theorem piecesOf_map_get (m : CpuMap) (hn : m.keys.Nodup) (id : String) :
    piecesOf (m.map fun kv => Core.mk kv.1 kv.2) id = m.get id := by
  induction m with
  | nil => rfl
  | cons kv rest ih =>
    obtain ⟨k, v⟩ := kv
    simp only [Plan.keys, List.map_cons, List.nodup_cons] at hn
    simp only [List.map_cons, piecesOf, Plan.get]
    by_cases hk : k = id
    · simp only [hk, if_true]
      have : piecesOf (rest.map fun kv => Core.mk kv.1 kv.2) id = 0 := piecesOf_zero_of_not_mem _ id (by
        rw [← hk]; simpa [List.map_map, Function.comp_def] using hn.1)
      omega
    · simp only [hk, if_false]
      have := ih hn.2
      omega

/-- the host built from a CPU map with distinct keys is well formed and offers each core at most
    its (positive) available pieces -/
theorem newHost_ok (m : CpuMap) (B : Int) (hB : 1 ≤ B) (hn : m.keys.Nodup) :
    HostOK B (newHost m B) ∧ (∀ id, piecesOf ((newHost m B).full ++ (newHost m B).frag) id ≤ max (m.get id) 0) ∧
    (∀ c ∈ (newHost m B).full ++ (newHost m B).frag, c.id ∈ m.keys) := by
  unfold newHost
  simp only []
  generalize hcs : (m.map fun kv => Core.mk kv.1 kv.2) = cs
  have hncs : (cs.map (·.id)).Nodup := by
    rw [← hcs]; simpa [List.map_map, Function.comp_def, Plan.keys] using hn
  have hsp := split_cores cs (isFull B) (fun c => !isFull B c && decide (0 < c.pieces))
    (by intro c h; simp [h]) (by intro c h; simp only [Bool.and_eq_true, decide_eq_true_eq] at h; omega)
    (by intro c h; exact fullCore_nonneg hB (isFull_fullCore hB h)) hncs
  have p1 := ssort_perm Core.le (cs.filter (isFull B))
  have p2 := ssort_perm Core.le (cs.filter fun c => !isFull B c && decide (0 < c.pieces))
  have pp := List.Perm.append p1 p2
  refine ⟨⟨?_, ?_, ?_⟩, ?_, ?_⟩
  · intro c hc
    exact isFull_fullCore hB (List.mem_filter.mp (p1.mem_iff.mp hc)).2
  · intro c hc
    have := (List.mem_filter.mp (p2.mem_iff.mp hc)).2
    simp only [Bool.and_eq_true, decide_eq_true_eq] at this
    exact this.2
  · exact ((pp.map _).nodup_iff).mpr hsp.1
  · intro id
    rw [piecesOf_perm pp, ← piecesOf_map_get m hn id, hcs]
    exact hsp.2.1 id
  · intro c hc
    have hmem := hsp.2.2 c (pp.mem_iff.mp hc)
    rw [← hcs] at hmem
    obtain ⟨kv, hkv, rfl⟩ := List.mem_map.mp hmem
    exact List.mem_map_of_mem hkv


theorem get_nonneg_of_all (p : Eru.Plan) (h : ∀ kv ∈ p, 0 ≤ kv.2) (id : String) : 0 ≤ p.get id := by
  induction p with
  | nil => simp
  | cons kv rest ih =>
    obtain ⟨k, v⟩ := kv
    simp only [Plan.get]
    split
    · exact h (k, v) (List.mem_cons_self ..)
    · exact ih (fun kv hkv => h kv (List.mem_cons_of_mem _ hkv))

theorem planForm_get_nonneg {B : Int} {full : Nat} {fragment : Int} {ids : List String} {p : CpuMap}
    (h : PlanForm B full fragment ids p) (hB : 0 ≤ B) (hf : 0 ≤ fragment) (id : String) : 0 ≤ p.get id := by
  obtain ⟨picked, tail, rfl, _, ht, _, _⟩ := h
  apply get_nonneg_of_all
  intro kv hkv
  rcases List.mem_append.mp hkv with hk | hk
  · obtain ⟨c, _, rfl⟩ := List.mem_map.mp hk; exact hB
  · rcases ht with ⟨_, rfl⟩ | ⟨_, gid, rfl⟩
    · simp at hk
    · simp only [List.mem_singleton] at hk; subst hk; exact hf

theorem usedBy_nonneg (ps : List CpuMap) (id : String) (h : ∀ p ∈ ps, 0 ≤ p.get id) : 0 ≤ usedBy ps id := by
  induction ps with
  | nil => simp [usedBy]
  | cons p ps ih =>
    rw [usedBy_cons]
    have := ih (fun q hq => h q (List.mem_cons_of_mem _ hq))
    have := h p (List.mem_cons_self ..)
    omega

theorem hostOK_perm {B : Int} {h h' : Host} (hh : HostOK B h) (p1 : h'.full.Perm h.full) (p2 : h'.frag.Perm h.frag) :
    HostOK B h' :=
  ⟨fun c hc => hh.full c (p1.mem_iff.mp hc), fun c hc => hh.frag c (p2.mem_iff.mp hc),
   (((List.Perm.append p1 p2).map _).nodup_iff).mpr hh.nodup⟩

theorem piecesRequest_nonneg (req : Req) (B : Int) : 0 ≤ piecesRequest req B := by
  unfold piecesRequest; omega

/-- **`doGetCPUPlans`**: for a CPU map with distinct keys and `B ≥ 1` it always returns; the plans
    together take from every core at most its positive available pieces; every plan has the C05 form
    over keys of the map. -/
theorem doGetCPUPlans_spec (origin avail : CpuMap) (availMem B : Int) (hB : 1 ≤ B) (maxShare : Int) (req : Req)
    (hn : avail.keys.Nodup) :
    ∃ plans, doGetCPUPlans origin avail availMem B maxShare req = .ok plans ∧
      (∀ id, 0 ≤ usedBy plans id ∧ usedBy plans id ≤ max (avail.get id) 0) ∧
      (∀ p ∈ plans, PlanForm B ((piecesRequest req B).tdiv B).toNat ((piecesRequest req B).tmod B) avail.keys p) := by
  obtain ⟨hok, hpc, hkeys⟩ := newHost_ok avail B hB hn
  have hpn := piecesRequest_nonneg req B
  have hfr0 : 0 ≤ (piecesRequest req B).tmod B := by
    rw [Int.tmod_eq_emod_of_nonneg hpn]; exact Int.emod_nonneg _ (by omega)
  -- the host actually used (possibly reordered for affinity)
  have key : ∀ (h' : Host) (aff : Bool), h'.full.Perm (newHost avail B).full → h'.frag.Perm (newHost avail B).frag →
      ∃ plans, hostPlans B maxShare aff h' (piecesRequest req B) = .ok plans ∧
        (∀ id, 0 ≤ usedBy plans id ∧ usedBy plans id ≤ max (avail.get id) 0) ∧
        (∀ p ∈ plans, PlanForm B ((piecesRequest req B).tdiv B).toNat ((piecesRequest req B).tmod B) avail.keys p) ∧
        (∀ p ∈ plans, ∀ id, 0 ≤ p.get id) := by
    intro h' aff p1 p2
    have hok' := hostOK_perm hok p1 p2
    have pp := List.Perm.append p1 p2
    obtain ⟨plans, hpl, hu, hf⟩ := hostPlans_spec B hB maxShare aff h' hok' (piecesRequest req B)
    have hform : ∀ p ∈ plans, PlanForm B ((piecesRequest req B).tdiv B).toNat ((piecesRequest req B).tmod B) avail.keys p := by
      intro p hp
      refine planForm_mono (hf p hp) ?_
      intro k hk
      obtain ⟨c, hc, rfl⟩ := List.mem_map.mp hk
      exact hkeys c (pp.mem_iff.mp hc)
    have hnn : ∀ p ∈ plans, ∀ id, 0 ≤ p.get id := fun p hp id => planForm_get_nonneg (hform p hp) (by omega) hfr0 id
    refine ⟨plans, hpl, ?_, hform, hnn⟩
    intro id
    refine ⟨usedBy_nonneg plans id (fun p hp => hnn p hp id), ?_⟩
    have := hu id
    rw [piecesOf_perm pp] at this
    exact Int.le_trans this (hpc id)
  -- memory truncation keeps everything
  have trunc : ∀ (plans : List CpuMap) (k : Nat),
      (∀ id, 0 ≤ usedBy plans id ∧ usedBy plans id ≤ max (avail.get id) 0) → (∀ p ∈ plans, ∀ id, 0 ≤ p.get id) →
      (∀ id, 0 ≤ usedBy (plans.take k) id ∧ usedBy (plans.take k) id ≤ max (avail.get id) 0) := by
    intro plans k h1 h2 id
    have := usedBy_take_le plans k id (fun p hp => h2 p hp id)
    have := h1 id
    omega
  unfold doGetCPUPlans
  simp only []
  by_cases hor : origin.isEmpty = true
  · simp only [hor, if_true]
    obtain ⟨plans, hpl, hu, hf, hnn⟩ := key (newHost avail B) false (List.Perm.refl _) (List.Perm.refl _)
    rw [hpl]
    simp only []
    split
    · split
      · exact ⟨_, rfl, trunc plans _ hu hnn, fun p hp => hf p (List.mem_of_mem_take hp)⟩
      · exact ⟨_, rfl, hu, hf⟩
    · exact ⟨_, rfl, hu, hf⟩
  · simp only [hor, Bool.false_eq_true, if_false]
    obtain ⟨plans, hpl, hu, hf, hnn⟩ := key
      { full := reorder (newHost origin B).full (newHost avail B).full, frag := reorder (newHost origin B).frag (newHost avail B).frag }
      true (reorder_perm _ _) (reorder_perm _ _)
    rw [hpl]
    simp only []
    split
    · split
      · exact ⟨_, rfl, trunc plans _ hu hnn, fun p hp => hf p (List.mem_of_mem_take hp)⟩
      · exact ⟨_, rfl, hu, hf⟩
    · exact ⟨_, rfl, hu, hf⟩

end Eru.CpuMem
