import Eru.CpuMem.ProofsRounds
/-
`host.getCPUPlans` (model: `hostPlans`): terminates without panic, plans fit the cores, plan shape.
-/
namespace Eru.CpuMem
open Eru

/-! ### association-list facts -/

theorem set_of_not_has (m : Eru.Plan) (k : String) (v : Int) (h : m.has k = false) : m.set k v = m ++ [(k, v)] := by
  induction m with
  | nil => rfl
  | cons p rest ih =>
    obtain ⟨a, b⟩ := p
    simp only [Plan.has, Bool.or_eq_false_iff, decide_eq_false_iff_not] at h
    simp only [Plan.set, h.1, if_false, ih h.2, List.cons_append]

theorem has_eq_mem_keys (m : Eru.Plan) (k : String) : m.has k = true ↔ k ∈ m.keys := by
  induction m with
  | nil => simp [Plan.has, Plan.keys]
  | cons p rest ih =>
    obtain ⟨a, b⟩ := p
    simp only [Plan.has, Bool.or_eq_true, decide_eq_true_eq, ih, Plan.keys, List.map_cons, List.mem_cons]
    constructor
    · rintro (h | h)
      · left; exact h.symm
      · right; exact h
    · rintro (h | h)
      · left; exact h.symm
      · right; exact h

theorem not_has_of_not_mem (m : Eru.Plan) (k : String) (h : k ∉ m.keys) : m.has k = false := by
  cases hh : m.has k with
  | false => rfl
  | true => exact absurd ((has_eq_mem_keys m k).mp hh) h

theorem get_append (a b : Eru.Plan) (k : String) : (a ++ b).get k = if a.has k then a.get k else b.get k := by
  induction a with
  | nil => simp [Plan.has]
  | cons p rest ih =>
    obtain ⟨x, y⟩ := p
    simp only [List.cons_append, Plan.get, Plan.has]
    by_cases hx : x = k
    · simp [hx]
    · simp [hx, ih]

/-- with distinct ids, `plan[id] = B` for each picked core builds the list of `(id, B)` in order -/
theorem foldl_set_eq (B : Int) (cs : List Core) (acc : Eru.Plan)
    (hn : (acc.keys ++ cs.map (·.id)).Nodup) :
    cs.foldl (fun p c => p.set c.id B) acc = acc ++ cs.map fun c => (c.id, B) := by
  induction cs generalizing acc with
  | nil => simp
  | cons c cs ih =>
    simp only [List.foldl_cons, List.map_cons]
    have hnot : c.id ∉ acc.keys := by
      intro hmem
      have := (List.nodup_append.mp hn).2.2 c.id hmem c.id (by simp)
      exact this rfl
    rw [set_of_not_has acc c.id B (not_has_of_not_mem _ _ hnot)]
    rw [ih]
    · simp
    · simp only [Plan.keys, List.map_append, List.map_cons, List.map_nil]
      simp only [Plan.keys, List.map_cons] at hn
      simpa [List.append_assoc] using hn

theorem planOfCores_eq_map (B : Int) (cs : List Core) (hn : (cs.map (·.id)).Nodup) :
    planOfCores B cs = cs.map fun c => (c.id, B) := by
  unfold planOfCores
  rw [foldl_set_eq B cs [] (by simpa [Plan.keys] using hn)]; simp

theorem add_of_not_has (m : Eru.Plan) (k : String) (v : Int) (h : m.has k = false) : m.add k v = m ++ [(k, v)] := by
  unfold Plan.add
  rw [Plan.get_of_not_has m k h, set_of_not_has m k _ h]; simp

theorem foldl_add_eq (l acc : Eru.Plan) (hn : (acc.keys ++ l.keys).Nodup) :
    l.foldl (fun a kv => a.add kv.1 kv.2) acc = acc ++ l := by
  induction l generalizing acc with
  | nil => simp
  | cons kv l ih =>
    simp only [List.foldl_cons]
    have hnot : kv.1 ∉ acc.keys := by
      intro hmem
      have := (List.nodup_append.mp hn).2.2 kv.1 hmem kv.1 (by simp [Plan.keys])
      exact this rfl
    rw [add_of_not_has acc kv.1 kv.2 (not_has_of_not_mem _ _ hnot), ih]
    · simp
    · simp only [Plan.keys, List.map_append, List.map_cons, List.map_nil]
      simp only [Plan.keys, List.map_cons] at hn
      simpa [List.append_assoc] using hn

theorem mapAdd_nil_eq (l : Eru.Plan) (hn : l.keys.Nodup) : mapAdd [] l = l := by
  unfold mapAdd
  rw [foldl_add_eq l [] (by simpa [Plan.keys] using hn)]; simp


/-! ### fragment plans -/

theorem usedBy_replicate (n : Nat) (p : CpuMap) (id : String) : usedBy (List.replicate n p) id = n * p.get id := by
  induction n with
  | zero => simp [usedBy]
  | succ n ih => rw [List.replicate_succ, usedBy_cons, ih, Int.natCast_succ, Int.add_mul]; omega

theorem tdiv_toNat_mul_le (p f : Int) (hp : 0 ≤ p) (hf : 1 ≤ f) : ((p.tdiv f).toNat : Int) * f ≤ p := by
  rw [Int.tdiv_eq_ediv_of_nonneg hp]
  have h0 : 0 ≤ p / f := Int.ediv_nonneg hp (by omega)
  have h1 : p / f * f ≤ p := Int.ediv_mul_le p (by omega)
  rw [Int.toNat_of_nonneg h0]; exact h1

theorem usedBy_fragment (cs : List Core) (f : Int) (hf : 1 ≤ f) (hpos : ∀ c ∈ cs, 0 ≤ c.pieces) (id : String) :
    0 ≤ usedBy (getFragmentPlans cs f) id ∧ usedBy (getFragmentPlans cs f) id ≤ piecesOf cs id := by
  induction cs with
  | nil => simp [getFragmentPlans, usedBy, piecesOf]
  | cons c cs ih =>
    have ih' := ih (fun c hc => hpos c (List.mem_cons_of_mem _ hc))
    have hc := hpos c (List.mem_cons_self ..)
    have hm := tdiv_toNat_mul_le c.pieces f hc hf
    have hn0 : (0 : Int) ≤ ((c.pieces.tdiv f).toNat : Int) := by omega
    have hg0 : 0 ≤ ((c.pieces.tdiv f).toNat : Int) * f := Int.mul_nonneg hn0 (by omega)
    simp only [getFragmentPlans, List.flatMap_cons] at ih' ⊢
    rw [usedBy_append, usedBy_replicate]
    simp only [piecesOf, Plan.get]
    by_cases hx : c.id = id
    · simp only [hx, if_true]; omega
    · simp only [hx, if_false, Int.mul_zero]; omega

theorem fragment_get_nonneg (cs : List Core) (f : Int) (hf : 1 ≤ f) (p : CpuMap) (hp : p ∈ getFragmentPlans cs f) (id : String) :
    0 ≤ p.get id := by
  unfold getFragmentPlans at hp
  rw [List.mem_flatMap] at hp
  obtain ⟨c, _, hp⟩ := hp
  rw [(List.mem_replicate.mp hp).2]
  simp only [Plan.get]; split <;> omega

theorem fragment_mem (cs : List Core) (f : Int) (p : CpuMap) (hp : p ∈ getFragmentPlans cs f) :
    ∃ c ∈ cs, p = [(c.id, f)] := by
  unfold getFragmentPlans at hp
  rw [List.mem_flatMap] at hp
  obtain ⟨c, hc, hp⟩ := hp
  exact ⟨c, hc, (List.mem_replicate.mp hp).2⟩

theorem usedBy_take_le (ps : List CpuMap) (n : Nat) (id : String) (h : ∀ p ∈ ps, 0 ≤ p.get id) :
    0 ≤ usedBy (ps.take n) id ∧ usedBy (ps.take n) id ≤ usedBy ps id := by
  induction ps generalizing n with
  | nil => simp [usedBy]
  | cons p ps ih =>
    cases n with
    | zero =>
      simp only [List.take_zero, usedBy, List.map_nil, List.sum_nil, List.map_cons, List.sum_cons]
      have := (ih 0 (fun q hq => h q (List.mem_cons_of_mem _ hq)))
      simp only [List.take_zero, usedBy, List.map_nil, List.sum_nil] at this
      have := h p (List.mem_cons_self ..)
      omega
    | succ n =>
      simp only [List.take_succ_cons, usedBy_cons]
      have := ih n (fun q hq => h q (List.mem_cons_of_mem _ hq))
      have := h p (List.mem_cons_self ..)
      omega

theorem isRound_get_nonneg {B : Int} (hB : 0 ≤ B) {full : Nat} {ids : List String} {p : CpuMap}
    (h : IsRound B full ids p) (id : String) : 0 ≤ p.get id := by
  obtain ⟨picked, rfl, _⟩ := h
  exact (planOfCores_get_le B hB picked id).1

/-! ### the shape of a plan -/

/-- `full` distinct cores at `B` pieces followed, iff `fragment ≠ 0`, by one further core with `fragment` -/
def PlanForm (B : Int) (full : Nat) (fragment : Int) (ids : List String) (p : CpuMap) : Prop :=
  ∃ (picked : List Core) (tail : CpuMap), p = (picked.map fun c => (c.id, B)) ++ tail ∧ picked.length = full ∧
    ((fragment = 0 ∧ tail = []) ∨ (fragment ≠ 0 ∧ ∃ gid, tail = [(gid, fragment)])) ∧ p.keys.Nodup ∧ ∀ k ∈ p.keys, k ∈ ids

theorem keys_map_cores (B : Int) (cs : List Core) : Plan.keys (cs.map fun c => (c.id, B)) = cs.map (·.id) := by
  simp [Plan.keys, List.map_map, Function.comp_def]

theorem isRound_form {B : Int} {full : Nat} {ids : List String} {p : CpuMap} (h : IsRound B full ids p) :
    PlanForm B full 0 ids p := by
  obtain ⟨picked, rfl, hl, hn, hi⟩ := h
  refine ⟨picked, [], by rw [planOfCores_eq_map B picked hn]; simp, hl, Or.inl ⟨rfl, rfl⟩, ?_, ?_⟩
  · rw [planOfCores_eq_map B picked hn, keys_map_cores]; exact hn
  · rw [planOfCores_eq_map B picked hn, keys_map_cores]
    intro k hk
    obtain ⟨c, hc, rfl⟩ := List.mem_map.mp hk
    exact hi c hc

theorem zipPlans_spec (B : Int) (hB : 0 ≤ B) (full : Nat) (fragment : Int) (hfr : fragment ≠ 0) (F G : List Core)
    (hdis : ((F ++ G).map (·.id)).Nodup) (n : Nat) (fs gs : List CpuMap)
    (hn1 : n ≤ fs.length) (hn2 : n ≤ gs.length)
    (hfs : ∀ f ∈ fs, IsRound B full (F.map (·.id)) f) (hgs : ∀ g ∈ gs, ∃ c ∈ G, g = [(c.id, fragment)]) :
    ∃ plans, zipPlans n fs gs = .ok plans ∧
      (∀ id, usedBy plans id = usedBy (fs.take n) id + usedBy (gs.take n) id) ∧
      ∀ p ∈ plans, PlanForm B full fragment ((F ++ G).map (·.id)) p := by
  induction n generalizing fs gs with
  | zero => exact ⟨[], rfl, by simp [usedBy], by simp⟩
  | succ n ih =>
    match fs, gs, hn1, hn2 with
    | [], _, h1, _ => simp at h1
    | _ :: _, [], _, h2 => simp at h2
    | f :: fs, g :: gs, h1, h2 =>
      simp only [List.length_cons] at h1 h2
      obtain ⟨rest, hrest, hu, hform⟩ := ih fs gs (by omega) (by omega)
        (fun f' hf' => hfs f' (List.mem_cons_of_mem _ hf')) (fun g' hg' => hgs g' (List.mem_cons_of_mem _ hg'))
      simp only [zipPlans, hrest]
      obtain ⟨picked, hfe, hl, hnp, hip⟩ := hfs f (List.mem_cons_self ..)
      obtain ⟨c, hcG, hge⟩ := hgs g (List.mem_cons_self ..)
      have hfmap : f = picked.map fun c => (c.id, B) := by rw [hfe, planOfCores_eq_map B picked hnp]
      have hkeys : f.keys = picked.map (·.id) := by rw [hfmap, keys_map_cores]
      rw [List.map_append] at hdis
      have hcnot : c.id ∉ f.keys := by
        rw [hkeys]
        intro hmem
        obtain ⟨c', hc', hid⟩ := List.mem_map.mp hmem
        have hF : c'.id ∈ F.map (·.id) := hip c' hc'
        have := (List.nodup_append.mp hdis).2.2 c'.id hF c.id (List.mem_map_of_mem hcG)
        exact this hid
      have e1 : mapAdd [] f = f := mapAdd_nil_eq f (by rw [hkeys]; exact hnp)
      have e2 : mapAdd f g = f ++ [(c.id, fragment)] := by
        rw [hge]; unfold mapAdd
        simp only [List.foldl_cons, List.foldl_nil]
        exact add_of_not_has f c.id fragment (not_has_of_not_mem _ _ hcnot)
      rw [e1, e2]
      refine ⟨_, rfl, ?_, ?_⟩
      · intro id
        simp only [List.take_succ_cons, usedBy_cons, hu id]
        rw [get_append, hge]
        have hfn : f.has id = false → f.get id = 0 := Plan.get_of_not_has f id
        by_cases hh : f.has id = true
        · simp only [hh, if_true]
          have : c.id ≠ id := by
            intro e; rw [← e] at hh; exact hcnot ((has_eq_mem_keys f c.id).mp hh)
          simp only [Plan.get, this, if_false]; omega
        · have hh' : f.has id = false := by simpa using hh
          simp only [hh', Bool.false_eq_true, if_false, hfn hh']; omega
      · intro p hp
        rcases List.mem_cons.mp hp with hp | hp
        · subst hp
          refine ⟨picked, [(c.id, fragment)], by rw [hfmap], hl, Or.inr ⟨hfr, c.id, rfl⟩, ?_, ?_⟩
          · simp only [Plan.keys, List.map_append, List.map_cons, List.map_nil]
            have : List.map (fun x => x.1) f = picked.map (·.id) := hkeys
            rw [this]
            refine List.nodup_append.mpr ⟨hnp, by simp, ?_⟩
            intro a ha b hb
            simp only [List.mem_singleton] at hb
            subst hb
            intro e; subst e
            exact hcnot (by rw [hkeys]; exact ha)
          · intro k hk
            simp only [Plan.keys, List.map_append, List.map_cons, List.map_nil, List.mem_append, List.mem_singleton] at hk
            rw [List.map_append] 
            rcases hk with hk | hk
            · have : k ∈ picked.map (·.id) := by rw [← hkeys]; exact hk
              obtain ⟨c', hc', rfl⟩ := List.mem_map.mp this
              exact List.mem_append_left _ (hip c' hc')
            · subst hk; exact List.mem_append_right _ (List.mem_map_of_mem hcG)
        · exact hform p hp


/-! ### the conversion loop and host.getCPUPlans -/

structure HostOK (B : Int) (h : Host) : Prop where
  full : ∀ c ∈ h.full, FullCore B c
  frag : ∀ c ∈ h.frag, 0 < c.pieces
  nodup : ((h.full ++ h.frag).map (·.id)).Nodup

theorem piecesOf_nonneg (l : List Core) (hl : ∀ c ∈ l, 0 ≤ c.pieces) (id : String) : 0 ≤ piecesOf l id := by
  induction l with
  | nil => simp [piecesOf]
  | cons x xs ihx =>
    simp only [piecesOf]
    have := ihx (fun c hc => hl c (List.mem_cons_of_mem _ hc))
    have := hl x (List.mem_cons_self ..)
    split <;> omega

theorem piecesOf_take_le (l : List Core) (n : Nat) (hl : ∀ c ∈ l, 0 ≤ c.pieces) (id : String) :
    piecesOf (l.take n) id ≤ piecesOf l id := by
  have h := piecesOf_append (l.take n) (l.drop n) id
  rw [List.take_append_drop] at h
  have := piecesOf_nonneg (l.drop n) (fun c hc => hl c (List.mem_of_mem_drop hc)) id
  omega

theorem fragment_length_append (a b : List Core) (f : Int) :
    (getFragmentPlans (a ++ b) f).length = (getFragmentPlans a f).length + (getFragmentPlans b f).length := by
  unfold getFragmentPlans; simp [List.flatMap_append]

theorem fragment_length_sum (cs : List Core) (f : Int) (hf : 1 ≤ f) (hpos : ∀ c ∈ cs, 0 ≤ c.pieces) :
    ((getFragmentPlans cs f).length : Int) = (cs.map fun c => c.pieces.tdiv f).sum := by
  induction cs with
  | nil => simp [getFragmentPlans]
  | cons c cs ih =>
    have := ih (fun c hc => hpos c (List.mem_cons_of_mem _ hc))
    have h0 : 0 ≤ c.pieces.tdiv f := Int.tdiv_nonneg (hpos c (List.mem_cons_self ..)) (by omega)
    simp only [getFragmentPlans, List.flatMap_cons, List.length_append, List.length_replicate, List.map_cons, List.sum_cons] at this ⊢
    omega

def BestOK (B : Int) (full : Nat) (fragment : Int) (tot : String → Int) (ids : List String) (best : Best) : Prop :=
  ∃ F G : List Core,
    (∀ p ∈ best.fullPlans, IsRound B full (F.map (·.id)) p) ∧
    best.fragPlans = getFragmentPlans G fragment ∧
    (∀ id, usedBy best.fullPlans id ≤ piecesOf F id) ∧
    ((F ++ G).map (·.id)).Nodup ∧
    (∀ id, piecesOf (F ++ G) id ≤ tot id) ∧
    (∀ c ∈ G, 0 ≤ c.pieces) ∧
    (∀ k ∈ (F ++ G).map (·.id), k ∈ ids) ∧
    best.cap ≤ best.fullPlans.length ∧ best.cap ≤ best.fragPlans.length

theorem fullCore_nonneg {B : Int} (hB : 1 ≤ B) {c : Core} (h : FullCore B c) : 0 ≤ c.pieces := by
  have := h.1; omega

theorem convertLoop_spec (B : Int) (hB : 1 ≤ B) (aff : Bool) (full : Int) (hf : 1 ≤ full) (fragment : Int) (hfr : 1 ≤ fragment)
    (maxFrag : Int) (tot : String → Int) (ids : List String)
    (R G : List Core) (hR : ∀ c ∈ R, FullCore B c) (hG : ∀ c ∈ G, 0 ≤ c.pieces)
    (hn : ((R ++ G).map (·.id)).Nodup) (htot : ∀ id, piecesOf (R ++ G) id ≤ tot id)
    (hids : ∀ k ∈ (R ++ G).map (·.id), k ∈ ids) (hmax : maxFrag ≤ (R.length : Int) + G.length)
    (total : Int) (htotal : total = (getFragmentPlans G fragment).length)
    (best : Best) (hbest : BestOK B full.toNat fragment tot ids best) :
    ∃ best', convertLoop B aff full fragment maxFrag R G total best = .ok best' ∧ BestOK B full.toNat fragment tot ids best' := by
  induction R generalizing G total best with
  | nil =>
    simp only [convertLoop]
    simp only [List.length_nil] at hmax
    rw [if_neg (by omega)]
    exact ⟨best, rfl, hbest⟩
  | cons c R ih =>
    simp only [convertLoop]
    split
    · -- convert `c`
      have hcF := hR c (List.mem_cons_self ..)
      have hR' : ∀ c ∈ R, FullCore B c := fun c hc => hR c (List.mem_cons_of_mem _ hc)
      have hperm : (R ++ (G ++ [c])).Perm (c :: R ++ G) := by
        rw [← List.append_assoc]
        exact (List.perm_append_singleton c (R ++ G))
      have hn' : ((R ++ (G ++ [c])).map (·.id)).Nodup := ((hperm.map _).nodup_iff).mpr hn
      have hnR : (R.map (·.id)).Nodup := by
        rw [List.map_append] at hn'; exact (List.nodup_append.mp hn').1
      obtain ⟨fullPlans, hfp, hfu, hfr2⟩ := getFullPlans_spec B hB aff R full hf hR' hnR
      rw [hfp]
      simp only []
      have hG' : ∀ x ∈ G ++ [c], 0 ≤ x.pieces := by
        intro x hx
        rcases List.mem_append.mp hx with hx | hx
        · exact hG x hx
        · simp only [List.mem_singleton] at hx; subst hx; exact fullCore_nonneg hB hcF
      have htot' : ∀ id, piecesOf (R ++ (G ++ [c])) id ≤ tot id := by
        intro id; rw [piecesOf_perm hperm]; exact htot id
      have hids' : ∀ k ∈ (R ++ (G ++ [c])).map (·.id), k ∈ ids := by
        intro k hk; exact hids k (((hperm.map _).mem_iff).mp hk)
      have hc0 : 0 ≤ c.pieces.tdiv fragment := Int.tdiv_nonneg (fullCore_nonneg hB hcF) (by omega)
      have htotal' : total + c.pieces.tdiv fragment = ((getFragmentPlans (G ++ [c]) fragment).length : Int) := by
        rw [fragment_length_append, htotal]
        simp only [getFragmentPlans, List.flatMap_cons, List.flatMap_nil, List.append_nil, List.length_replicate]
        omega
      apply ih (G ++ [c]) hR' hG' hn' htot' hids'
        (by simp only [List.length_append, List.length_cons, List.length_nil] at hmax ⊢; omega) _ htotal'
      split
      · -- new best
        refine ⟨R, G ++ [c], hfr2, rfl, hfu, hn', htot', hG', hids', ?_, ?_⟩
        · simp only []; omega
        · simp only []; rw [← htotal']; omega
      · exact hbest
    · exact ⟨best, rfl, hbest⟩


theorem planForm_mono {B : Int} {full : Nat} {fragment : Int} {ids ids' : List String} {p : CpuMap}
    (h : PlanForm B full fragment ids p) (hsub : ∀ k ∈ ids, k ∈ ids') : PlanForm B full fragment ids' p := by
  obtain ⟨picked, tail, e, hl, ht, hn, hk⟩ := h
  exact ⟨picked, tail, e, hl, ht, hn, fun k hkm => hsub k (hk k hkm)⟩

theorem fragOnly_spec (B : Int) (h : Host) (hfullnn : ∀ c ∈ h.full, 0 ≤ c.pieces) (hfragnn : ∀ c ∈ h.frag, 0 ≤ c.pieces)
    (d : Nat) (fragment : Int) (hfr1 : 1 ≤ fragment) :
    (∀ id, usedBy (getFragmentPlans (h.frag ++ h.full.take d) fragment) id ≤ piecesOf (h.full ++ h.frag) id) ∧
    (∀ p ∈ getFragmentPlans (h.frag ++ h.full.take d) fragment,
      PlanForm B 0 fragment ((h.full ++ h.frag).map (·.id)) p) := by
  constructor
  · intro id
    have h1 := (usedBy_fragment (h.frag ++ h.full.take d) fragment hfr1 (by
      intro c hc
      rcases List.mem_append.mp hc with hc | hc
      · exact hfragnn c hc
      · exact hfullnn c (List.mem_of_mem_take hc)) id).2
    refine Int.le_trans h1 ?_
    rw [piecesOf_append, piecesOf_append]
    have := piecesOf_take_le h.full d hfullnn id
    omega
  · intro p hpm
    obtain ⟨c, hc, rfl⟩ := fragment_mem _ _ p hpm
    refine ⟨[], [(c.id, fragment)], by simp, by simp, Or.inr ⟨by omega, c.id, rfl⟩, by simp [Plan.keys], ?_⟩
    intro k hk
    simp only [Plan.keys, List.map_cons, List.map_nil, List.mem_singleton] at hk
    subst hk
    rw [List.map_append]
    rcases List.mem_append.mp hc with hc | hc
    · exact List.mem_append_right _ (List.mem_map_of_mem hc)
    · exact List.mem_append_left _ (List.mem_map_of_mem (List.mem_of_mem_take hc))

/-- **`host.getCPUPlans`** on a host of full cores (positive multiples of `B`) and fragment cores
    (positive pieces) with distinct ids: it returns (no panic, no divergence) for *every* request and
    max-share value; together the plans take from each core at most its pieces; every plan is
    `pieces / B` cores at `B` plus, iff `pieces % B ≠ 0`, one more core with the remainder. -/
theorem hostPlans_spec (B : Int) (hB : 1 ≤ B) (maxShare : Int) (aff : Bool) (h : Host) (hh : HostOK B h) (pieces : Int) :
    ∃ plans, hostPlans B maxShare aff h pieces = .ok plans ∧
      (∀ id, usedBy plans id ≤ piecesOf (h.full ++ h.frag) id) ∧
      (∀ p ∈ plans, PlanForm B (pieces.tdiv B).toNat (pieces.tmod B) ((h.full ++ h.frag).map (·.id)) p) := by
  have hfullnn : ∀ c ∈ h.full, 0 ≤ c.pieces := fun c hc => fullCore_nonneg hB (hh.full c hc)
  have hfragnn : ∀ c ∈ h.frag, 0 ≤ c.pieces := fun c hc => by have := hh.frag c hc; omega
  have hallnn : ∀ c ∈ h.full ++ h.frag, 0 ≤ c.pieces := by
    intro c hc
    rcases List.mem_append.mp hc with hc | hc
    · exact hfullnn c hc
    · exact hfragnn c hc
  unfold hostPlans
  by_cases hp : pieces ≤ 0
  · rw [if_pos hp]
    exact ⟨[], rfl, fun id => by simpa [usedBy] using piecesOf_nonneg _ hallnn id, by simp⟩
  rw [if_neg hp]
  have hp' : 0 ≤ pieces := by omega
  have hdiv : pieces.tdiv B = pieces / B := Int.tdiv_eq_ediv_of_nonneg hp'
  have hmod : pieces.tmod B = pieces % B := Int.tmod_eq_emod_of_nonneg hp'
  have hq0 : 0 ≤ pieces / B := Int.ediv_nonneg hp' (by omega)
  have hm0 : 0 ≤ pieces % B := Int.emod_nonneg _ (by omega)
  have hmB : pieces % B < B := Int.emod_lt_of_pos _ (by omega)
  have hid : pieces % B + pieces / B * B = pieces := Int.emod_add_ediv_mul pieces B
  rw [hdiv, hmod]
  simp only []
  have hnF : (h.full.map (·.id)).Nodup := by
    have := hh.nodup; rw [List.map_append] at this; exact (List.nodup_append.mp this).1
  have hsubF : ∀ k ∈ h.full.map (·.id), k ∈ (h.full ++ h.frag).map (·.id) := by
    intro k hk; rw [List.map_append]; exact List.mem_append_left _ hk
  by_cases hfz : pieces % B = 0
  · -- whole cores only
    rw [if_pos hfz]
    have hf1 : 1 ≤ pieces / B := by
      rcases (by omega : pieces / B = 0 ∨ 1 ≤ pieces / B) with h0 | h1
      · rw [h0, hfz] at hid; omega
      · exact h1
    obtain ⟨plans, hpl, hu, hr⟩ := getFullPlans_spec B hB aff h.full (pieces / B) hf1 hh.full hnF
    refine ⟨plans, hpl, ?_, ?_⟩
    · intro id
      rw [piecesOf_append]
      have := piecesOf_nonneg _ hfragnn id
      have := hu id; omega
    · intro p hpm
      rw [hfz]
      exact planForm_mono (isRound_form (hr p hpm)) hsubF
  rw [if_neg hfz]
  have hfr1 : 1 ≤ pieces % B := by omega
  by_cases hq : pieces / B = 0
  · -- one fragment only
    rw [if_pos hq]
    simp only [hq, Int.sub_zero]
    have hnp : ¬ ((h.full.length : Int) <
        max ((if maxShare = -1 ∨ (h.full.length : Int) + h.frag.length < maxShare then (h.full.length : Int) + h.frag.length else maxShare) - h.frag.length) 0) := by
      split <;> omega
    rw [if_neg hnp]
    have hfo := fragOnly_spec B h hfullnn hfragnn
      (max ((if maxShare = -1 ∨ (h.full.length : Int) + h.frag.length < maxShare then (h.full.length : Int) + h.frag.length else maxShare) - h.frag.length) 0).toNat
      (pieces % B) hfr1
    exact ⟨_, rfl, hfo.1, hfo.2⟩
  · -- whole cores plus one fragment
    rw [if_neg hq]
    have hf1 : 1 ≤ pieces / B := by omega
    obtain ⟨fullPlans, hfp, hfu, hfr2⟩ := getFullPlans_spec B hB aff h.full (pieces / B) hf1 hh.full hnF
    rw [hfp]
    simp only []
    have hbest0 : BestOK B (pieces / B).toNat (pieces % B) (piecesOf (h.full ++ h.frag)) ((h.full ++ h.frag).map (·.id))
        { fullPlans := fullPlans, fragPlans := getFragmentPlans h.frag (pieces % B),
          cap := min (fullPlans.length : Int) (getFragmentPlans h.frag (pieces % B)).length } :=
      ⟨h.full, h.frag, hfr2, rfl, hfu, hh.nodup, fun id => Int.le_refl _, hfragnn, fun k hk => hk, by simp only []; omega, by simp only []; omega⟩
    have htotal0 : (h.frag.map fun c => c.pieces.tdiv (pieces % B)).sum = ((getFragmentPlans h.frag (pieces % B)).length : Int) :=
      (fragment_length_sum h.frag (pieces % B) hfr1 hfragnn).symm
    obtain ⟨best', hcl, hb'⟩ := convertLoop_spec B hB aff (pieces / B) hf1 (pieces % B) hfr1
      (if maxShare = -1 ∨ (h.full.length : Int) + h.frag.length - pieces / B < maxShare then (h.full.length : Int) + h.frag.length - pieces / B else maxShare)
      (piecesOf (h.full ++ h.frag))
      ((h.full ++ h.frag).map (·.id)) h.full h.frag hh.full hfragnn hh.nodup (fun id => Int.le_refl _) (fun k hk => hk)
      (by split <;> omega) _ htotal0 _ hbest0
    rw [hcl]
    simp only []
    obtain ⟨F, G, b1, b2, b3, b4, b5, b6, b7, b8, b9⟩ := hb'
    obtain ⟨plans, hz, hzu, hzf⟩ := zipPlans_spec B (by omega) (pieces / B).toNat (pieces % B) hfz F G b4 best'.cap.toNat
      best'.fullPlans best'.fragPlans (by omega) (by omega) b1 (by rw [b2]; exact fun g hg => fragment_mem _ _ g hg)
    rw [hz]
    refine ⟨plans, rfl, ?_, ?_⟩
    · intro id
      rw [hzu id]
      have t1 := (usedBy_take_le best'.fullPlans best'.cap.toNat id (fun p hp => isRound_get_nonneg (by omega) (b1 p hp) id)).2
      have t2 := (usedBy_take_le best'.fragPlans best'.cap.toNat id (by
        rw [b2]; exact fun p hp => fragment_get_nonneg _ _ hfr1 p hp id)).2
      have t3 := b3 id
      have t4 : usedBy best'.fragPlans id ≤ piecesOf G id := by rw [b2]; exact (usedBy_fragment G _ hfr1 b6 id).2
      have t5 := b5 id
      rw [piecesOf_append] at t5
      omega
    · intro p hpm
      exact planForm_mono (hzf p hpm) b7

end Eru.CpuMem
