import Eru.Basic.Float64
import Mathlib.Tactic.Linarith
import Mathlib.Tactic.Ring
import Mathlib.Tactic.FieldSimp
import Mathlib.Tactic.Positivity
import Mathlib.Algebra.Order.Field.Power
/-
Error analysis of the software binary64 (`Eru/Basic/Float64.lean`):
* `roundRat_spec` — relative error of one rounding is at most 2⁻⁵³,
* `piecesRound_exact` — `int(math.Round(fl(k/B) * float64(B))) = k` for every `1 ≤ k ≤ 2^50`, `1 ≤ B`.
-/
namespace Eru.Float64

/-- the rational value of a software double -/
def F.toRat (x : F) : ℚ := (x.n : ℚ) * (2 : ℚ) ^ x.e

theorem rne_bounds (num den : ℕ) (hd : 0 < den) :
    2 * (rne num den * den) ≤ 2 * num + den ∧ 2 * num ≤ 2 * (rne num den * den) + den := by
  unfold rne
  have h := Nat.div_add_mod num den
  have hr := Nat.mod_lt num hd
  have hq : num / den * den = den * (num / den) := Nat.mul_comm ..
  have hq1 : (num / den + 1) * den = den * (num / den) + den := by rw [Nat.add_mul, hq, Nat.one_mul]
  simp only []
  split
  · rw [hq]; omega
  · split
    · rw [hq1]; omega
    · split
      · rw [hq]; omega
      · rw [hq1]; omega

theorem rne_rat (num den : ℕ) (hd : 0 < den) :
    |(rne num den : ℚ) - (num : ℚ) / den| ≤ 1 / 2 := by
  obtain ⟨h1, h2⟩ := rne_bounds num den hd
  have hd' : (0 : ℚ) < den := by exact_mod_cast hd
  have hx : (num : ℚ) / den * den = num := div_mul_cancel₀ _ (ne_of_gt hd')
  have h1' : (2 : ℚ) * (rne num den * den) ≤ 2 * num + den := by exact_mod_cast h1
  have h2' : (2 : ℚ) * num ≤ 2 * (rne num den * den) + den := by exact_mod_cast h2
  set x := (num : ℚ) / den
  set n := (rne num den : ℚ)
  rw [abs_le]
  constructor
  · by_contra hc
    push Not at hc
    have := mul_pos (show (0:ℚ) < -(1/2) - (n - x) by linarith) hd'
    nlinarith
  · by_contra hc
    push Not at hc
    have := mul_pos (show (0:ℚ) < (n - x) - 1/2 by linarith) hd'
    nlinarith

/-- one rounding step with scaled numerator/denominator -/
theorem round_step (n num den : ℕ) (hd : 0 < den) (s : ℤ) (q : ℚ)
    (hq : (num : ℚ) / den = q * (2 : ℚ) ^ s) (hn : |(n : ℚ) - (num : ℚ) / den| ≤ 1 / 2)
    (hlow : 2 ^ 52 * den ≤ num) :
    |(n : ℚ) * (2 : ℚ) ^ (-s) - q| * 2 ^ 53 ≤ q := by
  have hd' : (0 : ℚ) < den := by exact_mod_cast hd
  have hp : (0 : ℚ) < (2 : ℚ) ^ (-s) := by positivity
  have hm : (2 : ℚ) ^ 52 ≤ (num : ℚ) / den := by
    rw [le_div_iff₀ hd']
    exact_mod_cast hlow
  have hqe : q = (num : ℚ) / den * (2 : ℚ) ^ (-s) := by
    rw [hq, mul_assoc, ← zpow_add₀ (by norm_num : (2:ℚ) ≠ 0)]; simp
  set m := (num : ℚ) / den
  have e1 : (n : ℚ) * (2 : ℚ) ^ (-s) - q = ((n : ℚ) - m) * (2 : ℚ) ^ (-s) := by rw [hqe]; ring
  rw [e1, abs_mul, abs_of_pos hp, hqe]
  have : |(n : ℚ) - m| * (2:ℚ) ^ (-s) ≤ 1 / 2 * (2:ℚ) ^ (-s) := mul_le_mul_of_nonneg_right hn (le_of_lt hp)
  have h2 : (2:ℚ) ^ 52 * (2:ℚ) ^ (-s) ≤ m * (2:ℚ) ^ (-s) := mul_le_mul_of_nonneg_right hm (le_of_lt hp)
  nlinarith

theorem log2_bounds (a : ℕ) (ha : 0 < a) : 2 ^ a.log2 ≤ a ∧ a < 2 ^ (a.log2 + 1) :=
  ⟨Nat.log2_self_le (Nat.pos_iff_ne_zero.mp ha), Nat.lt_log2_self⟩

/-- **relative error of one rounding ≤ 2⁻⁵³** -/
theorem roundRat_spec (a b : ℕ) (ha : 0 < a) (hb : 0 < b) :
    |(roundRat a b).toRat - (a : ℚ) / b| * 2 ^ 53 ≤ (a : ℚ) / b := by
  obtain ⟨la1, la2⟩ := log2_bounds a ha
  obtain ⟨lb1, lb2⟩ := log2_bounds b hb
  have hb' : (0 : ℚ) < b := by exact_mod_cast hb
  unfold roundRat
  rw [if_neg (Nat.pos_iff_ne_zero.mp ha)]
  simp only []
  set s : ℤ := 53 + (Nat.log2 b : ℤ) - (Nat.log2 a : ℤ) with hs
  -- the scaled fraction and its lower bound
  have key : ∀ num den : ℕ, num = (if 0 ≤ s then a * 2 ^ s.toNat else a) →
      den = (if 0 ≤ s then b else b * 2 ^ (-s).toNat) →
      0 < den ∧ (num : ℚ) / den = (a : ℚ) / b * (2 : ℚ) ^ s ∧ 2 ^ 52 * den < num := by
    intro num den hnum hden
    by_cases h0 : 0 ≤ s
    · rw [if_pos h0] at hnum hden
      rw [hnum, hden]
      refine ⟨hb, ?_, ?_⟩
      · have : (2 : ℚ) ^ s = (2 : ℚ) ^ s.toNat := by
          rw [← zpow_natCast]; congr 1; omega
        rw [this]; push_cast; ring
      · have e : s.toNat + a.log2 = 53 + b.log2 := by omega
        calc 2 ^ 52 * b < 2 ^ 52 * 2 ^ (b.log2 + 1) := Nat.mul_lt_mul_of_pos_left lb2 (by positivity)
          _ = 2 ^ s.toNat * 2 ^ a.log2 := by rw [← pow_add, ← pow_add]; congr 1; omega
          _ ≤ a * 2 ^ s.toNat := by rw [Nat.mul_comm]; exact Nat.mul_le_mul_right _ la1
    · rw [if_neg h0] at hnum hden
      rw [hnum, hden]
      push Not at h0
      refine ⟨by positivity, ?_, ?_⟩
      · have : (2 : ℚ) ^ s = ((2 : ℚ) ^ (-s).toNat)⁻¹ := by
          rw [← zpow_natCast, ← zpow_neg]; congr 1; omega
        rw [this]; push_cast; field_simp
      · calc 2 ^ 52 * (b * 2 ^ (-s).toNat) < 2 ^ 52 * (2 ^ (b.log2 + 1) * 2 ^ (-s).toNat) := by
              apply Nat.mul_lt_mul_of_pos_left _ (by positivity)
              exact Nat.mul_lt_mul_of_pos_right lb2 (by positivity)
          _ = 2 ^ a.log2 := by rw [← pow_add, ← pow_add]; congr 1; omega
          _ ≤ a := la1
  obtain ⟨hden, hq, hlow⟩ := key _ _ rfl rfl
  set num := (if 0 ≤ s then a * 2 ^ s.toNat else a)
  set den := (if 0 ≤ s then b else b * 2 ^ (-s).toNat)
  split
  · rename_i hbig
    -- one more halving: denominator 2·den, exponent 1 - s = -(s - 1)
    have hd2 : 0 < 2 * den := by omega
    have hq2 : (num : ℚ) / ((2 * den : ℕ) : ℚ) = (a : ℚ) / b * (2 : ℚ) ^ (s - 1) := by
      rw [zpow_sub₀ (by norm_num : (2:ℚ) ≠ 0), zpow_one, ← mul_div_assoc, ← hq]
      push_cast
      have hd' : (0 : ℚ) < den := by exact_mod_cast hden
      field_simp
    have hlow2 : 2 ^ 52 * (2 * den) ≤ num := by
      have : 2 ^ 52 * (2 * den) = 2 ^ 53 * den := by ring
      omega
    have := round_step (rne num (2 * den)) num (2 * den) hd2 (s - 1) _ hq2 (rne_rat _ _ hd2) hlow2
    simpa [F.toRat, neg_sub] using this
  · have := round_step (rne num den) num den hden s _ hq (rne_rat _ _ hden) (le_of_lt hlow)
    simpa [F.toRat] using this

theorem roundRat_pos (a b : ℕ) (ha : 0 < a) (hb : 0 < b) : 0 < (roundRat a b).toRat := by
  have h := roundRat_spec a b ha hb
  have hq : (0 : ℚ) < (a : ℚ) / b := by positivity
  by_contra hc
  push Not at hc
  have : |(roundRat a b).toRat - (a : ℚ) / b| = (a : ℚ) / b - (roundRat a b).toRat := by
    rw [abs_of_nonpos (by linarith)]; ring
  rw [this] at h
  nlinarith


theorem pos_n_of_toRat_pos (x : F) (h : 0 < x.toRat) : 0 < x.n := by
  rcases Nat.eq_zero_or_pos x.n with h0 | h0
  · exfalso; unfold F.toRat at h; rw [h0] at h; simp at h
  · exact h0

/-- `x * float64(k)`: one rounding of the exact product -/
theorem mulNat_spec (x : F) (k : ℕ) (hx : 0 < x.n) (hk : 0 < k) :
    |(mulNat x k).toRat - x.toRat * k| * 2 ^ 53 ≤ x.toRat * k := by
  unfold mulNat
  split
  · rename_i he
    have hpos : 0 < x.n * k * 2 ^ x.e.toNat := by positivity
    have h := roundRat_spec (x.n * k * 2 ^ x.e.toNat) 1 hpos Nat.one_pos
    have e : ((x.n * k * 2 ^ x.e.toNat : ℕ) : ℚ) / ((1 : ℕ) : ℚ) = x.toRat * k := by
      unfold F.toRat
      have : (2 : ℚ) ^ x.e = (2 : ℚ) ^ x.e.toNat := by
        rw [← zpow_natCast]; congr 1; omega
      rw [this]; push_cast; ring
    rw [e] at h; exact h
  · rename_i he
    have hpos : 0 < x.n * k := by positivity
    have hd : 0 < 2 ^ (-x.e).toNat := by positivity
    have h := roundRat_spec (x.n * k) (2 ^ (-x.e).toNat) hpos hd
    have e : ((x.n * k : ℕ) : ℚ) / ((2 ^ (-x.e).toNat : ℕ) : ℚ) = x.toRat * k := by
      unfold F.toRat
      have : (2 : ℚ) ^ x.e = ((2 : ℚ) ^ (-x.e).toNat)⁻¹ := by
        rw [← zpow_natCast, ← zpow_neg]; congr 1; omega
      rw [this]; push_cast; field_simp
    rw [e] at h; exact h

/-- `math.Round` returns the integer within 1/2 -/
theorem roundHalfAway_eq (x : F) (k : ℕ) (h : |x.toRat - k| < 1 / 2) : roundHalfAway x = k := by
  rw [abs_sub_lt_iff] at h
  obtain ⟨h1, h2⟩ := h
  unfold roundHalfAway
  split
  · rename_i he
    have e : x.toRat = ((x.n * 2 ^ x.e.toNat : ℕ) : ℚ) := by
      unfold F.toRat
      have : (2 : ℚ) ^ x.e = (2 : ℚ) ^ x.e.toNat := by
        rw [← zpow_natCast]; congr 1; omega
      rw [this]; push_cast; ring
    rw [e] at h1 h2
    set N := x.n * 2 ^ x.e.toNat
    have a1 : (N : ℚ) < (k : ℚ) + 1 := by linarith
    have a2 : (k : ℚ) < (N : ℚ) + 1 := by linarith
    have b1 : N < k + 1 := by exact_mod_cast a1
    have b2 : k < N + 1 := by exact_mod_cast a2
    omega
  · rename_i he
    set d := 2 ^ (-x.e).toNat with hd
    have hdpos : 0 < d := by positivity
    have hd' : (0 : ℚ) < d := by exact_mod_cast hdpos
    have e : x.toRat = (x.n : ℚ) / d := by
      unfold F.toRat
      have : (2 : ℚ) ^ x.e = ((2 : ℚ) ^ (-x.e).toNat)⁻¹ := by
        rw [← zpow_natCast, ← zpow_neg]; congr 1; omega
      rw [this, hd]; push_cast; ring
    rw [e] at h1 h2
    have c1 : (x.n : ℚ) < ((k : ℚ) + 1 / 2) * d := by
      rw [← div_lt_iff₀ hd']; linarith
    have c2 : ((k : ℚ) - 1 / 2) * d < x.n := by
      rw [← lt_div_iff₀ hd']; linarith
    have b1 : (2 * x.n + d : ℚ) < ((k : ℚ) + 1) * (2 * d) := by nlinarith
    have b2 : (k : ℚ) * (2 * d) < 2 * x.n + d := by nlinarith
    have n1 : 2 * x.n + d < (k + 1) * (2 * d) := by exact_mod_cast b1
    have n2 : k * (2 * d) < 2 * x.n + d := by exact_mod_cast b2
    exact Nat.div_eq_of_lt_le (le_of_lt n2) n1

/-- **C05, amount** (general form): a decimal request `a/b` that equals `k/B` exactly (`a·B = k·b`), written
    as the double nearest to `a/b`, is converted back to exactly `k` pieces by
    `int(math.Round(req * float64(B)))`, for every `1 ≤ k ≤ 2^50` (exponent range of binary64 not
    modelled: values in `[2^-1000, 2^1000]`). -/
theorem piecesRound_exact' (a b B k : ℕ) (hb : 0 < b) (hk : 1 ≤ k) (hk2 : k ≤ 2 ^ 50) (hB : 1 ≤ B)
    (hab : a * B = k * b) : piecesRound a b B = k := by
  have ha : 0 < a := by
    rcases Nat.eq_zero_or_pos a with h0 | h0
    · rw [h0] at hab; simp at hab
      rcases hab with h | h <;> omega
    · exact h0
  unfold piecesRound
  apply roundHalfAway_eq
  have h1 := roundRat_spec a b ha hb
  have p1 := roundRat_pos a b ha hb
  have h2 := mulNat_spec (roundRat a b) B (pos_n_of_toRat_pos _ p1) hB
  set r1 := (roundRat a b).toRat
  set r2 := (mulNat (roundRat a b) B).toRat
  have hB' : (0 : ℚ) < B := by exact_mod_cast hB
  have hb' : (0 : ℚ) < b := by exact_mod_cast hb
  have hk' : (1 : ℚ) ≤ k := by exact_mod_cast hk
  have hk2' : (k : ℚ) ≤ 2 ^ 50 := by exact_mod_cast hk2
  have hab' : (a : ℚ) * B = k * b := by exact_mod_cast hab
  have hq : (a : ℚ) / b * B = k := by
    rw [div_mul_eq_mul_div, hab', mul_div_assoc, div_self (ne_of_gt hb'), mul_one]
  set q := (a : ℚ) / b
  have pw : (0 : ℚ) ≤ 2 ^ 53 := by positivity
  have h1b : (r1 - q) * 2 ^ 53 ≤ q := le_trans (mul_le_mul_of_nonneg_right (le_abs_self _) pw) h1
  have h1a : -q ≤ (r1 - q) * 2 ^ 53 := by
    have := mul_le_mul_of_nonneg_right (neg_abs_le (r1 - q)) pw; linarith
  have h2b : (r2 - r1 * B) * 2 ^ 53 ≤ r1 * B := le_trans (mul_le_mul_of_nonneg_right (le_abs_self _) pw) h2
  have h2a : -(r1 * B) ≤ (r2 - r1 * B) * 2 ^ 53 := by
    have := mul_le_mul_of_nonneg_right (neg_abs_le (r2 - r1 * B)) pw; linarith
  have a1 : (r1 * B - k) * 2 ^ 53 ≤ k := by
    have := mul_le_mul_of_nonneg_right h1b (le_of_lt hB'); nlinarith
  have a2 : -(k : ℚ) ≤ (r1 * B - k) * 2 ^ 53 := by
    have := mul_le_mul_of_nonneg_right h1a (le_of_lt hB'); nlinarith
  rw [abs_lt]
  constructor <;> nlinarith

/-- the request written as `k/B` itself -/
theorem piecesRound_exact (k B : ℕ) (hk : 1 ≤ k) (hk2 : k ≤ 2 ^ 50) (hB : 1 ≤ B) :
    piecesRound k B B = k := piecesRound_exact' k B B k hB hk hk2 hB rfl

end Eru.Float64
