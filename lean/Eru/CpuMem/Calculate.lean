import Eru.CpuMem.Schedule
/-
Model of resource/plugins/cpumem/calculate.go (CalculateDeploy, CalculateRealloc for an
unchanged CPU request), types/workload.go `Validate`, and node.go `SetNodeResourceUsage`
(delta, incr) as used to commit a deployment.  CPU amounts are integers in 1/1000 core.
-/
namespace Eru.CpuMem
open Eru

/-- raw `WorkloadResourceRequest` (after `Parse`), CPU in thousandths of a core -/
structure RawReq where
  bind : Bool
  keepBind : Bool := false
  cpuReq : Int
  cpuLim : Int
  memReq : Int
  memLim : Int
  deriving Repr, DecidableEq, Inhabited

/-- first statement of `Validate`: an absent request defaults to the limit -/
def RawReq.pre (w : RawReq) : RawReq :=
  if w.cpuReq = 0 ∧ 0 < w.cpuLim then { w with cpuReq := w.cpuLim } else w

/-- the four adjusting statements after the checks -/
def RawReq.post (w : RawReq) : RawReq :=
  let w := if w.memReq = 0 ∧ 0 < w.memLim then { w with memReq := w.memLim } else w
  let w := if 0 < w.memLim ∧ 0 < w.memReq ∧ w.memLim < w.memReq then { w with memLim := w.memReq } else w
  let w := if 0 < w.cpuReq ∧ 0 < w.cpuLim ∧ w.cpuLim < w.cpuReq then { w with cpuLim := w.cpuReq } else w
  if w.bind ∧ 0 < w.cpuReq ∧ 0 < w.cpuLim ∧ w.cpuReq < w.cpuLim then { w with cpuReq := w.cpuLim } else w

/-- `WorkloadResourceRequest.Validate` (comparisons and assignments only: exact on thousandths) -/
def RawReq.validate (w : RawReq) : Outcome RawReq :=
  if w.pre.memLim < 0 ∨ w.pre.memReq < 0 then .err errInvalid
  else if w.pre.cpuReq < 0 ∨ w.pre.cpuLim < 0 then .err errInvalid
  else if w.pre.cpuReq = 0 ∧ w.pre.bind then .err errInvalid
  else .ok w.pre.post

def RawReq.toReq (w : RawReq) : Req := { bind := w.bind, cpuNum := w.cpuReq.toNat, cpuDen := 1000, mem := w.memReq }

/-- `WorkloadResource` -/
structure Workload where
  cpuReq : Int
  cpuLim : Int
  memReq : Int
  memLim : Int
  cpuMap : CpuMap := []
  numaMem : Eru.Plan := []
  numa : String := ""
  deriving Repr, DecidableEq, Inhabited

/-- `doAllocByMemory` -/
def allocByMemory (info : NodeInfo) (count : Int) (w : RawReq) : Outcome (List Workload) :=
  if (info.cap.cpuMap.length : Int) * 1000 < w.cpuReq then .err errInsufficientCapacity
  else if 0 < w.memReq ∧ info.available.mem.tdiv w.memReq < count then .err errInsufficientCapacity
  else .ok (List.replicate count.toNat { cpuReq := w.cpuReq, cpuLim := w.cpuLim, memReq := w.memReq, memLim := w.memLim })

/-- `doAllocByCPU` -/
def allocByCPU (info : NodeInfo) (B maxShare : Int) (count : Int) (w : RawReq) (order : List String) : Outcome (List Workload) :=
  match getCPUPlans info [] B maxShare w.toReq order with
  | .ok plans =>
    if (plans.length : Int) < count then .err errInsufficientCapacity
    else if count < 0 then .panic "slice bounds out of range"
    else .ok ((plans.take count.toNat).map fun p =>
      { cpuReq := w.cpuReq, cpuLim := w.cpuLim, memReq := w.memReq, memLim := w.memLim, cpuMap := p.cpuMap, numa := p.numa,
        numaMem := if p.numa.isEmpty then [] else [(p.numa, w.memReq)] })
  | .err e => .err e
  | .panic m => .panic m
  | .diverge => .diverge

/-- `CalculateDeploy` (node info already loaded) -/
def calculateDeploy (info : NodeInfo) (B maxShare : Int) (count : Int) (raw : RawReq) (order : List String) : Outcome (List Workload) :=
  match raw.validate with
  | .ok w => if w.bind then allocByCPU info B maxShare count w order else allocByMemory info count w
  | .err e => .err e
  | .panic m => .panic m
  | .diverge => .diverge

/-- `doGetNodeDeployCapacity` (the `Capacity` field) behind `GetNodesDeployCapacity`'s `Validate` -/
def nodeDeployCapacity (info : NodeInfo) (B maxShare : Int) (raw : RawReq) (order : List String) : Outcome Int :=
  match raw.validate with
  | .ok w =>
    if !w.bind then
      if (info.cap.cpuMap.length : Int) * 1000 < w.cpuReq then .ok 0
      else if w.memReq = 0 then .ok maxInt
      else .ok (info.available.mem.tdiv w.memReq)
    else
      match getCPUPlans info [] B maxShare w.toReq order with
      | .ok plans => .ok plans.length
      | .err e => .err e
      | .panic m => .panic m
      | .diverge => .diverge
  | .err e => .err e
  | .panic m => .panic m
  | .diverge => .diverge

/-- `calculateNodeResource(nil, nil, usage, workloads, delta=true, incr=true)` -/
def commitUsage (use : NodeRes) (ws : List Workload) : NodeRes :=
  ws.foldl (fun u w => u.add { cpuMap := w.cpuMap, mem := w.memReq, numaMem := w.numaMem }) use

/-- `SetNodeResourceUsage` for a deployment: new usage, then `Validate` on write -/
def commit (info : NodeInfo) (ws : List Workload) : Outcome NodeInfo :=
  let info' : NodeInfo := { info with use := commitUsage info.use ws }
  if info'.validate then .ok info' else .err errInvalid

/-- the float sums `req.CPURequest + origin.CPURequest` (and limits) are exact — hence equal to the
    integer sums in thousandths — when the deltas are zero or all four amounts are multiples of
    0.125 core; other shapes are outside the model (`.err "unmodelled"`, never generated). -/
def reallocExact (origin : Workload) (raw : RawReq) : Prop :=
  (raw.cpuReq = 0 ∧ raw.cpuLim = 0) ∨
  (raw.cpuReq % 125 = 0 ∧ raw.cpuLim % 125 = 0 ∧ origin.cpuReq % 125 = 0 ∧ origin.cpuLim % 125 = 0)

instance (origin : Workload) (raw : RawReq) : Decidable (reallocExact origin raw) := by
  unfold reallocExact; exact inferInstance

/-- the body of `CalculateRealloc` after the sums: `newReq` is validated, and the *validated* values are
    the ones planned and recorded (for a bound request `Validate` raises the request to the limit) -/
def reallocCore (info' : NodeInfo) (B maxShare : Int) (originMap : CpuMap) (newReq : RawReq) (order : List String) : Outcome Workload :=
  match newReq.validate with
  | .ok w =>
    if newReq.bind then
      match getCPUPlans info' originMap B maxShare w.toReq order with
      | .ok [] => .err errInsufficientResource
      | .ok (p :: _) =>
        .ok { cpuReq := w.cpuReq, cpuLim := w.cpuLim, memReq := w.memReq, memLim := w.memLim, cpuMap := p.cpuMap, numa := p.numa,
              numaMem := if p.numa.isEmpty then [] else [(p.numa, w.memReq)] }
      | .err e => .err e
      | .panic m => .panic m
      | .diverge => .diverge
    else
      match allocByMemory info' 1 w with
      | .ok _ => .ok { cpuReq := w.cpuReq, cpuLim := w.cpuLim, memReq := w.memReq, memLim := w.memLim }
      | .err e => .err e
      | .panic m => .panic m
      | .diverge => .diverge
  | .err e => .err e
  | .panic m => .panic m
  | .diverge => .diverge

/-- the node with the workload's resources put back into the pool -/
def givenBack (info : NodeInfo) (origin : Workload) : NodeInfo :=
  { info with use := info.use.sub { cpuMap := origin.cpuMap, mem := origin.memReq, numaMem := origin.numaMem } }

/-- flag handling of `CalculateRealloc` (`if req.KeepCPUBind { req.CPUBind = len(origin.CPUMap) > 0 }`),
    all four combinations:
    * `keep-cpu-bind` only, or together with `cpu-bind`: bound iff the workload has a CPU map — the
      explicit `cpu-bind` is overwritten, both are keep-bind requests;
    * `cpu-bind` only: bound (also for a workload that was not bound before);
    * neither: not bound (a bound workload loses its binding).
    In every bound case the scheduler is given the origin CPU map for affinity. -/
def reallocBind (origin : Workload) (raw : RawReq) : Bool :=
  if raw.keepBind then !origin.cpuMap.isEmpty else raw.bind

/-- the request `CalculateRealloc` validates: old amounts plus deltas -/
def reallocReq (origin : Workload) (raw : RawReq) : RawReq :=
  { bind := reallocBind origin raw,
    cpuReq := raw.cpuReq + origin.cpuReq, cpuLim := raw.cpuLim + origin.cpuLim,
    memReq := raw.memReq + origin.memReq, memLim := raw.memLim + origin.memLim }

/-- `CalculateRealloc`: everything after the float sums is `reallocCore`; the float-exactness guard
    only decides whether the integer sums of `reallocReq` are what the Go code computes. -/
def calculateRealloc (info : NodeInfo) (B maxShare : Int) (origin : Workload) (raw : RawReq) (order : List String) : Outcome Workload :=
  if ¬ reallocExact origin raw then .err "unmodelled"
  else reallocCore (givenBack info origin) B maxShare origin.cpuMap (reallocReq origin raw) order

/-- `deltaWorkloadResource = newResource.DeepCopy().Sub(origin)` (CPU request and CPU map) -/
def reallocDelta (origin new : Workload) : Workload :=
  { cpuReq := new.cpuReq - origin.cpuReq, cpuLim := new.cpuLim - origin.cpuLim, memReq := new.memReq - origin.memReq,
    memLim := new.memLim, cpuMap := mapSub new.cpuMap origin.cpuMap, numaMem := mapSub new.numaMem origin.numaMem, numa := new.numa }

/-- `EngineParams` (CPU in thousandths) -/
structure EngineParams where
  cpu : Int
  mem : Int
  cpuMap : CpuMap := []
  numa : String := ""
  remap : Bool := false
  deriving Repr, DecidableEq, Inhabited

/-- the engine parameters `CalculateDeploy` / `CalculateRealloc` hand out next to a workload resource:
    CPU = recorded CPU limit, Memory = recorded memory limit, CPU map and NUMA node as recorded -/
def engineOf (w : Workload) : EngineParams :=
  { cpu := w.cpuLim, mem := w.memLim, cpuMap := w.cpuMap, numa := w.numa }

/-- committing a re-allocation the way the cluster does: `usage += delta` (`SetNodeResourceUsage` with
    the delta resource, delta + incr), then `Validate` on write -/
def commitRealloc (info : NodeInfo) (origin new : Workload) : Outcome NodeInfo :=
  commit info [reallocDelta origin new]

/-- `CalculateRemap`: unbound workloads get the shared cores (free pieces ≥ one share; all cores if none) -/
def calculateRemap (info : NodeInfo) (B : Int) (ws : List (String × Workload)) : List (String × EngineParams) :=
  let shared := (info.available.cpuMap.filter fun kv => decide (B ≤ kv.2)).map fun kv => (kv.1, B)
  let shared := if shared.isEmpty then info.cap.cpuMap.map fun kv => (kv.1, B) else shared
  (ws.filter fun iw => iw.2.cpuMap.isEmpty).map fun iw =>
    (iw.1, { cpu := iw.2.cpuLim, mem := iw.2.memLim, cpuMap := shared, numa := iw.2.numa, remap := true })

end Eru.CpuMem
