import Eru.CpuMem.ProofsNumaMem
/-
Committing a re-allocation (`usage += delta`) keeps `Validate`.
-/
namespace Eru.CpuMem
open Eru

theorem mem_keys_set_self (m : Eru.Plan) (k : String) (v : Int) : k ∈ (m.set k v).keys := by
  rw [keys_set]; split
  · rename_i h; exact (has_eq_mem_keys m k).mp h
  · simp

theorem mem_keys_set_of_mem (m : Eru.Plan) (k k' : String) (v : Int) (h : k' ∈ m.keys) : k' ∈ (m.set k v).keys := by
  rw [keys_set]; split
  · exact h
  · exact List.mem_append_left _ h

/-- keys of `c[k] ±= v` folds: old keys and the keys of the second map -/
theorem keys_foldAdd (g : Int → Int) (c p : Eru.Plan) (k : String) :
    k ∈ (p.foldl (fun acc kv => acc.add kv.1 (g kv.2)) c).keys ↔ k ∈ c.keys ∨ k ∈ p.keys := by
  induction p generalizing c with
  | nil => simp [Plan.keys]
  | cons kv rest ih =>
    simp only [List.foldl_cons]
    rw [ih]
    simp only [Plan.keys, List.map_cons, List.mem_cons]
    constructor
    · rintro (h | h)
      · rcases mem_keys_set c kv.1 k _ h with h | h
        · left; exact h
        · right; left; exact h
      · right; right; exact h
    · rintro (h | h | h)
      · left; exact mem_keys_set_of_mem c kv.1 k _ h
      · left; rw [h]; exact mem_keys_set_self c kv.1 _
      · right; exact h

theorem keys_mapAdd (c p : Eru.Plan) (k : String) : k ∈ (mapAdd c p).keys ↔ k ∈ c.keys ∨ k ∈ p.keys :=
  keys_foldAdd id c p k

theorem keys_mapSub (c p : Eru.Plan) (k : String) : k ∈ (mapSub c p).keys ↔ k ∈ c.keys ∨ k ∈ p.keys :=
  keys_foldAdd (fun v => -v) c p k

/-- `Validate` only looks at the usage CPU map through its key set and values, and at the usage NUMA
    memory through its values -/
theorem validate_ext (i j : NodeInfo) (hcap : j.cap = i.cap) (hnj : j.use.cpuMap.keys.Nodup)
    (hkeys : ∀ k ∈ j.use.cpuMap.keys, k ∈ i.use.cpuMap.keys) (hg : ∀ k, j.use.cpuMap.get k = i.use.cpuMap.get k)
    (hnm : ∀ n, j.use.numaMem.get n = i.use.numaMem.get n) (hv : i.validate = true) : j.validate = true := by
  unfold NodeInfo.validate NodeInfo.validateCpu NodeInfo.validateNuma at hv ⊢
  simp only [Bool.and_eq_true, Bool.not_eq_true', List.all_eq_true, decide_eq_true_eq, Bool.or_eq_true] at hv ⊢
  obtain ⟨⟨hv1, hv2⟩, hv3⟩ := hv
  rw [hcap]
  refine ⟨⟨hv1, ?_⟩, ?_⟩
  · intro kv hkv
    obtain ⟨k, u⟩ := kv
    have hk : k ∈ j.use.cpuMap.keys := List.mem_map.mpr ⟨(k, u), hkv, rfl⟩
    have hu : j.use.cpuMap.get k = u := get_of_mem_nodup _ k u hkv hnj
    have hi := hv2 (k, i.use.cpuMap.get k) (has_mem_get _ k ((has_eq_mem_keys _ k).mpr (hkeys k hk)))
    simp only [] at hi ⊢
    rw [← hu, hg k]; exact hi
  · rcases hv3 with h | ⟨hA, hB⟩
    · left; exact h
    · right
      refine ⟨hA, ?_⟩
      intro kv hkv
      have := hB kv hkv
      simp only [hnm] 
      exact this


theorem commitUsage_single (use : NodeRes) (w : Workload) :
    commitUsage use [w] = use.add { cpuMap := w.cpuMap, mem := w.memReq, numaMem := w.numaMem } := rfl

/-- **committing a bound re-allocation keeps `Validate`**: on a valid node that is still valid with the
    workload's recorded resources given back (true whenever those resources are part of the node's
    usage), `usage += reallocDelta` after a successful bound `calculateRealloc` is accepted by `Validate`
    (CPU clause and NUMA-memory clause).  All maps are maps (distinct keys). -/
theorem realloc_commit_validate (info : NodeInfo) (B : Int) (hB : 1 ≤ B) (maxShare : Int) (origin : Workload) (raw : RawReq)
    (order : List String) (w' : Workload)
    (hck : info.cap.cpuMap.keys.Nodup) (hnk : (info.cap.numa.map (·.1)).Nodup) (huk : info.use.cpuMap.keys.Nodup)
    (hcm : info.cap.numaMem.keys.Nodup) (hum : info.use.numaMem.keys.Nodup)
    (hok : origin.cpuMap.keys.Nodup) (honm : origin.numaMem.keys.Nodup) (hord : order.Nodup)
    (hvgb : (givenBack info origin).validate = true) (hbind : (reallocReq origin raw).bind = true)
    (h : calculateRealloc info B maxShare origin raw order = .ok w') :
    ∃ info'', commitRealloc info origin w' = .ok info'' ∧ info''.validate = true := by
  unfold calculateRealloc at h
  split at h
  · cases h
  unfold reallocCore at h
  split at h
  · rename_i w hv
    have hmem : 0 ≤ w.memReq := validate_memReq_nonneg _ w hv
    simp only [hbind, if_true] at h
    split at h
    · cases h
    · rename_i p rest hg
      cases h
      -- facts about the node with the workload given back
      have gbuk : (givenBack info origin).use.cpuMap.keys.Nodup := by
        simp only [givenBack, NodeRes.sub]; exact mapSub_keys_nodup _ _ huk
      have gbum : (givenBack info origin).use.numaMem.keys.Nodup := by
        simp only [givenBack, NodeRes.sub]; exact mapSub_keys_nodup _ _ hum
      obtain ⟨ps', hg', _, hok'⟩ := getCPUPlans_spec (givenBack info origin) origin.cpuMap B hB maxShare w.toReq order hord hnk hck
      rw [hg] at hg'; cases hg'
      have hpk : p.cpuMap.keys.Nodup := by
        obtain ⟨⟨ids, hf⟩, _⟩ := hok' p (List.mem_cons_self ..)
        exact planForm_keys_nodup hf
      generalize hw' : ({ cpuReq := w.cpuReq, cpuLim := w.cpuLim, memReq := w.memReq, memLim := w.memLim, cpuMap := p.cpuMap, numa := p.numa, numaMem := if p.numa.isEmpty then [] else [(p.numa, w.memReq)] } : Workload) = wn
      have hwc : wn.cpuMap = p.cpuMap := by rw [← hw']
      have hwm : wn.memReq = w.memReq := by rw [← hw']
      have hwn : wn.numaMem = tagMem w.memReq p := by rw [← hw']; rfl
      have hwnk : wn.numaMem.keys.Nodup := by rw [hwn]; unfold tagMem; split <;> simp [Plan.keys]
      have hV3 := commit_numa_clause (givenBack info origin) origin.cpuMap B maxShare w.toReq order (p :: rest) 1 [wn]
        hord hvgb hcm gbum hmem hg (by simp [hwn]; rfl)
      obtain ⟨i1, hc1, _⟩ := commit_valid_core (givenBack info origin) origin.cpuMap B maxShare w.toReq order (p :: rest) 1 [wn]
        hB hck gbuk hord hvgb hnk hV3 hmem hg (by simp [hwc]) (by intro x hx; simp only [List.mem_singleton] at hx; rw [hx, hwm]; rfl)
      have hv1 : ({ (givenBack info origin) with use := commitUsage (givenBack info origin).use [wn] } : NodeInfo).validate = true := by
        unfold commit at hc1
        simp only [] at hc1
        split at hc1
        · rename_i hvv; exact hvv
        · cases hc1
      -- the Go-style commit (usage += delta) is extensionally the same state
      obtain ⟨d1, d2⟩ := mapSub_spec wn.cpuMap origin.cpuMap (by rw [hwc]; exact hpk) hok
      obtain ⟨j1, j2, _⟩ := mapAdd_spec info.use.cpuMap (mapSub wn.cpuMap origin.cpuMap) huk d1
      obtain ⟨g1, g2⟩ := mapSub_spec info.use.cpuMap origin.cpuMap huk hok
      obtain ⟨i2a, i2b, _⟩ := mapAdd_spec (mapSub info.use.cpuMap origin.cpuMap) wn.cpuMap g1 (by rw [hwc]; exact hpk)
      obtain ⟨nd1, nd2⟩ := mapSub_spec wn.numaMem origin.numaMem hwnk honm
      obtain ⟨_, nj2, _⟩ := mapAdd_spec info.use.numaMem (mapSub wn.numaMem origin.numaMem) hum nd1
      obtain ⟨ng1, ng2⟩ := mapSub_spec info.use.numaMem origin.numaMem hum honm
      obtain ⟨_, ni2, _⟩ := mapAdd_spec (mapSub info.use.numaMem origin.numaMem) wn.numaMem ng1 hwnk
      have hJ : ({ info with use := commitUsage info.use [reallocDelta origin wn] } : NodeInfo).validate = true := by
        apply validate_ext ({ (givenBack info origin) with use := commitUsage (givenBack info origin).use [wn] } : NodeInfo)
          ({ info with use := commitUsage info.use [reallocDelta origin wn] } : NodeInfo) rfl ?_ ?_ ?_ ?_ hv1
        · simp only [commitUsage_single, NodeRes.add, reallocDelta]; exact j1
        · intro k hk
          simp only [commitUsage_single, NodeRes.add, reallocDelta, givenBack, NodeRes.sub] at hk ⊢
          rw [keys_mapAdd, keys_mapSub] at hk
          rw [keys_mapAdd, keys_mapSub]
          rcases hk with hk | hk | hk
          · left; left; exact hk
          · right; exact hk
          · left; right; exact hk
        · intro k
          simp only [commitUsage_single, NodeRes.add, reallocDelta, givenBack, NodeRes.sub]
          rw [j2 k, d2 k, i2b k, g2 k]; omega
        · intro n
          simp only [commitUsage_single, NodeRes.add, reallocDelta, givenBack, NodeRes.sub]
          rw [nj2 n, nd2 n, ni2 n, ng2 n]; omega
      unfold commitRealloc commit
      simp only []
      rw [if_pos hJ]
      exact ⟨_, rfl, hJ⟩
    all_goals cases h
  all_goals cases h

end Eru.CpuMem
