import Eru.CpuMem.Spec
/-
Memory side of C04: the plan list returned by `getCPUPlans` fits the node's free memory.
-/
namespace Eru.CpuMem
open Eru

theorem tdiv_mul_le_max (a m : Int) (hm : 0 < m) : max (a.tdiv m) 0 * m ≤ max a 0 := by
  rcases Int.lt_or_le a 0 with ha | ha
  · have h1 : a.tdiv m ≤ 0 := by
      have h2 : 0 ≤ (-a).tdiv m := Int.tdiv_nonneg (by omega) (Int.le_of_lt hm)
      rw [Int.neg_tdiv] at h2; omega
    have : max (a.tdiv m) 0 = 0 := by omega
    rw [this]; simp; omega
  · rw [Int.tdiv_eq_ediv_of_nonneg ha]
    have h0 : 0 ≤ a / m := Int.ediv_nonneg ha (Int.le_of_lt hm)
    have h1 : a / m * m ≤ a := Int.ediv_mul_le a (Int.ne_of_gt hm)
    have : max (a / m) 0 = a / m := by omega
    rw [this]; omega

/-- `doGetCPUPlans` never returns more plans than the memory it was given allows. -/
theorem doGetCPUPlans_mem (origin avail : CpuMap) (availMem B maxShare : Int) (req : Req) (ps : List CpuMap)
    (h : doGetCPUPlans origin avail availMem B maxShare req = .ok ps) (hm : 0 < req.mem) :
    (ps.length : Int) * req.mem ≤ max availMem 0 := by
  unfold doGetCPUPlans at h
  simp only at h
  split at h
  · rename_i plans hp
    simp only [hm, if_true] at h
    have key := tdiv_mul_le_max availMem req.mem hm
    split at h
    · rename_i hlt
      cases h
      have hlen : ((List.take (max (availMem.tdiv req.mem) 0).toNat plans).length : Int) ≤ max (availMem.tdiv req.mem) 0 := by
        rw [List.length_take]; omega
      calc _ ≤ max (availMem.tdiv req.mem) 0 * req.mem := Int.mul_le_mul_of_nonneg_right hlen (Int.le_of_lt hm)
        _ ≤ _ := key
    · rename_i hge
      cases h
      have hlen : (ps.length : Int) ≤ max (availMem.tdiv req.mem) 0 := by omega
      calc _ ≤ max (availMem.tdiv req.mem) 0 * req.mem := Int.mul_le_mul_of_nonneg_right hlen (Int.le_of_lt hm)
        _ ≤ _ := key
  · rename_i o hne
    cases o <;> simp_all

theorem subPlans_mem (avail : NodeRes) (node : String) (mem : Int) (plans : List CpuMap) :
    (subPlans avail node mem plans).mem = avail.mem - plans.length * mem := by
  unfold subPlans
  induction plans generalizing avail with
  | nil => simp
  | cons p ps ih =>
    simp only [List.foldl_cons, List.length_cons]
    rw [ih]
    simp only [NodeRes.sub]
    rw [Int.natCast_succ, Int.add_mul]; omega

/-- running invariant of the NUMA loop: free memory shrinks by exactly the memory of the plans added
    and never becomes negative (if it was not) -/
theorem numaLoop_mem (origin : CpuMap) (numa : List (String × String)) (avail0 : CpuMap) (B maxShare : Int)
    (req : Req) (hm : 0 < req.mem) (order : List String) (avail : NodeRes) (acc acc' : List CpuPlan) (avail' : NodeRes)
    (h : numaLoop origin numa avail0 B maxShare req order avail acc = .ok (acc', avail')) :
    acc.length ≤ acc'.length ∧
    avail'.mem = avail.mem - ((acc'.length - acc.length : Nat) : Int) * req.mem ∧
    (avail.mem < 0 → acc'.length = acc.length) ∧ (0 ≤ avail.mem → 0 ≤ avail'.mem) := by
  induction order generalizing avail acc with
  | nil =>
    simp only [numaLoop] at h
    cases h
    simp
  | cons node rest ih =>
    simp only [numaLoop] at h
    split at h
    · rename_i plans hp
      have hlen := doGetCPUPlans_mem _ _ _ _ _ _ _ hp hm
      have ih' := ih _ _ h
      rw [subPlans_mem] at ih'
      simp only [List.length_append, List.length_map] at ih'
      obtain ⟨i1, i2, i3, i4⟩ := ih'
      have hmin : max (min (avail.numaMem.get node) avail.mem) 0 ≤ max avail.mem 0 := by omega
      have hl2 : (plans.length : Int) * req.mem ≤ max avail.mem 0 := Int.le_trans hlen hmin
      refine ⟨by omega, ?_, ?_, ?_⟩
      · rw [i2]
        have : ((acc'.length - acc.length : Nat) : Int) = ((acc'.length - (acc.length + plans.length) : Nat) : Int) + plans.length := by omega
        rw [this, Int.add_mul]; omega
      · intro hneg
        have h0 : (plans.length : Int) * req.mem ≤ 0 := by
          have : max avail.mem 0 = 0 := by omega
          omega
        have hp0 : plans.length = 0 := by
          rcases Nat.eq_zero_or_pos plans.length with h | h
          · exact h
          · exfalso
            have : (1 : Int) ≤ plans.length := by omega
            have : 1 * req.mem ≤ (plans.length : Int) * req.mem := Int.mul_le_mul_of_nonneg_right this (Int.le_of_lt hm)
            omega
        have := i3 (by rw [hp0]; simpa using hneg)
        omega
      · intro hpos
        apply i4
        have : max avail.mem 0 = avail.mem := by omega
        omega
    · cases h
    · cases h
    · cases h

/-- **C04, memory**: the plans returned by `GetCPUPlans` together fit the node's free memory. -/
theorem getCPUPlans_fit_memory (info : NodeInfo) (origin : CpuMap) (B maxShare : Int) (req : Req)
    (order : List String) (ps : List CpuPlan)
    (h : getCPUPlans info origin B maxShare req order = .ok ps) :
    fitMemory info.available.mem req.mem ps.length = true := by
  unfold fitMemory
  rcases Int.lt_or_le 0 req.mem with hm | hm
  · unfold getCPUPlans at h
    split at h
    · cases h
    · split at h
      · rename_i acc avail hl
        have inv := numaLoop_mem _ _ _ _ _ _ hm _ _ _ _ _ hl
        simp only [List.length_nil, Nat.sub_zero] at inv
        obtain ⟨_, i2, i3, i4⟩ := inv
        split at h
        · rename_i cross hc
          cases h
          have hlen := doGetCPUPlans_mem _ _ _ _ _ _ _ hc hm
          simp only [List.length_append, List.length_map, Bool.or_eq_true, decide_eq_true_eq, beq_iff_eq]
          rcases Int.lt_or_le info.available.mem 0 with hneg | hpos
          · left; left
            have a0 := i3 hneg
            have hneg' : avail.mem < 0 := by rw [i2, a0]; simpa using hneg
            have : max avail.mem 0 = 0 := by omega
            have h0 : (cross.length : Int) * req.mem ≤ 0 := by omega
            have : cross.length = 0 := by
              rcases Nat.eq_zero_or_pos cross.length with h | h
              · exact h
              · exfalso
                have : (1 : Int) ≤ cross.length := by omega
                have : 1 * req.mem ≤ (cross.length : Int) * req.mem := Int.mul_le_mul_of_nonneg_right this (Int.le_of_lt hm)
                omega
            omega
          · right
            have := i4 hpos
            have hmx : max avail.mem 0 = avail.mem := by omega
            rw [hmx, i2] at hlen
            rw [Int.natCast_add, Int.add_mul]; omega
        all_goals cases h
      all_goals cases h
  · simp only [Bool.or_eq_true, decide_eq_true_eq]
    left; right; exact hm

end Eru.CpuMem
