import Eru.CpuMem.ProofsNuma
/-
Linking the structural facts (`PlanForm`, per-core sums) to the decidable predicates of
`Spec.lean` that the oracle evaluates on the implementation's output.
-/
namespace Eru.CpuMem
open Eru

theorem get_of_mem_nodup (p : Eru.Plan) (k : String) (v : Int) (hm : (k, v) ∈ p) (hn : p.keys.Nodup) : p.get k = v := by
  induction p with
  | nil => simp at hm
  | cons kv rest ih =>
    obtain ⟨a, b⟩ := kv
    simp only [Plan.keys, List.map_cons, List.nodup_cons] at hn
    simp only [Plan.get]
    rcases List.mem_cons.mp hm with h | h
    · cases h; simp
    · have : a ≠ k := by
        intro e; subst e
        exact hn.1 (List.mem_map_of_mem (f := (·.1)) h)
      simp only [this, if_false]
      exact ih h hn.2

theorem usedBy_ge_of_mem (ps : List CpuMap) (p : CpuMap) (hp : p ∈ ps) (id : String) (hnn : ∀ q ∈ ps, 0 ≤ q.get id) :
    p.get id ≤ usedBy ps id := by
  induction ps with
  | nil => simp at hp
  | cons q qs ih =>
    rw [usedBy_cons]
    rcases List.mem_cons.mp hp with h | h
    · subst h
      have := usedBy_nonneg qs id (fun q hq => hnn q (List.mem_cons_of_mem _ hq))
      omega
    · have := ih h (fun q hq => hnn q (List.mem_cons_of_mem _ hq))
      have := hnn q (List.mem_cons_self ..)
      omega

theorem planForm_vals_pos {B : Int} (hB : 1 ≤ B) {full : Nat} {fragment : Int} (hf : 0 ≤ fragment) {ids : List String}
    {p : CpuMap} (h : PlanForm B full fragment ids p) : ∀ kv ∈ p, 0 < kv.2 := by
  obtain ⟨picked, tail, rfl, _, ht, _, _⟩ := h
  intro kv hkv
  rcases List.mem_append.mp hkv with hk | hk
  · obtain ⟨c, _, rfl⟩ := List.mem_map.mp hk; simp only []; omega
  · rcases ht with ⟨_, rfl⟩ | ⟨hne, gid, rfl⟩
    · simp at hk
    · simp only [List.mem_singleton] at hk; subst hk; simp only []; omega

/-- per-core sums within the positive free pieces, with well-formed plans, give the decidable `fitCores` -/
theorem fitCores_of_bound (avail : CpuMap) (plans : List CpuMap) (B : Int) (hB : 1 ≤ B) (full : Nat) (fragment : Int)
    (hf : 0 ≤ fragment) (hform : ∀ p ∈ plans, ∃ ids, PlanForm B full fragment ids p)
    (hu : ∀ id, usedBy plans id ≤ max (avail.get id) 0) : fitCores avail plans = true := by
  unfold fitCores
  rw [List.all_eq_true]
  intro p hp
  rw [List.all_eq_true]
  intro kv hkv
  obtain ⟨k, v⟩ := kv
  obtain ⟨ids, hpf⟩ := hform p hp
  have hv : 0 < v := planForm_vals_pos hB hf hpf (k, v) hkv
  have hg : p.get k = v := get_of_mem_nodup p k v hkv (planForm_keys_nodup hpf)
  have hnn : ∀ q ∈ plans, 0 ≤ q.get k := by
    intro q hq
    obtain ⟨ids', hq'⟩ := hform q hq
    exact planForm_get_nonneg hq' (by omega) hf k
  have hge := usedBy_ge_of_mem plans p hp k hnn
  have hle := hu k
  have hpos : 0 < avail.get k := by omega
  have hhas : avail.has k = true := by
    cases hh : avail.has k with
    | true => rfl
    | false => have := Plan.get_of_not_has avail k hh; omega
  simp only [Bool.and_eq_true, decide_eq_true_eq]
  exact ⟨⟨hhas, hv⟩, by omega⟩

theorem sum_replicate_map (B : Int) (cs : List Core) : ((cs.map fun c => (c.id, B)).map (·.2)).sum = B * cs.length := by
  induction cs with
  | nil => simp
  | cons c cs ih =>
    simp only [List.map_cons, List.sum_cons, ih, List.length_cons, Int.natCast_succ, Int.mul_add, Int.mul_one]; omega

theorem filter_vals_map (B : Int) (cs : List Core) :
    ((cs.map fun c => (c.id, B)).map (·.2)).filter (· == B) = List.replicate cs.length B ∧
    ((cs.map fun c => (c.id, B)).map (·.2)).filter (· != B) = [] := by
  induction cs with
  | nil => simp
  | cons c cs ih =>
    simp only [List.map_cons, List.length_cons, List.replicate_succ]
    rw [List.filter_cons_of_pos (by simp), List.filter_cons_of_neg (by simp)]
    exact ⟨by rw [ih.1], ih.2⟩

/-- the structural plan form implies the decidable C05 shape and the exact piece total -/
theorem planShape_of_form (B : Int) (hB : 1 ≤ B) (pieces : Int) (hp : 0 < pieces) (ids : List String) (p : CpuMap)
    (h : PlanForm B (pieces.tdiv B).toNat (pieces.tmod B) ids p) :
    planShape B pieces p = true ∧ planTotal p = pieces := by
  have hp' : 0 ≤ pieces := by omega
  have hdiv : pieces.tdiv B = pieces / B := Int.tdiv_eq_ediv_of_nonneg hp'
  have hmod : pieces.tmod B = pieces % B := Int.tmod_eq_emod_of_nonneg hp'
  have hq0 : 0 ≤ pieces / B := Int.ediv_nonneg hp' (by omega)
  have hm0 : 0 ≤ pieces % B := Int.emod_nonneg _ (by omega)
  have hmB : pieces % B < B := Int.emod_lt_of_pos _ (by omega)
  have hid : pieces % B + pieces / B * B = pieces := Int.emod_add_ediv_mul pieces B
  rw [hdiv, hmod] at h
  obtain ⟨picked, tail, rfl, hl, ht, hn, _⟩ := h
  obtain ⟨f1, f2⟩ := filter_vals_map B picked
  unfold planShape planTotal
  simp only [List.map_append, List.filter_append, List.sum_append, f1, f2, sum_replicate_map, hl,
    Bool.and_eq_true, decide_eq_true_eq, List.nil_append, List.length_append, List.length_replicate]
  rcases ht with ⟨hz, rfl⟩ | ⟨hnz, gid, rfl⟩
  · simp only [List.map_nil, List.filter_nil, List.length_nil, List.sum_nil, hz, if_true]
    refine ⟨⟨⟨by omega, trivial⟩, hn⟩, ?_⟩
    rw [Int.toNat_of_nonneg hq0]; rw [hz] at hid; rw [Int.mul_comm]; omega
  · have hne : (pieces % B == B) = false := by simpa using (by omega : pieces % B ≠ B)
    have hne' : (pieces % B != B) = true := by simp [bne, hne]
    simp only [List.map_cons, List.map_nil, List.filter_cons, hne, hne', Bool.false_eq_true, if_false, if_true, List.filter_nil,
      List.length_nil, List.sum_cons, List.sum_nil, hnz]
    refine ⟨⟨⟨by omega, trivial⟩, hn⟩, ?_⟩
    rw [Int.toNat_of_nonneg hq0, Int.mul_comm]; omega

end Eru.CpuMem
