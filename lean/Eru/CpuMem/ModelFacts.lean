import Eru.CpuMem.Calculate
/-
Named pieces of the cpumem scheduler model (comparators, core classification, integer guards, loop
conditions, dispatch conditions) in the surface form the fact translator emits from the Go source,
each proved to be what the model actually uses.  Eru/Generated/SchedFacts.lean (regenerated from
/repo on every run) proves `generated = these`, so an edit to any of these expressions in
schedule.go / calculate.go / types/workload.go breaks a proof obligation.
-/
namespace Eru.CpuMem.Facts
open Eru Eru.CpuMem

/-! ### schedule.go -/

/-- `cpuCore.Less` -/
def coreLess (c c1 : Core) : Bool := if c.pieces == c1.pieces then c.id < c1.id else c.pieces < c1.pieces
theorem coreLess_is_model (c c1 : Core) : coreLess c c1 = Core.less c c1 := by
  unfold coreLess Core.less; by_cases h : c.pieces = c1.pieces <;> simp [h]

/-- `cpuCoreHeap.Less` -/
def heapLess (a b : Core) : Bool := !((Core.less a b))
theorem heapLess_is_model : @heapLess = @Eru.CpuMem.heapLess := rfl

/-- `newHost`: a core is a full core -/
def fullCore (shareBase pieces : Int) : Bool := (pieces ≥ shareBase) && (((pieces.tmod shareBase)) == 0)
theorem isFull_is_fullCore (B : Int) (c : Core) : isFull B c = fullCore B c.pieces := by
  unfold isFull fullCore; rw [Bool.eq_iff_iff]; simp [GE.ge]

/-- `newHost`: otherwise a core with pieces left is a fragment core -/
def fragCore (pieces : Int) : Bool := pieces > 0
theorem newHost_uses (m : CpuMap) (B : Int) :
    newHost m B =
      { full := ssort Core.le ((m.map fun kv => Core.mk kv.1 kv.2).filter fun c => fullCore B c.pieces),
        frag := ssort Core.le ((m.map fun kv => Core.mk kv.1 kv.2).filter fun c => !fullCore B c.pieces && fragCore c.pieces) } := by
  have e : isFull B = fun c => fullCore B c.pieces := funext (isFull_is_fullCore B)
  unfold newHost
  simp only [e, fragCore, GT.gt]

/-- `host.getCPUPlans`: nothing to plan -/
def noPieces (piecesRequest : Int) : Bool := piecesRequest ≤ 0
theorem hostPlans_noPieces (B maxShare : Int) (aff : Bool) (h : Host) (p : Int) (hp : noPieces p = true) :
    hostPlans B maxShare aff h p = .ok [] := by
  simp only [noPieces, decide_eq_true_eq] at hp
  unfold hostPlans; simp [hp]

/-- `host.getCPUPlans`: max-share unlimited (-1) or above what the host can offer -/
def maxShareUnbounded (maxShare maxFragmentCores : Int) : Bool := (maxShare == -1) || (maxShare > maxFragmentCores)
/-- the effective number of fragment cores the model uses -/
def effMaxFrag (maxShare maxFrag0 : Int) : Int := if maxShareUnbounded maxShare maxFrag0 = true then maxFrag0 else maxShare
theorem effMaxFrag_is_model (maxShare maxFrag0 : Int) :
    effMaxFrag maxShare maxFrag0 = (if maxShare = -1 ∨ maxFrag0 < maxShare then maxFrag0 else maxShare) := by
  unfold effMaxFrag maxShareUnbounded
  by_cases h1 : maxShare = -1 <;> by_cases h2 : maxFrag0 < maxShare <;> simp [h1, h2, GT.gt]

/-- `host.getCPUPlans`: whole cores only / one fragment only / clamp of the conversion count -/
def onlyFull (fragment : Int) : Bool := fragment == 0
def onlyFragment (full : Int) : Bool := full == 0
def diffNegative (diff : Int) : Bool := diff < 0
theorem clamp_is_model (d : Int) : max d 0 = (if diffNegative d = true then 0 else d) := by
  unfold diffNegative; by_cases h : d < 0 <;> simp [h] <;> omega

/-- `host.getCPUPlans`: the conversion loop continues / a better combination was found -/
def convertMore (nfrag maxFrag : Int) : Bool := nfrag < maxFrag
def betterCapacity (capacity bestCapacity : Int) : Bool := capacity > bestCapacity
theorem convertLoop_cons (B : Int) (aff : Bool) (full fragment maxFrag : Int) (c : Core) (rest fragCores : List Core)
    (total : Int) (best : Best) :
    convertLoop B aff full fragment maxFrag (c :: rest) fragCores total best =
      if convertMore fragCores.length maxFrag = true then
        (match getFullPlans B aff rest full with
         | .ok fullPlans =>
           convertLoop B aff full fragment maxFrag rest (fragCores ++ [c]) (total + c.pieces.tdiv fragment)
             (if betterCapacity (min (fullPlans.length : Int) (total + c.pieces.tdiv fragment)) best.cap = true then
                { fullPlans := fullPlans, fragPlans := getFragmentPlans (fragCores ++ [c]) fragment,
                  cap := min (fullPlans.length : Int) (total + c.pieces.tdiv fragment) }
              else best)
         | .err e => .err e
         | .panic m => .panic m
         | .diverge => .diverge)
      else .ok best := by
  simp only [convertLoop, convertMore, betterCapacity, GT.gt, decide_eq_true_eq]
  rfl

/-- `doGetCPUPlans`: memory truncation guards -/
def memRequested (memoryRequest : Int) : Bool := memoryRequest > 0
def memCapNegative (memoryCapacity : Int) : Bool := memoryCapacity < 0
def memCapShort (memoryCapacity n : Int) : Bool := memoryCapacity < n
/-- the truncation the model applies to a group's plan list -/
def truncate (availMem memReq : Int) (plans : List CpuMap) : List CpuMap :=
  if memRequested memReq = true then
    let cap := if memCapNegative (availMem.tdiv memReq) = true then 0 else availMem.tdiv memReq
    if memCapShort cap plans.length = true then plans.take cap.toNat else plans
  else plans
theorem truncate_is_model (availMem memReq : Int) (plans : List CpuMap) :
    truncate availMem memReq plans =
      (if 0 < memReq then
         (if max (availMem.tdiv memReq) 0 < plans.length then plans.take (max (availMem.tdiv memReq) 0).toNat else plans)
       else plans) := by
  unfold truncate memRequested memCapNegative memCapShort
  have hc : (if availMem.tdiv memReq < 0 then 0 else availMem.tdiv memReq) = max (availMem.tdiv memReq) 0 := by
    by_cases h : availMem.tdiv memReq < 0 <;> simp [h] <;> omega
  simp only [GT.gt, decide_eq_true_eq, hc]
theorem doGetCPUPlans_truncates (origin avail : CpuMap) (availMem B maxShare : Int) (req : Req) (ps : List CpuMap)
    (h : doGetCPUPlans origin avail availMem B maxShare req = .ok ps) :
    ∃ plans, ps = truncate availMem req.mem plans := by
  unfold doGetCPUPlans at h
  simp only [] at h
  split at h
  · rename_i plans _
    refine ⟨plans, ?_⟩
    rw [truncate_is_model]
    split at h
    · split at h
      · rename_i h1 h2; cases h; rw [if_pos h1, if_pos h2]
      · rename_i h1 h2; cases h; rw [if_pos h1, if_neg h2]
    · rename_i h1; cases h; rw [if_neg h1]
  · rename_i o hne
    cases o <;> simp_all

/-- `GetCPUPlans`: a NUMA group gets the node's remaining memory when that is less than the NUMA node's -/
def nodeMemLess (mem numaMemory : Int) : Bool := mem < numaMemory
theorem numaGroupMem_is_model (numaMemory mem : Int) :
    min numaMemory mem = (if nodeMemLess mem numaMemory = true then mem else numaMemory) := by
  unfold nodeMemLess; by_cases h : mem < numaMemory <;> simp [h] <;> omega

/-- `getFullCPUPlans` / `getFullCPUPlansWithAffinity`: loop conditions and "the core keeps pieces" -/
def heapMore (n full : Int) : Bool := n ≥ full
def keepsPieces (pieces : Int) : Bool := pieces > 0
theorem heapLoop_stops (B : Int) (full fuel : Nat) (h : Array Core) (hs : heapMore h.size full = false) :
    heapLoop B full (fuel + 1) h = .ok [] := by
  simp only [heapMore, GE.ge, decide_eq_false_iff_not] at hs
  simp only [heapLoop]; rw [if_pos (by omega)]
theorem affinityLoop_stops (B : Int) (full fuel : Nat) (cores : List Core) (hs : heapMore cores.length full = false) :
    affinityLoop B full (fuel + 1) cores = .ok [] := by
  simp only [heapMore, GE.ge, decide_eq_false_iff_not] at hs
  simp only [affinityLoop]; rw [if_pos (by omega)]
theorem decCores_uses (B : Int) (cs : List Core) :
    decCores B cs = cs.filterMap fun c => if keepsPieces (c.pieces - B) = true then some ⟨c.id, c.pieces - B⟩ else none := by
  unfold decCores keepsPieces; simp [GT.gt]

/-! ### calculate.go, types/workload.go -/

/-- `CalculateDeploy`: the memory-only path is taken for requests without cpu-bind -/
def unboundPath (bind : Bool) : Bool := !bind
theorem calculateDeploy_dispatch (info : NodeInfo) (B maxShare count : Int) (raw w : RawReq) (order : List String)
    (hv : raw.validate = .ok w) :
    calculateDeploy info B maxShare count raw order =
      if unboundPath w.bind = true then allocByMemory info count w else allocByCPU info B maxShare count w order := by
  unfold calculateDeploy unboundPath; rw [hv]; cases hb : w.bind <;> simp [hb]

/-- `doAllocByMemory`: not enough memory for `count` instances -/
def memShort (memReq avail count : Int) : Bool := (memReq > 0) && (((avail.tdiv memReq)) < count)
/-- `doAllocByCPU`: not enough plans -/
def plansShort (n deployCount : Int) : Bool := n < deployCount
theorem allocByMemory_memShort (info : NodeInfo) (count : Int) (w : RawReq)
    (hc : ¬ (info.cap.cpuMap.length : Int) * 1000 < w.cpuReq) (h : memShort w.memReq info.available.mem count = true) :
    allocByMemory info count w = .err errInsufficientCapacity := by
  simp only [memShort, GT.gt, Bool.and_eq_true, decide_eq_true_eq] at h
  unfold allocByMemory; rw [if_neg hc, if_pos h]
theorem allocByCPU_plansShort (info : NodeInfo) (B maxShare count : Int) (w : RawReq) (order : List String) (plans : List CpuPlan)
    (hp : getCPUPlans info [] B maxShare w.toReq order = .ok plans) (h : plansShort plans.length count = true) :
    allocByCPU info B maxShare count w order = .err errInsufficientCapacity := by
  simp only [plansShort, decide_eq_true_eq] at h
  unfold allocByCPU; rw [hp]; simp [h]

/-- `WorkloadResourceRequest.Validate`: the memory clauses (integer) -/
def memInvalid (w : RawReq) : Bool := (w.memLim < 0) || (w.memReq < 0)
def memReqDefaults (w : RawReq) : Bool := (w.memReq == 0) && (w.memLim > 0)
def memLimitRaised (w : RawReq) : Bool := ((w.memLim > 0) && (w.memReq > 0)) && (w.memLim < w.memReq)
theorem validate_memInvalid (w : RawReq) (h : memInvalid w.pre = true) : w.validate = .err errInvalid := by
  simp only [memInvalid, Bool.or_eq_true, decide_eq_true_eq] at h
  unfold RawReq.validate; rw [if_pos h]
theorem post_uses_mem (w : RawReq) :
    w.post =
      (let w1 := if memReqDefaults w = true then { w with memReq := w.memLim } else w
       let w2 := if memLimitRaised w1 = true then { w1 with memLim := w1.memReq } else w1
       let w3 := if 0 < w2.cpuReq ∧ 0 < w2.cpuLim ∧ w2.cpuLim < w2.cpuReq then { w2 with cpuLim := w2.cpuReq } else w2
       if w3.bind ∧ 0 < w3.cpuReq ∧ 0 < w3.cpuLim ∧ w3.cpuReq < w3.cpuLim then { w3 with cpuReq := w3.cpuLim } else w3) := by
  unfold RawReq.post memReqDefaults memLimitRaised
  simp only [GT.gt, Bool.and_eq_true, decide_eq_true_eq, beq_iff_eq, and_assoc]

end Eru.CpuMem.Facts
