import Eru.CpuMem.Calculate
/-
Decidable specification predicates for C04/C05/C06/C33.  The oracle evaluates them on the
*implementation's* output; the theorems in Eru/Props state them about the model's output.
-/
namespace Eru.CpuMem
open Eru

/-- pieces of core `id` handed out by all plans together -/
def usedBy (plans : List CpuMap) (id : String) : Int := (plans.map (·.get id)).sum

/-- C04 cores: every planned core exists, gets a positive amount, and the plans together take at
    most its free pieces -/
def fitCores (avail : CpuMap) (plans : List CpuMap) : Bool :=
  plans.all fun p => p.all fun (id, v) =>
    avail.has id && decide (0 < v) && decide (usedBy plans id ≤ avail.get id)

/-- C04 NUMA: a plan tagged with node `n` uses only `n`'s cores, and the plans of `n` fit `n`'s free memory -/
def numaLocal (numa : List (String × String)) (availNumaMem : Eru.Plan) (mem : Int) (plans : List CpuPlan) : Bool :=
  plans.all fun p => p.numa.isEmpty ||
    (p.cpuMap.all (fun (id, _) => numaOf numa id == some p.numa) &&
     decide (((plans.filter fun q => q.numa == p.numa).length : Int) * mem ≤ availNumaMem.get p.numa))

/-- C04 memory: the plans together fit the free memory -/
def fitMemory (availMem mem : Int) (nplans : Nat) : Bool :=
  nplans == 0 || decide (mem ≤ 0) || decide ((nplans : Int) * mem ≤ availMem)

/-- C10's memory clause added to `Validate` (which does not look at memory) -/
def memValid (i : NodeInfo) : Bool := decide (i.use.mem ≤ i.cap.mem)

def planTotal (p : CpuMap) : Int := (p.map (·.2)).sum

/-- C05 shape: `pieces / B` cores at `B` pieces plus, iff `pieces % B ≠ 0`, one core with the remainder;
    all keys distinct -/
def planShape (B pieces : Int) (p : CpuMap) : Bool :=
  let vals := p.map (·.2)
  decide ((vals.filter (· == B)).length = (pieces / B).toNat) &&
  decide (vals.filter (· != B) = (if pieces % B = 0 then [] else [pieces % B])) &&
  decide (p.keys.Nodup)

/-- C05 amount: `total` is a nearest integer to `(num/den)·B` -/
def nearestPieces (num den : Nat) (B total : Int) : Bool :=
  decide (2 * (total * den - num * B).natAbs ≤ den)

/-- C33 scope: every core's capacity is exactly one whole-core share -/
def wholeCoreNode (B : Int) (i : NodeInfo) : Bool := i.cap.cpuMap.all fun (_, v) => v == B

/-- equality of CPU maps as finite maps -/
def mapEq (a b : CpuMap) : Bool :=
  a.all (fun (k, v) => b.has k && b.get k == v) && b.all (fun (k, v) => a.has k && a.get k == v)

end Eru.CpuMem
