import Eru.Basic.GoHeap
import Eru.Basic.GoSort
import Eru.Basic.Float64
import Eru.CpuMem.Types
/-
Model of resource/plugins/cpumem/schedule/schedule.go (after the repairs D3–D6), statement by
statement.  Go `int` = `Int`, `/` and `%` are `Int.tdiv`/`Int.tmod`.

Order conventions
* `newHost` ranges over a Go map and then `sort.SliceStable`s by `(pieces, ID)`, a total order on
  distinct IDs → the result does not depend on the iteration order; modelled by the stable
  insertion sort `ssort`.
* `reorderByAffinity`: `sort.SliceStable` with "cores known to the old host first, in the old
  host's order; unknown cores keep their relative order" (for ≤ 20 cores `SliceStable` is one
  insertion sort and the position-dependent comparator `i < j` never swaps).
* `getFullCPUPlans` ends with `sort.Slice` on `sumOfIDs`: insertion sort for ≤ 12 plans (exact);
  beyond that pdqsort's tie order is not modelled (the oracle compares modulo ties there).
* `GetCPUPlans` ranges over a map of NUMA nodes: the visiting order is the parameter `order`.

Loops: `getFullCPUPlans` / `getFullCPUPlansWithAffinity` recurse on fuel `Σ pieces + 1`; running out
of fuel is `.diverge`.  `Eru.Props.C06` proves this is unreachable when `full ≥ 1`.
-/
namespace Eru.CpuMem
open Eru

structure Core where
  id : String
  pieces : Int
  deriving Repr, DecidableEq, Inhabited

/-- `cpuCore.Less` -/
def Core.less (c c1 : Core) : Bool :=
  if c.pieces = c1.pieces then decide (c.id < c1.id) else decide (c.pieces < c1.pieces)

/-- `cpuCoreHeap.Less(i, j) = !c[i].Less(c[j])` -/
def heapLess (a b : Core) : Bool := !a.less b

/-- `≤` for the stable sort by `Less` -/
def Core.le (a b : Core) : Bool := !b.less a

def isFull (B : Int) (c : Core) : Bool := decide (B ≤ c.pieces) && decide (c.pieces.tmod B = 0)

/-- stable insertion sort (`sort.SliceStable` with a strict-weak-order comparator has exactly one
    possible result: the stable sorted permutation); structural, so the kernel can evaluate it -/
def insSorted {α : Type} (le : α → α → Bool) (x : α) : List α → List α
  | [] => [x]
  | y :: ys => if le x y then x :: y :: ys else y :: insSorted le x ys

def ssort {α : Type} (le : α → α → Bool) (l : List α) : List α := l.foldr (insSorted le) []

structure Host where
  full : List Core
  frag : List Core
  deriving Repr, DecidableEq, Inhabited

/-- `newHost` -/
def newHost (m : CpuMap) (B : Int) : Host :=
  let cs := m.map fun kv => Core.mk kv.1 kv.2
  { full := ssort Core.le (cs.filter (isFull B)),
    frag := ssort Core.le (cs.filter fun c => !isFull B c && decide (0 < c.pieces)) }

/-- `orderMap[id]`: index+1 of `id` in the old host's list, 0 when absent -/
def orderIdx (old : List Core) (id : String) : Nat :=
  match old.findIdx? (fun c => c.id == id) with
  | some i => i + 1
  | none => 0

/-- one `sort.SliceStable(…, sortFunc(orderMap, cores))` of `reorderByAffinity` -/
def reorder (old new : List Core) : List Core :=
  ssort (fun a b => decide (orderIdx old a.id ≤ orderIdx old b.id)) (new.filter fun c => orderIdx old c.id != 0)
    ++ new.filter fun c => orderIdx old c.id == 0

/-- `getFragmentCPUPlans` (`fragment ≥ 1`) -/
def getFragmentPlans (cores : List Core) (fragment : Int) : List CpuMap :=
  cores.flatMap fun c => List.replicate (c.pieces.tdiv fragment).toNat [(c.id, fragment)]

/-- the map literal built by `plan[core.ID] = shareBase` for each picked core -/
def planOfCores (B : Int) (cs : List Core) : CpuMap := cs.foldl (fun p c => p.set c.id B) []

def totalPieces (cs : List Core) : Int := (cs.map (·.pieces)).sum

/-! ### getFullCPUPlansWithAffinity -/

/-- cores that keep pieces after giving `B` (`tempCores`) -/
def decCores (B : Int) (cs : List Core) : List Core :=
  cs.filterMap fun c => if 0 < c.pieces - B then some ⟨c.id, c.pieces - B⟩ else none

/-- the plans of one `for i := 0; i < count; i++` pass: consecutive groups of `full` cores -/
def groupPlans (B : Int) (full : Nat) : Nat → List Core → List CpuMap
  | 0, _ => []
  | count + 1, cs => planOfCores B (cs.take full) :: groupPlans B full count (cs.drop full)

def affinityLoop (B : Int) (full : Nat) : Nat → List Core → Outcome (List CpuMap)
  | 0, cores => if full ≤ cores.length then .diverge else .ok []
  | fuel + 1, cores =>
    if cores.length < full then .ok []
    else
      let count := cores.length / full
      let used := cores.take (count * full)
      let next := decCores B used ++ cores.drop (count * full)
      match affinityLoop B full fuel next with
      | .ok rest => .ok (groupPlans B full count used ++ rest)
      | o => o

def getFullPlansAffinity (B : Int) (cores : List Core) (full : Int) : Outcome (List CpuMap) :=
  if full = 0 then .panic "integer divide by zero"
  else if full < 0 then .diverge
  else affinityLoop B full.toNat ((totalPieces cores).toNat + 1) cores

/-! ### getFullCPUPlans (heap) -/

/-- the inner `for i := 0; i < full; i++ { core := heap.Pop … }`; `none` = Pop on an empty heap -/
def popN (B : Int) : Nat → Array Core → List Core → List Core → Option (Array Core × List Core × List Core)
  | 0, h, picked, toPush => some (h, picked, toPush)
  | n + 1, h, picked, toPush =>
    match GoHeap.pop heapLess h with
    | none => none
    | some (c, h') =>
      popN B n h' (picked ++ [c]) (if 0 < c.pieces - B then toPush ++ [⟨c.id, c.pieces - B⟩] else toPush)

def heapLoop (B : Int) (full : Nat) : Nat → Array Core → Outcome (List CpuMap)
  | 0, h => if full ≤ h.size then .diverge else .ok []
  | fuel + 1, h =>
    if h.size < full then .ok []
    else match popN B full h [] [] with
      | none => .panic "pop from empty heap"
      | some (h', picked, toPush) =>
        match heapLoop B full fuel (toPush.foldl (GoHeap.push heapLess) h') with
        | .ok rest => .ok (planOfCores B picked :: rest)
        | o => o

/-- `indexMap[id]` (position in `cores`; 0 when absent) -/
def indexOf (cores : List Core) (id : String) : Int :=
  match cores.findIdx? (fun c => c.id == id) with
  | some i => i
  | none => 0

def sumOfIDs (cores : List Core) (p : CpuMap) : Int := (p.map fun kv => indexOf cores kv.1).sum

def getFullPlansHeap (B : Int) (cores : List Core) (full : Int) : Outcome (List CpuMap) :=
  if full ≤ 0 then .diverge       -- `for cpuHeap.Len() >= full` with full ≤ 0 never ends
  else
    match heapLoop B full.toNat ((totalPieces cores).toNat + 1) (GoHeap.init heapLess cores.toArray) with
    | .ok plans => .ok (GoSort.isort (fun a b => decide (sumOfIDs cores a < sumOfIDs cores b)) plans)
    | o => o

def getFullPlans (B : Int) (aff : Bool) (cores : List Core) (full : Int) : Outcome (List CpuMap) :=
  if aff then getFullPlansAffinity B cores full else getFullPlansHeap B cores full

/-! ### host.getCPUPlans -/

structure Best where
  fullPlans : List CpuMap
  fragPlans : List CpuMap
  cap : Int
  deriving Repr, DecidableEq, Inhabited

/-- `for len(h.fragmentCores) < h.maxFragmentCores { … }` — structural on `fullCores`
    (each pass removes `fullCores[0]`); `fullCores[0]` on an empty slice is a panic. -/
def convertLoop (B : Int) (aff : Bool) (full fragment maxFrag : Int) :
    List Core → List Core → Int → Best → Outcome Best
  | [], fragCores, _, best =>
    if (fragCores.length : Int) < maxFrag then .panic "index out of range [0]" else .ok best
  | c :: rest, fragCores, totalFragCap, best =>
    if (fragCores.length : Int) < maxFrag then
      let fragCores' := fragCores ++ [c]
      let total' := totalFragCap + c.pieces.tdiv fragment
      match getFullPlans B aff rest full with
      | .ok fullPlans =>
        let capacity := min (fullPlans.length : Int) total'
        let best' := if best.cap < capacity then
            { fullPlans := fullPlans, fragPlans := getFragmentPlans fragCores' fragment, cap := capacity }
          else best
        convertLoop B aff full fragment maxFrag rest fragCores' total' best'
      | .err e => .err e
      | .panic m => .panic m
      | .diverge => .diverge
    else .ok best

/-- `cpuMap.Add(fullCPUPlans[i]); cpuMap.Add(fragmentCPUPlans[i])` for `i < bestCapacity` -/
def zipPlans : Nat → List CpuMap → List CpuMap → Outcome (List CpuMap)
  | 0, _, _ => .ok []
  | n + 1, f :: fs, g :: gs =>
    match zipPlans n fs gs with
    | .ok rest => .ok (mapAdd (mapAdd [] f) g :: rest)
    | o => o
  | _ + 1, _, _ => .panic "index out of range"

/-- `host.getCPUPlans` given `piecesRequest` -/
def hostPlans (B maxShare : Int) (aff : Bool) (h : Host) (pieces : Int) : Outcome (List CpuMap) :=
  if pieces ≤ 0 then .ok [] else                      -- D4 repair
  let full := pieces.tdiv B
  let fragment := pieces.tmod B
  let maxFrag0 : Int := h.full.length + h.frag.length - full
  let maxFrag := if maxShare = -1 ∨ maxFrag0 < maxShare then maxFrag0 else maxShare
  if fragment = 0 then getFullPlans B aff h.full full
  else if full = 0 then
    let diff := max (maxFrag - h.frag.length) 0         -- D5 repair (clamp)
    if (h.full.length : Int) < diff then .panic "slice bounds out of range"
    else .ok (getFragmentPlans (h.frag ++ h.full.take diff.toNat) fragment)
  else
    match getFullPlans B aff h.full full with
    | .ok fullPlans =>
      let fragPlans := getFragmentPlans h.frag fragment
      let best0 : Best := { fullPlans := fullPlans, fragPlans := fragPlans, cap := min fullPlans.length fragPlans.length }
      let total0 := ((h.frag.map fun c => c.pieces.tdiv fragment).sum)
      match convertLoop B aff full fragment maxFrag h.full h.frag total0 best0 with
      | .ok best => zipPlans best.cap.toNat best.fullPlans best.fragPlans
      | .err e => .err e
      | .panic m => .panic m
      | .diverge => .diverge
    | o => o

/-- `int(math.Round(cpuRequest * float64(shareBase)))` (D3 repair) -/
def piecesRequest (req : Req) (B : Int) : Int := Float64.piecesRound req.cpuNum req.cpuDen B.toNat

/-- `doGetCPUPlans` -/
def doGetCPUPlans (origin avail : CpuMap) (availMem : Int) (B maxShare : Int) (req : Req) : Outcome (List CpuMap) :=
  let h := newHost avail B
  let (h, aff) :=
    if origin.isEmpty then (h, false)
    else
      let oh := newHost origin B
      ({ full := reorder oh.full h.full, frag := reorder oh.frag h.frag }, true)
  match hostPlans B maxShare aff h (piecesRequest req B) with
  | .ok plans =>
    if 0 < req.mem then
      let memCap := max (availMem.tdiv req.mem) 0       -- D6 repair (clamp)
      if memCap < plans.length then .ok (plans.take memCap.toNat) else .ok plans
    else .ok plans
  | o => o

/-- the CPU map of one NUMA node: `numaCPUMap[node][cpu] = available.CPUMap[cpu]`, built before the
    loop from the initial available map (NUMA nodes partition the cores, so no group sees another's use) -/
def numaCpuMap (numa : List (String × String)) (avail : CpuMap) (node : String) : CpuMap :=
  (numa.filter fun cn => cn.2 == node).map fun cn => (cn.1, avail.get cn.1)

/-- `availableResource.Sub(…)` for every plan of one NUMA group -/
def subPlans (avail : NodeRes) (node : String) (mem : Int) (plans : List CpuMap) : NodeRes :=
  plans.foldl (fun a p => a.sub { cpuMap := p, mem := mem, numaMem := [(node, mem)] }) avail

def numaLoop (origin : CpuMap) (numa : List (String × String)) (avail0 : CpuMap) (B maxShare : Int) (req : Req) :
    List String → NodeRes → List CpuPlan → Outcome (List CpuPlan × NodeRes)
  | [], avail, acc => .ok (acc, avail)
  | node :: rest, avail, acc =>
    let numaMem := min (avail.numaMem.get node) avail.mem   -- D6 repair (cap by node memory)
    match doGetCPUPlans origin (numaCpuMap numa avail0 node) numaMem B maxShare req with
    | .ok plans =>
      numaLoop origin numa avail0 B maxShare req rest (subPlans avail node req.mem plans)
        (acc ++ plans.map fun p => ⟨node, p⟩)
    | .err e => .err e
    | .panic m => .panic m
    | .diverge => .diverge

/-- distinct NUMA node ids of `Capacity.NUMA` (keys of `numaCPUMap`) in first-occurrence order -/
def numaNodes (numa : List (String × String)) : List String :=
  numa.foldl (fun acc cn => if acc.contains cn.2 then acc else acc ++ [cn.2]) []

/-- `schedule.GetCPUPlans`; `order` = the order in which Go's map iteration visits the NUMA nodes -/
def getCPUPlans (info : NodeInfo) (origin : CpuMap) (B maxShare : Int) (req : Req) (order : List String) :
    Outcome (List CpuPlan) :=
  if B ≤ 0 then .panic "share base must be positive (not modelled)" else
  match numaLoop origin info.cap.numa info.available.cpuMap B maxShare req order info.available [] with
  | .ok (acc, avail) =>
    match doGetCPUPlans origin avail.cpuMap avail.mem B maxShare req with
    | .ok cross => .ok (acc ++ cross.map fun p => ⟨"", p⟩)
    | .err e => .err e
    | .panic m => .panic m
    | .diverge => .diverge
  | .err e => .err e
  | .panic m => .panic m
  | .diverge => .diverge

end Eru.CpuMem
