import Eru.CpuMem.ProofsCommit
/-
NUMA memory: the plans of every NUMA group fit that node's free NUMA memory (through the running
subtraction), and committing a prefix of the plans keeps the NUMA block of `Validate`.
-/
namespace Eru.CpuMem
open Eru

/-- number of plans tagged with NUMA node `n` -/
def cnt (l : List CpuPlan) (n : String) : Nat := (l.filter fun q => q.numa == n).length

theorem cnt_append (a b : List CpuPlan) (n : String) : cnt (a ++ b) n = cnt a n + cnt b n := by
  simp [cnt, List.filter_append]

theorem cnt_map_tag (plans : List CpuMap) (node n : String) :
    cnt (plans.map fun p => (⟨node, p⟩ : CpuPlan)) n = if node = n then plans.length else 0 := by
  unfold cnt
  induction plans with
  | nil => simp
  | cons p ps ih =>
    simp only [List.map_cons, List.filter_cons]
    by_cases h : node = n
    · simp only [h, beq_self_eq_true, if_true, List.length_cons] at ih ⊢; omega
    · have : (node == n) = false := by simpa using h
      simp only [this, Bool.false_eq_true, if_false, h] at ih ⊢
      try exact ih

theorem subPlans_numaMem (avail : NodeRes) (node : String) (mem : Int) (plans : List CpuMap) (n : String) :
    (subPlans avail node mem plans).numaMem.get n = avail.numaMem.get n - (if node = n then (plans.length : Int) * mem else 0) := by
  unfold subPlans
  induction plans generalizing avail with
  | nil => simp
  | cons p ps ih =>
    simp only [List.foldl_cons, List.length_cons]
    rw [ih]
    simp only [NodeRes.sub, mapSub, List.foldl_cons, List.foldl_nil]
    rw [Plan.get_add]
    by_cases h : node = n
    · simp only [h, if_true, Int.natCast_succ, Int.add_mul]; omega
    · simp only [h, if_false]; try omega

theorem numaLoop_numaMem (origin : CpuMap) (numa : List (String × String)) (avail0 : CpuMap) (B maxShare : Int)
    (req : Req) (hm : 0 < req.mem) (order : List String) (hord : order.Nodup) (avail : NodeRes)
    (acc acc' : List CpuPlan) (avail' : NodeRes)
    (h : numaLoop origin numa avail0 B maxShare req order avail acc = .ok (acc', avail')) :
    ∃ new, acc' = acc ++ new ∧
      ∀ n, (cnt new n : Int) * req.mem ≤ (if order.contains n then max (avail.numaMem.get n) 0 else 0) := by
  induction order generalizing avail acc with
  | nil =>
    simp only [numaLoop] at h
    cases h
    exact ⟨[], by simp, fun n => by simp [cnt]⟩
  | cons node rest ih =>
    simp only [List.nodup_cons] at hord
    simp only [numaLoop] at h
    split at h
    · rename_i plans hp
      have hlen := doGetCPUPlans_mem _ _ _ _ _ _ _ hp hm
      obtain ⟨new2, e2, hb⟩ := ih hord.2 _ _ h
      refine ⟨(plans.map fun p => ⟨node, p⟩) ++ new2, by rw [e2, List.append_assoc], ?_⟩
      intro n
      have h2 := hb n
      rw [subPlans_numaMem] at h2
      rw [cnt_append, cnt_map_tag, Int.natCast_add, Int.add_mul]
      by_cases hn : node = n
      · subst hn
        have hc1 : rest.contains node = false := by simpa using hord.1
        have hc2 : (node :: rest).contains node = true := by simp
        rw [hc1] at h2; rw [hc2]
        simp only [if_true, Bool.false_eq_true, if_false] at h2 ⊢
        omega
      · have hc2 : (node :: rest).contains n = rest.contains n := by
          simp only [List.contains_cons]
          have : (n == node) = false := by simpa using (fun e => hn e.symm)
          rw [this]; simp
        rw [hc2]
        simp only [hn, if_false, Int.sub_zero, Int.natCast_zero, Int.zero_mul, Int.zero_add] at h2 ⊢
        exact h2
    · cases h
    · cases h
    · cases h

/-- **NUMA memory**: for a positive memory request the plans tagged with NUMA node `n` together need
    at most `n`'s free NUMA memory (any node state, any order without repetition). -/
theorem getCPUPlans_numa_memory (info : NodeInfo) (origin : CpuMap) (B maxShare : Int) (req : Req)
    (order : List String) (hord : order.Nodup) (hm : 0 < req.mem) (ps : List CpuPlan)
    (h : getCPUPlans info origin B maxShare req order = .ok ps) (n : String) (hn : n ≠ "") :
    (cnt ps n : Int) * req.mem ≤ max (info.available.numaMem.get n) 0 := by
  unfold getCPUPlans at h
  split at h
  · cases h
  · split at h
    · rename_i acc avail hl
      obtain ⟨new, e, hb⟩ := numaLoop_numaMem _ _ _ _ _ _ hm order hord _ _ _ _ hl
      simp only [List.nil_append] at e
      split at h
      · rename_i cross _
        cases h
        rw [cnt_append, e]
        have hz : cnt (cross.map fun p => (⟨"", p⟩ : CpuPlan)) n = 0 := by
          rw [cnt_map_tag, if_neg (fun e : "" = n => hn e.symm)]
        rw [hz, Nat.add_zero]
        have := hb n
        split at this <;> omega
      all_goals cases h
    all_goals cases h


/-! ### committing on a NUMA node -/

theorem commitUsage_numaMem (use : NodeRes) (ws : List Workload) (hu : use.numaMem.keys.Nodup)
    (hw : ∀ w ∈ ws, w.numaMem.keys.Nodup) (k : String) :
    (commitUsage use ws).numaMem.get k = use.numaMem.get k + (ws.map fun w => w.numaMem.get k).sum := by
  unfold commitUsage
  induction ws generalizing use with
  | nil => simp
  | cons w ws ih =>
    simp only [List.foldl_cons, List.map_cons, List.sum_cons]
    obtain ⟨m1, m2, _⟩ := mapAdd_spec use.numaMem w.numaMem hu (hw w (List.mem_cons_self ..))
    rw [ih (use.add { cpuMap := w.cpuMap, mem := w.memReq, numaMem := w.numaMem }) (by simpa [NodeRes.add] using m1)
      (fun w' hw' => hw w' (List.mem_cons_of_mem _ hw'))]
    simp only [NodeRes.add]
    rw [m2 k]; omega

/-- the NUMA memory a workload built from plan `p` records -/
def tagMem (mem : Int) (p : CpuPlan) : Eru.Plan := if p.numa.isEmpty then [] else [(p.numa, mem)]

theorem tagMem_get (mem : Int) (p : CpuPlan) (k : String) :
    (tagMem mem p).get k = if p.numa ≠ "" ∧ p.numa = k then mem else 0 := by
  unfold tagMem
  by_cases he : p.numa = ""
  · simp [he]
  · have : p.numa.isEmpty = false := by
      cases hh : p.numa.isEmpty with
      | false => rfl
      | true => exact absurd (String.isEmpty_iff.mp hh) he
    simp only [this, Bool.false_eq_true, if_false, Plan.get, he, ne_eq, not_false_eq_true, true_and]

theorem sum_tagMem (mem : Int) (l : List CpuPlan) (k : String) (hk : k ≠ "") :
    (l.map fun p => (tagMem mem p).get k).sum = (cnt l k : Int) * mem := by
  induction l with
  | nil => simp [cnt]
  | cons p ps ih =>
    rw [List.map_cons, List.sum_cons, ih, tagMem_get]
    unfold cnt
    simp only [List.filter_cons]
    by_cases h : p.numa = k
    · have hne : p.numa ≠ "" := by rw [h]; exact hk
      simp only [h, beq_self_eq_true, if_true, List.length_cons, Int.natCast_succ, Int.add_mul, ne_eq, hk, not_false_eq_true, and_self]
      omega
    · have : (p.numa == k) = false := by simpa using h
      simp only [this, Bool.false_eq_true, if_false, h, and_false]; omega

theorem sum_tagMem_nonneg (mem : Int) (hm : 0 ≤ mem) (l : List CpuPlan) (k : String) :
    0 ≤ (l.map fun p => (tagMem mem p).get k).sum := by
  induction l with
  | nil => simp
  | cons p ps ih =>
    rw [List.map_cons, List.sum_cons, tagMem_get]
    split <;> omega

theorem sum_tagMem_empty (mem : Int) (l : List CpuPlan) : (l.map fun p => (tagMem mem p).get "").sum = 0 := by
  induction l with
  | nil => simp
  | cons p ps ih =>
    rw [List.map_cons, List.sum_cons, ih, tagMem_get]
    rw [if_neg (by intro ⟨a, b⟩; exact a b)]; rfl

theorem cnt_take_le (l : List CpuPlan) (n : Nat) (k : String) : cnt (l.take n) k ≤ cnt l k := by
  unfold cnt
  exact ((List.take_sublist n l).filter _).length_le

/-- **the NUMA block of `Validate` survives a commit**: valid node, any prefix of the plans returned by
    `GetCPUPlans`, workloads recording `{numa: mem}` exactly as `doAllocByCPU` does. -/
theorem commit_numa_clause (info : NodeInfo) (origin : CpuMap) (B maxShare : Int) (req : Req) (order : List String)
    (ps : List CpuPlan) (n : Nat) (ws : List Workload) (hord : order.Nodup) (hval : info.validate = true)
    (hcm : info.cap.numaMem.keys.Nodup) (hum : info.use.numaMem.keys.Nodup) (hmem0 : 0 ≤ req.mem)
    (h : getCPUPlans info origin B maxShare req order = .ok ps)
    (hws3 : ws.map (·.numaMem) = (ps.take n).map (tagMem req.mem)) :
    ({ info with use := commitUsage info.use ws } : NodeInfo).validateNuma = true := by
  unfold NodeInfo.validate at hval
  simp only [Bool.and_eq_true] at hval
  have hv3 := hval.2
  unfold NodeInfo.validateNuma at hv3 ⊢
  simp only [Bool.or_eq_true, Bool.and_eq_true, List.all_eq_true, decide_eq_true_eq] at hv3 ⊢
  rcases hv3 with he | ⟨hA, hBm⟩
  · left; exact he
  · right
    refine ⟨hA, ?_⟩
    intro kv hkv
    obtain ⟨k, m⟩ := kv
    obtain ⟨⟨hm0, hu0⟩, hum1⟩ := hBm (k, m) hkv
    simp only [] at hm0 hu0 hum1 ⊢
    have hwk : ∀ w ∈ ws, w.numaMem.keys.Nodup := by
      intro w hw
      have : w.numaMem ∈ (ps.take n).map (tagMem req.mem) := by rw [← hws3]; exact List.mem_map_of_mem hw
      obtain ⟨p, _, e⟩ := List.mem_map.mp this
      rw [← e]; unfold tagMem; split <;> simp [Plan.keys]
    have hsum : (ws.map fun w => w.numaMem.get k).sum = ((ps.take n).map fun p => (tagMem req.mem p).get k).sum := by
      have : (ws.map fun w => w.numaMem.get k) = (ws.map (·.numaMem)).map (fun q => Plan.get q k) := by
        rw [List.map_map]; rfl
      rw [this, hws3, List.map_map]; rfl
    rw [commitUsage_numaMem info.use ws hum hwk k, hsum]
    have hnn := sum_tagMem_nonneg req.mem hmem0 (ps.take n) k
    refine ⟨⟨hm0, by omega⟩, ?_⟩
    by_cases hk : k = ""
    · subst hk; rw [sum_tagMem_empty]; omega
    · rw [sum_tagMem req.mem _ k hk]
      rcases Int.lt_or_le 0 req.mem with hpos | hle
      · have hnm := getCPUPlans_numa_memory info origin B maxShare req order hord hpos ps h k hk
        have hav : info.available.numaMem.get k = info.cap.numaMem.get k - info.use.numaMem.get k :=
          (mapSub_spec info.cap.numaMem info.use.numaMem hcm hum).2 k
        have hcg : info.cap.numaMem.get k = m := get_of_mem_nodup _ k m hkv hcm
        have hle1 : (cnt (ps.take n) k : Int) ≤ cnt ps k := by exact_mod_cast cnt_take_le ps n k
        have hmono : (cnt (ps.take n) k : Int) * req.mem ≤ (cnt ps k : Int) * req.mem :=
          Int.mul_le_mul_of_nonneg_right hle1 hmem0
        rw [hav, hcg] at hnm
        omega
      · have : req.mem = 0 := by omega
        rw [this]; simp; omega

end Eru.CpuMem
