import Eru.Basic.Outcome
import Eru.Basic.AssocMap
/-
Data of the cpumem plugin (resource/plugins/cpumem/types/{cpu,node,workload}.go).

* `CPUMap`, `NUMAMemory` (Go `map[string]int`/`int64`) are association lists observed through
  `Plan.get` (absent key = 0, exactly Go's zero value) and `Plan.has`.
* `NUMA` (cpu id → NUMA node id) is an association list of strings.
* The float fields `CPU` of `NodeResource` are bookkeeping only (never read by the scheduler,
  by `Validate` or by any result observed here) and are left out.
-/
namespace Eru.CpuMem

abbrev CpuMap := Eru.Plan

structure NodeRes where
  cpuMap : CpuMap := []
  mem : Int := 0
  numaMem : Eru.Plan := []
  numa : List (String × String) := []
  deriving Repr, DecidableEq, Inhabited

structure NodeInfo where
  cap : NodeRes
  use : NodeRes
  deriving Repr, DecidableEq, Inhabited

structure CpuPlan where
  numa : String
  cpuMap : CpuMap
  deriving Repr, DecidableEq, Inhabited

/-- `WorkloadResourceRequest` after `Validate`; the CPU request is the double nearest to
    `cpuNum / cpuDen` (the harness uses thousandths: `cpuDen = 1000`). -/
structure Req where
  bind : Bool
  cpuNum : Nat
  cpuDen : Nat := 1000
  mem : Int
  deriving Repr, DecidableEq, Inhabited

/-- NUMA lookup `numa[cpu]` with presence -/
def numaOf (numa : List (String × String)) (cpu : String) : Option String :=
  match numa with
  | [] => none
  | (c, n) :: rest => if c = cpu then some n else numaOf rest cpu

/-- `CPUMap.Sub` / `NUMAMemory.Sub`: `c[k] -= v` for every entry of `c1` (creates missing keys) -/
def mapSub (c c1 : Eru.Plan) : Eru.Plan := c1.foldl (fun acc kv => acc.add kv.1 (-kv.2)) c
/-- `CPUMap.Add` -/
def mapAdd (c c1 : Eru.Plan) : Eru.Plan := c1.foldl (fun acc kv => acc.add kv.1 kv.2) c

/-- `NodeResource.Sub` (CPUMap, Memory, NUMAMemory) -/
def NodeRes.sub (r r1 : NodeRes) : NodeRes :=
  { r with cpuMap := mapSub r.cpuMap r1.cpuMap, mem := r.mem - r1.mem, numaMem := mapSub r.numaMem r1.numaMem }

/-- `NodeResource.Add`; `if len(r1.NUMA) > 0 { r.NUMA = r1.NUMA }` -/
def NodeRes.add (r r1 : NodeRes) : NodeRes :=
  { cpuMap := mapAdd r.cpuMap r1.cpuMap, mem := r.mem + r1.mem, numaMem := mapAdd r.numaMem r1.numaMem,
    numa := if r1.numa.isEmpty then r.numa else r1.numa }

/-- `GetAvailableResource`: `Capacity.DeepCopy().Sub(Usage)` -/
def NodeInfo.available (i : NodeInfo) : NodeRes := i.cap.sub i.use

def errInvalid : String := "invalid"
def errInsufficientCapacity : String := "insufficient-capacity"
def errInsufficientResource : String := "insufficient"

/-- `NodeResourceInfo.Validate` (usage present).  The Go code returns one of three `ErrInvalid…`
    values depending on map iteration order; the harness maps all of them to `invalid`. -/
def NodeInfo.validateCpu (i : NodeInfo) : Bool :=
  !i.cap.cpuMap.isEmpty &&
  i.use.cpuMap.all (fun (cpu, used) =>
    i.cap.cpuMap.has cpu && decide (0 ≤ i.cap.cpuMap.get cpu) && decide (used ≤ i.cap.cpuMap.get cpu))

/-- the `if len(n.Capacity.NUMA) > 0 { … }` block -/
def NodeInfo.validateNuma (i : NodeInfo) : Bool :=
  i.cap.numa.isEmpty ||
    (i.cap.cpuMap.all (fun (cpu, _) =>
        match numaOf i.cap.numa cpu with
        | none => false
        | some n => i.cap.numaMem.has n) &&
     i.cap.numaMem.all (fun (n, m) =>
        decide (0 ≤ m) && decide (0 ≤ i.use.numaMem.get n) && decide (i.use.numaMem.get n ≤ m)))

def NodeInfo.validate (i : NodeInfo) : Bool := i.validateCpu && i.validateNuma

end Eru.CpuMem
